(* Totality of emission: a referentially closed module never hits an "index not set" / dead-arena
   panic in the section emitters.
   Part 1: [closed] (module-level referential integrity) implies [emit_closed] of Proofs/IndexMaps.v.
   Part 2: gc_sweep preserves [closed] (up to one corner, see [gc_closed_refuted]).
   Part 3: a successfully parsed module is [closed].
   Part 4: corollaries for emitM. *)
From Coq Require Import List NArith ZArith Bool Arith Lia Permutation Sorted.
Import ListNotations.
From WV Require Import Gen.Ops Model.Common Model.IR Model.Arena Model.Traversal Model.EmitFn Model.Locals
                       Model.ParseFn Model.ModuleM Model.ParseM Model.EmitM Model.GC Gen.Attrs.
From WV Require Import Proofs.Arena Proofs.Order Proofs.IndexMaps.
From WV Require Proofs.GC.
Module G := WV.Proofs.GC.
Local Open Scope nat_scope.

(* ====================================================================================== *)
(* Part 1: closed -> emit_closed                                                            *)
(* ====================================================================================== *)

Definition liveF (m : wir) (f : N) : Prop := exists v, aget (m_funcs m) f = Some v.
Definition liveT (m : wir) (t : N) : Prop := exists v, aget (m_tables m) t = Some v.
Definition liveM (m : wir) (t : N) : Prop := exists v, aget (m_memories m) t = Some v.
Definition liveG (m : wir) (g : N) : Prop := exists v, aget (m_globals m) g = Some v.

(* a constant expression mentions only live globals / functions *)
Definition cref_live (m : wir) (c : mconst) : Prop :=
  match c with MC_Global g => liveG m g | MC_RefFunc f => liveF m f | _ => True end.

Definition item_live (m : wir) (k : ekind) (id : N) : Prop :=
  match k with EK_Func => liveF m id | EK_Table => liveT m id | EK_Mem => liveM m id | EK_Global => liveG m id end.

(* Module-level referential integrity, non-body part: everything a live entity mentions outside of
   function bodies is live in the right arena; imported entities are listed by a live import. *)
Record closed (m : wir) : Prop := {
  (* an import's entity is live *)
  cl_imports : forall i, In i (live_imports m) ->
    match im_kind i with
    | MI_Func f => liveF m f | MI_Table t => liveT m t | MI_Mem mm => liveM m mm | MI_Global g => liveG m g
    end;
  (* an entity that says it is imported is the entity of some live import *)
  cl_func_imp : forall f fn i ty, aget (m_funcs m) f = Some fn -> fn_kind fn = FK_Import i ty -> In f (imported_funcs m);
  cl_table_imp : forall t tb, aget (m_tables m) t = Some tb -> tb_import tb <> None -> In t (imported_tables m);
  cl_mem_imp : forall t me, aget (m_memories m) t = Some me -> me_import me <> None -> In t (imported_memories m);
  cl_global_imp : forall g gl i, aget (m_globals m) g = Some gl -> gl_kind gl = GK_Import i -> In g (imported_globals m);
  (* a function's type is a live, non-entry type *)
  cl_func_ty : forall f fn, aget (m_funcs m) f = Some fn ->
    exists t, types_get m (func_ty fn) = Some t /\ ty_entry t = false;
  (* a global initialiser mentions live functions, and live globals that are imported or not younger *)
  cl_globals : forall g gl c, aget (m_globals m) g = Some gl -> gl_kind gl = GK_Local c ->
    match c with
    | MC_Global g' => liveG m g' /\ ((g' <= g)%N \/ In g' (imported_globals m))
    | MC_RefFunc f => liveF m f
    | _ => True
    end;
  cl_exports : forall e, In e (map snd (aiter (m_exports m))) -> item_live m (ex_kind e) (ex_item e);
  cl_start : forall f, m_start m = Some f -> liveF m f;
  cl_elements : forall id e, aget (m_elements m) id = Some e ->
    match el_items e with
    | ELI_Funcs l => forall f, In f l -> liveF m f
    | ELI_Exprs _ es => forall c, In c es -> cref_live m c
    end /\
    match el_kind e with ELK_Active t off => liveT m t /\ cref_live m off | _ => True end;
  cl_data : forall id d, aget (m_data m) id = Some d ->
    match da_kind d with DK_Active mem off => liveM m mem /\ cref_live m off | DK_Passive => True end }.

(* ---------------------------------------------------------------- arena lookups vs iteration *)
Lemma aiter_aget {A} (a : tarena A) id v : In (id, v) (aiter a) <-> aget a id = Some v.
Proof.
  unfold aiter, aget. rewrite <- G.iter_live'. split.
  - intros H. apply in_map_iff in H. destruct H as [[i w] [E H]]. cbn [fst snd] in E. inversion E; subst.
    rewrite Nat2N.id. exact H.
  - intros H. apply in_map_iff. exists (N.to_nat id, v). cbn [fst snd]. rewrite N2Nat.id. auto.
Qed.

Lemma aiter_sorted {A} (a : tarena A) : StronglySorted N.lt (map fst (aiter a)).
Proof.
  rewrite aiter_ids. pose proof (iter_creation_order A a) as H.
  induction H as [|x l Hs IH Hall]; cbn [map]; constructor; [exact IH|].
  rewrite Forall_forall in *. intros y Hy. apply in_map_iff in Hy. destruct Hy as [z [<- Hz]].
  apply Hall in Hz. lia.
Qed.

Lemma sorted_map_filter {A} (f : A -> N) (p : A -> bool) (l : list A) :
  StronglySorted N.lt (map f l) -> StronglySorted N.lt (map f (filter p l)).
Proof.
  induction l as [|a l IH]; cbn [map filter]; intros H; [constructor|].
  inversion H as [|? ? Hs Hall]; subst. destruct (p a); cbn [map]; [constructor|]; auto.
  rewrite Forall_forall in *. intros y Hy. apply Hall. apply in_map_iff in Hy. destruct Hy as [z [<- Hz]].
  apply filter_In in Hz. apply in_map. tauto.
Qed.

Lemma sorted_split (l1 : list N) x l2 : StronglySorted N.lt (l1 ++ x :: l2) -> forall y, In y l2 -> (x < y)%N.
Proof.
  induction l1 as [|a l1 IH]; cbn [app]; intros H y Hy; inversion H as [|? ? Hs Hall]; subst.
  - rewrite Forall_forall in Hall. auto.
  - eapply IH; eauto.
Qed.

(* ---------------------------------------------------------------- emitted types *)
Lemma emitted_types_In m ty t : types_get m ty = Some t -> ty_entry t = false -> In ty (map fst (emitted_types m)).
Proof.
  intros Hg He. unfold emitted_types.
  eapply Permutation_in; [apply Permutation_sym, Permutation_map, sort_types_perm|].
  apply in_map_iff. exists (ty, t). split; [reflexivity|]. apply filter_In. cbn [snd]. rewrite He. split; [|reflexivity].
  unfold live_types, aset_iter. apply in_map_iff. exists (N.to_nat ty, t). cbn [fst snd]. rewrite N2Nat.id.
  split; [reflexivity|]. apply G.iter_live'. exact Hg.
Qed.

(* ---------------------------------------------------------------- local functions *)
Lemma rmapM_ok_all {A B} (f : A -> res B) : forall l bs, rmapM f l = Ok bs -> forall a, In a l -> exists b, f a = Ok b.
Proof.
  intros l bs H. apply rmapM_ok_inv in H. induction H as [|a b l' bs' Ha HF IH]; intros x Hx; [destruct Hx|].
  destruct Hx as [<-|Hx]; eauto.
Qed.

Lemma used_local_functions_init m fs f fn ty : used_local_functions m = Ok fs ->
  aget (m_funcs m) f = Some fn -> fn_kind fn <> FK_Uninit ty.
Proof.
  unfold used_local_functions. intros H Hg. rinv H as l El. clear H.
  apply aiter_aget in Hg. destruct (rmapM_ok_all _ _ _ El _ Hg) as [b Eb]. cbn [snd] in Eb.
  intros Hk. rewrite Hk in Eb. discriminate.
Qed.

(* the entries of [fs] are the local functions of the arena, with their bodies *)
Lemma used_local_functions_entries m fs : used_local_functions m = Ok fs ->
  forall id lf, In (id, lf) fs -> exists fn, aget (m_funcs m) id = Some fn /\ fn_kind fn = FK_Local lf.
Proof.
  rewrite used_local_functions_sort_funcs. intros H id lf Hin. rinv H as l El. inversion H; subst fs; clear H.
  apply in_map_iff in Hin. destruct Hin as [[[sz id'] lf'] [E Hin]]. cbn [fst snd] in E. inversion E; subst; clear E.
  eapply Permutation_in in Hin; [|apply sort_funcs_perm].
  apply rmapM_ok_inv in El.
  assert (K : exists fn, In (id, fn) (aiter (m_funcs m)) /\ fn_kind fn = FK_Local lf).
  { clear - El Hin. induction El as [|p b L bs Hp HF IH]; cbn [concat] in Hin; [destruct Hin|].
    apply in_app_or in Hin. destruct Hin as [Hin|Hin].
    - destruct p as [i fn]. cbn [fst snd] in *. exists fn. destruct (fn_kind fn) eqn:Ek.
      + inversion Hp; subst. destruct Hin.
      + rinv Hp as s Es. inversion Hp; subst. destruct Hin as [E|[]]. inversion E; subst.
        split; [left; reflexivity|reflexivity].
      + discriminate.
    - destruct (IH Hin) as [fn [Hg Hk]]. exists fn. split; [right; exact Hg|exact Hk]. }
  destruct K as [fn [Hg Hk]]. exists fn. split; [apply aiter_aget; exact Hg|exact Hk].
Qed.

(* ---------------------------------------------------------------- every live entity is indexed *)
Lemma func_indexed m fs f : closed m -> used_local_functions m = Ok fs -> liveF m f ->
  In f (imported_funcs m ++ map fst fs).
Proof.
  intros C Hfs [fn Hg]. apply in_or_app. destruct (fn_kind fn) as [i ty|lf|ty] eqn:Ek.
  - left. eapply cl_func_imp; eauto.
  - right. apply (proj2 (used_local_functions_ids m fs Hfs)). exists fn, lf. split; [apply aiter_aget; exact Hg|exact Ek].
  - exfalso. eapply used_local_functions_init; eauto.
Qed.

Lemma table_indexed m t : closed m -> liveT m t -> In t (imported_tables m ++ map fst (local_tables m)).
Proof.
  intros C [tb Hg]. apply in_or_app. destruct (tb_import tb) as [i|] eqn:Ei.
  - left. eapply cl_table_imp; eauto. congruence.
  - right. apply in_map_iff. exists (t, tb). split; [reflexivity|]. apply filter_In. cbn [snd]. rewrite Ei.
    split; [apply aiter_aget; exact Hg|reflexivity].
Qed.

Lemma mem_indexed m t : closed m -> liveM m t -> In t (imported_memories m ++ map fst (local_memories m)).
Proof.
  intros C [me Hg]. apply in_or_app. destruct (me_import me) as [i|] eqn:Ei.
  - left. eapply cl_mem_imp; eauto. congruence.
  - right. apply in_map_iff. exists (t, me). split; [reflexivity|]. apply filter_In. cbn [snd]. rewrite Ei.
    split; [apply aiter_aget; exact Hg|reflexivity].
Qed.

Lemma local_global_In m g gl c : aget (m_globals m) g = Some gl -> gl_kind gl = GK_Local c ->
  In g (map gid (local_globals m)).
Proof.
  intros Hg Hk. rewrite local_globals_ids. apply in_map_iff. exists (g, gl). split; [reflexivity|].
  apply filter_In. cbn [snd]. rewrite Hk. split; [apply aiter_aget; exact Hg|reflexivity].
Qed.

Lemma global_indexed m g : closed m -> liveG m g -> In g (imported_globals m ++ map gid (local_globals m)).
Proof.
  intros C [gl Hg]. apply in_or_app. destruct (gl_kind gl) as [i|c] eqn:Ek.
  - left. eapply cl_global_imp; eauto.
  - right. eapply local_global_In; eauto.
Qed.

Lemma local_globals_sorted m : StronglySorted N.lt (map gid (local_globals m)).
Proof. rewrite local_globals_ids. apply sorted_map_filter, aiter_sorted. Qed.

Lemma local_globals_In m id g c : In (id, g, c) (local_globals m) ->
  aget (m_globals m) id = Some g /\ gl_kind g = GK_Local c.
Proof.
  unfold local_globals. intros H. apply in_flat_map in H. destruct H as [[i gl] [Hin H]]. cbn [fst snd] in H.
  destruct (gl_kind gl) eqn:Ek; [destruct H|]. destruct H as [E|[]]. inversion E; subst.
  split; [apply aiter_aget; exact Hin|exact Ek].
Qed.

Lemma cref_live_cref m fs c : closed m -> used_local_functions m = Ok fs -> cref_live m c ->
  cref (imported_funcs m ++ map fst fs) (imported_globals m ++ map gid (local_globals m)) c.
Proof.
  intros C Hfs H. destruct c; cbn [cref cref_live] in *; auto using global_indexed, func_indexed.
Qed.

Theorem closed_emit_closed m fs : closed m -> used_local_functions m = Ok fs -> emit_closed m fs.
Proof.
  intros C Hfs. constructor.
  - intros i Hi. pose proof (cl_imports m C i Hi) as H. destruct (im_kind i); auto.
    destruct H as [fn Hg]. exists fn. split; [exact Hg|].
    destruct (cl_func_ty m C _ _ Hg) as [t [Ht He]]. eapply emitted_types_In; eauto.
  - intros id lf Hin. destruct (used_local_functions_entries m fs Hfs id lf Hin) as [fn [Hg Hk]].
    destruct (cl_func_ty m C _ _ Hg) as [t [Ht He]]. unfold func_ty in Ht. rewrite Hk in Ht.
    eapply emitted_types_In; eauto.
  - intros l1 id g c l2 El.
    assert (Hin : In (id, g, c) (local_globals m)) by (rewrite El; apply in_or_app; right; left; reflexivity).
    destruct (local_globals_In m id g c Hin) as [Hg Hk].
    pose proof (cl_globals m C id g c Hg Hk) as H. destruct c as [v|g'|t|f]; cbn [cref]; auto.
    + destruct H as [[gl' Hg'] Hord]. apply in_or_app.
      destruct (gl_kind gl') as [i|c'] eqn:Ek'; [left; eapply cl_global_imp; eauto|].
      destruct Hord as [Hle|Himp]; [right|left; exact Himp].
      pose proof (local_global_In m g' gl' c' Hg' Ek') as Hin'.
      pose proof (local_globals_sorted m) as Hs. rewrite El in Hin', Hs.
      rewrite map_app in Hin', Hs. cbn [map gid fst] in Hin', Hs.
      apply in_app_or in Hin'. destruct Hin' as [H1|[H1|H1]]; apply in_or_app.
      * left; exact H1.
      * right; left; exact H1.
      * exfalso. pose proof (sorted_split _ _ _ Hs g' H1). lia.
    + eapply func_indexed; eauto.
  - intros e He. pose proof (cl_exports m C e He) as H.
    destruct (ex_kind e); cbn [item_live] in H;
      eauto using func_indexed, table_indexed, mem_indexed, global_indexed.
  - intros f Hs. eapply func_indexed; eauto. eapply cl_start; eauto.
  - intros [id e] Hp. apply aiter_aget in Hp. destruct (cl_elements m C id e Hp) as [Hi Hk]. cbn [snd]. split.
    + destruct (el_items e); intros x Hx; [eapply func_indexed|eapply cref_live_cref]; eauto.
    + destruct (el_kind e); auto. destruct Hk. split; [apply table_indexed|eapply cref_live_cref]; eauto.
  - intros [id d] Hp. apply aiter_aget in Hp. pose proof (cl_data m C id d Hp) as H. cbn [snd].
    destruct (da_kind d); auto. destruct H. split; [apply mem_indexed|eapply cref_live_cref]; eauto.
Qed.

(* ====================================================================================== *)
(* Part 2: gc_sweep preserves closed                                                              *)
(* ====================================================================================== *)

(* ---------------------------------------------------------------- the worklist result is closed under
   the followed edges, with no premise on the graph: a successful run popped every stacked member,
   and popping pushes all successors *)
Section WlClosed.
  Variable X : Type.
  Variable eqb : X -> X -> bool.
  Hypothesis eqb_spec : forall a b, eqb a b = true <-> a = b.
  Variable stacked : X -> bool.
  Variable succ : X -> option (list X).

  Definition done (s : G.ast X) : Prop :=
    forall x, In x (G.used s) -> stacked x = true -> ~ In x (G.stack s) ->
              exists ys, succ x = Some ys /\ incl ys (G.used s).

  Lemma awl_closed : forall fuel s U, G.awl eqb stacked succ fuel s = Some U ->
    NoDup (G.used s) -> NoDup (G.stack s) -> incl (G.stack s) (G.used s) -> done s ->
    incl (G.used s) U /\ forall x, In x U -> stacked x = true -> exists ys, succ x = Some ys /\ incl ys U.
  Proof.
    induction fuel as [|f IH]; intros s U H Hnu Hns Hsub Hd; [discriminate|].
    cbn [G.awl] in H. destruct (G.stack s) as [|x rest] eqn:Es.
    - inversion H; subst. split; [apply incl_refl|]. intros x Hx Hsx. apply Hd; auto. rewrite Es. intros [].
    - destruct (succ x) as [ys|] eqn:Ex; [|discriminate].
      inversion Hns as [|? ? Hxr Hnr]; subst.
      assert (Hsub' : incl rest (G.used s)) by (intros z Hz; apply Hsub; right; exact Hz).
      set (s0 := {| G.used := G.used s; G.stack := rest |}) in *.
      destruct (G.push_spec X eqb eqb_spec stacked ys s0 Hnu Hnr Hsub') as (new & E1 & E2 & A & B & C & D).
      cbn [G.used G.stack s0] in *.
      destruct (IH _ _ H) as [I1 I2].
      + rewrite E1. exact A.
      + rewrite E2. exact B.
      + rewrite E1, E2. intros z Hz. apply in_app_or in Hz. apply in_or_app. destruct Hz as [Hz|Hz].
        * left. apply filter_In in Hz. apply Hz.
        * right. auto.
      + unfold done. rewrite E1, E2. intros z Hz Hsz Hnz.
        apply in_app_or in Hz. destruct Hz as [Hz|Hz].
        * exfalso. apply Hnz. apply in_or_app. left. apply filter_In. auto.
        * destruct (G.X_dec X eqb eqb_spec z x) as [->|Hne].
          -- exists ys. split; [exact Ex|]. intros y Hy. apply D, Hy.
          -- destruct (Hd z Hz Hsz) as [ys' [Hys' Hin']].
             ++ rewrite Es. intros [->|Hin]; [congruence|]. apply Hnz. apply in_or_app. right. exact Hin.
             ++ exists ys'. split; [exact Hys'|]. intros y Hy. apply in_or_app. right. apply Hin', Hy.
      + split; [|exact I2]. intros z Hz. apply I1. rewrite E1. apply in_or_app. right. exact Hz.
  Qed.

  Lemma awl_closed_init roots fuel U :
    G.awl eqb stacked succ fuel (fold_left (G.apush eqb stacked) roots {| G.used := []; G.stack := [] |}) = Some U ->
    incl roots U /\ forall x, In x U -> stacked x = true -> exists ys, succ x = Some ys /\ incl ys U.
  Proof.
    intros H.
    destruct (G.push_spec X eqb eqb_spec stacked roots {| G.used := []; G.stack := [] |}) as (new & E1 & E2 & A & B & C & D);
      [constructor|constructor|intros ? []|].
    cbn [G.used G.stack] in *. rewrite app_nil_r in *.
    destruct (awl_closed _ _ _ H) as [I1 I2].
    - rewrite E1. exact A.
    - rewrite E2. exact B.
    - rewrite E1, E2. intros z Hz. apply filter_In in Hz. apply Hz.
    - unfold done. rewrite E1, E2. intros z Hz Hsz Hnz. exfalso. apply Hnz. apply filter_In. auto.
    - split; [|exact I2]. intros z Hz. apply I1. rewrite E1. apply D, Hz.
  Qed.
End WlClosed.

Lemma res_opt_some {A} (r : res A) a : G.res_opt r = Some a <-> r = Ok a.
Proof. destruct r; cbn; split; congruence. Qed.

Lemma wl_closed m rs fuel U :
  wl fuel m (fold_left push rs {| u_used := []; u_stack := [] |}) = Ok U ->
  incl rs U /\ forall x, In x U -> G.is_type x = false -> exists ys, succ m x = Ok ys /\ incl ys U.
Proof.
  intros H. apply res_opt_some in H. rewrite G.wl_awl, G.fold_push_apush in H.
  change (G.to_ast {| u_used := []; u_stack := [] |}) with (G.Build_ast (X:=ent) [] []) in H.
  destruct (awl_closed_init ent ent_eqb G.ent_eqb_spec G.ent_stacked (G.succ_opt m) rs _ U H) as [I1 I2].
  split; [exact I1|]. intros x Hx Ht. destruct (I2 x Hx) as [ys [Hys Hin]].
  - unfold G.ent_stacked. rewrite Ht. reflexivity.
  - exists ys. split; [|exact Hin]. apply res_opt_some. exact Hys.
Qed.

(* the same for [used]: the "first memory" residue is a memory, whose successors are not followed *)
Lemma used_closed' m u : used m = Ok u ->
  exists rs, roots m = Ok rs /\ incl rs u /\
    forall x, In x u -> fst x <> S_type -> fst x <> S_memory -> exists ys, succ m x = Ok ys /\ incl ys u.
Proof.
  intros Hu. destruct (G.used_inv m u Hu) as (rs & U & Hr & Hw & Hcase).
  destruct (wl_closed m rs _ U Hw) as [I1 I2]. exists rs. split; [exact Hr|].
  assert (T : forall x : ent, fst x <> S_type -> G.is_type x = false).
  { intros [s i] H. unfold G.is_type. cbn [fst] in *. destruct s; congruence. }
  destruct Hcase as [->|(mid & v & rest & _ & _ & _ & ->)].
  - split; [exact I1|]. intros x Hx Ht _. apply I2; auto.
  - split; [intros z Hz; right; apply I1, Hz|]. intros x [<-|Hx] Ht Hm; [cbn in Hm; congruence|].
    destruct (I2 x Hx (T x Ht)) as [ys [Hys Hin]]. exists ys. split; [exact Hys|]. intros y Hy. right. apply Hin, Hy.
Qed.

(* ---------------------------------------------------------------- arenas after deletion *)
Lemma delete_index {A} (a a' : tarena A) id id' :
  delete (fun x => x) a id = Some a' -> index a' id' = if Nat.eqb id' id then None else index a id'.
Proof.
  intros H. destruct (Nat.eqb_spec id' id) as [->|Hne].
  - apply delete_dead in H. unfold index, get. rewrite H. reflexivity.
  - eapply delete_isolated; eauto.
Qed.

Lemma del_fold_index {A} keep (L : list (N * A)) : forall a0 a',
  fold_left (G.del_step keep) L (Ok a0) = Ok a' ->
  forall id v, index a' id = Some v <-> index a0 id = Some v /\ contains a' id = true.
Proof.
  induction L as [|p L IH]; intros a0 a' H id v; cbn [fold_left] in H.
  - inversion H; subst. split; [|tauto]. intros Hi. split; [exact Hi|]. apply G.contains_index. eauto.
  - unfold G.del_step at 2 in H. cbn [rbind] in H.
    destruct (existsb (N.eqb (fst p)) keep) eqn:K; [apply IH; exact H|].
    unfold adelete in H. destruct (delete (fun x => x) a0 (N.to_nat (fst p))) as [a1|] eqn:D; cbn [of_opt] in H.
    + rewrite (IH _ _ H). rewrite (delete_index _ _ _ id D).
      split.
      * intros [Hi Hc]. split; [|exact Hc]. destruct (Nat.eqb id (N.to_nat (fst p))); [discriminate|exact Hi].
      * intros [Hi Hc]. split; [|exact Hc].
        pose proof (G.del_fold_contains _ _ _ _ _ H id) as Hc'. rewrite Hc in Hc'. symmetry in Hc'.
        apply andb_true_iff in Hc'. destruct Hc' as [Hc1 _].
        rewrite (G.delete_contains _ _ _ _ _ id D) in Hc1. apply andb_true_iff in Hc1. destruct Hc1 as [_ Hne].
        apply negb_true_iff in Hne. rewrite Hne. exact Hi.
    + exfalso. revert H. apply G.del_fold_notok. discriminate.
Qed.

Lemma delete_unused_aget {A} (a a' : tarena A) keep : delete_unused a keep = Ok a' ->
  forall id v, aget a' id = Some v <-> aget a id = Some v /\ existsb (N.eqb id) keep = true.
Proof.
  intros H id v. unfold aget.
  change (fold_left (G.del_step keep) (aiter a) (Ok a) = Ok a') in H.
  rewrite (del_fold_index _ _ _ _ H). rewrite (G.delete_unused_spec _ _ _ _ H id). split.
  - tauto.
  - intros [Hi Hk]. split; [exact Hi|]. split; [|exact Hk]. apply G.contains_index. eauto.
Qed.

Lemma delete_unused_aget_used {A} (a a' : tarena A) u s : delete_unused a (used_of u s) = Ok a' ->
  forall id v, aget a' id = Some v <-> aget a id = Some v /\ In (s, id) u.
Proof. intros H id v. rewrite (delete_unused_aget _ _ _ H), G.used_of_mem, G.mem_ent_In. reflexivity. Qed.

(* types: a used live type stays *)
Definition ty_step (keep : list N) (acc : res (aset mtype)) (p : nat * mtype) : res (aset mtype) :=
  rbind acc (fun s => if existsb (N.eqb (N.of_nat (fst p))) keep then Ok s
                      else of_opt (aset_remove (fun x => x) mtype_eqb s (fst p))).
Lemma ty_fold_notok keep (L : list (nat * mtype)) r :
  (forall a, r <> Ok a) -> forall a, fold_left (ty_step keep) L r <> Ok a.
Proof.
  revert r. induction L as [|p L IH]; intros r Hr; cbn [fold_left]; [exact Hr|].
  apply IH. intros a. destruct r; cbn; [exfalso; now apply (Hr a0)|discriminate|discriminate].
Qed.
Lemma ty_fold_keep keep (L : list (nat * mtype)) : forall s0 s',
  fold_left (ty_step keep) L (Ok s0) = Ok s' ->
  forall id t, aset_index s0 id = Some t -> existsb (N.eqb (N.of_nat id)) keep = true -> aset_index s' id = Some t.
Proof.
  induction L as [|p L IH]; intros s0 s' H id t Hi Hk; cbn [fold_left] in H.
  - inversion H; subst. exact Hi.
  - unfold ty_step at 2 in H. cbn [rbind] in H.
    destruct (existsb (N.eqb (N.of_nat (fst p))) keep) eqn:K; [eapply IH; eauto|].
    destruct (aset_remove (fun x => x) mtype_eqb s0 (fst p)) as [s1|] eqn:D; cbn [of_opt] in H.
    + eapply IH; eauto. unfold aset_remove in D. destruct (index (arena s0) (fst p)); [|discriminate].
      destruct (delete (fun x => x) (arena s0) (fst p)) as [a1|] eqn:D1; [|discriminate]. inversion D; subst.
      unfold aset_index. cbn [arena]. rewrite (delete_index _ _ _ id D1).
      destruct (Nat.eqb_spec id (fst p)) as [->|Hne]; [congruence|exact Hi].
    + exfalso. revert H. apply ty_fold_notok. discriminate.
Qed.
Lemma types_delete_unused_keep s s' keep : types_delete_unused s keep = Ok s' ->
  forall id t, aset_index s id = Some t -> existsb (N.eqb (N.of_nat id)) keep = true -> aset_index s' id = Some t.
Proof. intros H. exact (ty_fold_keep keep _ _ _ H). Qed.

(* ---------------------------------------------------------------- the shape of a successful gc_sweep *)
Definition imp_used (u : list ent) (i : mimport) : bool :=
  match im_kind i with
  | MI_Func f => mem_ent (S_func, f) u | MI_Table t => mem_ent (S_table, t) u
  | MI_Global g => mem_ent (S_global, g) u | MI_Mem mm => mem_ent (S_memory, mm) u
  end.

Lemma gc_inv' m m' : gc_sweep m = Ok m' -> exists u ia ta ga ma da ea tya fa,
  used m = Ok u /\
  delete_unused (m_imports m) (map fst (filter (fun p => imp_used u (snd p)) (aiter (m_imports m)))) = Ok ia /\
  delete_unused (m_tables m) (used_of u S_table) = Ok ta /\
  delete_unused (m_globals m) (used_of u S_global) = Ok ga /\
  delete_unused (m_memories m) (used_of u S_memory) = Ok ma /\
  delete_unused (m_data m) (used_of u S_data) = Ok da /\
  delete_unused (m_elements m) (used_of u S_elem) = Ok ea /\
  types_delete_unused (m_types m) (used_of u S_type) = Ok tya /\
  delete_unused (m_funcs m) (used_of u S_func) = Ok fa /\
  m' = set_funcs (set_types (set_elements (set_data (set_memories (set_globals (set_tables (set_imports m ia) ta) ga) ma) da) ea) tya) fa.
Proof.
  intros H. unfold gc_sweep in H. destruct (used m) as [u| |] eqn:Hu; cbn [rbind] in H; try discriminate H.
  repeat match type of H with
         | rbind ?r _ = Ok _ => let E := fresh "E" in destruct r eqn:E; cbn [rbind] in H; [|discriminate H|discriminate H]
         end.
  injection H as <-. exists u. do 8 eexists. repeat split; eassumption.
Qed.

Record gc_rel (m m' : wir) (u : list ent) : Prop := {
  gr_funcs : forall id v, aget (m_funcs m') id = Some v <-> aget (m_funcs m) id = Some v /\ In (S_func, id) u;
  gr_tables : forall id v, aget (m_tables m') id = Some v <-> aget (m_tables m) id = Some v /\ In (S_table, id) u;
  gr_globals : forall id v, aget (m_globals m') id = Some v <-> aget (m_globals m) id = Some v /\ In (S_global, id) u;
  gr_memories : forall id v, aget (m_memories m') id = Some v <-> aget (m_memories m) id = Some v /\ In (S_memory, id) u;
  gr_data : forall id v, aget (m_data m') id = Some v <-> aget (m_data m) id = Some v /\ In (S_data, id) u;
  gr_elements : forall id v, aget (m_elements m') id = Some v <-> aget (m_elements m) id = Some v /\ In (S_elem, id) u;
  gr_imports : forall id i, aget (m_imports m') id = Some i <-> aget (m_imports m) id = Some i /\ imp_used u i = true;
  gr_types : forall id t, types_get m id = Some t -> In (S_type, id) u -> types_get m' id = Some t;
  gr_exports : m_exports m' = m_exports m;
  gr_start : m_start m' = m_start m }.

Lemma aget_fun {A} (a : tarena A) id v w : aget a id = Some v -> aget a id = Some w -> v = w.
Proof. congruence. Qed.

Theorem gc_shape m m' : gc_sweep m = Ok m' -> exists u, used m = Ok u /\ gc_rel m m' u.
Proof.
  intros H. destruct (gc_inv' m m' H) as (u & ia & ta & ga & ma & da & ea & tya & fa & Hu & Ei & Et & Eg & Em & Ed & Ee & Ety & Ef & ->).
  exists u. split; [exact Hu|]. constructor; wcbn.
  - exact (delete_unused_aget_used _ _ _ _ Ef).
  - exact (delete_unused_aget_used _ _ _ _ Et).
  - exact (delete_unused_aget_used _ _ _ _ Eg).
  - exact (delete_unused_aget_used _ _ _ _ Em).
  - exact (delete_unused_aget_used _ _ _ _ Ed).
  - exact (delete_unused_aget_used _ _ _ _ Ee).
  - intros id i. rewrite (delete_unused_aget _ _ _ Ei). split; intros [Hg Hk]; (split; [exact Hg|]).
    + apply existsb_exists in Hk. destruct Hk as [x [Hx He]]. apply N.eqb_eq in He. subst x.
      apply in_map_iff in Hx. destruct Hx as [[id' i'] [E Hx]]. cbn [fst] in E. subst id'.
      apply filter_In in Hx. destruct Hx as [Hx Hu']. cbn [snd] in Hu'. apply aiter_aget in Hx.
      rewrite (aget_fun _ _ _ _ Hg Hx). exact Hu'.
    + apply existsb_exists. exists id. split; [|apply N.eqb_refl]. apply in_map_iff. exists (id, i).
      split; [reflexivity|]. apply filter_In. split; [apply aiter_aget; exact Hg|exact Hk].
  - intros id t Hg Hin. unfold types_get in *. wcbn. eapply types_delete_unused_keep; eauto.
    rewrite N2Nat.id, G.used_of_mem. apply G.mem_ent_In. exact Hin.
  - reflexivity.
  - reflexivity.
Qed.

(* ---------------------------------------------------------------- the corner: an active segment whose
   offset is a [ref.func].  used.rs follows only [global.get] in segment offsets. *)
Definition no_func_offsets (m : wir) : Prop :=
  (forall id e t f, aget (m_elements m) id = Some e -> el_kind e <> ELK_Active t (MC_RefFunc f)) /\
  (forall id d mem f, aget (m_data m) id = Some d -> da_kind d <> DK_Active mem (MC_RefFunc f)).

Lemma live_imports_In m i : In i (live_imports m) <-> exists id, aget (m_imports m) id = Some i.
Proof.
  unfold live_imports. rewrite in_map_iff. split.
  - intros [[id i'] [E H]]. cbn [snd] in E. subst i'. exists id. apply aiter_aget. exact H.
  - intros [id H]. exists (id, i). split; [reflexivity|apply aiter_aget; exact H].
Qed.

Section GcClosed.
  Variables (m m' : wir) (u : list ent) (rs : list ent).
  Hypothesis C : closed m.
  Hypothesis R : gc_rel m m' u.
  Hypothesis Hroots : roots m = Ok rs.
  Hypothesis Hrs : incl rs u.
  Hypothesis K : forall x, In x u -> fst x <> S_type -> fst x <> S_memory -> exists ys, succ m x = Ok ys /\ incl ys u.

  Lemma keptF f : liveF m f -> In (S_func, f) u -> liveF m' f.
  Proof. intros [v H] Hu. exists v. apply (gr_funcs _ _ _ R). auto. Qed.
  Lemma keptT f : liveT m f -> In (S_table, f) u -> liveT m' f.
  Proof. intros [v H] Hu. exists v. apply (gr_tables _ _ _ R). auto. Qed.
  Lemma keptM f : liveM m f -> In (S_memory, f) u -> liveM m' f.
  Proof. intros [v H] Hu. exists v. apply (gr_memories _ _ _ R). auto. Qed.
  Lemma keptG f : liveG m f -> In (S_global, f) u -> liveG m' f.
  Proof. intros [v H] Hu. exists v. apply (gr_globals _ _ _ R). auto. Qed.

  Lemma imported_kept S x : In x (imp_ids S (live_imports m)) -> In (S, x) u -> In x (imp_ids S (live_imports m')).
  Proof.
    unfold imp_ids. rewrite !in_flat_map. intros [i [Hi Hx]] Hu. exists i. split; [|exact Hx].
    apply live_imports_In in Hi. destruct Hi as [id Hg]. apply live_imports_In. exists id.
    apply (gr_imports _ _ _ R). split; [exact Hg|]. unfold imp_used. unfold imp_id in Hx.
    destruct (im_kind i), S; try (destruct Hx; fail); destruct Hx as [<-|[]]; apply G.mem_ent_In; exact Hu.
  Qed.

  Lemma cref_live_kept c : cref_live m c -> incl (const_refs c) u -> cref_live m' c.
  Proof.
    destruct c; cbn [cref_live const_refs]; auto; intros H Hu.
    - apply keptG; [exact H|]. apply Hu. left; reflexivity.
    - apply keptF; [exact H|]. apply Hu. left; reflexivity.
  Qed.

  Lemma offset_kept c : cref_live m c -> (forall f, c <> MC_RefFunc f) ->
    incl (match c with MC_Global g => [(S_global, g)] | _ => [] end) u -> cref_live m' c.
  Proof.
    destruct c; cbn [cref_live]; auto; intros H Hn Hu.
    - apply keptG; [exact H|]. apply Hu. left; reflexivity.
    - exfalso. eapply Hn. reflexivity.
  Qed.

  Lemma func_ty_used f fn : aget (m_funcs m) f = Some fn -> In (S_func, f) u -> In (S_type, func_ty fn) u.
  Proof.
    intros Hg Hu. destruct (K _ Hu) as [ys [Hys Hin]]; [discriminate|discriminate|].
    unfold succ in Hys. cbn [fst snd] in Hys. rewrite Hg in Hys. unfold func_ty. apply Hin.
    destruct (fn_kind fn) as [i ty|lf|ty].
    - inversion Hys. left; reflexivity.
    - destruct (lf_log lf); cbn [rmap] in Hys; try discriminate. inversion Hys. left; reflexivity.
    - discriminate.
  Qed.

  Lemma roots_exports e : In e (map snd (aiter (m_exports m))) -> In (kind_space (ex_kind e), ex_item e) u.
  Proof.
    intros He. apply Hrs. pose proof Hroots as Hr. unfold roots in Hr. rinv Hr as elems Eel. inversion Hr; subst.
    apply in_or_app. left. apply in_map_iff in He. destruct He as [p [<- Hp]]. apply in_map_iff. exists p. auto.
  Qed.
  Lemma roots_start f : m_start m = Some f -> In (S_func, f) u.
  Proof.
    intros Hs. apply Hrs. pose proof Hroots as Hr. unfold roots in Hr. rinv Hr as elems Eel. inversion Hr; subst.
    apply in_or_app. right. apply in_or_app. left. rewrite Hs. left; reflexivity.
  Qed.

  Theorem gc_closed_core : no_func_offsets m -> closed m'.
  Proof.
    intros [NFe NFd]. constructor.
    - (* imports *)
      intros i Hi. apply live_imports_In in Hi. destruct Hi as [id Hg].
      apply (gr_imports _ _ _ R) in Hg. destruct Hg as [Hg Hu].
      assert (Hi : In i (live_imports m)) by (apply live_imports_In; eauto).
      pose proof (cl_imports m C i Hi) as H. unfold imp_used in Hu.
      destruct (im_kind i); apply G.mem_ent_In in Hu; auto using keptF, keptT, keptM, keptG.
    - intros f fn i ty Hg Hk. apply (gr_funcs _ _ _ R) in Hg. destruct Hg as [Hg Hu].
      apply (imported_kept S_func); [|exact Hu]. eapply cl_func_imp; eauto.
    - intros t tb Hg Hk. apply (gr_tables _ _ _ R) in Hg. destruct Hg as [Hg Hu].
      apply (imported_kept S_table); [|exact Hu]. eapply cl_table_imp; eauto.
    - intros t me Hg Hk. apply (gr_memories _ _ _ R) in Hg. destruct Hg as [Hg Hu].
      apply (imported_kept S_memory); [|exact Hu]. eapply cl_mem_imp; eauto.
    - intros g gl i Hg Hk. apply (gr_globals _ _ _ R) in Hg. destruct Hg as [Hg Hu].
      apply (imported_kept S_global); [|exact Hu]. eapply cl_global_imp; eauto.
    - (* function types *)
      intros f fn Hg. apply (gr_funcs _ _ _ R) in Hg. destruct Hg as [Hg Hu].
      destruct (cl_func_ty m C f fn Hg) as [t [Ht He]]. exists t. split; [|exact He].
      apply (gr_types _ _ _ R); [exact Ht|]. eapply func_ty_used; eauto.
    - (* globals *)
      intros g gl c Hg Hk. apply (gr_globals _ _ _ R) in Hg. destruct Hg as [Hg Hu].
      pose proof (cl_globals m C g gl c Hg Hk) as H.
      destruct (K _ Hu) as [ys [Hys Hin]]; [discriminate|discriminate|].
      unfold succ in Hys. cbn [fst snd] in Hys. rewrite Hg, Hk in Hys. inversion Hys; subst ys; clear Hys.
      destruct c as [v|g'|t|f]; auto.
      + destruct H as [Hl Ho]. assert (Hu' : In (S_global, g') u) by (apply Hin; left; reflexivity).
        split; [apply keptG; auto|]. destruct Ho as [Ho|Ho]; [left; exact Ho|right].
        apply (imported_kept S_global); auto.
      + apply keptF; [exact H|]. apply Hin. left; reflexivity.
    - (* exports *)
      intros e He. rewrite (gr_exports _ _ _ R) in He. pose proof (roots_exports e He) as Hu.
      pose proof (cl_exports m C e He) as H.
      destruct (ex_kind e); cbn [item_live kind_space] in *; auto using keptF, keptT, keptM, keptG.
    - intros f Hs. rewrite (gr_start _ _ _ R) in Hs. apply keptF; [eapply cl_start; eauto|apply roots_start; exact Hs].
    - (* elements *)
      intros id e Hg. apply (gr_elements _ _ _ R) in Hg. destruct Hg as [Hg Hu].
      destruct (cl_elements m C id e Hg) as [Hi Hk].
      destruct (K _ Hu) as [ys [Hys Hin]]; [discriminate|discriminate|].
      unfold succ in Hys. cbn [fst snd] in Hys. rewrite Hg in Hys. inversion Hys; subst ys; clear Hys.
      split.
      + destruct (el_items e) as [l|t es].
        * intros f Hf. apply keptF; [auto|]. apply Hin. apply in_or_app. left. apply in_map_iff. eauto.
        * intros c Hc. apply cref_live_kept; [auto|]. intros y Hy. apply Hin. apply in_or_app. left.
          apply in_flat_map. eauto.
      + destruct (el_kind e) as [| |t off] eqn:Ek; auto. destruct Hk as [Ht Ho]. split.
        * apply keptT; [exact Ht|]. apply Hin. apply in_or_app. right. apply in_or_app. right. left; reflexivity.
        * apply offset_kept; [exact Ho| |].
          -- intros f ->. eapply NFe; eauto.
          -- intros y Hy. apply Hin. apply in_or_app. right. apply in_or_app. left.
             destruct off; try (destruct Hy; fail). exact Hy.
    - (* data *)
      intros id d Hg. apply (gr_data _ _ _ R) in Hg. destruct Hg as [Hg Hu].
      pose proof (cl_data m C id d Hg) as H.
      destruct (K _ Hu) as [ys [Hys Hin]]; [discriminate|discriminate|].
      unfold succ in Hys. cbn [fst snd] in Hys. rewrite Hg in Hys. inversion Hys; subst ys; clear Hys.
      destruct (da_kind d) as [|mem off] eqn:Ek; auto. destruct H as [Hm Ho]. split.
      + apply keptM; [exact Hm|]. apply Hin. left; reflexivity.
      + apply offset_kept; [exact Ho| |].
        * intros f ->. eapply NFd; eauto.
        * intros y Hy. apply Hin. right. destruct off; try (destruct Hy; fail). exact Hy.
  Qed.
End GcClosed.

(* GC preserves closedness of every module whose active segments have no [ref.func] offset.
   No premise about function bodies is needed. *)
Theorem gc_closed_partial m m' : closed m -> no_func_offsets m -> gc_sweep m = Ok m' -> closed m'.
Proof.
  intros C NF H. destruct (gc_shape m m' H) as [u [Hu R]].
  destruct (used_closed' m u Hu) as [rs [Hr [Hrs K]]].
  eapply gc_closed_core; eauto.
Qed.

Lemma gc_no_func_offsets m m' : no_func_offsets m -> gc_sweep m = Ok m' -> no_func_offsets m'.
Proof.
  intros [NFe NFd] H. destruct (gc_shape m m' H) as [u [Hu R]]. split.
  - intros id e t f Hg. apply (gr_elements _ _ _ R) in Hg. destruct Hg as [Hg _]. eapply NFe; eauto.
  - intros id d mem f Hg. apply (gr_data _ _ _ R) in Hg. destruct Hg as [Hg _]. eapply NFd; eauto.
Qed.

(* ---------------------------------------------------------------- the corner is real (in the model):
   an imported function mentioned only by the [ref.func] offset of an active data segment.
   The module is closed and emits; gc_sweep deletes the function (and its import) but keeps the segment;
   the result is not closed and emitting it panics. *)
Definition wit_ty : mtype := {| ty_params := []; ty_results := []; ty_entry := false; ty_name := None |}.
Definition wit : wir :=
  {| m_imports := {| items := [{| im_module := []; im_name := []; im_kind := MI_Func 0 |}]; dead := [] |};
     m_tables := empty;
     m_types := {| arena := {| items := [wit_ty]; dead := [] |}; already := [(wit_ty, 0)] |};
     m_funcs := {| items := [{| fn_kind := FK_Import 0 0; fn_name := None |}]; dead := [] |};
     m_globals := empty; m_locals := empty; m_exports := empty;
     m_memories := {| items := [{| me_shared := false; me_64 := false; me_init := 1; me_max := None; me_page := None;
                                  me_import := None; me_segs := [0%N]; me_name := None |}]; dead := [] |};
     m_data := {| items := [{| da_kind := DK_Active 0 (MC_RefFunc 0); da_value := []; da_name := None |}]; dead := [] |};
     m_elements := empty;
     m_start := None; m_producers := []; m_customs := []; m_debug := []; m_name := None; m_config := default_config;
     m_code_section_offset := 0 |}.
Definition wit' : wir := match gc_sweep wit with Ok m' => m' | _ => wit end.

Lemma aget_single {A} (x : A) id v : aget {| items := [x]; dead := [] |} id = Some v -> id = 0%N /\ v = x.
Proof.
  unfold aget, index, get, is_dead. cbn [dead existsb items]. destruct (N.to_nat id) as [|k] eqn:E; cbn [nth_error].
  - intros H. inversion H. split; [lia|reflexivity].
  - destruct k; discriminate.
Qed.
Lemma aget_empty {A} id (v : A) : aget empty id = Some v -> False.
Proof. unfold aget, index, get, is_dead. cbn. destruct (N.to_nat id); discriminate. Qed.

Lemma wit_closed : closed wit.
Proof.
  constructor.
  - intros i Hi. vm_compute in Hi. destruct Hi as [<-|[]]. cbn [im_kind]. eexists. vm_compute. reflexivity.
  - intros f fn i ty Hg _. apply aget_single in Hg. destruct Hg as [-> _]. vm_compute. auto.
  - intros t tb Hg. apply aget_empty in Hg. destruct Hg.
  - intros t me Hg Hn. apply aget_single in Hg. destruct Hg as [_ ->]. cbn in Hn. congruence.
  - intros g gl i Hg. apply aget_empty in Hg. destruct Hg.
  - intros f fn Hg. apply aget_single in Hg. destruct Hg as [-> ->]. exists wit_ty. split; reflexivity.
  - intros g gl c Hg. apply aget_empty in Hg. destruct Hg.
  - intros e He. vm_compute in He. destruct He.
  - intros f Hs. discriminate.
  - intros id e Hg. apply aget_empty in Hg. destruct Hg.
  - intros id d Hg. apply aget_single in Hg. destruct Hg as [-> ->]. cbn [da_kind]. split.
    + eexists. vm_compute. reflexivity.
    + cbn [cref_live]. eexists. vm_compute. reflexivity.
Qed.

Theorem gc_closed_refuted :
  exists m m', closed m /\ gc_sweep m = Ok m' /\ ~ closed m' /\
               (exists e, emitM m (fun _ => 0%N) [] = Ok e) /\ emitM m' (fun _ => 0%N) [] = Panic.
Proof.
  exists wit, wit'. split; [exact wit_closed|]. split; [vm_compute; reflexivity|]. split; [|split].
  - intros C.
    assert (E : aget (m_data wit') 0%N = Some {| da_kind := DK_Active 0 (MC_RefFunc 0); da_value := []; da_name := None |})
      by (vm_compute; reflexivity).
    pose proof (cl_data _ C _ _ E) as H. cbn [da_kind cref_live] in H. destruct H as [_ [v Hv]].
    vm_compute in Hv. discriminate.
  - eexists. vm_compute. reflexivity.
  - vm_compute. reflexivity.
Qed.

(* ====================================================================================== *)
(* Part 3: a parsed module is closed                                                        *)
(* ====================================================================================== *)

(* ---------------------------------------------------------------- per-entity form of [closed] *)
Definition ty_ok (m : wir) (ty : N) : Prop := exists t, types_get m ty = Some t /\ ty_entry t = false.
Definition okI (m : wir) (i : mimport) : Prop :=
  match im_kind i with
  | MI_Func f => liveF m f | MI_Table t => liveT m t | MI_Mem mm => liveM m mm | MI_Global g => liveG m g
  end.
Definition okF (m : wir) (f : N) (fn : mfunc) : Prop :=
  (forall i ty, fn_kind fn = FK_Import i ty -> In f (imported_funcs m)) /\ ty_ok m (func_ty fn).
Definition okT (m : wir) (t : N) (tb : mtable) : Prop := tb_import tb <> None -> In t (imported_tables m).
Definition okM (m : wir) (t : N) (me : mmem) : Prop := me_import me <> None -> In t (imported_memories m).
Definition okG (m : wir) (g : N) (gl : mglobal) : Prop :=
  (forall i, gl_kind gl = GK_Import i -> In g (imported_globals m)) /\
  (forall c, gl_kind gl = GK_Local c ->
     match c with
     | MC_Global g' => liveG m g' /\ ((g' <= g)%N \/ In g' (imported_globals m))
     | MC_RefFunc f => liveF m f
     | _ => True
     end).
Definition okX (m : wir) (e : mexport) : Prop := item_live m (ex_kind e) (ex_item e).
Definition okE (m : wir) (e : melem) : Prop :=
  match el_items e with
  | ELI_Funcs l => forall f, In f l -> liveF m f
  | ELI_Exprs _ es => forall c, In c es -> cref_live m c
  end /\
  match el_kind e with ELK_Active t off => liveT m t /\ cref_live m off | _ => True end.
Definition okD (m : wir) (d : mdata) : Prop :=
  match da_kind d with DK_Active mem off => liveM m mem /\ cref_live m off | DK_Passive => True end.

Lemma exports_In m e : In e (map snd (aiter (m_exports m))) <-> exists id, aget (m_exports m) id = Some e.
Proof.
  rewrite in_map_iff. split.
  - intros [[id e'] [E H]]. cbn [snd] in E. subst e'. exists id. apply aiter_aget. exact H.
  - intros [id H]. exists (id, e). split; [reflexivity|apply aiter_aget; exact H].
Qed.

Lemma closed_elim m : closed m ->
  (forall id i, aget (m_imports m) id = Some i -> okI m i) /\
  (forall f fn, aget (m_funcs m) f = Some fn -> okF m f fn) /\
  (forall t tb, aget (m_tables m) t = Some tb -> okT m t tb) /\
  (forall t me, aget (m_memories m) t = Some me -> okM m t me) /\
  (forall g gl, aget (m_globals m) g = Some gl -> okG m g gl) /\
  (forall id e, aget (m_exports m) id = Some e -> okX m e) /\
  (forall f, m_start m = Some f -> liveF m f) /\
  (forall id e, aget (m_elements m) id = Some e -> okE m e) /\
  (forall id d, aget (m_data m) id = Some d -> okD m d).
Proof.
  intros C. repeat split.
  - intros id i H. apply (cl_imports m C). apply live_imports_In. eauto.
  - intros i ty. eapply cl_func_imp; eauto.
  - eapply cl_func_ty; eauto.
  - intros t tb H. unfold okT. eapply cl_table_imp; eauto.
  - intros t me H. unfold okM. eapply cl_mem_imp; eauto.
  - intros i. eapply cl_global_imp; eauto.
  - intros c. eapply cl_globals; eauto.
  - intros id e H. apply (cl_exports m C). apply exports_In. eauto.
  - apply (cl_start m C).
  - apply (cl_elements m C id e). assumption.
  - apply (cl_elements m C id e). assumption.
  - intros id d. apply (cl_data m C).
Qed.

Lemma closed_intro m :
  (forall id i, aget (m_imports m) id = Some i -> okI m i) ->
  (forall f fn, aget (m_funcs m) f = Some fn -> okF m f fn) ->
  (forall t tb, aget (m_tables m) t = Some tb -> okT m t tb) ->
  (forall t me, aget (m_memories m) t = Some me -> okM m t me) ->
  (forall g gl, aget (m_globals m) g = Some gl -> okG m g gl) ->
  (forall id e, aget (m_exports m) id = Some e -> okX m e) ->
  (forall f, m_start m = Some f -> liveF m f) ->
  (forall id e, aget (m_elements m) id = Some e -> okE m e) ->
  (forall id d, aget (m_data m) id = Some d -> okD m d) -> closed m.
Proof.
  intros HI HF HT HM HG HX HS HE HD. constructor.
  - intros i Hi. apply live_imports_In in Hi. destruct Hi as [id Hi]. exact (HI id i Hi).
  - intros f fn i ty H. apply (HF f fn H).
  - intros t tb H. exact (HT t tb H).
  - intros t me H. exact (HM t me H).
  - intros g gl i H. apply (HG g gl H).
  - intros f fn H. apply (HF f fn H).
  - intros g gl c H. apply (HG g gl H).
  - intros e He. apply exports_In in He. destruct He as [id He]. exact (HX id e He).
  - exact HS.
  - exact HE.
  - exact HD.
Qed.

(* ---------------------------------------------------------------- monotonicity *)
Definition mono (m m' : wir) : Prop :=
  (forall f, liveF m f -> liveF m' f) /\ (forall f, liveT m f -> liveT m' f) /\
  (forall f, liveM m f -> liveM m' f) /\ (forall f, liveG m f -> liveG m' f) /\
  (forall ty, ty_ok m ty -> ty_ok m' ty) /\
  (forall id i, aget (m_imports m) id = Some i -> aget (m_imports m') id = Some i).

Lemma imp_mono S m m' x : mono m m' -> In x (imp_ids S (live_imports m)) -> In x (imp_ids S (live_imports m')).
Proof.
  intros (_ & _ & _ & _ & _ & HI). unfold imp_ids. rewrite !in_flat_map. intros [i [Hi Hx]]. exists i. split; [|exact Hx].
  apply live_imports_In in Hi. destruct Hi as [id Hi]. apply live_imports_In. eauto.
Qed.
Lemma imp_intro S m id i x : aget (m_imports m) id = Some i -> In x (imp_id S i) -> In x (imp_ids S (live_imports m)).
Proof. intros Hg Hx. unfold imp_ids. apply in_flat_map. exists i. split; [apply live_imports_In; eauto|exact Hx]. Qed.

Lemma cref_live_mono m m' c : mono m m' -> cref_live m c -> cref_live m' c.
Proof. intros (HF & _ & _ & HG & _). destruct c; cbn [cref_live]; auto. Qed.
Lemma okI_mono m m' i : mono m m' -> okI m i -> okI m' i.
Proof. intros (HF & HT & HM & HG & _). unfold okI. destruct (im_kind i); auto. Qed.
Lemma okF_mono m m' f fn : mono m m' -> okF m f fn -> okF m' f fn.
Proof.
  intros Mo [H1 H2]. split; [|apply Mo; exact H2]. intros i ty Hk. apply (imp_mono S_func m m'); [exact Mo|]. eapply H1; eauto.
Qed.
Lemma okT_mono m m' t tb : mono m m' -> okT m t tb -> okT m' t tb.
Proof. intros Mo H Hn. apply (imp_mono S_table m m'); [exact Mo|]. apply H, Hn. Qed.
Lemma okM_mono m m' t me : mono m m' -> okM m t me -> okM m' t me.
Proof. intros Mo H Hn. apply (imp_mono S_memory m m'); [exact Mo|]. apply H, Hn. Qed.
Lemma okG_mono m m' g gl : mono m m' -> okG m g gl -> okG m' g gl.
Proof.
  intros Mo [H1 H2]. split.
  - intros i Hk. apply (imp_mono S_global m m'); [exact Mo|]. eapply H1; eauto.
  - intros c Hk. specialize (H2 c Hk). destruct c as [v|g'|t|f]; auto.
    + destruct H2 as [Hl Ho]. split; [apply Mo; exact Hl|]. destruct Ho as [Ho|Ho]; [left; exact Ho|right].
      apply (imp_mono S_global m m'); [exact Mo|exact Ho].
    + apply Mo; exact H2.
Qed.
Lemma okX_mono m m' e : mono m m' -> okX m e -> okX m' e.
Proof. intros (HF & HT & HM & HG & _). unfold okX. destruct (ex_kind e); cbn [item_live]; auto. Qed.
Lemma okE_mono m m' e : mono m m' -> okE m e -> okE m' e.
Proof.
  intros Mo [H1 H2]. split.
  - destruct (el_items e); intros x Hx; [apply Mo|eapply cref_live_mono; [exact Mo|]]; auto.
  - destruct (el_kind e); auto. destruct H2. split; [apply Mo; assumption|eapply cref_live_mono; eauto].
Qed.
Lemma okD_mono m m' d : mono m m' -> okD m d -> okD m' d.
Proof.
  intros Mo H. unfold okD in *. destruct (da_kind d); auto. destruct H. split; [apply Mo; assumption|eapply cref_live_mono; eauto].
Qed.

(* one parser step: every entity of the new module is an unchanged entity of the old one, or is ok *)
Lemma closed_step m m' : closed m -> mono m m' ->
  (forall id i, aget (m_imports m') id = Some i -> aget (m_imports m) id = Some i \/ okI m' i) ->
  (forall f fn, aget (m_funcs m') f = Some fn -> aget (m_funcs m) f = Some fn \/ okF m' f fn) ->
  (forall t tb, aget (m_tables m') t = Some tb -> aget (m_tables m) t = Some tb \/ okT m' t tb) ->
  (forall t me, aget (m_memories m') t = Some me -> aget (m_memories m) t = Some me \/ okM m' t me) ->
  (forall g gl, aget (m_globals m') g = Some gl -> aget (m_globals m) g = Some gl \/ okG m' g gl) ->
  (forall id e, aget (m_exports m') id = Some e -> aget (m_exports m) id = Some e \/ okX m' e) ->
  (forall f, m_start m' = Some f -> m_start m = Some f \/ liveF m' f) ->
  (forall id e, aget (m_elements m') id = Some e -> aget (m_elements m) id = Some e \/ okE m' e) ->
  (forall id d, aget (m_data m') id = Some d -> aget (m_data m) id = Some d \/ okD m' d) ->
  closed m'.
Proof.
  intros C Mo HI HF HT HM HG HX HS HE HD.
  destruct (closed_elim m C) as (CI & CF & CT & CM & CG & CX & CS & CE & CD).
  apply closed_intro.
  - intros id i H. destruct (HI id i H) as [H'|H']; [eapply okI_mono; eauto|exact H'].
  - intros f fn H. destruct (HF f fn H) as [H'|H']; [eapply okF_mono; eauto|exact H'].
  - intros t tb H. destruct (HT t tb H) as [H'|H']; [eapply okT_mono; eauto|exact H'].
  - intros t me H. destruct (HM t me H) as [H'|H']; [eapply okM_mono; eauto|exact H'].
  - intros g gl H. destruct (HG g gl H) as [H'|H']; [eapply okG_mono; eauto|exact H'].
  - intros id e H. destruct (HX id e H) as [H'|H']; [eapply okX_mono; eauto|exact H'].
  - intros f H. destruct (HS f H) as [H'|H']; [apply Mo; auto|exact H'].
  - intros id e H. destruct (HE id e H) as [H'|H']; [eapply okE_mono; eauto|exact H'].
  - intros id d H. destruct (HD id d H) as [H'|H']; [eapply okD_mono; eauto|exact H'].
Qed.

(* ---------------------------------------------------------------- arena updates *)
Lemma aget_nodead {A} (a : tarena A) id : dead a = [] -> aget a id = nth_error (items a) (N.to_nat id).
Proof. intros H. unfold aget, index, get, is_dead. rewrite H. reflexivity. Qed.

Lemma aget_app_old {A} (a : tarena A) v i x :
  aget a i = Some x -> aget {| items := items a ++ [v]; dead := dead a |} i = Some x.
Proof.
  unfold aget, index, get, is_dead. cbn [items dead]. destruct (existsb _ (dead a)); [discriminate|].
  intros H. rewrite nth_error_app1; [exact H|]. apply nth_error_Some. congruence.
Qed.
Lemma aget_app_new {A} (a : tarena A) v : dead a = [] ->
  aget {| items := items a ++ [v]; dead := dead a |} (N.of_nat (length (items a))) = Some v.
Proof.
  intros H. rewrite aget_nodead by exact H. cbn [items]. rewrite Nat2N.id, nth_error_app2, Nat.sub_diag by lia. reflexivity.
Qed.
Lemma aget_app_inv {A} (a : tarena A) v i x :
  aget {| items := items a ++ [v]; dead := dead a |} i = Some x ->
  aget a i = Some x \/ (i = N.of_nat (length (items a)) /\ x = v).
Proof.
  unfold aget, index, get, is_dead. cbn [items dead]. destruct (existsb _ (dead a)); [discriminate|].
  intros H. destruct (Nat.lt_ge_cases (N.to_nat i) (length (items a))) as [Hlt|Hge].
  - left. rewrite nth_error_app1 in H by exact Hlt. exact H.
  - right. rewrite nth_error_app2 in H by exact Hge.
    destruct (N.to_nat i - length (items a)) as [|k] eqn:Ek; cbn in H; [|destruct k; discriminate].
    inversion H. split; [lia|reflexivity].
Qed.

Lemma upd_nth {A} (l : list A) f : forall n k,
  nth_error (WV.Model.Arena.upd l n f) k = if Nat.eqb n k then option_map f (nth_error l k) else nth_error l k.
Proof.
  induction l as [|x r IH]; intros n k.
  - destruct n, k; cbn; try reflexivity; destruct (Nat.eqb _ _); reflexivity.
  - destruct n, k; cbn; auto.
Qed.
Lemma aget_upd_inv {A} (a : tarena A) id f i x :
  aget {| items := WV.Model.Arena.upd (items a) (N.to_nat id) f; dead := dead a |} i = Some x ->
  exists x0, aget a i = Some x0 /\ (x = x0 \/ x = f x0).
Proof.
  unfold aget, index, get, is_dead. cbn [items dead]. destruct (existsb _ (dead a)); [discriminate|].
  rewrite upd_nth. destruct (Nat.eqb _ _).
  - destruct (nth_error (items a) (N.to_nat i)) as [x0|]; cbn [option_map]; [|discriminate].
    intros H; inversion H. eauto.
  - intros H. eauto.
Qed.
Lemma aget_upd_live {A} (a : tarena A) id f i x0 : aget a i = Some x0 ->
  exists x, aget {| items := WV.Model.Arena.upd (items a) (N.to_nat id) f; dead := dead a |} i = Some x.
Proof.
  unfold aget, index, get, is_dead. cbn [items dead]. destruct (existsb _ (dead a)); [discriminate|].
  rewrite upd_nth. intros ->. destruct (Nat.eqb _ _); cbn; eauto.
Qed.

Lemma iota_In n x : In x (iota n) <-> N.to_nat x < n.
Proof.
  unfold iota. rewrite in_map_iff. split.
  - intros [k [<- Hk]]. apply in_seq in Hk. rewrite Nat2N.id. lia.
  - intros H. exists (N.to_nat x). split; [apply N2Nat.id|apply in_seq; lia].
Qed.
Lemma lt_live {A} (a : tarena A) id : dead a = [] -> N.to_nat id < length (items a) -> exists v, aget a id = Some v.
Proof.
  intros Hd H. rewrite aget_nodead by exact Hd. destruct (nth_error (items a) (N.to_nat id)) eqn:E; [eauto|].
  apply nth_error_None in E. lia.
Qed.
Lemma nth_iota_lt l n i id : l = iota n -> nth_N l i = Some id -> N.to_nat id < n.
Proof. intros -> H. apply iota_In. unfold nth_N in H. eapply nth_error_In; eauto. Qed.

Lemma aget_eta {A} (a : tarena A) i : aget {| items := items a; dead := dead a |} i = aget a i.
Proof. destruct a; reflexivity. Qed.
Lemma aget_upd_inv' {A} (l : list A) d id f i x :
  aget {| items := WV.Model.Arena.upd l (N.to_nat id) f; dead := d |} i = Some x ->
  exists x0, aget {| items := l; dead := d |} i = Some x0 /\ (x = x0 \/ x = f x0).
Proof. exact (aget_upd_inv {| items := l; dead := d |} id f i x). Qed.
Lemma aget_upd_live' {A} (l : list A) d id f i x0 : aget {| items := l; dead := d |} i = Some x0 ->
  exists x, aget {| items := WV.Model.Arena.upd l (N.to_nat id) f; dead := d |} i = Some x.
Proof. exact (aget_upd_live {| items := l; dead := d |} id f i x0). Qed.

(* ---------------------------------------------------------------- the parser's invariant *)
Record PI (m : wir) (ids : i2ids) : Prop := {
  pi_idc : ids_consistent m ids;
  pi_twf : types_wf (m_types m);
  pi_ity : forall id, In id (ii_types ids) -> ty_ok m id;
  pi_closed : closed m;
  pi_nfo : no_func_offsets m }.

Lemma ty_ok_congr m m' ty : m_types m' = m_types m -> ty_ok m ty -> ty_ok m' ty.
Proof. unfold ty_ok, types_get. intros ->. auto. Qed.
Lemma nfo_congr m m' : m_elements m' = m_elements m -> m_data m' = m_data m -> no_func_offsets m -> no_func_offsets m'.
Proof. unfold no_func_offsets. intros -> ->. auto. Qed.

Lemma idc_funcs m ids i f : ids_consistent m ids -> nth_N (ii_funcs ids) i = Some f -> liveF m f.
Proof. intros H E. unfold ids_consistent in H. decompose [and] H. eapply lt_live; eauto. eapply nth_iota_lt; eauto. Qed.
Lemma idc_tables m ids i f : ids_consistent m ids -> nth_N (ii_tables ids) i = Some f -> liveT m f.
Proof. intros H E. unfold ids_consistent in H. decompose [and] H. eapply lt_live; eauto. eapply nth_iota_lt; eauto. Qed.
Lemma idc_mems m ids i f : ids_consistent m ids -> nth_N (ii_memories ids) i = Some f -> liveM m f.
Proof. intros H E. unfold ids_consistent in H. decompose [and] H. eapply lt_live; eauto. eapply nth_iota_lt; eauto. Qed.
Lemma idc_globals m ids i f : ids_consistent m ids -> nth_N (ii_globals ids) i = Some f ->
  liveG m f /\ N.to_nat f < length (items (m_globals m)).
Proof.
  intros H E. unfold ids_consistent in H. decompose [and] H.
  assert (N.to_nat f < length (items (m_globals m))) by (eapply nth_iota_lt; eauto).
  split; [eapply lt_live; eauto|assumption].
Qed.
Lemma idc_dead m ids : ids_consistent m ids ->
  dead (m_funcs m) = [] /\ dead (m_tables m) = [] /\ dead (m_memories m) = [] /\ dead (m_globals m) = [] /\
  dead (m_elements m) = [] /\ dead (m_data m) = [] /\ dead (m_imports m) = [] /\ dead (m_exports m) = [].
Proof. intros H. unfold ids_consistent in H. decompose [and] H. repeat split; assumption. Qed.

Ltac keep := intros; left; assumption.
Ltac live_tac :=
  match goal with
  | |- forall _, (exists _, _) -> exists _, _ =>
      let f := fresh "f" in let v := fresh "v" in let H := fresh "H" in
      intros f [v H];
      first [ exists v; exact H | exists v; apply aget_app_old; exact H
            | eapply aget_upd_live; exact H | eapply aget_upd_live'; apply aget_app_old; exact H ]
  end.
Ltac mono_tac :=
  unfold mono, liveF, liveT, liveM, liveG; repeat split; wcbn;
  try live_tac;
  try (intros ? ?; eapply ty_ok_congr; [|eassumption]; reflexivity);
  try (intros; first [assumption | apply aget_app_old; assumption]).

(* --- types *)
Lemma closed_set_types m s : closed m -> (forall ty, ty_ok m ty -> ty_ok (set_types m s) ty) -> closed (set_types m s).
Proof.
  intros C H. apply (closed_step m); [exact C| |wcbn; keep..].
  unfold mono, liveF, liveT, liveM, liveG; repeat split; wcbn; auto.
Qed.

Lemma types_insert_PI m ids t m1 id : PI m ids -> types_insert m t = (m1, id) ->
  PI m1 ids /\ (ty_entry t = false -> ty_ok m1 id) /\ (forall ty, ty_ok m ty -> ty_ok m1 ty).
Proof.
  intros [IC TW IT C NF] E.
  destruct (types_insert_spec _ _ _ _ TW E) as [W1 [K1 [ty' [Hty Heq]]]].
  pose proof (types_insert_idc _ _ _ _ _ IC E) as IC1.
  destruct (types_insert_dead _ _ _ _ E) as [Em Ed].
  assert (Mo : forall ty, ty_ok m ty -> ty_ok m1 ty).
  { intros ty [x [Hx He]]. exists x. split; [|exact He]. unfold types_get in *.
    rewrite aset_index_nodead in * by (apply W1 || apply TW). apply K1, Hx. }
  split; [|split; [|exact Mo]].
  - constructor; auto.
    + rewrite Em. apply closed_set_types; [exact C|]. rewrite <- Em. exact Mo.
    + eapply nfo_congr; [| |exact NF]; rewrite Em; reflexivity.
  - intros He. exists ty'. split.
    + unfold types_get. rewrite aset_index_nodead by apply W1. exact Hty.
    + apply mtype_eqb_spec in Heq. intuition congruence.
Qed.

Lemma parse_types_PI : forall ts m ids m' ids', PI m ids -> parse_types m ids ts = (m', ids') -> PI m' ids'.
Proof.
  induction ts as [|[ps rs] r IH]; intros m ids m' ids' P E; cbn [parse_types] in E.
  - inversion E; subst; exact P.
  - destruct (types_insert m _) as [m1 id] eqn:Et.
    destruct (types_insert_PI _ _ _ _ _ P Et) as [[IC TW IT C NF] [Hnew Mo]].
    eapply IH; [|exact E]. constructor; auto.
    wcbn. intros x Hx. apply in_app_or in Hx. destruct Hx as [Hx|[<-|[]]]; [apply IT; exact Hx|apply Hnew; reflexivity].
Qed.

(* --- imports *)
Lemma parse_import_PI m ids i m' ids' : PI m ids -> parse_import m ids i = POk (m', ids') -> PI m' ids'.
Proof.
  intros [IC TW IT C NF] E. pose proof (parse_import_idc _ _ _ _ _ IC E) as IC'.
  destruct (idc_dead _ _ IC) as (DF & DT & DM & DG & _ & _ & DI & _).
  unfold parse_import in E. destruct (wi_kind i) as [tyidx|wt|wm|wg] eqn:Ek; [pinv E as tyid Ety|..]; wcbn; inversion E; subst; clear E;
    (constructor; [exact IC'|exact TW|wcbn; intros x Hx; eapply ty_ok_congr; [|apply IT; exact Hx]; reflexivity
                  | |eapply nfo_congr; [| |exact NF]; reflexivity]).
  - (* func *)
    apply (closed_step m); [exact C|mono_tac|wcbn..]; try keep.
    + intros id i' H. apply aget_app_inv in H. destruct H as [H|[-> ->]]; [left; exact H|right].
      unfold okI, liveF. wcbn. eexists. apply aget_app_new. exact DF.
    + intros f fn H. apply aget_app_inv in H. destruct H as [H|[-> ->]]; [left; exact H|right].
      split; cbn [fn_kind func_ty].
      * intros i0 ty0 _. eapply (imp_intro S_func); [wcbn; apply aget_app_new; exact DI|]. left; reflexivity.
      * eapply ty_ok_congr; [|apply IT; eapply nth_error_In; exact (of_opt_err_ok _ _ Ety)]. reflexivity.
  - (* table *)
    apply (closed_step m); [exact C|mono_tac|wcbn..]; try keep.
    + intros id i' H. apply aget_app_inv in H. destruct H as [H|[-> ->]]; [left; exact H|right].
      unfold okI, liveT. wcbn. eexists. apply aget_app_new. exact DT.
    + intros f fn H. apply aget_app_inv in H. destruct H as [H|[-> ->]]; [left; exact H|right].
      intros _. eapply (imp_intro S_table); [wcbn; apply aget_app_new; exact DI|]. left; reflexivity.
  - (* memory *)
    apply (closed_step m); [exact C|mono_tac|wcbn..]; try keep.
    + intros id i' H. apply aget_app_inv in H. destruct H as [H|[-> ->]]; [left; exact H|right].
      unfold okI, liveM. wcbn. eexists. apply aget_app_new. exact DM.
    + intros f fn H. apply aget_app_inv in H. destruct H as [H|[-> ->]]; [left; exact H|right].
      intros _. eapply (imp_intro S_memory); [wcbn; apply aget_app_new; exact DI|]. left; reflexivity.
  - (* global *)
    apply (closed_step m); [exact C|mono_tac|wcbn..]; try keep.
    + intros id i' H. apply aget_app_inv in H. destruct H as [H|[-> ->]]; [left; exact H|right].
      unfold okI, liveG. wcbn. eexists. apply aget_app_new. exact DG.
    + intros f fn H. apply aget_app_inv in H. destruct H as [H|[-> ->]]; [left; exact H|right].
      split; cbn [gl_kind gen_parse_global_import]; [|discriminate].
      intros _ _. eapply (imp_intro S_global); [wcbn; apply aget_app_new; exact DI|]. left; reflexivity.
Qed.

Lemma parse_imports_PI : forall l m ids m' ids', PI m ids -> parse_imports m ids l = POk (m', ids') -> PI m' ids'.
Proof.
  induction l as [|i r IH]; intros m ids m' ids' P E; cbn [parse_imports] in E.
  - inversion E; subst; exact P.
  - pinv E as x Ex. destruct x as [m1 ids1]. eapply IH; [|exact E]. eapply parse_import_PI; eauto.
Qed.

(* --- functions *)
Lemma okF_kind m f fn fn' : fn_kind fn' = fn_kind fn -> okF m f fn -> okF m f fn'.
Proof. unfold okF, func_ty. intros ->. auto. Qed.

Lemma parse_funcs_PI : forall l m ids m' ids', PI m ids -> parse_funcs m ids l = POk (m', ids') -> PI m' ids'.
Proof.
  induction l as [|tyidx r IH]; intros m ids m' ids' P E; cbn [parse_funcs] in E.
  - inversion E; subst; exact P.
  - pinv E as ty Ety. wcbn. eapply IH; [|exact E]. clear E IH. destruct P as [IC TW IT C NF].
    destruct (idc_dead _ _ IC) as (DF & _).
    assert (Hty : ty_ok m ty) by (apply IT; eapply nth_error_In; exact (of_opt_err_ok _ _ Ety)).
    constructor.
    + clear - IC. destruct (synth _ _ _); idc_solve.
    + exact TW.
    + wcbn. intros x Hx. eapply ty_ok_congr; [|apply IT; exact Hx]. reflexivity.
    + destruct (synth (m_config m) [102%N] (len_N (ii_funcs ids))) as [nm|].
      * unfold aset_at. apply (closed_step m); [exact C|mono_tac|wcbn..]; try keep.
        intros f fn H. apply aget_upd_inv' in H. destruct H as [x0 [H Hx]]. apply aget_app_inv in H.
        destruct H as [H|[-> ->]].
        -- right. destruct (closed_elim m C) as (_ & CF & _). specialize (CF f x0 H).
           assert (K : okF m f fn) by (destruct Hx as [->| ->]; [exact CF|eapply okF_kind; [|exact CF]; reflexivity]).
           eapply okF_mono; [|exact K]. unfold aset_at. mono_tac.
        -- right. assert (K : fn_kind fn = FK_Uninit ty) by (destruct Hx as [->| ->]; reflexivity).
           split; [intros ? ? Hk; congruence|]. unfold func_ty. rewrite K.
           eapply ty_ok_congr; [|exact Hty]. reflexivity.
      * apply (closed_step m); [exact C|mono_tac|wcbn..]; try keep.
        intros f fn H. apply aget_app_inv in H. destruct H as [H|[-> ->]]; [left; exact H|right].
        split; [intros ? ? Hk; discriminate|]. cbn [func_ty fn_kind]. eapply ty_ok_congr; [|exact Hty]. reflexivity.
    + eapply nfo_congr; [| |exact NF]; reflexivity.
Qed.

(* --- tables, memories *)
Lemma parse_tables_PI : forall l m ids m' ids', PI m ids -> parse_tables m ids l = (m', ids') -> PI m' ids'.
Proof.
  induction l as [|t r IH]; intros m ids m' ids' P E; cbn [parse_tables] in E.
  - inversion E; subst; exact P.
  - wcbn. eapply IH; [|exact E]. clear E IH. destruct P as [IC TW IT C NF]. constructor.
    + clear - IC. idc_solve.
    + exact TW.
    + wcbn. intros x Hx. eapply ty_ok_congr; [|apply IT; exact Hx]. reflexivity.
    + apply (closed_step m); [exact C|mono_tac|wcbn..]; try keep.
      intros f fn H. apply aget_app_inv in H. destruct H as [H|[-> ->]]; [left; exact H|right].
      intros Hn. exfalso. apply Hn. reflexivity.
    + eapply nfo_congr; [| |exact NF]; reflexivity.
Qed.
Lemma parse_mems_PI : forall l m ids m' ids', PI m ids -> parse_mems m ids l = (m', ids') -> PI m' ids'.
Proof.
  induction l as [|t r IH]; intros m ids m' ids' P E; cbn [parse_mems] in E.
  - inversion E; subst; exact P.
  - wcbn. eapply IH; [|exact E]. clear E IH. destruct P as [IC TW IT C NF]. constructor.
    + clear - IC. idc_solve.
    + exact TW.
    + wcbn. intros x Hx. eapply ty_ok_congr; [|apply IT; exact Hx]. reflexivity.
    + apply (closed_step m); [exact C|mono_tac|wcbn..]; try keep.
      intros f fn H. apply aget_app_inv in H. destruct H as [H|[-> ->]]; [left; exact H|right].
      intros Hn. exfalso. apply Hn. reflexivity.
    + eapply nfo_congr; [| |exact NF]; reflexivity.
Qed.

(* --- constant expressions *)
Lemma eval_const_live m ids c mc : ids_consistent m ids -> eval_const ids c = POk mc ->
  match mc with
  | MC_Global g => liveG m g /\ N.to_nat g < length (items (m_globals m))
  | MC_RefFunc f => liveF m f
  | _ => True
  end.
Proof.
  intros IC E. destruct c; cbn [eval_const] in E; try (inversion E; subst; exact I); try discriminate.
  - pinv E as g Eg. inversion E; subst. eapply idc_globals; eauto. exact (of_opt_err_ok _ _ Eg).
  - pinv E as f Ef. inversion E; subst. eapply idc_funcs; eauto. exact (of_opt_err_ok _ _ Ef).
Qed.
Lemma eval_const_cref m ids c mc : ids_consistent m ids -> eval_const ids c = POk mc -> cref_live m mc.
Proof. intros IC E. pose proof (eval_const_live m ids c mc IC E) as H. destruct mc; cbn [cref_live]; tauto. Qed.

(* --- globals *)
Lemma parse_globals_PI : forall l m ids m' ids', PI m ids -> parse_globals m ids l = POk (m', ids') -> PI m' ids'.
Proof.
  induction l as [|[g c] r IH]; intros m ids m' ids' P E; cbn [parse_globals] in E.
  - inversion E; subst; exact P.
  - pinv E as init Ei. wcbn. eapply IH; [|exact E]. clear E IH. destruct P as [IC TW IT C NF].
    pose proof (eval_const_live m ids c init IC Ei) as Hl. constructor.
    + clear - IC. idc_solve.
    + exact TW.
    + wcbn. intros x Hx. eapply ty_ok_congr; [|apply IT; exact Hx]. reflexivity.
    + apply (closed_step m); [exact C|mono_tac|wcbn..]; try keep.
      intros f fn H. apply aget_app_inv in H. destruct H as [H|[-> ->]]; [left; exact H|right].
      split; cbn [gl_kind gen_parse_global_local]; [discriminate|].
      intros c0 Hc. inversion Hc; subst c0. destruct init as [v|g'|t|f]; [exact I| |exact I| ].
      * destruct Hl as [[v Hv] Hlt]. split; [exists v; unfold liveG; wcbn; apply aget_app_old; exact Hv|left; lia].
      * destruct Hl as [v Hv]. exists v. wcbn. exact Hv.
    + eapply nfo_congr; [| |exact NF]; reflexivity.
Qed.

(* --- exports *)
Lemma parse_exports_PI : forall l m ids m', PI m ids -> parse_exports m ids l = POk m' -> PI m' ids.
Proof.
  induction l as [|e r IH]; intros m ids m' P E; cbn [parse_exports] in E.
  - inversion E; subst; exact P.
  - pinv E as item Eit. wcbn. eapply IH; [|exact E]. clear E IH. destruct P as [IC TW IT C NF]. constructor.
    + clear - IC. idc_solve.
    + exact TW.
    + wcbn. intros x Hx. eapply ty_ok_congr; [|apply IT; exact Hx]. reflexivity.
    + apply (closed_step m); [exact C|mono_tac|wcbn..]; try keep.
      intros id e' H. apply aget_app_inv in H. destruct H as [H|[-> ->]]; [left; exact H|right].
      apply of_opt_err_ok in Eit. unfold okX. cbn [ex_kind ex_item]. unfold ids_of_kind in Eit.
      destruct (we_kind e); cbn [item_live].
      * destruct (idc_funcs _ _ _ _ IC Eit) as [v Hv]. exists v. exact Hv.
      * destruct (idc_tables _ _ _ _ IC Eit) as [v Hv]. exists v. exact Hv.
      * destruct (idc_mems _ _ _ _ IC Eit) as [v Hv]. exists v. exact Hv.
      * destruct (idc_globals _ _ _ _ IC Eit) as [[v Hv] _]. exists v. exact Hv.
    + eapply nfo_congr; [| |exact NF]; reflexivity.
Qed.

(* --- elements *)
Lemma map_pres_In {A B} (f : A -> pres B) : forall l l', map_pres f l = POk l' -> forall b, In b l' -> exists a, f a = POk b.
Proof.
  induction l as [|x r IH]; intros l' H b Hb; cbn [map_pres] in H.
  - inversion H; subst. destruct Hb.
  - pinv H as y Ey. pinv H as ys Eys. inversion H; subst. destruct Hb as [<-|Hb]; eauto.
Qed.
Lemma offset_ok_nofunc m b o : offset_ok m b o = POk true -> forall f, o <> MC_RefFunc f.
Proof. intros H f ->. cbn in H. discriminate. Qed.

Lemma elem_items_live m ids e its : ids_consistent m ids ->
  match wel_items e with
  | WEI_Funcs fs => fl <-- map_pres (fun f => of_opt_err (nth_N (ii_funcs ids) f)) fs ;; POk (ELI_Funcs fl)
  | WEI_Exprs t es => el <-- map_pres (eval_const ids) es ;; POk (ELI_Exprs t el)
  end = POk its ->
  match its with
  | ELI_Funcs l => forall f, In f l -> liveF m f
  | ELI_Exprs _ es => forall c, In c es -> cref_live m c
  end.
Proof.
  intros IC E. destruct (wel_items e) as [fs|t es]; pinv E as l El; inversion E; subst; clear E.
  - intros f Hf. destruct (map_pres_In _ _ _ El f Hf) as [a Ha]. eapply idc_funcs; eauto. exact (of_opt_err_ok _ _ Ha).
  - intros c Hc. destruct (map_pres_In _ _ _ El c Hc) as [a Ha]. eapply eval_const_cref; eauto.
Qed.

Lemma items_live_mono m m' its : mono m m' ->
  match its with
  | ELI_Funcs l => forall f, In f l -> liveF m f
  | ELI_Exprs _ es => forall c, In c es -> cref_live m c
  end ->
  match its with
  | ELI_Funcs l => forall f, In f l -> liveF m' f
  | ELI_Exprs _ es => forall c, In c es -> cref_live m' c
  end.
Proof. intros Mo H. destruct its; intros x Hx; [apply Mo|eapply cref_live_mono; [exact Mo|]]; auto. Qed.

Lemma parse_elem_PI m ids e m' ids' : PI m ids -> parse_elem m ids e = POk (m', ids') -> PI m' ids'.
Proof.
  intros [IC TW IT C NF] E. pose proof (parse_elem_idc _ _ _ _ _ IC E) as IC'.
  destruct (idc_dead _ _ IC) as (DF & DT & DM & DG & DE & DD & DI & DX).
  unfold parse_elem in E. pinv E as its Eits. pinv E as mk Emk. destruct mk as [m1 kind].
  pose proof (elem_items_live m ids e its IC Eits) as Hits. clear Eits.
  wcbn. inversion E; subst; clear E.
  destruct (wel_kind e) as [| |tbl off].
  - inversion Emk; subst; clear Emk. constructor; [exact IC'|exact TW| | |].
    + wcbn. intros x Hx. eapply ty_ok_congr; [|apply IT; exact Hx]. reflexivity.
    + apply (closed_step m1); [exact C|mono_tac|wcbn..]; try keep.
      intros id e' H. apply aget_app_inv in H. destruct H as [H|[-> ->]]; [left; exact H|right].
      split; cbn [el_items el_kind]; [|exact I]. eapply items_live_mono; [|exact Hits]. mono_tac.
    + destruct NF as [NFe NFd]. split; wcbn; [|exact NFd].
      intros id e' t f H. apply aget_app_inv in H. destruct H as [H|[-> ->]]; [eapply NFe; eauto|discriminate].
  - inversion Emk; subst; clear Emk. constructor; [exact IC'|exact TW| | |].
    + wcbn. intros x Hx. eapply ty_ok_congr; [|apply IT; exact Hx]. reflexivity.
    + apply (closed_step m1); [exact C|mono_tac|wcbn..]; try keep.
      intros id e' H. apply aget_app_inv in H. destruct H as [H|[-> ->]]; [left; exact H|right].
      split; cbn [el_items el_kind]; [|exact I]. eapply items_live_mono; [|exact Hits]. mono_tac.
    + destruct NF as [NFe NFd]. split; wcbn; [|exact NFd].
      intros id e' t f H. apply aget_app_inv in H. destruct H as [H|[-> ->]]; [eapply NFe; eauto|discriminate].
  - pinv Emk as tid Etid. pinv Emk as tb Etb. pinv Emk as o Eo. pinv Emk as ok Eok. destruct ok; [|discriminate].
    inversion Emk; subst; clear Emk. unfold aset_at in *. wcbn.
    pose proof (idc_tables _ _ _ _ IC (of_opt_err_ok _ _ Etid)) as Ltid.
    pose proof (eval_const_cref m ids off o IC Eo) as Lo.
    pose proof (offset_ok_nofunc _ _ _ Eok) as No.
    match goal with |- PI ?mm _ => assert (Mo : mono m mm) by mono_tac end.
    constructor; [exact IC'|exact TW| | |].
    + wcbn. intros x Hx. eapply ty_ok_congr; [|apply IT; exact Hx]. reflexivity.
    + apply (closed_step m); [exact C|exact Mo|wcbn..]; try keep.
      * intros t tb' H. apply aget_upd_inv' in H. destruct H as [x0 [H Hx]]. rewrite aget_eta in H.
        destruct Hx as [->| ->]; [left; exact H|right].
        destruct (closed_elim m C) as (_ & _ & CT & _). specialize (CT t x0 H).
        eapply okT_mono; [exact Mo|]. exact CT.
      * intros id e' H. apply aget_app_inv in H. destruct H as [H|[-> ->]]; [left; exact H|right].
        split; cbn [el_items el_kind].
        -- eapply items_live_mono; [exact Mo|exact Hits].
        -- split; [apply Mo; exact Ltid|eapply cref_live_mono; [exact Mo|exact Lo]].
    + destruct NF as [NFe NFd]. split; wcbn; [|exact NFd].
      intros id e' t f H. apply aget_app_inv in H. destruct H as [H|[-> ->]]; [eapply NFe; eauto|].
      cbn [el_kind]. intros K. inversion K. eapply No; eauto.
Qed.

Lemma parse_elems_PI : forall l m ids m' ids', PI m ids -> parse_elems m ids l = POk (m', ids') -> PI m' ids'.
Proof.
  induction l as [|i r IH]; intros m ids m' ids' P E; cbn [parse_elems] in E.
  - inversion E; subst; exact P.
  - pinv E as x Ex. destruct x as [m1 ids1]. eapply IH; [|exact E]. eapply parse_elem_PI; eauto.
Qed.

(* --- data *)
Lemma alloc_data_PI m ids : PI m ids ->
  PI (set_data m {| items := items (m_data m) ++ [empty_data]; dead := dead (m_data m) |})
     (push_data ids (N.of_nat (length (items (m_data m))))).
Proof.
  intros [IC TW IT C NF]. constructor.
  - clear - IC. idc_solve.
  - exact TW.
  - wcbn. intros x Hx. eapply ty_ok_congr; [|apply IT; exact Hx]. reflexivity.
  - apply (closed_step m); [exact C|mono_tac|wcbn..]; try keep.
    intros id d H. apply aget_app_inv in H. destruct H as [H|[-> ->]]; [left; exact H|right]. exact I.
  - destruct NF as [NFe NFd]. split; wcbn; [exact NFe|].
    intros id d mem f H. apply aget_app_inv in H. destruct H as [H|[-> ->]]; [eapply NFd; eauto|discriminate].
Qed.

Lemma reserve_data_PI : forall n m ids m' ids', PI m ids -> reserve_data m ids n = (m', ids') -> PI m' ids'.
Proof.
  induction n as [|n IH]; intros m ids m' ids' P E; cbn [reserve_data] in E.
  - inversion E; subst; exact P.
  - wcbn. eapply IH; [|exact E]. apply alloc_data_PI. exact P.
Qed.

Lemma data_fill_PI m ids (d : wdata) id m2 kind : PI m ids ->
  match wd_kind d with
  | WDK_Passive => POk (m, DK_Passive)
  | WDK_Active mi off =>
      mid <-- of_opt_err (nth_N (ii_memories ids) mi) ;;
      mem <-- of_opt_panic (aget (m_memories m) mid) ;;
      let m2 := set_memories m (aset_at (m_memories m) mid (fun t => {| me_shared := me_shared t; me_64 := me_64 t; me_init := me_init t; me_max := me_max t; me_page := me_page t; me_import := me_import t; me_segs := me_segs t ++ [id]; me_name := me_name t |})) in
      o <-- eval_const ids off ;;
      ok <-- offset_ok m2 (me_64 mem) o ;;
      if ok then POk (m2, DK_Active mid o) else PErr
  end = POk (m2, kind) ->
  PI (set_data m2 (aset_at (m_data m2) id (fun t => {| da_kind := kind; da_value := wd_bytes d; da_name := da_name t |}))) ids.
Proof.
  intros [IC TW IT C NF] Ey. destruct (wd_kind d) as [|mi off].
  - inversion Ey; subst; clear Ey. unfold aset_at. constructor.
    + clear - IC. idc_solve.
    + exact TW.
    + wcbn. intros x Hx. eapply ty_ok_congr; [|apply IT; exact Hx]. reflexivity.
    + apply (closed_step m2); [exact C|mono_tac|wcbn..]; try keep.
      intros i x H. apply aget_upd_inv' in H. destruct H as [x0 [H Hx]]. rewrite aget_eta in H.
      destruct Hx as [->| ->]; [left; exact H|right]. exact I.
    + destruct NF as [NFe NFd]. split; wcbn; [exact NFe|].
      intros i x mem f H. apply aget_upd_inv' in H. destruct H as [x0 [H Hx]]. rewrite aget_eta in H.
      destruct Hx as [->| ->]; [eapply NFd; eauto|discriminate].
  - pinv Ey as mid Emid. pinv Ey as mm Emm. pinv Ey as o Eo. pinv Ey as ok Eok. destruct ok; [|discriminate].
    inversion Ey; subst; clear Ey. unfold aset_at in *. wcbn.
    pose proof (idc_mems _ _ _ _ IC (of_opt_err_ok _ _ Emid)) as Lmid.
    pose proof (eval_const_cref m ids off o IC Eo) as Lo.
    pose proof (offset_ok_nofunc _ _ _ Eok) as No.
    match goal with |- PI ?mm _ => assert (Mo : mono m mm) by mono_tac end.
    constructor.
    + clear - IC. idc_solve.
    + exact TW.
    + wcbn. intros x Hx. eapply ty_ok_congr; [|apply IT; exact Hx]. reflexivity.
    + apply (closed_step m); [exact C|exact Mo|wcbn..]; try keep.
      * intros t me H. apply aget_upd_inv' in H. destruct H as [x0 [H Hx]]. rewrite aget_eta in H.
        destruct Hx as [->| ->]; [left; exact H|right].
        destruct (closed_elim m C) as (_ & _ & _ & CM & _). specialize (CM t x0 H).
        eapply okM_mono; [exact Mo|]. exact CM.
      * intros i x H. apply aget_upd_inv' in H. destruct H as [x0 [H Hx]]. rewrite aget_eta in H.
        destruct Hx as [->| ->]; [left; exact H|right].
        unfold okD. cbn [da_kind]. split; [apply Mo; exact Lmid|eapply cref_live_mono; [exact Mo|exact Lo]].
    + destruct NF as [NFe NFd]. split; wcbn; [exact NFe|].
      intros i x mem f H. apply aget_upd_inv' in H. destruct H as [x0 [H Hx]]. rewrite aget_eta in H.
      destruct Hx as [->| ->]; [eapply NFd; eauto|]. cbn [da_kind]. intros K. inversion K. eapply No; eauto.
Qed.

Lemma parse_data_from_PI : forall l m ids pre i m' ids',
  PI m ids -> parse_data_from m ids pre i l = POk (m', ids') -> PI m' ids'.
Proof.
  induction l as [|d r IH]; intros m ids pre i m' ids' P E; cbn [parse_data_from] in E.
  - inversion E; subst; exact P.
  - pinv E as x Ex. destruct x as [[m1 ids1] id]. pinv E as y Ey. destruct y as [m2 kind]. pinv E as u Eu.
    eapply IH; [|exact E]. clear E IH Eu.
    assert (P1 : PI m1 ids1).
    { destruct pre.
      - pinv Ex as z Ez. inversion Ex; subst; exact P.
      - wcbn. inversion Ex; subst; clear Ex. apply alloc_data_PI. exact P. }
    eapply data_fill_PI; eauto.
Qed.

(* --- one payload, all payloads *)
Lemma closed_congr m m' :
  m_imports m' = m_imports m -> m_tables m' = m_tables m -> m_types m' = m_types m -> m_funcs m' = m_funcs m ->
  m_globals m' = m_globals m -> m_exports m' = m_exports m -> m_memories m' = m_memories m -> m_data m' = m_data m ->
  m_elements m' = m_elements m -> m_start m' = m_start m -> closed m -> closed m'.
Proof.
  intros E1 E2 E3 E4 E5 E6 E7 E8 E9 E10 C.
  apply (closed_step m); [exact C| |rewrite ?E1, ?E2, ?E4, ?E5, ?E6, ?E7, ?E8, ?E9, ?E10; keep..].
  unfold mono, liveF, liveT, liveM, liveG. rewrite E1, E2, E4, E5, E7. repeat split; auto.
  intros ty. apply ty_ok_congr. exact E3.
Qed.

Lemma PI_congr m m' ids ids' : ii_types ids' = ii_types ids ->
  m_imports m' = m_imports m -> m_tables m' = m_tables m -> m_types m' = m_types m -> m_funcs m' = m_funcs m ->
  m_globals m' = m_globals m -> m_exports m' = m_exports m -> m_memories m' = m_memories m -> m_data m' = m_data m ->
  m_elements m' = m_elements m -> m_start m' = m_start m -> ids_consistent m' ids' -> PI m ids -> PI m' ids'.
Proof.
  intros E0 E1 E2 E3 E4 E5 E6 E7 E8 E9 E10 IC' [IC TW IT C NF]. constructor.
  - exact IC'.
  - rewrite E3. exact TW.
  - intros x Hx. rewrite E0 in Hx. eapply ty_ok_congr; [exact E3|apply IT; exact Hx].
  - eapply closed_congr; eauto.
  - eapply nfo_congr; eauto.
Qed.

Lemma parse_sec_PI s sec s' : PI (ps_m s) (ps_ids s) -> parse_sec s sec = POk s' -> PI (ps_m s') (ps_ids s').
Proof.
  intros P E. pose proof (parse_sec_idc _ _ _ (pi_idc _ _ P) E) as IC'. unfold parse_sec in E. destruct sec.
  - destruct (parse_types _ _ _) as [m1 i1] eqn:Ep. inversion E; subst; clear E. wcbn. eapply parse_types_PI; eauto.
  - pinv E as x Ex. destruct x as [m1 i1]. inversion E; subst; clear E. wcbn. eapply parse_imports_PI; eauto.
  - pinv E as x Ex. destruct x as [m1 i1]. inversion E; subst; clear E. wcbn. eapply parse_funcs_PI; eauto.
  - destruct (parse_tables _ _ _) as [m1 i1] eqn:Ep. inversion E; subst; clear E. wcbn. eapply parse_tables_PI; eauto.
  - destruct (parse_mems _ _ _) as [m1 i1] eqn:Ep. inversion E; subst; clear E. wcbn. eapply parse_mems_PI; eauto.
  - pinv E as x Ex. destruct x as [m1 i1]. inversion E; subst; clear E. wcbn. eapply parse_globals_PI; eauto.
  - pinv E as x Ex. inversion E; subst; clear E. wcbn. eapply parse_exports_PI; eauto.
  - pinv E as fid Ef. inversion E; subst; clear E. wcbn. destruct P as [IC TW IT C NF].
    constructor; [exact IC'|exact TW| | |].
    + intros x Hx. eapply ty_ok_congr; [|apply IT; exact Hx]. reflexivity.
    + apply (closed_step (ps_m s)); [exact C|mono_tac|wcbn..]; try keep.
      intros f0 Hf. inversion Hf; subst f0. right. destruct (idc_funcs _ _ _ _ IC (of_opt_err_ok _ _ Ef)) as [v Hv].
      exists v. exact Hv.
    + eapply nfo_congr; [| |exact NF]; reflexivity.
  - pinv E as x Ex. destruct x as [m1 i1]. inversion E; subst; clear E. wcbn. eapply parse_elems_PI; eauto.
  - destruct (reserve_data _ _ _) as [m1 i1] eqn:Ep. inversion E; subst; clear E. wcbn. eapply reserve_data_PI; eauto.
  - inversion E; subst; clear E. wcbn. exact P.
  - pinv E as x Ex. destruct x as [m1 i1]. inversion E; subst; clear E. wcbn.
    unfold parse_data in Ex. eapply parse_data_from_PI; eauto.
  - inversion E; subst; clear E. unfold parse_custom in *.
    destruct c as [n d|n d|[n|]|[p|]]; wcbn; try exact P; (apply (PI_congr (ps_m s) _ (ps_ids s)); [reflexivity..|exact IC'|exact P]).
Qed.

Theorem parse_secs_PI : forall w s s', PI (ps_m s) (ps_ids s) -> parse_secs s w = POk s' -> PI (ps_m s') (ps_ids s').
Proof.
  induction w as [|x r IH]; intros s s' P E; cbn [parse_secs] in E.
  - inversion E; subst; exact P.
  - pinv E as s1 E1. eapply IH; [|exact E]. eapply parse_sec_PI; eauto.
Qed.

(* --- after the payload loop: locals and entry types, bodies *)
Definition same10 (m m' : wir) : Prop :=
  m_imports m' = m_imports m /\ m_tables m' = m_tables m /\ m_types m' = m_types m /\ m_funcs m' = m_funcs m /\
  m_globals m' = m_globals m /\ m_exports m' = m_exports m /\ m_memories m' = m_memories m /\ m_data m' = m_data m /\
  m_elements m' = m_elements m /\ m_start m' = m_start m.

Lemma add_locals_same : forall tys m ids fid pre m' ids' l,
  add_locals m ids fid tys pre = (m', ids', l) -> same10 m m' /\ ii_types ids' = ii_types ids.
Proof.
  induction tys as [|t r IH]; intros m ids fid pre m' ids' l E; cbn [add_locals] in E.
  - inversion E; subst. unfold same10. repeat split; reflexivity.
  - wcbn. destruct (add_locals _ _ fid r pre) as [[m1 ids1] rest] eqn:Ea. inversion E; subst; clear E.
    apply IH in Ea. unfold same10 in *. wcbn. exact Ea.
Qed.

Lemma PI_same m m' ids ids' : same10 m m' -> ii_types ids' = ii_types ids -> ids_consistent m' ids' -> PI m ids -> PI m' ids'.
Proof. intros (E1 & E2 & E3 & E4 & E5 & E6 & E7 & E8 & E9 & E10) E0 IC' P. eapply PI_congr; eauto. Qed.

Lemma prepare_bodies_PI : forall bs m ids ni i m' ids' ps,
  PI m ids -> prepare_bodies m ids ni i bs = POk (m', ids', ps) ->
  PI m' ids' /\ Forall (fun p => ty_ok m' (pr_ty p)) ps /\ (forall ty, ty_ok m ty -> ty_ok m' ty).
Proof.
  induction bs as [|b r IH]; intros m ids ni i m' ids' ps P E; cbn [prepare_bodies] in E.
  - inversion E; subst. split; [exact P|]. split; [constructor|auto].
  - pinv E as fid Efid. pinv E as f Ef. destruct (fn_kind f) as [? ?|?|ty] eqn:Ek; try discriminate.
    pinv E as t Et.
    destruct (add_locals m ids fid (ty_params t) _) as [[m1 ids1] args] eqn:E1.
    destruct (types_insert m1 _) as [m2 tid] eqn:E2.
    destruct (add_locals m2 ids1 fid _ _) as [[m3 ids3] ls] eqn:E3.
    pinv E as x Ex. destruct x as [[m4 ids4] rest]. inversion E; subst; clear E.
    destruct (add_locals_same _ _ _ _ _ _ _ _ E1) as [S1 T1].
    assert (P1 : PI m1 ids1) by (eapply PI_same; eauto; eapply add_locals_idc; [apply P|exact E1]).
    destruct (types_insert_PI _ _ _ _ _ P1 E2) as [P2 [_ Mo2]].
    destruct (add_locals_same _ _ _ _ _ _ _ _ E3) as [S3 T3].
    assert (P3 : PI m3 ids3) by (eapply PI_same; eauto; eapply add_locals_idc; [apply P2|exact E3]).
    destruct (IH _ _ _ _ _ _ _ P3 Ex) as [P4 [F4 Mo4]].
    assert (Mo : forall ty0, ty_ok m ty0 -> ty_ok m' ty0).
    { intros ty0 H. apply Mo4. eapply ty_ok_congr; [apply S3|]. apply Mo2. eapply ty_ok_congr; [apply S1|]. exact H. }
    split; [exact P4|]. split; [|exact Mo]. constructor; [|exact F4]. cbn [pr_ty]. apply Mo.
    apply of_opt_panic_ok in Ef. destruct (cl_func_ty m (pi_closed _ _ P) fid f Ef) as [t0 Ht0].
    unfold func_ty in Ht0. rewrite Ek in Ht0. exists t0. exact Ht0.
Qed.

Lemma parse_one_body_ty m ids p lf : parse_one_body m ids p = POk lf -> lf_ty lf = pr_ty p.
Proof.
  unfold parse_one_body. intros E. pinv E as t Et. pinv E as ety Eety.
  destruct (parse_body _ _ _ _); try discriminate. inversion E; subst. reflexivity.
Qed.

Lemma install_bodies_PI : forall ps m ids m',
  PI m ids -> Forall (fun p => ty_ok m (pr_ty p)) ps -> install_bodies m ids ps = POk m' -> PI m' ids.
Proof.
  induction ps as [|p r IH]; intros m ids m' P F E; cbn [install_bodies] in E.
  - inversion E; subst; exact P.
  - pinv E as lf Elf. inversion F as [|? ? Fp Fr]; subst. apply parse_one_body_ty in Elf.
    eapply IH; [| |exact E]; clear E IH.
    + destruct P as [IC TW IT C NF]. unfold aset_at. constructor.
      * clear - IC. idc_solve.
      * exact TW.
      * wcbn. intros x Hx. eapply ty_ok_congr; [|apply IT; exact Hx]. reflexivity.
      * apply (closed_step m); [exact C|mono_tac|wcbn..]; try keep.
        intros f fn H. apply aget_upd_inv' in H. destruct H as [x0 [H Hx]]. rewrite aget_eta in H.
        destruct Hx as [->| ->]; [left; exact H|right].
        split; [intros ? ? Hk; discriminate|]. cbn [func_ty fn_kind]. rewrite Elf.
        eapply ty_ok_congr; [|exact Fp]. reflexivity.
      * eapply nfo_congr; [| |exact NF]; reflexivity.
    + eapply Forall_impl; [|exact Fr]. intros a Ha. eapply ty_ok_congr; [|exact Ha]. reflexivity.
Qed.

(* --- the name section only rewrites names in place *)
Definition CN (m : wir) : Prop := closed m /\ no_func_offsets m.

Lemma CN_congr m m' :
  m_imports m' = m_imports m -> m_tables m' = m_tables m -> m_types m' = m_types m -> m_funcs m' = m_funcs m ->
  m_globals m' = m_globals m -> m_exports m' = m_exports m -> m_memories m' = m_memories m -> m_data m' = m_data m ->
  m_elements m' = m_elements m -> m_start m' = m_start m -> CN m -> CN m'.
Proof. intros E1 E2 E3 E4 E5 E6 E7 E8 E9 E10 [C NF]. split; [eapply closed_congr; eauto|eapply nfo_congr; eauto]. Qed.

Lemma aget_upd_fwd {A} (l : list A) d id f i x0 : aget {| items := l; dead := d |} i = Some x0 ->
  aget {| items := WV.Model.Arena.upd l (N.to_nat id) f; dead := d |} i = Some x0 \/
  aget {| items := WV.Model.Arena.upd l (N.to_nat id) f; dead := d |} i = Some (f x0).
Proof.
  unfold aget, index, get, is_dead. cbn [items dead]. destruct (existsb _ d); [discriminate|].
  rewrite upd_nth. intros ->. destruct (Nat.eqb _ _); cbn; auto.
Qed.

Section ApplyNames.
  Context {A : Type} (setn : A -> ModuleM.str -> A) (idx : list N) (Q : N -> A -> Prop).
  Hypothesis Qset : forall id x n, Q id x -> Q id (setn x n).

  Lemma apply_names_inv : forall (l : namemap) (a : tarena A),
    (forall id x, aget a id = Some x -> Q id x) ->
    forall id x, aget (apply_names a idx setn l) id = Some x -> Q id x.
  Proof.
    induction l as [|[i n] r IH]; intros a H; cbn [apply_names]; [exact H|].
    destruct (nth_N idx i) as [n0|]; [|apply IH; exact H].
    apply IH. unfold aset_at. intros id x Hx. apply aget_upd_inv' in Hx. destruct Hx as [x0 [Hx0 Hx]].
    rewrite aget_eta in Hx0. destruct Hx as [->| ->]; auto.
  Qed.

  Lemma apply_names_live : forall (l : namemap) (a : tarena A) id x, aget a id = Some x -> Q id x ->
    exists x', aget (apply_names a idx setn l) id = Some x' /\ Q id x'.
  Proof.
    induction l as [|[i n] r IH]; intros a id x H HQ; cbn [apply_names]; [eauto|].
    destruct (nth_N idx i) as [n0|]; [|eapply IH; eauto].
    rewrite <- aget_eta in H. unfold aset_at.
    destruct (aget_upd_fwd _ _ n0 (fun y => setn y n) _ _ H) as [H'|H']; eapply IH; eauto.
  Qed.
End ApplyNames.

Lemma apply_names_live0 {A} (setn : A -> ModuleM.str -> A) idx l (a : tarena A) id x :
  aget a id = Some x -> exists x', aget (apply_names a idx setn l) id = Some x'.
Proof.
  intros H. destruct (apply_names_live setn idx (fun _ _ => True) (fun _ _ _ _ => I) l a id x H I) as [x' [H' _]]. eauto.
Qed.

Lemma cn_funcs m idx l : CN m ->
  CN (set_funcs m (apply_names (m_funcs m) idx (fun f s => {| fn_kind := fn_kind f; fn_name := Some s |}) l)).
Proof.
  intros [C NF]. match goal with |- CN ?mm => assert (Mo : mono m mm) end.
  { unfold mono, liveF, liveT, liveM, liveG; repeat split; wcbn; auto; try (intros ty; apply ty_ok_congr; reflexivity).
    intros f [v H]. eapply apply_names_live0; exact H. }
  split; [|eapply nfo_congr; [| |exact NF]; reflexivity].
  apply (closed_step m); [exact C|exact Mo|wcbn..]; try keep.
  intros f fn H. right. revert f fn H. apply apply_names_inv.
  - intros id x n. apply okF_kind. reflexivity.
  - intros id x H. eapply okF_mono; [exact Mo|]. apply (closed_elim m C). exact H.
Qed.

Lemma cn_types m idx l : CN m ->
  CN (set_types m {| arena := apply_names (arena (m_types m)) idx set_type_name l; already := already (m_types m) |}).
Proof.
  intros [C NF]. split; [|eapply nfo_congr; [| |exact NF]; reflexivity].
  apply closed_set_types; [exact C|]. intros ty [t [Ht He]]. unfold ty_ok, types_get, aset_index in *. wcbn.
  destruct (apply_names_live set_type_name idx (fun _ t => ty_entry t = false) (fun _ _ _ H => H) l
              (arena (m_types m)) ty t Ht He) as [t' [Ht' He']].
  exists t'. split; [exact Ht'|exact He'].
Qed.

Lemma cn_tables m idx l : CN m ->
  CN (set_tables m (apply_names (m_tables m) idx (fun t s => {| tb_64 := tb_64 t; tb_init := tb_init t; tb_max := tb_max t; tb_elem := tb_elem t; tb_import := tb_import t; tb_segs := tb_segs t; tb_name := Some s |}) l)).
Proof.
  intros [C NF]. match goal with |- CN ?mm => assert (Mo : mono m mm) end.
  { unfold mono, liveF, liveT, liveM, liveG; repeat split; wcbn; auto; try (intros ty; apply ty_ok_congr; reflexivity).
    intros f [v H]. eapply apply_names_live0; exact H. }
  split; [|eapply nfo_congr; [| |exact NF]; reflexivity].
  apply (closed_step m); [exact C|exact Mo|wcbn..]; try keep.
  intros f fn H. right. revert f fn H. apply apply_names_inv.
  - intros id x n H. exact H.
  - intros id x H. eapply okT_mono; [exact Mo|]. apply (closed_elim m C). exact H.
Qed.

Lemma cn_memories m idx l : CN m ->
  CN (set_memories m (apply_names (m_memories m) idx (fun t s => {| me_shared := me_shared t; me_64 := me_64 t; me_init := me_init t; me_max := me_max t; me_page := me_page t; me_import := me_import t; me_segs := me_segs t; me_name := Some s |}) l)).
Proof.
  intros [C NF]. match goal with |- CN ?mm => assert (Mo : mono m mm) end.
  { unfold mono, liveF, liveT, liveM, liveG; repeat split; wcbn; auto; try (intros ty; apply ty_ok_congr; reflexivity).
    intros f [v H]. eapply apply_names_live0; exact H. }
  split; [|eapply nfo_congr; [| |exact NF]; reflexivity].
  apply (closed_step m); [exact C|exact Mo|wcbn..]; try keep.
  intros f fn H. right. revert f fn H. apply apply_names_inv.
  - intros id x n H. exact H.
  - intros id x H. eapply okM_mono; [exact Mo|]. apply (closed_elim m C). exact H.
Qed.

Lemma cn_globals m idx l : CN m ->
  CN (set_globals m (apply_names (m_globals m) idx (fun g s => {| gl_ty := gl_ty g; gl_mut := gl_mut g; gl_shared := gl_shared g; gl_kind := gl_kind g; gl_name := Some s |}) l)).
Proof.
  intros [C NF]. match goal with |- CN ?mm => assert (Mo : mono m mm) end.
  { unfold mono, liveF, liveT, liveM, liveG; repeat split; wcbn; auto; try (intros ty; apply ty_ok_congr; reflexivity).
    intros f [v H]. eapply apply_names_live0; exact H. }
  split; [|eapply nfo_congr; [| |exact NF]; reflexivity].
  apply (closed_step m); [exact C|exact Mo|wcbn..]; try keep.
  intros f fn H. right. revert f fn H. apply apply_names_inv.
  - intros id x n H. exact H.
  - intros id x H. eapply okG_mono; [exact Mo|]. apply (closed_elim m C). exact H.
Qed.

Lemma cn_elements m idx l : CN m ->
  CN (set_elements m (apply_names (m_elements m) idx (fun e s => {| el_kind := el_kind e; el_items := el_items e; el_name := Some s |}) l)).
Proof.
  intros [C NF]. match goal with |- CN ?mm => assert (Mo : mono m mm) end.
  { unfold mono, liveF, liveT, liveM, liveG; repeat split; wcbn; auto; try (intros ty; apply ty_ok_congr; reflexivity). }
  split.
  - apply (closed_step m); [exact C|exact Mo|wcbn..]; try keep.
    intros f fn H. right. revert f fn H.
    apply (apply_names_inv _ idx (fun (_ : N) e => okE (set_elements m (apply_names (m_elements m) idx (fun e s => {| el_kind := el_kind e; el_items := el_items e; el_name := Some s |}) l)) e)).
    + intros id x n H. exact H.
    + intros id x H. eapply okE_mono; [exact Mo|]. eapply (closed_elim m C). exact H.
  - destruct NF as [NFe NFd]. split; wcbn; [|exact NFd].
    intros id e t f H. revert id e H t f.
    apply (apply_names_inv _ idx (fun (_ : N) e => forall t f, el_kind e <> ELK_Active t (MC_RefFunc f))).
    + intros id x n H. exact H.
    + intros id x H t f. eapply NFe; eauto.
Qed.

Lemma cn_data m idx l : CN m ->
  CN (set_data m (apply_names (m_data m) idx (fun d s => {| da_kind := da_kind d; da_value := da_value d; da_name := Some s |}) l)).
Proof.
  intros [C NF]. match goal with |- CN ?mm => assert (Mo : mono m mm) end.
  { unfold mono, liveF, liveT, liveM, liveG; repeat split; wcbn; auto; try (intros ty; apply ty_ok_congr; reflexivity). }
  split.
  - apply (closed_step m); [exact C|exact Mo|wcbn..]; try keep.
    intros f fn H. right. revert f fn H.
    apply (apply_names_inv _ idx (fun (_ : N) d => okD (set_data m (apply_names (m_data m) idx (fun d s => {| da_kind := da_kind d; da_value := da_value d; da_name := Some s |}) l)) d)).
    + intros id x n H. exact H.
    + intros id x H. eapply okD_mono; [exact Mo|]. eapply (closed_elim m C). exact H.
  - destruct NF as [NFe NFd]. split; wcbn; [exact NFe|].
    intros id d mem f H. revert id d H mem f.
    apply (apply_names_inv _ idx (fun (_ : N) d => forall mem f, da_kind d <> DK_Active mem (MC_RefFunc f))).
    + intros id x n H. exact H.
    + intros id x H mem f. eapply NFd; eauto.
Qed.

Lemma apply_local_names_CN : forall l m ids m', CN m -> apply_local_names m ids l = Some m' -> CN m'.
Proof.
  induction l as [|[fi names] r IH]; intros m ids m' H E; cbn [apply_local_names] in E.
  - inversion E; subst; exact H.
  - destruct (nth_N (ii_funcs ids) fi); [|eapply IH; eassumption]. eapply IH; [|exact E].
    eapply (CN_congr m); [reflexivity..|exact H].
Qed.

Lemma parse_names_CN m ids n : CN m -> CN (parse_names m ids n).
Proof.
  intros H. unfold parse_names.
  set (m1 := match wn_module n with Some s => set_name m (Some s) | None => m end).
  assert (H1 : CN m1) by (subst m1; destruct (wn_module n); [eapply (CN_congr m); [reflexivity..|exact H]|exact H]).
  clearbody m1. clear H. cbv zeta.
  match goal with |- context [apply_local_names ?mm _ _] => set (m2 := mm) end.
  assert (H2 : CN m2) by (subst m2; apply cn_funcs; exact H1).
  clearbody m2. clear H1.
  destruct (apply_local_names m2 ids (wn_locals n)) as [m3|] eqn:E3; [|exact H2].
  pose proof (apply_local_names_CN _ _ _ _ H2 E3) as H3. clear H2 E3.
  apply cn_data, cn_elements, cn_globals, cn_memories, cn_tables, cn_types. exact H3.
Qed.

(* --- the whole parse *)
Lemma PI_empty cf : PI (empty_wir cf) empty_i2ids.
Proof.
  constructor.
  - apply idc_empty.
  - apply types_wf_empty.
  - intros id [].
  - apply closed_intro; cbn [empty_wir m_imports m_funcs m_tables m_memories m_globals m_exports m_start m_elements m_data];
      try (intros ? ? H; apply aget_empty in H; destruct H). intros f H; discriminate.
  - split; cbn [empty_wir m_elements m_data]; intros ? ? ? ? H; apply aget_empty in H; destruct H.
Qed.

Theorem parseM_closed_nfo cf ver w s : parseM cf ver w = POk s -> closed (ps_m s) /\ no_func_offsets (ps_m s).
Proof.
  intros E. unfold parseM in E. pinv E as s1 E1.
  apply parse_secs_PI in E1; [|apply PI_empty].
  destruct (_ <? _)%N; [discriminate|].
  pinv E as x Ex. destruct x as [[m1 ids1] prepared]. pinv E as m2 E2. inversion E; subst; clear E. wcbn.
  destruct (prepare_bodies_PI _ _ _ _ _ _ _ _ E1 Ex) as [P1 [F1 _]].
  pose proof (install_bodies_PI _ _ _ _ P1 F1 E2) as P2.
  assert (H : forall l m, CN m -> CN (fold_left (fun m n => parse_names m ids1 n) l m)).
  { induction l as [|n r IH]; intros m H; cbn [fold_left]; [exact H|]. apply IH, parse_names_CN, H. }
  specialize (H (ps_names s1) m2 (conj (pi_closed _ _ P2) (pi_nfo _ _ P2))).
  eapply (CN_congr _ _ _ _ _ _ _ _ _ _ _ _ H).
  Unshelve. all: reflexivity.
Qed.

(* 2. a successfully parsed module is closed (non-body part), and has no [ref.func] segment offsets *)
Theorem parseM_closed cf ver w s : parseM cf ver w = POk s -> closed (ps_m s).
Proof. intros E. apply (parseM_closed_nfo cf ver w s E). Qed.
Theorem parseM_no_func_offsets cf ver w s : parseM cf ver w = POk s -> no_func_offsets (ps_m s).
Proof. intros E. apply (parseM_closed_nfo cf ver w s E). Qed.

(* ====================================================================================== *)
(* Part 4: emission is total on closed modules, after parse, after parse + gc_sweep               *)
(* ====================================================================================== *)

(* the body-level premise of [emitM_total] *)
Definition code_names_ok (m : wir) (fs : list (N * mlocalfunc)) (ilen : wins -> N) : Prop :=
  forall x, final_maps m fs x ->
    exists s x' efs, emit_code m x ilen = Ok (s, x', efs) /\
      (cf_skip_name (m_config m) = true \/ exists s', emit_names m x' efs = Ok s').

Theorem emit_total_closed m ilen dw fs :
  closed m -> used_local_functions m = Ok fs -> code_names_ok m fs ilen -> exists e, emitM m ilen dw = Ok e.
Proof. intros C Hfs Hc. eapply emitM_total; eauto. apply closed_emit_closed; assumption. Qed.

Corollary emit_total_after_parse cf ver w s ilen dw fs :
  parseM cf ver w = POk s ->
  used_local_functions (ps_m s) = Ok fs -> code_names_ok (ps_m s) fs ilen ->
  exists e, emitM (ps_m s) ilen dw = Ok e.
Proof. intros E. apply emit_total_closed. eapply parseM_closed; eauto. Qed.

Corollary gc_closed_after_parse cf ver w s m : parseM cf ver w = POk s -> gc_sweep (ps_m s) = Ok m -> closed m /\ no_func_offsets m.
Proof.
  intros E Hg. destruct (parseM_closed_nfo _ _ _ _ E) as [C NF].
  split; [eapply gc_closed_partial; eauto|eapply gc_no_func_offsets; eauto].
Qed.

Corollary emit_total_after_gc cf ver w s m ilen dw fs :
  parseM cf ver w = POk s -> gc_sweep (ps_m s) = Ok m ->
  used_local_functions m = Ok fs -> code_names_ok m fs ilen ->
  exists e, emitM m ilen dw = Ok e.
Proof. intros E Hg. apply emit_total_closed. eapply gc_closed_after_parse; eauto. Qed.

(* ---------------------------------------------------------------- 5. the name section premise *)
(* only emitted (non-entry) types may carry a name *)
Definition types_named_ok (m : wir) : Prop :=
  forall p, In p (live_types m) -> ty_name (snd p) <> None -> ty_entry (snd p) = false.

Lemma live_types_get m id t : In (id, t) (live_types m) -> types_get m id = Some t.
Proof.
  unfold live_types, aset_iter, types_get, aset_index. intros H. apply in_map_iff in H.
  destruct H as [[i x] [E H]]. cbn [fst snd] in E. inversion E; subst. rewrite Nat2N.id. apply G.iter_live'. exact H.
Qed.

Theorem emit_names_closed m fs x x' efs :
  closed m -> used_local_functions m = Ok fs -> final_maps m fs x ->
  (forall S, space_map x' S = space_map x S) -> types_named_ok m ->
  exists r, emit_names m x' efs = Ok r.
Proof.
  intros C Hfs (Fty & Ffn & Ftb & Fme & Fgl & Fel & Fda) Hx TN.
  apply emit_names_total; unfold has_idx; intros [id v] Hp; cbn [fst snd]; rewrite Hx; cbn [space_map].
  - rewrite Ffn, number_fst. eapply func_indexed; eauto. exists v. apply aiter_aget. exact Hp.
  - intros Hn. rewrite Fty, number_fst. eapply emitted_types_In; [apply live_types_get; exact Hp|]. exact (TN _ Hp Hn).
  - intros _. rewrite Ftb, number_fst. apply table_indexed; [exact C|]. exists v. apply aiter_aget. exact Hp.
  - intros _. rewrite Fme, number_fst. apply mem_indexed; [exact C|]. exists v. apply aiter_aget. exact Hp.
  - intros _. rewrite Fgl, number_fst. apply global_indexed; [exact C|]. exists v. apply aiter_aget. exact Hp.
  - intros _. rewrite Fel, number_fst. apply in_map_iff. exists (id, v). auto.
  - intros _. rewrite Fda, number_fst. apply in_map_iff. exists (id, v). auto.
Qed.

(* the code section premise: every local function's log refers only to indexed ids, and its body encodes *)
Definition body_ok (m : wir) (x : x2i) (ilen : wins -> N) (lf : mlocalfunc) : Prop :=
  exists evs, lf_log lf = Ok evs /\
    let lmap := snd (emit_locals (local_ty_fn m) (lf_args lf) (used_of_log evs)) in
    refs_ok x lmap evs = true /\
    exists st, emit_body {| ex_id2i := id2i_fun x lmap; ex_ilen := ilen |} (lf_fuel lf) (lf_arena lf) (lf_entry lf) 0 = Ok st.

Lemma emit_function_total m x ilen id lf : body_ok m x ilen lf -> exists ef, emit_function m x ilen id lf = Ok ef.
Proof.
  intros [evs [Hl [Hr [st Hs]]]]. unfold emit_function. rewrite Hl. cbn [rbind].
  destruct (emit_locals (local_ty_fn m) (lf_args lf) (used_of_log evs)) as [decls lmap]. cbn [snd] in *.
  rewrite Hr. cbn [negb]. rewrite Hs. cbn [rbind]. eauto.
Qed.

Lemma emit_code_total m x ilen fs : used_local_functions m = Ok fs ->
  (forall id lf, In (id, lf) fs -> body_ok m x ilen lf) -> exists s x' efs, emit_code m x ilen = Ok (s, x', efs).
Proof.
  intros Hfs H. unfold emit_code. rewrite Hfs. cbn [rbind]. destruct fs as [|p r]; [eauto|].
  match goal with |- context [rmapM ?f ?l] => destruct (rmapM_total f l) as [efs Eefs] end.
  - intros [id lf] Ha. cbn [fst snd]. apply emit_function_total. eapply H; eauto.
  - rewrite Eefs. cbn [rbind]. eauto.
Qed.

(* emission is total on a closed module whose bodies are ok on the final maps *)
Theorem emit_total_closed_bodies m ilen dw fs :
  closed m -> used_local_functions m = Ok fs -> types_named_ok m ->
  (forall x, final_maps m fs x -> forall id lf, In (id, lf) fs -> body_ok m x ilen lf) ->
  exists e, emitM m ilen dw = Ok e.
Proof.
  intros C Hfs TN Hb. eapply emit_total_closed; eauto. intros x Fx.
  destruct (emit_code_total m x ilen fs Hfs (Hb x Fx)) as (s & x' & efs & Ec).
  exists s, x', efs. split; [exact Ec|]. right.
  eapply emit_names_closed; eauto. exact (emit_code_x _ _ _ _ _ _ Ec).
Qed.

(* ---------------------------------------------------------------- [types_named_ok] after parse, after gc_sweep *)
Lemma types_get_aget m id : types_get m id = aget (arena (m_types m)) id.
Proof. reflexivity. Qed.

(* until the name section is read no type has a name *)
Definition TI (m : wir) : Prop := forall id t, types_get m id = Some t -> ty_name t = None.
Lemma TI_congr m m' : m_types m' = m_types m -> TI m -> TI m'.
Proof. unfold TI, types_get. intros ->. auto. Qed.

Lemma types_insert_TI m t m1 id : TI m -> ty_name t = None -> types_insert m t = (m1, id) -> TI m1.
Proof.
  intros H Hn E. unfold types_insert, insert in E. destruct (lookup mtype_eqb (already (m_types m)) t).
  - inversion E; subst. eapply TI_congr; [|exact H]. destruct (m_types m); reflexivity.
  - wcbn. inversion E; subst; clear E. intros i x Hx. rewrite types_get_aget in Hx. wcbn.
    apply aget_app_inv in Hx. destruct Hx as [Hx|[_ ->]]; [eapply H; exact Hx|exact Hn].
Qed.

Lemma parse_types_TI : forall ts m ids m' ids', TI m -> parse_types m ids ts = (m', ids') -> TI m'.
Proof.
  induction ts as [|[ps rs] r IH]; intros m ids m' ids' H E; cbn [parse_types] in E.
  - inversion E; subst; exact H.
  - destruct (types_insert m _) as [m1 id] eqn:Et. eapply IH; [|exact E]. eapply types_insert_TI; [exact H| |exact Et]. reflexivity.
Qed.

Lemma parse_sec_TI s sec s' : TI (ps_m s) -> parse_sec s sec = POk s' -> TI (ps_m s').
Proof.
  intros W E. unfold parse_sec in E. destruct sec.
  - destruct (parse_types _ _ _) as [m1 i1] eqn:Ep. inversion E; subst; clear E. wcbn. eapply parse_types_TI; eauto.
  - pinv E as x Ex. destruct x as [m1 i1]. inversion E; subst; clear E. wcbn. eapply TI_congr; [|exact W]. eapply parse_imports_types; eauto.
  - pinv E as x Ex. destruct x as [m1 i1]. inversion E; subst; clear E. wcbn. eapply TI_congr; [|exact W]. eapply parse_funcs_types; eauto.
  - destruct (parse_tables _ _ _) as [m1 i1] eqn:Ep. inversion E; subst; clear E. wcbn. eapply TI_congr; [|exact W]. eapply parse_tables_types; eauto.
  - destruct (parse_mems _ _ _) as [m1 i1] eqn:Ep. inversion E; subst; clear E. wcbn. eapply TI_congr; [|exact W]. eapply parse_mems_types; eauto.
  - pinv E as x Ex. destruct x as [m1 i1]. inversion E; subst; clear E. wcbn. eapply TI_congr; [|exact W]. eapply parse_globals_types; eauto.
  - pinv E as x Ex. inversion E; subst; clear E. wcbn. eapply TI_congr; [|exact W]. eapply parse_exports_types; eauto.
  - pinv E as x Ex. inversion E; subst; clear E. wcbn. exact W.
  - pinv E as x Ex. destruct x as [m1 i1]. inversion E; subst; clear E. wcbn. eapply TI_congr; [|exact W]. eapply parse_elems_types; eauto.
  - destruct (reserve_data _ _ _) as [m1 i1] eqn:Ep. inversion E; subst; clear E. wcbn. eapply TI_congr; [|exact W]. eapply reserve_data_types; eauto.
  - inversion E; subst; clear E. wcbn. exact W.
  - pinv E as x Ex. destruct x as [m1 i1]. inversion E; subst; clear E. wcbn. unfold parse_data in Ex.
    eapply TI_congr; [|exact W]. eapply parse_data_from_types; eauto.
  - inversion E; subst; clear E. unfold parse_custom. destruct c as [n d|n d|[n|]|[p|]]; wcbn; exact W.
Qed.
Lemma parse_secs_TI : forall w s s', TI (ps_m s) -> parse_secs s w = POk s' -> TI (ps_m s').
Proof.
  induction w as [|x r IH]; intros s s' H E; cbn [parse_secs] in E.
  - inversion E; subst; exact H.
  - pinv E as s1 E1. eapply IH; [|exact E]. eapply parse_sec_TI; eauto.
Qed.

Lemma prepare_bodies_TI : forall bs m ids ni i m' ids' ps,
  TI m -> prepare_bodies m ids ni i bs = POk (m', ids', ps) -> TI m'.
Proof.
  induction bs as [|b r IH]; intros m ids ni i m' ids' ps H E; cbn [prepare_bodies] in E.
  - inversion E; subst; exact H.
  - pinv E as fid Efid. pinv E as f Ef. destruct (fn_kind f); try discriminate. pinv E as t Et.
    destruct (add_locals m ids fid (ty_params t) _) as [[m1 ids1] args] eqn:E1.
    destruct (types_insert m1 _) as [m2 tid] eqn:E2.
    destruct (add_locals m2 ids1 fid _ _) as [[m3 ids3] ls] eqn:E3.
    pinv E as x Ex. destruct x as [[m4 ids4] rest]. inversion E; subst; clear E.
    eapply IH; [|exact Ex].
    eapply TI_congr; [apply (add_locals_same _ _ _ _ _ _ _ _ E3)|].
    eapply types_insert_TI; [| |exact E2]; [|reflexivity].
    eapply TI_congr; [apply (add_locals_same _ _ _ _ _ _ _ _ E1)|exact H].
Qed.

Lemma install_bodies_types : forall ps m ids m', install_bodies m ids ps = POk m' -> m_types m' = m_types m.
Proof.
  induction ps as [|p r IH]; intros m ids m' E; cbn [install_bodies] in E.
  - inversion E; reflexivity.
  - pinv E as lf Elf. apply IH in E. rewrite E. reflexivity.
Qed.

(* the name section names only types of the type section *)
Lemma aget_upd_inv2 {A} (l : list A) d id f i x :
  aget {| items := WV.Model.Arena.upd l (N.to_nat id) f; dead := d |} i = Some x ->
  aget {| items := l; dead := d |} i = Some x \/ i = id.
Proof.
  unfold aget, index, get, is_dead. cbn [items dead]. destruct (existsb _ d); [discriminate|].
  rewrite upd_nth. destruct (Nat.eqb_spec (N.to_nat id) (N.to_nat i)) as [e|ne]; [right; apply N2Nat.inj; auto|auto].
Qed.
Lemma apply_names_where {A} (setn : A -> ModuleM.str -> A) idx : forall (l : namemap) (a : tarena A) id x,
  aget (apply_names a idx setn l) id = Some x -> aget a id = Some x \/ In id idx.
Proof.
  induction l as [|[i n] r IH]; intros a id x H; cbn [apply_names] in H; [auto|].
  destruct (nth_N idx i) as [n0|] eqn:En; [|eapply IH; eauto].
  apply IH in H. destruct H as [H|H]; [|auto]. unfold aset_at in H. apply aget_upd_inv2 in H.
  destruct H as [H| ->]; [left; rewrite <- aget_eta; exact H|right; eapply nth_error_In; exact En].
Qed.

Lemma apply_local_names_types : forall l m ids m', apply_local_names m ids l = Some m' -> m_types m' = m_types m.
Proof.
  induction l as [|[fi names] r IH]; intros m ids m' E; cbn [apply_local_names] in E.
  - inversion E; reflexivity.
  - destruct (nth_N (ii_funcs ids) fi); [|apply IH in E; exact E]. apply IH in E. rewrite E. reflexivity.
Qed.

Lemma parse_names_types m ids n :
  m_types (parse_names m ids n) = m_types m \/
  exists l, m_types (parse_names m ids n) =
            {| arena := apply_names (arena (m_types m)) (ii_types ids) set_type_name l; already := already (m_types m) |}.
Proof.
  unfold parse_names.
  set (m1 := match wn_module n with Some s => set_name m (Some s) | None => m end).
  assert (H1 : m_types m1 = m_types m) by (subst m1; destruct (wn_module n); reflexivity).
  clearbody m1. cbv zeta.
  match goal with |- context [apply_local_names ?mm _ _] => set (m2 := mm) end.
  assert (H2 : m_types m2 = m_types m) by (subst m2; exact H1). clearbody m2.
  destruct (apply_local_names m2 ids (wn_locals n)) as [m3|] eqn:E3; [|left; exact H2].
  apply apply_local_names_types in E3. right. exists (wn_types n). wcbn. rewrite E3, H2. reflexivity.
Qed.

Definition NT (tys : list N) (m : wir) : Prop :=
  (forall id t, types_get m id = Some t -> ty_name t <> None -> In id tys) /\ (forall id, In id tys -> ty_ok m id).

Lemma parse_names_NT m ids n : NT (ii_types ids) m -> NT (ii_types ids) (parse_names m ids n).
Proof.
  intros [H1 H2]. destruct (parse_names_types m ids n) as [E|[l E]].
  - split.
    + intros id t. unfold types_get. rewrite E. apply H1.
    + intros id Hid. eapply ty_ok_congr; [exact E|apply H2; exact Hid].
  - split.
    + intros id t Ht Hn. rewrite types_get_aget, E in Ht. cbn [arena] in Ht.
      apply apply_names_where in Ht. destruct Ht as [Ht|Ht]; [eapply H1; eauto|exact Ht].
    + intros id Hid. destruct (H2 id Hid) as [t [Ht He]]. unfold ty_ok. rewrite types_get_aget in *. rewrite E. cbn [arena].
      destruct (apply_names_live set_type_name (ii_types ids) (fun _ t => ty_entry t = false) (fun _ _ _ H => H) l
                  (arena (m_types m)) id t Ht He) as [t' [Ht' He']]. eauto.
Qed.

Lemma NT_named tys m : NT tys m -> types_named_ok m.
Proof.
  intros [H1 H2] [id t] Hp Hn. cbn [snd] in *. apply live_types_get in Hp.
  destruct (H2 id (H1 id t Hp Hn)) as [t' [Ht' He]]. congruence.
Qed.

Theorem parseM_types_named_ok cf ver w s : parseM cf ver w = POk s -> types_named_ok (ps_m s).
Proof.
  intros E. unfold parseM in E. pinv E as s1 E1.
  assert (P0 : PI (ps_m s1) (ps_ids s1)) by (eapply parse_secs_PI; [|exact E1]; apply PI_empty).
  assert (T0 : TI (ps_m s1)).
  { eapply parse_secs_TI; [|exact E1]. intros id t H. exfalso. rewrite types_get_aget in H. cbn in H.
    apply (aget_empty _ _ H). }
  destruct (_ <? _)%N; [discriminate|].
  pinv E as x Ex. destruct x as [[m1 ids1] prepared]. pinv E as m2 E2. inversion E; subst; clear E. wcbn.
  destruct (prepare_bodies_PI _ _ _ _ _ _ _ _ P0 Ex) as [P1 [F1 _]].
  pose proof (install_bodies_PI _ _ _ _ P1 F1 E2) as P2.
  assert (T2 : TI m2).
  { eapply TI_congr; [eapply install_bodies_types; exact E2|]. eapply prepare_bodies_TI; eauto. }
  assert (N2 : NT (ii_types ids1) m2).
  { split; [|apply (pi_ity _ _ P2)]. intros id t Ht Hn. exfalso. apply Hn. eapply T2; eauto. }
  assert (H : forall l m, NT (ii_types ids1) m -> NT (ii_types ids1) (fold_left (fun m n => parse_names m ids1 n) l m)).
  { induction l as [|n r IH]; intros m H; cbn [fold_left]; [exact H|]. apply IH, parse_names_NT, H. }
  specialize (H (ps_names s1) m2 N2). apply NT_named in H.
  intros p Hp. apply (H p). exact Hp.
Qed.

(* gc_sweep keeps the values of the surviving types *)
Lemma ty_fold_old keep (L : list (nat * mtype)) : forall s0 s',
  fold_left (ty_step keep) L (Ok s0) = Ok s' ->
  forall id t, aset_index s' id = Some t -> aset_index s0 id = Some t.
Proof.
  induction L as [|p L IH]; intros s0 s' H id t Hi; cbn [fold_left] in H.
  - inversion H; subst. exact Hi.
  - unfold ty_step at 2 in H. cbn [rbind] in H.
    destruct (existsb (N.eqb (N.of_nat (fst p))) keep) eqn:K; [eapply IH; eauto|].
    destruct (aset_remove (fun x => x) mtype_eqb s0 (fst p)) as [s1|] eqn:D; cbn [of_opt] in H.
    + specialize (IH _ _ H id t Hi). unfold aset_remove in D. destruct (index (arena s0) (fst p)); [|discriminate].
      destruct (delete (fun x => x) (arena s0) (fst p)) as [a1|] eqn:D1; [|discriminate]. inversion D; subst.
      unfold aset_index in *. cbn [arena] in IH. rewrite (delete_index _ _ _ id D1) in IH.
      destruct (Nat.eqb id (fst p)); [discriminate|exact IH].
    + exfalso. revert H. apply ty_fold_notok. discriminate.
Qed.

Lemma gc_types_old m m' id t : gc_sweep m = Ok m' -> types_get m' id = Some t -> types_get m id = Some t.
Proof.
  intros H. destruct (gc_inv' m m' H) as (u & ia & ta & ga & ma & da & ea & tya & fa & Hu & Ei & Et & Eg & Em & Ed & Ee & Ety & Ef & ->).
  unfold types_get. wcbn. exact (ty_fold_old _ _ _ _ Ety (N.to_nat id) t).
Qed.

Lemma types_get_live m id t : types_get m id = Some t -> In (id, t) (live_types m).
Proof.
  intros H. unfold live_types, aset_iter. apply in_map_iff. exists (N.to_nat id, t). cbn [fst snd]. rewrite N2Nat.id.
  split; [reflexivity|]. apply G.iter_live'. exact H.
Qed.

Theorem gc_types_named_ok m m' : types_named_ok m -> gc_sweep m = Ok m' -> types_named_ok m'.
Proof.
  intros H Hg [id t] Hp Hn. cbn [snd] in *. apply live_types_get in Hp. apply (gc_types_old _ _ _ _ Hg) in Hp.
  apply types_get_live in Hp. exact (H _ Hp Hn).
Qed.

(* the corollaries with only body-level premises: [used_local_functions] succeeds (every body's traversal
   log exists, no function is left uninitialised) and every body is ok on the final maps *)
Corollary emit_total_after_parse_bodies cf ver w s ilen dw fs :
  parseM cf ver w = POk s -> used_local_functions (ps_m s) = Ok fs ->
  (forall x, final_maps (ps_m s) fs x -> forall id lf, In (id, lf) fs -> body_ok (ps_m s) x ilen lf) ->
  exists e, emitM (ps_m s) ilen dw = Ok e.
Proof.
  intros E Hfs Hb. eapply emit_total_closed_bodies; eauto.
  - eapply parseM_closed; eauto.
  - eapply parseM_types_named_ok; eauto.
Qed.

Corollary emit_total_after_gc_bodies cf ver w s m ilen dw fs :
  parseM cf ver w = POk s -> gc_sweep (ps_m s) = Ok m -> used_local_functions m = Ok fs ->
  (forall x, final_maps m fs x -> forall id lf, In (id, lf) fs -> body_ok m x ilen lf) ->
  exists e, emitM m ilen dw = Ok e.
Proof.
  intros E Hg Hfs Hb. eapply emit_total_closed_bodies; eauto.
  - eapply gc_closed_after_parse; eauto.
  - eapply gc_types_named_ok; [|exact Hg]. eapply parseM_types_named_ok; eauto.
Qed.

Print Assumptions closed_emit_closed.
Print Assumptions parseM_closed.
Print Assumptions parseM_no_func_offsets.
Print Assumptions gc_closed_partial.
Print Assumptions gc_closed_refuted.
Print Assumptions gc_no_func_offsets.
Print Assumptions emit_total_closed.
Print Assumptions emit_total_after_parse.
Print Assumptions emit_total_after_gc.
Print Assumptions emit_names_closed.
Print Assumptions emit_total_closed_bodies.
Print Assumptions parseM_types_named_ok.
Print Assumptions gc_types_named_ok.
Print Assumptions emit_total_after_parse_bodies.
Print Assumptions emit_total_after_gc_bodies.
