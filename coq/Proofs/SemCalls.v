(* C01 - calls: a module-level big-step semantics with direct calls, function references,
   call_ref and call_indirect, and the theorem that a consistent renumbering of the function index
   space (what the emission does when it reorders functions) preserves behaviour.

   Self-contained (stdlib only); the evaluator is executable.  The structured-control part is a
   simplified cousin of Model/Sem.v's [eval] (sequence, block, loop, if, br, br_if, return) - it
   shares the operand stack between caller and callee and does not unwind at labels; none of that
   matters for the renaming argument, which only cares about where function indices live:
     - in instructions ([ICall f], [IRefFunc f]),
     - in the state (function references on the stack, in the table, in globals),
     - in the module (the function index space itself, the export table).
   Everything else is an [IOther o] whose semantics [step_op] is a Section variable; the interface
   that remains is that [step_op] commutes with the renaming of the function references stored in
   the state ([step_op_rename]).  It is discharged below for a concrete operator set that moves
   function references around (table.set, drop, ...). *)
From Coq Require Import List NArith Bool String Lia.
Import ListNotations.
Local Open Scope N_scope.

(* ------------------------------------------------------------------ states *)
Inductive value := VNum (n : N) | VFuncRef (f : N).
Record state := mkState { stack : list value; table : list (option N); globals : list value }.
Definition set_stack (s : list value) (st : state) : state := mkState s (table st) (globals st).

Definition is_num (v : value) : bool := match v with VNum _ => true | VFuncRef _ => false end.
Definition numeric (vs : list value) : Prop := forallb is_num vs = true.

Lemma nth_error_map' {A B} (g : A -> B) (l : list A) (n : nat) :
  nth_error (map g l) n = option_map g (nth_error l n).
Proof. revert n; induction l as [|a l IH]; intros [|n]; cbn; auto. Qed.

(* ------------------------------------------------------------------ syntax, modules, evaluation *)
Section SemCalls.
  Variable op : Type.                                  (* the operators that do not mention function indices *)
  Variable step_op : op -> state -> option state.      (* [None] = trap *)

  Inductive instr :=
  | ICall (f : N)
  | IRefFunc (f : N)
  | ICallRef                      (* pops a function reference, calls it *)
  | ICallIndirect                 (* pops a table index, calls the reference stored there *)
  | IOther (o : op)
  | IBlock (b : list instr)
  | ILoop (b : list instr)
  | IIf (t e : list instr)
  | IBr (l : nat)
  | IBrIf (l : nat)
  | IReturn.
  Definition body := list instr.

  Record module := mkModule { funcs : N -> option body; exports : string -> option N }.

  Inductive res := RNormal (st : state) | RBr (l : nat) (st : state) | RReturn (st : state) | RTrap | ROOF.
  Inductive outcome := Done (st : state) | Trap | OutOfFuel.

  (* leaving a function body: falling off the end, `return`, or a branch to the function label *)
  Definition fn_exit (r : res) : outcome :=
    match r with
    | RNormal s | RReturn s | RBr O s => Done s
    | RBr (S _) _ => Trap
    | RTrap => Trap
    | ROOF => OutOfFuel
    end.

  (* a call, given the evaluator [ex] to use for the callee and for the rest of the caller *)
  Definition do_call (ex : body -> state -> res) (M : module) (f : N) (rest : body) (st : state) : res :=
    match funcs M f with
    | None => RTrap
    | Some fb =>
        match fn_exit (ex fb st) with
        | Done s => ex rest s
        | Trap => RTrap
        | OutOfFuel => ROOF
        end
    end.

  Fixpoint exec (fuel : nat) (M : module) (b : body) (st : state) {struct fuel} : res :=
    match fuel with
    | O => ROOF
    | S k =>
      match b with
      | [] => RNormal st
      | i :: rest =>
        match i with
        | IOther o => match step_op o st with Some st1 => exec k M rest st1 | None => RTrap end
        | ICall f => do_call (exec k M) M f rest st
        | IRefFunc f => exec k M rest (set_stack (VFuncRef f :: stack st) st)
        | ICallRef =>
            match stack st with
            | VFuncRef f :: s => do_call (exec k M) M f rest (set_stack s st)
            | _ => RTrap
            end
        | ICallIndirect =>
            match stack st with
            | VNum ix :: s =>
                match nth_error (table st) (N.to_nat ix) with
                | Some (Some f) => do_call (exec k M) M f rest (set_stack s st)
                | _ => RTrap
                end
            | _ => RTrap
            end
        | IBlock b1 =>
            match exec k M b1 st with
            | RNormal s1 | RBr O s1 => exec k M rest s1
            | RBr (S l) s1 => RBr l s1
            | r => r
            end
        | ILoop b1 =>
            match exec k M b1 st with
            | RNormal s1 => exec k M rest s1
            | RBr O s1 => exec k M (ILoop b1 :: rest) s1
            | RBr (S l) s1 => RBr l s1
            | r => r
            end
        | IIf t e =>
            match stack st with
            | VNum c :: s => exec k M (IBlock (if c =? 0 then e else t) :: rest) (set_stack s st)
            | _ => RTrap
            end
        | IBr l => RBr l st
        | IBrIf l =>
            match stack st with
            | VNum c :: s => if c =? 0 then exec k M rest (set_stack s st) else RBr l (set_stack s st)
            | _ => RTrap
            end
        | IReturn => RReturn st
        end
      end
    end.

  (* running function [f]: its body gets the whole fuel; [ICall g] inside runs [g] with one less *)
  Definition run (fuel : nat) (M : module) (f : N) (st : state) : outcome :=
    match funcs M f with
    | None => Trap
    | Some b => fn_exit (exec fuel M b st)
    end.

  Definition run_export (fuel : nat) (M : module) (n : string) (st : state) : outcome :=
    match exports M n with
    | None => Trap
    | Some f => run fuel M f st
    end.

  Definition results (o : outcome) : option (list value) :=
    match o with Done s => Some (stack s) | _ => None end.

  (* ---------------------------------------------------------------- renaming *)
  Section Rename.
    Variables rho rho_inv : N -> N.

    Definition rename_value (v : value) : value :=
      match v with VNum n => VNum n | VFuncRef f => VFuncRef (rho f) end.
    Definition rename_state (st : state) : state :=
      mkState (map rename_value (stack st)) (map (option_map rho) (table st)) (map rename_value (globals st)).
    Fixpoint rename_instr (i : instr) : instr :=
      match i with
      | ICall f => ICall (rho f)
      | IRefFunc f => IRefFunc (rho f)
      | IBlock b => IBlock (map rename_instr b)
      | ILoop b => ILoop (map rename_instr b)
      | IIf t e => IIf (map rename_instr t) (map rename_instr e)
      | i => i
      end.
    Definition rename_body (b : body) : body := map rename_instr b.
    (* function index [rho f] of the renamed module holds the renamed body of [f] *)
    Definition rename_module (M : module) : module :=
      mkModule (fun g => option_map rename_body (funcs M (rho_inv g)))
               (fun n => option_map rho (exports M n)).
    Definition rename_res (r : res) : res :=
      match r with
      | RNormal s => RNormal (rename_state s)
      | RBr l s => RBr l (rename_state s)
      | RReturn s => RReturn (rename_state s)
      | RTrap => RTrap
      | ROOF => ROOF
      end.
    Definition rename_outcome (o : outcome) : outcome :=
      match o with Done s => Done (rename_state s) | Trap => Trap | OutOfFuel => OutOfFuel end.

    (* the only thing needed of [rho]: [rho_inv] is a left inverse (i.e. [rho] is injective, with a
       computable inverse).  Surjectivity is NOT needed. *)
    Hypothesis rho_left_inv : forall f, rho_inv (rho f) = f.
    (* the per-operator interface that remains *)
    Hypothesis step_op_rename :
      forall o st, step_op o (rename_state st) = option_map rename_state (step_op o st).

    Lemma rename_set_stack s st :
      rename_state (set_stack s st) = set_stack (map rename_value s) (rename_state st).
    Proof. reflexivity. Qed.

    Lemma rename_module_lookup M f :
      funcs (rename_module M) (rho f) = option_map rename_body (funcs M f).
    Proof. cbn [funcs rename_module]. now rewrite rho_left_inv. Qed.

    Lemma fn_exit_rename r : fn_exit (rename_res r) = rename_outcome (fn_exit r).
    Proof. destruct r as [s|[|l] s|s| |]; reflexivity. Qed.

    Lemma do_call_rename (ex ex' : body -> state -> res) M
          (Hex : forall b st, ex' (rename_body b) (rename_state st) = rename_res (ex b st)) f rest st :
      do_call ex' (rename_module M) (rho f) (rename_body rest) (rename_state st)
      = rename_res (do_call ex M f rest st).
    Proof.
      unfold do_call. rewrite rename_module_lookup.
      destruct (funcs M f) as [fb|]; cbn [option_map]; [|reflexivity].
      rewrite Hex, fn_exit_rename.
      destruct (fn_exit (ex fb st)) as [s| |]; cbn [rename_outcome]; [apply Hex|reflexivity|reflexivity].
    Qed.

    Lemma exec_rename M : forall fuel b st,
      exec fuel (rename_module M) (rename_body b) (rename_state st) = rename_res (exec fuel M b st).
    Proof.
      induction fuel as [|k IH]; intros b st; [reflexivity|].
      destruct b as [|i rest]; [reflexivity|].
      destruct i as [f|f| | |o|b1|b1|t e|l|l| ].
      - (* call *) exact (do_call_rename (exec k M) (exec k (rename_module M)) M (IH) f rest st).
      - (* ref.func *) cbn [rename_body map rename_instr exec].
        change (map rename_instr rest) with (rename_body rest).
        rewrite <- IH. reflexivity.
      - (* call_ref *) cbn [rename_body map rename_instr exec].
        change (stack (rename_state st)) with (map rename_value (stack st)).
        destruct (stack st) as [|[n|g] s]; cbn [map rename_value]; try reflexivity.
        rewrite <- rename_set_stack.
        exact (do_call_rename (exec k M) (exec k (rename_module M)) M (IH) g rest _).
      - (* call_indirect *) cbn [rename_body map rename_instr exec].
        change (stack (rename_state st)) with (map rename_value (stack st)).
        destruct (stack st) as [|[n|g] s]; cbn [map rename_value]; try reflexivity.
        change (table (rename_state st)) with (map (option_map rho) (table st)).
        rewrite nth_error_map'.
        destruct (nth_error (table st) (N.to_nat n)) as [[g|]|]; cbn [option_map]; try reflexivity.
        rewrite <- rename_set_stack.
        exact (do_call_rename (exec k M) (exec k (rename_module M)) M (IH) g rest _).
      - (* other *) cbn [rename_body map rename_instr exec].
        rewrite step_op_rename.
        destruct (step_op o st) as [st1|]; cbn [option_map]; [|reflexivity].
        apply IH.
      - (* block *) cbn [rename_body map rename_instr exec].
        change (map rename_instr b1) with (rename_body b1).
        change (map rename_instr rest) with (rename_body rest).
        rewrite IH.
        destruct (exec k M b1 st) as [s1|[|l] s1|s1| |]; cbn [rename_res]; try reflexivity; apply IH.
      - (* loop *) cbn [rename_body map rename_instr exec].
        change (map rename_instr b1) with (rename_body b1).
        change (map rename_instr rest) with (rename_body rest).
        rewrite IH.
        destruct (exec k M b1 st) as [s1|[|l] s1|s1| |]; cbn [rename_res]; try reflexivity; [apply IH|].
        exact (IH (ILoop b1 :: rest) s1).
      - (* if *) cbn [rename_body map rename_instr exec].
        change (stack (rename_state st)) with (map rename_value (stack st)).
        destruct (stack st) as [|[c|g] s]; cbn [map rename_value]; try reflexivity.
        rewrite <- rename_set_stack.
        rewrite <- (IH (IBlock (if c =? 0 then e else t) :: rest)).
        destruct (c =? 0); reflexivity.
      - (* br *) reflexivity.
      - (* br_if *) cbn [rename_body map rename_instr exec].
        change (stack (rename_state st)) with (map rename_value (stack st)).
        destruct (stack st) as [|[c|g] s]; cbn [map rename_value]; try reflexivity.
        rewrite <- rename_set_stack.
        destruct (c =? 0); [apply IH|reflexivity].
      - (* return *) reflexivity.
    Qed.

    (* ---------------------------------------------------------------- the theorem *)
    Theorem rename_preserves_behaviour : forall fuel M f st,
      run fuel (rename_module M) (rho f) (rename_state st) = rename_outcome (run fuel M f st).
    Proof.
      intros fuel M f st. unfold run. rewrite rename_module_lookup.
      destruct (funcs M f) as [b|]; cbn [option_map]; [|reflexivity].
      now rewrite exec_rename, fn_exit_rename.
    Qed.

    Theorem export_call_same_behaviour : forall fuel M n st,
      run_export fuel (rename_module M) n (rename_state st) = rename_outcome (run_export fuel M n st).
    Proof.
      intros fuel M n st. unfold run_export. cbn [exports rename_module].
      destruct (exports M n) as [f|]; cbn [option_map]; [|reflexivity].
      apply rename_preserves_behaviour.
    Qed.

    Lemma numeric_rename vs : numeric vs -> map rename_value vs = vs.
    Proof.
      unfold numeric. induction vs as [|[n|f] vs IH]; cbn; intro H; [reflexivity| |discriminate].
      now rewrite IH.
    Qed.

    (* results without function references are literally the same *)
    Theorem numeric_results_identical : forall fuel M f st vs,
      results (run fuel M f st) = Some vs -> numeric vs ->
      results (run fuel (rename_module M) (rho f) (rename_state st)) = Some vs.
    Proof.
      intros fuel M f st vs Hr Hn. rewrite rename_preserves_behaviour.
      destruct (run fuel M f st) as [s| |]; cbn in *; try discriminate.
      injection Hr as <-. now rewrite numeric_rename.
    Qed.

    Theorem numeric_results_identical_export : forall fuel M n st vs,
      results (run_export fuel M n st) = Some vs -> numeric vs ->
      results (run_export fuel (rename_module M) n (rename_state st)) = Some vs.
    Proof.
      intros fuel M n st vs Hr Hn. rewrite export_call_same_behaviour.
      destruct (run_export fuel M n st) as [s| |]; cbn in *; try discriminate.
      injection Hr as <-. now rewrite numeric_rename.
    Qed.

    (* traps and fuel exhaustion are preserved exactly *)
    Corollary trap_preserved fuel M f st :
      run fuel M f st = Trap <-> run fuel (rename_module M) (rho f) (rename_state st) = Trap.
    Proof.
      rewrite rename_preserves_behaviour. destruct (run fuel M f st); cbn; split; congruence.
    Qed.
    Corollary out_of_fuel_preserved fuel M f st :
      run fuel M f st = OutOfFuel <-> run fuel (rename_module M) (rho f) (rename_state st) = OutOfFuel.
    Proof.
      rewrite rename_preserves_behaviour. destruct (run fuel M f st); cbn; split; congruence.
    Qed.
  End Rename.

  (* ---------------------------------------------------------------- permutations of [0, n) *)
  (* The reading "rho / rho_inv with the inverse laws on the DOMAIN": a map of the defined indices
     [0, n) into themselves with a left inverse there, extended by the identity outside. *)
  Section Perm.
    Variable n : N.
    Variables rho rho_inv : N -> N.
    Hypothesis rho_dom : forall f, f < n -> rho f < n.
    Hypothesis rho_inv_dom : forall f, f < n -> rho_inv (rho f) = f.
    Definition ext (r : N -> N) (f : N) : N := if f <? n then r f else f.

    Lemma ext_left_inv f : ext rho_inv (ext rho f) = f.
    Proof.
      unfold ext. destruct (N.ltb_spec f n) as [Hlt|Hge].
      - pose proof (rho_dom f Hlt) as Hd. apply N.ltb_lt in Hd. rewrite Hd. now apply rho_inv_dom.
      - destruct (N.ltb_spec f n); [lia|reflexivity].
    Qed.

    Hypothesis step_op_rename_ext :
      forall o st, step_op o (rename_state (ext rho) st) = option_map (rename_state (ext rho)) (step_op o st).

    Theorem rename_preserves_behaviour_perm : forall fuel M f st,
      run fuel (rename_module (ext rho) (ext rho_inv) M) (ext rho f) (rename_state (ext rho) st)
      = rename_outcome (ext rho) (run fuel M f st).
    Proof. apply rename_preserves_behaviour; [exact ext_left_inv|exact step_op_rename_ext]. Qed.
  End Perm.
End SemCalls.

Arguments ICall {op}. Arguments IRefFunc {op}. Arguments ICallRef {op}. Arguments ICallIndirect {op}.
Arguments IOther {op}. Arguments IBlock {op}. Arguments ILoop {op}. Arguments IIf {op}.
Arguments IBr {op}. Arguments IBrIf {op}. Arguments IReturn {op}.

(* ------------------------------------------------------------------ a concrete operator set *)
(* operators that create numbers, and that MOVE function references (without looking at them) *)
Inductive cop := OConst (n : N) | OAdd | ODrop | ODup | OTableSet | OTableGet | OGlobalSet0 | OIsNum.

Fixpoint upd {A} (l : list A) (n : nat) (x : A) : option (list A) :=
  match l, n with
  | [], _ => None
  | _ :: l', O => Some (x :: l')
  | a :: l', S n' => option_map (cons a) (upd l' n' x)
  end.

Lemma upd_map {A B} (g : A -> B) (l : list A) (n : nat) (x : A) :
  upd (map g l) n (g x) = option_map (map g) (upd l n x).
Proof.
  revert n; induction l as [|a l IH]; intros [|n]; cbn; auto.
  rewrite IH. destruct (upd l n x); reflexivity.
Qed.

Definition cstep (o : cop) (st : state) : option state :=
  match o with
  | OConst n => Some (set_stack (VNum n :: stack st) st)
  | OAdd => match stack st with
            | VNum a :: VNum b :: s => Some (set_stack (VNum (a + b) :: s) st)
            | _ => None end
  | ODrop => match stack st with _ :: s => Some (set_stack s st) | _ => None end
  | ODup => match stack st with v :: s => Some (set_stack (v :: v :: s) st) | _ => None end
  | OTableSet => match stack st with
                 | VFuncRef f :: VNum ix :: s =>
                     match upd (table st) (N.to_nat ix) (Some f) with
                     | Some t' => Some (mkState s t' (globals st))
                     | None => None
                     end
                 | _ => None end
  | OTableGet => match stack st with
                 | VNum ix :: s =>
                     match nth_error (table st) (N.to_nat ix) with
                     | Some (Some f) => Some (set_stack (VFuncRef f :: s) st)
                     | _ => None
                     end
                 | _ => None end
  | OGlobalSet0 => match stack st, globals st with
                   | v :: s, _ :: gs => Some (mkState s (table st) (v :: gs))
                   | _, _ => None end
  | OIsNum => match stack st with   (* ref.is_null-like: inspects the KIND of a value, not the index *)
              | v :: s => Some (set_stack (VNum (if is_num v then 1 else 0) :: s) st)
              | _ => None end
  end.

(* the interface hypothesis holds for these operators, for EVERY renaming (not even injective) *)
Lemma cstep_rename (rho : N -> N) : forall o st,
  cstep o (rename_state rho st) = option_map (rename_state rho) (cstep o st).
Proof.
  intros o [s t g]; destruct o; cbn [cstep rename_state stack table globals].
  - reflexivity.
  - destruct s as [|[a|a] [|[b|b] s]]; reflexivity.
  - destruct s as [|v s]; reflexivity.
  - destruct s as [|v s]; reflexivity.
  - destruct s as [|[a|f] [|[ix|b] s]]; try reflexivity. cbn [map rename_value].
    change (Some (rho f)) with (option_map rho (Some f)). rewrite upd_map.
    destruct (upd t (N.to_nat ix) (Some f)); reflexivity.
  - destruct s as [|[ix|f] s]; try reflexivity. cbn [map rename_value].
    rewrite nth_error_map'. destruct (nth_error t (N.to_nat ix)) as [[f|]|]; reflexivity.
  - destruct s as [|v s]; [reflexivity|]. destruct g as [|g0 gs]; reflexivity.
  - destruct s as [|[a|f] s]; reflexivity.
Qed.

(* the theorem, instantiated: no interface hypothesis left *)
Theorem rename_preserves_behaviour_cop (rho rho_inv : N -> N) :
  (forall f, rho_inv (rho f) = f) ->
  forall fuel (M : module cop) f st,
    run cop cstep fuel (rename_module cop rho rho_inv M) (rho f) (rename_state rho st)
    = rename_outcome rho (run cop cstep fuel M f st).
Proof. intros H. apply rename_preserves_behaviour; [exact H|apply cstep_rename]. Qed.

(* An operator that LOOKS at a function index breaks the interface hypothesis: `ref.func`-as-integer *)
Definition leaky_step (_ : unit) (st : state) : option state :=
  match stack st with
  | VFuncRef f :: s => Some (set_stack (VNum f :: s) st)
  | _ => None
  end.
Theorem leaky_op_violates_interface :
  exists (rho : N -> N) st,
    leaky_step tt (rename_state rho st) <> option_map (rename_state rho) (leaky_step tt st).
Proof. exists (fun f => f + 1), (mkState [VFuncRef 0] [] []). cbn. discriminate. Qed.

(* ------------------------------------------------------------------ non-vacuity *)
Definition sigma (f : N) : N :=           (* the permutation (0 2 1): 0 -> 2, 2 -> 1, 1 -> 0 *)
  match f with 0 => 2 | 2 => 1 | 1 => 0 | f => f end.
Definition sigma_inv (f : N) : N :=
  match f with 2 => 0 | 1 => 2 | 0 => 1 | f => f end.
Lemma sigma_left_inv f : sigma_inv (sigma f) = f.
Proof. destruct f as [|[[p|p|]|[p|p|]|]]; reflexivity. Qed.
Lemma sigma_right_inv f : sigma (sigma_inv f) = f.
Proof. destruct f as [|[[p|p|]|[p|p|]|]]; reflexivity. Qed.

(* f0: installs f1 in table slot 1 (via ref.func + table.set), pushes 5, calls f2, leaves a reference to f2;
   f2: call_indirect through table slot 0 (holding f1), then a loop counting a value down, then +1;
   f1: +10, and stores a reference to itself in global 0 *)
Definition ex_f0 : body cop :=
  [IOther (OConst 1); IRefFunc 1; IOther OTableSet; IOther (OConst 5); ICall 2; IRefFunc 2].
Definition ex_f2 : body cop :=
  [IOther (OConst 0); ICallIndirect;
   IOther (OConst 3);
   ILoop [IOther (OConst 0); IOther OAdd;            (* keep the counter *)
          IOther ODup; IIf [] [IBr 2];               (* counter = 0: leave the function *)
          IOther ODrop; IOther (OConst 0); IBr 0];   (* never terminates otherwise: drop and restart with 0 *)
   IOther (OConst 99)].
Definition ex_f1 : body cop :=
  [IOther (OConst 10); IOther OAdd; IRefFunc 1; IOther OGlobalSet0].
Definition ex_M : module cop :=
  mkModule cop
    (fun f => match f with 0 => Some ex_f0 | 1 => Some ex_f1 | 2 => Some ex_f2 | _ => None end)
    (fun n => if String.eqb n "main" then Some 0 else if String.eqb n "helper" then Some 1 else None).
Definition ex_st : state := mkState [] [Some 1; None] [VNum 0].
Definition ex_M' : module cop := rename_module cop sigma sigma_inv ex_M.

(* what the original does *)
Example ex_original :
  run cop cstep 50 ex_M 0 ex_st
  = Done (mkState [VFuncRef 2; VNum 0; VNum 15] [Some 1; Some 1] [VFuncRef 1]).
Proof. vm_compute. reflexivity. Qed.
(* what the reordered module does: the same, with the references renamed *)
Example ex_renamed :
  run cop cstep 50 ex_M' (sigma 0) (rename_state sigma ex_st)
  = Done (mkState [VFuncRef 1; VNum 0; VNum 15] [Some 0; Some 0] [VFuncRef 0]).
Proof. vm_compute. reflexivity. Qed.
(* both sides of the theorem, computed *)
Example ex_both_sides :
  run cop cstep 50 ex_M' (sigma 0) (rename_state sigma ex_st)
  = rename_outcome sigma (run cop cstep 50 ex_M 0 ex_st).
Proof. vm_compute. reflexivity. Qed.
Example ex_both_sides_export :
  run_export cop cstep 50 ex_M' "main" (rename_state sigma ex_st)
  = rename_outcome sigma (run_export cop cstep 50 ex_M "main" ex_st).
Proof. vm_compute. reflexivity. Qed.
(* the renamed module really is a different module: function 0 is now the old f1, etc. *)
Example ex_reordered :
  funcs cop ex_M' 0 = Some (rename_body cop sigma ex_f1) /\
  funcs cop ex_M' 1 = Some (rename_body cop sigma ex_f2) /\
  funcs cop ex_M' 2 = Some (rename_body cop sigma ex_f0) /\
  exports cop ex_M' "main" = Some 2 /\
  rename_body cop sigma ex_f0 <> ex_f0.
Proof. vm_compute. repeat split; try reflexivity. discriminate. Qed.
(* without the renaming of the call targets the reordered module behaves differently *)
Example ex_unrenamed_differs :
  run cop cstep 50 (mkModule cop (fun g => funcs cop ex_M (sigma_inv g)) (exports cop ex_M)) (sigma 0) ex_st
  <> run cop cstep 50 ex_M 0 ex_st.
Proof. vm_compute. discriminate. Qed.
(* out-of-fuel and traps correspond too *)
Example ex_oof :
  run cop cstep 7 ex_M 0 ex_st = OutOfFuel /\
  run cop cstep 7 ex_M' (sigma 0) (rename_state sigma ex_st) = OutOfFuel.
Proof. vm_compute. split; reflexivity. Qed.
Example ex_trap :
  run cop cstep 50 ex_M 2 (mkState [] [None] []) = Trap /\
  run cop cstep 50 ex_M' (sigma 2) (rename_state sigma (mkState [] [None] [])) = Trap.
Proof. vm_compute. split; reflexivity. Qed.
(* a numeric-only result is literally identical *)
Example ex_numeric :
  results (run cop cstep 50 ex_M 1 (mkState [VNum 1] [] []))
  = results (run cop cstep 50 ex_M' (sigma 1) (rename_state sigma (mkState [VNum 1] [] []))).
Proof. vm_compute. reflexivity. Qed.

(* the general theorem applies to the example (via the permutation-of-[0,3) form, too) *)
Example ex_by_theorem fuel f st :
  run cop cstep fuel ex_M' (sigma f) (rename_state sigma st)
  = rename_outcome sigma (run cop cstep fuel ex_M f st).
Proof. apply rename_preserves_behaviour_cop. exact sigma_left_inv. Qed.

(* ------------------------------------------------------------------ the domain-only reading is false *)
(* If the inverse laws are only required on the DEFINED function indices, and nothing says that
   [rho] keeps undefined indices away from defined ones, the statement fails: an undefined callee
   (trap) can be renamed onto a defined function. *)
Theorem rename_preserves_behaviour_domain_only_refuted :
  exists (rho rho_inv : N -> N) (M : module cop) (f : N) (st : state),
    (forall g, funcs cop M g <> None -> rho_inv (rho g) = g /\ rho (rho_inv g) = g) /\
    run cop cstep 5 (rename_module cop rho rho_inv M) (rho f) (rename_state rho st)
    <> rename_outcome rho (run cop cstep 5 M f st).
Proof.
  exists (fun _ => 0), (fun g => g),
    (mkModule cop (fun g => if g =? 0 then Some [IOther (OConst 7)] else None) (fun _ => None)),
    1, (mkState [] [] []).
  split.
  - intros g. cbn [funcs]. destruct (N.eqb_spec g 0) as [->|Hne]; [split; reflexivity|].
    intros H; now destruct H.
  - vm_compute. discriminate.
Qed.

Print Assumptions rename_preserves_behaviour.
Print Assumptions export_call_same_behaviour.
Print Assumptions numeric_results_identical.
Print Assumptions numeric_results_identical_export.
Print Assumptions rename_preserves_behaviour_perm.
Print Assumptions rename_preserves_behaviour_cop.
Print Assumptions cstep_rename.
Print Assumptions leaky_op_violates_interface.
Print Assumptions ex_both_sides.
Print Assumptions ex_by_theorem.
Print Assumptions rename_preserves_behaviour_domain_only_refuted.
