(* DWARF addresses follow their instructions and functions: facts about the address classifier
   (find_address) and the converter (convert / convert_address) of Model/Dwarf.v on well-formed tables. *)
From Coq Require Import List NArith Bool Lia Sorted.
Import ListNotations.
From WV Require Import Model.Common Model.Dwarf Model.CodeMap.
Local Open Scope N_scope.

(* ------------------------------------------------------------------------------------------------ *)
(* leb5 and body_start                                                                              *)

Lemma leb5_range : forall n, 1 <= leb5 n <= 5.
Proof.
  intro n. unfold leb5.
  destruct (n <? 128); [lia|]. destruct (n <? 16384); [lia|].
  destruct (n <? 2097152); [lia|]. destruct (n <? 268435456); lia.
Qed.

Lemma leb5_mono : forall x y, x <= y -> leb5 x <= leb5 y.
Proof.
  intros x y Hxy. unfold leb5.
  destruct (N.ltb_spec x 128); destruct (N.ltb_spec y 128); try lia;
  destruct (N.ltb_spec x 16384); destruct (N.ltb_spec y 16384); try lia;
  destruct (N.ltb_spec x 2097152); destruct (N.ltb_spec y 2097152); try lia;
  destruct (N.ltb_spec x 268435456); destruct (N.ltb_spec y 268435456); lia.
Qed.

(* the LEB length of the size field is recovered uniquely from the total length of a code entry
   (no upper bound on the size is needed: above 2^28 the model's [leb5] is constantly 5) *)
Lemma body_start_spec_gen : forall s sz, body_start (s, s + leb5 sz + sz) = s + leb5 sz.
Proof.
  intros s sz. unfold body_start. cbn [fst snd].
  replace (s + leb5 sz + sz - s) with (leb5 sz + sz) by lia.
  pose proof (leb5_range sz) as Hr.
  assert (Hfalse : forall j, j < leb5 sz -> (j <=? leb5 sz + sz) && (leb5 (leb5 sz + sz - j) =? j) = false).
  { intros j Hj. apply andb_false_iff. right. apply N.eqb_neq.
    pose proof (leb5_mono sz (leb5 sz + sz - j)) as Hm. lia. }
  assert (Htrue : (leb5 sz <=? leb5 sz + sz) && (leb5 (leb5 sz + sz - leb5 sz) =? leb5 sz) = true).
  { apply andb_true_iff. split. apply N.leb_le; lia.
    replace (leb5 sz + sz - leb5 sz) with sz by lia. apply N.eqb_refl. }
  remember (leb5 sz) as k eqn:Hk.
  assert (Hc : k = 1 \/ k = 2 \/ k = 3 \/ k = 4 \/ k = 5) by lia.
  destruct Hc as [->|[->|[->|[->| ->]]]].
  - rewrite Htrue. reflexivity.
  - rewrite (Hfalse 1) by lia. rewrite Htrue. reflexivity.
  - rewrite (Hfalse 1), (Hfalse 2) by lia. rewrite Htrue. reflexivity.
  - rewrite (Hfalse 1), (Hfalse 2), (Hfalse 3) by lia. rewrite Htrue. reflexivity.
  - rewrite (Hfalse 1), (Hfalse 2), (Hfalse 3), (Hfalse 4) by lia. rewrite Htrue. reflexivity.
Qed.

Lemma body_start_spec : forall s sz, 2 <= sz -> sz < 4294967296 -> body_start (s, s + leb5 sz + sz) = s + leb5 sz.
Proof. intros s sz _ _. apply body_start_spec_gen. Qed.

(* [leb5] is the LEB128 length of Model.CodeMap below 2^35 *)
Lemma leb5_leb_len : forall n, n < 34359738368 -> leb5 n = leb_len n.
Proof.
  intros n Hn. unfold leb_len, leb5. cbn [leb_len_fuel].
  rewrite !N.shiftr_div_pow2. change (2 ^ 7) with 128.
  rewrite !N.div_div by lia. change (128 * 128) with 16384. change (16384 * 128) with 2097152.
  change (2097152 * 128) with 268435456. change (268435456 * 128) with 34359738368.
  pose proof (N.div_mod n 128 ltac:(lia)) as E1. pose proof (N.mod_lt n 128 ltac:(lia)) as L1.
  pose proof (N.div_mod n 16384 ltac:(lia)) as E2. pose proof (N.mod_lt n 16384 ltac:(lia)) as L2.
  pose proof (N.div_mod n 2097152 ltac:(lia)) as E3. pose proof (N.mod_lt n 2097152 ltac:(lia)) as L3.
  pose proof (N.div_mod n 268435456 ltac:(lia)) as E4. pose proof (N.mod_lt n 268435456 ltac:(lia)) as L4.
  remember (n / 128) as q1 eqn:Q1. remember (n mod 128) as r1 eqn:R1.
  remember (n / 16384) as q2 eqn:Q2. remember (n mod 16384) as r2 eqn:R2.
  remember (n / 2097152) as q3 eqn:Q3. remember (n mod 2097152) as r3 eqn:R3.
  remember (n / 268435456) as q4 eqn:Q4. remember (n mod 268435456) as r4 eqn:R4.
  clear Q1 R1 Q2 R2 Q3 R3 Q4 R4.
  destruct (N.ltb_spec n 128) as [H1|H1]; [reflexivity|].
  destruct (N.ltb_spec q1 128) as [H2|H2]; destruct (N.ltb_spec n 16384) as [H2'|H2']; try reflexivity; try (exfalso; lia).
  destruct (N.ltb_spec q2 128) as [H3|H3]; destruct (N.ltb_spec n 2097152) as [H3'|H3']; try reflexivity; try (exfalso; lia).
  destruct (N.ltb_spec q3 128) as [H4|H4]; destruct (N.ltb_spec n 268435456) as [H4'|H4']; try reflexivity; try (exfalso; lia).
  destruct (N.ltb_spec q4 128) as [H5|H5]; [reflexivity|exfalso; lia].
Qed.

(* ------------------------------------------------------------------------------------------------ *)
(* well-formed tables: what parsing guarantees                                                      *)

(* [start, end) is a code entry: a size field (LEB128 of sz) followed by a body of sz >= 2 bytes
   (at least a locals count and an `end`) *)
Definition code_entry (r : N * N) : Prop := exists sz, 2 <= sz /\ snd r = fst r + leb5 sz + sz.

Record tables_wf (t : dtables) : Prop := {
  (* instruction addresses strictly increasing *)
  wf_instrs_sorted : StronglySorted (fun p q => fst p < fst q) (dt_instrs t);
  (* ranges increasing and pairwise disjoint *)
  wf_ranges_sorted : StronglySorted (fun r s => rng_end r <= rng_start s) (dt_ranges t);
  (* every range is a code entry (in particular start < end) *)
  wf_ranges_entry : Forall (fun r => code_entry (fst r)) (dt_ranges t);
  (* every instruction lies in a range, strictly after its body start (after the locals declaration) *)
  wf_instrs_in : Forall (fun p => exists r, In r (dt_ranges t) /\ body_start (fst r) < fst p < rng_end r) (dt_instrs t)
}.

(* two functions: entry [10,17) = size 6 (1 byte) + body [11,17), instructions at 13 and 15;
                  entry [17,27) = size 9 (1 byte) + body [18,27), instruction at 24 *)
Definition ex_tables : dtables :=
  {| dt_instrs := [(13, 0); (15, 1); (24, 2)]; dt_ranges := [((10, 17), 7); ((17, 27), 8)] |}.

Example ex_tables_wf : tables_wf ex_tables.
Proof.
  constructor; cbn [ex_tables dt_instrs dt_ranges].
  - repeat constructor; cbn; lia.
  - repeat constructor; cbn; lia.
  - repeat constructor.
    + exists 6. cbn. split; [lia|reflexivity].
    + exists 9. cbn. split; [lia|reflexivity].
  - repeat constructor.
    + exists ((10, 17), 7). split; [cbn; tauto|]. vm_compute. split; reflexivity.
    + exists ((10, 17), 7). split; [cbn; tauto|]. vm_compute. split; reflexivity.
    + exists ((17, 27), 8). split; [cbn; tauto|]. vm_compute. split; reflexivity.
Qed.

(* ------------------------------------------------------------------------------------------------ *)
(* generic list facts                                                                               *)

Lemma ss_trichotomy {A} (R : A -> A -> Prop) (l : list A) :
  StronglySorted R l -> forall x y, In x l -> In y l -> x = y \/ R x y \/ R y x.
Proof.
  induction 1 as [|z l Hss IH Hall]; intros x y Hx Hy; [destruct Hx|].
  rewrite Forall_forall in Hall.
  destruct Hx as [->|Hx]; destruct Hy as [->|Hy]; auto.
Qed.

Lemma find_unique {A} (f : A -> bool) (l : list A) (x : A) :
  In x l -> f x = true -> (forall y, In y l -> f y = true -> y = x) -> find f l = Some x.
Proof.
  intros Hin Hfx Hu. destruct (find f l) as [y|] eqn:E.
  - apply find_some in E. f_equal. apply Hu; tauto.
  - pose proof (find_none _ _ E _ Hin) as Hn. congruence.
Qed.

Lemma find_all_false {A} (f : A -> bool) (l : list A) :
  (forall y, In y l -> f y = false) -> find f l = None.
Proof.
  intros Hf. destruct (find f l) as [y|] eqn:E; [|reflexivity].
  apply find_some in E. destruct E as [Hin Hy]. rewrite (Hf _ Hin) in Hy. discriminate.
Qed.

Lemma edge_none (l : list (N * N)) (id : nat) (a : N) :
  (forall p, In p l -> fst p - 1 <> a) ->
  match nth_error l id with
  | Some p => if fst p - 1 =? a then Some (snd p) else None
  | None => None
  end = None.
Proof.
  intros Hne. destruct (nth_error l id) as [p|] eqn:E; [|reflexivity].
  apply nth_error_In in E. apply Hne in E. apply N.eqb_neq in E. rewrite E. reflexivity.
Qed.

Lemma in_range_true_iff a r : in_range true a r = true <-> rng_start r < a <= rng_end r.
Proof. unfold in_range. rewrite andb_true_iff, N.ltb_lt, N.leb_le. tauto. Qed.

Lemma in_range_false_iff a r : in_range false a r = true <-> rng_start r <= a < rng_end r.
Proof. unfold in_range. rewrite andb_true_iff, N.ltb_lt, N.leb_le. tauto. Qed.

(* ------------------------------------------------------------------------------------------------ *)
(* consequences of well-formedness                                                                  *)

Section Wf.
Variable t : dtables.
Hypothesis Hwf : tables_wf t.

(* shape of a range, with the LEB length abstracted *)
Lemma range_shape r : In r (dt_ranges t) ->
  exists k sz, 1 <= k <= 5 /\ 2 <= sz /\ body_start (fst r) = rng_start r + k /\ rng_end r = rng_start r + k + sz.
Proof.
  intros Hin. pose proof (wf_ranges_entry t Hwf) as He. rewrite Forall_forall in He.
  destruct (He _ Hin) as (sz & Hsz & Hend). destruct r as [[s e] fid].
  unfold rng_start, rng_end. cbn [fst snd] in *. subst e.
  exists (leb5 sz), sz. rewrite body_start_spec_gen. pose proof (leb5_range sz). repeat split; lia.
Qed.

Lemma range_nonempty r : In r (dt_ranges t) -> rng_start r < rng_end r.
Proof. intros Hin. destruct (range_shape r Hin) as (k & sz & ? & ? & ? & ?). lia. Qed.

Lemma ranges_tri r r' : In r (dt_ranges t) -> In r' (dt_ranges t) ->
  r = r' \/ rng_end r <= rng_start r' \/ rng_end r' <= rng_start r.
Proof. apply (ss_trichotomy _ _ (wf_ranges_sorted t Hwf)). Qed.

Lemma instr_in_range p : In p (dt_instrs t) ->
  exists r, In r (dt_ranges t) /\ body_start (fst r) < fst p < rng_end r.
Proof. intros Hin. pose proof (wf_instrs_in t Hwf) as H. rewrite Forall_forall in H. auto. Qed.

(* "exactly one range" *)
Lemma instr_range_unique p r r' : In p (dt_instrs t) -> In r (dt_ranges t) -> In r' (dt_ranges t) ->
  rng_start r <= fst p < rng_end r -> rng_start r' <= fst p < rng_end r' -> r = r'.
Proof. intros _ Hr Hr' H1 H2. destruct (ranges_tri r r' Hr Hr') as [?|[?|?]]; [assumption|lia|lia]. Qed.

Lemma find_key_sorted a loc : In (a, loc) (dt_instrs t) ->
  find (fun p => fst p =? a) (dt_instrs t) = Some (a, loc).
Proof.
  intros Hin. apply find_unique; [assumption|apply N.eqb_refl|].
  intros y Hy Hk. apply N.eqb_eq in Hk.
  destruct (ss_trichotomy _ _ (wf_instrs_sorted t Hwf) y (a, loc) Hy Hin) as [?|[?|?]]; [assumption| |];
    cbn [fst] in *; lia.
Qed.

(* 2. an address that was the start of an instruction is classified as that instruction *)
Theorem find_instr a loc : In (a, loc) (dt_instrs t) -> forall incl, find_address t a incl = CInstr loc.
Proof. intros Hin incl. unfold find_address. rewrite (find_key_sorted a loc Hin). reflexivity. Qed.

(* 3. kept instructions are translated through the instruction map, removed ones are dropped *)
Theorem convert_instr_kept c a loc x incl : In (a, loc) (dt_instrs t) ->
  lookup loc (ct_imap c) = Some x -> convert_address t c a incl = Some (x - ct_start c).
Proof. intros Hin Hl. unfold convert_address. rewrite (find_instr a loc Hin). cbn [convert]. rewrite Hl. reflexivity. Qed.

Theorem convert_instr_removed c a loc incl : In (a, loc) (dt_instrs t) ->
  lookup loc (ct_imap c) = None -> convert_address t c a incl = None.
Proof. intros Hin Hl. unfold convert_address. rewrite (find_instr a loc Hin). cbn [convert]. rewrite Hl. reflexivity. Qed.

Ltac shape H := let k := fresh "k" in let sz := fresh "sz" in
  destruct (range_shape _ H) as (k & sz & ? & ? & ? & ?).

(* the body start of a range is not an instruction address *)
Lemma body_start_not_instr r p : In r (dt_ranges t) -> In p (dt_instrs t) -> fst p <> body_start (fst r).
Proof.
  intros Hr Hp. destruct (instr_in_range p Hp) as (r' & Hr' & Hin').
  shape Hr. shape Hr'. destruct (ranges_tri r r' Hr Hr') as [<-|[?|?]]; lia.
Qed.

(* 4. the body start of a function is classified as such, whatever the preference *)
Theorem find_body_start r : In r (dt_ranges t) ->
  forall incl, find_address t (body_start (fst r)) incl = CBodyStart (snd r).
Proof.
  intros Hr incl. shape Hr. set (a := body_start (fst r)) in *.
  cbv beta zeta delta [find_address].
  rewrite find_all_false.
  2:{ intros p Hp. apply N.eqb_neq. apply body_start_not_instr; assumption. }
  rewrite (find_unique (in_range false a) (dt_ranges t) r Hr).
  - fold a. rewrite N.eqb_refl.
    replace (a =? rng_start r) with false by (symmetry; apply N.eqb_neq; lia). reflexivity.
  - apply in_range_false_iff. lia.
  - intros y Hy Hiy. apply in_range_false_iff in Hiy.
    destruct (ranges_tri y r Hy Hr) as [?|[?|?]]; [assumption|lia|lia].
Qed.

(* the end of a range is not an instruction address, nor is the byte before an instruction *)
Lemma fn_end_not_instr r p : In r (dt_ranges t) -> In p (dt_instrs t) -> fst p <> rng_end r /\ fst p - 1 <> rng_end r.
Proof.
  intros Hr Hp. destruct (instr_in_range p Hp) as (r' & Hr' & Hin').
  shape Hr. shape Hr'. destruct (ranges_tri r r' Hr Hr') as [<-|[?|?]]; lia.
Qed.

(* 5. inclusive preference: the end of a function belongs to that function, not to the next one *)
Theorem find_fn_end r : In r (dt_ranges t) -> find_address t (rng_end r) true = CFnEdge (snd r).
Proof.
  intros Hr. shape Hr. set (a := rng_end r) in *.
  cbv beta zeta delta [find_address].
  rewrite find_all_false.
  2:{ intros p Hp. apply N.eqb_neq. apply (fn_end_not_instr r p Hr Hp). }
  rewrite edge_none.
  2:{ intros p Hp. apply (fn_end_not_instr r p Hr Hp). }
  assert (Hb : match find (in_range false a) (dt_ranges t) with
               | Some r0 => if negb (a =? rng_start r0) && (a =? body_start (fst r0)) then Some (snd r0) else None
               | None => None end = None).
  { destruct (find (in_range false a) (dt_ranges t)) as [r0|] eqn:E; [|reflexivity].
    apply find_some in E. destruct E as [Hr0 Hi0]. apply in_range_false_iff in Hi0. shape Hr0.
    replace (a =? body_start (fst r0)) with false; [rewrite andb_false_r; reflexivity|].
    symmetry. apply N.eqb_neq.
    destruct (ranges_tri r r0 Hr Hr0) as [<-|[?|?]]; lia. }
  rewrite Hb.
  rewrite (find_unique (in_range true a) (dt_ranges t) r Hr).
  - fold a. rewrite N.eqb_refl. reflexivity.
  - apply in_range_true_iff. lia.
  - intros y Hy Hiy. apply in_range_true_iff in Hiy.
    destruct (ranges_tri y r Hy Hr) as [?|[?|?]]; [assumption|lia|lia].
Qed.

(* 6. the converted subprogram [low_pc, high_pc) covers exactly the emitted body of the same function *)
Theorem subprogram_range c r s' e' sz' incl :
  In r (dt_ranges t) ->
  lookup (snd r) (ct_franges c) = Some (s', e') ->
  2 <= sz' -> e' = s' + leb5 sz' + sz' ->
  ct_start c <= s' ->
  convert_address t c (body_start (fst r)) incl = Some (s' + leb5 sz' - ct_start c) /\
  convert_address t c (rng_end r) true = Some (e' - ct_start c) /\
  (e' - ct_start c) - (s' + leb5 sz' - ct_start c) = sz'.
Proof.
  intros Hr Hl Hsz He Hcs. unfold convert_address.
  rewrite (find_body_start r Hr), (find_fn_end r Hr). cbn [convert]. rewrite Hl. cbn [option_map snd].
  subst e'. rewrite body_start_spec_gen. repeat split. lia.
Qed.

Theorem subprogram_removed c r incl :
  In r (dt_ranges t) ->
  lookup (snd r) (ct_franges c) = None ->
  convert_address t c (body_start (fst r)) incl = None /\ convert_address t c (rng_end r) true = None.
Proof.
  intros Hr Hl. unfold convert_address.
  rewrite (find_body_start r Hr), (find_fn_end r Hr). cbn [convert]. rewrite Hl. split; reflexivity.
Qed.

(* 7. an address outside every range is unknown and is dropped.  On well-formed tables "not adjacent to an
   instruction" follows: the byte before an instruction is inside that instruction's range. *)
Theorem find_unknown_gen a incl :
  (forall r, In r (dt_ranges t) -> in_range false a r = false) ->
  (forall r, In r (dt_ranges t) -> in_range incl a r = false) ->
  find_address t a incl = CUnknown.
Proof.
  intros Hex Hin.
  assert (Hout : forall r, In r (dt_ranges t) -> ~ (rng_start r <= a < rng_end r)).
  { intros r Hr Hc. apply in_range_false_iff in Hc. rewrite (Hex r Hr) in Hc. discriminate. }
  assert (Hni : forall p, In p (dt_instrs t) -> fst p <> a /\ fst p - 1 <> a).
  { intros p Hp. destruct (instr_in_range p Hp) as (r' & Hr' & Hin'). shape Hr'.
    pose proof (Hout r' Hr'). lia. }
  cbv beta zeta delta [find_address].
  rewrite find_all_false.
  2:{ intros p Hp. apply N.eqb_neq. apply (Hni p Hp). }
  rewrite edge_none.
  2:{ intros p Hp. apply (Hni p Hp). }
  rewrite (find_all_false (in_range false a)) by assumption.
  rewrite (find_all_false (in_range incl a)) by assumption.
  reflexivity.
Qed.

Theorem find_unknown a incl :
  (forall r, In r (dt_ranges t) -> a < rng_start r \/ rng_end r < a) ->
  find_address t a incl = CUnknown /\ forall c, convert_address t c a incl = None.
Proof.
  intros Hout.
  assert (H : find_address t a incl = CUnknown).
  { apply find_unknown_gen; intros r Hr; pose proof (Hout r Hr) as Ho.
    - destruct (in_range false a r) eqn:E; [|reflexivity]. apply in_range_false_iff in E. lia.
    - destruct incl.
      + destruct (in_range true a r) eqn:E; [|reflexivity]. apply in_range_true_iff in E. lia.
      + destruct (in_range false a r) eqn:E; [|reflexivity]. apply in_range_false_iff in E. lia. }
  split; [assumption|]. intros c. unfold convert_address. rewrite H. reflexivity.
Qed.

End Wf.

Print Assumptions body_start_spec_gen.
Print Assumptions body_start_spec.
Print Assumptions leb5_leb_len.
Print Assumptions ex_tables_wf.
Print Assumptions find_instr.
Print Assumptions convert_instr_kept.
Print Assumptions convert_instr_removed.
Print Assumptions find_body_start.
Print Assumptions find_fn_end.
Print Assumptions subprogram_range.
Print Assumptions subprogram_removed.
Print Assumptions find_unknown_gen.
Print Assumptions find_unknown.
