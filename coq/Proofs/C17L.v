(* Glue lemmas for C17: the property statements of Props/C17.v, proved from
   Proofs/Arena.v and Proofs/ArenaSet.v. *)
From Coq Require Import List NArith Bool Arith Sorted.
Import ListNotations.
From WV Require Import Model.Arena Proofs.Arena Proofs.ArenaSet Run.ArenaRun.

Section C17L.
  Variable A : Type.
  Variable on_delete : A -> A.
  Variable eqA : A -> A -> bool.
  Notation run := (run on_delete eqA).

  Lemma c17_fresh_l : forall ops a,
    ids_of A (snd (run a ops)) = seq (next_id a) (n_allocs A ops).
  Proof. intros. apply ids_fresh. Qed.

  Lemma c17_stable_l : forall ops a id v,
    index a id = Some v -> ~ In (ODelete id) ops -> index (fst (run a ops)) id = Some v.
  Proof. intros. apply run_stable; assumption. Qed.

  Lemma c17_dead_forever_l : forall ops a id a',
    delete on_delete a id = Some a' ->
    let a'' := fst (run a' ops) in
    index a'' id = None /\ contains a'' id = false /\ (forall v, ~ In (id, v) (iter a'')).
  Proof.
    intros ops a id a' Hd a''.
    assert (H : is_dead a'' id = true) by (apply run_dead; eapply delete_dead; exact Hd).
    destruct (dead_absent A a'' id H) as [H1 H2].
    split; [exact H1|]. split; [exact H2|].
    intros v Hin. apply (proj1 (iter_live A on_delete eqA a'' id v)) in Hin. rewrite H1 in Hin. discriminate.
  Qed.

  Lemma c17_delete_isolated_l : forall a id a' id',
    delete on_delete a id = Some a' -> id' <> id -> index a' id' = index a id'.
  Proof. intros. eapply delete_isolated; eassumption. Qed.

  Lemma c17_iter_live_l : forall (a : tarena A) id v, In (id, v) (iter a) <-> index a id = Some v.
  Proof. intros. exact (iter_live A on_delete eqA a id v). Qed.

  Lemma c17_iter_order_l : forall a : tarena A, StronglySorted lt (map fst (iter a)).
  Proof. intros. exact (iter_creation_order A a). Qed.

  Lemma c17_len_l : forall ops,
    let a := fst (run empty ops) in len a = Some (length (iter a)).
  Proof. intros ops a. apply len_live. apply run_inv. apply inv_empty. Qed.

  Lemma c17_find_l : forall (a : tarena A) v,
    match find_id eqA v (iter a) with
    | Some id => exists v0, index a id = Some v0 /\ eqA v0 v = true
    | None => forall id v0, index a id = Some v0 -> eqA v0 v = false
    end.
  Proof.
    intros a v. destruct (find_id eqA v (iter a)) eqn:E.
    - exact (find_sound A on_delete eqA a v n E).
    - exact (find_complete A on_delete eqA a v E).
  Qed.

  Hypothesis eqA_refl : forall x, eqA x x = true.
  Hypothesis eqA_sym : forall x y, eqA x y = eqA y x.
  Hypothesis eqA_trans : forall x y z, eqA x y = true -> eqA y z = true -> eqA x z = true.
  Notation srun := (srun on_delete eqA).

  Lemma reach_sinv ops : SInv A eqA (fst (srun aset_empty ops)).
  Proof. apply srun_inv; auto. apply sinv_empty. Qed.

  Lemma c17_dedup_l : forall ops v,
    let s := fst (srun aset_empty ops) in
    (exists id v0, index (arena s) id = Some v0 /\ eqA v0 v = true /\ insert eqA s v = (s, id)) \/
    ((forall id v0, index (arena s) id = Some v0 -> eqA v0 v = false) /\
     exists s', insert eqA s v = (s', next_id (arena s)) /\
                index (arena s') (next_id (arena s)) = Some v).
  Proof.
    intros ops v s. pose proof (reach_sinv ops) as HS. fold s in HS.
    destruct (insert_cases A eqA eqA_sym eqA_trans s v HS) as [[id [v0 [Hi He]]]|Hn].
    - left. exists id, v0. split; [exact Hi|]. split; [exact He|].
      eapply insert_existing; eauto.
    - right. split; [exact Hn|].
      destruct (insert_fresh A eqA eqA_refl eqA_sym s v HS Hn) as [s' [E [Hi _]]].
      exists s'. split; assumption.
  Qed.

  Lemma c17_set_distinct_l : forall ops id1 id2 v1 v2,
    let s := fst (srun aset_empty ops) in
    index (arena s) id1 = Some v1 -> index (arena s) id2 = Some v2 ->
    eqA v1 v2 = true -> id1 = id2.
  Proof.
    intros ops id1 id2 v1 v2 s. eapply live_distinct; eauto. apply reach_sinv.
  Qed.

  Lemma c17_readd_after_delete_l : forall ops id v s' v',
    let s := fst (srun aset_empty ops) in
    index (arena s) id = Some v -> aset_remove on_delete eqA s id = Some s' -> eqA v v' = true ->
    exists s'', insert eqA s' v' = (s'', next_id (arena s)) /\ id < next_id (arena s) /\
                index (arena s'') id = None.
  Proof.
    intros ops id v s' v' s. eapply readd_after_delete; eauto. apply reach_sinv.
  Qed.
End C17L.

Lemma item_eqb_refl x : item_eqb x x = true.
Proof. induction x as [|a r IH]; cbn; [reflexivity|]. rewrite N.eqb_refl, IH. reflexivity. Qed.
Lemma item_eqb_eq x y : item_eqb x y = true <-> x = y.
Proof.
  revert y; induction x as [|a r IH]; intros [|b s]; cbn; split; try congruence; try discriminate.
  - intros H. apply andb_true_iff in H. destruct H as [H1 H2].
    apply N.eqb_eq in H1. apply IH in H2. congruence.
  - intros H. inversion H; subst. rewrite N.eqb_refl. apply IH. reflexivity.
Qed.
Lemma item_eqb_sym x y : item_eqb x y = item_eqb y x.
Proof.
  destruct (item_eqb x y) eqn:E1, (item_eqb y x) eqn:E2; try reflexivity.
  - apply item_eqb_eq in E1. subst. rewrite item_eqb_refl in E2. discriminate.
  - apply item_eqb_eq in E2. subst. rewrite item_eqb_refl in E1. discriminate.
Qed.
Lemma item_eqb_trans x y z : item_eqb x y = true -> item_eqb y z = true -> item_eqb x z = true.
Proof. rewrite !item_eqb_eq. congruence. Qed.
