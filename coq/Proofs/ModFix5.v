(* C08, module level fixpoint: payload equalities for the EXPORT, START, ELEMENT, DATA COUNT and DATA sections
   of two consecutive round trips, under visible identity premises [rho_id s2 e2 S] for the index spaces a
   section refers to.  Helper lemmas are prefixed [sg_]. *)
From Coq Require Import List NArith ZArith Bool Arith Lia.
Import ListNotations.
From WV Require Import Gen.Ops Model.Common Model.IR Model.Arena Model.Traversal Model.EmitFn Model.Locals
                       Model.ParseFn Model.ModuleM Model.ParseM Model.EmitM Gen.Attrs.
From WV Require Import Proofs.Arena Proofs.Order Proofs.IndexMaps Proofs.CustomsCfg Proofs.Escalation Proofs.Structure
                       Proofs.ParsedWf Proofs.Structure2 Proofs.Totality Proofs.Renumbering Proofs.ModFix.
Local Open Scope nat_scope.

(* ====================================================================================== *)
(* 0. the emitted stream: every standard section at most once                               *)
(* ====================================================================================== *)
Ltac sg_len2 := cbv zeta; repeat estep; intros [= <- _]; cbn [length]; lia.
Ltac sg_len1 := cbv zeta; repeat estep; intros [= <- ]; cbn [length]; lia.
Ltac sg_len3 := cbv zeta; repeat estep; intros [= <- _ _]; cbn [length]; lia.

Lemma sg_emit_types_len m x l x' : emit_types m x = (l, x') -> length l <= 1.
Proof. unfold emit_types. sg_len2. Qed.
Lemma sg_emit_imports_len m x l x' : emit_imports m x = Ok (l, x') -> length l <= 1.
Proof. unfold emit_imports. sg_len2. Qed.
Lemma sg_emit_func_section_len m x l x' : emit_func_section m x = Ok (l, x') -> length l <= 1.
Proof. unfold emit_func_section. sg_len2. Qed.
Lemma sg_emit_tables_len m x : length (fst (emit_tables m x)) <= 1.
Proof. unfold emit_tables. destruct (filter _ _); cbn [fst length]; lia. Qed.
Lemma sg_emit_memories_len m x : length (fst (emit_memories m x)) <= 1.
Proof. unfold emit_memories. destruct (filter _ _); cbn [fst length]; lia. Qed.
Lemma sg_emit_globals_len m x l x' : emit_globals m x = Ok (l, x') -> length l <= 1.
Proof. unfold emit_globals. sg_len2. Qed.
Lemma sg_emit_exports_len m x l : emit_exports m x = Ok l -> length l <= 1.
Proof. unfold emit_exports. sg_len1. Qed.
Lemma sg_emit_start_len (o : option N) x l :
  match o with Some f => i <- get_idx x S_func f ;; Ok [S_Start i] | None => Ok [] end = Ok l -> length l <= 1.
Proof. sg_len1. Qed.
Lemma sg_emit_elements_len m x l x' : emit_elements m x = Ok (l, x') -> length l <= 1.
Proof. unfold emit_elements. sg_len2. Qed.
Lemma sg_emit_data_count_len m x l x' : emit_data_count m x = Ok (l, x') -> length l <= 1.
Proof. unfold emit_data_count. sg_len2. Qed.
Lemma sg_emit_code_len m x ilen l x' efs : emit_code m x ilen = Ok (l, x', efs) -> length l <= 1.
Proof. unfold emit_code. sg_len3. Qed.
Lemma sg_emit_data_len m x l : emit_data m x = Ok l -> length l <= 1.
Proof. unfold emit_data. sg_len1. Qed.

Lemma sg_tagged_count u t l : tagged u l -> tag_count t l = if Nat.eqb u t then length l else 0.
Proof.
  unfold tagged. induction 1 as [|s l Hs _ IH]; [destruct (Nat.eqb u t); reflexivity|].
  rewrite tag_count_cons, IH. unfold has_tag. rewrite Hs. destruct (Nat.eqb u t); cbn [length]; lia.
Qed.
Lemma sg_untagged_count t l : (forall s, In s l -> sec_tag s = None) -> tag_count t l = 0.
Proof.
  induction l as [|s l IH]; intros H; [reflexivity|].
  rewrite tag_count_cons, IH by (intros s' Hs'; apply H; right; exact Hs').
  unfold has_tag. rewrite (H s) by (left; reflexivity). reflexivity.
Qed.

Theorem sg_stream_wf m ilen e : emitM m ilen [] = Ok e -> stream_wf (em_secs e) = true.
Proof.
  intros He. emitM_parts2 He.
  pose proof (emit_types_tag _ _ _ _ Ety) as T0. pose proof (emit_imports_tag _ _ _ _ Eim) as T1.
  pose proof (emit_func_section_tag _ _ _ _ Efn) as T2. pose proof (emit_tables_tag m x3) as T3.
  pose proof (emit_memories_tag m x4) as T4.
  pose proof (emit_globals_tag _ _ _ _ Egl) as T5. pose proof (emit_exports_tag _ _ _ Eex) as T6.
  pose proof (emit_start_tag _ _ _ Est) as T7. pose proof (emit_elements_tag _ _ _ _ Eel) as T8.
  pose proof (emit_data_count_tag _ _ _ _ Edc) as T9. pose proof (emit_code_tag _ _ _ _ _ _ Eco) as T10.
  pose proof (emit_data_tag _ _ _ Eda) as T11.
  pose proof (sg_emit_types_len _ _ _ _ Ety) as L0. pose proof (sg_emit_imports_len _ _ _ _ Eim) as L1.
  pose proof (sg_emit_func_section_len _ _ _ _ Efn) as L2. pose proof (sg_emit_tables_len m x3) as L3.
  pose proof (sg_emit_memories_len m x4) as L4.
  pose proof (sg_emit_globals_len _ _ _ _ Egl) as L5. pose proof (sg_emit_exports_len _ _ _ Eex) as L6.
  pose proof (sg_emit_start_len _ _ _ Est) as L7. pose proof (sg_emit_elements_len _ _ _ _ Eel) as L8.
  pose proof (sg_emit_data_count_len _ _ _ _ Edc) as L9. pose proof (sg_emit_code_len _ _ _ _ _ _ Eco) as L10.
  pose proof (sg_emit_data_len _ _ _ Eda) as L11.
  assert (R0 : forall t, tag_count t rest = 0).
  { intros t. apply sg_untagged_count. intros s Hs. destruct (Erest s Hs) as [Hn|[]]. exact Hn. }
  assert (H : forall t, t < 12 -> tag_count t (em_secs e) <= 1).
  { intros t Ht. rewrite Esecs, !tag_count_app,
      (sg_tagged_count _ t _ T0), (sg_tagged_count _ t _ T1), (sg_tagged_count _ t _ T2), (sg_tagged_count _ t _ T3),
      (sg_tagged_count _ t _ T4), (sg_tagged_count _ t _ T5), (sg_tagged_count _ t _ T6), (sg_tagged_count _ t _ T7),
      (sg_tagged_count _ t _ T8), (sg_tagged_count _ t _ T9), (sg_tagged_count _ t _ T10), (sg_tagged_count _ t _ T11), R0.
    do 12 (destruct t as [|t]; [cbn [Nat.eqb]; lia|]). lia. }
  unfold stream_wf. apply forallb_forall. intros t Hin. apply in_seq in Hin. apply Nat.leb_le. apply H. lia.
Qed.

(* the payload of a section that occurs in a well-formed stream *)
Lemma sg_once_payload {B} (f : wsec -> list B) t w sec : stream_wf w = true -> t < 12 ->
  (forall s, has_tag t s = false -> f s = []) -> In sec w -> has_tag t sec = true -> flat_map f w = f sec.
Proof.
  intros Hwf Ht Hf Hin Hs. apply (once_flat_map f t Hf w sec); [apply stream_wf_once; assumption|exact Hin|exact Hs].
Qed.

Lemma sg_Forall2_eq {A} (R : A -> A -> Prop) : forall l l', (forall a b, In a l -> R a b -> b = a) -> Forall2 R l l' -> l' = l.
Proof.
  intros l l' H F. induction F as [|a b l l' Hab F IH]; [reflexivity|]. f_equal.
  - apply H; [left; reflexivity|exact Hab].
  - apply IH. intros a' b' Hi Hr. apply H; [right; exact Hi|exact Hr].
Qed.

(* ====================================================================================== *)
(* 1. identity of the renumbering, read on the emit-time maps                               *)
(* ====================================================================================== *)
Lemma sg_get_id cf ver w s ilen e S i j : parseM cf ver w = POk s -> emitM (ps_m s) ilen [] = Ok e ->
  S <> S_type -> S <> S_local -> rho_id s e S -> get_idx (em_x2i e) S i = Ok j -> j = i.
Proof.
  intros Hp He HS HL Hid Hg.
  assert (Hin : In i (emitted_ids e S)).
  { unfold get_idx, lookup_i in Hg. destruct (find _ _) as [p|] eqn:Ef; [|discriminate]. apply find_some in Ef.
    destruct Ef as [Ef1 Ef2]. apply N.eqb_eq in Ef2. unfold emitted_ids. apply in_map_iff. exists p. split; assumption. }
  apply (emitted_full cf ver w s ilen [] e Hp He S i HS HL) in Hin. unfold n_in in Hin.
  pose proof (Hid i Hin) as R. apply (rho_entity s e S i (parseM_ids _ _ _ _ Hp) HS HL) in R. congruence.
Qed.

Lemma sg_kind_space_ok k : kind_space k <> S_type /\ kind_space k <> S_local.
Proof. destruct k; split; discriminate. Qed.

(* ====================================================================================== *)
(* E1. exports                                                                              *)
(* ====================================================================================== *)
Lemma sg_exports_empty cf ver w s ilen e : parseM cf ver w = POk s -> emitM (ps_m s) ilen [] = Ok e ->
  flat_map exports_of w = [] -> flat_map exports_of (em_secs e) = [].
Proof.
  intros Hp He Hw. destruct (parseM_GES _ _ _ _ Hp) as (_ & HE & _). rewrite sec_exports_of, Hw in HE. cbn [map] in HE.
  pose proof (parseM_ids _ _ _ _ Hp) as Hid.
  assert (D : dead (m_exports (ps_m s)) = []) by (unfold ids_consistent in Hid; tauto).
  emitM_parts2 He. unfold emit_exports in Eex. rewrite (aiter_nodead_snd _ D), HE in Eex. inversion Eex; subst s_ex; clear Eex.
  apply flat_map_nil. intros sec Hin. destruct sec; try reflexivity.
  destruct (Etags _ 6 Hin eq_refl) as [[]|Hs]. cbn [nth] in Hs. destruct Hs.
Qed.

Lemma sg_export_rt_id cf ver w s ilen e wi wo : parseM cf ver w = POk s -> emitM (ps_m s) ilen [] = Ok e ->
  rho_id s e S_func -> rho_id s e S_table -> rho_id s e S_memory -> rho_id s e S_global ->
  export_rt e wi wo -> wo = wi.
Proof.
  intros Hp He Hf Ht Hm Hg (A & B & C). destruct wi as [ni ki ii], wo as [no ko io]. cbn [we_name we_kind we_index] in *.
  subst no ko. f_equal. destruct (sg_kind_space_ok ki) as [K1 K2].
  apply (sg_get_id _ _ _ _ _ _ _ _ _ Hp He K1 K2); [|exact C]. destruct ki; assumption.
Qed.

Theorem fix_exports cf ver w ilen s1 e1 s2 e2 : two_trips cf ver w ilen s1 e1 s2 e2 ->
  rho_id s2 e2 S_func -> rho_id s2 e2 S_table -> rho_id s2 e2 S_memory -> rho_id s2 e2 S_global ->
  flat_map exports_of (em_secs e2) = flat_map exports_of (em_secs e1).
Proof.
  intros (Hp1 & He1 & Hp2 & He2) Hf Ht Hm Hg.
  destruct (flat_map exports_of (em_secs e1)) as [|x0 r0] eqn:E1.
  - apply (sg_exports_empty _ _ _ _ _ _ Hp2 He2 E1).
  - destruct (structure_exports_gen _ _ _ _ _ _ _ Hp2 He2) as (es & Hin & F); [rewrite E1; discriminate|].
    rewrite E1 in F. apply sg_Forall2_eq in F.
    + subst es. apply (sg_once_payload exports_of 6 _ (S_Exports (x0 :: r0))); [exact (sg_stream_wf _ _ _ He2)|lia| |exact Hin|reflexivity].
      intros [] Hs; try reflexivity. discriminate.
    + intros a b _ R. exact (sg_export_rt_id _ _ _ _ _ _ _ _ Hp2 He2 Hf Ht Hm Hg R).
Qed.

(* ====================================================================================== *)
(* E2. start                                                                                *)
(* ====================================================================================== *)
Lemma sg_starts_cases w : (forall f, ~ In (S_Start f) w) \/ exists f, In (S_Start f) w.
Proof.
  induction w as [|x r IH]; [left; intros f []|]. destruct IH as [IH|[f Hf]]; [|right; exists f; right; exact Hf].
  destruct (starts_of x) as [|f0 l0] eqn:Ex.
  - left. intros f' C. destruct C as [C|C]; [subst x; discriminate Ex|exact (IH _ C)].
  - right. destruct x; try discriminate Ex. eexists. left. reflexivity.
Qed.
Lemma sg_no_start_nil w : (forall f, ~ In (S_Start f) w) -> flat_map starts_of w = [].
Proof.
  intros H. apply flat_map_nil. intros s Hs. destruct s; try reflexivity. destruct (H _ Hs).
Qed.
Lemma sg_starts_tag : forall s, has_tag 7 s = false -> starts_of s = [].
Proof. intros [] Hs; try reflexivity. discriminate. Qed.

Theorem fix_start cf ver w ilen s1 e1 s2 e2 : two_trips cf ver w ilen s1 e1 s2 e2 -> rho_id s2 e2 S_func ->
  flat_map starts_of (em_secs e2) = flat_map starts_of (em_secs e1).
Proof.
  intros (Hp1 & He1 & Hp2 & He2) Hf.
  pose proof (sg_stream_wf _ _ _ He1) as W1. pose proof (sg_stream_wf _ _ _ He2) as W2.
  destruct (sg_starts_cases (em_secs e1)) as [Hn|[f Hin]].
  - rewrite (sg_no_start_nil _ Hn). apply sg_no_start_nil.
    apply (structure_no_start _ _ _ _ _ _ _ Hp2 He2 Hn). intros f' [].
  - destruct (structure_start _ _ _ _ _ _ _ f Hp2 He2 W1 Hin) as (f' & Hg & Hin').
    assert (E : f' = f) by (apply (sg_get_id _ _ _ _ _ _ S_func _ _ Hp2 He2); [discriminate|discriminate|exact Hf|exact Hg]). subst f'.
    rewrite (sg_once_payload starts_of 7 _ (S_Start f) W2 ltac:(lia) sg_starts_tag Hin' eq_refl).
    rewrite (sg_once_payload starts_of 7 _ (S_Start f) W1 ltac:(lia) sg_starts_tag Hin eq_refl). reflexivity.
Qed.

(* ====================================================================================== *)
(* E3. element segments                                                                     *)
(* ====================================================================================== *)
Lemma sg_emit_const_ok x c wc : emit_const x c = Ok wc -> wc <> WC_Other.
Proof.
  unfold emit_const. destruct c as [v|g|t|f]; [destruct v| | |]; intros H; try (inversion H; subst; discriminate).
  - destruct (get_idx x S_global g); cbn [rmap] in H; inversion H; discriminate.
  - destruct (get_idx x S_func f); cbn [rmap] in H; inversion H; discriminate.
Qed.

Lemma sg_ren_const_id cf ver w s ilen e c wc : parseM cf ver w = POk s -> emitM (ps_m s) ilen [] = Ok e ->
  rho_id s e S_global -> rho_id s e S_func -> c <> WC_Other -> ren_const (em_x2i e) c wc -> wc = c.
Proof.
  intros Hp He Hg Hf Hc R. destruct c; cbn [ren_const] in R; try exact R; try congruence.
  - destruct R as (j & Hj & ->). f_equal.
    apply (sg_get_id _ _ _ _ _ _ S_global _ _ Hp He); [discriminate|discriminate|exact Hg|exact Hj].
  - destruct R as (j & Hj & ->). f_equal.
    apply (sg_get_id _ _ _ _ _ _ S_func _ _ Hp He); [discriminate|discriminate|exact Hf|exact Hj].
Qed.

(* the form in which the emitter writes an element segment: table 0 of an active segment is implicit
   ([None]), never [Some 0]; no constant is the catch-all [WC_Other] *)
Definition sg_elem_canon (we : welem) : Prop :=
  match wel_kind we with WEK_Active tbl off => tbl <> Some 0%N /\ off <> WC_Other | _ => True end /\
  match wel_items we with WEI_Exprs _ es => Forall (fun c => c <> WC_Other) es | _ => True end.

Lemma sg_emit_elem_canon x e we : emit_elem x e = Ok we -> sg_elem_canon we.
Proof.
  unfold emit_elem. intros E. rinv E as its Eits. rinv E as k Ek. inversion E; subst we; clear E.
  unfold sg_elem_canon. cbn [wel_kind wel_items]. split.
  - destruct (el_kind e) as [| |t off]; try (inversion Ek; exact I).
    rinv Ek as ti Eti. rinv Ek as o Eo. inversion Ek; subst k; clear Ek. split.
    + destruct (N.eqb ti 0) eqn:Ez; [discriminate|]. apply N.eqb_neq in Ez. congruence.
    + exact (sg_emit_const_ok _ _ _ Eo).
  - destruct (el_items e) as [fs|t es].
    + destruct (rmapM (get_idx x S_func) fs) as [l| |]; cbn [rmap] in Eits; inversion Eits; exact I.
    + destruct (rmapM (emit_const x) es) as [l| |] eqn:El; cbn [rmap] in Eits; try discriminate. inversion Eits; subst its.
      apply rmapM_ok_inv in El. clear - El. induction El as [|a b l l' Hab _ IH]; constructor; [exact (sg_emit_const_ok _ _ _ Hab)|exact IH].
Qed.

Lemma sg_Forall2_In_r {A B} (R : A -> B -> Prop) : forall l l' b, Forall2 R l l' -> In b l' -> exists a, In a l /\ R a b.
Proof.
  intros l l' b F. induction F as [|a0 b0 l l' H0 F IH]; intros Hin; [destruct Hin|].
  destruct Hin as [<-|Hin]; [exists a0; split; [left; reflexivity|exact H0]|].
  destruct (IH Hin) as (a & Ha & Hr). exists a. split; [right; exact Ha|exact Hr].
Qed.

Theorem sg_emitted_elems_canon m ilen e : emitM m ilen [] = Ok e -> Forall sg_elem_canon (flat_map elems_of (em_secs e)).
Proof.
  intros He. apply Forall_forall. intros we Hin. apply in_flat_map in Hin. destruct Hin as (sec & Hsec & Hwe).
  destruct sec; try (destruct Hwe; fail). cbn [elems_of] in Hwe. emitM_parts2 He.
  destruct (Etags _ 8 Hsec eq_refl) as [[]|Hs]. cbn [nth] in Hs.
  rewrite emit_elements_unfold in Eel. destruct (aiter (m_elements m)) as [|p0 ps].
  { inversion Eel; subst s_el. destruct Hs. }
  rinv Eel as r Er. inversion Eel; subst s_el x9; clear Eel. destruct Hs as [Hs|[]]. inversion Hs; subst es; clear Hs.
  apply elems_go_entries' in Er. destruct Er as [_ F].
  destruct (sg_Forall2_In_r _ _ _ _ F Hwe) as (p & _ & Hp). exact (sg_emit_elem_canon _ _ _ Hp).
Qed.

(* the fact about e1 asked for: an active segment of an emitted stream never names table 0 explicitly *)
Corollary emitted_elems_canonical_table m ilen e1 : emitM m ilen [] = Ok e1 ->
  forall we tbl off, In we (flat_map elems_of (em_secs e1)) -> wel_kind we = WEK_Active tbl off ->
    tbl = None \/ exists ti, tbl = Some ti /\ ti <> 0%N.
Proof.
  intros He we tbl off Hin Hk. pose proof (sg_emitted_elems_canon _ _ _ He) as F. rewrite Forall_forall in F.
  destruct (F _ Hin) as [C _]. rewrite Hk in C. destruct C as [C _]. destruct tbl as [ti|]; [|left; reflexivity].
  right. exists ti. split; [reflexivity|]. intros ->. apply C. reflexivity.
Qed.

Lemma sg_elem_rt_id cf ver w s ilen e wi wo : parseM cf ver w = POk s -> emitM (ps_m s) ilen [] = Ok e ->
  rho_id s e S_func -> rho_id s e S_table -> rho_id s e S_global ->
  sg_elem_canon wi -> elem_rt (em_x2i e) wi wo -> wo = wi.
Proof.
  intros Hp He Hf Ht Hg [C1 C2] [R1 R2]. destruct wi as [ki ii], wo as [ko io]. cbn [wel_kind wel_items] in *. f_equal.
  - destruct ki as [| |tbl off], ko as [| |tbl' off']; try contradiction; try reflexivity.
    destruct R1 as [(ti & Hti & ->) Ro]. destruct C1 as [Ct Co].
    assert (E : ti = match tbl with Some t => t | None => 0%N end)
      by (apply (sg_get_id _ _ _ _ _ _ S_table _ _ Hp He); [discriminate|discriminate|exact Ht|exact Hti]).
    subst ti. rewrite (sg_ren_const_id _ _ _ _ _ _ _ _ Hp He Hg Hf Co Ro). f_equal.
    destruct tbl as [t|]; [|reflexivity]. destruct (N.eqb t 0) eqn:Ez; [|reflexivity].
    apply N.eqb_eq in Ez. subst t. congruence.
  - destruct ii as [fs|t es], io as [fs'|t' es']; try contradiction.
    + f_equal. apply sg_Forall2_eq in R2; [exact R2|]. intros a b _ Hab.
      apply (sg_get_id _ _ _ _ _ _ S_func _ _ Hp He); [discriminate|discriminate|exact Hf|exact Hab].
    + destruct R2 as [-> F]. f_equal. apply sg_Forall2_eq in F; [exact F|]. intros a b Ha Hab.
      rewrite Forall_forall in C2. exact (sg_ren_const_id _ _ _ _ _ _ _ _ Hp He Hg Hf (C2 _ Ha) Hab).
Qed.

Lemma sg_elems_empty cf ver w s ilen e : parseM cf ver w = POk s -> emitM (ps_m s) ilen [] = Ok e ->
  flat_map elems_of w = [] -> flat_map elems_of (em_secs e) = [].
Proof.
  intros Hp He Hw. pose proof (parseM_elems _ _ _ _ Hp) as HK. rewrite Hw in HK. cbn [map] in HK.
  unfold K_elems in HK. apply map_eq_nil in HK.
  pose proof (parseM_ids _ _ _ _ Hp) as Hid.
  assert (D : dead (m_elements (ps_m s)) = []) by (unfold ids_consistent in Hid; tauto).
  pose proof (aiter_nodead_snd _ D) as HA. rewrite HK in HA. apply map_eq_nil in HA.
  emitM_parts2 He. rewrite emit_elements_unfold, HA in Eel. inversion Eel; subst s_el; clear Eel.
  apply flat_map_nil. intros sec Hin. destruct sec; try reflexivity.
  destruct (Etags _ 8 Hin eq_refl) as [[]|Hs]. cbn [nth] in Hs. destruct Hs.
Qed.

Theorem fix_elems cf ver w ilen s1 e1 s2 e2 : two_trips cf ver w ilen s1 e1 s2 e2 ->
  rho_id s2 e2 S_func -> rho_id s2 e2 S_table -> rho_id s2 e2 S_global ->
  flat_map elems_of (em_secs e2) = flat_map elems_of (em_secs e1).
Proof.
  intros (Hp1 & He1 & Hp2 & He2) Hf Ht Hg.
  pose proof (sg_emitted_elems_canon _ _ _ He1) as CAN.
  destruct (flat_map elems_of (em_secs e1)) as [|x0 r0] eqn:E1.
  - apply (sg_elems_empty _ _ _ _ _ _ Hp2 He2 E1).
  - destruct (structure_elems_gen _ _ _ _ _ _ _ Hp2 He2) as (es & Hin & F); [rewrite E1; discriminate|].
    rewrite E1 in F. apply sg_Forall2_eq in F.
    + subst es. apply (sg_once_payload elems_of 8 _ (S_Elems (x0 :: r0))); [exact (sg_stream_wf _ _ _ He2)|lia| |exact Hin|reflexivity].
      intros [] Hs; try reflexivity. discriminate.
    + intros a b Ha R. rewrite Forall_forall in CAN.
      exact (sg_elem_rt_id _ _ _ _ _ _ _ _ Hp2 He2 Hf Ht Hg (CAN _ Ha) R).
Qed.

(* ====================================================================================== *)
(* E4. data segments and the data count                                                     *)
(* ====================================================================================== *)
Definition sg_pass (p : N * mdata) : bool := match da_kind (snd p) with DK_Passive => true | _ => false end.
Definition sg_data_ok (d : wdata) : Prop := match wd_kind d with WDK_Active _ off => off <> WC_Other | _ => True end.
Definition sg_uses (m : wir) : Prop :=
  exists p lf, In p (aiter (m_funcs m)) /\ fn_kind (snd p) = FK_Local lf /\ uses_data lf = Ok true.

Lemma sg_datas_tag : forall s, has_tag 11 s = false -> datas_of s = [].
Proof. intros [] Hs; try reflexivity. discriminate. Qed.
Lemma sg_dcounts_tag : forall s, has_tag 9 s = false -> dcounts_of s = [].
Proof. intros [] Hs; try reflexivity. discriminate. Qed.
Lemma sg_filter_nil {A} (f : A -> bool) : forall l, (forall a, In a l -> f a = false) -> filter f l = [].
Proof.
  induction l as [|a l IH]; intros H; [reflexivity|]. cbn [filter]. rewrite (H a) by (left; reflexivity).
  apply IH. intros a' Ha'. apply H. right. exact Ha'.
Qed.
Lemma sg_existsb_F2 {A B} (f : A -> bool) (g : B -> bool) : forall l l', Forall2 (fun a b => g b = f a) l l' -> existsb g l' = existsb f l.
Proof. intros l l' F. induction F as [|a b l l' H _ IH]; [reflexivity|]. cbn [existsb]. rewrite H, IH. reflexivity. Qed.

Lemma sg_dcount_cases w : (forall n, ~ In (S_DataCount n) w) \/ exists n, In (S_DataCount n) w.
Proof.
  induction w as [|x r IH]; [left; intros n []|]. destruct IH as [IH|[n Hn]]; [|right; exists n; right; exact Hn].
  destruct (dcounts_of x) as [|n0 l0] eqn:Ex.
  - left. intros n' C. destruct C as [C|C]; [subst x; discriminate Ex|exact (IH _ C)].
  - right. destruct x; try discriminate Ex. eexists. left. reflexivity.
Qed.
Lemma sg_no_dcount_nil w : (forall n, ~ In (S_DataCount n) w) -> flat_map dcounts_of w = [].
Proof. intros H. apply flat_map_nil. intros s Hs. destruct s; try reflexivity. destruct (H _ Hs). Qed.

(* no data segment in the module: neither a data section nor a data count is written *)
Lemma sg_nodata_out m ilen e : emitM m ilen [] = Ok e -> aiter (m_data m) = [] ->
  forall s, In s (em_secs e) -> has_tag 9 s = false /\ has_tag 11 s = false.
Proof.
  intros He Ha s Hin. emitM_parts2 He.
  unfold emit_data_count in Edc. rewrite Ha in Edc. inversion Edc; subst s_dc x10; clear Edc.
  unfold emit_data in Eda. rewrite Ha in Eda. inversion Eda; subst s_da; clear Eda.
  unfold has_tag. destruct (sec_tag s) as [t|] eqn:Et; [|split; reflexivity].
  destruct (Etags _ _ Hin Et) as [[]|Hs].
  split.
  - destruct (Nat.eqb_spec t 9) as [->|]; [cbn [nth] in Hs; destruct Hs|reflexivity].
  - destruct (Nat.eqb_spec t 11) as [->|]; [cbn [nth] in Hs; destruct Hs|reflexivity].
Qed.
Lemma sg_nodata_payloads w : (forall s, In s w -> has_tag 9 s = false /\ has_tag 11 s = false) ->
  flat_map datas_of w = [] /\ flat_map dcounts_of w = [].
Proof.
  intros H. split; apply flat_map_nil; intros s Hs; destruct (H s Hs) as [H9 H11];
    [apply sg_datas_tag; exact H11|apply sg_dcounts_tag; exact H9].
Qed.
(* ... and such a stream parses to a module without data segments *)
Lemma sg_nodata_in cf ver w s : parseM cf ver w = POk s ->
  (forall sec, In sec w -> has_tag 9 sec = false /\ has_tag 11 sec = false) -> aiter (m_data (ps_m s)) = [].
Proof.
  intros Hp H. pose proof (parseM_data _ _ _ _ Hp) as HK. fold kd_step in HK.
  rewrite (fold_kdata_none w []) in HK by (apply sg_filter_nil; intros a Ha; apply (H a Ha)).
  unfold K_data in HK. apply map_eq_nil in HK.
  pose proof (parseM_ids _ _ _ _ Hp) as Hid.
  assert (D : dead (m_data (ps_m s)) = []) by (unfold ids_consistent in Hid; tauto).
  pose proof (aiter_nodead_snd _ D) as HA. rewrite HK in HA. apply map_eq_nil in HA. exact HA.
Qed.

(* a module with data segments: what the emitted stream contains *)
Lemma sg_data_out m ilen e : emitM m ilen [] = Ok e -> aiter (m_data m) <> [] ->
  exists ds, In (S_Data ds) (em_secs e) /\ ds <> [] /\
    Forall2 (fun p d => is_passive d = sg_pass p /\ sg_data_ok d) (aiter (m_data m)) ds /\
    dc_before (em_secs e) ds /\
    (forall n, In (S_DataCount n) (em_secs e) -> n = N.of_nat (length ds)) /\
    ((exists n, In (S_DataCount n) (em_secs e)) <-> (existsb sg_pass (aiter (m_data m)) = true \/ sg_uses m)).
Proof.
  intros He Hne. emitM_parts2 He.
  pose proof (emit_data_count_shape _ _ _ _ Edc) as Hsh.
  pose proof (emit_data_count_iff _ _ _ _ Edc) as Hiff.
  assert (X : exists ds, s_da = [S_Data ds] /\
             Forall2 (fun p d => is_passive d = sg_pass p /\ sg_data_ok d) (aiter (m_data m)) ds).
  { clear - Eda Hne. unfold emit_data in Eda. destruct (aiter (m_data m)) as [|p0 ps]; [congruence|].
    rinv Eda as ds Eds. inversion Eda; subst s_da; clear Eda. apply rmapM_ok_inv in Eds. exists ds. split; [reflexivity|].
    eapply Forall2_impl; [|exact Eds]. cbn beta. intros a b H. unfold is_passive, sg_pass, sg_data_ok.
    destruct (da_kind (snd a)) as [|mem off].
    - inversion H; subst b. cbn [wd_kind]. split; [reflexivity|exact I].
    - rinv H as mi Emi. rinv H as o Eo. inversion H; subst b. cbn [wd_kind]. split; [reflexivity|].
      exact (sg_emit_const_ok _ _ _ Eo). }
  destruct X as (ds & -> & F).
  assert (HL : length (aiter (m_data m)) = length ds) by (eapply Forall2_length; exact F).
  assert (HIN : forall n', In (S_DataCount n') (em_secs e) <-> In (S_DataCount n') s_dc).
  { intros n'. split.
    - intros Hi. destruct (Etags _ 9 Hi eq_refl) as [[]|Hs]. exact Hs.
    - intros Hi. rewrite Esecs, !in_app_iff. do 9 right. left. exact Hi. }
  assert (HV : forall n, In (S_DataCount n) (em_secs e) -> n = N.of_nat (length ds)).
  { intros n Hi. apply HIN in Hi. destruct Hsh as [->| ->]; [destruct Hi|]. destruct Hi as [Hi|[]].
    inversion Hi. unfold len_N. rewrite HL. reflexivity. }
  exists ds. split; [rewrite Esecs, !in_app_iff; do 11 right; left; left; reflexivity|].
  split; [intros ->; destruct (aiter (m_data m)); [congruence|discriminate HL]|].
  split; [exact F|]. split; [|split; [exact HV|]].
  - intros n Hi. pose proof (HV n Hi) as En. split; [subst n; apply Nat2N.id|].
    apply HIN in Hi. destruct Hsh as [->| Hsh]; [destruct Hi|]. rewrite Hsh in Hi. destruct Hi as [Hi|[]].
    exists (s_ty ++ s_im ++ s_fn ++ fst (emit_tables m x3) ++ fst (emit_memories m x4) ++ s_gl ++ s_ex ++ s_st ++ s_el),
           (s_co ++ [S_Data ds] ++ rest).
    split.
    + rewrite Esecs, Hsh, Hi, <- !app_assoc. reflexivity.
    + rewrite !in_app_iff. right. left. left. reflexivity.
  - split.
    + intros [n Hi]. apply HIN in Hi. apply Hiff. intros C. rewrite C in Hi. destruct Hi.
    + intros Hc. assert (Hs : s_dc <> []) by (apply Hiff; split; [exact Hne|exact Hc]).
      destruct Hsh as [->| ->]; [congruence|]. eexists. apply HIN. left. reflexivity.
Qed.

Lemma sg_data_rt_id cf ver w s ilen e wi wo : parseM cf ver w = POk s -> emitM (ps_m s) ilen [] = Ok e ->
  rho_id s e S_memory -> rho_id s e S_global -> rho_id s e S_func ->
  sg_data_ok wi -> data_rt (em_x2i e) wi wo -> wo = wi.
Proof.
  intros Hp He Hm Hg Hf C [R1 R2]. destruct wi as [ki bi], wo as [ko bo]. unfold sg_data_ok in C. cbn [wd_kind wd_bytes] in *.
  subst bo. f_equal. destruct ki as [|mi off], ko as [|mi' off']; try contradiction; try reflexivity.
  destruct R2 as [Hmi Ro]. rewrite (sg_ren_const_id _ _ _ _ _ _ _ _ Hp He Hg Hf C Ro). f_equal.
  apply (sg_get_id _ _ _ _ _ _ S_memory _ _ Hp He); [discriminate|discriminate|exact Hm|exact Hmi].
Qed.

Theorem fix_data cf ver w ilen s1 e1 s2 e2 : two_trips cf ver w ilen s1 e1 s2 e2 ->
  rho_id s2 e2 S_memory -> rho_id s2 e2 S_global -> rho_id s2 e2 S_func ->
  flat_map datas_of (em_secs e2) = flat_map datas_of (em_secs e1).
Proof.
  intros (Hp1 & He1 & Hp2 & He2) Hm Hg Hf.
  pose proof (sg_stream_wf _ _ _ He1) as W1. pose proof (sg_stream_wf _ _ _ He2) as W2.
  destruct (aiter (m_data (ps_m s1))) as [|p0 ps] eqn:Ha.
  - pose proof (sg_nodata_out _ _ _ He1 Ha) as N1. pose proof (sg_nodata_in _ _ _ _ Hp2 N1) as Ha2.
    pose proof (sg_nodata_out _ _ _ He2 Ha2) as N2.
    rewrite (proj1 (sg_nodata_payloads _ N1)), (proj1 (sg_nodata_payloads _ N2)). reflexivity.
  - destruct (sg_data_out _ _ _ He1) as (ds1 & Hin1 & Hne1 & F1 & Hdc1 & _); [rewrite Ha; discriminate|].
    destruct (structure_data _ _ _ _ _ _ _ _ Hp2 He2 W1 Hin1 Hdc1 Hne1) as (ds2 & Hin2 & F2).
    assert (E : ds2 = ds1).
    { apply sg_Forall2_eq in F2; [exact F2|]. intros a b Ha' R.
      destruct (sg_Forall2_In_r _ _ _ _ F1 Ha') as (p & _ & _ & Hok).
      exact (sg_data_rt_id _ _ _ _ _ _ _ _ Hp2 He2 Hm Hg Hf Hok R). }
    subst ds2.
    rewrite (sg_once_payload datas_of 11 _ (S_Data ds1) W2 ltac:(lia) sg_datas_tag Hin2 eq_refl).
    rewrite (sg_once_payload datas_of 11 _ (S_Data ds1) W1 ltac:(lia) sg_datas_tag Hin1 eq_refl). reflexivity.
Qed.

(* the data count.  The section is written iff some segment is passive or some local function body
   uses a data segment (memory.init / data.drop); the first is a property of the data payload, the
   second of the BODIES, so it is a premise here: the two parsed modules agree on it. *)
Theorem fix_data_count cf ver w ilen s1 e1 s2 e2 : two_trips cf ver w ilen s1 e1 s2 e2 ->
  (sg_uses (ps_m s2) <-> sg_uses (ps_m s1)) ->
  flat_map dcounts_of (em_secs e2) = flat_map dcounts_of (em_secs e1).
Proof.
  intros (Hp1 & He1 & Hp2 & He2) Hu.
  pose proof (sg_stream_wf _ _ _ He1) as W1. pose proof (sg_stream_wf _ _ _ He2) as W2.
  destruct (aiter (m_data (ps_m s1))) as [|p0 ps] eqn:Ha.
  - pose proof (sg_nodata_out _ _ _ He1 Ha) as N1. pose proof (sg_nodata_in _ _ _ _ Hp2 N1) as Ha2.
    pose proof (sg_nodata_out _ _ _ He2 Ha2) as N2.
    rewrite (proj2 (sg_nodata_payloads _ N1)), (proj2 (sg_nodata_payloads _ N2)). reflexivity.
  - destruct (sg_data_out _ _ _ He1) as (ds1 & Hin1 & Hne1 & F1 & Hdc1 & HV1 & Hiff1); [rewrite Ha; discriminate|].
    destruct (structure_data_count _ _ _ _ _ [] _ _ Hp2 He2 W1 Hin1 Hdc1 Hne1) as (HV2 & Hiff2); [intros n []|].
    fold (sg_uses (ps_m s2)) in Hiff2.
    assert (HP : existsb is_passive ds1 = existsb sg_pass (aiter (m_data (ps_m s1)))).
    { apply sg_existsb_F2. eapply Forall2_impl; [|exact F1]. cbn beta. intros a b [H _]. exact H. }
    rewrite HP in Hiff2.
    assert (EX : (exists n, In (S_DataCount n) (em_secs e2)) <-> (exists n, In (S_DataCount n) (em_secs e1))).
    { rewrite Hiff1, Hiff2, Hu. reflexivity. }
    destruct (sg_dcount_cases (em_secs e1)) as [Hn1|[n1 Hi1]].
    + assert (Hn2 : forall n, ~ In (S_DataCount n) (em_secs e2)).
      { intros n Hi. destruct (proj1 EX (ex_intro _ n Hi)) as [n' Hi']. exact (Hn1 _ Hi'). }
      rewrite (sg_no_dcount_nil _ Hn1), (sg_no_dcount_nil _ Hn2). reflexivity.
    + destruct (proj2 EX (ex_intro _ n1 Hi1)) as [n2 Hi2].
      pose proof (HV1 _ Hi1) as E1. pose proof (HV2 _ Hi2) as E2. subst n1 n2.
      rewrite (sg_once_payload dcounts_of 9 _ _ W2 ltac:(lia) sg_dcounts_tag Hi2 eq_refl).
      rewrite (sg_once_payload dcounts_of 9 _ _ W1 ltac:(lia) sg_dcounts_tag Hi1 eq_refl). reflexivity.
Qed.

(* the premise of [fix_data_count] in other forms *)
Definition sg_uses_flag (p : N * mfunc) : res bool := match fn_kind (snd p) with FK_Local lf => uses_data lf | _ => Ok false end.
(* (a) as the flags computed by emit_data_count *)
Lemma sg_uses_flags m us : rmapM sg_uses_flag (aiter (m_funcs m)) = Ok us -> (existsb (fun b => b) us = true <-> sg_uses m).
Proof.
  intros Eu. rewrite existsb_id_In, (rmapM_In _ _ _ Eu true). unfold sg_uses. split.
  - intros (p & Hp & E). unfold sg_uses_flag in E. destruct (fn_kind (snd p)) as [? ?|lf|?] eqn:Ek; try discriminate E.
    exists p, lf. auto.
  - intros (p & lf & Hp & Ek & E). exists p. split; [exact Hp|]. unfold sg_uses_flag. rewrite Ek. exact E.
Qed.
Corollary fix_data_count_flags cf ver w ilen s1 e1 s2 e2 us1 us2 : two_trips cf ver w ilen s1 e1 s2 e2 ->
  rmapM sg_uses_flag (aiter (m_funcs (ps_m s1))) = Ok us1 -> rmapM sg_uses_flag (aiter (m_funcs (ps_m s2))) = Ok us2 ->
  existsb (fun b => b) us2 = existsb (fun b => b) us1 ->
  flat_map dcounts_of (em_secs e2) = flat_map dcounts_of (em_secs e1).
Proof.
  intros H E1 E2 Hu. apply (fix_data_count _ _ _ _ _ _ _ _ H).
  rewrite <- (sg_uses_flags _ _ E1), <- (sg_uses_flags _ _ E2), Hu. reflexivity.
Qed.
(* (b) it only depends on the list of function kinds *)
Lemma sg_uses_kinds m : sg_uses m <->
  exists lf, In (FK_Local lf) (map (fun p => fn_kind (snd p)) (aiter (m_funcs m))) /\ uses_data lf = Ok true.
Proof.
  unfold sg_uses. split.
  - intros (p & lf & Hp & Ek & E). exists lf. split; [|exact E]. apply in_map_iff. exists p. split; [exact Ek|exact Hp].
  - intros (lf & Hin & E). apply in_map_iff in Hin. destruct Hin as (p & Ek & Hp). exists p, lf. auto.
Qed.
Corollary fix_data_count_kinds cf ver w ilen s1 e1 s2 e2 : two_trips cf ver w ilen s1 e1 s2 e2 ->
  map (fun p => fn_kind (snd p)) (aiter (m_funcs (ps_m s2))) = map (fun p => fn_kind (snd p)) (aiter (m_funcs (ps_m s1))) ->
  flat_map dcounts_of (em_secs e2) = flat_map dcounts_of (em_secs e1).
Proof.
  intros H Hk. apply (fix_data_count _ _ _ _ _ _ _ _ H). rewrite !sg_uses_kinds, Hk. reflexivity.
Qed.

Print Assumptions sg_stream_wf.
Print Assumptions emitted_elems_canonical_table.
Print Assumptions fix_exports.
Print Assumptions fix_start.
Print Assumptions fix_elems.
Print Assumptions fix_data.
Print Assumptions fix_data_count.
Print Assumptions fix_data_count_flags.
Print Assumptions fix_data_count_kinds.
