(* The GC pass with its last step: gc m = gc_sweep m ;; declare_referenced_funcs.
   Frame lemmas of the new step, the new theorems (everything `ref.func`-ed by a kept body is declared
   after the pass; the sweep alone leaves undeclared references), and every GC theorem surfaced in Props/
   lifted from [gc_sweep] to [gc] under the name <old name>_full. *)
From Coq Require Import List NArith ZArith Bool Arith Lia Permutation Sorted.
Import ListNotations.
From WV Require Import Gen.Ops Model.Common Model.IR Model.Arena Model.Traversal Model.EmitFn Model.Locals
                       Model.ParseFn Model.ModuleM Model.ParseM Model.EmitM Model.GC.
From WV Require Import Proofs.Arena Proofs.Order Proofs.IndexMaps Proofs.Totality.
From WV Require Proofs.GC.
Local Open Scope nat_scope.

(* ====================================================================================== *)
(* 1. Frame lemmas of [declare_referenced_funcs]                                            *)
(* ====================================================================================== *)
Definition decl_seg (fs : list N) : melem := {| el_kind := ELK_Declared; el_items := ELI_Funcs fs; el_name := None |}.

(* the step either does nothing or allocates one declared segment *)
Lemma declare_inv m m' : declare_referenced_funcs m = Ok m' ->
  exists fs, undeclared_funcs m = Ok fs /\
    ((fs = [] /\ m' = m) \/
     (fs <> [] /\ m' = set_elements m (fst (aalloc (m_elements m) (decl_seg fs))))).
Proof.
  unfold declare_referenced_funcs. destruct (undeclared_funcs m) as [fs| |]; cbn [rmap]; intros H; try discriminate H.
  injection H as <-. exists fs. split; [reflexivity|]. destruct fs as [|f r]; [left; auto|right].
  split; [discriminate|reflexivity].
Qed.

Theorem declare_frame m m' : declare_referenced_funcs m = Ok m' ->
  (m_imports m' = m_imports m /\ m_tables m' = m_tables m /\ m_types m' = m_types m /\ m_funcs m' = m_funcs m /\
   m_globals m' = m_globals m /\ m_locals m' = m_locals m /\ m_exports m' = m_exports m /\ m_memories m' = m_memories m /\
   m_data m' = m_data m /\ m_start m' = m_start m /\ m_producers m' = m_producers m /\ m_customs m' = m_customs m /\
   m_debug m' = m_debug m /\ m_name m' = m_name m /\ m_config m' = m_config m /\
   m_code_section_offset m' = m_code_section_offset m) /\
  exists fs, undeclared_funcs m = Ok fs /\
    ((fs = [] /\ m_elements m' = m_elements m) \/
     (fs <> [] /\ m_elements m' = fst (aalloc (m_elements m) (decl_seg fs)))).
Proof.
  intros H. destruct (declare_inv m m' H) as [fs [Hu [[-> ->]|[Hne ->]]]].
  - split; [repeat split|]. exists []. split; [exact Hu|left; auto].
  - split; [repeat split|]. exists fs. split; [exact Hu|right; auto].
Qed.

(* allocation appends *)
Lemma aalloc_fst {A} (a : tarena A) v : fst (aalloc a v) = {| items := items a ++ [v]; dead := dead a |}.
Proof. reflexivity. Qed.
Lemma aalloc_snd {A} (a : tarena A) v : snd (aalloc a v) = anext a.
Proof. reflexivity. Qed.
Lemma aalloc_dead {A} (a : tarena A) v : dead (fst (aalloc a v)) = dead a.
Proof. reflexivity. Qed.
Lemma aalloc_items {A} (a : tarena A) v : items (fst (aalloc a v)) = items a ++ [v].
Proof. reflexivity. Qed.
Lemma aalloc_old {A} (a : tarena A) v id x : aget a id = Some x -> aget (fst (aalloc a v)) id = Some x.
Proof. rewrite aalloc_fst. apply aget_app_old. Qed.
Lemma aalloc_inv {A} (a : tarena A) v id x : aget (fst (aalloc a v)) id = Some x ->
  aget a id = Some x \/ (id = anext a /\ x = v).
Proof. rewrite aalloc_fst. apply aget_app_inv. Qed.

(* an arena whose tombstones are all allocated ids (every arena the real code can build) *)
Definition dead_in_range {A} (a : tarena A) : Prop := Forall (fun d => d < length (items a)) (dead a).

Lemma aalloc_new {A} (a : tarena A) v : dead_in_range a -> aget (fst (aalloc a v)) (anext a) = Some v.
Proof.
  intros Hd. rewrite aalloc_fst. unfold aget, index, get, anext, next_id. cbn [items dead]. rewrite Nat2N.id.
  replace (is_dead {| items := items a ++ [v]; dead := dead a |} (length (items a))) with false.
  - rewrite nth_error_app2, Nat.sub_diag by lia. reflexivity.
  - symmetry. unfold is_dead. cbn [dead]. destruct (existsb (Nat.eqb (length (items a))) (dead a)) eqn:E; [|reflexivity].
    apply existsb_exists in E. destruct E as [d [Hin He]]. apply Nat.eqb_eq in He. subst d.
    unfold dead_in_range in Hd. rewrite Forall_forall in Hd. apply Hd in Hin. lia.
Qed.
Lemma aalloc_old_none {A} (a : tarena A) : aget a (anext a) = None.
Proof.
  unfold aget, index, get, anext, next_id. rewrite Nat2N.id. destruct (is_dead a (length (items a))); [reflexivity|].
  apply nth_error_None. lia.
Qed.
Lemma aalloc_dead_in_range {A} (a : tarena A) v : dead_in_range a -> dead_in_range (fst (aalloc a v)).
Proof.
  unfold dead_in_range. rewrite aalloc_dead, aalloc_items, app_length. cbn [length].
  intros H. eapply Forall_impl; [|exact H]. cbn. intros; lia.
Qed.

(* the elements of the result *)
Lemma declare_elements m m' : declare_referenced_funcs m = Ok m' ->
  (forall id e, aget (m_elements m) id = Some e -> aget (m_elements m') id = Some e) /\
  dead (m_elements m') = dead (m_elements m) /\
  exists fs, undeclared_funcs m = Ok fs /\
    forall id e, aget (m_elements m') id = Some e ->
      aget (m_elements m) id = Some e \/ (fs <> [] /\ id = anext (m_elements m) /\ e = decl_seg fs).
Proof.
  intros H. destruct (declare_inv m m' H) as [fs [Hu [[-> ->]|[Hne ->]]]].
  - split; [auto|]. split; [reflexivity|]. exists []. split; [exact Hu|]. auto.
  - wcbn. split; [intros id e; apply aget_app_old|]. split; [reflexivity|]. exists fs. split; [exact Hu|].
    intros id e Hg. apply aget_app_inv in Hg. destruct Hg as [Hg|[-> ->]]; [left; exact Hg|right; auto].
Qed.

(* ====================================================================================== *)
(* 2. `ref.func f` in a traversal log is followed by the visit of f                          *)
(* ====================================================================================== *)
Definition rf_ok (evs : list ev) : Prop :=
  forall f loc, In (EInstr (IPlain (P_RefFunc f)) loc) evs -> In (ERef S_func f) evs.

Lemma rf_app a b : rf_ok a -> rf_ok b -> rf_ok (a ++ b).
Proof. intros Ha Hb f loc H. apply in_app_or in H. apply in_or_app. destruct H; [left; eapply Ha|right; eapply Hb]; eauto. Qed.
Lemma rf_nil : rf_ok [].
Proof. intros f loc []. Qed.

Lemma field_events_no_instr i j l : In (EInstr j l) (field_events i) -> False.
Proof.
  destruct i; cbn [field_events]; intros H; apply in_map_iff in H; destruct H as [? [? ?]]; discriminate.
Qed.

Lemma rf_here i loc : rf_ok (EInstr i loc :: instr_visit default_hook_recurses false i).
Proof.
  intros f loc' [H|H].
  - injection H as -> _. right. unfold instr_visit. right. apply in_or_app. right.
    change (In (ERef S_func f) [ERef S_func f]). left; reflexivity.
  - exfalso. unfold instr_visit in H. destruct H as [H|H]; [discriminate|].
    apply in_app_or in H. destruct H as [H|H].
    + destruct (negb false && default_hook_recurses); [eapply field_events_no_instr; eauto|destruct H].
    + destruct visit_fields_after_hook; [eapply field_events_no_instr; eauto|destruct H].
Qed.

Lemma scan_rf : forall l idx evs r, scan false l idx = (evs, r) -> rf_ok evs.
Proof.
  induction l as [|[i loc] l IH]; intros idx evs r H; cbn [scan] in H.
  - injection H as <- _. apply rf_nil.
  - destruct i;
      try (destruct (scan false l (S idx)) as [e r'] eqn:E; apply (f_equal fst) in H; cbn [fst] in H; subst evs;
           match goal with |- rf_ok (?a ++ ?b) => apply (rf_app a b) end; [apply rf_here|eapply IH; eauto]);
      try (apply (f_equal fst) in H; cbn [fst] in H; subst evs; apply rf_here).
Qed.

Lemma run_dfs_rf : forall fuel ar stack evs, run_dfs false fuel ar stack = Ok evs -> rf_ok evs.
Proof.
  induction fuel as [|k IH]; intros ar stack evs H; cbn [run_dfs] in H; [discriminate|].
  destruct stack as [|[sid idx] rest]; [injection H as <-; apply rf_nil|].
  destruct (nth_error ar (N.to_nat sid)) as [q|]; [|discriminate].
  assert (Hpre : rf_ok (if Nat.eqb idx 0 then EStart sid :: seq_visit q else [])).
  { destruct (Nat.eqb idx 0); [|apply rf_nil]. unfold seq_visit. intros f loc [Hx|Hx]; [discriminate|].
    destruct (sq_ty q); [destruct Hx|destruct Hx as [Hx|[]]; discriminate]. }
  destruct (scan false (skipn idx (sq_instrs q)) idx) as [evs0 [[ridx kids]|]] eqn:Es.
  - destruct (run_dfs false k ar _) as [r| |] eqn:Er; cbn [rmap] in H; try discriminate. injection H as <-.
    apply rf_app; [exact Hpre|]. apply rf_app; [eapply scan_rf; eauto|eapply IH; eauto].
  - destruct (run_dfs false k ar rest) as [r| |] eqn:Er; cbn [rmap] in H; try discriminate. injection H as <-.
    apply rf_app; [exact Hpre|]. apply rf_app; [eapply scan_rf; eauto|]. apply (rf_app [EEnd sid] r); [|eapply IH; eauto].
    intros f loc [Hx|[]]. discriminate.
Qed.

Lemma lf_log_rf lf evs : lf_log lf = Ok evs -> rf_ok evs.
Proof. unfold lf_log, dfs_in_order. apply run_dfs_rf. Qed.

Lemma ref_of_ev e f :
  In f (match e with EInstr (IPlain (P_RefFunc g)) _ => [g] | _ => [] end) -> exists loc, e = EInstr (IPlain (P_RefFunc f)) loc.
Proof.
  destruct e as [s|ty|i loc|i|sp id|s|s]; try (intros []).
  destruct i as [p|s|s|c a|s|s|ss d]; try (intros []).
  destruct p; try (intros []; fail). intros [<-|[]]. eauto.
Qed.

Lemma ref_funcs_of_log_In evs f :
  In f (ref_funcs_of_log evs) <-> exists loc, In (EInstr (IPlain (P_RefFunc f)) loc) evs.
Proof.
  unfold ref_funcs_of_log. rewrite in_flat_map. split.
  - intros [e [He Hf]]. destruct (ref_of_ev e f Hf) as [loc ->]. eauto.
  - intros [loc H]. exists (EInstr (IPlain (P_RefFunc f)) loc). split; [exact H|left; reflexivity].
Qed.

Lemma log_ref_func_visited lf evs f : lf_log lf = Ok evs -> In f (ref_funcs_of_log evs) -> In (ERef S_func f) evs.
Proof. intros Hl Hf. apply ref_funcs_of_log_In in Hf. destruct Hf as [loc Hf]. eapply lf_log_rf; eauto. Qed.

(* ====================================================================================== *)
(* 3. [referenced_funcs], [undeclared_funcs]: membership; what they depend on               *)
(* ====================================================================================== *)
Lemma Forall2_in_r {A B} (R : A -> B -> Prop) l bs : Forall2 R l bs -> forall b, In b bs -> exists a, In a l /\ R a b.
Proof.
  induction 1 as [|a b l bs Hab HF IH]; intros x Hx; [destruct Hx|].
  destruct Hx as [<-|Hx]; [exists a; split; [left; reflexivity|exact Hab]|].
  destruct (IH x Hx) as [a' [Ha' Hr]]. exists a'. split; [right; exact Ha'|exact Hr].
Qed.
Lemma Forall2_in_l {A B} (R : A -> B -> Prop) l bs : Forall2 R l bs -> forall a, In a l -> exists b, In b bs /\ R a b.
Proof.
  induction 1 as [|a b l bs Hab HF IH]; intros x Hx; [destruct Hx|].
  destruct Hx as [<-|Hx]; [exists b; split; [left; reflexivity|exact Hab]|].
  destruct (IH x Hx) as [b' [Hb' Hr]]. exists b'. split; [right; exact Hb'|exact Hr].
Qed.

Definition refs_of_fn (p : N * mfunc) : res (list N) :=
  match fn_kind (snd p) with FK_Local lf => rmap ref_funcs_of_log (lf_log lf) | _ => Ok [] end.

Lemma referenced_funcs_inv m refd : referenced_funcs m = Ok refd ->
  exists ls, rmapM refs_of_fn (aiter (m_funcs m)) = Ok ls /\ refd = concat ls.
Proof.
  unfold referenced_funcs. fold refs_of_fn. destruct (rmapM refs_of_fn (aiter (m_funcs m))) as [ls| |]; cbn [rmap]; intros H; try discriminate H.
  injection H as <-. eauto.
Qed.

(* f is referenced iff some live local function has `ref.func f` in its traversal log *)
Lemma referenced_funcs_In m refd f : referenced_funcs m = Ok refd ->
  (In f refd <-> exists id fn lf evs, aget (m_funcs m) id = Some fn /\ fn_kind fn = FK_Local lf /\
                                      lf_log lf = Ok evs /\ In f (ref_funcs_of_log evs)).
Proof.
  intros H. destruct (referenced_funcs_inv m refd H) as [ls [El ->]]. apply rmapM_ok_inv in El. split.
  - intros Hf. apply in_concat in Hf. destruct Hf as [l0 [Hl0 Hf]].
    destruct (Forall2_in_r _ _ _ El l0 Hl0) as [[id fn] [Hp Hr]]. unfold refs_of_fn in Hr. cbn [snd] in Hr.
    destruct (fn_kind fn) as [i ty|lf|ty] eqn:Ek.
    + injection Hr as <-. destruct Hf.
    + destruct (lf_log lf) as [evs| |] eqn:Elog; cbn [rmap] in Hr; try discriminate Hr. injection Hr as <-.
      exists id, fn, lf, evs. split; [apply aiter_aget; exact Hp|auto].
    + injection Hr as <-. destruct Hf.
  - intros (id & fn & lf & evs & Hg & Hk & Hl & Hf). apply aiter_aget in Hg.
    destruct (Forall2_in_l _ _ _ El _ Hg) as [l0 [Hl0 Hr]]. unfold refs_of_fn in Hr. cbn [snd] in Hr.
    rewrite Hk, Hl in Hr. cbn [rmap] in Hr. injection Hr as <-. apply in_concat. eauto.
Qed.

Lemma undeclared_funcs_inv m fs : undeclared_funcs m = Ok fs ->
  exists refd, referenced_funcs m = Ok refd /\
               fs = sort_ids (filter (fun f => negb (existsb (N.eqb f) (declared_funcs m))) refd).
Proof.
  unfold undeclared_funcs. destruct (referenced_funcs m) as [refd| |]; cbn [rmap]; intros H; try discriminate H.
  injection H as <-. eauto.
Qed.

Lemma existsb_eqb_In f l : existsb (N.eqb f) l = true <-> In f l.
Proof.
  rewrite existsb_exists. split.
  - intros [x [Hx He]]. apply N.eqb_eq in He. subst. exact Hx.
  - intros H. exists f. split; [exact H|apply N.eqb_refl].
Qed.

Lemma undeclared_funcs_In m fs refd f : undeclared_funcs m = Ok fs -> referenced_funcs m = Ok refd ->
  (In f fs <-> In f refd /\ ~ In f (declared_funcs m)).
Proof.
  intros Hu Hr. destruct (undeclared_funcs_inv m fs Hu) as [refd' [Hr' ->]]. rewrite Hr in Hr'. injection Hr' as <-.
  rewrite sort_ids_members, filter_In, negb_true_iff. rewrite <- (existsb_eqb_In f (declared_funcs m)).
  destruct (existsb (N.eqb f) (declared_funcs m)); split; intros [H1 H2]; (split; [exact H1|]).
  - discriminate H2.
  - exfalso; apply H2; reflexivity.
  - intros H3; discriminate H3.
  - reflexivity.
Qed.

Lemma undeclared_funcs_nil m refd : referenced_funcs m = Ok refd ->
  (forall f, In f refd -> In f (declared_funcs m)) -> undeclared_funcs m = Ok [].
Proof.
  intros Hr H. unfold undeclared_funcs. rewrite Hr. cbn [rmap]. f_equal.
  replace (filter (fun f => negb (existsb (N.eqb f) (declared_funcs m))) refd) with (@nil N); [reflexivity|].
  symmetry. clear Hr. induction refd as [|x r IH]; [reflexivity|]. cbn [filter].
  replace (existsb (N.eqb x) (declared_funcs m)) with true by (symmetry; apply existsb_eqb_In, H; left; reflexivity).
  cbn [negb]. apply IH. intros f Hf; apply H; right; exact Hf.
Qed.

(* [referenced_funcs] reads the function arena only *)
Lemma referenced_funcs_congr m m' : m_funcs m' = m_funcs m -> referenced_funcs m' = referenced_funcs m.
Proof. unfold referenced_funcs. intros ->. reflexivity. Qed.

(* ====================================================================================== *)
(* 4. After the sweep every `ref.func`-ed function of a kept body is a kept function         *)
(* ====================================================================================== *)
Lemma succ_func_live m f ys : succ m (S_func, f) = Ok ys -> liveF m f.
Proof.
  unfold succ. cbn [fst snd]. destruct (aget (m_funcs m) f) as [v|] eqn:E; [|discriminate]. intros _. exists v. exact E.
Qed.

Theorem sweep_referenced_live m m1 refd : gc_sweep m = Ok m1 -> referenced_funcs m1 = Ok refd ->
  forall f, In f refd -> liveF m1 f.
Proof.
  intros Hg Hr f Hf. destruct (gc_shape m m1 Hg) as [u [Hu R]].
  destruct (used_closed' m u Hu) as [rs [Hroots [Hrs K]]].
  apply (referenced_funcs_In m1 refd f Hr) in Hf. destruct Hf as (id & fn & lf & evs & Hget & Hk & Hl & Hf).
  apply (gr_funcs _ _ _ R) in Hget. destruct Hget as [Hget Hin].
  destruct (K _ Hin) as [ys [Hys Hsub]]; [discriminate|discriminate|].
  assert (Hfu : In (S_func, f) u).
  { apply Hsub. unfold succ in Hys. cbn [fst snd] in Hys. rewrite Hget, Hk, Hl in Hys. cbn [rmap] in Hys.
    injection Hys as <-. right. apply in_flat_map. exists (ERef S_func f). split; [|left; reflexivity].
    eapply log_ref_func_visited; eauto. }
  destruct (K _ Hfu) as [ys' [Hys' _]]; [discriminate|discriminate|].
  destruct (succ_func_live m f ys' Hys') as [v Hv]. exists v. apply (gr_funcs _ _ _ R). auto.
Qed.

(* ====================================================================================== *)
(* 5. The shape of a successful [gc]                                                        *)
(* ====================================================================================== *)
Lemma gc_inv_full m m' : gc m = Ok m' -> exists m1, gc_sweep m = Ok m1 /\ declare_referenced_funcs m1 = Ok m'.
Proof.
  unfold gc. destruct (gc_sweep m) as [m1| |]; cbn [rbind]; intros H; try discriminate H. eauto.
Qed.

(* the new step preserves module-level referential integrity as soon as the referenced functions are live *)
Lemma declare_closed m m' : closed m ->
  (forall refd, referenced_funcs m = Ok refd -> forall f, In f refd -> liveF m f) ->
  declare_referenced_funcs m = Ok m' -> closed m'.
Proof.
  intros C Hlive H. destruct (declare_inv m m' H) as [fs [Hu [[-> ->]|[Hne ->]]]]; [exact C|].
  destruct (undeclared_funcs_inv m fs Hu) as [refd [Hr Efs]].
  constructor.
  - exact (cl_imports m C).
  - exact (cl_func_imp m C).
  - exact (cl_table_imp m C).
  - exact (cl_mem_imp m C).
  - exact (cl_global_imp m C).
  - exact (cl_func_ty m C).
  - exact (cl_globals m C).
  - exact (cl_exports m C).
  - exact (cl_start m C).
  - intros id e Hg. wcbn. apply aget_app_inv in Hg. destruct Hg as [Hg|[-> ->]].
    + exact (cl_elements m C id e Hg).
    + cbn [decl_seg el_items el_kind]. split; [|exact I]. intros f Hf.
      apply (Hlive refd Hr). rewrite Efs in Hf. apply sort_ids_members, filter_In in Hf. apply Hf.
  - exact (cl_data m C).
Qed.

Lemma declare_no_func_offsets m m' : no_func_offsets m -> declare_referenced_funcs m = Ok m' -> no_func_offsets m'.
Proof.
  intros [NFe NFd] H. destruct (declare_inv m m' H) as [fs [Hu [[-> ->]|[Hne ->]]]]; [split; assumption|].
  split.
  - intros id e t f Hg. wcbn. apply aget_app_inv in Hg. destruct Hg as [Hg|[-> ->]]; [eapply NFe; eauto|discriminate].
  - exact NFd.
Qed.

(* closedness is preserved by the whole pass (same corner as for the sweep: no `ref.func` segment offsets) *)
Theorem gc_closed_partial_full m m' : closed m -> no_func_offsets m -> gc m = Ok m' -> closed m'.
Proof.
  intros C NF H. destruct (gc_inv_full m m' H) as [m1 [Hs Hd]].
  eapply declare_closed; [eapply gc_closed_partial; eauto| |exact Hd].
  intros refd Hr. eapply sweep_referenced_live; eauto.
Qed.
Lemma gc_no_func_offsets_full m m' : no_func_offsets m -> gc m = Ok m' -> no_func_offsets m'.
Proof.
  intros NF H. destruct (gc_inv_full m m' H) as [m1 [Hs Hd]].
  eapply declare_no_func_offsets; [|exact Hd]. eapply gc_no_func_offsets; eauto.
Qed.

(* ====================================================================================== *)
(* 6. After the pass every referenced function is declared                                  *)
(* ====================================================================================== *)
Definition elem_funcs (e : melem) : list N :=
  match el_items e with
  | ELI_Funcs fs => fs
  | ELI_Exprs _ es => flat_map (fun c => match c with MC_RefFunc f => [f] | _ => [] end) es
  end.

Lemma declared_elem m id e f : aget (m_elements m) id = Some e -> In f (elem_funcs e) -> In f (declared_funcs m).
Proof.
  intros Hg Hf. unfold declared_funcs. apply in_or_app. right. apply in_or_app. left.
  apply in_flat_map. exists (id, e). split; [apply aiter_aget; exact Hg|exact Hf].
Qed.

Lemma declared_mono m m' : m_exports m' = m_exports m -> m_globals m' = m_globals m ->
  (forall id e, aget (m_elements m) id = Some e -> aget (m_elements m') id = Some e) ->
  incl (declared_funcs m) (declared_funcs m').
Proof.
  intros Ex Eg He f Hf. unfold declared_funcs in *. rewrite Ex, Eg. apply in_app_or in Hf. apply in_or_app.
  destruct Hf as [Hf|Hf]; [left; exact Hf|right]. apply in_app_or in Hf. apply in_or_app.
  destruct Hf as [Hf|Hf]; [left|right; exact Hf]. apply in_flat_map in Hf. destruct Hf as [[id e] [Hp Hf]].
  apply in_flat_map. exists (id, e). split; [|exact Hf]. apply aiter_aget, He, aiter_aget, Hp.
Qed.

(* the declare step establishes its postcondition when the element arena is well formed *)
Theorem declare_declares_all m m' : dead_in_range (m_elements m) ->
  declare_referenced_funcs m = Ok m' -> undeclared_funcs m' = Ok [].
Proof.
  intros Hd H. destruct (declare_inv m m' H) as [fs [Hu [[-> ->]|[Hne ->]]]]; [exact Hu|].
  destruct (undeclared_funcs_inv m fs Hu) as [refd [Hr Efs]].
  set (m' := set_elements m (fst (aalloc (m_elements m) (decl_seg fs)))).
  assert (Hr' : referenced_funcs m' = Ok refd) by (rewrite <- Hr; apply referenced_funcs_congr; reflexivity).
  apply (undeclared_funcs_nil m' refd Hr'). intros f Hf.
  destruct (in_dec N.eq_dec f (declared_funcs m)) as [Hdecl|Hdecl].
  - apply (declared_mono m m'); [reflexivity|reflexivity| |exact Hdecl]. intros id e. subst m'. wcbn. apply aget_app_old.
  - assert (Hfs : In f fs) by (apply (undeclared_funcs_In m fs refd f Hu Hr); auto).
    apply (declared_elem m' (anext (m_elements m)) (decl_seg fs) f); [|exact Hfs].
    subst m'. cbn [m_elements set_elements]. apply aalloc_new. exact Hd.
Qed.

(* deleting keeps the tombstones in range and the arena length *)
Lemma delete_dir {A} (a a' : tarena A) id : dead_in_range a -> delete (fun x => x) a id = Some a' ->
  dead_in_range a' /\ length (items a') = length (items a).
Proof.
  intros Hd H. unfold delete in H. destruct (contains a id) eqn:C; [|discriminate]. injection H as <-.
  unfold dead_in_range. cbn [items dead]. rewrite upd_length. split; [|reflexivity]. constructor; [|exact Hd].
  unfold contains in C. destruct (nth_error (items a) id) eqn:E; [|discriminate]. apply nth_error_Some. congruence.
Qed.

Lemma del_fold_dir {A} keep (L : list (N * A)) : forall a0 a', fold_left (G.del_step keep) L (Ok a0) = Ok a' ->
  dead_in_range a0 -> dead_in_range a' /\ length (items a') = length (items a0).
Proof.
  induction L as [|p L IH]; intros a0 a' H Hd; cbn [fold_left] in H.
  - injection H as <-. auto.
  - unfold G.del_step at 2 in H. cbn [rbind] in H.
    destruct (existsb (N.eqb (fst p)) keep); [apply IH; assumption|].
    unfold adelete in H. destruct (delete (fun x => x) a0 (N.to_nat (fst p))) as [a1|] eqn:D; cbn [of_opt] in H.
    + destruct (delete_dir _ _ _ Hd D) as [Hd1 L1]. destruct (IH _ _ H Hd1) as [Hd' L']. split; [exact Hd'|congruence].
    + exfalso. revert H. apply G.del_fold_notok. discriminate.
Qed.

Lemma delete_unused_dir {A} (a a' : tarena A) keep : delete_unused a keep = Ok a' -> dead_in_range a ->
  dead_in_range a' /\ length (items a') = length (items a).
Proof. intros H. exact (del_fold_dir keep _ _ _ H). Qed.

Lemma sweep_elements_dir m m1 : gc_sweep m = Ok m1 -> dead_in_range (m_elements m) ->
  dead_in_range (m_elements m1) /\ length (items (m_elements m1)) = length (items (m_elements m)).
Proof.
  intros H Hd. destruct (gc_inv' m m1 H) as (u & ia & ta & ga & ma & da & ea & tya & fa & Hu & Ei & Et & Eg & Em & Ed & Ee & Ety & Ef & ->).
  wcbn. eapply delete_unused_dir; eauto.
Qed.

(* THE POINT OF THE REPAIR.  The unconditional statement is false of the model for an ill-formed element arena
   (a tombstone on a not yet allocated id: the new segment is born dead), which no sequence of arena operations can
   build; see [gc_declares_all_referenced_refuted].  With tombstones in range - in particular after [parseM] - it holds. *)
Theorem gc_declares_all_referenced_partial m m' : dead_in_range (m_elements m) -> gc m = Ok m' -> undeclared_funcs m' = Ok [].
Proof.
  intros Hd H. destruct (gc_inv_full m m' H) as [m1 [Hs Hdc]].
  eapply declare_declares_all; [|exact Hdc]. eapply sweep_elements_dir; eauto.
Qed.

Lemma nil_dead_in_range {A} (a : tarena A) : dead a = [] -> dead_in_range a.
Proof. unfold dead_in_range. intros ->. constructor. Qed.

Theorem gc_declares_all_referenced_after_parse cf ver w s m' :
  parseM cf ver w = POk s -> gc (ps_m s) = Ok m' -> undeclared_funcs m' = Ok [].
Proof.
  intros HP. apply gc_declares_all_referenced_partial. apply nil_dead_in_range.
  pose proof (parseM_ids _ _ _ _ HP) as I. unfold ids_consistent in I. decompose [and] I. assumption.
Qed.

(* ---------------------------------------------------------------- witnesses *)
Definition w_ty : mtype := {| ty_params := []; ty_results := []; ty_entry := false; ty_name := None |}.
Definition w_lf (body : list (instr * N)) : mlocalfunc :=
  {| lf_ty := 0%N; lf_args := []; lf_arena := [{| sq_ty := ST_Simple None; sq_instrs := body; sq_end := 2%N |}];
     lf_entry := 0%N; lf_orig_range := None; lf_instr_mapping := [] |}.
(* function 0, exported, body `ref.func 1; drop`; function 1 with an empty body, listed only by a passive element
   segment that nothing refers to.  [d] = the tombstones of the element arena ([] for a well-formed module). *)
Definition w_mod (d : list nat) : wir :=
  {| m_imports := empty; m_tables := empty;
     m_types := {| arena := {| items := [w_ty]; dead := [] |}; already := [(w_ty, 0)] |};
     m_funcs := {| items := [ {| fn_kind := FK_Local (w_lf [(IPlain (P_RefFunc 1%N), 0%N); (IPlain P_Drop, 1%N)]); fn_name := None |};
                              {| fn_kind := FK_Local (w_lf []); fn_name := None |} ]; dead := [] |};
     m_globals := empty; m_locals := empty;
     m_exports := {| items := [ {| ex_name := []; ex_kind := EK_Func; ex_item := 0%N |} ]; dead := [] |};
     m_memories := empty; m_data := empty;
     m_elements := {| items := [ {| el_kind := ELK_Passive; el_items := ELI_Funcs [1%N]; el_name := None |} ]; dead := d |};
     m_start := None; m_producers := []; m_customs := []; m_debug := []; m_name := None; m_config := default_config;
     m_code_section_offset := 0%N |}.
Definition res_get {A} (d : A) (r : res A) : A := match r with Ok a => a | _ => d end.

(* the sweep alone leaves an undeclared function reference: function 1 survives (function 0 refers to it), the
   passive segment that declared it does not *)
Theorem gc_sweep_leaves_undeclared_refuted :
  exists m m', gc_sweep m = Ok m' /\ exists f fs, undeclared_funcs m' = Ok (f :: fs).
Proof.
  exists (w_mod []), (res_get (w_mod []) (gc_sweep (w_mod []))). split; [vm_compute; reflexivity|].
  exists 1%N, []. vm_compute. reflexivity.
Qed.
(* ... while in the same module nothing was undeclared before the sweep, and nothing is after the whole pass *)
Example w_mod_before : undeclared_funcs (w_mod []) = Ok [].
Proof. vm_compute. reflexivity. Qed.
Example w_mod_after : exists m', gc (w_mod []) = Ok m' /\ undeclared_funcs m' = Ok [] /\
  aget (m_elements m') 1%N = Some (decl_seg [1%N]) /\ aget (m_elements m') 0%N = None.
Proof.
  exists (res_get (w_mod []) (gc (w_mod []))).
  split; [vm_compute; reflexivity|]. split; [vm_compute; reflexivity|]. split; vm_compute; reflexivity.
Qed.

(* the premise of [gc_declares_all_referenced_partial] cannot be dropped in the model *)
Theorem gc_declares_all_referenced_refuted :
  exists m m', gc m = Ok m' /\ undeclared_funcs m' <> Ok [].
Proof.
  exists (w_mod [1]), (res_get (w_mod [1]) (gc (w_mod [1]))). split; [vm_compute; reflexivity|].
  vm_compute. discriminate.
Qed.

(* ====================================================================================== *)
(* 7. The lifted theorems: Totality (C02)                                                   *)
(* ====================================================================================== *)
(* SAME statement as for the sweep *)
Corollary gc_closed_after_parse_full cf ver w s m :
  parseM cf ver w = POk s -> gc (ps_m s) = Ok m -> closed m /\ no_func_offsets m.
Proof.
  intros E Hg. destruct (parseM_closed_nfo _ _ _ _ E) as [C NF].
  split; [eapply gc_closed_partial_full; eauto|eapply gc_no_func_offsets_full; eauto].
Qed.

Lemma declare_types m m' : declare_referenced_funcs m = Ok m' -> m_types m' = m_types m.
Proof. intros H. apply (declare_frame m m' H). Qed.
Lemma declare_funcs m m' : declare_referenced_funcs m = Ok m' -> m_funcs m' = m_funcs m.
Proof. intros H. apply (declare_frame m m' H). Qed.

Lemma types_named_ok_congr m m' : m_types m' = m_types m -> types_named_ok m -> types_named_ok m'.
Proof. unfold types_named_ok, live_types. intros ->. auto. Qed.

Theorem gc_types_named_ok_full m m' : types_named_ok m -> gc m = Ok m' -> types_named_ok m'.
Proof.
  intros T H. destruct (gc_inv_full m m' H) as [m1 [Hs Hd]].
  apply (types_named_ok_congr m1 m' (declare_types _ _ Hd)). eapply gc_types_named_ok; eauto.
Qed.

(* SAME statement *)
Corollary emit_total_after_gc_bodies_full cf ver w s m ilen dw fs :
  parseM cf ver w = POk s -> gc (ps_m s) = Ok m -> used_local_functions m = Ok fs ->
  (forall x, final_maps m fs x -> forall id lf, In (id, lf) fs -> body_ok m x ilen lf) ->
  exists e, emitM m ilen dw = Ok e.
Proof.
  intros E Hg Hfs Hb. eapply emit_total_closed_bodies; eauto.
  - eapply gc_closed_after_parse_full; eauto.
  - eapply gc_types_named_ok_full; [|exact Hg]. eapply parseM_types_named_ok; eauto.
Qed.

(* SAME statement, same witness (the module has no local function, the new step adds nothing) *)
Theorem gc_closed_refuted_full :
  exists m m', closed m /\ gc m = Ok m' /\ ~ closed m' /\
               (exists e, emitM m (fun _ => 0%N) [] = Ok e) /\ emitM m' (fun _ => 0%N) [] = Panic.
Proof.
  exists wit, (res_get wit (gc wit)). split; [exact wit_closed|]. split; [vm_compute; reflexivity|]. split; [|split].
  - intros C.
    assert (E : aget (m_data (res_get wit (gc wit))) 0%N = Some {| da_kind := DK_Active 0 (MC_RefFunc 0); da_value := []; da_name := None |})
      by (vm_compute; reflexivity).
    pose proof (cl_data _ C _ _ E) as H. cbn [da_kind cref_live] in H. destruct H as [_ [v Hv]].
    vm_compute in Hv. discriminate.
  - eexists. vm_compute. reflexivity.
  - vm_compute. reflexivity.
Qed.

(* ====================================================================================== *)
(* 8. The lifted theorems: what the pass preserves (C06, C12)                               *)
(* ====================================================================================== *)
(* SAME statement *)
Theorem gc_preserves_full : forall m m', gc m = Ok m' ->
  m_exports m' = m_exports m /\ m_start m' = m_start m /\ m_customs m' = m_customs m /\
  m_config m' = m_config m /\ m_locals m' = m_locals m /\ m_producers m' = m_producers m /\
  m_debug m' = m_debug m /\ m_name m' = m_name m /\ m_code_section_offset m' = m_code_section_offset m.
Proof.
  intros m m' H. destruct (gc_inv_full m m' H) as [m1 [Hs Hd]].
  destruct (G.gc_preserves m m1 Hs) as (P1 & P2 & P3 & P4 & P5 & P6 & P7 & P8 & P9).
  destruct (declare_frame m1 m' Hd) as [(F1 & F2 & F3 & F4 & F5 & F6 & F7 & F8 & F9 & F10 & F11 & F12 & F13 & F14 & F15 & F16) _].
  repeat split; congruence.
Qed.

(* SAME statement *)
Theorem gc_customs_full : forall m m', gc m = Ok m' -> m_customs m' = m_customs m.
Proof. intros m m' H. apply (gc_preserves_full m m' H). Qed.

(* ====================================================================================== *)
(* 9. The lifted theorems: what is kept is kept unchanged (C06, Proofs/Switches.v)          *)
(* ====================================================================================== *)
From WV Require Import Proofs.Switches.

(* deletion keeps the length of the arena (no premise) *)
Lemma del_fold_len {A} keep (L : list (N * A)) : forall a0 a', fold_left (G.del_step keep) L (Ok a0) = Ok a' ->
  length (items a') = length (items a0).
Proof.
  induction L as [|p L IH]; intros a0 a' H; cbn [fold_left] in H.
  - injection H as <-. reflexivity.
  - unfold G.del_step at 2 in H. cbn [rbind] in H.
    destruct (existsb (N.eqb (fst p)) keep); [apply IH; assumption|].
    unfold adelete in H. destruct (delete (fun x => x) a0 (N.to_nat (fst p))) as [a1|] eqn:D; cbn [of_opt] in H.
    + rewrite (IH _ _ H). unfold delete in D. destruct (contains a0 (N.to_nat (fst p))); [|discriminate].
      injection D as <-. cbn [items]. apply upd_length.
    + exfalso. revert H. apply G.del_fold_notok. discriminate.
Qed.

Lemma sweep_elements_next m m1 : gc_sweep m = Ok m1 -> anext (m_elements m1) = anext (m_elements m).
Proof.
  intros H. destruct (gc_inv' m m1 H) as (u & ia & ta & ga & ma & da & ea & tya & fa & Hu & Ei & Et & Eg & Em & Ed & Ee & Ety & Ef & ->).
  wcbn. unfold anext, next_id. f_equal. exact (del_fold_len _ _ _ _ Ee).
Qed.

Lemma aget_lt_next {A} (a : tarena A) id v : aget a id = Some v -> id <> anext a.
Proof. intros H ->. rewrite aalloc_old_none in H. discriminate. Qed.

Lemma aalloc_ne {A} (a : tarena A) v id : id <> anext a -> aget (fst (aalloc a v)) id = aget a id.
Proof.
  intros Hne. destruct (aget (fst (aalloc a v)) id) as [x|] eqn:E.
  - apply aalloc_inv in E. destruct E as [E|[E _]]; [symmetry; exact E|contradiction].
  - destruct (aget a id) as [x|] eqn:E'; [|reflexivity]. apply (aalloc_old a v) in E'. congruence.
Qed.

(* the elements of the result of the whole pass: the swept ones, plus possibly the new segment, which has the next id of
   the ORIGINAL arena (deletion leaves tombstones, ids are never reused), is declared and lists kept functions only *)
Theorem gc_elements_full m m' : gc m = Ok m' ->
  exists m1 fs, gc_sweep m = Ok m1 /\ undeclared_funcs m1 = Ok fs /\
    (forall id e, aget (m_elements m1) id = Some e -> aget (m_elements m') id = Some e) /\
    (forall id e, aget (m_elements m') id = Some e ->
       aget (m_elements m1) id = Some e \/
       (fs <> [] /\ id = anext (m_elements m) /\ e = decl_seg fs /\ forall f, In f fs -> liveF m' f)) /\
    (forall id, id <> anext (m_elements m) -> aget (m_elements m') id = aget (m_elements m1) id).
Proof.
  intros H. destruct (gc_inv_full m m' H) as [m1 [Hs Hd]]. pose proof (sweep_elements_next m m1 Hs) as Hn.
  destruct (declare_inv m1 m' Hd) as [fs [Hu [[-> ->]|[Hne ->]]]]; exists m1; [exists []|exists fs];
    (split; [exact Hs|]); (split; [exact Hu|]).
  - split; [auto|]. split; [auto|]. auto.
  - cbn [m_elements set_elements]. split; [intros id e; apply aalloc_old|]. split.
    + intros id e Hg. apply aalloc_inv in Hg. destruct Hg as [Hg|[-> ->]]; [left; exact Hg|right].
      split; [exact Hne|]. split; [exact Hn|]. split; [reflexivity|]. intros f Hf.
      destruct (undeclared_funcs_inv m1 fs Hu) as [refd [Hr Efs]].
      rewrite Efs in Hf. apply sort_ids_members, filter_In in Hf.
      exact (sweep_referenced_live m m1 refd Hs Hr f (proj1 Hf)).
    + intros id Hid. apply aalloc_ne. rewrite Hn. exact Hid.
Qed.

(* CORRECTED statement: the element clause of the sweep theorem ("every element segment of the result is a segment of the
   input") is false for the whole pass - [gc_kept_unchanged_refuted] - because of the one new segment; everything else is
   as before. *)
Theorem gc_kept_unchanged_full m m' : gc m = Ok m' ->
  (forall id v, aget (m_funcs m') id = Some v -> aget (m_funcs m) id = Some v) /\
  (forall id v, aget (m_tables m') id = Some v -> aget (m_tables m) id = Some v) /\
  (forall id v, aget (m_globals m') id = Some v -> aget (m_globals m) id = Some v) /\
  (forall id v, aget (m_memories m') id = Some v -> aget (m_memories m) id = Some v) /\
  (forall id v, aget (m_data m') id = Some v -> aget (m_data m) id = Some v) /\
  (forall id v, aget (m_elements m') id = Some v ->
     aget (m_elements m) id = Some v \/
     (id = anext (m_elements m) /\ exists fs, fs <> [] /\ v = decl_seg fs /\ forall f, In f fs -> liveF m' f)) /\
  (forall id v, aget (m_imports m') id = Some v -> aget (m_imports m) id = Some v) /\
  (forall id t, types_get m' id = Some t -> types_get m id = Some t) /\
  m_locals m' = m_locals m.
Proof.
  intros H. destruct (gc_elements_full m m' H) as (m1 & fs & Hs & Hu & _ & Hel & _).
  destruct (gc_inv_full m m' H) as [m1' [Hs' Hd]]. rewrite Hs in Hs'. injection Hs' as <-.
  destruct (gc_kept_unchanged m m1 Hs) as (K1 & K2 & K3 & K4 & K5 & K6 & K7 & K8 & K9).
  destruct (declare_frame m1 m' Hd) as [(F1 & F2 & F3 & F4 & F5 & F6 & F7 & F8 & F9 & F10 & F11 & F12 & F13 & F14 & F15 & F16) _].
  rewrite F4, F2, F5, F8, F9, F1, F6. unfold types_get. rewrite F3.
  split; [exact K1|]. split; [exact K2|]. split; [exact K3|]. split; [exact K4|]. split; [exact K5|].
  split; [|split; [exact K7|split; [exact K8|exact K9]]].
  intros id v Hg. destruct (Hel id v Hg) as [Hg1|(Hne & -> & -> & Hl)]; [left; exact (K6 id v Hg1)|right].
  split; [reflexivity|]. exists fs. auto.
Qed.

Theorem gc_kept_unchanged_refuted :
  exists m m' id v, gc m = Ok m' /\ aget (m_elements m') id = Some v /\ aget (m_elements m) id = None.
Proof.
  exists (w_mod []), (res_get (w_mod []) (gc (w_mod []))), 1%N, (decl_seg [1%N]).
  split; [vm_compute; reflexivity|]. split; vm_compute; reflexivity.
Qed.

(* SAME statement *)
Theorem gc_kept_function_full m m' id f : gc m = Ok m' -> aget (m_funcs m') id = Some f ->
  aget (m_funcs m) id = Some f /\
  types_get m' (func_ty f) = types_get m (func_ty f) /\
  m_locals m' = m_locals m.
Proof.
  intros H. destruct (gc_inv_full m m' H) as [m1 [Hs Hd]].
  destruct (declare_frame m1 m' Hd) as [(F1 & F2 & F3 & F4 & F5 & F6 & F7 & F8 & F9 & F10 & F11 & F12 & F13 & F14 & F15 & F16) _].
  unfold types_get. rewrite F4, F3, F6. exact (gc_kept_function m m1 id f Hs).
Qed.

(* SAME statement *)
Theorem gc_exports_start_same_targets_full m m' : gc m = Ok m' ->
  m_exports m' = m_exports m /\ m_start m' = m_start m /\
  (forall id e, aget (m_exports m') id = Some e -> item_same m m' (ex_kind e) (ex_item e)) /\
  (forall f, m_start m' = Some f -> item_same m m' EK_Func f).
Proof.
  intros H. destruct (gc_inv_full m m' H) as [m1 [Hs Hd]].
  destruct (declare_frame m1 m' Hd) as [(F1 & F2 & F3 & F4 & F5 & F6 & F7 & F8 & F9 & F10 & F11 & F12 & F13 & F14 & F15 & F16) _].
  destruct (gc_exports_start_same_targets m m1 Hs) as (E1 & E2 & E3 & E4).
  assert (IS : forall k id, item_same m m1 k id -> item_same m m' k id).
  { intros k id. unfold item_same. rewrite F4, F2, F8, F5. auto. }
  rewrite F7, F10. split; [exact E1|]. split; [exact E2|]. split; [intros id e He; apply IS, (E3 id e He)|intros f Hf; apply IS, (E4 f Hf)].
Qed.

(* SAME statement: the new segment is not in the used set of the input (its id is not allocated there), so
   "everything in the used set looks the same before and after" survives *)
Lemma declare_same_at m m1 m' x : declare_referenced_funcs m1 = Ok m' ->
  (fst x = S_elem -> snd x <> anext (m_elements m1)) -> same_at m m1 x -> same_at m m' x.
Proof.
  intros Hd Hx. destruct (declare_frame m1 m' Hd) as [(F1 & F2 & F3 & F4 & F5 & F6 & F7 & F8 & F9 & F10 & F11 & F12 & F13 & F14 & F15 & F16) _].
  destruct x as [s id]. unfold same_at, types_get. cbn [fst snd] in *. destruct s; rewrite ?F4, ?F2, ?F8, ?F5, ?F9, ?F3, ?F6; auto.
  intros E. rewrite <- E. destruct (declare_inv m1 m' Hd) as [fs [Hu [[-> ->]|[Hne ->]]]]; [reflexivity|].
  cbn [m_elements set_elements]. apply aalloc_ne. apply Hx. reflexivity.
Qed.

Theorem gc_reachable_closed_submodule_full m m' : gc m = Ok m' ->
  exists u U, used m = Ok u /\ incl U u /\ (forall x, In x u -> fst x <> S_memory -> In x U) /\
    (forall x, In x u -> same_at m m' x) /\
    forall x, In x U -> exists ys, succ m x = Ok ys /\ succ m' x = Ok ys /\
                                   forall y, In y ys -> In y U /\ In y u /\ same_at m m' y.
Proof.
  intros H. destruct (gc_inv_full m m' H) as [m1 [Hs Hd]].
  destruct (gc_reachable_closed_submodule m m1 Hs) as (u & U & Hu & HUu & Hnm & Hsame & Hcl).
  assert (Hsame' : forall x, In x u -> same_at m m' x).
  { intros x Hx. apply (declare_same_at m m1 m' x Hd); [|exact (Hsame x Hx)].
    intros Hk. destruct x as [s id]. cbn [fst snd] in *. subst s.
    destruct (Hcl _ (Hnm _ Hx ltac:(cbn; discriminate))) as (ys & Hys & _).
    unfold succ in Hys. cbn [fst snd] in Hys. destruct (aget (m_elements m) id) as [e|] eqn:E; [|discriminate].
    rewrite (sweep_elements_next m m1 Hs). eapply aget_lt_next; eauto. }
  exists u, U. split; [exact Hu|]. split; [exact HUu|]. split; [exact Hnm|]. split; [exact Hsame'|].
  intros x Hx. destruct (Hcl x Hx) as (ys & Hys & _ & Hall). exists ys. split; [exact Hys|].
  split; [rewrite (same_at_succ m m' x (Hsame' x (HUu x Hx))); exact Hys|].
  intros y Hy. destruct (Hall y Hy) as (A & B & _). auto.
Qed.

(* ====================================================================================== *)
(* 10. "Exactly the used entities are kept" for the whole pass (C07)                        *)
(* ====================================================================================== *)
Lemma contains_aget {A} (a : tarena A) id : contains a (N.to_nat id) = true <-> exists v, aget a id = Some v.
Proof. unfold aget. apply G.contains_index. Qed.

(* CORRECTED statement: functions, tables, globals, memories, data exactly as for the sweep; the kept element segments are
   exactly the used ones plus at most ONE new segment, whose id is the next id of the input arena, which is declared and
   lists kept functions only.  The uncorrected element clause is false: [gc_keeps_exactly_used_refuted]. *)
Theorem gc_keeps_exactly_used_full : forall m m', gc m = Ok m' -> forall u, Model.GC.used m = Ok u ->
  (forall id, contains (m_funcs m') (N.to_nat id) = true <->
              (contains (m_funcs m) (N.to_nat id) = true /\ mem_ent (S_func, id) u = true)) /\
  (forall id, contains (m_tables m') (N.to_nat id) = true <->
              (contains (m_tables m) (N.to_nat id) = true /\ mem_ent (S_table, id) u = true)) /\
  (forall id, contains (m_globals m') (N.to_nat id) = true <->
              (contains (m_globals m) (N.to_nat id) = true /\ mem_ent (S_global, id) u = true)) /\
  (forall id, contains (m_memories m') (N.to_nat id) = true <->
              (contains (m_memories m) (N.to_nat id) = true /\ mem_ent (S_memory, id) u = true)) /\
  (forall id, contains (m_data m') (N.to_nat id) = true <->
              (contains (m_data m) (N.to_nat id) = true /\ mem_ent (S_data, id) u = true)) /\
  (forall id, contains (m_elements m') (N.to_nat id) = true <->
              ((contains (m_elements m) (N.to_nat id) = true /\ mem_ent (S_elem, id) u = true) \/
               (id = anext (m_elements m) /\
                exists fs, fs <> [] /\ aget (m_elements m') id = Some (decl_seg fs) /\ forall f, In f fs -> liveF m' f))).
Proof.
  intros m m' H u Hu. destruct (gc_elements_full m m' H) as (m1 & fs & Hs & Hud & Hold & Hel & _).
  destruct (gc_inv_full m m' H) as [m1' [Hs' Hd]]. rewrite Hs in Hs'. injection Hs' as <-.
  destruct (G.gc_keeps_exactly_used m m1 Hs u Hu) as (K1 & K2 & K3 & K4 & K5 & K6).
  destruct (declare_frame m1 m' Hd) as [(F1 & F2 & F3 & F4 & F5 & F6 & F7 & F8 & F9 & F10 & F11 & F12 & F13 & F14 & F15 & F16) _].
  rewrite F4, F2, F5, F8, F9.
  split; [exact K1|]. split; [exact K2|]. split; [exact K3|]. split; [exact K4|]. split; [exact K5|].
  intros id. rewrite <- (K6 id). rewrite !contains_aget. split.
  - intros [v Hv]. destruct (Hel id v Hv) as [Hg|(Hne & -> & -> & Hl)]; [left; eauto|right].
    split; [reflexivity|]. exists fs. auto.
  - intros [[v Hv]|[_ (fs' & _ & Hg & _)]]; [exists v; apply Hold, Hv|eauto].
Qed.

Theorem gc_keeps_exactly_used_refuted :
  exists m m' u id, gc m = Ok m' /\ Model.GC.used m = Ok u /\
    contains (m_elements m') (N.to_nat id) = true /\ contains (m_elements m) (N.to_nat id) = false.
Proof.
  exists (w_mod []), (res_get (w_mod []) (gc (w_mod []))), (res_get [] (Model.GC.used (w_mod []))), 1%N.
  split; [vm_compute; reflexivity|]. split; [vm_compute; reflexivity|]. split; vm_compute; reflexivity.
Qed.

(* what Props/C06.v [c06_only_unused_deleted] needs - SAME statement: a used live function survives the pass *)
Theorem gc_only_unused_deleted_full : forall m m', gc m = Ok m' -> forall u, Model.GC.used m = Ok u ->
  forall id, contains (m_funcs m) (N.to_nat id) = true -> mem_ent (S_func, id) u = true ->
             contains (m_funcs m') (N.to_nat id) = true.
Proof.
  intros m m' Hg u Hu id Hc Hm. destruct (gc_keeps_exactly_used_full m m' Hg u Hu) as [Hf _].
  apply Hf. split; assumption.
Qed.

(* ====================================================================================== *)
(* 11. The new segment is a root of the used-analysis; idempotence of the declare step       *)
(* ====================================================================================== *)
Lemma declared_segment_root m rs id e : roots m = Ok rs -> aget (m_elements m) id = Some e -> el_kind e = ELK_Declared ->
  In (S_elem, id) rs.
Proof.
  unfold roots. intros H Hg Hk.
  match type of H with rbind ?A _ = _ => destruct A as [elems| |] eqn:Eel; cbn [rbind] in H; try discriminate H end.
  injection H as <-. apply in_or_app. right. apply in_or_app. right. apply in_or_app. right. apply in_or_app. left.
  apply rmapM_ok_inv in Eel. apply aiter_aget in Hg. destruct (Forall2_in_l _ _ _ Eel _ Hg) as [b [Hb Hr]].
  cbn [fst snd] in Hr. rewrite Hk in Hr. injection Hr as <-. apply in_concat. exists [(S_elem, id)]. split; [exact Hb|left; reflexivity].
Qed.

(* a declared segment survives any sweep *)
Theorem declared_segment_kept m m2 id e : aget (m_elements m) id = Some e -> el_kind e = ELK_Declared ->
  gc_sweep m = Ok m2 -> aget (m_elements m2) id = Some e.
Proof.
  intros Hg Hk H. destruct (gc_shape m m2 H) as [u [Hu R]].
  destruct (used_closed' m u Hu) as [rs [Hr [Hrs _]]].
  apply (gr_elements _ _ _ R). split; [exact Hg|]. apply Hrs. eapply declared_segment_root; eauto.
Qed.

(* the segment added by the pass is kept by a further sweep (and, [declare_idempotent], not added a second time) *)
Theorem gc_new_segment_is_root m m' m2 id fs : gc m = Ok m' -> aget (m_elements m') id = Some (decl_seg fs) ->
  (forall rs, roots m' = Ok rs -> In (S_elem, id) rs) /\
  (gc_sweep m' = Ok m2 -> aget (m_elements m2) id = Some (decl_seg fs)).
Proof.
  intros _ Hg. split.
  - intros rs Hr. eapply declared_segment_root; eauto.
  - intros H. eapply declared_segment_kept; eauto.
Qed.

(* the declare step is idempotent: run on its own result it adds nothing *)
Theorem declare_idempotent m m1 : dead_in_range (m_elements m) -> declare_referenced_funcs m = Ok m1 ->
  declare_referenced_funcs m1 = Ok m1.
Proof.
  intros Hd H. unfold declare_referenced_funcs at 1. rewrite (declare_declares_all m m1 Hd H). reflexivity.
Qed.

(* on the result of the whole pass the declare step is the identity; hence a second run of the pass consists of its sweep
   alone whenever that sweep removes no function body reference... stated exactly: if the second sweep changes nothing,
   the second run changes nothing *)
Theorem gc_declare_idempotent_partial m m1 : dead_in_range (m_elements m) -> gc m = Ok m1 ->
  declare_referenced_funcs m1 = Ok m1 /\ (gc_sweep m1 = Ok m1 -> gc m1 = Ok m1).
Proof.
  intros Hd H. pose proof (gc_declares_all_referenced_partial m m1 Hd H) as Hu.
  assert (E : declare_referenced_funcs m1 = Ok m1) by (unfold declare_referenced_funcs; rewrite Hu; reflexivity).
  split; [exact E|]. intros Hs. unfold gc. rewrite Hs. cbn [rbind]. exact E.
Qed.

(* ====================================================================================== *)
(* 12. The lifted theorems: emission after the pass with no body premise (C02)              *)
(* ====================================================================================== *)
From WV Require Import Model.ParseSpec Proofs.ParseTotal Proofs.TotalityBodies.

Lemma declare_live m1 m' : declare_referenced_funcs m1 = Ok m' -> forall sp id, ent_live m1 sp id -> ent_live m' sp id.
Proof.
  intros Hd sp id.
  destruct (declare_frame m1 m' Hd) as [(F1 & F2 & F3 & F4 & F5 & F6 & F7 & F8 & F9 & F10 & F11 & F12 & F13 & F14 & F15 & F16) _].
  destruct sp; cbn [ent_live]; unfold liveF, liveT, liveM, liveG, ty_ok, types_get; rewrite ?F4, ?F3, ?F2, ?F8, ?F5, ?F9; auto.
  intros [v Hv]. exists v. apply (declare_elements m1 m' Hd). exact Hv.
Qed.

(* SAME statement *)
Theorem emit_total_after_gc_final_partial_full cf ver w s m' ilen dw :
  valid_stream w -> parseM cf ver w = POk s -> refs_in_range w (ps_ids s) -> gc (ps_m s) = Ok m' ->
  exists e, emitM m' ilen dw = Ok e.
Proof.
  intros V E RR Hgc. destruct (gc_inv_full _ _ Hgc) as [m1 [Hsw Hd]].
  destruct (gc_shape _ _ Hsw) as (u & Hu & R).
  pose proof (declare_funcs _ _ Hd) as Ff.
  assert (Hfun : forall id fn, aget (m_funcs m') id = Some fn ->
                               aget (m_funcs (ps_m s)) id = Some fn /\ In (S_func, id) u)
    by (intros id fn Hg; rewrite Ff in Hg; apply (gr_funcs _ _ _ R); exact Hg).
  destruct (used_local_functions_total m') as [fs Hfs].
  { intros id fn Hg. destruct (Hfun _ _ Hg) as [Hg0 _].
    pose proof (parsed_funcs cf ver w s V E id fn Hg0) as H. unfold func_parsed in H.
    destruct (fn_kind fn) as [? ?|lf|?]; [exact I| |exact H].
    destruct H as (tys & b & _ & ety & l & eloc & _ & Hw & Ea & Ee).
    eexists. eapply (parsed_log _ lf ety l eloc); eassumption. }
  eapply emit_total_after_gc_bodies_full; [exact E|exact Hgc|exact Hfs|].
  intros x FM id lf Hin.
  destruct (used_local_functions_entries _ _ Hfs id lf Hin) as (fn & Hg & Hk).
  destruct (Hfun _ _ Hg) as [Hg0 Hu0].
  destruct (parsed_refs_ok cf ver w s id fn lf V E RR Hg0 Hk) as (evs & Hl & Hr).
  pose proof (parsed_funcs cf ver w s V E id fn Hg0) as H. unfold func_parsed in H. rewrite Hk in H.
  destruct H as (tys & b & _ & ety & l & eloc & Eops & Hw & Ea & Ee).
  eapply parsed_body_ok_gen; try eassumption.
  intros sp rid Hs He.
  pose proof (kept_refs _ _ _ _ _ _ Hu Hu0 Hg0 Hk Hl sp rid Hs) as Hkept.
  rewrite (parsed_log _ lf ety l eloc Hw Ea Ee) in Hl. injection Hl as <-.
  destruct (gc_closed_after_parse_full _ _ _ _ _ E Hgc) as [C' _].
  eapply live_indexed; eauto. apply (declare_live m1 m' Hd).
  eapply gc_live; [exact R|apply (Hr sp rid Hs He)|apply Hkept, He].
Qed.

(* ====================================================================================== *)
(* 13. The lifted theorems: renumbering after the pass (C04)                                *)
(* ====================================================================================== *)
From WV Require Import Proofs.Renumbering.

Lemma declare_imports_wf m1 m' : declare_referenced_funcs m1 = Ok m' -> imports_wf m1 -> imports_wf m'.
Proof.
  intros Hd.
  destruct (declare_frame m1 m' Hd) as [(F1 & F2 & F3 & F4 & F5 & F6 & F7 & F8 & F9 & F10 & F11 & F12 & F13 & F14 & F15 & F16) _].
  unfold imports_wf, marked. rewrite F1, F4, F2, F8, F5. auto.
Qed.

Theorem gc_imports_wf_full m m' : imports_wf m -> gc m = Ok m' -> imports_wf m'.
Proof.
  intros IW H. destruct (gc_inv_full m m' H) as [m1 [Hs Hd]].
  eapply declare_imports_wf; [exact Hd|]. eapply gc_imports_wf; eauto.
Qed.

Section AfterGCFull.
  Variables (cf : config) (ver : list N) (w : wmod) (s : pst) (ilen : wins -> N) (dw : list wsec) (m' : wir) (e' : emitted).
  Hypothesis HP : parseM cf ver w = POk s.
  Hypothesis HG : gc (ps_m s) = Ok m'.
  Hypothesis HE : emitM m' ilen dw = Ok e'.

  Lemma gc_wf_space_full S : S <> S_local -> wf_map (space_map (em_x2i e') S).
  Proof.
    intros HL. apply (imports_wf_maps m' ilen dw e' S); [|exact HE|exact HL].
    eapply gc_imports_wf_full; [|exact HG]. eapply parsed_imports_wf; exact HP.
  Qed.

  (* SAME statement *)
  Theorem rho_gc_inj_full S i i' j : S <> S_type -> S <> S_local -> rho s e' S i = Ok j -> rho s e' S i' = Ok j -> i = i'.
  Proof. intros HS HL. apply (rho_inj_gen s e' S (n_in s S) (ids_space_n _ _ _ _ HP S HS HL) (gc_wf_space_full S HL)). Qed.

  (* the emitted ids that are input ids are exactly the kept input ids; the new segment's id is not an input id *)
  Lemma gc_emitted_kept_full : exists u, used (ps_m s) = Ok u /\
    forall S id, S <> S_type -> S <> S_local -> (N.to_nat id < n_in s S)%nat ->
      (In id (emitted_ids e' S) <-> In (S, id) u).
  Proof.
    destruct (gc_elements_full _ _ HG) as (m1 & fs & Hs & _ & _ & _ & Hne).
    destruct (gc_inv_full _ _ HG) as [m1' [Hs' Hd]]. rewrite Hs in Hs'. injection Hs' as <-.
    destruct (gc_shape _ _ Hs) as [u [Hu R]]. exists u. split; [exact Hu|]. intros S id HS HL Hlt.
    destruct (gc_closed_after_parse_full _ _ _ _ _ HP HG) as [C _].
    rewrite (emitted_iff_live _ _ _ _ S id HE C HS).
    assert (Hl0 : ent_live (ps_m s) S id).
    { apply (lt_live_space _ _ S id (parseM_ids _ _ _ _ HP) HS HL). rewrite <- (n_in_arena _ _ _ _ HP S HS HL). exact Hlt. }
    assert (E1 : ent_live m' S id <-> ent_live m1 S id).
    { destruct (declare_frame m1 m' Hd) as [(F1 & F2 & F3 & F4 & F5 & F6 & F7 & F8 & F9 & F10 & F11 & F12 & F13 & F14 & F15 & F16) _].
      destruct S; cbn [ent_live]; unfold liveF, liveT, liveM, liveG; rewrite ?F4, ?F2, ?F8, ?F5, ?F9; try reflexivity; try congruence.
      rewrite Hne; [reflexivity|]. intros ->. rewrite (n_in_arena _ _ _ _ HP S_elem HS HL) in Hlt. cbn [arena_len] in Hlt.
      unfold anext, next_id in Hlt. rewrite Nat2N.id in Hlt. lia. }
    rewrite E1, (gc_live_iff _ _ _ S id R HS HL). tauto.
  Qed.

  (* SAME statement *)
  Theorem rho_gc_defined_full : exists u, used (ps_m s) = Ok u /\
    forall S i, S <> S_type -> S <> S_local ->
      ((exists j, rho s e' S i = Ok j) <-> (N.to_nat i < n_in s S)%nat /\ In (S, i) u).
  Proof.
    destruct gc_emitted_kept_full as [u [Hu K]]. exists u. split; [exact Hu|]. intros S i HS HL.
    rewrite (rho_defined_gen s e' S (n_in s S) (ids_space_n _ _ _ _ HP S HS HL) (gc_wf_space_full S HL)).
    split; intros [H1 H2]; (split; [exact H1|]); apply (K S i HS HL H1); exact H2.
  Qed.
End AfterGCFull.

(* ====================================================================================== *)
(* 14. Idempotence: the second run adds no segment as soon as its sweep keeps the declarations *)
(* ====================================================================================== *)
(* [referenced_funcs] after a sweep: defined, and a subset of what was referenced before *)
Lemma sweep_referenced_sub m1 s2 refd1 : gc_sweep m1 = Ok s2 -> referenced_funcs m1 = Ok refd1 ->
  exists refd2, referenced_funcs s2 = Ok refd2 /\ incl refd2 refd1.
Proof.
  intros Hs Hr. destruct (gc_shape m1 s2 Hs) as [u [Hu R]].
  destruct (referenced_funcs_inv m1 refd1 Hr) as [ls [El _]]. apply rmapM_ok_inv in El.
  destruct (rmapM_total refs_of_fn (aiter (m_funcs s2))) as [ls2 E2].
  { intros [id fn] Hp. apply aiter_aget in Hp. apply (gr_funcs _ _ _ R) in Hp. destruct Hp as [Hp _]. apply aiter_aget in Hp.
    destruct (Forall2_in_l _ _ _ El _ Hp) as [b [_ Hb]]. eauto. }
  assert (Hr2 : referenced_funcs s2 = Ok (concat ls2)).
  { unfold referenced_funcs. fold refs_of_fn. rewrite E2. reflexivity. }
  exists (concat ls2). split; [exact Hr2|]. intros f Hf.
  apply (referenced_funcs_In s2 _ f Hr2) in Hf. destruct Hf as (id & fn & lf & evs & Hg & Hk & Hl & Hf).
  apply (referenced_funcs_In m1 refd1 f Hr). apply (gr_funcs _ _ _ R) in Hg. destruct Hg as [Hg _]. eauto 10.
Qed.

(* The second run of the pass: its declare step adds nothing provided its sweep deletes no declaration that is still
   needed (premise [incl (declared_funcs m1) (declared_funcs s2)]: what the module-level idempotence of the sweep would give;
   that theorem is only available on sets, Proofs/GC.v [gc_idempotent_sets]).  Then the second run IS its sweep. *)
Theorem gc_declare_idempotent_partial2 m m1 s2 : dead_in_range (m_elements m) -> gc m = Ok m1 -> gc_sweep m1 = Ok s2 ->
  incl (declared_funcs m1) (declared_funcs s2) -> gc m1 = Ok s2.
Proof.
  intros Hd H Hs Hinc.
  pose proof (gc_declares_all_referenced_partial m m1 Hd H) as Hu.
  destruct (undeclared_funcs_inv m1 [] Hu) as [refd1 [Hr1 _]].
  destruct (sweep_referenced_sub m1 s2 refd1 Hs Hr1) as [refd2 [Hr2 Hsub]].
  assert (Hu2 : undeclared_funcs s2 = Ok []).
  { apply (undeclared_funcs_nil s2 refd2 Hr2). intros f Hf. apply Hinc.
    destruct (in_dec N.eq_dec f (declared_funcs m1)) as [Hin|Hnin]; [exact Hin|exfalso].
    assert (X : In f []) by (apply (undeclared_funcs_In m1 [] refd1 f Hu Hr1); auto). destruct X. }
  unfold gc. rewrite Hs. cbn [rbind]. unfold declare_referenced_funcs. rewrite Hu2. reflexivity.
Qed.

Print Assumptions declare_frame.
Print Assumptions declare_elements.
Print Assumptions sweep_referenced_live.
Print Assumptions gc_declares_all_referenced_partial.
Print Assumptions gc_declares_all_referenced_after_parse.
Print Assumptions gc_declares_all_referenced_refuted.
Print Assumptions gc_sweep_leaves_undeclared_refuted.
Print Assumptions gc_closed_partial_full.
Print Assumptions gc_closed_after_parse_full.
Print Assumptions emit_total_after_gc_bodies_full.
Print Assumptions gc_closed_refuted_full.
Print Assumptions emit_total_after_gc_final_partial_full.
Print Assumptions rho_gc_inj_full.
Print Assumptions rho_gc_defined_full.
Print Assumptions gc_preserves_full.
Print Assumptions gc_elements_full.
Print Assumptions gc_keeps_exactly_used_full.
Print Assumptions gc_keeps_exactly_used_refuted.
Print Assumptions gc_only_unused_deleted_full.
Print Assumptions gc_kept_unchanged_full.
Print Assumptions gc_kept_unchanged_refuted.
Print Assumptions gc_kept_function_full.
Print Assumptions gc_reachable_closed_submodule_full.
Print Assumptions gc_exports_start_same_targets_full.
Print Assumptions gc_customs_full.
Print Assumptions gc_types_named_ok_full.
Print Assumptions gc_imports_wf_full.
Print Assumptions declared_segment_kept.
Print Assumptions gc_new_segment_is_root.
Print Assumptions declare_idempotent.
Print Assumptions gc_declare_idempotent_partial.
Print Assumptions gc_declare_idempotent_partial2.
