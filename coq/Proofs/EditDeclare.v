(* Module::replace_exported_func with its last step (passes::gc::declare_referenced_funcs):
     replace_exported_func m fid body = replace_exported_func_core m fid body ;; declare_referenced_funcs.
   The theorems of Proofs/Edit.v and Proofs/ParsedWf.v about the core edit lifted to the whole function
   (name <old name>_full, element clause corrected), the new postcondition (everything `ref.func`-ed by a live
   body is declared after the edit), no panic from the new step on a parsed module, and the old finding
   (the core edit alone leaves an undeclared function reference). *)
From Coq Require Import List NArith ZArith Bool Arith Lia.
Import ListNotations.
From WV Require Import Gen.Ops Model.Common Model.IR Model.Arena Model.Builder Model.ModuleM Model.ParseM Model.EmitM
                       Model.GC Model.Edit.
From WV Require Import Proofs.Arena Proofs.IndexMaps Proofs.Totality Proofs.GcDeclare.
From WV Require Model.ParseSpec Proofs.Edit Proofs.ParsedWf Proofs.ParseTotal Proofs.TotalityBodies.
Local Open Scope nat_scope.

(* ====================================================================================== *)
(* 0. Inversion: the whole edit = the core edit, then the declare step                      *)
(* ====================================================================================== *)
Lemma replace_exported_full_inv m fid body m' nid :
  replace_exported_func m fid body = POk (m', nid) ->
  exists m1, replace_exported_func_core m fid body = POk (m1, nid) /\ declare_referenced_funcs m1 = Ok m'.
Proof.
  unfold replace_exported_func. destruct (replace_exported_func_core m fid body) as [[m1 n1]| |]; try discriminate.
  destruct (declare_referenced_funcs m1) as [m2| |] eqn:Ed; try discriminate.
  intros H; inversion H; subst. exists m1. split; [reflexivity|exact Ed].
Qed.

Lemma replace_exported_full_ok m fid body m1 m' nid :
  replace_exported_func_core m fid body = POk (m1, nid) -> declare_referenced_funcs m1 = Ok m' ->
  replace_exported_func m fid body = POk (m', nid).
Proof. unfold replace_exported_func. intros -> ->. reflexivity. Qed.

Lemma replace_exported_full_err m fid body :
  replace_exported_func_core m fid body = PErr -> replace_exported_func m fid body = PErr.
Proof. unfold replace_exported_func. intros ->. reflexivity. Qed.

(* the core edit does not touch the element arena *)
Lemma core_elements m fid body m1 nid :
  replace_exported_func_core m fid body = POk (m1, nid) -> m_elements m1 = m_elements m.
Proof.
  intros H. destruct (Proofs.Edit.replace_exported_run _ _ _ _ _ H) as (eid & f & lf0 & t & ty & ety & ar & e & R).
  destruct R. assumption.
Qed.

(* ====================================================================================== *)
(* 1. The bundle, for the whole function                                                    *)
(* ====================================================================================== *)
(* Same statement as [Proofs.Edit.replace_exported_spec] except the element clause of E4: every old segment is
   unchanged (same id, same content) and the arena is the old one or has exactly one more segment, a declared
   one listing a non-empty set of functions (the undeclared functions of the core result). *)
Theorem replace_exported_spec_full m fid body m' nid :
  Forall (fun d => d < length (items (m_funcs m))) (dead (m_funcs m)) ->
  Proofs.Edit.types_wf (m_types m) ->
  replace_exported_func m fid body = POk (m', nid) ->
  exists eid e f lf0 t lf,
    exported_func_export m fid = Some eid /\ aget (m_exports m) eid = Some e /\
    ex_kind e = EK_Func /\ ex_item e = fid /\
    aget (m_funcs m) fid = Some f /\ fn_kind f = FK_Local lf0 /\ types_get m (lf_ty lf0) = Some t /\
    (* E1 *) (nid = N.of_nat (length (items (m_funcs m))) /\
              aget (m_funcs m') nid = Some {| fn_kind := FK_Local lf; fn_name := None |} /\
              (exists t', types_get m' (lf_ty lf) = Some t' /\
                 ty_params t' = ty_params t /\ ty_results t' = ty_results t /\ ty_entry t' = false) /\
              lf_args lf = lf_args lf0) /\
    (* E2 *) (forall g, N.to_nat g < length (items (m_funcs m)) -> aget (m_funcs m') g = aget (m_funcs m) g) /\
    (* E3 *) (aget (m_exports m') eid = Some {| ex_name := ex_name e; ex_kind := ex_kind e; ex_item := nid |} /\
              (forall x, x <> eid -> aget (m_exports m') x = aget (m_exports m) x) /\
              length (items (m_exports m')) = length (items (m_exports m)) /\
              dead (m_exports m') = dead (m_exports m)) /\
    (* E4 *) (m_imports m' = m_imports m /\ m_tables m' = m_tables m /\ m_memories m' = m_memories m /\
              m_globals m' = m_globals m /\
              ((forall id x, aget (m_elements m) id = Some x -> aget (m_elements m') id = Some x) /\
               (m_elements m' = m_elements m \/
                exists fs, fs <> [] /\
                  items (m_elements m') =
                    items (m_elements m) ++ [{| el_kind := ELK_Declared; el_items := ELI_Funcs fs; el_name := None |}] /\
                  dead (m_elements m') = dead (m_elements m))) /\
              m_data m' = m_data m /\
              m_start m' = m_start m /\ m_customs m' = m_customs m /\ m_locals m' = m_locals m /\
              m_producers m' = m_producers m /\ m_name m' = m_name m /\ m_config m' = m_config m) /\
    (* body *) (exists m2 ty ety ar, builder_new m (ty_params t) (ty_results t) = (m2, ty, ety) /\
                  run_builder ety (body (lf_args lf0)) = Ok ar /\ lf_arena lf = ar /\ lf_ty lf = ty) /\
    Proofs.Edit.types_wf (m_types m') /\
    Forall (fun d => d < length (items (m_funcs m'))) (dead (m_funcs m')).
Proof.
  intros Hb Hwf H. destruct (replace_exported_full_inv _ _ _ _ _ H) as [m1 [Hc Hd]].
  destruct (declare_frame m1 m' Hd)
    as [(F1 & F2 & F3 & F4 & F5 & F6 & F7 & F8 & F9 & F10 & F11 & F12 & F13 & F14 & F15 & F16) (fs & Hu & Hel)].
  destruct (declare_elements m1 m' Hd) as [Hold _].
  destruct (Proofs.Edit.replace_exported_spec m fid body m1 nid Hb Hwf Hc)
    as (eid & e & f & lf0 & t & lf & A1 & A2 & A3 & A4 & A5 & A6 & A7 & E1 & E2 & E3 & E4 & Bd & Tw & Fd).
  destruct E4 as (G1 & G2 & G3 & G4 & G5 & G6 & G7 & G8 & G9 & G10 & G11 & G12).
  exists eid, e, f, lf0, t, lf. unfold types_get in *.
  rewrite F1, F2, F3, F4, F5, F6, F7, F8, F9, F10, F11, F12, F14, F15.
  repeat (split; [assumption|]).
  split; [|split; [assumption|split; assumption]].
  repeat (split; [assumption|]).
  split; [|repeat (split; [assumption|]); assumption].
  rewrite <- G5. split; [exact Hold|].
  destruct Hel as [[_ ->]|[Hne ->]]; [left; reflexivity|right].
  exists fs. split; [exact Hne|]. split; reflexivity.
Qed.

(* the extra frame facts of the core edit (debug data, code section offset), verbatim *)
Theorem exported_E4_extra_full m fid body m' nid :
  replace_exported_func m fid body = POk (m', nid) ->
  m_debug m' = m_debug m /\ m_code_section_offset m' = m_code_section_offset m.
Proof.
  intros H. destruct (replace_exported_full_inv _ _ _ _ _ H) as [m1 [Hc Hd]].
  destruct (declare_frame m1 m' Hd)
    as [(F1 & F2 & F3 & F4 & F5 & F6 & F7 & F8 & F9 & F10 & F11 & F12 & F13 & F14 & F15 & F16) _].
  destruct (Proofs.Edit.exported_E4_extra _ _ _ _ _ Hc) as [D1 D2]. rewrite F13, F16. auto.
Qed.

(* what the one new segment lists: the undeclared functions of the core result *)
Theorem replace_exported_new_segment m fid body m' nid :
  replace_exported_func m fid body = POk (m', nid) ->
  exists m1 fs, replace_exported_func_core m fid body = POk (m1, nid) /\ undeclared_funcs m1 = Ok fs /\
    ((fs = [] /\ m_elements m' = m_elements m) \/
     (fs <> [] /\ m_elements m' = fst (aalloc (m_elements m) (decl_seg fs)))).
Proof.
  intros H. destruct (replace_exported_full_inv _ _ _ _ _ H) as [m1 [Hc Hd]].
  destruct (declare_frame m1 m' Hd) as [_ (fs & Hu & Hel)]. rewrite (core_elements _ _ _ _ _ Hc) in Hel.
  exists m1, fs. auto.
Qed.

(* ====================================================================================== *)
(* 2. Refusals                                                                              *)
(* ====================================================================================== *)
Theorem exported_E5_not_exported_full m fid body :
  (forall i e, aget (m_exports m) i = Some e -> ~ (ex_kind e = EK_Func /\ ex_item e = fid)) ->
  replace_exported_func m fid body = PErr.
Proof. intros Hno. apply replace_exported_full_err, Proofs.Edit.exported_E5_not_exported, Hno. Qed.

Theorem exported_E5_not_local_full m fid body eid f :
  exported_func_export m fid = Some eid -> aget (m_funcs m) fid = Some f ->
  (forall lf, fn_kind f <> FK_Local lf) ->
  replace_exported_func m fid body = PErr.
Proof. intros He Hf Hk. apply replace_exported_full_err. eapply Proofs.Edit.exported_E5_not_local; eauto. Qed.

(* ====================================================================================== *)
(* 3. The arena premise of E1 is still needed                                               *)
(* ====================================================================================== *)
(* [Proofs.Edit.bad_funcs_module] itself no longer witnesses it: its one function has an EMPTY sequence arena (no entry
   sequence), which the core edit never looks at but the new step traverses - the whole edit panics on it *)
Example bad_funcs_module_now_panics :
  exists m1 nid, replace_exported_func_core Proofs.Edit.bad_funcs_module 0%N (fun _ => []) = POk (m1, nid) /\
                 replace_exported_func Proofs.Edit.bad_funcs_module 0%N (fun _ => []) = PPanic.
Proof. eexists. eexists. split; vm_compute; reflexivity. Qed.

(* the same module with a well-formed (empty) body *)
Definition bad_funcs_module' : wir :=
  set_types
    (set_funcs
       (set_exports (empty_wir default_config)
          {| items := [{| ex_name := []; ex_kind := EK_Func; ex_item := 0%N |}]; dead := [] |})
       {| items := [{| fn_kind := FK_Local (w_lf []); fn_name := None |}]; dead := [1] |})
    {| arena := {| items := [Proofs.Edit.t_unit]; dead := [] |}; already := [(Proofs.Edit.t_unit, 0)] |}.

Theorem exported_E1_refuted_full :
  exists m fid body m' nid,
    Proofs.Edit.types_wf (m_types m) /\
    replace_exported_func m fid body = POk (m', nid) /\
    aget (m_funcs m') nid = None.
Proof.
  exists bad_funcs_module', 0%N, (fun _ => []).
  eexists. eexists.
  split.
  { split; [constructor|]. intros k id [Hin|[]]. inversion Hin; subst.
    exists Proofs.Edit.t_unit. split; reflexivity. }
  split; [vm_compute; reflexivity|].
  vm_compute; reflexivity.
Qed.

(* ====================================================================================== *)
(* 4. After a parse                                                                         *)
(* ====================================================================================== *)
Theorem parse_then_replace_exported_full : forall cf ver w s fid body m' nid,
  parseM cf ver w = POk s ->
  let m := ps_m s in
  replace_exported_func m fid body = POk (m', nid) ->
  exists eid e f lf0 t lf,
    exported_func_export m fid = Some eid /\ aget (m_exports m) eid = Some e /\
    ex_kind e = EK_Func /\ ex_item e = fid /\
    aget (m_funcs m) fid = Some f /\ fn_kind f = FK_Local lf0 /\ types_get m (lf_ty lf0) = Some t /\
    (* E1 *) (nid = N.of_nat (length (items (m_funcs m))) /\
              aget (m_funcs m') nid = Some {| fn_kind := FK_Local lf; fn_name := None |} /\
              (exists t', types_get m' (lf_ty lf) = Some t' /\
                 ty_params t' = ty_params t /\ ty_results t' = ty_results t /\ ty_entry t' = false) /\
              lf_args lf = lf_args lf0) /\
    (* E2 *) (forall g, N.to_nat g < length (items (m_funcs m)) -> aget (m_funcs m') g = aget (m_funcs m) g) /\
    (* E3 *) (aget (m_exports m') eid = Some {| ex_name := ex_name e; ex_kind := ex_kind e; ex_item := nid |} /\
              (forall x, x <> eid -> aget (m_exports m') x = aget (m_exports m) x) /\
              length (items (m_exports m')) = length (items (m_exports m)) /\
              dead (m_exports m') = dead (m_exports m)) /\
    (* E4 *) (m_imports m' = m_imports m /\ m_tables m' = m_tables m /\ m_memories m' = m_memories m /\
              m_globals m' = m_globals m /\
              ((forall id x, aget (m_elements m) id = Some x -> aget (m_elements m') id = Some x) /\
               (m_elements m' = m_elements m \/
                exists fs, fs <> [] /\
                  items (m_elements m') =
                    items (m_elements m) ++ [{| el_kind := ELK_Declared; el_items := ELI_Funcs fs; el_name := None |}] /\
                  dead (m_elements m') = dead (m_elements m))) /\
              m_data m' = m_data m /\
              m_start m' = m_start m /\ m_customs m' = m_customs m /\ m_locals m' = m_locals m /\
              m_producers m' = m_producers m /\ m_name m' = m_name m /\ m_config m' = m_config m) /\
    (* body *) (exists m2 ty ety ar, builder_new m (ty_params t) (ty_results t) = (m2, ty, ety) /\
                  run_builder ety (body (lf_args lf0)) = Ok ar /\ lf_arena lf = ar /\ lf_ty lf = ty) /\
    Proofs.Edit.types_wf (m_types m') /\
    Forall (fun d => d < length (items (m_funcs m'))) (dead (m_funcs m')).
Proof.
  intros cf ver w s fid body m' nid E m H.
  destruct (Proofs.ParsedWf.parsed_ready_for_replace_exported _ _ _ _ E) as [Hb Hwf].
  apply (replace_exported_spec_full m fid body m' nid Hb Hwf H).
Qed.


(* ====================================================================================== *)
(* 5. After the edit every `ref.func`-ed function of a live body is declared                *)
(* ====================================================================================== *)
(* As for the GC pass ([gc_declares_all_referenced_partial]) the unconditional statement is false of the model for an
   ill-formed element arena (a tombstone on a not yet allocated id: the new segment is born dead), which no sequence of
   arena operations can build; see [replace_exported_declares_all_referenced_refuted]. *)
Theorem replace_exported_declares_all_referenced_partial m fid body m' nid :
  dead_in_range (m_elements m) ->
  replace_exported_func m fid body = POk (m', nid) -> undeclared_funcs m' = Ok [].
Proof.
  intros Hdr H. destruct (replace_exported_full_inv _ _ _ _ _ H) as [m1 [Hc Hd]].
  eapply declare_declares_all; [|exact Hd]. rewrite (core_elements _ _ _ _ _ Hc). exact Hdr.
Qed.

Theorem replace_exported_declares_all_referenced_after_parse cf ver w s fid body m' nid :
  parseM cf ver w = POk s ->
  replace_exported_func (ps_m s) fid body = POk (m', nid) -> undeclared_funcs m' = Ok [].
Proof.
  intros HP. apply replace_exported_declares_all_referenced_partial. apply nil_dead_in_range.
  pose proof (parseM_ids _ _ _ _ HP) as I. unfold ids_consistent in I. decompose [and] I. assumption.
Qed.

(* and the edit keeps the premise, so it can be chained *)
Theorem replace_exported_dead_in_range m fid body m' nid :
  dead_in_range (m_elements m) ->
  replace_exported_func m fid body = POk (m', nid) -> dead_in_range (m_elements m').
Proof.
  intros Hdr H. destruct (replace_exported_new_segment _ _ _ _ _ H) as (m1 & fs & _ & _ & [[_ ->]|[_ ->]]);
    [exact Hdr|apply aalloc_dead_in_range, Hdr].
Qed.

(* ---------------------------------------------------------------- the witness module *)
(* function 0 (empty body), exported once as "f"; function 1, exported as "g", body `ref.func 0; drop`;
   no element segment.  [d] = the tombstones of the element arena ([] for a well-formed module). *)
Definition x_mod (d : list nat) : wir :=
  {| m_imports := empty; m_tables := empty;
     m_types := {| arena := {| items := [w_ty]; dead := [] |}; already := [(w_ty, 0)] |};
     m_funcs := {| items := [ {| fn_kind := FK_Local (w_lf []); fn_name := None |};
                              {| fn_kind := FK_Local (w_lf [(IPlain (P_RefFunc 0%N), 0%N); (IPlain P_Drop, 1%N)]); fn_name := None |} ];
                   dead := [] |};
     m_globals := empty; m_locals := empty;
     m_exports := {| items := [ {| ex_name := [102%N]; ex_kind := EK_Func; ex_item := 0%N |};
                                {| ex_name := [103%N]; ex_kind := EK_Func; ex_item := 1%N |} ]; dead := [] |};
     m_memories := empty; m_data := empty;
     m_elements := {| items := []; dead := d |};
     m_start := None; m_producers := []; m_customs := []; m_debug := []; m_name := None; m_config := default_config;
     m_code_section_offset := 0%N |}.
Definition pres_get {A} (d : A) (r : pres A) : A := match r with POk a => a | _ => d end.

Theorem replace_exported_declares_all_referenced_refuted :
  exists m fid body m' nid, replace_exported_func m fid body = POk (m', nid) /\ undeclared_funcs m' <> Ok [].
Proof.
  exists (x_mod [0]), 0%N, (fun _ => []),
         (fst (pres_get (x_mod [0], 0%N) (replace_exported_func (x_mod [0]) 0%N (fun _ => [])))), 2%N.
  split; [vm_compute; reflexivity|]. vm_compute. discriminate.
Qed.

(* ====================================================================================== *)
(* 7. The old finding: the core edit alone leaves an undeclared function reference          *)
(* ====================================================================================== *)
Theorem core_leaves_undeclared_refuted :
  exists m fid body m1 nid,
    aiter (m_elements m) = [] /\ undeclared_funcs m = Ok [] /\
    replace_exported_func_core m fid body = POk (m1, nid) /\
    exists f fs, undeclared_funcs m1 = Ok (f :: fs).
Proof.
  exists (x_mod []), 0%N, (fun _ => []),
         (fst (pres_get (x_mod [], 0%N) (replace_exported_func_core (x_mod []) 0%N (fun _ => [])))), 2%N.
  split; [reflexivity|]. split; [vm_compute; reflexivity|]. split; [vm_compute; reflexivity|].
  exists 0%N, []. vm_compute. reflexivity.
Qed.
(* ... and the whole edit on the same module declares function 0 in one new segment *)
Example x_mod_full : exists m', replace_exported_func (x_mod []) 0%N (fun _ => []) = POk (m', 2%N) /\
  undeclared_funcs m' = Ok [] /\ aiter (m_elements m') = [(0%N, decl_seg [0%N])].
Proof.
  exists (fst (pres_get (x_mod [], 0%N) (replace_exported_func (x_mod []) 0%N (fun _ => [])))).
  split; [vm_compute; reflexivity|]. split; vm_compute; reflexivity.
Qed.

(* the same, from a parsed stream *)
Definition x_stream : wmod :=
  [ S_Types [([], [])];
    S_Funcs [0%N; 0%N];
    S_Exports [{| we_name := [102%N]; we_kind := EK_Func; we_index := 0 |};
               {| we_name := [103%N]; we_kind := EK_Func; we_index := 1 |}];
    S_Code [{| wb_locals := []; wb_ops := [(WEnd, 1%N)] |};
            {| wb_locals := []; wb_ops := [(WOp (W_RefFunc 0), 2%N); (WOp W_Drop, 3%N); (WEnd, 4%N)] |}] ].
Definition x_parsed : wir :=
  match parseM default_config [49%N] x_stream with POk s => ps_m s | _ => empty_wir default_config end.

Theorem core_leaves_undeclared_after_parse_refuted :
  exists w s fid body m1 nid,
    parseM default_config [49%N] w = POk s /\
    aiter (m_elements (ps_m s)) = [] /\ undeclared_funcs (ps_m s) = Ok [] /\
    replace_exported_func_core (ps_m s) fid body = POk (m1, nid) /\
    exists f fs, undeclared_funcs m1 = Ok (f :: fs).
Proof.
  exists x_stream. 
  destruct (parseM default_config [49%N] x_stream) as [s| |] eqn:E; [|vm_compute in E; discriminate E..].
  assert (Hm : ps_m s = x_parsed) by (unfold x_parsed; rewrite E; reflexivity).
  exists s, 0%N, (fun _ => []),
         (fst (pres_get (x_parsed, 0%N) (replace_exported_func_core x_parsed 0%N (fun _ => [])))), 2%N.
  rewrite Hm. split; [reflexivity|].
  split; [vm_compute; reflexivity|]. split; [vm_compute; reflexivity|]. split; [vm_compute; reflexivity|].
  exists 0%N, []. vm_compute. reflexivity.
Qed.

(* ====================================================================================== *)
(* 6. The new step does not turn a successful core edit of a parsed module into a panic     *)
(* ====================================================================================== *)
(* the declare step fails only when the traversal of some live local function does *)
Lemma declare_total m :
  (forall id fn lf, aget (m_funcs m) id = Some fn -> fn_kind fn = FK_Local lf -> exists evs, lf_log lf = Ok evs) ->
  exists m', declare_referenced_funcs m = Ok m'.
Proof.
  intros H. unfold declare_referenced_funcs, undeclared_funcs, referenced_funcs.
  match goal with |- context [rmapM ?f ?l] => destruct (rmapM_total f l) as [bs Ebs] end.
  - intros [id fn] Hin. apply aiter_aget in Hin. cbn [snd].
    destruct (fn_kind fn) as [? ?|lf|?] eqn:Ek; [eauto| |eauto].
    destruct (H id fn lf Hin Ek) as [evs ->]. cbn [rmap]. eauto.
  - rewrite Ebs. cbn [rmap]. eauto.
Qed.
Lemma declare_total_conv m m' id fn lf :
  declare_referenced_funcs m = Ok m' -> aget (m_funcs m) id = Some fn -> fn_kind fn = FK_Local lf ->
  exists evs, lf_log lf = Ok evs.
Proof.
  intros Hd Hg Hk. destruct (declare_inv m m' Hd) as [fs [Hu _]].
  destruct (undeclared_funcs_inv m fs Hu) as [refd [Hr _]].
  destruct (referenced_funcs_inv m refd Hr) as [ls [El _]]. apply rmapM_ok_inv in El.
  apply aiter_aget in Hg. destruct (Forall2_in_l _ _ _ El _ Hg) as [l0 [_ Hr0]].
  unfold refs_of_fn in Hr0. cbn [snd] in Hr0. rewrite Hk in Hr0.
  destruct (lf_log lf) as [evs| |]; cbn [rmap] in Hr0; try discriminate Hr0. eauto.
Qed.

(* PREMISE NEEDED: the replacement body itself can be traversed (its [lf_log] is defined), i.e. the builder program
   attaches only sequences it created (no dangling/foreign InstrSeqId, no sequence attached twice).  The traversal of
   every parsed function is defined ([parsed_lf_log]), so nothing else can make the step fail. *)
Theorem replace_exported_no_panic_from_declare cf ver w s fid body m1 nid :
  Proofs.ParseTotal.valid_stream w -> parseM cf ver w = POk s ->
  replace_exported_func_core (ps_m s) fid body = POk (m1, nid) ->
  (forall fn lf, aget (m_funcs m1) nid = Some fn -> fn_kind fn = FK_Local lf -> exists evs, lf_log lf = Ok evs) ->
  exists m', replace_exported_func (ps_m s) fid body = POk (m', nid).
Proof.
  intros V E Hc Hnew.
  destruct (Proofs.TotalityBodies.parsed_lf_log cf ver w s V E) as [Hlog _].
  destruct (declare_total m1) as [m' Hd].
  - intros id fn lf Hg Hk.
    destruct (Proofs.Edit.replace_exported_run _ _ _ _ _ Hc) as (eid & f & lf0 & t & ty & ety & ar & e & R).
    pose proof (Proofs.Edit.er_funcs _ _ _ _ _ _ _ _ _ _ _ _ _ R) as Ef.
    pose proof (Proofs.Edit.er_nid _ _ _ _ _ _ _ _ _ _ _ _ _ R) as En.
    pose proof Hg as Hg'. rewrite Ef in Hg'. apply aget_app_inv in Hg'. destruct Hg' as [Hold|[Hid _]].
    + destruct (Hlog id fn lf Hold Hk) as (cx & ety' & l & eloc & _ & Hl). eauto.
    + rewrite <- En in Hid. subst id. exact (Hnew fn lf Hg Hk).
  - exists m'. eapply replace_exported_full_ok; eauto.
Qed.

(* the premise in terms of the builder program: the arena it builds can be traversed from the entry sequence *)
Corollary replace_exported_no_panic_from_declare_builder cf ver w s fid body m1 nid :
  Proofs.ParseTotal.valid_stream w -> parseM cf ver w = POk s ->
  replace_exported_func_core (ps_m s) fid body = POk (m1, nid) ->
  (forall f lf0 t m2 ty ety ar, aget (m_funcs (ps_m s)) fid = Some f -> fn_kind f = FK_Local lf0 ->
     types_get (ps_m s) (lf_ty lf0) = Some t -> builder_new (ps_m s) (ty_params t) (ty_results t) = (m2, ty, ety) ->
     run_builder ety (body (lf_args lf0)) = Ok ar ->
     exists evs, lf_log (Proofs.Edit.new_local_func ty (lf_args lf0) ar) = Ok evs) ->
  exists m', replace_exported_func (ps_m s) fid body = POk (m', nid).
Proof.
  intros V E Hc Hb. eapply replace_exported_no_panic_from_declare; eauto.
  intros fn lf Hg Hk.
  destruct (Proofs.Edit.replace_exported_run _ _ _ _ _ Hc) as (eid & f & lf0 & t & ty & ety & ar & e & R).
  destruct R. rewrite er_funcs in Hg. apply aget_app_inv in Hg. destruct Hg as [Hold|[_ ->]].
  - exfalso. apply Proofs.Edit.aget_lt in Hold. rewrite er_nid, Nat2N.id in Hold. lia.
  - cbn [fn_kind] in Hk. injection Hk as <-. eapply Hb; eauto.
Qed.

(* the premise cannot be dropped: a replacement body that attaches a sequence id it did not create is accepted by
   the core edit (which never looks inside the body) and makes the new step panic.  (Before the repair the same body
   made the next traversal - e.g. emit - panic instead.) *)
Example x_stream_valid : Proofs.ParseTotal.valid_stream x_stream.
Proof.
  unfold Proofs.ParseTotal.valid_stream, x_stream. cbn [Proofs.ParseTotal.valid_from]. unfold Proofs.ParseTotal.valid_sec.
  repeat match goal with |- _ /\ _ => split end;
    try (vm_compute; reflexivity); try exact I.
  cbn [Proofs.ParseTotal.cstep Proofs.ParseTotal.cstep0 Proofs.ParseTotal.set_last Proofs.ParseTotal.c_nt fold_left
       Proofs.ParseTotal.ctx0 length Nat.add].
  constructor; [exists [], 1%N; split; [reflexivity|exact I]|].
  constructor; [|constructor].
  exists [Model.ParseSpec.RPlain (W_RefFunc 0) 2%N; Model.ParseSpec.RPlain W_Drop 3%N], 4%N. split; [reflexivity|].
  cbn [Proofs.ParseTotal.swfl Proofs.ParseTotal.swf]. repeat split; try (cbn; lia); try (intros f H; vm_compute in H; discriminate H).
Qed.
Theorem replace_exported_no_panic_from_declare_refuted :
  exists w s fid body m1 nid,
    Proofs.ParseTotal.valid_stream w /\ parseM default_config [49%N] w = POk s /\
    replace_exported_func_core (ps_m s) fid body = POk (m1, nid) /\
    replace_exported_func (ps_m s) fid body = PPanic.
Proof.
  exists x_stream.
  destruct (parseM default_config [49%N] x_stream) as [s| |] eqn:E; [|vm_compute in E; discriminate E..].
  assert (Hm : ps_m s = x_parsed) by (unfold x_parsed; rewrite E; reflexivity).
  exists s, 0%N, (fun _ => [BInstr (IBlock 7%N)]),
         (fst (pres_get (x_parsed, 0%N) (replace_exported_func_core x_parsed 0%N (fun _ => [BInstr (IBlock 7%N)])))), 2%N.
  rewrite Hm. split; [exact x_stream_valid|]. split; [reflexivity|]. split; vm_compute; reflexivity.
Qed.

Print Assumptions replace_exported_spec_full.
Print Assumptions parse_then_replace_exported_full.
Print Assumptions replace_exported_declares_all_referenced_partial.
Print Assumptions replace_exported_declares_all_referenced_after_parse.
Print Assumptions replace_exported_declares_all_referenced_refuted.
Print Assumptions core_leaves_undeclared_refuted.
Print Assumptions core_leaves_undeclared_after_parse_refuted.
Print Assumptions replace_exported_no_panic_from_declare.
Print Assumptions replace_exported_no_panic_from_declare_builder.
Print Assumptions replace_exported_no_panic_from_declare_refuted.
