(* Z3: every non-local index immediate of an emitted operator is in range of the second parse's index spaces. *)
From Coq Require Import List NArith Bool Lia. Import ListNotations.
From WV Require Import Gen.Ops Model.Common Model.IR Model.ModuleM Model.ParseFn Model.ParseSpec Model.EmitFn
  Model.Traversal Model.ParseM Model.EmitM.
From WV Require Import Proofs.IndexMaps Proofs.Structure Proofs.Structure2 Proofs.Totality Proofs.ParseTotal Proofs.TotalityBodies
  Proofs.ModFix Proofs.ModFix7 Proofs.ModFix10 Proofs.ModFix12 Proofs.ModFix14 Proofs.ModFix15 Proofs.ModFix22 Proofs.ModFix13.
Local Open Scope nat_scope.

Lemma number_length ids : length (number ids) = length ids.
Proof. unfold number. rewrite combine_length, iota_length. lia. Qed.

Lemma find_bound ids id :
  existsb (fun p => N.eqb (fst p) id) (number ids) = true ->
  N.to_nat (match find (fun p => N.eqb (fst p) id) (number ids) with Some p => snd p | None => 4294967295%N end)
  < length (number ids).
Proof.
  intros H. apply existsb_exists in H. destruct H as (q & Hq & He).
  destruct (find (fun p => N.eqb (fst p) id) (number ids)) as [p|] eqn:E.
  - apply find_some in E. destruct E as [Hp _]. rewrite number_length.
    unfold number in Hp. destruct p as [a b]. apply in_combine_r in Hp. apply WV.Proofs.Totality.iota_In in Hp. exact Hp.
  - pose proof (find_none _ _ E _ Hq) as Hn. cbn beta in Hn. rewrite He in Hn. discriminate Hn.
Qed.

Lemma refs_ok_sp x lmap evs sp id : refs_ok x lmap evs = true -> In (ERef sp id) evs -> sp <> S_local ->
  existsb (fun p => N.eqb (fst p) id) (space_map x sp) = true.
Proof.
  unfold refs_ok. intros H Hin Hs. rewrite forallb_forall in H. specialize (H _ Hin). cbn beta iota in H.
  destruct sp; try exact H. now elim Hs.
Qed.
Lemma id2i_fun_sp x lmap sp id : sp <> S_local ->
  id2i_fun x lmap sp id = match find (fun p => N.eqb (fst p) id) (space_map x sp) with Some p => snd p | None => 4294967295%N end.
Proof. intros Hs. destruct sp; try reflexivity. now elim Hs. Qed.

Lemma final_maps_numbered m ilen e sp : emitM m ilen [] = Ok e -> sp <> S_local ->
  exists ids, space_map (em_x2i e) sp = number ids.
Proof.
  intros He Hs. destruct (emitM_x2i _ _ _ _ He) as (fs & _ & X1 & X2 & X3 & X4 & X5 & X6 & X7).
  destruct sp; cbn [space_map]; eauto. now elim Hs.
Qed.

Lemma space_ids_eq ids sp : space_ids ids sp = ids_space ids sp.
Proof. destruct sp; reflexivity. Qed.

(* Z3, with the counts as ONE named premise (ModFix7.counts_kept; ModFix13.counts_kept_holds proves it from two_trips) *)
Theorem emitted_refs_in_range : forall cf ver w s1 ilen e1 s2,
  valid_stream w -> parseM cf ver w = POk s1 -> emitM (ps_m s1) ilen [] = Ok e1 ->
  counts_kept e1 s2 ->
  refs_in_range (em_secs e1) (ps_ids s2).
Proof.
  intros cf ver w s1 ilen e1 s2 V P1 E1 CK bs b o loc Hbs Hb Ho sp i Hi Hs.
  destruct (emitM_x2i _ _ _ _ E1) as (fs & Hfs & _).
  destruct (emit_code_payload _ _ _ _ E1 Hfs) as (Hco & F & _ & _).
  assert (Hin : In b (flat_map code_of (em_secs e1))).
  { apply in_flat_map. exists (S_Code bs). split; [exact Hbs|exact Hb]. }
  rewrite Hco in Hin. apply in_map_iff in Hin. destruct Hin as (ef & <- & Hef).
  destruct (Forall2_In_r _ _ _ F ef Hef) as ([id lf] & Hp & Hemit). cbn [fst snd] in Hemit.
  destruct (ulf_in _ _ _ _ Hfs Hp) as (f1 & Hinf & Hk). apply aiter_aget in Hinf.
  destruct (first_trip_function cf ver w s1 ilen e1 id f1 lf ef V P1 Hinf Hk Hemit)
    as (t & ety & l & eloc & evs & decls & lmap & st & _ & Hw & Hpb & Hen & Hlog & _ & Hrok & Heb & Hbody & _).
  rewrite Hbody in Ho. cbn [wb_ops] in Ho.
  destruct (emitted_ops_structured _ _ _ _ _ _ _ _ _ _ Hw (enc_ok_all _ _) Hpb Heb) as (_ & _ & _ & _ & _ & Hfst & _ & _).
  assert (Hout : In (WOp o) (out st)).
  { rewrite <- Hfst. apply in_map_iff. exists (WOp o, loc). split; [reflexivity|exact Ho]. }
  unfold lf_log in Hlog. rewrite Hen in Hlog.
  destruct (emitted_refs _ _ _ _ _ _ _ _ _ _ _ _ o Hw Hpb Heb Hlog Hout sp i Hi) as (rid & Hev & ->).
  cbn [ecx_of ex_id2i]. rewrite (id2i_fun_sp _ _ _ _ Hs).
  pose proof (refs_ok_sp _ _ _ _ _ Hrok Hev Hs) as Hex.
  destruct (final_maps_numbered _ _ _ sp E1 Hs) as (ids & Eids).
  rewrite Eids in Hex |- *. pose proof (find_bound _ _ Hex) as Hb1.
  specialize (CK sp). rewrite Eids in CK. rewrite space_ids_eq. lia.
Qed.

Print Assumptions emitted_refs_in_range.

(* with both trips available the premise is ModFix13.counts_kept_holds *)
Corollary emitted_refs_in_range_tt : forall cf ver w ilen s1 e1 s2 e2,
  valid_stream w -> two_trips cf ver w ilen s1 e1 s2 e2 -> refs_in_range (em_secs e1) (ps_ids s2).
Proof.
  intros cf ver w ilen s1 e1 s2 e2 V TT. pose proof TT as (P1 & E1 & _ & _).
  eapply emitted_refs_in_range; try eassumption. eapply counts_kept_holds; exact TT.
Qed.
Print Assumptions emitted_refs_in_range_tt.
