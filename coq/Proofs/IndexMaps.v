(* C19 / T-index: the index maps.
   Part 1: the parse-time maps (IndicesToIds, [i2ids]) return, for each index space, the entity
           the input defines at that index.
   Part 2: the emit-time maps (IdsToIndices, [x2i]) return the position at which each entity is
           emitted.
   Part 3: sufficient conditions under which the section emitters never hit an
           "index not set" panic. *)
From Coq Require Import List NArith ZArith Bool Arith Lia Permutation Sorted.
Import ListNotations.
From WV Require Import Gen.Ops Model.Common Model.IR Model.Arena Model.Traversal Model.EmitFn Model.Locals
                       Model.ParseFn Model.ModuleM Model.ParseM Model.EmitM Gen.Attrs.
From WV Require Import Proofs.Arena Proofs.Order.
Local Open Scope nat_scope.

(* ====================================================================================== *)
(* Part 1: parse-time maps                                                                  *)
(* ====================================================================================== *)

Definition iota (n : nat) : list N := map N.of_nat (seq 0 n).

Lemma iota_S n : iota (S n) = iota n ++ [N.of_nat n].
Proof. unfold iota. rewrite seq_S, map_app. reflexivity. Qed.
Lemma iota_length n : length (iota n) = n.
Proof. unfold iota. rewrite map_length, seq_length. reflexivity. Qed.
Lemma iota_nth n k : k < n -> nth_error (iota n) k = Some (N.of_nat k).
Proof.
  intros H. unfold iota. rewrite nth_error_map.
  rewrite (nth_error_nth' (seq 0 n) 0) by (rewrite seq_length; exact H).
  rewrite seq_nth by exact H. reflexivity.
Qed.

Definition ids_consistent (m : wir) (ids : i2ids) : Prop :=
  ii_funcs ids = iota (length (items (m_funcs m))) /\ ii_tables ids = iota (length (items (m_tables m))) /\
  ii_memories ids = iota (length (items (m_memories m))) /\ ii_globals ids = iota (length (items (m_globals m))) /\
  ii_elements ids = iota (length (items (m_elements m))) /\ ii_data ids = iota (length (items (m_data m))) /\
  dead (m_funcs m) = [] /\ dead (m_tables m) = [] /\ dead (m_memories m) = [] /\ dead (m_globals m) = [] /\
  dead (m_elements m) = [] /\ dead (m_data m) = [] /\ dead (m_imports m) = [] /\ dead (m_exports m) = [] /\
  dead (Arena.arena (m_types m)) = [].

(* projections of the plain-rebuild record helpers *)
Ltac wcbn :=
  cbn [ps_m ps_ids ps_bodies ps_names ps_calls_on_parse with_m with_ids
       set_types set_imports set_funcs set_tables set_memories set_globals set_locals set_exports set_data
       set_elements set_start set_producers set_customs set_debug set_name
       m_imports m_tables m_types m_funcs m_globals m_locals m_exports m_memories m_data m_elements m_start
       m_producers m_customs m_debug m_name m_config m_code_section_offset
       ii_tables ii_types ii_funcs ii_globals ii_memories ii_elements ii_data ii_locals
       push_func push_table push_memory push_global push_element push_data push_local
       items dead Arena.arena already aset_at aalloc alloc next_id anext fst snd] in *.

Ltac idc_split :=
  repeat match goal with
         | H : ids_consistent _ _ |- _ => unfold ids_consistent in H; decompose [and] H; clear H
         end;
  unfold ids_consistent; wcbn;
  repeat match goal with |- _ /\ _ => split end.

Ltac idc_one :=
  unfold anext, next_id; repeat (rewrite app_length || rewrite upd_length); cbn [length]; rewrite ?Nat.add_1_r, ?iota_S;
  first [assumption | congruence].

Ltac idc_solve := idc_split; idc_one.

Lemma pbind_ok {A B} (r : pres A) (f : A -> pres B) b :
  pbind r f = POk b -> exists a, r = POk a /\ f a = POk b.
Proof. destruct r; cbn; try discriminate. intros H. eauto. Qed.

Lemma of_opt_err_ok {A} (o : option A) a : of_opt_err o = POk a -> o = Some a.
Proof. destruct o; cbn; congruence. Qed.
Lemma of_opt_panic_ok {A} (o : option A) a : of_opt_panic o = POk a -> o = Some a.
Proof. destruct o; cbn; congruence. Qed.

Tactic Notation "pinv" hyp(H) "as" ident(a) ident(E) :=
  apply pbind_ok in H; destruct H as [a [E H]].
Tactic Notation "pinv" hyp(H) :=
  let a := fresh "a" in let E := fresh "E" in
  apply pbind_ok in H; destruct H as [a [E H]].

Lemma idc_empty cf : ids_consistent (empty_wir cf) empty_i2ids.
Proof. unfold ids_consistent. cbn. repeat split. Qed.

(* --- types *)
Lemma types_insert_dead m t m1 id :
  types_insert m t = (m1, id) ->
  m1 = set_types m (m_types m1) /\ dead (Arena.arena (m_types m1)) = dead (Arena.arena (m_types m)).
Proof.
  unfold types_insert, insert. destruct (lookup mtype_eqb (already (m_types m)) t).
  - intros H; inversion H; subst; clear H. wcbn. auto.
  - wcbn. intros H; inversion H; subst; clear H. wcbn. auto.
Qed.

Lemma types_insert_idc m ids t m1 id :
  ids_consistent m ids -> types_insert m t = (m1, id) -> ids_consistent m1 ids.
Proof.
  intros H E. apply types_insert_dead in E. destruct E as [E1 E2]. rewrite E1.
  idc_split; idc_one.
Qed.

Lemma parse_types_idc : forall ts m ids m' ids',
  ids_consistent m ids -> parse_types m ids ts = (m', ids') -> ids_consistent m' ids'.
Proof.
  induction ts as [|[ps rs] r IH]; intros m ids m' ids' H E; cbn [parse_types] in E.
  - inversion E; subst; exact H.
  - destruct (types_insert m _) as [m1 id] eqn:Et.
    eapply IH; [|exact E]. pose proof (types_insert_idc _ _ _ _ _ H Et) as H1.
    clear - H1. idc_solve.
Qed.

(* --- imports *)
Lemma parse_import_idc m ids i m' ids' :
  ids_consistent m ids -> parse_import m ids i = POk (m', ids') -> ids_consistent m' ids'.
Proof.
  intros H E. unfold parse_import in E. destruct (wi_kind i).
  - pinv E. wcbn. inversion E; subst; clear E. idc_solve.
  - wcbn. inversion E; subst; clear E. idc_solve.
  - wcbn. inversion E; subst; clear E. idc_solve.
  - wcbn. inversion E; subst; clear E. idc_solve.
Qed.

Lemma parse_imports_idc : forall l m ids m' ids',
  ids_consistent m ids -> parse_imports m ids l = POk (m', ids') -> ids_consistent m' ids'.
Proof.
  induction l as [|i r IH]; intros m ids m' ids' H E; cbn [parse_imports] in E.
  - inversion E; subst; exact H.
  - pinv E. destruct a as [m1 ids1]. eapply IH; [|exact E]. eapply parse_import_idc; eauto.
Qed.

(* --- functions *)
Lemma parse_funcs_idc : forall l m ids m' ids',
  ids_consistent m ids -> parse_funcs m ids l = POk (m', ids') -> ids_consistent m' ids'.
Proof.
  induction l as [|ty r IH]; intros m ids m' ids' H E; cbn [parse_funcs] in E.
  - inversion E; subst; exact H.
  - pinv E. wcbn. eapply IH; [|exact E]. clear E IH.
    destruct (synth _ _ _); idc_solve.
Qed.

Lemma parse_tables_idc : forall l m ids m' ids',
  ids_consistent m ids -> parse_tables m ids l = (m', ids') -> ids_consistent m' ids'.
Proof.
  induction l as [|t r IH]; intros m ids m' ids' H E; cbn [parse_tables] in E.
  - inversion E; subst; exact H.
  - wcbn. eapply IH; [|exact E]. clear E IH. idc_solve.
Qed.

Lemma parse_mems_idc : forall l m ids m' ids',
  ids_consistent m ids -> parse_mems m ids l = (m', ids') -> ids_consistent m' ids'.
Proof.
  induction l as [|t r IH]; intros m ids m' ids' H E; cbn [parse_mems] in E.
  - inversion E; subst; exact H.
  - wcbn. eapply IH; [|exact E]. clear E IH. idc_solve.
Qed.

Lemma parse_globals_idc : forall l m ids m' ids',
  ids_consistent m ids -> parse_globals m ids l = POk (m', ids') -> ids_consistent m' ids'.
Proof.
  induction l as [|[g c] r IH]; intros m ids m' ids' H E; cbn [parse_globals] in E.
  - inversion E; subst; exact H.
  - pinv E. wcbn. eapply IH; [|exact E]. clear E IH. idc_solve.
Qed.

Lemma parse_exports_idc : forall l m ids m',
  ids_consistent m ids -> parse_exports m ids l = POk m' -> ids_consistent m' ids.
Proof.
  induction l as [|e r IH]; intros m ids m' H E; cbn [parse_exports] in E.
  - inversion E; subst; exact H.
  - pinv E. wcbn. eapply IH; [|exact E]. clear E IH. idc_solve.
Qed.

Lemma parse_elem_idc m ids e m' ids' :
  ids_consistent m ids -> parse_elem m ids e = POk (m', ids') -> ids_consistent m' ids'.
Proof.
  intros H E. unfold parse_elem in E. pinv E as its Eits. pinv E as mk Emk. destruct mk as [m1 kind].
  wcbn. inversion E; subst; clear E.
  assert (H1 : ids_consistent m1 ids).
  { destruct (wel_kind e).
    - inversion Emk; subst; exact H.
    - inversion Emk; subst; exact H.
    - pinv Emk as tid Etid. pinv Emk as tb Etb. pinv Emk as o Eo. pinv Emk as ok Eok. destruct ok; [|discriminate].
      inversion Emk; subst; clear Emk. clear - H. idc_solve. }
  clear - H1. idc_solve.
Qed.

Lemma parse_elems_idc : forall l m ids m' ids',
  ids_consistent m ids -> parse_elems m ids l = POk (m', ids') -> ids_consistent m' ids'.
Proof.
  induction l as [|i r IH]; intros m ids m' ids' H E; cbn [parse_elems] in E.
  - inversion E; subst; exact H.
  - pinv E. destruct a as [m1 ids1]. eapply IH; [|exact E]. eapply parse_elem_idc; eauto.
Qed.

Lemma reserve_data_idc : forall n m ids m' ids',
  ids_consistent m ids -> reserve_data m ids n = (m', ids') -> ids_consistent m' ids'.
Proof.
  induction n as [|n IH]; intros m ids m' ids' H E; cbn [reserve_data] in E.
  - inversion E; subst; exact H.
  - wcbn. eapply IH; [|exact E]. clear E IH. idc_solve.
Qed.

Lemma parse_data_from_idc : forall l m ids pre i m' ids',
  ids_consistent m ids -> parse_data_from m ids pre i l = POk (m', ids') -> ids_consistent m' ids'.
Proof.
  induction l as [|d r IH]; intros m ids pre i m' ids' H E; cbn [parse_data_from] in E.
  - inversion E; subst; exact H.
  - pinv E as x Ex. destruct x as [[m1 ids1] id]. pinv E as y Ey. destruct y as [m2 kind]. pinv E as u Eu.
    eapply IH; [|exact E]. clear E IH Eu.
    assert (H1 : ids_consistent m1 ids1).
    { destruct pre.
      - pinv Ex as z Ez. inversion Ex; subst; exact H.
      - wcbn. inversion Ex; subst; clear Ex. clear - H. idc_solve. }
    assert (H2 : ids_consistent m2 ids1).
    { destruct (wd_kind d).
      - inversion Ey; subst; exact H1.
      - pinv Ey as mid Emid. pinv Ey as mm Emm. pinv Ey as o Eo. pinv Ey as ok Eok. destruct ok; [|discriminate].
        inversion Ey; subst; clear Ey. clear - H1. idc_solve. }
    clear - H2. idc_solve.
Qed.

Lemma parse_sec_idc s sec s' :
  ids_consistent (ps_m s) (ps_ids s) -> parse_sec s sec = POk s' -> ids_consistent (ps_m s') (ps_ids s').
Proof.
  intros H E. unfold parse_sec in E. destruct sec.
  - destruct (parse_types _ _ _) as [m1 i1] eqn:Ep. inversion E; subst; clear E. wcbn.
    eapply parse_types_idc; eauto.
  - pinv E. destruct a as [m1 i1]. inversion E; subst; clear E. wcbn. eapply parse_imports_idc; eauto.
  - pinv E. destruct a as [m1 i1]. inversion E; subst; clear E. wcbn. eapply parse_funcs_idc; eauto.
  - destruct (parse_tables _ _ _) as [m1 i1] eqn:Ep. inversion E; subst; clear E. wcbn.
    eapply parse_tables_idc; eauto.
  - destruct (parse_mems _ _ _) as [m1 i1] eqn:Ep. inversion E; subst; clear E. wcbn.
    eapply parse_mems_idc; eauto.
  - pinv E. destruct a as [m1 i1]. inversion E; subst; clear E. wcbn. eapply parse_globals_idc; eauto.
  - pinv E. inversion E; subst; clear E. wcbn. eapply parse_exports_idc; eauto.
  - pinv E. inversion E; subst; clear E. clear - H. idc_solve.
  - pinv E. destruct a as [m1 i1]. inversion E; subst; clear E. wcbn. eapply parse_elems_idc; eauto.
  - destruct (reserve_data _ _ _) as [m1 i1] eqn:Ep. inversion E; subst; clear E. wcbn.
    eapply reserve_data_idc; eauto.
  - inversion E; subst; clear E. wcbn. exact H.
  - pinv E. destruct a as [m1 i1]. inversion E; subst; clear E. wcbn.
    unfold parse_data in E0. eapply parse_data_from_idc; eauto.
  - inversion E; subst; clear E. unfold parse_custom.
    destruct c as [n d|n d|[n|]|[p|]]; wcbn; try exact H; clear - H; idc_solve.
Qed.

Theorem parse_secs_ids : forall w s s',
  ids_consistent (ps_m s) (ps_ids s) -> parse_secs s w = POk s' -> ids_consistent (ps_m s') (ps_ids s').
Proof.
  induction w as [|x r IH]; intros s s' H E; cbn [parse_secs] in E.
  - inversion E; subst; exact H.
  - pinv E. eapply IH; [|exact E]. eapply parse_sec_idc; eauto.
Qed.

(* --- after the payload loop: locals, bodies, names only rewrite items in place *)
Lemma add_locals_idc : forall tys m ids fid pre m' ids' l,
  ids_consistent m ids -> add_locals m ids fid tys pre = (m', ids', l) -> ids_consistent m' ids'.
Proof.
  induction tys as [|t r IH]; intros m ids fid pre m' ids' l H E; cbn [add_locals] in E.
  - inversion E; subst; exact H.
  - wcbn. destruct (add_locals _ _ fid r pre) as [[m1 ids1] rest] eqn:Ea.
    inversion E; subst; clear E. eapply IH; [|exact Ea]. clear Ea IH. idc_solve.
Qed.

Lemma prepare_bodies_idc : forall bs m ids ni i m' ids' ps,
  ids_consistent m ids -> prepare_bodies m ids ni i bs = POk (m', ids', ps) -> ids_consistent m' ids'.
Proof.
  induction bs as [|b r IH]; intros m ids ni i m' ids' ps H E; cbn [prepare_bodies] in E.
  - inversion E; subst; exact H.
  - pinv E as fid Efid. pinv E as f Ef. destruct (fn_kind f); try discriminate.
    pinv E as t Et.
    destruct (add_locals m ids fid (ty_params t) _) as [[m1 ids1] args] eqn:E1.
    destruct (types_insert m1 _) as [m2 tid] eqn:E2.
    destruct (add_locals m2 ids1 fid _ _) as [[m3 ids3] ls] eqn:E3.
    pinv E as x Ex. destruct x as [[m4 ids4] rest]. inversion E; subst; clear E.
    eapply IH; [|exact Ex].
    eapply add_locals_idc; [|exact E3]. eapply types_insert_idc; [|exact E2].
    eapply add_locals_idc; [|exact E1]. exact H.
Qed.

Lemma install_bodies_idc : forall ps m ids m',
  ids_consistent m ids -> install_bodies m ids ps = POk m' -> ids_consistent m' ids.
Proof.
  induction ps as [|p r IH]; intros m ids m' H E; cbn [install_bodies] in E.
  - inversion E; subst; exact H.
  - pinv E as lf Elf. eapply IH; [|exact E]. clear - H. idc_solve.
Qed.

Lemma apply_names_shape {A} (setn : A -> ModuleM.str -> A) (idx2id : list N) : forall (l : namemap) (a : tarena A),
  length (items (apply_names a idx2id setn l)) = length (items a) /\ dead (apply_names a idx2id setn l) = dead a.
Proof.
  induction l as [|[i n] r IH]; intros a; cbn [apply_names]; [auto|].
  destruct (nth_N idx2id i); [|apply IH].
  destruct (IH (aset_at a n0 (fun x => setn x n))) as [H1 H2]. rewrite H1, H2. wcbn.
  rewrite upd_length. auto.
Qed.

Lemma apply_local_names_idc : forall l m ids ids0 m',
  ids_consistent m ids0 -> apply_local_names m ids l = Some m' -> ids_consistent m' ids0.
Proof.
  induction l as [|[fi names] r IH]; intros m ids ids0 m' H E; cbn [apply_local_names] in E.
  - inversion E; subst; exact H.
  - destruct (nth_N (ii_funcs ids) fi); [|eapply IH; eassumption]. eapply IH; [|exact E]. clear - H. idc_solve.
Qed.

Lemma idc_set_funcs m a ids : ids_consistent m ids ->
  length (items a) = length (items (m_funcs m)) /\ dead a = dead (m_funcs m) -> ids_consistent (set_funcs m a) ids.
Proof. intros H [L D]. idc_split; try idc_one. Qed.
Lemma idc_set_tables m a ids : ids_consistent m ids ->
  length (items a) = length (items (m_tables m)) /\ dead a = dead (m_tables m) -> ids_consistent (set_tables m a) ids.
Proof. intros H [L D]. idc_split; try idc_one. Qed.
Lemma idc_set_memories m a ids : ids_consistent m ids ->
  length (items a) = length (items (m_memories m)) /\ dead a = dead (m_memories m) -> ids_consistent (set_memories m a) ids.
Proof. intros H [L D]. idc_split; try idc_one. Qed.
Lemma idc_set_globals m a ids : ids_consistent m ids ->
  length (items a) = length (items (m_globals m)) /\ dead a = dead (m_globals m) -> ids_consistent (set_globals m a) ids.
Proof. intros H [L D]. idc_split; try idc_one. Qed.
Lemma idc_set_elements m a ids : ids_consistent m ids ->
  length (items a) = length (items (m_elements m)) /\ dead a = dead (m_elements m) -> ids_consistent (set_elements m a) ids.
Proof. intros H [L D]. idc_split; try idc_one. Qed.
Lemma idc_set_data m a ids : ids_consistent m ids ->
  length (items a) = length (items (m_data m)) /\ dead a = dead (m_data m) -> ids_consistent (set_data m a) ids.
Proof. intros H [L D]. idc_split; try idc_one. Qed.
Lemma idc_set_types m s ids : ids_consistent m ids ->
  dead (Arena.arena s) = dead (Arena.arena (m_types m)) -> ids_consistent (set_types m s) ids.
Proof. intros H D. idc_split; try idc_one. Qed.

Lemma parse_names_idc m ids ids0 n : ids_consistent m ids0 -> ids_consistent (parse_names m ids n) ids0.
Proof.
  intros H. unfold parse_names.
  set (m1 := match wn_module n with Some s => set_name m (Some s) | None => m end).
  assert (H1 : ids_consistent m1 ids0) by (subst m1; destruct (wn_module n); [clear - H; idc_solve|exact H]).
  clearbody m1. clear H. cbv zeta.
  match goal with |- context [apply_local_names ?mm _ _] => set (m2 := mm) end.
  assert (H2 : ids_consistent m2 ids0) by (subst m2; apply idc_set_funcs; [exact H1|apply apply_names_shape]).
  clearbody m2. clear H1.
  destruct (apply_local_names m2 ids (wn_locals n)) as [m3|] eqn:E3; [|exact H2].
  pose proof (apply_local_names_idc _ _ _ _ _ H2 E3) as H3. clear H2 E3.
  apply idc_set_data; [|apply apply_names_shape].
  apply idc_set_elements; [|apply apply_names_shape].
  apply idc_set_globals; [|apply apply_names_shape].
  apply idc_set_memories; [|apply apply_names_shape].
  apply idc_set_tables; [|apply apply_names_shape].
  apply idc_set_types; [exact H3|]. wcbn. apply apply_names_shape.
Qed.

Theorem parseM_ids : forall cf ver w s, parseM cf ver w = POk s -> ids_consistent (ps_m s) (ps_ids s).
Proof.
  intros cf ver w s E. unfold parseM in E. pinv E as s1 E1.
  apply parse_secs_ids in E1; [|apply idc_empty].
  destruct (_ <? _)%N; [discriminate|].
  pinv E as x Ex. destruct x as [[m1 ids1] prepared]. pinv E as m2 E2. inversion E; subst; clear E. wcbn.
  apply prepare_bodies_idc in Ex; [|exact E1]. apply install_bodies_idc in E2; [|exact Ex].
  assert (H : forall l m, ids_consistent m ids1 -> ids_consistent (fold_left (fun m n => parse_names m ids1 n) l m) ids1).
  { induction l as [|n r IH]; intros m H; cbn [fold_left]; [exact H|]. apply IH, parse_names_idc, H. }
  specialize (H (ps_names s1) m2 E2). clear - H. idc_solve.
Qed.

(* ---------------------------------------------------------------- types: index -> the i-th type *)
Lemma valty_eqb'_eq a b : valty_eqb' a b = true <-> a = b.
Proof. split; [destruct a, b; cbn; congruence|intros ->; apply N.eqb_refl]. Qed.
Lemma vl_eqb_eq : forall a b, vl_eqb a b = true <-> a = b.
Proof.
  induction a as [|x a IH]; intros [|y b]; cbn [vl_eqb]; try (split; congruence).
  rewrite andb_true_iff, valty_eqb'_eq, IH. split; [intros [-> ->]; reflexivity|intros H; inversion H; auto].
Qed.
(* the ArenaSet key equality is equality of (params, results, entry) *)
Lemma mtype_eqb_spec a b :
  mtype_eqb a b = true <-> ty_params a = ty_params b /\ ty_results a = ty_results b /\ ty_entry a = ty_entry b.
Proof.
  unfold mtype_eqb. rewrite !andb_true_iff, !vl_eqb_eq, eqb_true_iff. tauto.
Qed.

(* what the type arena must satisfy for [insert]'s de-duplication to be meaningful: nothing is dead and
   the `already_in_arena` map points at items equal (as keys) to the recorded key *)
Definition types_wf (s : aset mtype) : Prop :=
  dead (Arena.arena s) = [] /\
  forall k id, In (k, id) (already s) ->
    exists k', nth_error (items (Arena.arena s)) id = Some k' /\ mtype_eqb k k' = true.

Lemma types_wf_empty : types_wf aset_empty.
Proof. split; [reflexivity|intros k id []]. Qed.

Lemma lookup_In_eqb (l : list (mtype * nat)) v id :
  lookup mtype_eqb l v = Some id -> exists k, In (k, id) l /\ mtype_eqb k v = true.
Proof.
  induction l as [|[k i] r IH]; cbn [lookup]; [discriminate|].
  destruct (mtype_eqb k v) eqn:E.
  - intros H; inversion H; subst. exists k. split; [left; reflexivity|exact E].
  - intros H. destruct (IH H) as [k' [Hin He]]. exists k'. split; [right; exact Hin|exact He].
Qed.

Lemma mtype_eqb_trans a b c : mtype_eqb a b = true -> mtype_eqb b c = true -> mtype_eqb a c = true.
Proof. rewrite !mtype_eqb_spec. intuition congruence. Qed.
Lemma mtype_eqb_sym a b : mtype_eqb a b = true -> mtype_eqb b a = true.
Proof. rewrite !mtype_eqb_spec. intuition congruence. Qed.

Lemma aset_index_nodead (s : aset mtype) id :
  dead (Arena.arena s) = [] -> aset_index s id = nth_error (items (Arena.arena s)) id.
Proof. intros H. unfold aset_index, index, get, is_dead. rewrite H. reflexivity. Qed.

Lemma types_insert_spec m t m1 id :
  types_wf (m_types m) -> types_insert m t = (m1, id) ->
  types_wf (m_types m1) /\
  (forall i x, nth_error (items (Arena.arena (m_types m))) i = Some x ->
               nth_error (items (Arena.arena (m_types m1))) i = Some x) /\
  exists ty, nth_error (items (Arena.arena (m_types m1))) (N.to_nat id) = Some ty /\ mtype_eqb t ty = true.
Proof.
  intros [Hd Ha] E. unfold types_insert, insert in E.
  destruct (lookup mtype_eqb (already (m_types m)) t) as [i|] eqn:El.
  - inversion E; subst; clear E. wcbn. split; [split; assumption|]. split; [auto|].
    rewrite Nat2N.id. destruct (lookup_In_eqb _ _ _ El) as [k [Hin He]].
    destruct (Ha _ _ Hin) as [k' [Hn Hk]]. exists k'. split; [exact Hn|].
    eapply mtype_eqb_trans; [apply mtype_eqb_sym; exact He|exact Hk].
  - wcbn. inversion E; subst; clear E. wcbn. split; [split; [exact Hd|]|split].
    + intros k i [Hin|Hin]; wcbn; unfold next_id in *.
      * inversion Hin; subst. exists k. rewrite nth_error_app2, Nat.sub_diag by lia.
        split; [reflexivity|]. apply mtype_eqb_spec. auto.
      * destruct (Ha _ _ Hin) as [k' [Hn Hk]]. exists k'. split; [|exact Hk].
        rewrite nth_error_app1; [exact Hn|]. apply nth_error_Some. congruence.
    + intros i x Hn. rewrite nth_error_app1; [exact Hn|]. apply nth_error_Some. congruence.
    + exists t. unfold next_id. rewrite Nat2N.id, nth_error_app2, Nat.sub_diag by lia.
      split; [reflexivity|]. apply mtype_eqb_spec. auto.
Qed.

Lemma parse_types_frame : forall ts m ids m' ids',
  types_wf (m_types m) -> parse_types m ids ts = (m', ids') ->
  types_wf (m_types m') /\
  (forall i x, nth_error (items (Arena.arena (m_types m))) i = Some x ->
               nth_error (items (Arena.arena (m_types m'))) i = Some x) /\
  (exists l, ii_types ids' = ii_types ids ++ l /\ length l = length ts).
Proof.
  induction ts as [|[ps rs] r IH]; intros m ids m' ids' W E; cbn [parse_types] in E.
  - inversion E; subst. split; [exact W|]. split; [auto|]. exists []. rewrite app_nil_r. auto.
  - destruct (types_insert m _) as [m1 id] eqn:Et.
    destruct (types_insert_spec _ _ _ _ W Et) as [W1 [K1 _]].
    destruct (IH _ _ _ _ W1 E) as [W2 [K2 [l [El Ll]]]]. wcbn.
    split; [exact W2|]. split; [auto|]. exists (id :: l). rewrite El, <- app_assoc. cbn. auto.
Qed.

Theorem parse_types_spec : forall ts m ids m' ids',
  types_wf (m_types m) -> parse_types m ids ts = (m', ids') ->
  forall k t, nth_error ts k = Some t ->
  exists id ty, nth_error (ii_types ids') (length (ii_types ids) + k) = Some id /\
                aset_index (m_types m') (N.to_nat id) = Some ty /\
                ty_params ty = fst t /\ ty_results ty = snd t /\ ty_entry ty = false.
Proof.
  induction ts as [|[ps rs] r IH]; intros m ids m' ids' W E k t Hk; [destruct k; discriminate|].
  cbn [parse_types] in E. destruct (types_insert m _) as [m1 id] eqn:Et.
  destruct (types_insert_spec _ _ _ _ W Et) as [W1 [K1 [ty [Hty Heq]]]].
  destruct (parse_types_frame _ _ _ _ _ W1 E) as [W2 [K2 [l [El Ll]]]]. wcbn.
  destruct k as [|k].
  - cbn in Hk. inversion Hk; subst t; clear Hk. exists id, ty.
    rewrite El, <- app_assoc, Nat.add_0_r, nth_error_app2, Nat.sub_diag by lia.
    split; [reflexivity|]. rewrite aset_index_nodead by apply W2. split; [apply K2; exact Hty|].
    apply mtype_eqb_spec in Heq. cbn in Heq. cbn [fst snd]. intuition congruence.
  - cbn [nth_error] in Hk. destruct (IH _ _ _ _ W1 E k t Hk) as [id' [ty' [H1 H2]]].
    exists id', ty'. wcbn. rewrite app_length in H1. cbn [length] in H1.
    replace (length (ii_types ids) + S k) with (length (ii_types ids) + 1 + k) by lia. auto.
Qed.

(* the statement with only "nothing is dead" as premise is false: the de-duplication map must be sound *)
Definition bad_types : aset mtype :=
  {| Arena.arena := empty; already := [({| ty_params := []; ty_results := []; ty_entry := false; ty_name := None |}, 5)] |}.
Theorem parse_types_spec_refuted :
  exists m ids ts m' ids', dead (Arena.arena (m_types m)) = [] /\ parse_types m ids ts = (m', ids') /\
    exists k t, nth_error ts k = Some t /\
      ~ exists id ty, nth_error (ii_types ids') (length (ii_types ids) + k) = Some id /\
                      aset_index (m_types m') (N.to_nat id) = Some ty.
Proof.
  exists (set_types (empty_wir default_config) bad_types), empty_i2ids, [([], [])].
  eexists; eexists. split; [reflexivity|]. split; [reflexivity|].
  exists 0, ([], []). split; [reflexivity|]. intros [id [ty [H1 H2]]].
  cbn in H1. inversion H1; subst. cbn in H2. discriminate.
Qed.

(* the invariant is established by parsing: the payload loop keeps [types_wf] *)
Lemma parse_types_wf ts m ids m' ids' :
  types_wf (m_types m) -> parse_types m ids ts = (m', ids') -> types_wf (m_types m').
Proof. intros W E. apply (parse_types_frame _ _ _ _ _ W E). Qed.

(* ---------------------------------------------------------------- the entities themselves *)
Theorem parse_tables_spec : forall m ids l m' ids', parse_tables m ids l = (m', ids') ->
  items (m_tables m') = items (m_tables m) ++ map gen_parse_table_local l.
Proof.
  intros m ids l. revert m ids. induction l as [|t r IH]; intros m ids m' ids' E; cbn [parse_tables] in E.
  - inversion E; subst. cbn. rewrite app_nil_r. reflexivity.
  - wcbn. apply IH in E. wcbn. rewrite E, <- app_assoc. reflexivity.
Qed.

Theorem parse_mems_spec : forall m ids l m' ids', parse_mems m ids l = (m', ids') ->
  items (m_memories m') = items (m_memories m) ++ map gen_parse_memory_local l.
Proof.
  intros m ids l. revert m ids. induction l as [|t r IH]; intros m ids m' ids' E; cbn [parse_mems] in E.
  - inversion E; subst. cbn. rewrite app_nil_r. reflexivity.
  - wcbn. apply IH in E. wcbn. rewrite E, <- app_assoc. reflexivity.
Qed.

(* imports: [base] = the id the next import will get (its position in m_imports) *)
Fixpoint imp_tables (base : nat) (l : list wimport) : list mtable :=
  match l with
  | [] => []
  | i :: r => match wi_kind i with WI_Table t => [gen_parse_table_import t (N.of_nat base)] | _ => [] end
              ++ imp_tables (S base) r
  end.
Fixpoint imp_mems (base : nat) (l : list wimport) : list mmem :=
  match l with
  | [] => []
  | i :: r => match wi_kind i with WI_Mem t => [gen_parse_memory_import t (N.of_nat base)] | _ => [] end
              ++ imp_mems (S base) r
  end.
Fixpoint imp_globals (base : nat) (l : list wimport) : list mglobal :=
  match l with
  | [] => []
  | i :: r => match wi_kind i with WI_Global t => [gen_parse_global_import t (N.of_nat base)] | _ => [] end
              ++ imp_globals (S base) r
  end.
Fixpoint imp_funcs (tys : list N) (base : nat) (l : list wimport) : list mfunc :=
  match l with
  | [] => []
  | i :: r => match wi_kind i with
              | WI_Func ti => match nth_N tys ti with
                              | Some ty => [{| fn_kind := FK_Import (N.of_nat base) ty; fn_name := None |}]
                              | None => [] end
              | _ => [] end
              ++ imp_funcs tys (S base) r
  end.
(* the import records: each refers to the entity created for it (the arena's next id at that moment) *)
Fixpoint imp_entries (nf nt nm ng : nat) (l : list wimport) : list mimport :=
  match l with
  | [] => []
  | i :: r =>
      match wi_kind i with
      | WI_Func _ => {| im_module := wi_module i; im_name := wi_name i; im_kind := MI_Func (N.of_nat nf) |} :: imp_entries (S nf) nt nm ng r
      | WI_Table _ => {| im_module := wi_module i; im_name := wi_name i; im_kind := MI_Table (N.of_nat nt) |} :: imp_entries nf (S nt) nm ng r
      | WI_Mem _ => {| im_module := wi_module i; im_name := wi_name i; im_kind := MI_Mem (N.of_nat nm) |} :: imp_entries nf nt (S nm) ng r
      | WI_Global _ => {| im_module := wi_module i; im_name := wi_name i; im_kind := MI_Global (N.of_nat ng) |} :: imp_entries nf nt nm (S ng) r
      end
  end.

Theorem parse_imports_spec : forall l m ids m' ids', parse_imports m ids l = POk (m', ids') ->
  let base := length (items (m_imports m)) in
  items (m_tables m') = items (m_tables m) ++ imp_tables base l /\
  items (m_memories m') = items (m_memories m) ++ imp_mems base l /\
  items (m_globals m') = items (m_globals m) ++ imp_globals base l /\
  items (m_funcs m') = items (m_funcs m) ++ imp_funcs (ii_types ids) base l /\
  items (m_imports m') = items (m_imports m) ++
     imp_entries (length (items (m_funcs m))) (length (items (m_tables m)))
                 (length (items (m_memories m))) (length (items (m_globals m))) l /\
  ii_types ids' = ii_types ids.
Proof.
  induction l as [|i r IH]; intros m ids m' ids' E; cbn [parse_imports] in E.
  - inversion E; subst. cbn. rewrite !app_nil_r. auto 10.
  - pinv E as x Ex. destruct x as [m1 ids1]. apply IH in E. clear IH. cbv zeta in E. wcbn.
    destruct E as (E1 & E2 & E3 & E4 & E5 & E6). rewrite E1, E2, E3, E4, E5, E6. clear E1 E2 E3 E4 E5 E6.
    unfold parse_import in Ex. cbn [imp_tables imp_mems imp_globals imp_funcs imp_entries].
    destruct (wi_kind i).
    + pinv Ex as t Et. apply of_opt_err_ok in Et. rewrite Et. wcbn. inversion Ex; subst; clear Ex. wcbn.
      unfold anext, next_id. rewrite !app_length. cbn [length app]. rewrite !Nat.add_1_r, <- !app_assoc. cbn [app].
      auto 10.
    + wcbn. inversion Ex; subst; clear Ex. wcbn.
      unfold anext, next_id. rewrite !app_length. cbn [length app]. rewrite !Nat.add_1_r, <- !app_assoc. cbn [app].
      auto 10.
    + wcbn. inversion Ex; subst; clear Ex. wcbn.
      unfold anext, next_id. rewrite !app_length. cbn [length app]. rewrite !Nat.add_1_r, <- !app_assoc. cbn [app].
      auto 10.
    + wcbn. inversion Ex; subst; clear Ex. wcbn.
      unfold anext, next_id. rewrite !app_length. cbn [length app]. rewrite !Nat.add_1_r, <- !app_assoc. cbn [app].
      auto 10.
Qed.

(* the filter/flat_map reading: the k-th import, when it is a table, is the table
   [gen_parse_table_import attrs (base + k)] *)
Lemma imp_tables_flat_map : forall l base,
  imp_tables base l =
  flat_map (fun p => match wi_kind (snd p) with WI_Table t => [gen_parse_table_import t (N.of_nat (fst p))] | _ => [] end)
           (combine (seq base (length l)) l).
Proof. induction l as [|i r IH]; intros base; cbn; [reflexivity|]. rewrite IH. reflexivity. Qed.
Lemma imp_mems_flat_map : forall l base,
  imp_mems base l =
  flat_map (fun p => match wi_kind (snd p) with WI_Mem t => [gen_parse_memory_import t (N.of_nat (fst p))] | _ => [] end)
           (combine (seq base (length l)) l).
Proof. induction l as [|i r IH]; intros base; cbn; [reflexivity|]. rewrite IH. reflexivity. Qed.
Lemma imp_globals_flat_map : forall l base,
  imp_globals base l =
  flat_map (fun p => match wi_kind (snd p) with WI_Global t => [gen_parse_global_import t (N.of_nat (fst p))] | _ => [] end)
           (combine (seq base (length l)) l).
Proof. induction l as [|i r IH]; intros base; cbn; [reflexivity|]. rewrite IH. reflexivity. Qed.

(* ====================================================================================== *)
(* Part 2: emit-time maps                                                                   *)
(* ====================================================================================== *)

Lemma lookup_app_new : forall (l : list (N * N)) id v, ~ In id (map fst l) -> lookup_i (l ++ [(id, v)]) id = Ok v.
Proof.
  unfold lookup_i. induction l as [|[k i] r IH]; intros id v Hn; cbn [app find fst snd].
  - rewrite N.eqb_refl. reflexivity.
  - destruct (N.eqb_spec k id) as [->|Hne]; [exfalso; apply Hn; left; reflexivity|].
    apply IH. intros Hin. apply Hn. right. exact Hin.
Qed.

Lemma pushed_lookup : forall l id, ~ In id (map fst l) -> lookup_i (pushed l id) id = Ok (len_N l).
Proof. intros l id H. unfold pushed. apply lookup_app_new, H. Qed.

Lemma lookup_app_old : forall (l l2 : list (N * N)) id' i, lookup_i l id' = Ok i -> lookup_i (l ++ l2) id' = Ok i.
Proof.
  unfold lookup_i. induction l as [|[k j] r IH]; intros l2 id' i; cbn [app find fst snd]; [discriminate|].
  destruct (N.eqb k id'); [auto|apply IH].
Qed.

Lemma pushed_lookup_old : forall l id id' i, lookup_i l id' = Ok i -> lookup_i (pushed l id) id' = Ok i.
Proof. intros l id id' i H. unfold pushed. apply lookup_app_old, H. Qed.

Lemma fold_push_spec : forall ids l0,
  fold_left (fun l id => pushed l id) ids l0 = l0 ++ combine ids (map N.of_nat (seq (length l0) (length ids))).
Proof.
  induction ids as [|id r IH]; intros l0; cbn [fold_left length seq map combine].
  - rewrite app_nil_r. reflexivity.
  - rewrite IH. unfold pushed, len_N. rewrite <- app_assoc, app_length. cbn [length app].
    rewrite Nat.add_1_r. reflexivity.
Qed.

(* numbering a list of ids from 0 *)
Definition number (ids : list N) : list (N * N) := combine ids (iota (length ids)).

Lemma fold_push_number ids : fold_left (fun l id => pushed l id) ids [] = number ids.
Proof. rewrite fold_push_spec. reflexivity. Qed.

Definition wf_map (l : list (N * N)) : Prop := map snd l = iota (length l) /\ NoDup (map fst l).

Lemma wf_map_nil : wf_map [].
Proof. split; [reflexivity|constructor]. Qed.

Lemma pushed_wf l id : wf_map l -> ~ In id (map fst l) -> wf_map (pushed l id).
Proof.
  intros [H1 H2] Hn. unfold pushed, wf_map. rewrite !map_app, app_length. cbn [map fst snd length].
  rewrite Nat.add_1_r, iota_S, H1. split; [reflexivity|].
  apply NoDup_app_intro; [exact H2|constructor; [intros []|constructor]|].
  intros x Hx [<-|[]]. exact (Hn Hx).
Qed.

Lemma number_fst ids : map fst (number ids) = ids.
Proof. unfold number. apply map_fst_combine. rewrite iota_length. reflexivity. Qed.
Lemma number_snd ids : map snd (number ids) = iota (length ids).
Proof. unfold number. apply map_snd_combine. rewrite iota_length. reflexivity. Qed.
Lemma number_length ids : length (number ids) = length ids.
Proof. unfold number. rewrite combine_length, iota_length. apply Nat.min_id. Qed.

Lemma number_wf ids : NoDup ids -> wf_map (number ids).
Proof. intros H. split; [rewrite number_snd, number_length; reflexivity|rewrite number_fst; exact H]. Qed.
(* the numbering half holds without any distinctness assumption *)
Lemma number_snd_iota ids : map snd (number ids) = iota (length (number ids)).
Proof. rewrite number_snd, number_length. reflexivity. Qed.

Lemma find_nodup : forall (l : list (N * N)) id i, NoDup (map fst l) -> In (id, i) l ->
  find (fun p => N.eqb (fst p) id) l = Some (id, i).
Proof.
  induction l as [|[k j] r IH]; intros id i Hnd Hin; [destruct Hin|].
  cbn [find fst]. cbn [map fst] in Hnd. inversion Hnd; subst.
  destruct Hin as [Hin|Hin].
  - inversion Hin; subst. rewrite N.eqb_refl. reflexivity.
  - destruct (N.eqb_spec k id) as [->|Hne].
    + exfalso. apply H1. apply (in_map fst) in Hin. exact Hin.
    + apply IH; assumption.
Qed.

Lemma wf_nth_snd (l : list (N * N)) n p : map snd l = iota (length l) -> nth_error l n = Some p -> snd p = N.of_nat n.
Proof.
  intros H Hn. assert (Hlt : n < length l) by (apply nth_error_Some; congruence).
  pose proof (map_nth_error (@snd N N) _ _ Hn) as Hm. rewrite H, iota_nth in Hm by exact Hlt. congruence.
Qed.

(* under wf_map the index IS the position *)
Lemma wf_lookup l id i : wf_map l -> (lookup_i l id = Ok i <-> nth_error l (N.to_nat i) = Some (id, i)).
Proof.
  intros [H1 H2]. unfold lookup_i. split.
  - destruct (find _ l) as [[k j]|] eqn:Ef; [|discriminate]. cbn [snd]. intros H; inversion H; subst j; clear H.
    apply find_some in Ef. destruct Ef as [Hin He]. cbn [fst] in He. apply N.eqb_eq in He. subst k.
    apply In_nth_error in Hin. destruct Hin as [n Hn].
    pose proof (wf_nth_snd _ _ _ H1 Hn) as Hs. cbn [snd] in Hs. subst i. rewrite Nat2N.id. exact Hn.
  - intros Hn. apply nth_error_In in Hn. rewrite (find_nodup _ _ _ H2 Hn). reflexivity.
Qed.

Lemma wf_lookup_fst l id i : wf_map l ->
  (lookup_i l id = Ok i <-> nth_error (map fst l) (N.to_nat i) = Some id).
Proof.
  intros W. rewrite (wf_lookup l id i W). split.
  - intros H. apply (map_nth_error (@fst N N)) in H. exact H.
  - intros H. rewrite nth_error_map in H. destruct (nth_error l (N.to_nat i)) as [[k j]|] eqn:En; [|discriminate].
    cbn in H. inversion H; subst k. pose proof (wf_nth_snd _ _ _ (proj1 W) En) as Hs. cbn [snd] in Hs.
    rewrite N2Nat.id in Hs. subst j. reflexivity.
Qed.

(* --- space bookkeeping *)
Lemma space_map_set_same x S v : S <> S_local -> space_map (set_space x S v) S = v.
Proof. destruct S; intros H; try reflexivity. congruence. Qed.
Lemma space_map_set_other x S S' v : S <> S' -> space_map (set_space x S v) S' = space_map x S'.
Proof. destruct S, S'; intros H; try reflexivity; congruence. Qed.
Lemma xi_locals_set x S v : xi_locals (set_space x S v) = xi_locals x.
Proof. destruct S; reflexivity. Qed.

Lemma push_idx_same x S id : S <> S_local -> space_map (push_idx x S id) S = pushed (space_map x S) id.
Proof. intros H. unfold push_idx. apply space_map_set_same, H. Qed.
Lemma push_idx_other x S S' id : S <> S' -> space_map (push_idx x S id) S' = space_map x S'.
Proof. intros H. unfold push_idx. apply space_map_set_other, H. Qed.

Definition push_all (S : space) (ids : list N) (x : x2i) : x2i := fold_left (fun x id => push_idx x S id) ids x.

Lemma push_all_same S : S <> S_local -> forall ids x,
  space_map (push_all S ids x) S = fold_left (fun l id => pushed l id) ids (space_map x S).
Proof.
  intros HS. induction ids as [|id r IH]; intros x; cbn [push_all fold_left]; [reflexivity|].
  fold (push_all S r (push_idx x S id)). rewrite IH, push_idx_same by exact HS. reflexivity.
Qed.
Lemma push_all_other S S' : S <> S' -> forall ids x, space_map (push_all S ids x) S' = space_map x S'.
Proof.
  intros HS. induction ids as [|id r IH]; intros x; cbn [push_all fold_left]; [reflexivity|].
  fold (push_all S r (push_idx x S id)). rewrite IH, push_idx_other by exact HS. reflexivity.
Qed.
Lemma fold_push_map {A} (f : A -> N) S : forall (l : list A) x,
  fold_left (fun x p => push_idx x S (f p)) l x = push_all S (map f l) x.
Proof. induction l as [|a r IH]; intros x; cbn [fold_left map push_all]; [reflexivity|]. rewrite IH. reflexivity. Qed.

(* a map built only by push_idx from empty, with pairwise distinct ids: *)
Theorem x2i_built : forall S ids, S <> S_local -> NoDup ids ->
  let x := fold_left (fun x id => push_idx x S id) ids empty_x2i in
  space_map x S = number ids /\ wf_map (space_map x S) /\ map fst (space_map x S) = ids.
Proof.
  intros S ids HS Hnd x. subst x. fold (push_all S ids empty_x2i).
  assert (E : space_map (push_all S ids empty_x2i) S = number ids).
  { rewrite push_all_same by exact HS. replace (space_map empty_x2i S) with (@nil (N * N)) by (destruct S; reflexivity).
    apply fold_push_number. }
  rewrite E. split; [reflexivity|]. split; [apply number_wf, Hnd|apply number_fst].
Qed.

(* T-index, emit side: a lookup returns i exactly when the id sits at position i *)
Theorem x2i_positions : forall x S id i, wf_map (space_map x S) ->
  (get_idx x S id = Ok i <-> nth_error (map fst (space_map x S)) (N.to_nat i) = Some id).
Proof. intros x S id i W. unfold get_idx. apply wf_lookup_fst, W. Qed.

Corollary x2i_positions_built : forall S ids id i, S <> S_local -> NoDup ids ->
  (get_idx (fold_left (fun x id => push_idx x S id) ids empty_x2i) S id = Ok i <-> nth_error ids (N.to_nat i) = Some id).
Proof.
  intros S ids id i HS Hnd. destruct (x2i_built S ids HS Hnd) as [_ [W F]].
  rewrite x2i_positions by exact W. rewrite F. reflexivity.
Qed.

(* ---------------------------------------------------------------- what each emitter does to the maps *)
Lemma rbind_ok {A B} (r : res A) (f : A -> res B) b : rbind r f = Ok b -> exists a, r = Ok a /\ f a = Ok b.
Proof. destruct r; cbn; try discriminate. eauto. Qed.
Tactic Notation "rinv" hyp(H) "as" ident(a) ident(E) := apply rbind_ok in H; destruct H as [a [E H]].

Definition live_imports (m : wir) : list mimport := map snd (aiter (m_imports m)).
Definition push_import (x : x2i) (i : mimport) : x2i :=
  match im_kind i with
  | MI_Func f => push_idx x S_func f | MI_Table t => push_idx x S_table t
  | MI_Mem mm => push_idx x S_memory mm | MI_Global g => push_idx x S_global g
  end.
(* ids of the imports of the kind that lives in space S, in import order *)
Definition imp_id (S : space) (i : mimport) : list N :=
  match im_kind i, S with
  | MI_Func f, S_func => [f] | MI_Table t, S_table => [t] | MI_Mem mm, S_memory => [mm] | MI_Global g, S_global => [g]
  | _, _ => []
  end.
Definition imp_ids (S : space) (l : list mimport) : list N := flat_map (imp_id S) l.

Lemma emit_import_x m x i w x' : emit_import m x i = Ok (w, x') -> x' = push_import x i.
Proof.
  unfold emit_import, push_import. destruct (im_kind i); intros H.
  - rinv H as fn Efn. rinv H as ti Eti. inversion H; reflexivity.
  - rinv H as tb Etb. inversion H; reflexivity.
  - rinv H as me Eme. inversion H; reflexivity.
  - rinv H as gl Egl. inversion H; reflexivity.
Qed.

Lemma emit_imports_l_x m : forall l x ws x', emit_imports_l m x l = Ok (ws, x') -> x' = fold_left push_import l x.
Proof.
  induction l as [|i r IH]; intros x ws x' H; cbn [emit_imports_l fold_left] in *.
  - inversion H; reflexivity.
  - rinv H as a Ea. rinv H as b Eb. inversion H; subst; clear H. destruct a as [w x1], b as [ws' x2]. cbn [fst snd] in *.
    apply emit_import_x in Ea. subst x1. eapply IH; eauto.
Qed.

Lemma emit_imports_x m x s x' : emit_imports m x = Ok (s, x') -> x' = fold_left push_import (live_imports m) x.
Proof.
  unfold emit_imports, live_imports. destruct (map snd (aiter (m_imports m))) as [|i r] eqn:E.
  - intros H; inversion H; reflexivity.
  - intros H. rinv H as a Ea. inversion H; subst; clear H. destruct a as [ws x1]. eapply emit_imports_l_x; eauto.
Qed.

Lemma space_map_local x : space_map x S_local = [].
Proof. reflexivity. Qed.

Lemma push_import_space S i x :
  space_map (push_import x i) S = fold_left (fun l id => pushed l id) (imp_id S i) (space_map x S).
Proof.
  unfold push_import, imp_id.
  destruct (im_kind i), S; cbn [fold_left];
    first [apply push_idx_same; discriminate | apply push_idx_other; discriminate | reflexivity].
Qed.

Lemma fold_push_import_space S : forall l x,
  space_map (fold_left push_import l x) S = fold_left (fun l id => pushed l id) (imp_ids S l) (space_map x S).
Proof.
  induction l as [|i r IH]; intros x; cbn [fold_left imp_ids flat_map]; [reflexivity|].
  fold (imp_ids S r). rewrite IH, fold_left_app, push_import_space. reflexivity.
Qed.

(* types *)
Definition emitted_types (m : wir) : list (N * mtype) :=
  sort_types (filter (fun p => negb (ty_entry (snd p))) (live_types m)).
Lemma emit_types_x m x : snd (emit_types m x) = push_all S_type (map fst (emitted_types m)) x.
Proof.
  unfold emit_types. fold (emitted_types m). destruct (emitted_types m) as [|p r] eqn:E; [reflexivity|].
  cbn [snd]. apply fold_push_map.
Qed.

(* function section *)
Definition func_go := fix go (l : list (N * mlocalfunc)) (x : x2i) : res (list N * x2i) :=
  match l with
  | [] => Ok ([], x)
  | (id, lf) :: r => ti <- get_idx x S_type (lf_ty lf) ;; b <- go r (push_idx x S_func id) ;; Ok (ti :: fst b, snd b)
  end.
Lemma emit_func_section_unfold m x :
  emit_func_section m x =
  (fs <- used_local_functions m ;;
   match fs with [] => Ok ([], x) | _ => r <- func_go fs x ;; Ok ([S_Funcs (fst r)], snd r) end).
Proof. reflexivity. Qed.
Lemma func_go_x : forall l x r, func_go l x = Ok r -> snd r = push_all S_func (map fst l) x.
Proof.
  induction l as [|[id lf] l IH]; intros x r H; cbn [func_go] in H.
  - inversion H; reflexivity.
  - fold func_go in H. rinv H as ti Eti. rinv H as b Eb. inversion H; subst; clear H. cbn [snd map fst push_all fold_left].
    apply IH in Eb. exact Eb.
Qed.
Lemma emit_func_section_x m x s x' : emit_func_section m x = Ok (s, x') ->
  exists fs, used_local_functions m = Ok fs /\ x' = push_all S_func (map fst fs) x.
Proof.
  rewrite emit_func_section_unfold. intros H. rinv H as fs Efs. exists fs. split; [exact Efs|].
  destruct fs as [|p r]; [inversion H; reflexivity|].
  rinv H as b Eb. inversion H; subst; clear H. apply func_go_x in Eb. exact Eb.
Qed.

(* tables, memories *)
Definition local_tables (m : wir) : list (N * mtable) :=
  filter (fun p => match tb_import (snd p) with None => true | Some _ => false end) (aiter (m_tables m)).
Definition local_memories (m : wir) : list (N * mmem) :=
  filter (fun p => match me_import (snd p) with None => true | Some _ => false end) (aiter (m_memories m)).
Definition local_globals (m : wir) : list (N * mglobal * mconst) :=
  flat_map (fun p => match gl_kind (snd p) with GK_Local c => [(fst p, snd p, c)] | GK_Import _ => [] end) (aiter (m_globals m)).

Lemma emit_tables_x m x : snd (emit_tables m x) = push_all S_table (map fst (local_tables m)) x.
Proof.
  unfold emit_tables. fold (local_tables m). destruct (local_tables m) as [|p r]; [reflexivity|].
  cbn [snd]. apply fold_push_map.
Qed.
Lemma emit_memories_x m x : snd (emit_memories m x) = push_all S_memory (map fst (local_memories m)) x.
Proof.
  unfold emit_memories. fold (local_memories m). destruct (local_memories m) as [|p r]; [reflexivity|].
  cbn [snd]. apply fold_push_map.
Qed.

(* globals *)
Definition globals_go := fix go (l : list (N * mglobal * mconst)) (x : x2i) : res (list (wglobalty * wconst) * x2i) :=
  match l with
  | [] => Ok ([], x)
  | (id, g, c) :: r =>
      let x1 := push_idx x S_global id in
      wc <- emit_const x1 c ;; b <- go r x1 ;; Ok ((gen_emit_global_local g, wc) :: fst b, snd b)
  end.
Lemma emit_globals_unfold m x :
  emit_globals m x =
  match local_globals m with
  | [] => Ok ([], x)
  | _ => r <- globals_go (local_globals m) x ;; Ok ([S_Globals (fst r)], snd r)
  end.
Proof. reflexivity. Qed.
Definition gid (t : N * mglobal * mconst) : N := fst (fst t).
Lemma globals_go_x : forall l x r, globals_go l x = Ok r -> snd r = push_all S_global (map gid l) x.
Proof.
  induction l as [|[[id g] c] l IH]; intros x r H; cbn [globals_go] in H.
  - inversion H; reflexivity.
  - fold globals_go in H. rinv H as wc Ewc. rinv H as b Eb. inversion H; subst; clear H.
    cbn [snd map gid fst push_all fold_left]. apply IH in Eb. exact Eb.
Qed.
Lemma emit_globals_x m x s x' : emit_globals m x = Ok (s, x') -> x' = push_all S_global (map gid (local_globals m)) x.
Proof.
  rewrite emit_globals_unfold. destruct (local_globals m) as [|p r] eqn:El; [intros H; inversion H; reflexivity|].
  intros H. rinv H as b Eb. inversion H; subst; clear H. apply globals_go_x in Eb. exact Eb.
Qed.

(* elements *)
Definition elems_go := fix go (l : list (N * melem)) (x : x2i) : res (list welem * x2i) :=
  match l with
  | [] => Ok ([], x)
  | (id, e) :: r => let x1 := push_idx x S_elem id in
                    we <- emit_elem x1 e ;; b <- go r x1 ;; Ok (we :: fst b, snd b)
  end.
Lemma emit_elements_unfold m x :
  emit_elements m x =
  match aiter (m_elements m) with
  | [] => Ok ([], x)
  | l => r <- elems_go l x ;; Ok ([S_Elems (fst r)], snd r)
  end.
Proof. reflexivity. Qed.
Lemma elems_go_x : forall l x r, elems_go l x = Ok r -> snd r = push_all S_elem (map fst l) x.
Proof.
  induction l as [|[id e] l IH]; intros x r H; cbn [elems_go] in H.
  - inversion H; reflexivity.
  - fold elems_go in H. rinv H as we Ewe. rinv H as b Eb. inversion H; subst; clear H.
    cbn [snd map fst push_all fold_left]. apply IH in Eb. exact Eb.
Qed.
Lemma emit_elements_x m x s x' : emit_elements m x = Ok (s, x') -> x' = push_all S_elem (map fst (aiter (m_elements m))) x.
Proof.
  rewrite emit_elements_unfold. destruct (aiter (m_elements m)) as [|p r]; [intros H; inversion H; reflexivity|].
  intros H. rinv H as b Eb. inversion H; subst; clear H. apply elems_go_x in Eb. exact Eb.
Qed.

(* data count: the data map is set wholesale *)
Lemma emit_data_count_x m x s x' : emit_data_count m x = Ok (s, x') ->
  x' = match aiter (m_data m) with [] => x | l => set_space x S_data (number (map fst l)) end.
Proof.
  unfold emit_data_count. destruct (aiter (m_data m)) as [|p r]; [intros H; inversion H; reflexivity|].
  intros H. rinv H as us Eus. unfold number. rewrite map_length. unfold iota.
  destruct (_ || _); inversion H; reflexivity.
Qed.

Lemma emit_code_x m x ilen s x' efs : emit_code m x ilen = Ok (s, x', efs) -> forall S, space_map x' S = space_map x S.
Proof.
  unfold emit_code. intros H. rinv H as fs Efs. destruct fs as [|p r]; [inversion H; reflexivity|].
  rinv H as efs' Eefs. inversion H; subst; clear H. intros S; destruct S; reflexivity.
Qed.

Lemma imp_ids_nil S l : match S with S_func | S_table | S_memory | S_global => False | _ => True end -> imp_ids S l = [].
Proof.
  intros HS. induction l as [|i r IH]; [reflexivity|]. cbn [imp_ids flat_map]. fold (imp_ids S r). rewrite IH.
  unfold imp_id. destruct (im_kind i), S; try reflexivity; destruct HS.
Qed.

(* the final maps of emit_wasm *)
Theorem emitM_x2i : forall m ilen dw e, emitM m ilen dw = Ok e ->
  exists fs, used_local_functions m = Ok fs /\
    xi_types (em_x2i e) = number (map fst (emitted_types m)) /\
    xi_funcs (em_x2i e) = number (imp_ids S_func (live_imports m) ++ map fst fs) /\
    xi_tables (em_x2i e) = number (imp_ids S_table (live_imports m) ++ map fst (local_tables m)) /\
    xi_memories (em_x2i e) = number (imp_ids S_memory (live_imports m) ++ map fst (local_memories m)) /\
    xi_globals (em_x2i e) = number (imp_ids S_global (live_imports m) ++ map gid (local_globals m)) /\
    xi_elements (em_x2i e) = number (map fst (aiter (m_elements m))) /\
    xi_data (em_x2i e) = number (map fst (aiter (m_data m))).
Proof.
  intros m ilen dw e H. unfold emitM, set_customs_take in H.
  destruct (emit_types m empty_x2i) as [s_ty x1] eqn:E1.
  rinv H as a2 E2. destruct a2 as [s_im x2].
  rinv H as a3 E3. destruct a3 as [s_fn x3].
  destruct (emit_tables m x3) as [s_tb x4] eqn:E4.
  destruct (emit_memories m x4) as [s_me x5] eqn:E5.
  rinv H as a6 E6. destruct a6 as [s_gl x6].
  rinv H as s_ex E7. rinv H as s_st E8.
  rinv H as a9 E9. destruct a9 as [s_el x9].
  rinv H as a10 E10. destruct a10 as [s_dc x10].
  rinv H as a11 E11. destruct a11 as [[s_co x11] efs].
  rinv H as s_da E12. rinv H as s_nm E13. inversion H; subst e; clear H. cbn [em_x2i].
  pose proof (emit_types_x m empty_x2i) as F1. rewrite E1 in F1. cbn [snd] in F1.
  apply emit_imports_x in E2. apply emit_func_section_x in E3. destruct E3 as [fs [Efs E3]].
  pose proof (emit_tables_x m x3) as F4. rewrite E4 in F4. cbn [snd] in F4.
  pose proof (emit_memories_x m x4) as F5. rewrite E5 in F5. cbn [snd] in F5.
  apply emit_globals_x in E6. apply emit_elements_x in E9. apply emit_data_count_x in E10.
  pose proof (emit_code_x _ _ _ _ _ _ E11) as F11.
  exists fs. split; [exact Efs|].
  assert (D9 : space_map x9 S_data = []).
  { subst. rewrite !push_all_other by discriminate. rewrite fold_push_import_space. cbn [imp_ids].
    rewrite imp_ids_nil by exact I.
    cbn [fold_left]. rewrite push_all_other by discriminate. reflexivity. }
  assert (G : forall S, S <> S_data -> space_map x10 S = space_map x9 S).
  { intros S HS. rewrite E10. destruct (aiter (m_data m)); [reflexivity|]. apply space_map_set_other. congruence. }
  assert (GD : space_map x10 S_data = number (map fst (aiter (m_data m)))).
  { rewrite E10. destruct (aiter (m_data m)) as [|p r]; [exact D9|]. apply space_map_set_same. discriminate. }
  change (xi_types x11) with (space_map x11 S_type). change (xi_funcs x11) with (space_map x11 S_func).
  change (xi_tables x11) with (space_map x11 S_table). change (xi_memories x11) with (space_map x11 S_memory).
  change (xi_globals x11) with (space_map x11 S_global). change (xi_elements x11) with (space_map x11 S_elem).
  change (xi_data x11) with (space_map x11 S_data).
  rewrite !F11, GD, !G by discriminate. clear F11 G GD D9 E10 E11 E12 E13 E7 E8.
  subst x9 x6 x5 x4 x3 x2 x1.
  repeat split;
    repeat first [ rewrite push_all_other by discriminate
                 | rewrite push_all_same by discriminate
                 | rewrite fold_push_import_space ];
    cbn [space_map empty_x2i xi_types xi_funcs xi_tables xi_memories xi_globals xi_elements xi_data];
    rewrite <- ?fold_left_app, ?fold_push_number; rewrite ?imp_ids_nil by exact I; rewrite ?app_nil_r; reflexivity.
Qed.

(* ---------------------------------------------------------------- emission order, per space *)
Lemma aiter_ids {A} (a : tarena A) : map fst (aiter a) = map N.of_nat (map fst (iter a)).
Proof. unfold aiter. rewrite !map_map. reflexivity. Qed.

Lemma lt_sorted_NoDup l : StronglySorted lt l -> NoDup l.
Proof.
  induction 1 as [|a l Hs IH Hall]; constructor; [|exact IH].
  intros Hin. rewrite Forall_forall in Hall. apply Hall in Hin. lia.
Qed.

Lemma aiter_NoDup {A} (a : tarena A) : NoDup (map fst (aiter a)).
Proof.
  rewrite aiter_ids. apply NoDup_map_inj; [intros x y; apply Nat2N.inj|].
  apply lt_sorted_NoDup. unfold iter. apply iter_from_sorted.
Qed.

Lemma NoDup_map_filter {A B} (f : A -> B) (p : A -> bool) (l : list A) : NoDup (map f l) -> NoDup (map f (filter p l)).
Proof.
  induction l as [|a l IH]; cbn [map filter]; intros H; [constructor|].
  inversion H; subst. destruct (p a); cbn [map]; [constructor|]; auto.
  rewrite in_map_iff. intros (b & Hb & Hin). apply filter_In in Hin. apply H2. rewrite <- Hb. apply in_map. tauto.
Qed.

Lemma number_wf_iff ids : wf_map (number ids) <-> NoDup ids.
Proof. split; [intros [_ H]; rewrite number_fst in H; exact H|apply number_wf]. Qed.

(* the live imports of each kind, in import order *)
Definition imported_funcs (m : wir) : list N :=
  flat_map (fun i => match im_kind i with MI_Func f => [f] | _ => [] end) (live_imports m).
Definition imported_tables (m : wir) : list N :=
  flat_map (fun i => match im_kind i with MI_Table f => [f] | _ => [] end) (live_imports m).
Definition imported_memories (m : wir) : list N :=
  flat_map (fun i => match im_kind i with MI_Mem f => [f] | _ => [] end) (live_imports m).
Definition imported_globals (m : wir) : list N :=
  flat_map (fun i => match im_kind i with MI_Global f => [f] | _ => [] end) (live_imports m).
Lemma imported_funcs_eq m : imp_ids S_func (live_imports m) = imported_funcs m.
Proof. reflexivity. Qed.
Lemma imported_tables_eq m : imp_ids S_table (live_imports m) = imported_tables m.
Proof. reflexivity. Qed.
Lemma imported_memories_eq m : imp_ids S_memory (live_imports m) = imported_memories m.
Proof. reflexivity. Qed.
Lemma imported_globals_eq m : imp_ids S_global (live_imports m) = imported_globals m.
Proof. reflexivity. Qed.

(* functions: imported ones in import order, then the local ones in (Reverse(size), id) order *)
Theorem emit_order_funcs : forall m ilen dw e, emitM m ilen dw = Ok e ->
  exists fs, used_local_functions m = Ok fs /\
    map fst (xi_funcs (em_x2i e)) = imported_funcs m ++ map fst fs /\
    map snd (xi_funcs (em_x2i e)) = iota (length (xi_funcs (em_x2i e))) /\
    (NoDup (imported_funcs m ++ map fst fs) -> wf_map (xi_funcs (em_x2i e))).
Proof.
  intros m ilen dw e H. destruct (emitM_x2i _ _ _ _ H) as [fs [Hfs [_ [Hf _]]]].
  exists fs. split; [exact Hfs|]. rewrite Hf, imported_funcs_eq.
  split; [apply number_fst|]. split; [apply number_snd_iota|apply number_wf].
Qed.

(* tables / memories / globals: imported ones in import order, then the live non-imported ones in arena order *)
Theorem emit_order_tables : forall m ilen dw e, emitM m ilen dw = Ok e ->
  map fst (xi_tables (em_x2i e)) = imported_tables m ++ map fst (local_tables m) /\
  map snd (xi_tables (em_x2i e)) = iota (length (xi_tables (em_x2i e))) /\
  (NoDup (imported_tables m ++ map fst (local_tables m)) -> wf_map (xi_tables (em_x2i e))).
Proof.
  intros m ilen dw e H. destruct (emitM_x2i _ _ _ _ H) as [fs [Hfs (_ & _ & Ht & _)]].
  rewrite Ht, imported_tables_eq. split; [apply number_fst|]. split; [apply number_snd_iota|apply number_wf].
Qed.
Theorem emit_order_memories : forall m ilen dw e, emitM m ilen dw = Ok e ->
  map fst (xi_memories (em_x2i e)) = imported_memories m ++ map fst (local_memories m) /\
  map snd (xi_memories (em_x2i e)) = iota (length (xi_memories (em_x2i e))) /\
  (NoDup (imported_memories m ++ map fst (local_memories m)) -> wf_map (xi_memories (em_x2i e))).
Proof.
  intros m ilen dw e H. destruct (emitM_x2i _ _ _ _ H) as [fs [Hfs (_ & _ & _ & Ht & _)]].
  rewrite Ht, imported_memories_eq. split; [apply number_fst|]. split; [apply number_snd_iota|apply number_wf].
Qed.
Theorem emit_order_globals : forall m ilen dw e, emitM m ilen dw = Ok e ->
  map fst (xi_globals (em_x2i e)) = imported_globals m ++ map gid (local_globals m) /\
  map snd (xi_globals (em_x2i e)) = iota (length (xi_globals (em_x2i e))) /\
  (NoDup (imported_globals m ++ map gid (local_globals m)) -> wf_map (xi_globals (em_x2i e))).
Proof.
  intros m ilen dw e H. destruct (emitM_x2i _ _ _ _ H) as [fs [Hfs (_ & _ & _ & _ & Ht & _)]].
  rewrite Ht, imported_globals_eq. split; [apply number_fst|]. split; [apply number_snd_iota|apply number_wf].
Qed.
(* the local parts are duplicate-free by construction (arena order) *)
Lemma local_tables_NoDup m : NoDup (map fst (local_tables m)).
Proof. apply NoDup_map_filter, aiter_NoDup. Qed.
Lemma local_memories_NoDup m : NoDup (map fst (local_memories m)).
Proof. apply NoDup_map_filter, aiter_NoDup. Qed.
Lemma local_globals_ids m :
  map gid (local_globals m) =
  map fst (filter (fun p => match gl_kind (snd p) with GK_Local _ => true | GK_Import _ => false end) (aiter (m_globals m))).
Proof.
  unfold local_globals. induction (aiter (m_globals m)) as [|p r IH]; [reflexivity|].
  cbn [flat_map filter]. destruct (gl_kind (snd p)); cbn [app map gid fst]; rewrite IH; reflexivity.
Qed.
Lemma local_globals_NoDup m : NoDup (map gid (local_globals m)).
Proof. rewrite local_globals_ids. apply NoDup_map_filter, aiter_NoDup. Qed.

(* elements, data: the live ones in arena order; types: the sorted live non-entry types.
   These maps are well-formed unconditionally. *)
Theorem emit_order_elements : forall m ilen dw e, emitM m ilen dw = Ok e ->
  map fst (xi_elements (em_x2i e)) = map fst (aiter (m_elements m)) /\ wf_map (xi_elements (em_x2i e)).
Proof.
  intros m ilen dw e H. destruct (emitM_x2i _ _ _ _ H) as [fs [Hfs (_ & _ & _ & _ & _ & Ht & _)]].
  rewrite Ht. split; [apply number_fst|apply number_wf, aiter_NoDup].
Qed.
Theorem emit_order_data : forall m ilen dw e, emitM m ilen dw = Ok e ->
  map fst (xi_data (em_x2i e)) = map fst (aiter (m_data m)) /\ wf_map (xi_data (em_x2i e)).
Proof.
  intros m ilen dw e H. destruct (emitM_x2i _ _ _ _ H) as [fs [Hfs (_ & _ & _ & _ & _ & _ & Ht)]].
  rewrite Ht. split; [apply number_fst|apply number_wf, aiter_NoDup].
Qed.
Lemma emitted_types_NoDup m : NoDup (map fst (emitted_types m)).
Proof.
  unfold emitted_types. eapply Permutation_NoDup.
  - apply Permutation_sym, Permutation_map, sort_types_perm.
  - apply NoDup_map_filter. unfold live_types, aset_iter. apply (aiter_NoDup (Arena.arena (m_types m))).
Qed.
Theorem emit_order_types : forall m ilen dw e, emitM m ilen dw = Ok e ->
  map fst (xi_types (em_x2i e)) = map fst (emitted_types m) /\ wf_map (xi_types (em_x2i e)).
Proof.
  intros m ilen dw e H. destruct (emitM_x2i _ _ _ _ H) as [fs [Hfs (Ht & _)]].
  rewrite Ht. split; [apply number_fst|apply number_wf, emitted_types_NoDup].
Qed.

(* the local functions are emitted once each *)
Lemma rmapM_ok_inv {A B} (f : A -> res B) : forall l bs, rmapM f l = Ok bs -> Forall2 (fun a b => f a = Ok b) l bs.
Proof.
  induction l as [|a r IH]; intros bs H; cbn [rmapM] in H.
  - inversion H; constructor.
  - rinv H as y Ey. rinv H as ys Eys. inversion H; subst. constructor; auto.
Qed.

Lemma used_local_functions_ids m fs : used_local_functions m = Ok fs ->
  NoDup (map fst fs) /\
  forall id, In id (map fst fs) <-> exists f lf, In (id, f) (aiter (m_funcs m)) /\ fn_kind f = FK_Local lf.
Proof.
  rewrite used_local_functions_sort_funcs. intros H. rinv H as l El. inversion H; subst fs; clear H.
  rewrite map_map. cbn [fst].
  assert (P : Permutation (map (fun t : N * N * mlocalfunc => snd (fst t)) (sort_funcs (concat l)))
                          (map (fun t : N * N * mlocalfunc => snd (fst t)) (concat l)))
    by (apply Permutation_map, sort_funcs_perm).
  apply rmapM_ok_inv in El.
  assert (Q : map (fun t : N * N * mlocalfunc => snd (fst t)) (concat l) =
              map fst (filter (fun p => match fn_kind (snd p) with FK_Local _ => true | _ => false end) (aiter (m_funcs m)))).
  { clear P. induction El as [|p b L bs Hp HF IH]; [reflexivity|]. cbn [concat filter]. rewrite map_app, IH.
    destruct (fn_kind (snd p)) eqn:Ek.
    - inversion Hp; subst. reflexivity.
    - rinv Hp as sz Esz. inversion Hp; subst. reflexivity.
    - discriminate. }
  rewrite Q in P. split.
  - eapply Permutation_NoDup; [apply Permutation_sym; exact P|]. apply NoDup_map_filter, aiter_NoDup.
  - intros id. split.
    + intros Hin. eapply Permutation_in in Hin; [|exact P]. apply in_map_iff in Hin.
      destruct Hin as [[i f] [<- Hin]]. apply filter_In in Hin. destruct Hin as [Hin Hk]. cbn [snd fst] in *.
      destruct (fn_kind f) eqn:Ek; try discriminate. eauto.
    + intros [f [lf [Hin Hk]]]. eapply Permutation_in; [apply Permutation_sym; exact P|].
      apply in_map_iff. exists (id, f). split; [reflexivity|]. apply filter_In. split; [exact Hin|].
      cbn [snd]. rewrite Hk. reflexivity.
Qed.

(* ====================================================================================== *)
(* Part 3: no "index not set" panic                                                        *)
(* ====================================================================================== *)

Definition has_idx (x : x2i) (S : space) (id : N) : Prop := In id (map fst (space_map x S)).

Lemma lookup_total_iff (l : list (N * N)) id : (exists i, lookup_i l id = Ok i) <-> In id (map fst l).
Proof.
  unfold lookup_i. split.
  - intros [i H]. destruct (find _ l) as [p|] eqn:E; [|discriminate].
    apply find_some in E. destruct E as [Hin He]. apply N.eqb_eq in He. subst id. apply in_map, Hin.
  - intros Hin. destruct (find _ l) as [p|] eqn:E; [eauto|]. exfalso.
    apply in_map_iff in Hin. destruct Hin as [p [<- Hin]].
    pose proof (find_none _ _ E _ Hin) as Hf. cbn in Hf. rewrite N.eqb_refl in Hf. discriminate.
Qed.

(* a lookup succeeds exactly when the id was given an index *)
Lemma get_idx_total_iff x S id : (exists i, get_idx x S id = Ok i) <-> has_idx x S id.
Proof. apply lookup_total_iff. Qed.
Lemma get_idx_total x S id : has_idx x S id -> exists i, get_idx x S id = Ok i.
Proof. apply get_idx_total_iff. Qed.
Lemma get_idx_panics x S id : ~ has_idx x S id -> get_idx x S id = Panic.
Proof.
  intros H. unfold get_idx, lookup_i. destruct (find _ _) as [p|] eqn:E; [|reflexivity]. exfalso. apply H.
  apply (proj1 (lookup_total_iff _ _)). exists (snd p). unfold lookup_i. rewrite E. reflexivity.
Qed.

Lemma rmapM_total {A B} (f : A -> res B) : forall l, (forall a, In a l -> exists b, f a = Ok b) -> exists bs, rmapM f l = Ok bs.
Proof.
  induction l as [|a r IH]; intros H; cbn [rmapM]; [eauto|].
  destruct (H a (or_introl eq_refl)) as [b Eb]. rewrite Eb. cbn [rbind].
  destruct IH as [bs Ebs]; [intros a' Ha; apply H; right; exact Ha|]. rewrite Ebs. cbn [rbind]. eauto.
Qed.

Lemma has_idx_push x S id S' id' : has_idx x S id -> has_idx (push_idx x S' id') S id.
Proof.
  unfold has_idx. intros H. destruct S; try (destruct H; fail);
  destruct S'; first [ rewrite push_idx_other by discriminate; exact H
                     | rewrite push_idx_same by discriminate; unfold pushed; rewrite map_app, in_app_iff; left; exact H
                     | exact H ].
Qed.
Lemma has_idx_push_new x S id : S <> S_local -> has_idx (push_idx x S id) S id.
Proof.
  intros HS. unfold has_idx. rewrite push_idx_same by exact HS. unfold pushed. rewrite map_app, in_app_iff.
  right. left. reflexivity.
Qed.
Lemma has_idx_push_all x S id S' ids : has_idx x S id -> has_idx (push_all S' ids x) S id.
Proof.
  revert x. induction ids as [|i r IH]; intros x H; cbn [push_all fold_left]; [exact H|].
  apply IH, has_idx_push, H.
Qed.

(* --- constant expressions *)
Definition const_ok (x : x2i) (c : mconst) : Prop :=
  match c with MC_Global g => has_idx x S_global g | MC_RefFunc f => has_idx x S_func f | _ => True end.

Theorem emit_const_total x c : const_ok x c <-> exists w, emit_const x c = Ok w.
Proof.
  destruct c as [v|g|t|f]; cbn [const_ok emit_const].
  - destruct v; split; eauto.
  - rewrite <- get_idx_total_iff. split.
    + intros [i E]. rewrite E. cbn. eauto.
    + intros [w E]. destruct (get_idx x S_global g); try discriminate. eauto.
  - split; eauto.
  - rewrite <- get_idx_total_iff. split.
    + intros [i E]. rewrite E. cbn. eauto.
    + intros [w E]. destruct (get_idx x S_func f); try discriminate. eauto.
Qed.

Lemma const_ok_push x c S id : const_ok x c -> const_ok (push_idx x S id) c.
Proof. destruct c; cbn [const_ok]; auto using has_idx_push. Qed.

(* --- imports *)
Definition import_ok (m : wir) (x : x2i) (i : mimport) : Prop :=
  match im_kind i with
  | MI_Func f => exists fn, aget (m_funcs m) f = Some fn /\ has_idx x S_type (func_ty fn)
  | MI_Table t => exists tb, aget (m_tables m) t = Some tb
  | MI_Mem mm => exists me, aget (m_memories m) mm = Some me
  | MI_Global g => exists gl, aget (m_globals m) g = Some gl
  end.

Lemma import_ok_push m x i j : import_ok m x i -> import_ok m (push_import x j) i.
Proof.
  unfold import_ok, push_import. destruct (im_kind i); auto.
  intros [fn [H1 H2]]. exists fn. split; [exact H1|]. destruct (im_kind j); apply has_idx_push, H2.
Qed.

Lemma emit_import_total m x i : import_ok m x i -> exists r, emit_import m x i = Ok r.
Proof.
  unfold import_ok, emit_import. destruct (im_kind i).
  - intros [fn [H1 H2]]. rewrite H1. cbn [of_opt rbind].
    destruct (get_idx_total (push_idx x S_func f) S_type (func_ty fn)) as [ti Eti]; [apply has_idx_push, H2|].
    rewrite Eti. cbn [rbind]. eauto.
  - intros [tb H1]. rewrite H1. cbn. eauto.
  - intros [tb H1]. rewrite H1. cbn. eauto.
  - intros [tb H1]. rewrite H1. cbn. eauto.
Qed.

Lemma emit_imports_l_total m : forall l x, (forall i, In i l -> import_ok m x i) -> exists r, emit_imports_l m x l = Ok r.
Proof.
  induction l as [|i r IH]; intros x H; cbn [emit_imports_l]; [eauto|].
  destruct (emit_import_total m x i (H i (or_introl eq_refl))) as [[w x1] E]. rewrite E. cbn [rbind snd fst].
  apply emit_import_x in E. subst x1.
  destruct (IH (push_import x i)) as [b Eb]; [intros j Hj; apply import_ok_push, H; right; exact Hj|].
  rewrite Eb. cbn [rbind]. eauto.
Qed.

(* every live import refers to a live entity; an imported function's type has a type index *)
Theorem emit_imports_total m x :
  (forall i, In i (live_imports m) -> import_ok m x i) -> exists r, emit_imports m x = Ok r.
Proof.
  unfold emit_imports, live_imports. intros H. destruct (map snd (aiter (m_imports m))) as [|i r]; [eauto|].
  destruct (emit_imports_l_total m (i :: r) x H) as [b Eb]. rewrite Eb. cbn [rbind]. eauto.
Qed.

(* --- function section: the types of the local functions are in xi_types *)
Lemma func_go_total : forall l x, (forall id lf, In (id, lf) l -> has_idx x S_type (lf_ty lf)) -> exists r, func_go l x = Ok r.
Proof.
  induction l as [|[id lf] l IH]; intros x H; cbn [func_go]; [eauto|]. fold func_go.
  destruct (get_idx_total x S_type (lf_ty lf)) as [ti Eti]; [eapply H; left; reflexivity|].
  rewrite Eti. cbn [rbind].
  destruct (IH (push_idx x S_func id)) as [b Eb]; [intros id' lf' Hin; apply has_idx_push; eapply H; right; exact Hin|].
  rewrite Eb. cbn [rbind]. eauto.
Qed.

Theorem emit_func_section_total m x fs :
  used_local_functions m = Ok fs ->
  (forall id lf, In (id, lf) fs -> has_idx x S_type (lf_ty lf)) -> exists r, emit_func_section m x = Ok r.
Proof.
  intros Hfs H. rewrite emit_func_section_unfold, Hfs. cbn [rbind]. destruct fs as [|p r]; [eauto|].
  destruct (func_go_total _ x H) as [b Eb]. rewrite Eb. cbn [rbind]. eauto.
Qed.

(* --- globals: the initialiser of a local global may mention indexed functions, and globals that are
   indexed when it is emitted (the imported ones, and the local ones up to and including itself) *)
Fixpoint globals_ok (x : x2i) (l : list (N * mglobal * mconst)) : Prop :=
  match l with
  | [] => True
  | (id, g, c) :: r => const_ok (push_idx x S_global id) c /\ globals_ok (push_idx x S_global id) r
  end.

Lemma globals_go_total : forall l x, globals_ok x l <-> exists r, globals_go l x = Ok r.
Proof.
  induction l as [|[[id g] c] l IH]; intros x; cbn [globals_go globals_ok]; [split; eauto|]. fold globals_go.
  rewrite emit_const_total, IH. split.
  - intros [[w Ew] [b Eb]]. rewrite Ew. cbn [rbind]. rewrite Eb. cbn [rbind]. eauto.
  - intros [r E]. rinv E as w Ew. rinv E as b Eb. eauto.
Qed.

Theorem emit_globals_total m x : globals_ok x (local_globals m) <-> exists r, emit_globals m x = Ok r.
Proof.
  rewrite emit_globals_unfold. destruct (local_globals m) as [|p l] eqn:El; [cbn; split; eauto|].
  rewrite globals_go_total. split.
  - intros [b Eb]. rewrite Eb. cbn [rbind]. eauto.
  - intros [r E]. rinv E as b Eb. eauto.
Qed.

Lemma globals_ok_simple : forall l x, (forall t, In t l -> const_ok x (snd t)) -> globals_ok x l.
Proof.
  induction l as [|[[id g] c] l IH]; intros x H; cbn [globals_ok]; [exact I|]. split.
  - apply const_ok_push. apply (H (id, g, c)). left; reflexivity.
  - apply IH. intros t Ht. apply const_ok_push, H. right; exact Ht.
Qed.

(* --- exports *)
Theorem emit_exports_total m x :
  (forall e, In e (map snd (aiter (m_exports m))) -> has_idx x (kind_space (ex_kind e)) (ex_item e)) ->
  exists s, emit_exports m x = Ok s.
Proof.
  unfold emit_exports. intros H. destruct (map snd (aiter (m_exports m))) as [|e r]; [eauto|].
  match goal with |- context [rmapM ?f ?l] => destruct (rmapM_total f l) as [es Ees] end.
  - intros a Ha. destruct (get_idx_total _ _ _ (H a Ha)) as [i Ei]. rewrite Ei. cbn [rbind]. eauto.
  - rewrite Ees. cbn [rbind]. eauto.
Qed.

(* --- start *)
Lemma emit_start_total x f : has_idx x S_func f -> exists s, (i <- get_idx x S_func f ;; Ok [S_Start i]) = Ok s.
Proof. intros H. destruct (get_idx_total _ _ _ H) as [i Ei]. rewrite Ei. cbn. eauto. Qed.

(* --- elements *)
Definition elem_ok (x : x2i) (e : melem) : Prop :=
  match el_items e with
  | ELI_Funcs fs => forall f, In f fs -> has_idx x S_func f
  | ELI_Exprs _ es => forall c, In c es -> const_ok x c
  end /\
  match el_kind e with
  | ELK_Active t off => has_idx x S_table t /\ const_ok x off
  | _ => True
  end.

Theorem emit_elem_total x e : elem_ok x e -> exists w, emit_elem x e = Ok w.
Proof.
  intros [Hi Hk]. unfold emit_elem.
  assert (exists its, match el_items e with
                      | ELI_Funcs fs => rmap WEI_Funcs (rmapM (get_idx x S_func) fs)
                      | ELI_Exprs t es => rmap (WEI_Exprs t) (rmapM (emit_const x) es)
                      end = Ok its) as [its Eits].
  { destruct (el_items e) as [fs|t es].
    - destruct (rmapM_total (get_idx x S_func) fs) as [l El]; [intros a Ha; apply get_idx_total, Hi, Ha|].
      rewrite El. cbn. eauto.
    - destruct (rmapM_total (emit_const x) es) as [l El]; [intros a Ha; apply emit_const_total, Hi, Ha|].
      rewrite El. cbn. eauto. }
  rewrite Eits. cbn [rbind].
  destruct (el_kind e) as [| |t off]; cbn [rbind]; eauto.
  destruct Hk as [Ht Ho]. destruct (get_idx_total _ _ _ Ht) as [ti Eti]. rewrite Eti. cbn [rbind].
  apply emit_const_total in Ho. destruct Ho as [o Eo]. rewrite Eo. cbn [rbind]. eauto.
Qed.

Lemma elem_ok_push x e S id : elem_ok x e -> elem_ok (push_idx x S id) e.
Proof.
  intros [Hi Hk]. split.
  - destruct (el_items e); intros a Ha; [apply has_idx_push|apply const_ok_push]; auto.
  - destruct (el_kind e); auto. destruct Hk. split; [apply has_idx_push|apply const_ok_push]; auto.
Qed.

Lemma elems_go_total : forall l x, (forall p, In p l -> elem_ok x (snd p)) -> exists r, elems_go l x = Ok r.
Proof.
  induction l as [|[id e] l IH]; intros x H; cbn [elems_go]; [eauto|]. fold elems_go.
  destruct (emit_elem_total (push_idx x S_elem id) e) as [w Ew]; [apply elem_ok_push, (H (id, e)); left; reflexivity|].
  rewrite Ew. cbn [rbind].
  destruct (IH (push_idx x S_elem id)) as [b Eb]; [intros p Hp; apply elem_ok_push, H; right; exact Hp|].
  rewrite Eb. cbn [rbind]. eauto.
Qed.

Theorem emit_elements_total m x :
  (forall p, In p (aiter (m_elements m)) -> elem_ok x (snd p)) -> exists r, emit_elements m x = Ok r.
Proof.
  rewrite emit_elements_unfold. intros H. destruct (aiter (m_elements m)) as [|p l]; [eauto|].
  destruct (elems_go_total _ x H) as [b Eb]. rewrite Eb. cbn [rbind]. eauto.
Qed.

(* --- data count: no index lookup; only the traversals of the local functions can fail *)
Theorem emit_data_count_total m x :
  (forall p, In p (aiter (m_funcs m)) -> match fn_kind (snd p) with FK_Local lf => exists evs, lf_log lf = Ok evs | _ => True end) ->
  exists r, emit_data_count m x = Ok r.
Proof.
  unfold emit_data_count. intros H. destruct (aiter (m_data m)) as [|p l]; [eauto|].
  match goal with |- context [rmapM ?f ?l] => destruct (rmapM_total f l) as [us Eus] end.
  - intros a Ha. specialize (H a Ha). destruct (fn_kind (snd a)); eauto.
    destruct H as [evs E]. unfold uses_data. rewrite E. cbn. eauto.
  - rewrite Eus. cbn [rbind]. destruct (_ || _); eauto.
Qed.

(* --- data *)
Definition data_ok (x : x2i) (d : mdata) : Prop :=
  match da_kind d with DK_Active mem off => has_idx x S_memory mem /\ const_ok x off | DK_Passive => True end.

Theorem emit_data_total m x :
  (forall p, In p (aiter (m_data m)) -> data_ok x (snd p)) -> exists s, emit_data m x = Ok s.
Proof.
  unfold emit_data. intros H. destruct (aiter (m_data m)) as [|p l]; [eauto|].
  match goal with |- context [rmapM ?f ?l] => destruct (rmapM_total f l) as [ds Eds] end.
  - intros a Ha. specialize (H a Ha). unfold data_ok in H. destruct (da_kind (snd a)) as [|mem off]; [eauto|].
    destruct H as [Hm Ho]. destruct (get_idx_total _ _ _ Hm) as [mi Emi]. rewrite Emi. cbn [rbind].
    apply emit_const_total in Ho. destruct Ho as [o Eo]. rewrite Eo. cbn [rbind]. eauto.
  - rewrite Eds. cbn [rbind]. eauto.
Qed.

(* --- name section: every named live entity must have an index *)
Lemma named_total {A} x s (getn : A -> option ModuleM.str) (l : list (N * A)) :
  (forall p, In p l -> getn (snd p) <> None -> has_idx x s (fst p)) -> exists r, named x s getn l = Ok r.
Proof.
  intros H. unfold named.
  match goal with |- context [rmapM ?f ?l] => destruct (rmapM_total f l) as [r Er] end.
  - intros a Ha. destruct (getn (snd a)) eqn:En; [|eauto].
    destruct (get_idx_total x s (fst a)) as [i Ei]; [apply H; [exact Ha|congruence]|]. rewrite Ei. cbn. eauto.
  - rewrite Er. cbn. eauto.
Qed.

Theorem emit_names_total m x efs :
  (forall p, In p (aiter (m_funcs m)) -> has_idx x S_func (fst p)) ->
  (forall p, In p (live_types m) -> ty_name (snd p) <> None -> has_idx x S_type (fst p)) ->
  (forall p, In p (aiter (m_tables m)) -> tb_name (snd p) <> None -> has_idx x S_table (fst p)) ->
  (forall p, In p (aiter (m_memories m)) -> me_name (snd p) <> None -> has_idx x S_memory (fst p)) ->
  (forall p, In p (aiter (m_globals m)) -> gl_name (snd p) <> None -> has_idx x S_global (fst p)) ->
  (forall p, In p (aiter (m_elements m)) -> el_name (snd p) <> None -> has_idx x S_elem (fst p)) ->
  (forall p, In p (aiter (m_data m)) -> da_name (snd p) <> None -> has_idx x S_data (fst p)) ->
  exists r, emit_names m x efs = Ok r.
Proof.
  intros Hf Hty Htb Hme Hgl Hel Hda. unfold emit_names.
  destruct (named_total x S_func fn_name (aiter (m_funcs m))) as [funcs E1]; [auto|]. rewrite E1. cbn [rbind].
  match goal with |- context [rmapM ?f ?l] => destruct (rmapM_total f l) as [locals E2] end.
  { intros a Ha. destruct (find _ efs) as [e|]; [|eauto].
    match goal with |- context [match ?names with [] => _ | _ => _ end] => destruct names; [eauto|] end.
    destruct (get_idx_total x S_func (fst a) (Hf a Ha)) as [fi Efi]. rewrite Efi. cbn. eauto. }
  rewrite E2. cbn [rbind].
  destruct (named_total x S_type ty_name (live_types m) Hty) as [types E3]. rewrite E3. cbn [rbind].
  destruct (named_total x S_table tb_name (aiter (m_tables m)) Htb) as [tables E4]. rewrite E4. cbn [rbind].
  destruct (named_total x S_memory me_name (aiter (m_memories m)) Hme) as [mems E5]. rewrite E5. cbn [rbind].
  destruct (named_total x S_global gl_name (aiter (m_globals m)) Hgl) as [globals E6]. rewrite E6. cbn [rbind].
  destruct (named_total x S_elem el_name (aiter (m_elements m)) Hel) as [elems E7]. rewrite E7. cbn [rbind].
  destruct (named_total x S_data da_name (aiter (m_data m)) Hda) as [data E8]. rewrite E8. cbn [rbind].
  destruct (m_name m); [eauto|]. destruct funcs; [|eauto]. destruct (sort_nm (concat locals)); [|eauto].
  destruct types; [|eauto]. destruct tables; [|eauto]. destruct mems; [|eauto]. destruct globals; [|eauto].
  destruct elems; [|eauto]. destruct data; eauto.
Qed.

(* ---------------------------------------------------------------- the whole of emit_wasm
   A module is [emit_closed] when every id it mentions is live, of the right kind, and -- for the
   initialisers of globals -- already indexed when it is needed.  Phrased on the final emission
   order of Part 2.  Then no section emitter panics on an index lookup; what remains are the
   function bodies (emit_code: refs_ok / emit_body) and the name section, taken as premises. *)
Definition ids_of (x : x2i) (S : space) : list N := map fst (space_map x S).

Lemma fold_pushed_ids : forall ids l0, map fst (fold_left (fun l id => pushed l id) ids l0) = map fst l0 ++ ids.
Proof.
  intros ids l0. rewrite fold_push_spec, map_app, map_fst_combine; [reflexivity|].
  rewrite map_length, seq_length. reflexivity.
Qed.
Lemma ids_of_push_all_same S ids x : S <> S_local -> ids_of (push_all S ids x) S = ids_of x S ++ ids.
Proof. intros HS. unfold ids_of. rewrite push_all_same by exact HS. apply fold_pushed_ids. Qed.
Lemma ids_of_push_all_other S S' ids x : S <> S' -> ids_of (push_all S ids x) S' = ids_of x S'.
Proof. intros HS. unfold ids_of. rewrite push_all_other by exact HS. reflexivity. Qed.
Lemma ids_of_imports S l x : ids_of (fold_left push_import l x) S = ids_of x S ++ imp_ids S l.
Proof. unfold ids_of. rewrite fold_push_import_space. apply fold_pushed_ids. Qed.
Lemma ids_of_empty S : ids_of empty_x2i S = [].
Proof. destruct S; reflexivity. Qed.
Lemma ids_of_push_idx_same S id x : S <> S_local -> ids_of (push_idx x S id) S = ids_of x S ++ [id].
Proof. intros HS. unfold ids_of. rewrite push_idx_same by exact HS. unfold pushed. rewrite map_app. reflexivity. Qed.
Lemma ids_of_push_idx_other S S' id x : S <> S' -> ids_of (push_idx x S id) S' = ids_of x S'.
Proof. intros HS. unfold ids_of. rewrite push_idx_other by exact HS. reflexivity. Qed.

(* every map is numbered 0,1,2,... whatever the ids are *)
Definition numbered (x : x2i) : Prop := forall S, map snd (space_map x S) = iota (length (space_map x S)).
Lemma pushed_snd l id : map snd l = iota (length l) -> map snd (pushed l id) = iota (length (pushed l id)).
Proof. intros H. unfold pushed. rewrite map_app, app_length. cbn [map snd length]. rewrite Nat.add_1_r, iota_S, H. reflexivity. Qed.
Lemma numbered_empty : numbered empty_x2i.
Proof. intros S; destruct S; reflexivity. Qed.
Lemma numbered_push x S id : numbered x -> numbered (push_idx x S id).
Proof.
  intros H S'. destruct S; try exact (H S');
  destruct S'; first [ rewrite push_idx_other by discriminate; apply H
                     | rewrite push_idx_same by discriminate; apply pushed_snd, H ].
Qed.
Lemma numbered_push_all S ids : forall x, numbered x -> numbered (push_all S ids x).
Proof. induction ids as [|i r IH]; intros x H; cbn [push_all fold_left]; [exact H|]. apply IH, numbered_push, H. Qed.
Lemma numbered_imports l : forall x, numbered x -> numbered (fold_left push_import l x).
Proof.
  induction l as [|i r IH]; intros x H; cbn [fold_left]; [exact H|]. apply IH. unfold push_import.
  destruct (im_kind i); apply numbered_push, H.
Qed.
Lemma numbered_number x S : numbered x -> space_map x S = number (ids_of x S).
Proof.
  intros H. specialize (H S). unfold number, ids_of. rewrite map_length, <- H. clear.
  induction (space_map x S) as [|[a b] r IH]; [reflexivity|]. cbn. rewrite <- IH. reflexivity.
Qed.

Definition cref (Fs Gs : list N) (c : mconst) : Prop :=
  match c with MC_Global g => In g Gs | MC_RefFunc f => In f Fs | _ => True end.
Lemma const_ok_cref x c : const_ok x c <-> cref (ids_of x S_func) (ids_of x S_global) c.
Proof. destruct c; reflexivity. Qed.

Lemma globals_ok_prefix : forall l x,
  (forall l1 id g c l2, l = l1 ++ (id, g, c) :: l2 -> const_ok (push_all S_global (map gid l1 ++ [id]) x) c) ->
  globals_ok x l.
Proof.
  induction l as [|[[id g] c] l IH]; intros x H; cbn [globals_ok]; [exact I|]. split.
  - apply (H [] id g c l). reflexivity.
  - apply IH. intros l1 id' g' c' l2 E. specialize (H ((id, g, c) :: l1) id' g' c' l2).
    cbn [map gid fst app push_all fold_left] in H. apply H. rewrite E. reflexivity.
Qed.

Record emit_closed (m : wir) (fs : list (N * mlocalfunc)) : Prop := {
  (* imports: the imported entity is live; an imported function's type is an emitted type *)
  ec_imports : forall i, In i (live_imports m) ->
    match im_kind i with
    | MI_Func f => exists fn, aget (m_funcs m) f = Some fn /\ In (func_ty fn) (map fst (emitted_types m))
    | MI_Table t => exists tb, aget (m_tables m) t = Some tb
    | MI_Mem mm => exists me, aget (m_memories m) mm = Some me
    | MI_Global g => exists gl, aget (m_globals m) g = Some gl
    end;
  (* local functions: their types are emitted types *)
  ec_funcs : forall id lf, In (id, lf) fs -> In (lf_ty lf) (map fst (emitted_types m));
  (* global initialisers: emitted functions; imported globals or local globals up to itself *)
  ec_globals : forall l1 id g c l2, local_globals m = l1 ++ (id, g, c) :: l2 ->
    cref (imported_funcs m ++ map fst fs) (imported_globals m ++ map gid l1 ++ [id]) c;
  ec_exports : forall e, In e (map snd (aiter (m_exports m))) ->
    In (ex_item e) (match ex_kind e with
                    | EK_Func => imported_funcs m ++ map fst fs
                    | EK_Table => imported_tables m ++ map fst (local_tables m)
                    | EK_Mem => imported_memories m ++ map fst (local_memories m)
                    | EK_Global => imported_globals m ++ map gid (local_globals m) end);
  ec_start : forall f, m_start m = Some f -> In f (imported_funcs m ++ map fst fs);
  ec_elements : forall p, In p (aiter (m_elements m)) ->
    match el_items (snd p) with
    | ELI_Funcs l => forall f, In f l -> In f (imported_funcs m ++ map fst fs)
    | ELI_Exprs _ es => forall c, In c es ->
        cref (imported_funcs m ++ map fst fs) (imported_globals m ++ map gid (local_globals m)) c
    end /\
    match el_kind (snd p) with
    | ELK_Active t off => In t (imported_tables m ++ map fst (local_tables m)) /\
        cref (imported_funcs m ++ map fst fs) (imported_globals m ++ map gid (local_globals m)) off
    | _ => True
    end;
  ec_data : forall p, In p (aiter (m_data m)) ->
    match da_kind (snd p) with
    | DK_Active mem off => In mem (imported_memories m ++ map fst (local_memories m)) /\
        cref (imported_funcs m ++ map fst fs) (imported_globals m ++ map gid (local_globals m)) off
    | DK_Passive => True
    end }.

(* the maps as they stand when the code section is emitted *)
Definition final_maps (m : wir) (fs : list (N * mlocalfunc)) (x : x2i) : Prop :=
  xi_types x = number (map fst (emitted_types m)) /\
  xi_funcs x = number (imported_funcs m ++ map fst fs) /\
  xi_tables x = number (imported_tables m ++ map fst (local_tables m)) /\
  xi_memories x = number (imported_memories m ++ map fst (local_memories m)) /\
  xi_globals x = number (imported_globals m ++ map gid (local_globals m)) /\
  xi_elements x = number (map fst (aiter (m_elements m))) /\
  xi_data x = number (map fst (aiter (m_data m))).

Lemma used_local_functions_logs m fs : used_local_functions m = Ok fs ->
  forall p, In p (aiter (m_funcs m)) -> match fn_kind (snd p) with FK_Local lf => exists evs, lf_log lf = Ok evs | _ => True end.
Proof.
  unfold used_local_functions. intros H. rinv H as l El. clear H. apply rmapM_ok_inv in El.
  induction El as [|p b L bs Hp HF IH]; intros q Hq; [destruct Hq|]. destruct Hq as [<-|Hq]; [|apply IH; exact Hq].
  destruct (fn_kind (snd p)); [exact I| |exact I]. rinv Hp as sz Esz. unfold lf_size in Esz.
  destruct (lf_log lf); try discriminate. eauto.
Qed.

Theorem emitM_total : forall m ilen dw fs,
  used_local_functions m = Ok fs ->
  emit_closed m fs ->
  (* function bodies and the name section: not index-map matters, taken as given *)
  (forall x, final_maps m fs x ->
     exists s x' efs, emit_code m x ilen = Ok (s, x', efs) /\
       (cf_skip_name (m_config m) = true \/ exists s', emit_names m x' efs = Ok s')) ->
  exists e, emitM m ilen dw = Ok e.
Proof.
  intros m ilen dw fs Hfs C Hcode. unfold emitM, set_customs_take.
  (* types *)
  destruct (emit_types m empty_x2i) as [s_ty x1] eqn:E1.
  pose proof (emit_types_x m empty_x2i) as F1. rewrite E1 in F1. cbn [snd] in F1. clear E1.
  (* imports *)
  destruct (emit_imports_total m x1) as [[s_im x2] E2].
  { intros i Hi. pose proof (ec_imports _ _ C i Hi) as Hc. unfold import_ok. destruct (im_kind i); auto.
    destruct Hc as [fn [Hg Ht]]. exists fn. split; [exact Hg|]. unfold has_idx. fold (ids_of x1 S_type).
    rewrite F1, ids_of_push_all_same, ids_of_empty by discriminate. exact Ht. }
  rewrite E2. cbn [rbind]. apply emit_imports_x in E2.
  (* function section *)
  destruct (emit_func_section_total m x2 fs Hfs) as [[s_fn x3] E3].
  { intros id lf Hin. unfold has_idx. fold (ids_of x2 S_type).
    rewrite E2, ids_of_imports, imp_ids_nil, app_nil_r, F1, ids_of_push_all_same, ids_of_empty by (exact I || discriminate).
    eapply ec_funcs; eauto. }
  rewrite E3. cbn [rbind]. apply emit_func_section_x in E3. destruct E3 as [fs' [Hfs' E3]].
  assert (fs' = fs) by congruence. subst fs'. clear Hfs'.
  (* tables, memories *)
  destruct (emit_tables m x3) as [s_tb x4] eqn:E4.
  pose proof (emit_tables_x m x3) as F4. rewrite E4 in F4. cbn [snd] in F4. clear E4.
  destruct (emit_memories m x4) as [s_me x5] eqn:E5.
  pose proof (emit_memories_x m x4) as F5. rewrite E5 in F5. cbn [snd] in F5. clear E5.
  (* the maps so far *)
  assert (Ifunc : ids_of x5 S_func = imported_funcs m ++ map fst fs).
  { rewrite F5, F4, E3, E2, F1. rewrite !ids_of_push_all_other by discriminate.
    rewrite ids_of_push_all_same, ids_of_imports, ids_of_push_all_other, ids_of_empty by discriminate. reflexivity. }
  assert (Itab : ids_of x5 S_table = imported_tables m ++ map fst (local_tables m)).
  { rewrite F5, F4, E3, E2, F1. rewrite ids_of_push_all_other by discriminate.
    rewrite ids_of_push_all_same, ids_of_push_all_other, ids_of_imports, ids_of_push_all_other, ids_of_empty by discriminate.
    reflexivity. }
  assert (Imem : ids_of x5 S_memory = imported_memories m ++ map fst (local_memories m)).
  { rewrite F5, F4, E3, E2, F1.
    rewrite ids_of_push_all_same, !ids_of_push_all_other, ids_of_imports, ids_of_push_all_other, ids_of_empty by discriminate.
    reflexivity. }
  assert (Iglob : ids_of x5 S_global = imported_globals m).
  { rewrite F5, F4, E3, E2, F1.
    rewrite !ids_of_push_all_other, ids_of_imports, ids_of_push_all_other, ids_of_empty by discriminate. reflexivity. }
  assert (Ityp : ids_of x5 S_type = map fst (emitted_types m)).
  { rewrite F5, F4, E3, E2, F1.
    rewrite !ids_of_push_all_other, ids_of_imports, imp_ids_nil, app_nil_r, ids_of_push_all_same, ids_of_empty
      by (exact I || discriminate). reflexivity. }
  assert (Ielem : ids_of x5 S_elem = []).
  { rewrite F5, F4, E3, E2, F1.
    rewrite !ids_of_push_all_other, ids_of_imports, imp_ids_nil, app_nil_r, ids_of_push_all_other, ids_of_empty
      by (exact I || discriminate). reflexivity. }
  assert (Idata : ids_of x5 S_data = []).
  { rewrite F5, F4, E3, E2, F1.
    rewrite !ids_of_push_all_other, ids_of_imports, imp_ids_nil, app_nil_r, ids_of_push_all_other, ids_of_empty
      by (exact I || discriminate). reflexivity. }
  assert (Num5 : numbered x5).
  { rewrite F5, F4, E3, E2, F1. repeat first [apply numbered_push_all | apply numbered_imports]. apply numbered_empty. }
  clear F5 F4 E3 E2 F1 x1 x2 x3 x4.
  (* globals *)
  destruct (proj1 (emit_globals_total m x5)) as [[s_gl x6] E6].
  { apply globals_ok_prefix. intros l1 id g c l2 El. apply const_ok_cref.
    rewrite ids_of_push_all_other, ids_of_push_all_same, Ifunc, Iglob by discriminate.
    eapply ec_globals; eauto. }
  rewrite E6. cbn [rbind]. apply emit_globals_x in E6.
  assert (Ifunc6 : ids_of x6 S_func = imported_funcs m ++ map fst fs)
    by (rewrite E6, ids_of_push_all_other by discriminate; exact Ifunc).
  assert (Itab6 : ids_of x6 S_table = imported_tables m ++ map fst (local_tables m))
    by (rewrite E6, ids_of_push_all_other by discriminate; exact Itab).
  assert (Imem6 : ids_of x6 S_memory = imported_memories m ++ map fst (local_memories m))
    by (rewrite E6, ids_of_push_all_other by discriminate; exact Imem).
  assert (Iglob6 : ids_of x6 S_global = imported_globals m ++ map gid (local_globals m))
    by (rewrite E6, ids_of_push_all_same, Iglob by discriminate; reflexivity).
  (* exports *)
  destruct (emit_exports_total m x6) as [s_ex E7].
  { intros e He. pose proof (ec_exports _ _ C e He) as Hc. unfold has_idx.
    destruct (ex_kind e); cbn [kind_space];
      [fold (ids_of x6 S_func); rewrite Ifunc6|fold (ids_of x6 S_table); rewrite Itab6
      |fold (ids_of x6 S_memory); rewrite Imem6|fold (ids_of x6 S_global); rewrite Iglob6]; exact Hc. }
  rewrite E7. cbn [rbind].
  (* start *)
  assert (exists s_st, match m_start m with Some f => i <- get_idx x6 S_func f ;; Ok [S_Start i] | None => Ok [] end = Ok s_st)
    as [s_st E8].
  { destruct (m_start m) as [f|] eqn:Es; [|eauto]. apply emit_start_total. unfold has_idx. fold (ids_of x6 S_func).
    rewrite Ifunc6. eapply ec_start; eauto. }
  rewrite E8. cbn [rbind].
  (* elements *)
  assert (Cr : forall c, cref (imported_funcs m ++ map fst fs) (imported_globals m ++ map gid (local_globals m)) c ->
                         const_ok x6 c).
  { intros c Hc. apply const_ok_cref. rewrite Ifunc6, Iglob6. exact Hc. }
  destruct (emit_elements_total m x6) as [[s_el x9] E9].
  { intros p Hp. destruct (ec_elements _ _ C p Hp) as [Hi Hk]. split.
    - destruct (el_items (snd p)); [|auto]. intros f Hf. unfold has_idx. fold (ids_of x6 S_func). rewrite Ifunc6. auto.
    - destruct (el_kind (snd p)); auto. destruct Hk as [Ht Ho]. split; [|auto].
      unfold has_idx. fold (ids_of x6 S_table). rewrite Itab6. exact Ht. }
  rewrite E9. cbn [rbind]. apply emit_elements_x in E9.
  (* data count *)
  destruct (emit_data_count_total m x9 (used_local_functions_logs m fs Hfs)) as [[s_dc x10] E10].
  rewrite E10. cbn [rbind]. apply emit_data_count_x in E10.
  (* the final maps *)
  assert (FM : final_maps m fs x10).
  { assert (N6 : forall S, space_map x6 S = number (ids_of x6 S)).
    { intros S. apply numbered_number. rewrite E6. apply numbered_push_all, Num5. }
    unfold final_maps.
    change (xi_types x10) with (space_map x10 S_type). change (xi_funcs x10) with (space_map x10 S_func).
    change (xi_tables x10) with (space_map x10 S_table). change (xi_memories x10) with (space_map x10 S_memory).
    change (xi_globals x10) with (space_map x10 S_global). change (xi_elements x10) with (space_map x10 S_elem).
    change (xi_data x10) with (space_map x10 S_data).
    assert (G : forall S, S <> S_data -> space_map x10 S = space_map x9 S).
    { intros S HS. rewrite E10. destruct (aiter (m_data m)); [reflexivity|]. apply space_map_set_other. congruence. }
    assert (D9 : space_map x9 S_data = []).
    { rewrite E9, push_all_other, N6, E6 by discriminate. rewrite ids_of_push_all_other, Idata by discriminate. reflexivity. }
    assert (GD : space_map x10 S_data = number (map fst (aiter (m_data m)))).
    { rewrite E10. destruct (aiter (m_data m)) as [|p r]; [exact D9|]. apply space_map_set_same. discriminate. }
    rewrite GD, !G by discriminate. rewrite E9.
    rewrite !push_all_other by discriminate. rewrite push_all_same by discriminate.
    rewrite !N6, Ifunc6, Itab6, Imem6, Iglob6.
    assert (It6 : ids_of x6 S_type = map fst (emitted_types m))
      by (rewrite E6, ids_of_push_all_other by discriminate; exact Ityp).
    assert (Ie6 : ids_of x6 S_elem = []) by (rewrite E6, ids_of_push_all_other by discriminate; exact Ielem).
    rewrite It6, Ie6. repeat split. apply fold_push_number. }
  (* code, data, names *)
  destruct (Hcode x10 FM) as [s_co [x11 [efs [E11 Hn]]]]. rewrite E11. cbn [rbind].
  pose proof (emit_code_x _ _ _ _ _ _ E11) as F11.
  destruct (emit_data_total m x11) as [s_da E12].
  { intros p Hp. pose proof (ec_data _ _ C p Hp) as Hc. unfold data_ok. destruct (da_kind (snd p)) as [|mem off]; [exact I|].
    destruct Hc as [Hm Ho].
    assert (forall S, ids_of x11 S = ids_of x6 S \/ S = S_data \/ S = S_elem) as K.
    { intros S. unfold ids_of. rewrite F11. destruct S; auto; left;
        rewrite E10; (destruct (aiter (m_data m)); [|rewrite space_map_set_other by discriminate]);
        rewrite E9, push_all_other by discriminate; reflexivity. }
    split.
    - unfold has_idx. fold (ids_of x11 S_memory). destruct (K S_memory) as [->|[?|?]]; try discriminate.
      rewrite Imem6. exact Hm.
    - apply const_ok_cref. destruct (K S_func) as [->|[?|?]]; try discriminate.
      destruct (K S_global) as [->|[?|?]]; try discriminate. rewrite Ifunc6, Iglob6. exact Ho. }
  rewrite E12. cbn [rbind].
  destruct Hn as [Hs|[s_nm E13]].
  - rewrite Hs. cbn [rbind]. eauto.
  - rewrite E13. destruct (cf_skip_name (m_config m)); cbn [rbind]; eauto.
Qed.

(* ---------------------------------------------------------------- the sections list the entities
   in the order of the maps: position k of a map's id list is entry k of the corresponding section(s) *)
Definition import_emitted (m : wir) (i : mimport) (w : wimport) : Prop :=
  wi_module w = im_module i /\ wi_name w = im_name i /\
  match im_kind i with
  | MI_Func f => exists ti, wi_kind w = WI_Func ti
  | MI_Table t => exists tb, aget (m_tables m) t = Some tb /\ wi_kind w = WI_Table (gen_emit_table_import tb)
  | MI_Mem mm => exists me, aget (m_memories m) mm = Some me /\ wi_kind w = WI_Mem (gen_emit_memory_import me)
  | MI_Global g => exists gl, aget (m_globals m) g = Some gl /\ wi_kind w = WI_Global (gen_emit_global_import gl)
  end.
Lemma of_opt_ok {A} (o : option A) a : of_opt o = Ok a -> o = Some a.
Proof. destruct o; cbn; congruence. Qed.
Lemma emit_imports_l_entries m : forall l x ws x', emit_imports_l m x l = Ok (ws, x') -> Forall2 (import_emitted m) l ws.
Proof.
  induction l as [|i r IH]; intros x ws x' H; cbn [emit_imports_l] in H.
  - inversion H; constructor.
  - rinv H as a Ea. rinv H as b Eb. inversion H; subst; clear H. destruct a as [w x1], b as [ws' x2]. cbn [fst snd] in *.
    constructor; [|eapply IH; eauto]. clear IH Eb. unfold emit_import in Ea. unfold import_emitted.
    destruct (im_kind i).
    + rinv Ea as fn Efn. rinv Ea as ti Eti. inversion Ea; subst; cbn; eauto.
    + rinv Ea as tb Etb. apply of_opt_ok in Etb. inversion Ea; subst; cbn; eauto.
    + rinv Ea as tb Etb. apply of_opt_ok in Etb. inversion Ea; subst; cbn; eauto.
    + rinv Ea as tb Etb. apply of_opt_ok in Etb. inversion Ea; subst; cbn; eauto.
Qed.
Lemma emit_imports_entries m x s x' : emit_imports m x = Ok (s, x') ->
  (live_imports m = [] /\ s = []) \/ exists ws, s = [S_Imports ws] /\ Forall2 (import_emitted m) (live_imports m) ws.
Proof.
  unfold emit_imports, live_imports. destruct (map snd (aiter (m_imports m))) as [|i r] eqn:E.
  - intros H; inversion H; auto.
  - intros H. rinv H as a Ea. inversion H; subst; clear H. destruct a as [ws x1]. right. exists ws.
    split; [reflexivity|]. eapply emit_imports_l_entries; eauto.
Qed.

Lemma get_idx_push_other x S S' id id' : S <> S' -> get_idx (push_idx x S id) S' id' = get_idx x S' id'.
Proof. intros H. unfold get_idx. rewrite push_idx_other by exact H. reflexivity. Qed.
(* entry k of the function section is the type index of the k-th local function of the map *)
Lemma func_go_entries : forall l x r, func_go l x = Ok r ->
  Forall2 (fun p ti => get_idx x S_type (lf_ty (snd p)) = Ok ti) l (fst r).
Proof.
  induction l as [|[id lf] l IH]; intros x r H; cbn [func_go] in H.
  - inversion H; constructor.
  - fold func_go in H. rinv H as ti Eti. rinv H as b Eb. inversion H; subst; clear H. cbn [fst].
    constructor; [exact Eti|]. apply IH in Eb. clear - Eb.
    induction Eb as [|p t l' ts Hp HF IH']; constructor; [|exact IH'].
    rewrite get_idx_push_other in Hp by discriminate. exact Hp.
Qed.
Lemma emit_tables_entries m x :
  fst (emit_tables m x) = match local_tables m with [] => [] | l => [S_Tables (map (fun p => gen_emit_table_local (snd p)) l)] end.
Proof. unfold emit_tables. fold (local_tables m). destruct (local_tables m); reflexivity. Qed.
Lemma emit_memories_entries m x :
  fst (emit_memories m x) = match local_memories m with [] => [] | l => [S_Mems (map (fun p => gen_emit_memory_local (snd p)) l)] end.
Proof. unfold emit_memories. fold (local_memories m). destruct (local_memories m); reflexivity. Qed.
Lemma globals_go_entries : forall l x r, globals_go l x = Ok r ->
  Forall2 (fun t e => fst e = gen_emit_global_local (snd (fst t))) l (fst r).
Proof.
  induction l as [|[[id g] c] l IH]; intros x r H; cbn [globals_go] in H.
  - inversion H; constructor.
  - fold globals_go in H. rinv H as wc Ewc. rinv H as b Eb. inversion H; subst; clear H. cbn [fst].
    constructor; [reflexivity|]. eapply IH; eauto.
Qed.
Lemma elems_go_entries : forall l x r, elems_go l x = Ok r -> length (fst r) = length l.
Proof.
  induction l as [|[id e] l IH]; intros x r H; cbn [elems_go] in H.
  - inversion H; reflexivity.
  - fold elems_go in H. rinv H as we Ewe. rinv H as b Eb. inversion H; subst; clear H. cbn [fst length].
    f_equal. eapply IH; eauto.
Qed.

(* ---------------------------------------------------------------- Part 1 addendum:
   the premise [types_wf] of parse_types_spec holds at every type section of a real parse *)
Lemma parse_imports_types : forall l m ids m' ids', parse_imports m ids l = POk (m', ids') -> m_types m' = m_types m.
Proof.
  induction l as [|i r IH]; intros m ids m' ids' E; cbn [parse_imports] in E; [inversion E; reflexivity|].
  pinv E as x Ex. destruct x as [m1 ids1]. apply IH in E. wcbn. rewrite E. clear E IH.
  unfold parse_import in Ex. destruct (wi_kind i); [pinv Ex as t Et|..]; wcbn; inversion Ex; reflexivity.
Qed.
Lemma parse_funcs_types : forall l m ids m' ids', parse_funcs m ids l = POk (m', ids') -> m_types m' = m_types m.
Proof.
  induction l as [|i r IH]; intros m ids m' ids' E; cbn [parse_funcs] in E; [inversion E; reflexivity|].
  pinv E as t Et. wcbn. apply IH in E. rewrite E. reflexivity.
Qed.
Lemma parse_tables_types : forall l m ids m' ids', parse_tables m ids l = (m', ids') -> m_types m' = m_types m.
Proof.
  induction l as [|i r IH]; intros m ids m' ids' E; cbn [parse_tables] in E; [inversion E; reflexivity|].
  wcbn. apply IH in E. rewrite E. reflexivity.
Qed.
Lemma parse_mems_types : forall l m ids m' ids', parse_mems m ids l = (m', ids') -> m_types m' = m_types m.
Proof.
  induction l as [|i r IH]; intros m ids m' ids' E; cbn [parse_mems] in E; [inversion E; reflexivity|].
  wcbn. apply IH in E. rewrite E. reflexivity.
Qed.
Lemma parse_globals_types : forall l m ids m' ids', parse_globals m ids l = POk (m', ids') -> m_types m' = m_types m.
Proof.
  induction l as [|[g c] r IH]; intros m ids m' ids' E; cbn [parse_globals] in E; [inversion E; reflexivity|].
  pinv E as t Et. wcbn. apply IH in E. rewrite E. reflexivity.
Qed.
Lemma parse_exports_types : forall l m ids m', parse_exports m ids l = POk m' -> m_types m' = m_types m.
Proof.
  induction l as [|e r IH]; intros m ids m' E; cbn [parse_exports] in E; [inversion E; reflexivity|].
  pinv E as t Et. wcbn. apply IH in E. rewrite E. reflexivity.
Qed.
Lemma parse_elems_types : forall l m ids m' ids', parse_elems m ids l = POk (m', ids') -> m_types m' = m_types m.
Proof.
  induction l as [|e r IH]; intros m ids m' ids' E; cbn [parse_elems] in E; [inversion E; reflexivity|].
  pinv E as x Ex. destruct x as [m1 ids1]. apply IH in E. wcbn. rewrite E. clear E IH.
  unfold parse_elem in Ex. pinv Ex as its Eits. pinv Ex as mk Emk. destruct mk as [m2 kind].
  wcbn. inversion Ex; subst; clear Ex. wcbn.
  destruct (wel_kind e).
  - inversion Emk; reflexivity.
  - inversion Emk; reflexivity.
  - pinv Emk as tid Etid. pinv Emk as tb Etb. pinv Emk as o Eo. pinv Emk as ok Eok. destruct ok; [|discriminate].
    inversion Emk; reflexivity.
Qed.
Lemma reserve_data_types : forall n m ids m' ids', reserve_data m ids n = (m', ids') -> m_types m' = m_types m.
Proof.
  induction n as [|n IH]; intros m ids m' ids' E; cbn [reserve_data] in E; [inversion E; reflexivity|].
  wcbn. apply IH in E. rewrite E. reflexivity.
Qed.
Lemma parse_data_from_types : forall l m ids pre i m' ids',
  parse_data_from m ids pre i l = POk (m', ids') -> m_types m' = m_types m.
Proof.
  induction l as [|d r IH]; intros m ids pre i m' ids' E; cbn [parse_data_from] in E; [inversion E; reflexivity|].
  pinv E as x Ex. destruct x as [[m1 ids1] id]. pinv E as y Ey. destruct y as [m2 kind]. pinv E as u Eu.
  apply IH in E. wcbn. rewrite E. clear E IH Eu.
  assert (H1 : m_types m1 = m_types m).
  { destruct pre; [pinv Ex as z Ez; inversion Ex; reflexivity|]. wcbn. inversion Ex; reflexivity. }
  rewrite <- H1. clear H1 Ex.
  destruct (wd_kind d).
  - inversion Ey; reflexivity.
  - pinv Ey as mid Emid. pinv Ey as mm Emm. pinv Ey as o Eo. pinv Ey as ok Eok. destruct ok; [|discriminate].
    inversion Ey; reflexivity.
Qed.

Lemma parse_sec_types_wf s sec s' :
  types_wf (m_types (ps_m s)) -> parse_sec s sec = POk s' -> types_wf (m_types (ps_m s')).
Proof.
  intros W E. unfold parse_sec in E. destruct sec.
  - destruct (parse_types _ _ _) as [m1 i1] eqn:Ep. inversion E; subst; clear E. wcbn. eapply parse_types_wf; eauto.
  - pinv E as x Ex. destruct x as [m1 i1]. inversion E; subst; clear E. wcbn. rewrite (parse_imports_types _ _ _ _ _ Ex). exact W.
  - pinv E as x Ex. destruct x as [m1 i1]. inversion E; subst; clear E. wcbn. rewrite (parse_funcs_types _ _ _ _ _ Ex). exact W.
  - destruct (parse_tables _ _ _) as [m1 i1] eqn:Ep. inversion E; subst; clear E. wcbn. rewrite (parse_tables_types _ _ _ _ _ Ep). exact W.
  - destruct (parse_mems _ _ _) as [m1 i1] eqn:Ep. inversion E; subst; clear E. wcbn. rewrite (parse_mems_types _ _ _ _ _ Ep). exact W.
  - pinv E as x Ex. destruct x as [m1 i1]. inversion E; subst; clear E. wcbn. rewrite (parse_globals_types _ _ _ _ _ Ex). exact W.
  - pinv E as x Ex. inversion E; subst; clear E. wcbn. rewrite (parse_exports_types _ _ _ _ Ex). exact W.
  - pinv E as x Ex. inversion E; subst; clear E. wcbn. exact W.
  - pinv E as x Ex. destruct x as [m1 i1]. inversion E; subst; clear E. wcbn. rewrite (parse_elems_types _ _ _ _ _ Ex). exact W.
  - destruct (reserve_data _ _ _) as [m1 i1] eqn:Ep. inversion E; subst; clear E. wcbn. rewrite (reserve_data_types _ _ _ _ _ Ep). exact W.
  - inversion E; subst; clear E. wcbn. exact W.
  - pinv E as x Ex. destruct x as [m1 i1]. inversion E; subst; clear E. wcbn. unfold parse_data in Ex.
    rewrite (parse_data_from_types _ _ _ _ _ _ _ Ex). exact W.
  - inversion E; subst; clear E. unfold parse_custom. destruct c as [n d|n d|[n|]|[p|]]; wcbn; exact W.
Qed.

Theorem parse_secs_types_wf : forall w s s',
  types_wf (m_types (ps_m s)) -> parse_secs s w = POk s' -> types_wf (m_types (ps_m s')).
Proof.
  induction w as [|x r IH]; intros s s' H E; cbn [parse_secs] in E.
  - inversion E; subst; exact H.
  - pinv E as s1 E1. eapply IH; [|exact E]. eapply parse_sec_types_wf; eauto.
Qed.

(* so: for any prefix of the payload stream of a parse from scratch, the next type section is read faithfully *)
Corollary parse_types_spec_in_parse : forall cf w s ts m' ids',
  parse_secs {| ps_m := empty_wir cf; ps_ids := empty_i2ids; ps_bodies := []; ps_names := []; ps_calls_on_parse := 0 |} w = POk s ->
  parse_types (ps_m s) (ps_ids s) ts = (m', ids') ->
  forall k t, nth_error ts k = Some t ->
  exists id ty, nth_error (ii_types ids') (length (ii_types (ps_ids s)) + k) = Some id /\
                aset_index (m_types m') (N.to_nat id) = Some ty /\
                ty_params ty = fst t /\ ty_results ty = snd t /\ ty_entry ty = false.
Proof.
  intros cf w s ts m' ids' E Ep. eapply parse_types_spec; [|exact Ep].
  eapply parse_secs_types_wf; [|exact E]. apply types_wf_empty.
Qed.

Print Assumptions parseM_ids.
Print Assumptions parse_types_spec.
Print Assumptions x2i_positions.
Print Assumptions emit_order_funcs.
Print Assumptions parse_imports_spec.
Print Assumptions emitM_x2i.
Print Assumptions emitM_total.
Print Assumptions parse_types_spec_in_parse.
