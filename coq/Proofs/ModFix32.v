(* C08, module level fixpoint, part 32: the parse-side invariant [offsets_ok] PROVED for every parsed module
   (no validity premise is needed for it), hence the second-trip totality and the module fixpoint theorem with
   validity of the input as the only premise, and idempotence of the round trip under iteration.

   Route: the invariant is carried on the K lists (Structure.v): every active element / data segment's offset
   constant has the index type of its table / memory, read off the lists of global value types, table64 and
   memory64 flags.  Those lists only grow (parse_sec_TM / parse_sec_GES), element segments are appended
   (parse_sec_E), data segments are appended or overwritten in place (parse_sec_D); the passes after the payload
   loop leave KK alone (parseM_KK). *)
From Coq Require Import List NArith ZArith Bool Arith Lia.
Import ListNotations.
From WV Require Import Gen.Ops Model.Common Model.IR Model.Arena Model.ModuleM Model.ParseM Model.EmitM Gen.Attrs.
From WV Require Import Proofs.Arena Proofs.IndexMaps Proofs.Structure Proofs.Structure2 Proofs.ParseTotal Proofs.ModFix.
From WV Require Import Proofs.ModFix26 Proofs.ModFix29.
From WV Require Proofs.ModFix31.
Local Open Scope nat_scope.

(* ---------------------------------------------------------------- the list-level readings *)
Definition M_of (KM : list (wmem * bool)) : list bool := map (fun t => wm_64 (fst t)) KM.

Lemma G_of_nth m n : nth_error (G_of (K_globals m)) n = option_map gl_ty (nth_error (items (m_globals m)) n).
Proof.
  unfold G_of, K_globals. rewrite map_map, nth_error_map. destruct (nth_error _ n); reflexivity.
Qed.
Lemma T_of_nth m n : nth_error (T_of (K_tables m)) n = option_map tb_64 (nth_error (items (m_tables m)) n).
Proof.
  unfold T_of, K_tables. rewrite map_map, nth_error_map. destruct (nth_error _ n); reflexivity.
Qed.
Lemma M_of_nth m n : nth_error (M_of (K_mems m)) n = option_map me_64 (nth_error (items (m_memories m)) n).
Proof.
  unfold M_of, K_mems. rewrite map_map, nth_error_map. destruct (nth_error _ n); reflexivity.
Qed.

Lemma POk_true_iff (b : bool) : @POk bool b = POk true <-> b = true.
Proof. split; [intros H; injection H as H; exact H|intros ->; reflexivity]. Qed.

(* the parser's check is the list-level check *)
Lemma offset_ok_offL m b c : dead (m_globals m) = [] ->
  (offset_ok m b c = POk true <-> offL (G_of (K_globals m)) b c = true).
Proof.
  intros D. unfold offset_ok, offL. destruct c as [v|g|t|f]; try apply POk_true_iff.
  - destruct v; apply POk_true_iff.
  - unfold global_ty. rewrite (Structure.aget_nodead _ _ D), G_of_nth.
    destruct (nth_error (items (m_globals m)) (N.to_nat g)) as [gl|]; cbn [option_map of_opt_panic pbind].
    + destruct (gl_ty gl); apply POk_true_iff.
    + split; discriminate.
Qed.

(* ---------------------------------------------------------------- the data half, list level *)
Definition DOK1 (G : list valty) (M : list bool) (c : mdatakind * list N) : Prop :=
  match fst c with
  | DK_Active mem off => exists is64, nth_error M (N.to_nat mem) = Some is64 /\ offL G is64 off = true
  | _ => True end.
Definition DOK (G : list valty) (M : list bool) (KD : list (mdatakind * list N)) : Prop := Forall (DOK1 G M) KD.
Definition DOKm (m : wir) : Prop := DOK (G_of (K_globals m)) (M_of (K_mems m)) (K_data m).

Lemma DOK1_mono G M a b c : DOK1 G M c -> DOK1 (G ++ a) (M ++ b) c.
Proof.
  unfold DOK1. destruct (fst c) as [|t off]; try (intros H; exact H). intros (is64 & Hn & Ho). exists is64. split.
  - assert (L : N.to_nat t < length M) by (apply nth_error_Some; rewrite Hn; discriminate). rewrite (nth_error_app1 _ _ L). exact Hn.
  - apply offL_mono. exact Ho.
Qed.
Lemma DOK_mono G M a b KD : DOK G M KD -> DOK (G ++ a) (M ++ b) KD.
Proof. unfold DOK. intros H. eapply Forall_impl; [|exact H]. intros c. apply DOK1_mono. Qed.
Lemma Forall_skipn' {A} (P : A -> Prop) : forall n l, Forall P l -> Forall P (skipn n l).
Proof.
  induction n as [|n IH]; intros l H; [exact H|]. destruct l as [|x r]; [exact H|]. cbn [skipn]. apply IH. inversion H; assumption.
Qed.

(* ---------------------------------------------------------------- one element segment *)
Lemma parse_elem_checked m ids e m1 ids1 : ids_consistent m ids -> parse_elem m ids e = POk (m1, ids1) ->
  EOK1 (G_of (K_globals m)) (T_of (K_tables m)) (elem_of e) /\ m_globals m1 = m_globals m /\ K_tables m1 = K_tables m.
Proof.
  intros Hid Ex.
  destruct (parse_elem_offset _ _ _ _ _ Ex) as (Hg & kind & its & Hit & Hk).
  destruct (parse_elem_step _ _ _ _ _ Ex) as [_ HT].
  destruct (parse_elem_spec _ _ _ _ _ (idc_ids3 _ _ Hid) Ex) as [HK _].
  split; [|split; assumption].
  unfold K_elems in HK. rewrite Hit, map_app in HK. apply app_inv_head in HK. cbn [map] in HK.
  assert (HK' : fst (elem_of e) = kind).
  { change kind with (fst (ecore {| el_kind := kind; el_items := its; el_name := None |})). congruence. }
  unfold EOK1. rewrite HK'.
  destruct kind as [| |t off]; try exact I. destruct Hk as (tb & Ht & Ho).
  assert (DG : dead (m_globals m) = []) by (unfold ids_consistent in Hid; tauto).
  assert (DT : dead (m_tables m) = []) by (unfold ids_consistent in Hid; tauto).
  exists (tb_64 tb). split.
  - rewrite T_of_nth. rewrite (Structure.aget_nodead _ _ DT) in Ht. rewrite Ht. reflexivity.
  - rewrite (offset_ok_globals m m1 _ _ Hg) in Ho. apply (proj1 (offset_ok_offL _ _ _ DG)). exact Ho.
Qed.

Lemma parse_elems_checked : forall l m ids m' ids', ids_consistent m ids -> parse_elems m ids l = POk (m', ids') ->
  EOK (G_of (K_globals m)) (T_of (K_tables m)) (map elem_of l) /\ m_globals m' = m_globals m /\ K_tables m' = K_tables m.
Proof.
  induction l as [|e r IH]; intros m ids m' ids' Hid E; cbn [parse_elems] in E.
  - inversion E; subst. split; [constructor|split; reflexivity].
  - pinv E as x Ex. destruct x as [m1 ids1]. cbn [fst snd] in E.
    pose proof (parse_elem_idc _ _ _ _ _ Hid Ex) as Hid1.
    destruct (parse_elem_checked _ _ _ _ _ Hid Ex) as (H1 & Hg1 & Ht1).
    destruct (IH _ _ _ _ Hid1 E) as (H2 & Hg2 & Ht2).
    assert (KG : K_globals m1 = K_globals m) by (unfold K_globals; rewrite Hg1; reflexivity).
    rewrite KG, Ht1 in H2. split; [|split; congruence].
    cbn [map]. constructor; assumption.
Qed.

(* ---------------------------------------------------------------- data segments *)
Lemma parse_data_from_checked : forall l m ids pre i m' ids', ids_consistent m ids ->
  parse_data_from m ids pre i l = POk (m', ids') ->
  DOK (G_of (K_globals m)) (M_of (K_mems m)) (map data_of l).
Proof.
  induction l as [|d r IH]; intros m ids pre i m' ids' H E; cbn [parse_data_from] in E; [constructor|].
  pinv E as x Ex. destruct x as [[m1 ids1] id]. pinv E as y Ey. destruct y as [m2 kind]. pinv E as u Eu. clear Eu.
  assert (H1 : ids_consistent m1 ids1 /\ m_globals m1 = m_globals m /\ m_memories m1 = m_memories m).
  { destruct pre.
    - pinv Ex as z Ez. inversion Ex; subst. split; [exact H|split; reflexivity].
    - wcbn. inversion Ex; subst; clear Ex. wcbn. split; [|split; reflexivity]. clear - H. idc_solve. }
  clear Ex. destruct H1 as (H1 & G1 & M1).
  assert (DG : dead (m_globals m1) = []) by (unfold ids_consistent in H1; tauto).
  assert (DM : dead (m_memories m1) = []) by (unfold ids_consistent in H1; tauto).
  assert (H2 : ids_consistent m2 ids1 /\ m_globals m2 = m_globals m1 /\ K_mems m2 = K_mems m1 /\
               DOK1 (G_of (K_globals m1)) (M_of (K_mems m1)) (data_of d)).
  { unfold DOK1, data_of. cbn [fst]. destruct (wd_kind d) as [|mi off].
    - inversion Ey; subst. split; [exact H1|]. split; [reflexivity|]. split; [reflexivity|exact I].
    - pinv Ey as mid Emid. pinv Ey as mm Emm. pinv Ey as o Eo. pinv Ey as ok Eok. destruct ok; [|discriminate].
      inversion Ey; subst m2 kind; clear Ey. split; [clear - H1; idc_solve|]. split; [reflexivity|].
      split; [unfold K_mems; wcbn; apply upd_map; intros x; reflexivity|].
      destruct (idc_idsD _ _ H1) as (Hg & Hfn & [nm Hm] & _).
      apply of_opt_err_ok in Emid. rewrite Hm in Emid. apply Structure.nth_N_iota in Emid. subst mid.
      apply eval_const_cst0 in Eo; [|exact Hg|exact Hfn]. subst o.
      apply of_opt_panic_ok in Emm. rewrite (Structure.aget_nodead _ _ DM) in Emm.
      exists (me_64 mm). split; [rewrite M_of_nth, Emm; reflexivity|].
      apply (proj1 (offset_ok_offL _ _ _ DG)). rewrite <- Eok. symmetry. apply offset_ok_globals. wcbn. reflexivity. }
  clear Ey. destruct H2 as (H2 & G2 & M2 & Hd).
  match type of E with parse_data_from ?mm _ _ _ _ = _ => set (m3 := mm) in * end.
  assert (H3 : ids_consistent m3 ids1) by (subst m3; clear - H2; idc_solve).
  assert (G3 : m_globals m3 = m_globals m) by (subst m3; wcbn; congruence).
  assert (M3 : K_mems m3 = K_mems m) by (subst m3; unfold K_mems in *; wcbn; congruence).
  pose proof (IH _ _ _ _ _ _ H3 E) as IHr.
  assert (KG3 : K_globals m3 = K_globals m) by (unfold K_globals; rewrite G3; reflexivity).
  assert (KG1 : K_globals m1 = K_globals m) by (unfold K_globals; rewrite G1; reflexivity).
  assert (KM1 : K_mems m1 = K_mems m) by (unfold K_mems; rewrite M1; reflexivity).
  rewrite KG3, M3 in IHr. rewrite KG1, KM1 in Hd. cbn [map]. constructor; assumption.
Qed.

(* ---------------------------------------------------------------- the invariant through the payload loop *)
Definition Inv (m : wir) : Prop := EOKm m /\ DOKm m.

Lemma parse_sec_new_elems s sec s' : ids_consistent (ps_m s) (ps_ids s) -> parse_sec s sec = POk s' ->
  EOK (G_of (K_globals (ps_m s'))) (T_of (K_tables (ps_m s'))) (map elem_of (elems_of sec)).
Proof.
  intros Hid E. destruct sec; try (cbn [elems_of map]; constructor).
  unfold parse_sec in E. pinv E as x Ex. destruct x as [m1 i1]. inversion E; subst; clear E. wcbn.
  destruct (parse_elems_checked _ _ _ _ _ Hid Ex) as (H & Hg & Ht). cbn [elems_of].
  assert (KG : K_globals m1 = K_globals (ps_m s)) by (unfold K_globals; rewrite Hg; reflexivity).
  rewrite KG, Ht. exact H.
Qed.

Lemma parse_sec_new_data s sec s' : ids_consistent (ps_m s) (ps_ids s) -> parse_sec s sec = POk s' ->
  forall l, sec = S_Data l -> DOK (G_of (K_globals (ps_m s))) (M_of (K_mems (ps_m s))) (map data_of l).
Proof.
  intros Hid E l ->. unfold parse_sec in E. pinv E as x Ex. destruct x as [m1 i1]. unfold parse_data in Ex.
  exact (parse_data_from_checked _ _ _ _ _ _ _ Hid Ex).
Qed.

Lemma parse_sec_Inv s sec s' : ids_consistent (ps_m s) (ps_ids s) -> parse_sec s sec = POk s' ->
  Inv (ps_m s) -> Inv (ps_m s').
Proof.
  intros Hid E [HE HD]. split.
  - apply (parse_sec_EOK _ _ _ Hid E HE). exact (parse_sec_new_elems _ _ _ Hid E).
  - unfold DOKm in *.
    destruct (parse_sec_TM _ _ _ E) as [_ HM]. destruct (parse_sec_GES _ _ _ Hid E) as (HG & _ & _).
    rewrite (parse_sec_D _ _ _ Hid E), HM, HG. unfold G_of, M_of. rewrite !map_app.
    pose proof (parse_sec_new_data _ _ _ Hid E) as Hnew.
    destruct sec; cbn [sec_kdata]; try (apply DOK_mono; exact HD).
    + (* data count: passive placeholders *)
      unfold DOK. apply Forall_app. split; [apply DOK_mono; exact HD|].
      apply Forall_forall. intros x Hx. apply repeat_spec in Hx. subst x. exact I.
    + (* data section *)
      unfold DOK. apply Forall_app. split.
      * apply DOK_mono. exact (Hnew _ eq_refl).
      * apply Forall_skipn'. apply DOK_mono. exact HD.
Qed.

Theorem parse_secs_Inv : forall w s s', ids_consistent (ps_m s) (ps_ids s) -> parse_secs s w = POk s' ->
  Inv (ps_m s) -> Inv (ps_m s').
Proof.
  induction w as [|x r IH]; intros s s' Hid E HI; cbn [parse_secs] in E.
  - inversion E; subst; exact HI.
  - pinv E as s1 E1. pose proof (parse_sec_idc _ _ _ Hid E1) as Hid1.
    apply (IH _ _ Hid1 E). exact (parse_sec_Inv _ _ _ Hid E1 HI).
Qed.

Lemma Inv_KK m m' : KK m' = KK m -> Inv m -> Inv m'.
Proof.
  intros H [HE HD]. unfold KK in H. injection H; intros D E G M T _ _ _.
  unfold Inv, EOKm, DOKm in *. rewrite D, E, G, M, T. split; assumption.
Qed.

Theorem parseM_Inv : forall cf ver w s, parseM cf ver w = POk s -> Inv (ps_m s).
Proof.
  intros cf ver w s E. destruct (parseM_KK _ _ _ _ E) as [s1 [E1 EK]].
  apply (Inv_KK _ _ EK). apply (parse_secs_Inv w (pst0 cf) s1); [apply idc_empty|exact E1|].
  split; unfold EOKm, DOKm, EOK, DOK; cbn; constructor.
Qed.

(* ---------------------------------------------------------------- back to the arena-level form *)
Lemma aiter_in_items {A} (a : tarena A) id x : dead a = [] -> In (id, x) (aiter a) -> In x (items a).
Proof. intros D H. rewrite <- (aiter_nodead_snd a D). change x with (snd (id, x)). apply in_map. exact H. Qed.

Lemma Inv_offsets_ok m ids : ids_consistent m ids -> Inv m -> offsets_ok m.
Proof.
  intros Hid [HE HD].
  assert (DG : dead (m_globals m) = []) by (unfold ids_consistent in Hid; tauto).
  assert (DT : dead (m_tables m) = []) by (unfold ids_consistent in Hid; tauto).
  assert (DM : dead (m_memories m) = []) by (unfold ids_consistent in Hid; tauto).
  assert (DE : dead (m_elements m) = []) by (unfold ids_consistent in Hid; tauto).
  assert (DD : dead (m_data m) = []) by (unfold ids_consistent in Hid; tauto).
  split.
  - intros id e t off Hin Hk. apply (aiter_in_items _ _ _ DE) in Hin.
    unfold EOKm, EOK in HE. rewrite Forall_forall in HE.
    assert (Hc : In (ecore e) (K_elems m)) by (unfold K_elems; apply in_map; exact Hin).
    specialize (HE _ Hc). unfold EOK1, ecore in HE. cbn [fst] in HE. rewrite Hk in HE.
    destruct HE as (is64 & Hn & Ho). rewrite T_of_nth in Hn.
    destruct (nth_error (items (m_tables m)) (N.to_nat t)) as [tb|] eqn:En; [|discriminate Hn].
    cbn [option_map] in Hn. injection Hn as Hn. exists tb. split; [rewrite (Structure.aget_nodead _ _ DT); exact En|].
    rewrite Hn. apply (proj2 (offset_ok_offL _ _ _ DG)). exact Ho.
  - intros id d mem off Hin Hk. apply (aiter_in_items _ _ _ DD) in Hin.
    unfold DOKm, DOK in HD. rewrite Forall_forall in HD.
    assert (Hc : In (dcore d) (K_data m)) by (unfold K_data; apply in_map; exact Hin).
    specialize (HD _ Hc). unfold DOK1, dcore in HD. cbn [fst] in HD. rewrite Hk in HD.
    destruct HD as (is64 & Hn & Ho). rewrite M_of_nth in Hn.
    destruct (nth_error (items (m_memories m)) (N.to_nat mem)) as [me|] eqn:En; [|discriminate Hn].
    cbn [option_map] in Hn. injection Hn as Hn. exists me. split; [rewrite (Structure.aget_nodead _ _ DM); exact En|].
    rewrite Hn. apply (proj2 (offset_ok_offL _ _ _ DG)). exact Ho.
Qed.

(* the invariant: holds of EVERY successfully parsed module; validity of the stream is not needed *)
Theorem parsed_offsets_ok_any : forall cf ver w s, parseM cf ver w = POk s -> offsets_ok (ps_m s).
Proof.
  intros cf ver w s E. exact (Inv_offsets_ok _ _ (parseM_ids _ _ _ _ E) (parseM_Inv _ _ _ _ E)).
Qed.
Theorem parsed_offsets_ok : forall cf ver w s, valid_stream w -> parseM cf ver w = POk s -> ModFix26.offsets_ok (ps_m s).
Proof. intros cf ver w s _ E. exact (parsed_offsets_ok_any _ _ _ _ E). Qed.

(* ---------------------------------------------------------------- the unconditional second trip *)
Theorem module_fixpoint_total : forall cf ver w s1 ilen e1,
  valid_stream w -> parseM cf ver w = POk s1 -> emitM (ps_m s1) ilen [] = Ok e1 ->
  valid_stream (em_secs e1) /\
  exists s2 e2, parseM cf ver (em_secs e1) = POk s2 /\ emitM (ps_m s2) ilen [] = Ok e2 /\
    ((cf_skip_name cf = true \/ cf_synthetic_names cf = false) -> em_secs e2 = em_secs e1).
Proof.
  intros cf ver w s1 ilen e1 V P1 E1.
  exact (ModFix31.module_fixpoint_total_partial _ _ _ _ _ _ V P1 E1 (parsed_offsets_ok _ _ _ _ V P1)).
Qed.

(* ---------------------------------------------------------------- iterating the round trip *)
Definition trip (cf : config) (ver : ModuleM.str) (ilen : wins -> N) (w : wmod) : option wmod :=
  match parseM cf ver w with
  | POk s => match emitM (ps_m s) ilen [] with Ok e => Some (em_secs e) | _ => None end
  | _ => None end.
Fixpoint trips (cf : config) (ver : ModuleM.str) (ilen : wins -> N) (n : nat) (w : wmod) : option wmod :=
  match n with
  | O => Some w
  | S k => match trip cf ver ilen w with Some w' => trips cf ver ilen k w' | None => None end
  end.

Lemma trip_inv cf ver ilen w w1 : trip cf ver ilen w = Some w1 ->
  exists s e, parseM cf ver w = POk s /\ emitM (ps_m s) ilen [] = Ok e /\ w1 = em_secs e.
Proof.
  unfold trip. destruct (parseM cf ver w) as [s| |] eqn:P; try discriminate.
  destruct (emitM (ps_m s) ilen []) as [e| |] eqn:E; try discriminate.
  intros H. inversion H; subst. exists s, e. repeat split; assumption.
Qed.

(* one trip from a valid stream lands on a valid stream that is a fixed point of the trip *)
Theorem trip_fixed : forall cf ver ilen w w1, valid_stream w ->
  (cf_skip_name cf = true \/ cf_synthetic_names cf = false) ->
  trip cf ver ilen w = Some w1 -> valid_stream w1 /\ trip cf ver ilen w1 = Some w1.
Proof.
  intros cf ver ilen w w1 V Hn T. destruct (trip_inv _ _ _ _ _ T) as (s & e & P & E & ->).
  destruct (module_fixpoint_total _ _ _ _ _ _ V P E) as (V1 & s2 & e2 & P2 & E2 & Hfix).
  split; [exact V1|]. unfold trip. rewrite P2, E2, (Hfix Hn). reflexivity.
Qed.

Lemma trips_fixed cf ver ilen w1 : trip cf ver ilen w1 = Some w1 -> forall k, trips cf ver ilen k w1 = Some w1.
Proof. intros T. induction k as [|k IH]; cbn [trips]; [reflexivity|]. rewrite T. exact IH. Qed.

Theorem emit_parse_idempotent_on_valid : forall cf ver ilen w w1, valid_stream w ->
  (cf_skip_name cf = true \/ cf_synthetic_names cf = false) ->
  trip cf ver ilen w = Some w1 ->
  forall n, n >= 1 -> trips cf ver ilen n w = Some w1.
Proof.
  intros cf ver ilen w w1 V Hn T n Hge. destruct n as [|k]; [lia|]. cbn [trips]. rewrite T.
  apply trips_fixed. exact (proj2 (trip_fixed _ _ _ _ _ V Hn T)).
Qed.

(* totality of the iteration: the first trip succeeding is the only way to fail *)
Corollary trips_total : forall cf ver ilen w, valid_stream w ->
  (cf_skip_name cf = true \/ cf_synthetic_names cf = false) ->
  forall n, n >= 1 -> trips cf ver ilen n w = trip cf ver ilen w.
Proof.
  intros cf ver ilen w V Hn n Hge. destruct (trip cf ver ilen w) as [w1|] eqn:T.
  - exact (emit_parse_idempotent_on_valid _ _ _ _ _ V Hn T n Hge).
  - destruct n as [|k]; [lia|]. cbn [trips]. rewrite T. reflexivity.
Qed.

Print Assumptions parsed_offsets_ok_any.
Print Assumptions parsed_offsets_ok.
Print Assumptions module_fixpoint_total.
Print Assumptions emit_parse_idempotent_on_valid.
Print Assumptions trips_total.
