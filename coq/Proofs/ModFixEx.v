(* C08, module level fixpoint: non-vacuity and a refutation hunt by computation.
   [run] executes the four steps of [two_trips]; [run_both] turns a computed outcome into the
   existential statement.  Every experiment is recorded as an Example. *)
From Coq Require Import List NArith ZArith Bool Arith Lia.
Import ListNotations.
From WV Require Import Gen.Ops Model.Common Model.IR Model.Arena Model.ParseSpec Model.ModuleM Model.ParseM Model.EmitM.
From WV Require Import Proofs.ModFix Proofs.ParseTotal.
Local Open Scope nat_scope.

Inductive outcome := O_P1 | O_P1Panic | O_E1 | O_P2 | O_E2 | O_Both (a b : list wsec).
Definition run (cf : config) (ver : str) (w : wmod) (ilen : wins -> N) : outcome :=
  match parseM cf ver w with
  | POk s1 => match emitM (ps_m s1) ilen [] with
     | Ok e1 => match parseM cf ver (em_secs e1) with
        | POk s2 => match emitM (ps_m s2) ilen [] with
                    | Ok e2 => O_Both (em_secs e1) (em_secs e2) | _ => O_E2 end
        | _ => O_P2 end
     | _ => O_E1 end
  | PErr => O_P1 | PPanic => O_P1Panic end.
(* both trips succeed and the second emission equals the first *)
Definition fixed (o : outcome) : Prop := match o with O_Both a b => b = a | _ => False end.
(* both trips succeed, the second emission equals the first, and the first differs from the input *)
Definition first_emit (o : outcome) : list wsec := match o with O_Both a _ => a | _ => [] end.

Lemma run_both cf ver w ilen a b : run cf ver w ilen = O_Both a b ->
  exists s1 e1 s2 e2, two_trips cf ver w ilen s1 e1 s2 e2 /\ em_secs e1 = a /\ em_secs e2 = b.
Proof.
  unfold run, two_trips. intros H.
  destruct (parseM cf ver w) as [s1| |] eqn:P1; try discriminate.
  destruct (emitM (ps_m s1) ilen []) as [e1| |] eqn:E1; try discriminate.
  destruct (parseM cf ver (em_secs e1)) as [s2| |] eqn:P2; try discriminate.
  destruct (emitM (ps_m s2) ilen []) as [e2| |] eqn:E2; try discriminate.
  injection H as <- <-. exists s1, e1, s2, e2. repeat split; assumption.
Qed.

Lemma run_fixed cf ver w ilen : fixed (run cf ver w ilen) ->
  exists s1 e1 s2 e2, two_trips cf ver w ilen s1 e1 s2 e2 /\ em_secs e2 = em_secs e1.
Proof.
  intros F. destruct (run cf ver w ilen) as [| | | | |a b] eqn:R; try contradiction.
  destruct (run_both _ _ _ _ _ _ R) as (s1 & e1 & s2 & e2 & T & A & B).
  exists s1, e1, s2, e2. split; [exact T|]. cbn in F. congruence.
Qed.

Lemma run_fixed_changed cf ver w ilen : fixed (run cf ver w ilen) -> first_emit (run cf ver w ilen) <> w ->
  exists s1 e1 s2 e2, two_trips cf ver w ilen s1 e1 s2 e2 /\ em_secs e2 = em_secs e1 /\ em_secs e1 <> w.
Proof.
  intros F C. destruct (run cf ver w ilen) as [| | | | |a b] eqn:R; try contradiction.
  destruct (run_both _ _ _ _ _ _ R) as (s1 & e1 & s2 & e2 & T & A & B).
  exists s1, e1, s2, e2. split; [exact T|]. cbn in F, C. split; congruence.
Qed.

(* ------------------------------------------------------------------ building blocks *)
Definition il1 : wins -> N := fun _ => 1%N.
Definition nm0 : wnames := {| wn_module := None; wn_funcs := []; wn_locals := []; wn_types := []; wn_tables := []; wn_mems := [];
                              wn_globals := []; wn_elems := []; wn_data := [] |}.
Definition body (ls : list (N * valty)) (l : list rt) : wbody := {| wb_locals := ls; wb_ops := flat_list l ++ [(WEnd, 99%N)] |}.
Definition imp1 (t : N) := {| wi_module := [101%N]; wi_name := [102%N]; wi_kind := WI_Func t |}.
Definition gl0 := ({| wg_ty := VT_I32; wg_mut := false; wg_shared := false |}, WC_I32 42).
Definition mem0 := {| wm_64 := false; wm_shared := false; wm_init := 1; wm_max := None; wm_page := None |}.
Definition tab0 := {| wt_elem := RT_Funcref; wt_64 := false; wt_init := 2; wt_max := None |}.
Definition syn_config := {| cf_generate_dwarf := false; cf_synthetic_names := true; cf_only_stable := false;
     cf_skip_producers := false; cf_skip_name := false; cf_preserve_code_transform := false |}.

(* ================================================================== A. non-vacuity *)
Definition b_big : list rt :=
  [RBlock (BT_Val VT_I32)
     [RPlain (W_LocalGet 0) 11;
      RIf (BT_Val VT_I32) [RPlain (W_I32Const 1) 13] (Some (14%N, [RPlain (W_I32Const 2) 15])) 12 16] 10 17].
Definition b_small : list rt := [RPlain (W_Call 0) 21; RPlain (W_Call 2) 22].
(* types (2), a function import, a SMALL local function before a BIG one (the emitter swaps them), a global,
   an export of the small function, module / function / local names *)
Definition wA : wmod :=
  [ S_Types [([VT_I32], [VT_I32]); ([], [])];
    S_Imports [imp1 1];
    S_Funcs [1%N; 0%N];
    S_Globals [gl0];
    S_Exports [{| we_name := [109%N]; we_kind := EK_Func; we_index := 1 |}];
    S_Code [body [] b_small; body [(1%N, VT_I64)] b_big];
    S_Custom (CS_Name (Some {| wn_module := Some [77%N]; wn_funcs := [(0%N,[105%N]); (1%N,[97%N]); (2%N,[98%N])];
        wn_locals := [(2%N, [(0%N, [120%N])])]; wn_types := []; wn_tables := []; wn_mems := []; wn_globals := [];
        wn_elems := []; wn_data := [] |})) ].

Example module_fixpoint_nonvacuous :
  exists s1 e1 s2 e2, two_trips default_config [49%N] wA il1 s1 e1 s2 e2 /\ em_secs e2 = em_secs e1 /\ em_secs e1 <> wA.
Proof. apply run_fixed_changed; [vm_compute; reflexivity | vm_compute; discriminate]. Qed.
(* what the first emission looks like: types sorted, the two functions swapped, export / call / names renumbered *)
Example module_fixpoint_nonvacuous_shape :
  exists rest, first_emit (run default_config [49%N] wA il1) =
    S_Types [([], []); ([VT_I32], [VT_I32])] :: S_Imports [imp1 0] :: S_Funcs [1%N; 0%N] :: S_Globals [gl0] ::
    S_Exports [{| we_name := [109%N]; we_kind := EK_Func; we_index := 2 |}] :: rest.
Proof. vm_compute. eexists. reflexivity. Qed.


(* ================================================================== B. REFUTATION (cf_synthetic_names = true, stream not valid) *)
(* The parse model accepts a body that reads a local index that does not exist ([i2id_fun] answers the
   sentinel id 4294967295, as the Rust code would only do on unvalidated input).  The first emission
   invents an i32 local for that id ([local_ty_fn] defaults to i32; the id is in [used_of_log], so it
   gets a declaration and an index) but the id is not in the locals arena, so it has NO name.  In the
   second round that local is a real declared local; with cf_synthetic_names the parser names it
   "l0", and the second emission has a local-name entry the first one did not have.
   Minimal witness: one type, one function, body `local.get 0; end`, no locals.
   NB: [lazy], not [vm_compute]: the model computes [N.to_nat 4294967295] (nth_error on a short list),
   which only a lazy machine survives. *)
Definition wP : wmod :=
  [ S_Types [([], [])]; S_Funcs [0%N]; S_Code [body [] [RPlain (W_LocalGet 0%N) 1%N]] ].
Definition s_producers1 : wsec :=
  S_Custom (CS_Producers (Some [(s_processed_by, [(s_walrus, [49%N])])])).
Definition wP_code : wsec :=
  S_Code [{| wb_locals := [(1%N, VT_I32)]; wb_ops := [(WOp (W_LocalGet 0), 0%N); (WEnd, 1%N)] |}].
Definition wP_e1 : list wsec :=
  [ S_Types [([], [])]; S_Funcs [0%N]; wP_code;
    S_Custom (CS_Name (Some {| wn_module := None; wn_funcs := [(0%N, [102%N; 48%N])]; wn_locals := [];
        wn_types := []; wn_tables := []; wn_mems := []; wn_globals := []; wn_elems := []; wn_data := [] |}));
    s_producers1 ].
Definition wP_e2 : list wsec :=
  [ S_Types [([], [])]; S_Funcs [0%N]; wP_code;
    S_Custom (CS_Name (Some {| wn_module := None; wn_funcs := [(0%N, [102%N; 48%N])]; wn_locals := [(0%N, [(0%N, [108%N; 48%N])])];
        wn_types := []; wn_tables := []; wn_mems := []; wn_globals := []; wn_elems := []; wn_data := [] |}));
    s_producers1 ].
Lemma wP_run : run syn_config [49%N] wP il1 = O_Both wP_e1 wP_e2.
Proof. lazy. reflexivity. Qed.

Theorem module_fixpoint_refuted :
  exists cf ver w ilen s1 e1 s2 e2, two_trips cf ver w ilen s1 e1 s2 e2 /\ em_secs e2 <> em_secs e1.
Proof.
  destruct (run_both _ _ _ _ _ _ wP_run) as (s1 & e1 & s2 & e2 & T & A & B).
  exists syn_config, [49%N], wP, il1, s1, e1, s2, e2. split; [exact T|].
  rewrite A, B. unfold wP_e1, wP_e2. intros H. injection H as H. discriminate H.
Qed.
(* The witness satisfies [ParseTotal.valid_stream]: that predicate (the validator's guarantees as formalised so far)
   says nothing about LOCAL indices in bodies (only: brackets, branch depths, decodable operators, block types), so
   [valid_stream w] is NOT a sufficient premise for the module fixpoint when cf_synthetic_names = true. *)
Lemma wP_valid : valid_stream wP.
Proof.
  unfold valid_stream, wP. cbn [valid_from]. unfold valid_sec.
  repeat match goal with |- _ /\ _ => split end;
    try (vm_compute; reflexivity); try exact I.
  cbn [cstep cstep0 set_last c_nt fold_left cimp wi_kind rank ctx0 length Nat.add].
  repeat constructor. exists [RPlain (W_LocalGet 0%N) 1%N], 99%N. split; [reflexivity|].
  cbn [swfl swf]. split; [|exact I]. intros f H; vm_compute in H; discriminate H.
Qed.
Theorem module_fixpoint_refuted_valid_stream :
  exists cf ver w ilen s1 e1 s2 e2, valid_stream w /\ two_trips cf ver w ilen s1 e1 s2 e2 /\ em_secs e2 <> em_secs e1.
Proof.
  destruct (run_both _ _ _ _ _ _ wP_run) as (s1 & e1 & s2 & e2 & T & A & B).
  exists syn_config, [49%N], wP, il1, s1, e1, s2, e2. split; [exact wP_valid|]. split; [exact T|].
  rewrite A, B. unfold wP_e1, wP_e2. intros H. injection H as H. discriminate H.
Qed.
(* the same stream under the default configuration IS a fixpoint (the invented local stays unnamed) *)
Example phantom_local_default_fixed :
  exists s1 e1 s2 e2, two_trips default_config [49%N] wP il1 s1 e1 s2 e2 /\ em_secs e2 = em_secs e1.
Proof. apply run_fixed. lazy. reflexivity. Qed.


(* ================================================================== B'. experiments that ARE fixpoints *)
Ltac t := apply run_fixed; vm_compute; reflexivity.
Notation FIX cf w il := (exists s1 e1 s2 e2, two_trips cf [49%N] w il s1 e1 s2 e2 /\ em_secs e2 = em_secs e1).
Definition ma (a o m : N) := {| wa_align := a; wa_offset := o; wa_memory := m |}.
Definition P (o : wop) := RPlain o 0%N.

(* (1) synthetic names *)
Example x1_syn_names : FIX syn_config wA il1. Proof. t. Qed.
Definition wB1 : wmod :=
  [ S_Types [([VT_I32], [VT_I32]); ([], [])];
    S_Imports [imp1 1];
    S_Funcs [1%N; 0%N];
    S_Code [body [(1%N,VT_I32)] (b_small ++ [RPlain (W_LocalGet 0%N) 30%N; RPlain W_Drop 31%N]); body [(1%N, VT_I64);(1%N,VT_I32)] (b_big ++ [RPlain (W_LocalSet 2%N) 40%N; RPlain (W_LocalGet 2%N) 41%N])];
    S_Custom (CS_Name (Some {| wn_module := Some []; wn_funcs := [(0%N,[]); (1%N,[]); (2%N,[98%N]); (9%N,[1%N]); (2%N, [])];
        wn_locals := [(2%N, [(0%N, []); (2%N, []); (1%N,[5%N])]); (1%N, [(0%N, [])]); (7%N, [(0%N, [])]); (0%N, [(0%N, [])])]; wn_types := [(1%N,[3%N]);(0%N,[]);(5%N,[])]; wn_tables := [(0%N,[])]; wn_mems := []; wn_globals := [];
        wn_elems := []; wn_data := [] |})) ].
Example x1_syn_empty_names : FIX syn_config wB1 il1. Proof. t. Qed.
Example x8_names_dups_oor : FIX default_config wB1 il1. Proof. t. Qed.

(* (2) memarg offsets / alignments that are not re-encoded identically *)
Definition w2 : wmod :=
  [ S_Types [([], [])]; S_Funcs [0%N]; S_Mems [mem0];
    S_Code [body [] [P (W_I32Const 0); P (W_I32Load (ma 2 (2^32+1) 0)); P W_Drop; P (W_I32Const 0); P (W_I32Const 0); P (W_I32Store (ma 40 (2^33) 0));
                     P (W_I32Const 0); P (W_I32Load (ma 32 7 0)); P W_Drop; P (W_I64Const (2^70)); P W_Drop; P (W_I32Const (-(2^40))); P W_Drop ]] ].
Example x2_big_memarg : FIX default_config w2 il1. Proof. t. Qed.

(* (3) block types through type indices; duplicate types; type names on duplicates *)
Definition w3 : wmod :=
  [ S_Types [([], [VT_I32]); ([], []); ([], [VT_I32]); ([VT_I32], [VT_I32; VT_I32]); ([VT_I32], [VT_I32; VT_I32]); ([],[])];
    S_Funcs [5%N; 2%N];
    S_Code [body [] [RBlock (BT_Func 0) [P (W_I32Const 1)] 1 2; P W_Drop; RBlock (BT_Func 2) [P (W_I32Const 1)] 1 2; P W_Drop;
                     RBlock (BT_Func 1) [] 3 4; RLoop (BT_Func 5) [] 3 4; P (W_I32Const 1); RBlock (BT_Func 4) [P (W_I32Const 1)] 5 6; P W_Drop; P W_Drop;
                     P (W_I32Const 1); RIf (BT_Func 3) [P (W_I32Const 1)] None 5 6; P W_Drop; P W_Drop];
            body [] [P (W_I32Const 1)]];
    S_Custom (CS_Name (Some {| wn_module := None; wn_funcs := []; wn_locals := []; wn_types := [(0%N,[1%N]); (2%N,[2%N]); (4%N,[4%N]); (3%N, [3%N]); (5%N,[5%N])];
                               wn_tables := []; wn_mems := []; wn_globals := []; wn_elems := []; wn_data := [] |})) ].
Example x3_block_types_dup_types : FIX default_config w3 il1. Proof. t. Qed.

(* (4) locals: unused, interleaved types, used only in dead code, many *)
Definition w4 : wmod :=
  [ S_Types [([VT_F64; VT_I32], [])]; S_Funcs [0%N; 0%N];
    S_Code [body [(2%N, VT_I64); (1%N, VT_I32); (3%N, VT_I64); (1%N, VT_F32); (2%N, VT_I32); (1%N, VT_Externref)]
              [P (W_LocalGet 9); P W_Drop; P (W_LocalGet 3); P W_Drop; P (W_LocalGet 10); P W_Drop; P (W_LocalGet 5); P W_Drop; P (W_LocalGet 8); P W_Drop;
               P (W_LocalGet 1); P W_Drop; P W_Return; P (W_LocalGet 2); P (W_LocalGet 11); P W_Drop];
            body [(300%N, VT_I32)] [P (W_LocalGet 301); P (W_LocalSet 2); P (W_LocalGet 17); P W_Drop]];
    S_Custom (CS_Name (Some {| wn_module := None; wn_funcs := []; wn_locals := [(0%N, [(2%N,[1%N]); (11%N,[2%N]); (9%N,[3%N]); (0%N,[4%N]); (3%N,[])]); (1%N,[(301%N,[9%N])])]; wn_types := [];
                               wn_tables := []; wn_mems := []; wn_globals := []; wn_elems := []; wn_data := [] |})) ].
Example x4_locals : FIX default_config w4 il1. Proof. t. Qed.
Example x4_locals_syn : FIX syn_config w4 il1. Proof. t. Qed.

(* (5) dead code, nop, if without else, nesting: f0 has 3 live + many dead instructions, f1 has 5 live *)
Definition w5 : wmod :=
  [ S_Types [([], [])]; S_Funcs [0%N; 0%N; 0%N];
    S_Code [body [] [P (W_I32Const 1); P W_Drop; RBr 0 1; P (W_I32Const 1); P W_Drop; RBlock BT_Empty [P (W_Call 1); RBlock BT_Empty [RNop 1; P (W_Call 2)] 1 2] 1 2; P (W_Call 0); P (W_Call 0); P (W_Call 0);
                     RIf BT_Empty [P (W_Call 0)] (Some (1%N, [P (W_Call 0)])) 1 2];
            body [] [RNop 1; P (W_I32Const 1); RIf BT_Empty [RNop 2; RNop 3] None 1 2; RBlock BT_Empty [RBlock BT_Empty [P W_Unreachable; P (W_Call 0)] 1 2; RNop 1] 1 2; RNop 3];
            body [] [RBlock BT_Empty [P (W_I32Const 1); RBrTable [0%N;1%N;0%N] 1 7; P (W_Call 1)] 1 2; RLoop BT_Empty [RBr 0 1; RLoop BT_Empty [] 1 1] 1 2; P W_Return; RBlock BT_Empty [] 1 2]] ].
Example x5_dead_code : FIX default_config w5 il1. Proof. t. Qed.

Definition dA (m : N) (o : Z) (bs : list N) := {| wd_kind := WDK_Active m (WC_I32 o); wd_bytes := bs |}.
Definition dP (bs : list N) := {| wd_kind := WDK_Passive; wd_bytes := bs |}.
Definition names_all : wnames := {| wn_module := Some [1%N]; wn_funcs := [(1%N,[2%N])]; wn_locals := []; wn_types := [(0%N,[3%N])];
   wn_tables := [(1%N,[4%N]); (0%N,[5%N])]; wn_mems := [(0%N,[6%N]); (1%N, [16%N])]; wn_globals := [(1%N,[7%N]); (0%N,[])]; wn_elems := [(1%N,[8%N]); (0%N,[18%N])]; wn_data := [(2%N,[9%N]);(0%N,[10%N])] |}.

(* (6) data count / data in odd arrangements *)
Definition w6a : wmod := [ S_Mems [mem0]; S_DataCount 3; S_Data [dA 0 1 [1%N]] ].
Example x6_count_more_than_data : FIX default_config w6a il1. Proof. t. Qed.
Definition w6b : wmod := [ S_Mems [mem0]; S_Data [dA 0 1 [1%N]; dA 0 2 [2%N]]; S_DataCount 1; S_Data [dA 0 3 [3%N]; dP [4%N]] ].
Example x6_data_before_count_twice : FIX default_config w6b il1. Proof. t. Qed.
Definition w6c : wmod := [ S_Types [([],[])]; S_Funcs [0%N]; S_Mems [mem0]; S_Data [dA 0 1 [1%N]; dA 0 2 []];
   S_Code [body [] [P (W_I32Const 0); P (W_I32Const 0); P (W_I32Const 0); P (W_MemoryInit 1 0); P (W_DataDrop 0)]] ].
Example x6_no_count_but_used : FIX default_config w6c il1. Proof. t. Qed.
Definition w6d : wmod := [ S_Mems [mem0]; S_Data [dA 0 1 [1%N]] ].
Example x6_active_only_no_count : FIX default_config w6d il1. Proof. t. Qed.
(* sections out of order, several of a kind, table/memory/global imports after definitions *)
Definition w6e : wmod :=
  [ S_Custom (CS_Raw [1%N] [2%N]); S_Globals [gl0]; S_Tables [tab0]; S_Mems [mem0];
    S_Types [([],[])];
    S_Imports [{| wi_module := []; wi_name := [1%N]; wi_kind := WI_Global {| wg_ty := VT_I32; wg_mut := false; wg_shared := false |} |};
               {| wi_module := []; wi_name := [2%N]; wi_kind := WI_Table tab0 |};
               {| wi_module := []; wi_name := [3%N]; wi_kind := WI_Mem mem0 |}; imp1 0];
    S_Globals [({| wg_ty := VT_I32; wg_mut := true; wg_shared := false |}, WC_GlobalGet 1); ({| wg_ty := VT_Funcref; wg_mut := true; wg_shared := false |}, WC_RefFunc 0)];
    S_Exports [{| we_name := [1%N]; we_kind := EK_Global; we_index := 0 |}; {| we_name := [2%N]; we_kind := EK_Table; we_index := 0 |}];
    S_Start 0; S_Types [([VT_I32],[])]; S_Funcs [0%N]; S_Start 1;
    S_Elems [{| wel_kind := WEK_Active None (WC_GlobalGet 0); wel_items := WEI_Funcs [1%N; 0%N] |}];
    S_Exports [{| we_name := [1%N]; we_kind := EK_Mem; we_index := 1 |}; {| we_name := [2%N]; we_kind := EK_Func; we_index := 1 |}];
    S_Elems [{| wel_kind := WEK_Active (Some 1%N) (WC_I32 0); wel_items := WEI_Exprs RT_Funcref [WC_RefFunc 1; WC_RefNull RT_Funcref; WC_GlobalGet 3; WC_I32 5] |};
             {| wel_kind := WEK_Declared; wel_items := WEI_Funcs [] |}; {| wel_kind := WEK_Passive; wel_items := WEI_Exprs RT_Externref [] |}];
    S_Data [dA 1 5 [7%N]; dP []];
    S_Code [body [] [P (W_GlobalGet 0); P W_Drop; P (W_I32Const 0); P (W_TableGet 0); P W_Drop; P (W_MemorySize 0); P W_Drop; P (W_RefFunc 0); P W_Drop; P (W_ElemDrop 1); P (W_I32Const 0); P (W_CallIndirect 1 0)]];
    S_Custom (CS_Name (Some names_all)); S_Tables [tab0] ].
Example x6_sections_out_of_order : FIX default_config w6e il1. Proof. t. Qed.
Example x6_sections_out_of_order_syn : FIX syn_config w6e il1. Proof. t. Qed.

(* (7) elements: active on table Some 0, exprs, ref.func of reordered functions *)
Definition w7 : wmod :=
  [ S_Types [([],[])]; S_Funcs [0%N; 0%N]; S_Tables [tab0; tab0];
    S_Elems [{| wel_kind := WEK_Active (Some 0%N) (WC_I32 0); wel_items := WEI_Funcs [0%N; 1%N] |};
             {| wel_kind := WEK_Active (Some 1%N) (WC_I32 0); wel_items := WEI_Exprs RT_Funcref [WC_RefFunc 0; WC_RefFunc 1] |}];
    S_Code [body [] []; body [] [P (W_RefFunc 0); P W_Drop; P (W_I32Const 0); P (W_I32Const 0); P (W_I32Const 0); P (W_TableInit 1 1)]] ].
Example x7_elements : FIX default_config w7 il1. Proof. t. Qed.

(* (8) several name sections *)
Definition w8 : wmod := w7 ++ [S_Custom (CS_Name (Some names_all)); S_Custom (CS_Name None);
   S_Custom (CS_Name (Some {| wn_module := None; wn_funcs := [(1%N,[]); (0%N, [1%N]); (0%N, [2%N])]; wn_locals := [(0%N, [(0%N,[1%N])])]; wn_types := [];
                               wn_tables := []; wn_mems := []; wn_globals := []; wn_elems := []; wn_data := [] |}))].
Example x8_several_name_sections : FIX default_config w8 il1. Proof. t. Qed.

(* (9) producers *)
Definition w9 : wmod :=
  [ S_Custom (CS_Producers (Some [([1%N], [([2%N],[3%N])]); (s_processed_by, [([5%N],[6%N])]); (s_processed_by, [(s_walrus,[0%N]); (s_walrus,[1%N])])]));
    S_Custom (CS_Producers None);
    S_Custom (CS_Producers (Some [(s_processed_by, [(s_walrus,[7%N]); ([8%N],[]); (s_walrus,[9%N])]); ([1%N], [])])) ].
Example x9_producers : FIX default_config w9 il1. Proof. t. Qed.
Example x9_producers_other_version : exists s1 e1 s2 e2, two_trips default_config [] w9 il1 s1 e1 s2 e2 /\ em_secs e2 = em_secs e1. Proof. t. Qed.

(* (10) debug sections, (11) switches *)
Definition dbg : str := [46;100;101;98;117;103;95;105]%N.
Definition w10 : wmod := wA ++ [S_Custom (CS_Raw dbg [1%N]); S_Custom (CS_Debug dbg [2%N]); S_Custom (CS_Raw [46%N] []); S_Custom (CS_Debug [] [])] ++ w9.
Definition cfg (a b c d e f : bool) := {| cf_generate_dwarf := a; cf_synthetic_names := b; cf_only_stable := c; cf_skip_producers := d; cf_skip_name := e; cf_preserve_code_transform := f |}.
Example x10_debug_sections : FIX default_config w10 il1. Proof. t. Qed.
Example x10_generate_dwarf : FIX (cfg true false true false false true) w10 il1. Proof. t. Qed.
Example x11_skip_producers : FIX (cfg false false false true false false) w10 il1. Proof. t. Qed.
Example x11_skip_name : FIX (cfg false false false false true false) w10 il1. Proof. t. Qed.
Example x11_skip_both_syn : FIX (cfg true true false true true false) w10 il1. Proof. t. Qed.

(* (12) instruction lengths that depend on the instruction *)
Definition il2 : wins -> N := fun i => match i with WEnd => 3 | WOp (W_Call n) => 2 + n | WOp _ => 2 | WElse => 0 | _ => 5 end%N.
Example x12_ilen : FIX default_config wA il2. Proof. t. Qed.
Example x12_ilen_b : FIX default_config w6e il2. Proof. t. Qed.
Example x0_empty : FIX default_config [] il1. Proof. t. Qed.

(* synthetic names on valid bodies: arguments, unused declared locals, three functions reordered by size, an import
   in front, without / with a name section (empty strings, names for unused locals and for arguments) *)
Definition wS1 : wmod :=
  [ S_Types [([VT_I32; VT_I64], []); ([], [VT_I32])];
    S_Imports [imp1 0];
    S_Funcs [0%N; 1%N; 0%N];
    S_Code [body [(2%N, VT_F32); (1%N, VT_I32)] [P (W_LocalGet 1); P W_Drop; P (W_LocalGet 4); P W_Drop];
            body [(1%N, VT_I64); (1%N, VT_I32); (1%N, VT_I64)] [P (W_LocalGet 2); P W_Drop; P (W_LocalGet 0); P W_Drop; P (W_LocalGet 1); P (W_LocalGet 1); P (W_LocalGet 2); P (W_Call 0); P (W_Call 3)];
            body [(3%N, VT_I32)] [P (W_LocalGet 3); P (W_LocalSet 0); P (W_LocalGet 0); P (W_LocalGet 1); P (W_Call 1); P (W_Call 2); P W_Drop; P (W_LocalGet 4); P W_Drop]] ].
Definition wS2 : wmod := wS1 ++
  [ S_Custom (CS_Name (Some {| wn_module := None; wn_funcs := [(1%N, []); (3%N, [120%N])];
       wn_locals := [(1%N, [(0%N, []); (2%N, [1%N]); (3%N, []); (4%N, [])]); (2%N, [(0%N, [2%N]); (2%N, [])]); (3%N, [(1%N, []); (2%N, [3%N]); (3%N, [])])];
       wn_types := []; wn_tables := []; wn_mems := []; wn_globals := []; wn_elems := []; wn_data := [] |})) ].
Definition all_cfgs : list config :=
  flat_map (fun a => flat_map (fun b => flat_map (fun d => map (fun e => cfg a b false d e false) [false; true]) [false; true]) [false; true]) [false; true].
Definition mods : list wmod := [wA; wB1; w2; w3; w4; w5; w6a; w6b; w6c; w6d; w6e; w7; w8; w9; w10; wS1; wS2; []].
Example sweep_configs :
  Forall (fun cf => Forall (fun w => fixed (run cf [49%N] w il1) /\ fixed (run cf [50%N; 46%N] w il2)) mods) all_cfgs.
Proof. Time (unfold all_cfgs, mods; cbn [flat_map map app]; repeat (apply Forall_cons || apply Forall_nil); split; vm_compute; reflexivity). Qed.
Example sweep_len : length all_cfgs * length mods = 288. Proof. reflexivity. Qed.

(* out-of-range local indices (two different ones, merged into one invented local) next to real, named locals,
   two functions that get reordered; [lazy] because of N.to_nat 4294967295 *)
Definition wP2 : wmod :=
  [ S_Types [([VT_I64], [])]; S_Funcs [0%N; 0%N];
    S_Code [body [(1%N, VT_I32)] [P (W_LocalGet 7); P W_Drop; P (W_LocalGet 1); P W_Drop];
            body [(1%N, VT_F32); (2%N, VT_I32)] [P (W_LocalGet 9); P (W_LocalSet 8); P (W_LocalGet 3); P W_Drop; P (W_LocalGet 2); P W_Drop; P (W_Call 0)]];
    S_Custom (CS_Name (Some {| wn_module := None; wn_funcs := [(1%N, [1%N])];
       wn_locals := [(0%N, [(1%N, [5%N]); (7%N, [6%N])]); (1%N, [(3%N, [7%N]); (8%N, [8%N]); (0%N, [9%N])])];
       wn_types := []; wn_tables := []; wn_mems := []; wn_globals := []; wn_elems := []; wn_data := [] |})) ].
Example phantom_locals_default_fixed_2 : FIX default_config wP2 il1.
Proof. apply run_fixed. lazy. reflexivity. Qed.
(* with synthetic names but the name section switched off the difference is not observable *)
Example phantom_local_syn_skip_name_fixed : FIX (cfg false true false false true false) wP il1.
Proof. apply run_fixed. lazy. reflexivity. Qed.
Definition oc (o : outcome) : nat := match o with O_P1 => 1 | O_P1Panic => 2 | O_E1 => 3 | O_P2 => 4 | O_E2 => 5 | O_Both _ _ => 0 end.
(* streams on which the FIRST round already fails (so the theorem says nothing): function import after the function
   section; more declared functions than bodies; more bodies than functions; out-of-range function / type index in a body *)
Example first_round_fails :
  oc (run default_config [49%N] [S_Types [([],[])]; S_Funcs [0%N]; S_Imports [imp1 0]; S_Code [body [] []]] il1) = 2 /\
  oc (run default_config [49%N] [S_Types [([],[])]; S_Funcs [0%N; 0%N]; S_Code [body [] []]] il1) = 3 /\
  oc (run default_config [49%N] [S_Types [([],[])]; S_Funcs [0%N]; S_Code [body [] []; body [] []]] il1) = 2 /\
  oc (run default_config [49%N] [S_Types [([],[])]; S_Funcs [0%N]; S_Code [body [] [P (W_I32Const 0); P (W_CallIndirect 0 0)]]] il1) = 3.
Proof. repeat split; lazy; reflexivity. Qed.
Lemma all_cfgs_eq : all_cfgs = [cfg false false false false false false; cfg false false false false true false; cfg false false false true false false; cfg false false false true true false; cfg false true false false false false; cfg false true false false true false; cfg false true false true false false; cfg false true false true true false; cfg true false false false false false; cfg true false false false true false; cfg true false false true false false; cfg true false false true true false; cfg true true false false false false; cfg true true false false true false; cfg true true false true false false; cfg true true false true true false].
Proof. reflexivity. Qed.
(* the example module of ParseTotal.v (proved valid there: ex_valid), all 16 configurations *)
Example sweep_ex_mod : Forall (fun cf => fixed (run cf [49%N] ex_mod il2)) all_cfgs.
Proof. rewrite all_cfgs_eq. repeat (apply Forall_cons; [vm_compute; reflexivity|]). apply Forall_nil. Qed.

(* ties in the size order, 64-bit tables / memories with i64 and global offsets, limits / page size / shared flags,
   externref table, imported and exported everything, passive + active data with a data count *)
Definition w13 : wmod :=
  [ S_Types [([], []); ([VT_I32], [VT_I32; VT_I32])];
    S_Imports [imp1 0; {| wi_module := [1%N]; wi_name := []; wi_kind := WI_Global {| wg_ty := VT_I64; wg_mut := false; wg_shared := true |} |};
               {| wi_module := [1%N]; wi_name := []; wi_kind := WI_Mem {| wm_64 := true; wm_shared := true; wm_init := 1; wm_max := Some 5%N; wm_page := Some 0%N |} |};
               imp1 1;
               {| wi_module := [1%N]; wi_name := []; wi_kind := WI_Table {| wt_elem := RT_Externref; wt_64 := true; wt_init := 0; wt_max := Some 0%N |} |}];
    S_Funcs [0%N; 0%N; 0%N; 0%N; 1%N];
    S_Tables [{| wt_elem := RT_Funcref; wt_64 := false; wt_init := 2; wt_max := Some 9%N |}];
    S_Mems [{| wm_64 := false; wm_shared := false; wm_init := 0; wm_max := None; wm_page := Some 16%N |}];
    S_Globals [({| wg_ty := VT_I64; wg_mut := true; wg_shared := false |}, WC_GlobalGet 0); ({| wg_ty := VT_F64; wg_mut := false; wg_shared := false |}, WC_F64 77);
               ({| wg_ty := VT_V128; wg_mut := false; wg_shared := false |}, WC_V128 (2^100)); ({| wg_ty := VT_I32; wg_mut := false; wg_shared := false |}, WC_I32 (-1))];
    S_Exports [{| we_name := []; we_kind := EK_Func; we_index := 3 |}; {| we_name := []; we_kind := EK_Func; we_index := 0 |}; {| we_name := [1%N]; we_kind := EK_Global; we_index := 1 |};
               {| we_name := [2%N]; we_kind := EK_Table; we_index := 0 |}; {| we_name := [3%N]; we_kind := EK_Mem; we_index := 1 |}];
    S_Start 4;
    S_Elems [{| wel_kind := WEK_Active (Some 0%N) (WC_GlobalGet 0); wel_items := WEI_Exprs RT_Externref [WC_RefNull RT_Externref] |};
             {| wel_kind := WEK_Active (Some 1%N) (WC_GlobalGet 4); wel_items := WEI_Funcs [6%N; 2%N; 0%N] |};
             {| wel_kind := WEK_Active (Some 0%N) (WC_I64 3); wel_items := WEI_Exprs RT_Externref [] |}];
    S_DataCount 3;
    S_Code [body [] [P (W_Call 3)]; body [] [P (W_Call 2); P (W_Call 5)]; body [] [P (W_Call 4)]; body [] [P (W_Call 6); P W_Drop; P W_Drop; RNop 1];
            body [] [P (W_LocalGet 0); RLoop (BT_Func 1) [RBrIf 0 1; P (W_I32Const 1); P (W_I32Const 2); RBr 1 2] 1 2]];
    S_Data [{| wd_kind := WDK_Active 0 (WC_GlobalGet 1); wd_bytes := [] |}; dP [1%N]; {| wd_kind := WDK_Active 1 (WC_GlobalGet 4); wd_bytes := [2%N] |}];
    S_Custom (CS_Name (Some names_all)) ].
Example x13_sweep : Forall (fun cf => fixed (run cf [49%N] w13 il2)) all_cfgs.
Proof. rewrite all_cfgs_eq. repeat (apply Forall_cons; [vm_compute; reflexivity|]). apply Forall_nil. Qed.

(* a second witness of the refutation: real, named locals around the invented one, two reordered functions *)
Definition names_of (l : list wsec) : list (list (N * namemap)) :=
  flat_map (fun s => match s with S_Custom (CS_Name (Some n)) => [wn_locals n] | _ => [] end) l.
Example phantom_locals_syn_not_fixed : ~ fixed (run syn_config [49%N] wP2 il1).
Proof.
  intros H. destruct (run syn_config [49%N] wP2 il1) as [| | | | |a b] eqn:R; try exact H. cbn in H.
  assert (E : names_of (match run syn_config [49%N] wP2 il1 with O_Both a _ => a | _ => [] end) =
              names_of (match run syn_config [49%N] wP2 il1 with O_Both _ b => b | _ => [] end)).
  { rewrite R. now rewrite H. }
  clear R H. lazy in E. discriminate E.
Qed.

(* the example module of [module_fixpoint_nonvacuous] satisfies the validity premise of the final theorem *)
Example module_fixpoint_premises_nonvacuous : valid_stream wA.
Proof.
  unfold valid_stream, wA. cbn [valid_from]. unfold valid_sec.
  repeat match goal with |- _ /\ _ => split end;
    try (vm_compute; reflexivity); try exact I.
  cbn [cstep cstep0 set_last c_nt fold_left cimp wi_kind rank ctx0 length Nat.add].
  repeat constructor.
  - exists b_small, 99%N. split; [reflexivity|].
    cbn [swfl swf b_small sbt_ok]; repeat split; try (cbn; lia); try (intros f H; vm_compute in H; discriminate H).
  - exists b_big, 99%N. split; [reflexivity|].
    cbn [swfl swf b_big sbt_ok]; repeat split; try (cbn; lia); try (intros f H; vm_compute in H; discriminate H).
Qed.

Print Assumptions module_fixpoint_nonvacuous.
Print Assumptions module_fixpoint_premises_nonvacuous.
Print Assumptions module_fixpoint_refuted.
Print Assumptions module_fixpoint_refuted_valid_stream.
