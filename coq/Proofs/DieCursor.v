(* C10: the explicit-stack DIE cursor (Model/DieCursor.v, walrus' DebuggingInformationCursor) enumerates a unit in pre-order,
   each entry exactly once, and convert_high_pc's zip pairs every DIE with its own image when the shapes agree. *)
From Coq Require Import List NArith Lia Bool.
Import ListNotations.
From WV Require Import Model.DieCursor.
Local Open Scope nat_scope.

(* ---------- nested induction principle for dtree ---------- *)
Fixpoint dtree_ind2 (P : dtree -> Prop)
  (H : forall i kids, Forall P kids -> P (DNode i kids)) (t : dtree) : P t :=
  match t with
  | DNode i kids =>
      H i kids ((fix go (l : list dtree) : Forall P l :=
                   match l with
                   | [] => Forall_nil P
                   | k :: r => Forall_cons k (dtree_ind2 P H k) (go r)
                   end) kids)
  end.

(* total size of a stack / of a list of children *)
Definition ssize (st : list dtree) : nat := fold_right (fun k n => dsize k + n) 0 st.

Lemma dsize_node : forall i kids, dsize (DNode i kids) = S (ssize kids).
Proof. reflexivity. Qed.

Lemma ssize_cons : forall t st, ssize (t :: st) = dsize t + ssize st.
Proof. reflexivity. Qed.

Lemma ssize_app : forall a b, ssize (a ++ b) = ssize a + ssize b.
Proof.
  induction a as [|t a IH]; intros b; [reflexivity|].
  cbn [app]. rewrite !ssize_cons, IH. lia.
Qed.

Lemma dsize_pos : forall t, 1 <= dsize t.
Proof. intros [i kids]. rewrite dsize_node. lia. Qed.

Lemma ssize_zero_nil : forall st, ssize st = 0 -> st = [].
Proof.
  intros [|t st] H; [reflexivity|].
  rewrite ssize_cons in H. pose proof (dsize_pos t). lia.
Qed.

Lemma preorder_node : forall i kids, preorder (DNode i kids) = i :: flat_map preorder kids.
Proof. reflexivity. Qed.

Lemma preorder_head : forall t, exists l, preorder t = did t :: l.
Proof. intros [i kids]. eexists. reflexivity. Qed.

(* the entries still to be returned by a called cursor whose stack is [st] (head = the entry returned last) *)
Definition pending (st : list dtree) : list N := tl (flat_map preorder st).

Lemma pending_cons : forall i kids st,
  pending (DNode i kids :: st) = flat_map preorder kids ++ flat_map preorder st.
Proof. reflexivity. Qed.

Lemma pending_cons' : forall i kids st,
  pending (DNode i kids :: st) = flat_map preorder (kids ++ st).
Proof. intros. rewrite pending_cons, flat_map_app. reflexivity. Qed.

Lemma flat_map_preorder_head : forall t q,
  flat_map preorder (t :: q) = did t :: pending (t :: q).
Proof.
  intros t q. unfold pending. cbn [flat_map].
  destruct (preorder_head t) as [l Hl]. rewrite Hl. reflexivity.
Qed.

(* ---------- 1. the generalised invariant ---------- *)
Lemma visit_called_pending : forall root fuel st,
  ssize st <= S fuel ->
  visit root fuel {| c_stack := st; c_called := true |} = pending st.
Proof.
  intros root fuel. induction fuel as [|f IH]; intros st Hf.
  - destruct st as [|[i kids] rest]; [reflexivity|].
    rewrite pending_cons'. rewrite ssize_cons, dsize_node in Hf.
    assert (kids ++ rest = []) as -> by (apply ssize_zero_nil; rewrite ssize_app; lia).
    reflexivity.
  - destruct st as [|[i kids] rest]; [reflexivity|].
    rewrite pending_cons'.
    cbn [visit next_dfs c_called c_stack negb].
    rewrite ssize_cons, dsize_node in Hf.
    assert (Hsz : ssize (kids ++ rest) <= S f) by (rewrite ssize_app; lia).
    destruct (kids ++ rest) as [|t' q] eqn:E.
    + reflexivity.
    + cbn [current c_stack].
      rewrite (IH (t' :: q) Hsz).
      rewrite flat_map_preorder_head. reflexivity.
Qed.

Theorem visit_stack_spec : forall root fuel c t st,
  c_called c = true -> c_stack c = t :: st ->
  S fuel >= dsize t + ssize st ->
  visit root fuel c =
    flat_map preorder (match t with DNode _ kids => kids end) ++ flat_map preorder st.
Proof.
  intros root fuel [stk cal] t st Hc Hs Hf. cbn [c_called c_stack] in Hc, Hs. subst cal stk.
  rewrite visit_called_pending by (rewrite ssize_cons; lia).
  destruct t as [i kids]. apply pending_cons.
Qed.

(* the first call pushes and returns the root *)
Lemma visit_cursor0 : forall root f,
  visit root (S f) cursor0 = did root :: visit root f {| c_stack := [root]; c_called := true |}.
Proof. reflexivity. Qed.

Lemma pending_root : forall root, did root :: pending [root] = preorder root.
Proof.
  intros root. rewrite <- flat_map_preorder_head. cbn [flat_map]. apply app_nil_r.
Qed.

Lemma ssize_single : forall t, ssize [t] = dsize t.
Proof. intros t. rewrite ssize_cons. cbn [ssize fold_right]. lia. Qed.

(* ---------- 3. more fuel changes nothing ---------- *)
Theorem visit_more_fuel : forall root k,
  visit root (S (dsize root) + k) cursor0 = preorder root.
Proof.
  intros root k. cbn [plus]. rewrite visit_cursor0.
  rewrite visit_called_pending by (rewrite ssize_single; lia).
  apply pending_root.
Qed.

(* ---------- 2. ---------- *)
Theorem visit_all_is_preorder : forall root, visit_all root = preorder root.
Proof.
  intros root. unfold visit_all.
  replace (S (dsize root)) with (S (dsize root) + 0) by lia.
  apply visit_more_fuel.
Qed.

(* one call less is already enough (the last call only observes the None) *)
Lemma visit_exact_fuel : forall root, visit root (dsize root) cursor0 = preorder root.
Proof.
  intros root. destruct (dsize root) as [|n] eqn:E.
  - pose proof (dsize_pos root). lia.
  - rewrite visit_cursor0.
    rewrite visit_called_pending by (rewrite ssize_single; lia).
    apply pending_root.
Qed.

(* the cursor returns None after the last entry, and keeps returning None *)
Theorem next_dfs_done_stays_done : forall root c c',
  next_dfs root c = (c', None) -> next_dfs root c' = (c', None).
Proof.
  intros root [stk cal] c' H. unfold next_dfs in H. cbn [c_called c_stack] in H.
  destruct cal; cbn [negb] in H.
  - destruct stk as [|[i kids] rest].
    + injection H as <-. reflexivity.
    + cbn [current c_stack] in H. destruct (kids ++ rest) as [|t' q] eqn:E.
      * injection H as <-. reflexivity.
      * discriminate H.
  - cbn [current c_stack] in H. discriminate H.
Qed.

Lemma next_dfs_after_last : forall root,
  next_dfs root {| c_stack := []; c_called := true |} = ({| c_stack := []; c_called := true |}, None).
Proof. reflexivity. Qed.

(* a cursor is never done before its first call *)
Lemma next_dfs_first_is_root : forall root,
  snd (next_dfs root cursor0) = Some (did root).
Proof. reflexivity. Qed.

(* ---------- 4. each entry exactly once ---------- *)
Lemma length_flat_map_preorder : forall kids,
  Forall (fun t => length (preorder t) = dsize t) kids ->
  length (flat_map preorder kids) = ssize kids.
Proof.
  induction 1 as [|t kids Ht _ IH]; [reflexivity|].
  cbn [flat_map]. rewrite app_length, ssize_cons, Ht, IH. reflexivity.
Qed.

Lemma length_preorder : forall t, length (preorder t) = dsize t.
Proof.
  apply dtree_ind2. intros i kids HF.
  rewrite preorder_node, dsize_node. cbn [length].
  rewrite length_flat_map_preorder by exact HF. reflexivity.
Qed.

Theorem visit_all_each_once : forall root,
  length (visit_all root) = dsize root /\
  (NoDup (preorder root) ->
     NoDup (visit_all root) /\ forall i, In i (preorder root) <-> In i (visit_all root)).
Proof.
  intros root. rewrite visit_all_is_preorder. split.
  - apply length_preorder.
  - intros Hnd. split; [exact Hnd|]. intros i. reflexivity.
Qed.

(* ---------- 5. every DIE is paired with its own image ---------- *)
Lemma flat_map_preorder_map_tree : forall f kids,
  Forall (fun t => preorder (map_tree f t) = map f (preorder t)) kids ->
  flat_map preorder (map (map_tree f) kids) = map f (flat_map preorder kids).
Proof.
  intros f. induction 1 as [|t kids Ht _ IH]; [reflexivity|].
  cbn [map flat_map]. rewrite map_app, Ht, IH. reflexivity.
Qed.

Lemma preorder_map_tree : forall f t, preorder (map_tree f t) = map f (preorder t).
Proof.
  intros f. apply dtree_ind2. intros i kids HF.
  cbn [map_tree]. rewrite !preorder_node. cbn [map].
  rewrite flat_map_preorder_map_tree by exact HF. reflexivity.
Qed.

Lemma combine_map_self : forall (A B : Type) (f : A -> B) (l : list A),
  combine l (map f l) = map (fun i => (i, f i)) l.
Proof.
  intros A B f. induction l as [|a l IH]; [reflexivity|].
  cbn [map combine]. rewrite IH. reflexivity.
Qed.

Theorem high_pc_pairs_own_image : forall f from,
  high_pc_pairs from (map_tree f from) = map (fun i => (i, f i)) (preorder from).
Proof.
  intros f from. unfold high_pc_pairs.
  rewrite visit_all_is_preorder, preorder_map_tree. apply combine_map_self.
Qed.

(* consequence: the image paired with an input DIE is the image of that very DIE *)
Corollary high_pc_pairs_own_image_in : forall f from i j,
  In (i, j) (high_pc_pairs from (map_tree f from)) -> In i (preorder from) /\ j = f i.
Proof.
  intros f from i j H. rewrite high_pc_pairs_own_image in H.
  apply in_map_iff in H. destruct H as [x [E Hx]]. injection E as <- <-. split; [exact Hx|reflexivity].
Qed.

(* the converted unit has the shape of the input unit: sizes agree *)
Lemma dsize_map_tree : forall f t, dsize (map_tree f t) = dsize t.
Proof.
  intros f t. rewrite <- !length_preorder, preorder_map_tree. apply map_length.
Qed.

(* ---------- 6. the shape premise is needed ---------- *)
(* input unit: 1 [2 [3]; 4]; converted unit (f = times 10): the image of DIE 3 is missing: 10 [20; 40] *)
Definition mm_from : dtree := DNode 1%N [DNode 2%N [DNode 3%N []]; DNode 4%N []].
Definition mm_to : dtree := DNode 10%N [DNode 20%N []; DNode 40%N []].
Definition mm_f (i : N) : N := (10 * i)%N.

Theorem high_pc_pairs_shape_mismatch_refuted :
  exists (f : N -> N) (from to : dtree) (i j : N),
    (forall a b, f a = f b -> a = b) /\
    i <> j /\ In i (preorder from) /\ In j (preorder from) /\
    In (i, f j) (high_pc_pairs from to) /\
    high_pc_pairs from to <> map (fun i => (i, f i)) (preorder from).
Proof.
  exists mm_f, mm_from, mm_to, 3%N, 4%N.
  split; [intros a b H; unfold mm_f in H; lia|].
  split; [discriminate|].
  split; [vm_compute; tauto|].
  split; [vm_compute; tauto|].
  split; [vm_compute; tauto|].
  vm_compute. discriminate.
Qed.

(* ---------- 7. non-vacuity: 4 levels, a node with 3 children ---------- *)
Definition ex_tree : dtree :=
  DNode 1%N [ DNode 2%N [ DNode 3%N []; DNode 4%N [ DNode 5%N [] ]; DNode 6%N [] ];
             DNode 7%N [];
             DNode 8%N [ DNode 9%N [] ] ].

Example ex_visit_all : visit_all ex_tree = [1;2;3;4;5;6;7;8;9]%N.
Proof. vm_compute. reflexivity. Qed.

Example ex_preorder : preorder ex_tree = [1;2;3;4;5;6;7;8;9]%N.
Proof. vm_compute. reflexivity. Qed.

Example ex_dsize : dsize ex_tree = 9.
Proof. vm_compute. reflexivity. Qed.

Example ex_each_once : NoDup (visit_all ex_tree) /\ length (visit_all ex_tree) = 9.
Proof.
  split; [|vm_compute; reflexivity].
  apply (proj2 (visit_all_each_once ex_tree)).
  vm_compute. repeat (constructor; [cbn [In]; intros H; repeat (destruct H as [H|H]; [discriminate H|]); exact H|]).
  constructor.
Qed.

Example ex_pairs : high_pc_pairs ex_tree (map_tree (fun i => (100 + i)%N) ex_tree)
  = [(1,101);(2,102);(3,103);(4,104);(5,105);(6,106);(7,107);(8,108);(9,109)]%N.
Proof. vm_compute. reflexivity. Qed.

(* the loop really stops by itself: ten times the fuel, same list; and the stack is empty at the end *)
Example ex_more_fuel : visit ex_tree 100 cursor0 = [1;2;3;4;5;6;7;8;9]%N.
Proof. vm_compute. reflexivity. Qed.

(* the invariant in the middle of the walk: the cursor has just returned DIE 2, DIE 7 and 8 wait on the stack *)
Example ex_mid :
  visit ex_tree 20
    {| c_stack := [ DNode 2%N [ DNode 3%N []; DNode 4%N [ DNode 5%N [] ]; DNode 6%N [] ]; DNode 7%N []; DNode 8%N [ DNode 9%N [] ] ];
       c_called := true |} = [3;4;5;6;7;8;9]%N.
Proof. vm_compute. reflexivity. Qed.

Print Assumptions visit_stack_spec.
Print Assumptions visit_all_is_preorder.
Print Assumptions visit_more_fuel.
Print Assumptions visit_all_each_once.
Print Assumptions high_pc_pairs_own_image.
Print Assumptions high_pc_pairs_shape_mismatch_refuted.
