(* C08, module level fixpoint, part 27: the CONTENT of the validator context (global value types, table64 /
   memory64 flags) reached after a prefix of a stream, in terms of the payloads of the prefix (any stream). *)
From Coq Require Import List NArith ZArith Bool Arith Lia.
Import ListNotations.
From WV Require Import Gen.Ops Model.Common Model.IR Model.Arena Model.Traversal Model.EmitFn Model.Locals
                       Model.ParseFn Model.ModuleM Model.ParseM Model.EmitM Gen.Attrs.
From WV Require Import Proofs.Arena Proofs.Order Proofs.IndexMaps Proofs.CustomsCfg Proofs.Structure Proofs.Structure2
                       Proofs.Totality Proofs.Renumbering Proofs.ParseTotal Proofs.ModFix Proofs.ModFix4 Proofs.ModFix2 Proofs.ModFix16.
Local Open Scope nat_scope.

(* what one payload contributes to the three lists of the context *)
Definition sec_globs (sec : wsec) : list valty :=
  match sec with S_Imports l => map wg_ty (imp_globals_w l) | S_Globals l => map (fun gc => wg_ty (fst gc)) l | _ => [] end.
Definition sec_tabs (sec : wsec) : list bool :=
  match sec with S_Imports l => map wt_64 (imp_tables_w l) | S_Tables l => map wt_64 l | _ => [] end.
Definition sec_mems64 (sec : wsec) : list bool :=
  match sec with S_Imports l => map wm_64 (imp_mems_w l) | S_Mems l => map wm_64 l | _ => [] end.

Lemma cimp_fold_content : forall l c,
  c_globs (fold_left cimp l c) = c_globs c ++ map wg_ty (imp_globals_w l) /\
  c_tabs (fold_left cimp l c) = c_tabs c ++ map wt_64 (imp_tables_w l) /\
  c_mems (fold_left cimp l c) = c_mems c ++ map wm_64 (imp_mems_w l).
Proof.
  induction l as [|i r IH]; intros c; [cbn; rewrite !app_nil_r; repeat split|]. cbn [fold_left].
  destruct (IH (cimp c i)) as (A & B & C). rewrite A, B, C. unfold imp_globals_w, imp_tables_w, imp_mems_w, cimp. cbn [flat_map].
  destruct (wi_kind i); cbn [c_globs c_tabs c_mems app map]; rewrite <- ?app_assoc; repeat split; reflexivity.
Qed.

Theorem ctx_content : forall w c,
  c_globs (ctx_from c w) = c_globs c ++ flat_map sec_globs w /\
  c_tabs (ctx_from c w) = c_tabs c ++ flat_map sec_tabs w /\
  c_mems (ctx_from c w) = c_mems c ++ flat_map sec_mems64 w.
Proof.
  induction w as [|s r IH]; intros c; [cbn; rewrite !app_nil_r; repeat split|]. cbn [ctx_from fold_left flat_map]. unfold ctx_from in IH.
  destruct (IH (cstep c s)) as (A & B & C). rewrite A, B, C, !app_assoc. clear IH A B C.
  unfold cstep, set_last. cbn [c_globs c_tabs c_mems].
  destruct s; cbn [cstep0 sec_globs sec_tabs sec_mems64 c_globs c_tabs c_mems]; rewrite ?app_nil_r; try (repeat split; reflexivity).
  destruct (cimp_fold_content is_ c) as (A & B & C). rewrite A, B, C. repeat split; reflexivity.
Qed.

(* attribute plumbing: the emitted attribute records carry the IR flags *)
Lemma wg_ty_emit g : wg_ty (gen_emit_global_local g) = gl_ty g. Proof. reflexivity. Qed.
Lemma wt_64_emit t : wt_64 (gen_emit_table_local t) = tb_64 t. Proof. reflexivity. Qed.
Lemma wm_64_emit t : wm_64 (gen_emit_memory_local t) = me_64 t. Proof. reflexivity. Qed.

(* in a stream made of the emitter's tagged pieces only the import piece and the piece of the kind contribute *)
Section Pieces27.
  Variables p0 p1 p2 p3 p4 p5 p6 p7 p8 p9 p10 p11 rest : list wsec.
  Hypothesis T0 : tagged 0 p0. Hypothesis T1 : tagged 1 p1. Hypothesis T2 : tagged 2 p2. Hypothesis T3 : tagged 3 p3.
  Hypothesis T4 : tagged 4 p4. Hypothesis T5 : tagged 5 p5. Hypothesis T6 : tagged 6 p6. Hypothesis T7 : tagged 7 p7.
  Hypothesis T8 : tagged 8 p8. Hypothesis T9 : tagged 9 p9. Hypothesis T10 : tagged 10 p10. Hypothesis T11 : tagged 11 p11.
  Hypothesis R : forall s, In s rest -> sec_tag s = None.
  Ltac piece27 f :=
    unfold ModFix2.W; rewrite !flat_map_app;
    rewrite (untagged_payload_nil f rest R) by (intros [] Hs; try reflexivity; discriminate Hs);
    payload_piece f; cbn [app]; rewrite ?app_nil_r; reflexivity.
  Lemma W_globs : flat_map sec_globs (ModFix2.W p0 p1 p2 p3 p4 p5 p6 p7 p8 p9 p10 p11 rest) = flat_map sec_globs p1 ++ flat_map sec_globs p5.
  Proof. piece27 sec_globs. Qed.
  Lemma W_tabs : flat_map sec_tabs (ModFix2.W p0 p1 p2 p3 p4 p5 p6 p7 p8 p9 p10 p11 rest) = flat_map sec_tabs p1 ++ flat_map sec_tabs p3.
  Proof. piece27 sec_tabs. Qed.
  Lemma W_mems64 : flat_map sec_mems64 (ModFix2.W p0 p1 p2 p3 p4 p5 p6 p7 p8 p9 p10 p11 rest) = flat_map sec_mems64 p1 ++ flat_map sec_mems64 p4.
  Proof. piece27 sec_mems64. Qed.
End Pieces27.

(* the global value types listed by the whole emitted stream, against the emitted global ids (emission order) *)
Definition gty_rel (m : wir) (id : N) (ty : valty) : Prop := exists gl, aget (m_globals m) id = Some gl /\ ty = gl_ty gl.

Lemma imp_globs_rel m xt : forall l ws, Forall2 (import_emitted' m xt) l ws ->
  Forall2 (gty_rel m) (flat_map (fun i => match im_kind i with MI_Global f => [f] | _ => [] end) l) (map wg_ty (imp_globals_w ws)).
Proof.
  induction 1 as [|a b l ws (_ & _ & Hk) _ IH]; [constructor|]. unfold imp_globals_w in *. cbn [flat_map]. rewrite map_app.
  apply Forall2_app; [|exact IH]. destruct (im_kind a).
  - destruct Hk as (fn & ti & _ & _ & ->). constructor.
  - destruct Hk as (tb & _ & ->). constructor.
  - destruct Hk as (me & _ & ->). constructor.
  - destruct Hk as (gl & Hgl & ->). repeat constructor. exists gl. split; [exact Hgl|reflexivity].
Qed.

Lemma local_globs_rel m : forall l gs, (forall t, In t l -> aget (m_globals m) (gid t) = Some (snd (fst t))) ->
  Forall2 (fun t g => fst g = gen_emit_global_local (snd (fst t))) l gs ->
  Forall2 (gty_rel m) (map gid l) (map (fun gc : wglobalty * wconst => wg_ty (fst gc)) gs).
Proof.
  intros l gs Hl F. induction F as [|t g l gs Hg _ IH]; [constructor|]. cbn [map]. constructor.
  - exists (snd (fst t)). split; [apply Hl; left; reflexivity|]. rewrite Hg. reflexivity.
  - apply IH. intros t' Ht'. apply Hl. right. exact Ht'.
Qed.

Print Assumptions imp_globs_rel.
Print Assumptions local_globs_rel.
Theorem emitted_globs_rel m ilen e : emitM m ilen [] = Ok e ->
  Forall2 (gty_rel m) (emitted_ids e S_global) (flat_map sec_globs (em_secs e)).
Proof.
  intros He. destruct (emitted_ids_shape _ _ _ _ He) as (fs & _ & _ & _ & _ & Hg & _). rewrite Hg. clear Hg fs.
  emitM_parts2 He.
  pose proof (emit_types_tag _ _ _ _ Ety) as T0. pose proof (emit_imports_tag _ _ _ _ Eim) as T1.
  pose proof (emit_func_section_tag _ _ _ _ Efn) as T2. pose proof (emit_tables_tag m x3) as T3.
  pose proof (emit_memories_tag m x4) as T4.
  pose proof (emit_globals_tag _ _ _ _ Egl) as T5. pose proof (emit_exports_tag _ _ _ Eex) as T6.
  pose proof (emit_start_tag _ _ _ Est) as T7. pose proof (emit_elements_tag _ _ _ _ Eel) as T8.
  pose proof (emit_data_count_tag _ _ _ _ Edc) as T9. pose proof (emit_code_tag _ _ _ _ _ _ Eco) as T10.
  pose proof (emit_data_tag _ _ _ Eda) as T11.
  assert (Rn : forall s, In s rest -> sec_tag s = None) by (intros s' Hs; destruct (Erest s' Hs) as [H|[]]; exact H).
  rewrite Esecs.
  match goal with |- context [flat_map sec_globs ?w] =>
    change w with (ModFix2.W s_ty s_im s_fn (fst (emit_tables m x3)) (fst (emit_memories m x4)) s_gl s_ex s_st s_el s_dc s_co s_da rest) end.
  rewrite W_globs by assumption. apply Forall2_app.
  - unfold imported_globals. unfold emit_imports in Eim. fold (live_imports m) in Eim. destruct (live_imports m) as [|i r] eqn:E.
    + inversion Eim; subst. constructor.
    + rinv Eim as a Ea. inversion Eim; subst s_im x2; clear Eim. destruct a as [ws xa]. cbn [fst flat_map sec_globs]. rewrite app_nil_r.
      exact (imp_globs_rel m _ (i :: r) ws (emit_imports_l_entries' _ _ _ _ _ Ea)).
  - rewrite emit_globals_unfold in Egl. destruct (local_globals m) as [|p0 ps] eqn:El; [inversion Egl; subst; constructor|].
    rewrite <- El in *. rinv Egl as rr Er. inversion Egl; subst s_gl x6; clear Egl. cbn [flat_map sec_globs]. rewrite app_nil_r.
    apply globals_go_entries' in Er. destruct Er as [_ F]. apply local_globs_rel.
    + intros [[id g] c] Ht. unfold local_globals in Ht. apply in_flat_map in Ht. destruct Ht as ([id0 gl] & Hin & Hk). cbn [fst snd] in Hk.
      destruct (gl_kind gl); [destruct Hk|]. destruct Hk as [Hk|[]]. inversion Hk; subst. cbn [gid fst snd]. apply aiter_aget. exact Hin.
    + eapply Forall2_impl; [|exact F]. cbn beta. intros a b [H _]. exact H.
Qed.

Print Assumptions emitted_globs_rel.
(* CONTENT of c_globs: at the emitted index of a global sits its value type.  [pre] is any prefix that already
   holds the whole import and global payloads (e.g. one ending before the element or data section). *)
Theorem prefix_glob_type : forall cf ver w s ilen e pre g j gl, parseM cf ver w = POk s -> emitM (ps_m s) ilen [] = Ok e ->
  flat_map sec_globs pre = flat_map sec_globs (em_secs e) ->
  get_idx (em_x2i e) S_global g = Ok j -> aget (m_globals (ps_m s)) g = Some gl ->
  nth_error (c_globs (ctx_after pre)) (N.to_nat j) = Some (gl_ty gl).
Proof.
  intros cf ver w s ilen e pre g j gl HP HE Hpre Hj Hgl. unfold ctx_after.
  destruct (ctx_content pre ctx0) as (A & _ & _). rewrite A, Hpre. cbn [ctx0 c_globs app].
  assert (W : wf_map (space_map (em_x2i e) S_global)) by (apply (parsed_wf_space _ _ _ _ _ _ _ S_global HP HE); discriminate).
  apply (x2i_positions _ _ _ _ W) in Hj. fold (emitted_ids e S_global) in Hj.
  destruct (Forall2_nth_l _ _ _ _ _ (emitted_globs_rel _ _ _ HE) Hj) as (ty & Hty & gl' & Hgl' & ->).
  rewrite Hgl in Hgl'. inversion Hgl'; subst gl'. exact Hty.
Qed.

Print Assumptions prefix_glob_type.
Definition tab_rel (m : wir) (id : N) (b : bool) : Prop := exists t, aget (m_tables m) id = Some t /\ b = tb_64 t.
Lemma imp_tabs_rel m xt : forall l ws, Forall2 (import_emitted' m xt) l ws ->
  Forall2 (tab_rel m) (flat_map (fun i => match im_kind i with MI_Table f => [f] | _ => [] end) l) (map wt_64 (imp_tables_w ws)).
Proof.
  induction 1 as [|a b l ws (_ & _ & Hk) _ IH]; [constructor|]. unfold imp_tables_w in *. cbn [flat_map]. rewrite map_app.
  apply Forall2_app; [|exact IH]. destruct (im_kind a).
  - destruct Hk as (fn & ti & _ & _ & ->). constructor.
  - destruct Hk as (tb & Ht & ->). repeat constructor. exists tb. split; [exact Ht|reflexivity].
  - destruct Hk as (me & _ & ->). constructor.
  - destruct Hk as (gl & _ & ->). constructor.
Qed.
Lemma local_tabs_rel m : forall l : list (N * mtable), (forall p, In p l -> aget (m_tables m) (fst p) = Some (snd p)) ->
  Forall2 (tab_rel m) (map fst l) (map wt_64 (map (fun p => gen_emit_table_local (snd p)) l)).
Proof.
  induction l as [|p l IH]; intros H; [constructor|]. cbn [map]. constructor.
  - exists (snd p). split; [apply H; left; reflexivity|reflexivity].
  - apply IH. intros q Hq. apply H. right. exact Hq.
Qed.
Theorem emitted_tabs_rel m ilen e : emitM m ilen [] = Ok e ->
  Forall2 (tab_rel m) (emitted_ids e S_table) (flat_map sec_tabs (em_secs e)).
Proof.
  intros He. destruct (emitted_ids_shape _ _ _ _ He) as (fs & _ & _ & Ht & _). rewrite Ht. clear Ht fs.
  emitM_parts2 He.
  pose proof (emit_types_tag _ _ _ _ Ety) as T0. pose proof (emit_imports_tag _ _ _ _ Eim) as T1.
  pose proof (emit_func_section_tag _ _ _ _ Efn) as T2. pose proof (emit_tables_tag m x3) as T3.
  pose proof (emit_memories_tag m x4) as T4.
  pose proof (emit_globals_tag _ _ _ _ Egl) as T5. pose proof (emit_exports_tag _ _ _ Eex) as T6.
  pose proof (emit_start_tag _ _ _ Est) as T7. pose proof (emit_elements_tag _ _ _ _ Eel) as T8.
  pose proof (emit_data_count_tag _ _ _ _ Edc) as T9. pose proof (emit_code_tag _ _ _ _ _ _ Eco) as T10.
  pose proof (emit_data_tag _ _ _ Eda) as T11.
  assert (Rn : forall s, In s rest -> sec_tag s = None) by (intros s' Hs; destruct (Erest s' Hs) as [H|[]]; exact H).
  rewrite Esecs.
  match goal with |- context [flat_map sec_tabs ?w] =>
    change w with (ModFix2.W s_ty s_im s_fn (fst (emit_tables m x3)) (fst (emit_memories m x4)) s_gl s_ex s_st s_el s_dc s_co s_da rest) end.
  rewrite W_tabs by assumption. apply Forall2_app.
  - unfold imported_tables. unfold emit_imports in Eim. fold (live_imports m) in Eim. destruct (live_imports m) as [|i r] eqn:E.
    + inversion Eim; subst. constructor.
    + rinv Eim as a Ea. inversion Eim; subst s_im x2; clear Eim. destruct a as [ws xa]. cbn [fst flat_map sec_tabs]. rewrite app_nil_r.
      exact (imp_tabs_rel m _ (i :: r) ws (emit_imports_l_entries' _ _ _ _ _ Ea)).
  - assert (HL : forall p, In p (local_tables m) -> aget (m_tables m) (fst p) = Some (snd p)).
    { intros [id t] Hp. unfold local_tables in Hp. apply filter_In in Hp. destruct Hp as [Hp _]. apply aiter_aget. exact Hp. }
    rewrite emit_tables_entries. pose proof (local_tabs_rel m _ HL) as F. destruct (local_tables m) as [|p0 ps]; [constructor|].
    cbn [flat_map sec_tabs]. rewrite app_nil_r. exact F.
Qed.
Theorem prefix_tab_flag : forall cf ver w s ilen e pre t j tb, parseM cf ver w = POk s -> emitM (ps_m s) ilen [] = Ok e ->
  flat_map sec_tabs pre = flat_map sec_tabs (em_secs e) ->
  get_idx (em_x2i e) S_table t = Ok j -> aget (m_tables (ps_m s)) t = Some tb ->
  nth_error (c_tabs (ctx_after pre)) (N.to_nat j) = Some (tb_64 tb).
Proof.
  intros cf ver w s ilen e pre t j tb HP HE Hpre Hj Htb. unfold ctx_after.
  destruct (ctx_content pre ctx0) as (_ & A & _). rewrite A, Hpre. cbn [ctx0 c_tabs app].
  assert (W : wf_map (space_map (em_x2i e) S_table)) by (apply (parsed_wf_space _ _ _ _ _ _ _ S_table HP HE); discriminate).
  apply (x2i_positions _ _ _ _ W) in Hj. fold (emitted_ids e S_table) in Hj.
  destruct (Forall2_nth_l _ _ _ _ _ (emitted_tabs_rel _ _ _ HE) Hj) as (b & Hb & tb' & Htb' & ->).
  rewrite Htb in Htb'. inversion Htb'; subst tb'. exact Hb.
Qed.
Print Assumptions prefix_tab_flag.

Definition mem_rel (m : wir) (id : N) (b : bool) : Prop := exists t, aget (m_memories m) id = Some t /\ b = me_64 t.
Lemma imp_mems_rel m xt : forall l ws, Forall2 (import_emitted' m xt) l ws ->
  Forall2 (mem_rel m) (flat_map (fun i => match im_kind i with MI_Mem f => [f] | _ => [] end) l) (map wm_64 (imp_mems_w ws)).
Proof.
  induction 1 as [|a b l ws (_ & _ & Hk) _ IH]; [constructor|]. unfold imp_mems_w in *. cbn [flat_map]. rewrite map_app.
  apply Forall2_app; [|exact IH]. destruct (im_kind a).
  - destruct Hk as (fn & ti & _ & _ & ->). constructor.
  - destruct Hk as (tb & _ & ->). constructor.
  - destruct Hk as (me & Ht & ->). repeat constructor. exists me. split; [exact Ht|reflexivity].
  - destruct Hk as (gl & _ & ->). constructor.
Qed.
Lemma local_mems_rel m : forall l : list (N * mmem), (forall p, In p l -> aget (m_memories m) (fst p) = Some (snd p)) ->
  Forall2 (mem_rel m) (map fst l) (map wm_64 (map (fun p => gen_emit_memory_local (snd p)) l)).
Proof.
  induction l as [|p l IH]; intros H; [constructor|]. cbn [map]. constructor.
  - exists (snd p). split; [apply H; left; reflexivity|reflexivity].
  - apply IH. intros q Hq. apply H. right. exact Hq.
Qed.
Theorem emitted_mems_rel m ilen e : emitM m ilen [] = Ok e ->
  Forall2 (mem_rel m) (emitted_ids e S_memory) (flat_map sec_mems64 (em_secs e)).
Proof.
  intros He. destruct (emitted_ids_shape _ _ _ _ He) as (fs & _ & _ & _ & Ht & _). rewrite Ht. clear Ht fs.
  emitM_parts2 He.
  pose proof (emit_types_tag _ _ _ _ Ety) as T0. pose proof (emit_imports_tag _ _ _ _ Eim) as T1.
  pose proof (emit_func_section_tag _ _ _ _ Efn) as T2. pose proof (emit_tables_tag m x3) as T3.
  pose proof (emit_memories_tag m x4) as T4.
  pose proof (emit_globals_tag _ _ _ _ Egl) as T5. pose proof (emit_exports_tag _ _ _ Eex) as T6.
  pose proof (emit_start_tag _ _ _ Est) as T7. pose proof (emit_elements_tag _ _ _ _ Eel) as T8.
  pose proof (emit_data_count_tag _ _ _ _ Edc) as T9. pose proof (emit_code_tag _ _ _ _ _ _ Eco) as T10.
  pose proof (emit_data_tag _ _ _ Eda) as T11.
  assert (Rn : forall s, In s rest -> sec_tag s = None) by (intros s' Hs; destruct (Erest s' Hs) as [H|[]]; exact H).
  rewrite Esecs.
  match goal with |- context [flat_map sec_mems64 ?w] =>
    change w with (ModFix2.W s_ty s_im s_fn (fst (emit_tables m x3)) (fst (emit_memories m x4)) s_gl s_ex s_st s_el s_dc s_co s_da rest) end.
  rewrite W_mems64 by assumption. apply Forall2_app.
  - unfold imported_memories. unfold emit_imports in Eim. fold (live_imports m) in Eim. destruct (live_imports m) as [|i r] eqn:E.
    + inversion Eim; subst. constructor.
    + rinv Eim as a Ea. inversion Eim; subst s_im x2; clear Eim. destruct a as [ws xa]. cbn [fst flat_map sec_mems64]. rewrite app_nil_r.
      exact (imp_mems_rel m _ (i :: r) ws (emit_imports_l_entries' _ _ _ _ _ Ea)).
  - assert (HL : forall p, In p (local_memories m) -> aget (m_memories m) (fst p) = Some (snd p)).
    { intros [id t] Hp. unfold local_memories in Hp. apply filter_In in Hp. destruct Hp as [Hp _]. apply aiter_aget. exact Hp. }
    rewrite emit_memories_entries. pose proof (local_mems_rel m _ HL) as F. destruct (local_memories m) as [|p0 ps]; [constructor|].
    cbn [flat_map sec_mems64]. rewrite app_nil_r. exact F.
Qed.
Theorem prefix_mem_flag : forall cf ver w s ilen e pre t j tb, parseM cf ver w = POk s -> emitM (ps_m s) ilen [] = Ok e ->
  flat_map sec_mems64 pre = flat_map sec_mems64 (em_secs e) ->
  get_idx (em_x2i e) S_memory t = Ok j -> aget (m_memories (ps_m s)) t = Some tb ->
  nth_error (c_mems (ctx_after pre)) (N.to_nat j) = Some (me_64 tb).
Proof.
  intros cf ver w s ilen e pre t j tb HP HE Hpre Hj Htb. unfold ctx_after.
  destruct (ctx_content pre ctx0) as (_ & _ & A). rewrite A, Hpre. cbn [ctx0 c_mems app].
  assert (W : wf_map (space_map (em_x2i e) S_memory)) by (apply (parsed_wf_space _ _ _ _ _ _ _ S_memory HP HE); discriminate).
  apply (x2i_positions _ _ _ _ W) in Hj. fold (emitted_ids e S_memory) in Hj.
  destruct (Forall2_nth_l _ _ _ _ _ (emitted_mems_rel _ _ _ HE) Hj) as (b & Hb & tb' & Htb' & ->).
  rewrite Htb in Htb'. inversion Htb'; subst tb'. exact Hb.
Qed.
Print Assumptions prefix_mem_flag.

Print Assumptions ctx_content.
