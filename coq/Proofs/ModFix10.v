(* Body-level second round trip (C08): re-tagging of structured bodies, the emitted operator stream
   as a structured normal form, and its exact reproduction (instructions AND positions) by a second
   parse + emit. *)
From Coq Require Import List NArith Bool Lia Setoid. Import ListNotations.
From WV Require Import Gen.Ops Model.Common Model.IR Model.ParseFn Model.ParseSpec Model.EmitFn
  Model.BodySpec Model.Sem Model.EmitSpec Model.Traversal.
From WV Require Import Proofs.ParseFn Proofs.Codec Proofs.Body Proofs.Sem Proofs.Escalation Proofs.Fixpoint
  Proofs.EmitFn Proofs.Traversal.
Local Open Scope nat_scope.

(* ================================================================== 0. list helpers *)
Lemma combine_app_skipn {A B} (a b : list A) : forall (ls : list B),
  combine (a ++ b) ls = combine a ls ++ combine b (skipn (length a) ls).
Proof.
  induction a as [|x a IH]; intros ls; [reflexivity|].
  destruct ls as [|y ls]; cbn [app combine length skipn].
  - destruct b; reflexivity.
  - now rewrite IH.
Qed.
Lemma comb_cons {A} (w : A) a (ls : list N) : 1 <= length ls ->
  combine (w :: a) ls = (w, hd 0%N ls) :: combine a (tl ls).
Proof. destruct ls; cbn [length]; [lia|reflexivity]. Qed.
Lemma comb_one {A} (w : A) (ls : list N) : 1 <= length ls -> combine [w] ls = [(w, hd 0%N ls)].
Proof. intros H. rewrite comb_cons by exact H. reflexivity. Qed.
Lemma mfc {A B} (a : list A) : forall (b : list B), length a = length b -> map fst (combine a b) = a.
Proof. induction a as [|x a IH]; intros [|y b] H; cbn in *; try lia; [reflexivity|]. f_equal. apply IH. lia. Qed.
Lemma msc {A B} (a : list A) : forall (b : list B), length a = length b -> map snd (combine a b) = b.
Proof. induction a as [|x a IH]; intros [|y b] H; cbn in *; try lia; [reflexivity|]. f_equal. apply IH. lia. Qed.
Lemma skipn_skipn {A} (a : nat) : forall b (l : list A), skipn b (skipn a l) = skipn (a + b) l.
Proof. induction a as [|a IH]; intros b l; [reflexivity|]. destruct l; cbn [skipn plus]; [now destruct b|apply IH]. Qed.
Lemma tl_skipn {A} (l : list A) : tl l = skipn 1 l.
Proof. destruct l; reflexivity. Qed.
Lemma length_tl {A} (l : list A) : length (tl l) = length l - 1.
Proof. destruct l; cbn [tl length]; lia. Qed.

(* ================================================================== 1. re-tagging the locations *)
Fixpoint reloc_t (t : rt) (ls : list N) {struct t} : rt * list N :=
  let rl := fix rl (l : list rt) (ls : list N) {struct l} : list rt * list N :=
      match l with
      | [] => ([], ls)
      | x :: l' => (fst (reloc_t x ls) :: fst (rl l' (snd (reloc_t x ls))), snd (rl l' (snd (reloc_t x ls))))
      end in
  match t with
  | RPlain o _ => (RPlain o (hd 0%N ls), tl ls)
  | RNop _ => (RNop (hd 0%N ls), tl ls)
  | RBr d _ => (RBr d (hd 0%N ls), tl ls)
  | RBrIf d _ => (RBrIf d (hd 0%N ls), tl ls)
  | RBrTable ds d _ => (RBrTable ds d (hd 0%N ls), tl ls)
  | RBlock bt b _ _ => (RBlock bt (fst (rl b (tl ls))) (hd 0%N ls) (hd 0%N (snd (rl b (tl ls)))), tl (snd (rl b (tl ls))))
  | RLoop bt b _ _ => (RLoop bt (fst (rl b (tl ls))) (hd 0%N ls) (hd 0%N (snd (rl b (tl ls)))), tl (snd (rl b (tl ls))))
  | RIf bt th None _ _ => (RIf bt (fst (rl th (tl ls))) None (hd 0%N ls) (hd 0%N (snd (rl th (tl ls)))), tl (snd (rl th (tl ls))))
  | RIf bt th (Some (_, el)) _ _ =>
      let r1 := rl th (tl ls) in
      let r2 := rl el (tl (snd r1)) in
      (RIf bt (fst r1) (Some (hd 0%N (snd r1), fst r2)) (hd 0%N ls) (hd 0%N (snd r2)), tl (snd r2))
  end.
Fixpoint reloc_l (l : list rt) (ls : list N) : list rt * list N :=
  match l with
  | [] => ([], ls)
  | x :: l' => (fst (reloc_t x ls) :: fst (reloc_l l' (snd (reloc_t x ls))), snd (reloc_l l' (snd (reloc_t x ls))))
  end.
Definition reloc (L : list rt) (ls : list N) : list rt := fst (reloc_l L ls).

Definition rl_inner :=
  fix rl (l : list rt) (ls : list N) {struct l} : list rt * list N :=
    match l with
    | [] => ([], ls)
    | x :: l' => (fst (reloc_t x ls) :: fst (rl l' (snd (reloc_t x ls))), snd (rl l' (snd (reloc_t x ls))))
    end.
Lemma rl_inner_eq l : forall ls, rl_inner l ls = reloc_l l ls.
Proof.
  induction l as [|t l IH]; intros ls; [reflexivity|].
  cbn [rl_inner reloc_l]. fold rl_inner. now rewrite IH.
Qed.
Lemma reloc_block bt b l e ls : reloc_t (RBlock bt b l e) ls =
  (RBlock bt (fst (reloc_l b (tl ls))) (hd 0%N ls) (hd 0%N (snd (reloc_l b (tl ls)))), tl (snd (reloc_l b (tl ls)))).
Proof. rewrite <- rl_inner_eq. reflexivity. Qed.
Lemma reloc_loop bt b l e ls : reloc_t (RLoop bt b l e) ls =
  (RLoop bt (fst (reloc_l b (tl ls))) (hd 0%N ls) (hd 0%N (snd (reloc_l b (tl ls)))), tl (snd (reloc_l b (tl ls)))).
Proof. rewrite <- rl_inner_eq. reflexivity. Qed.
Lemma reloc_if_none bt th l e ls : reloc_t (RIf bt th None l e) ls =
  (RIf bt (fst (reloc_l th (tl ls))) None (hd 0%N ls) (hd 0%N (snd (reloc_l th (tl ls)))), tl (snd (reloc_l th (tl ls)))).
Proof. rewrite <- rl_inner_eq. reflexivity. Qed.
Lemma reloc_if_some bt th le el l e ls : reloc_t (RIf bt th (Some (le, el)) l e) ls =
  (RIf bt (fst (reloc_l th (tl ls)))
       (Some (hd 0%N (snd (reloc_l th (tl ls))), fst (reloc_l el (tl (snd (reloc_l th (tl ls)))))))
       (hd 0%N ls) (hd 0%N (snd (reloc_l el (tl (snd (reloc_l th (tl ls))))))),
   tl (snd (reloc_l el (tl (snd (reloc_l th (tl ls))))))).
Proof. rewrite <- !rl_inner_eq. reflexivity. Qed.

Lemma flat_list_cons t l : flat_list (t :: l) = flat t ++ flat_list l.
Proof. reflexivity. Qed.

(* the remaining locations, and the flattening of the re-tagged tree *)
Definition Rt (t : rt) : Prop := forall ls,
  snd (reloc_t t ls) = skipn (length (flat t)) ls /\
  (length (flat t) <= length ls -> flat (fst (reloc_t t ls)) = combine (map fst (flat t)) ls).
Definition Rl (l : list rt) : Prop := forall ls,
  snd (reloc_l l ls) = skipn (length (flat_list l)) ls /\
  (length (flat_list l) <= length ls -> flat_list (fst (reloc_l l ls)) = combine (map fst (flat_list l)) ls).

Lemma Rl_of_Forall l : Forall Rt l -> Rl l.
Proof.
  induction 1 as [|t l Ht Hl IH]; intros ls; [split; reflexivity|].
  cbn [reloc_l fst snd]. rewrite flat_list_cons, app_length.
  destruct (Ht ls) as [H1 H2]. destruct (IH (snd (reloc_t t ls))) as [H3 H4].
  split.
  - rewrite H3, H1, skipn_skipn; try (f_equal; lia).
  - intros Hlen. rewrite flat_list_cons, map_app, combine_app_skipn, map_length.
    rewrite H2 by lia. rewrite H4; [now rewrite H1|]. rewrite H1, skipn_length. lia.
Qed.

Ltac leaf_R := intros ls; cbn [reloc_t flat fst snd length map]; split;
  [apply tl_skipn|intros H; now rewrite comb_one by exact H].

Lemma Rt_all : forall t, Rt t.
Proof.
  induction t as [o l|l|d l|d l|ds d l|bt body l e HF|bt body l e HF|bt th el l e HFt HFe] using rt_ind'.
  - leaf_R.
  - leaf_R.
  - leaf_R.
  - leaf_R.
  - leaf_R.
  - intros ls. rewrite reloc_block. cbn [fst snd flat]. fold (flat_list body).
    destruct (Rl_of_Forall _ HF (tl ls)) as [H1 H2]. cbn [length]. rewrite app_length. cbn [length].
    split.
    + rewrite H1, !tl_skipn, !skipn_skipn; try (f_equal; lia).
    + intros Hlen. fold (flat_list (fst (reloc_l body (tl ls)))).
      cbn [map]. rewrite map_app. cbn [map fst].
      rewrite comb_cons by lia. rewrite combine_app_skipn, map_length.
      rewrite H2 by (rewrite length_tl; lia). rewrite H1.
      rewrite comb_one by (rewrite skipn_length, length_tl; lia). reflexivity.
  - intros ls. rewrite reloc_loop. cbn [fst snd flat]. fold (flat_list body).
    destruct (Rl_of_Forall _ HF (tl ls)) as [H1 H2]. cbn [length]. rewrite app_length. cbn [length].
    split.
    + rewrite H1, !tl_skipn, !skipn_skipn; try (f_equal; lia).
    + intros Hlen. fold (flat_list (fst (reloc_l body (tl ls)))).
      cbn [map]. rewrite map_app. cbn [map fst].
      rewrite comb_cons by lia. rewrite combine_app_skipn, map_length.
      rewrite H2 by (rewrite length_tl; lia). rewrite H1.
      rewrite comb_one by (rewrite skipn_length, length_tl; lia). reflexivity.
  - destruct el as [[le eb]|].
    + intros ls. rewrite reloc_if_some. cbn [fst snd flat]. fold (flat_list th). fold (flat_list eb).
      cbn [optP snd] in HFe.
      destruct (Rl_of_Forall _ HFt (tl ls)) as [H1 H2].
      destruct (Rl_of_Forall _ HFe (tl (snd (reloc_l th (tl ls))))) as [H3 H4].
      cbn [length]. rewrite app_length. cbn [length]. rewrite app_length. cbn [length].
      split.
      * rewrite H3, H1, !tl_skipn, !skipn_skipn; try (f_equal; lia).
      * intros Hlen.
        fold (flat_list (fst (reloc_l th (tl ls)))).
        fold (flat_list (fst (reloc_l eb (tl (snd (reloc_l th (tl ls))))))).
        cbn [map]. rewrite map_app. cbn [map fst]. rewrite map_app. cbn [map fst].
        rewrite comb_cons by lia. rewrite combine_app_skipn, map_length.
        rewrite H2 by (rewrite length_tl; lia).
        assert (L1 : length (snd (reloc_l th (tl ls))) = length ls - 1 - length (flat_list th)).
        { rewrite H1, skipn_length, length_tl. reflexivity. }
        rewrite <- H1.
        rewrite comb_cons by lia. rewrite combine_app_skipn, map_length.
        rewrite H4 by (rewrite length_tl; lia). rewrite <- H3.
        rewrite comb_one; [reflexivity|].
        rewrite H3, skipn_length, length_tl. lia.
    + intros ls. rewrite reloc_if_none. cbn [fst snd flat]. fold (flat_list th).
      destruct (Rl_of_Forall _ HFt (tl ls)) as [H1 H2]. cbn [length]. rewrite app_length. cbn [length].
      split.
      * rewrite H1, !tl_skipn, !skipn_skipn; try (f_equal; lia).
      * intros Hlen. fold (flat_list (fst (reloc_l th (tl ls)))).
        cbn [map]. rewrite map_app. cbn [map fst].
        rewrite comb_cons by lia. rewrite combine_app_skipn, map_length.
        rewrite H2 by (rewrite length_tl; lia). rewrite H1.
        rewrite comb_one by (rewrite skipn_length, length_tl; lia). reflexivity.
Qed.

Lemma Rl_all l : Rl l.
Proof. apply Rl_of_Forall, Forall_forall. intros t _. apply Rt_all. Qed.

Theorem flat_list_reloc : forall L locs, length locs = length (flat_list L) ->
  flat_list (reloc L locs) = combine (map fst (flat_list L)) locs.
Proof. intros L locs H. apply (proj2 (Rl_all L locs)). lia. Qed.

Corollary flat_list_reloc_fst : forall L locs, length locs = length (flat_list L) ->
  map fst (flat_list (reloc L locs)) = map fst (flat_list L).
Proof.
  intros L locs H. rewrite flat_list_reloc by exact H. apply mfc. rewrite map_length. lia.
Qed.

Theorem flat_list_reloc_le : forall L locs, length (flat_list L) <= length locs ->
  flat_list (reloc L locs) = combine (map fst (flat_list L)) locs.
Proof. intros L locs H. apply (proj2 (Rl_all L locs)). exact H. Qed.
Theorem reloc_rest : forall L locs, snd (reloc_l L locs) = skipn (length (flat_list L)) locs.
Proof. intros L locs. apply (proj1 (Rl_all L locs)). Qed.

(* ------------------------------------------------------------------ invariance of is_nf / wf *)
Lemma reloc_l_nil l ls : fst (reloc_l l ls) = [] <-> l = [].
Proof. destruct l; cbn [reloc_l fst]; split; intros H; try reflexivity; discriminate H. Qed.

Definition It (t : rt) : Prop := forall ls,
  (is_nf_t (fst (reloc_t t ls)) <-> is_nf_t t) /\ terminal (fst (reloc_t t ls)) = terminal t.
Definition Il (l : list rt) : Prop := forall ls, is_nf (fst (reloc_l l ls)) <-> is_nf l.
Lemma Il_of_Forall l : Forall It l -> Il l.
Proof.
  induction 1 as [|t l Ht Hl IH]; intros ls; [reflexivity|].
  cbn [reloc_l fst is_nf]. destruct (Ht ls) as [A B].
  rewrite A, B, (IH (snd (reloc_t t ls))), reloc_l_nil. reflexivity.
Qed.
Lemma It_all : forall t, It t.
Proof.
  induction t as [o l|l|d l|d l|ds d l|bt body l e HF|bt body l e HF|bt th el l e HFt HFe] using rt_ind';
    intros ls.
  - split; reflexivity.
  - split; reflexivity.
  - split; reflexivity.
  - split; reflexivity.
  - split; reflexivity.
  - rewrite reloc_block. cbn [fst]. rewrite !is_nf_block. split; [apply (Il_of_Forall _ HF)|reflexivity].
  - rewrite reloc_loop. cbn [fst]. rewrite !is_nf_loop. split; [apply (Il_of_Forall _ HF)|reflexivity].
  - destruct el as [[le eb]|].
    + rewrite reloc_if_some. cbn [fst]. rewrite !is_nf_if_some. cbn [optP snd] in HFe.
      split; [|reflexivity].
      rewrite (Il_of_Forall _ HFt (tl ls)), (Il_of_Forall _ HFe (tl (snd (reloc_l th (tl ls))))). reflexivity.
    + rewrite reloc_if_none. cbn [fst]. split; reflexivity.
Qed.
Theorem is_nf_reloc : forall L locs, is_nf (reloc L locs) <-> is_nf L.
Proof. intros L locs. apply Il_of_Forall, Forall_forall. intros t _. apply It_all. Qed.

Definition Wt (cx : pctx) (t : rt) : Prop := forall k ls, wf cx k (fst (reloc_t t ls)) <-> wf cx k t.
Definition Wl (cx : pctx) (l : list rt) : Prop := forall k ls, wfl cx k (fst (reloc_l l ls)) <-> wfl cx k l.
Lemma Wl_of_Forall cx l : Forall (Wt cx) l -> Wl cx l.
Proof.
  induction 1 as [|t l Ht Hl IH]; intros k ls; [reflexivity|].
  cbn [reloc_l fst wfl]. rewrite (Ht k ls), (IH k (snd (reloc_t t ls))). reflexivity.
Qed.
Lemma Wt_all cx : forall t, Wt cx t.
Proof.
  induction t as [o l|l|d l|d l|ds d l|bt body l e HF|bt body l e HF|bt th el l e HFt HFe] using rt_ind';
    intros k ls.
  - reflexivity.
  - reflexivity.
  - reflexivity.
  - reflexivity.
  - reflexivity.
  - rewrite reloc_block. cbn [fst]. rewrite !wf_block. rewrite (Wl_of_Forall _ _ HF (S k) (tl ls)). reflexivity.
  - rewrite reloc_loop. cbn [fst]. rewrite !wf_loop. rewrite (Wl_of_Forall _ _ HF (S k) (tl ls)). reflexivity.
  - destruct el as [[le eb]|].
    + rewrite reloc_if_some. cbn [fst]. rewrite !wf_if. cbn [optP snd] in HFe.
      rewrite (Wl_of_Forall _ _ HFt (S k) (tl ls)), (Wl_of_Forall _ _ HFe (S k) (tl (snd (reloc_l th (tl ls))))). reflexivity.
    + rewrite reloc_if_none. cbn [fst]. rewrite !wf_if. rewrite (Wl_of_Forall _ _ HFt (S k) (tl ls)). reflexivity.
Qed.
Theorem wfl_reloc : forall cx k L locs, wfl cx k (reloc L locs) <-> wfl cx k L.
Proof. intros cx k L locs. apply Wl_of_Forall, Forall_forall. intros t _. apply Wt_all. Qed.
Theorem wf_reloc : forall cx k t locs, wf cx k (fst (reloc_t t locs)) <-> wf cx k t.
Proof. intros cx k t locs. apply Wt_all. Qed.

(* [ins_fixed] looks only at the instruction *)
Theorem insf_reloc : forall cx ecx L locs, length locs = length (flat_list L) ->
  (Forall (insf cx ecx) (flat_list (reloc L locs)) <-> Forall (insf cx ecx) (flat_list L)).
Proof.
  intros cx ecx L locs H. unfold insf.
  rewrite <- (Forall_map fst (ins_fixed cx ecx)), <- (Forall_map fst (ins_fixed cx ecx) (flat_list L)).
  rewrite flat_list_reloc_fst by exact H. reflexivity.
Qed.

(* ================================================================== 2. the emitted stream as a structured body *)
(* the generated codec keeps the "ends the sequence" class of an operator *)
Lemma mu_codec : forall i2id id2i o p w, decode_plain i2id o = Some p -> encode_plain id2i p = Some w ->
  marks_unreachable w = marks_unreachable o.
Proof.
  intros i2id id2i o p w H H0.
  destruct o; cbn [decode_plain] in H;
  repeat match type of H with match ?x with _ => _ end = _ => destruct x end;
  try discriminate H; injection H as <-; cbn [encode_plain] in H0;
  repeat match type of H0 with match ?x with _ => _ end = _ => destruct x end;
  try discriminate H0; injection H0 as <-; reflexivity.
Qed.

Lemma flat_list_app a b : flat_list (a ++ b) = flat_list a ++ flat_list b.
Proof. unfold flat_list. apply flat_map_app. Qed.

(* a property of every plain operator of a flattened body *)
Definition okp (P : wop -> Prop) (p : wins * N) : Prop := match fst p with WOp o => P o | _ => True end.

Section OkNf.
  Variable cx : pctx.
  Variable P : wop -> Prop.
  Hypothesis HP : forall o, decode_plain (px_i2id cx) o <> None -> P o.

  Definition Dt (t : rt) : Prop := forall k u, wf cx k t -> Forall (okp P) (flat_list (fst (nf_rt u t))).
  Definition Dl (l : list rt) : Prop := forall k u, wfl cx k l -> Forall (okp P) (flat_list (fst (nf_rt_list u l))).
  Lemma Dl_of_Forall l : Forall Dt l -> Dl l.
  Proof.
    induction 1 as [|t l Ht Hl IH]; intros k u Hw; [constructor|].
    destruct Hw as [Hw1 Hw2]. rewrite nf_rt_list_cons. cbn [fst]. rewrite flat_list_app.
    apply Forall_app. split; [apply (Ht k u Hw1)|apply (IH k _ Hw2)].
  Qed.
  Lemma Dt_all : forall t, Dt t.
  Proof.
    induction t as [o l|l|d l|d l|ds d l|bt body l e HF|bt body l e HF|bt th el l e HFt HFe] using rt_ind';
      intros k u Hw; (destruct u; [rewrite nf_rt_dead; constructor|]).
    - cbn. constructor; [|constructor]. unfold okp. cbn [fst]. apply HP. exact Hw.
    - constructor.
    - cbn. constructor; [exact I|constructor].
    - cbn. constructor; [exact I|constructor].
    - cbn. constructor; [exact I|constructor].
    - rewrite nf_rt_block. rewrite wf_block in Hw. cbn [keepr fst]. rewrite (flat_list_cons _ []).
      cbn [flat_list flat_map]. rewrite app_nil_r. cbn [flat].
      constructor; [exact I|]. apply Forall_app. split; [|constructor; [exact I|constructor]].
      apply (Dl_of_Forall _ HF (S k) false (proj2 Hw)).
    - rewrite nf_rt_loop. rewrite wf_loop in Hw. cbn [keepr fst]. rewrite (flat_list_cons _ []).
      cbn [flat_list flat_map]. rewrite app_nil_r. cbn [flat].
      constructor; [exact I|]. apply Forall_app. split; [|constructor; [exact I|constructor]].
      apply (Dl_of_Forall _ HF (S k) false (proj2 Hw)).
    - rewrite wf_if in Hw. destruct Hw as (_ & Hw1 & Hw2). destruct el as [[le eb]|].
      + rewrite nf_rt_if_some. cbn [keepr fst]. rewrite (flat_list_cons _ []).
        cbn [flat_list flat_map]. rewrite app_nil_r. cbn [flat]. cbn [optP snd] in HFe.
        constructor; [exact I|]. apply Forall_app. split; [apply (Dl_of_Forall _ HFt (S k) false Hw1)|].
        constructor; [exact I|]. apply Forall_app. split; [|constructor; [exact I|constructor]].
        apply (Dl_of_Forall _ HFe (S k) false Hw2).
      + rewrite nf_rt_if_none. cbn [keepr fst]. rewrite (flat_list_cons _ []).
        cbn [flat_list flat_map]. rewrite app_nil_r. cbn [flat].
        constructor; [exact I|]. apply Forall_app. split; [apply (Dl_of_Forall _ HFt (S k) false Hw1)|].
        constructor; [exact I|]. cbn [flat_map app]. constructor; [exact I|constructor].
  Qed.
  Theorem nf_rt_ops_ok : forall k u l, wfl cx k l -> Forall (okp P) (flat_list (fst (nf_rt_list u l))).
  Proof. intros k u l. apply Dl_of_Forall, Forall_forall. intros t _. apply Dt_all. Qed.
End OkNf.

(* the renaming, on trees: [nf_op] in place of the operator, [nf_bt] in place of the block type,
   an explicit empty `else` where there was none *)
Section Ren.
  Variable cx : pctx.
  Variable ecx : ectx.

  Definition ren_leaf (o : wop) (l : N) : rt :=
    match nf_op cx ecx o with WOp w => RPlain w l | _ => RNop l end.
  Fixpoint ren_t (t : rt) : rt :=
    match t with
    | RPlain o l => ren_leaf o l
    | RBlock bt b l e => RBlock (nf_bt cx ecx bt) (map ren_t b) l e
    | RLoop bt b l e => RLoop (nf_bt cx ecx bt) (map ren_t b) l e
    | RIf bt th None l e => RIf (nf_bt cx ecx bt) (map ren_t th) (Some (default_loc, [])) l e
    | RIf bt th (Some (le, el)) l e => RIf (nf_bt cx ecx bt) (map ren_t th) (Some (le, map ren_t el)) l e
    | t => t
    end.

  Lemma flat_ren_leaf o l : flat (ren_leaf o l) = [(nf_op cx ecx o, l)].
  Proof. unfold ren_leaf, nf_op. destruct (encode_plain (ex_id2i ecx) (dec cx o)); reflexivity. Qed.

  Lemma flat_ren_list l : Forall (fun t => flat (ren_t t) = flat' cx ecx t) l ->
    flat_list (map ren_t l) = flat_list' cx ecx l.
  Proof.
    induction 1 as [|t l Ht Hl IH]; [reflexivity|].
    cbn [map]. rewrite flat_list_cons, Ht, IH. reflexivity.
  Qed.
  Lemma flat_ren_t : forall t, flat (ren_t t) = flat' cx ecx t.
  Proof.
    induction t as [o l|l|d l|d l|ds d l|bt body l e HF|bt body l e HF|bt th el l e HFt HFe] using rt_ind'.
    - apply flat_ren_leaf.
    - reflexivity.
    - reflexivity.
    - reflexivity.
    - reflexivity.
    - cbn [ren_t flat flat']. fold (flat_list (map ren_t body)). fold (flat_list' cx ecx body).
      now rewrite (flat_ren_list _ HF).
    - cbn [ren_t flat flat']. fold (flat_list (map ren_t body)). fold (flat_list' cx ecx body).
      now rewrite (flat_ren_list _ HF).
    - destruct el as [[le eb]|].
      + cbn [optP snd] in HFe. cbn [ren_t flat flat'].
        fold (flat_list (map ren_t th)). fold (flat_list' cx ecx th).
        fold (flat_list (map ren_t eb)). fold (flat_list' cx ecx eb).
        now rewrite (flat_ren_list _ HFt), (flat_ren_list _ HFe).
      + cbn [ren_t flat flat']. fold (flat_list (map ren_t th)). fold (flat_list' cx ecx th).
        rewrite (flat_ren_list _ HFt). reflexivity.
  Qed.
  Theorem flat_ren : forall l, flat_list (map ren_t l) = flat_list' cx ecx l.
  Proof. intros l. apply flat_ren_list, Forall_forall. intros t _. apply flat_ren_t. Qed.

  (* renaming keeps normal forms, provided every operator has an encoding of the same class *)
  Definition renP (o : wop) : Prop := exists w, nf_op cx ecx o = WOp w /\ marks_unreachable w = marks_unreachable o.

  Definition Nr (t : rt) : Prop := Forall (okp renP) (flat t) -> is_nf_t t ->
    is_nf_t (ren_t t) /\ terminal (ren_t t) = terminal t.
  Definition Nrl (l : list rt) : Prop := Forall (okp renP) (flat_list l) -> is_nf l -> is_nf (map ren_t l).
  Lemma Nrl_of_Forall l : Forall Nr l -> Nrl l.
  Proof.
    induction 1 as [|t l Ht Hl IH]; intros Hf Hn; [exact I|].
    rewrite flat_list_cons in Hf. apply Forall_app in Hf. destruct Hf as [Hf1 Hf2].
    destruct Hn as (Hn1 & Hn2 & Hn3). destruct (Ht Hf1 Hn1) as [A B].
    cbn [map is_nf]. split; [exact A|]. split; [|apply (IH Hf2 Hn3)].
    rewrite B. intros HT. rewrite (Hn2 HT). reflexivity.
  Qed.
  Lemma Nr_all : forall t, Nr t.
  Proof.
    induction t as [o l|l|d l|d l|ds d l|bt body l e HF|bt body l e HF|bt th el l e HFt HFe] using rt_ind';
      intros Hf Hn.
    - cbn [flat] in Hf. apply Forall_inv in Hf. unfold okp in Hf. cbn [fst] in Hf.
      destruct Hf as (w & Hw & Hm). cbn [ren_t]. unfold ren_leaf. rewrite Hw. cbn [is_nf_t terminal].
      split; [exact I|exact Hm].
    - elim Hn.
    - split; [exact I|reflexivity].
    - split; [exact I|reflexivity].
    - split; [exact I|reflexivity].
    - cbn [ren_t]. rewrite is_nf_block in *. split; [|reflexivity].
      cbn [flat] in Hf. fold (flat_list body) in Hf. apply Forall_cons_iff in Hf. destruct Hf as [_ Hf].
      apply Forall_app in Hf. destruct Hf as [Hf _]. apply (Nrl_of_Forall _ HF Hf Hn).
    - cbn [ren_t]. rewrite is_nf_loop in *. split; [|reflexivity].
      cbn [flat] in Hf. fold (flat_list body) in Hf. apply Forall_cons_iff in Hf. destruct Hf as [_ Hf].
      apply Forall_app in Hf. destruct Hf as [Hf _]. apply (Nrl_of_Forall _ HF Hf Hn).
    - destruct el as [[le eb]|]; [|elim Hn]. cbn [optP snd] in HFe.
      cbn [ren_t]. rewrite is_nf_if_some in *. destruct Hn as [Hn1 Hn2]. split; [|reflexivity].
      cbn [flat] in Hf. fold (flat_list th) in Hf. fold (flat_list eb) in Hf.
      apply Forall_cons_iff in Hf. destruct Hf as [_ Hf]. apply Forall_app in Hf. destruct Hf as [Hf1 Hf].
      apply Forall_cons_iff in Hf. destruct Hf as [_ Hf]. apply Forall_app in Hf. destruct Hf as [Hf2 _].
      split; [apply (Nrl_of_Forall _ HFt Hf1 Hn1)|apply (Nrl_of_Forall _ HFe Hf2 Hn2)].
  Qed.
  Theorem is_nf_ren : forall l, Forall (okp renP) (flat_list l) -> is_nf l -> is_nf (map ren_t l).
  Proof. intros l. apply Nrl_of_Forall, Forall_forall. intros t _. apply Nr_all. Qed.

  (* under the encodability premise every decodable operator is in [renP] *)
  Lemma renP_of_enc :
    (forall o, decode_plain (px_i2id cx) o <> None -> encode_plain (ex_id2i ecx) (dec cx o) <> None) ->
    forall o, decode_plain (px_i2id cx) o <> None -> renP o.
  Proof.
    intros Henc o Hd. specialize (Henc o Hd). unfold renP, nf_op. unfold dec in *.
    destruct (decode_plain (px_i2id cx) o) as [p|] eqn:Ed; [|now elim Hd].
    destruct (encode_plain (ex_id2i ecx) p) as [w|] eqn:Ee; [|now elim Henc].
    exists w. split; [reflexivity|]. eapply mu_codec; eassumption.
  Qed.
End Ren.

(* the structured body whose flattening is the emitted stream (minus the final `end`) *)
Definition emitted_tree (cx : pctx) (ecx : ectx) (l : list rt) (pos : list N) : list rt :=
  reloc (map (ren_t cx ecx) (fst (nf_rt_list false l))) pos.

(* ------------------------------------------------------------------ emit_body does not depend on the fuel *)
Lemma emit_body_det cx f1 f2 ar en p s1 s2 :
  emit_body cx f1 ar en p = Ok s1 -> emit_body cx f2 ar en p = Ok s2 -> s1 = s2.
Proof.
  unfold emit_body, dfs_in_order. intros H1 H2.
  destruct (run_dfs false f1 ar [(en, 0)]) as [r1| |] eqn:E1; cbn [rbind] in H1; try discriminate H1.
  destruct (run_dfs false f2 ar [(en, 0)]) as [r2| |] eqn:E2; cbn [rbind] in H2; try discriminate H2.
  pose proof (run_dfs_mono false ar f1 _ _ E1 (Nat.max f1 f2) ltac:(lia)) as M1.
  pose proof (run_dfs_mono false ar f2 _ _ E2 (Nat.max f1 f2) ltac:(lia)) as M2.
  rewrite M1 in M2. injection M2 as <-. rewrite H1 in H2. now injection H2.
Qed.

(* positions are a function of the instruction lengths, the start and the instructions *)
Fixpoint pos_of (ilen : wins -> N) (p : N) (ws : list wins) : list N :=
  match ws with [] => [] | w :: ws' => p :: pos_of ilen (p + ilen w)%N ws' end.
Theorem positions_determined : forall cx p tg,
  map snd (tag_positions cx p tg) = pos_of (ex_ilen cx) p (map snd tg).
Proof.
  intros cx p tg. revert p. induction tg as [|[loc w] tg IH]; intros p; [reflexivity|].
  cbn [tag_positions map snd pos_of]. now rewrite IH.
Qed.
Lemma tag_positions_length cx tg : forall p, length (tag_positions cx p tg) = length tg.
Proof. induction tg as [|[loc w] tg IH]; intros p; [reflexivity|]. cbn [tag_positions length]. now rewrite IH. Qed.
Lemma pos_of_length ilen ws : forall p, length (pos_of ilen p ws) = length ws.
Proof. induction ws as [|w ws IH]; intros p; [reflexivity|]. cbn [pos_of length]. now rewrite IH. Qed.
Lemma mfc_le {A B} (a : list A) : forall (b : list B), length a <= length b -> map fst (combine a b) = a.
Proof. induction a as [|x a IH]; intros [|y b] H; cbn in *; try reflexivity; try lia. f_equal. apply IH. lia. Qed.

Definition enc_ok (cx : pctx) (ecx : ectx) : Prop :=
  forall o, decode_plain (px_i2id cx) o <> None -> encode_plain (ex_id2i ecx) (dec cx o) <> None.

(* what [roundtrip_body] says, for the GIVEN parse result, emit result and fuel *)
Lemma first_trip_facts cx ecx ety rs l eloc p0 ar1 st1 fuel1 :
  wfl cx 1 l -> enc_ok cx ecx ->
  parse_body cx ety rs (flat_list l ++ [(WEnd, eloc)]) = Ok ar1 ->
  emit_body ecx fuel1 ar1 0 p0 = Ok st1 ->
  out st1 = map snd (nf_body cx ecx l eloc) /\ imap st1 = tag_positions ecx p0 (nf_body cx ecx l eloc).
Proof.
  intros Hw Henc Hp He.
  destruct (roundtrip_body cx ecx ety rs l eloc p0 Hw Henc) as (ar & st & fuel & Hp' & He' & Ho & Hi).
  rewrite Hp in Hp'. injection Hp' as <-. rewrite (emit_body_det _ _ _ _ _ _ _ _ He He'). split; assumption.
Qed.

(* the emitted positions are determined by the emitted instructions *)
Theorem emitted_positions cx ecx ety rs l eloc p0 ar1 st1 fuel1 :
  wfl cx 1 l -> enc_ok cx ecx ->
  parse_body cx ety rs (flat_list l ++ [(WEnd, eloc)]) = Ok ar1 ->
  emit_body ecx fuel1 ar1 0 p0 = Ok st1 ->
  map snd (imap st1) = pos_of (ex_ilen ecx) p0 (out st1) /\ length (out st1) = length (imap st1).
Proof.
  intros Hw Henc Hp He. destruct (first_trip_facts _ _ _ _ _ _ _ _ _ _ Hw Henc Hp He) as [Ho Hi].
  rewrite Hi, Ho, positions_determined, tag_positions_length, map_length. split; reflexivity.
Qed.

(* B2 *)
Theorem emitted_ops_structured : forall cx ecx ety rs l eloc p0 ar1 st1 fuel1,
  wfl cx 1 l -> enc_ok cx ecx ->
  parse_body cx ety rs (flat_list l ++ [(WEnd, eloc)]) = Ok ar1 ->
  emit_body ecx fuel1 ar1 0 p0 = Ok st1 ->
  let ops1 := combine (out st1) (map snd (imap st1)) in
  let L1 := emitted_tree cx ecx l (map snd (imap st1)) in
  exists eloc1,
    ops1 = flat_list L1 ++ [(WEnd, eloc1)] /\ is_nf L1 /\
    map fst (flat_list L1) = map fst (flat_list' cx ecx (fst (nf_rt_list false l))) /\
    length (out st1) = length (imap st1) /\
    map fst ops1 = out st1 /\ map snd ops1 = map snd (imap st1) /\
    out st1 = map fst (flat_list L1) ++ [WEnd].
Proof.
  intros cx ecx ety rs l eloc p0 ar1 st1 fuel1 Hw Henc Hp He ops1 L1.
  destruct (first_trip_facts _ _ _ _ _ _ _ _ _ _ Hw Henc Hp He) as [Ho Hi].
  destruct (emitted_positions _ _ _ _ _ _ _ _ _ _ Hw Henc Hp He) as [Hpos Hlen].
  rewrite nf_body_ops in Ho. rewrite <- flat_ren in Ho.
  set (RN := map (ren_t cx ecx) (fst (nf_rt_list false l))) in *.
  set (pos := map snd (imap st1)) in *.
  assert (Lpos : length pos = S (length (flat_list RN))).
  { unfold pos. rewrite map_length, <- Hlen, Ho, app_length, map_length. cbn [length]. lia. }
  assert (HL1 : flat_list L1 = combine (map fst (flat_list RN)) pos).
  { unfold L1, emitted_tree. fold RN. apply flat_list_reloc_le. lia. }
  assert (HL1f : map fst (flat_list L1) = map fst (flat_list RN)).
  { rewrite HL1. apply mfc_le. rewrite map_length. lia. }
  exists (hd 0%N (skipn (length (flat_list RN)) pos)).
  split; [|split; [|split; [|split; [|split; [|split]]]]].
  - unfold ops1. rewrite Ho, combine_app_skipn, map_length, <- HL1.
    rewrite comb_one by (rewrite skipn_length; lia). reflexivity.
  - unfold L1, emitted_tree. apply is_nf_reloc. apply is_nf_ren; [|apply nf_rt_is_nf].
    apply (nf_rt_ops_ok cx _ (renP_of_enc cx ecx Henc) 1 false l Hw).
  - rewrite HL1f. unfold RN. now rewrite flat_ren.
  - exact Hlen.
  - unfold ops1. apply mfc. unfold pos. rewrite map_length. exact Hlen.
  - unfold ops1. apply msc. unfold pos. rewrite map_length. exact Hlen.
  - rewrite HL1f. exact Ho.
Qed.

(* B3 *)
Theorem body_second_trip : forall cx ecx ety rs l eloc p0 ar1 st1 fuel1 cx2 ecx2 ety2 rs2,
  wfl cx 1 l -> enc_ok cx ecx ->
  parse_body cx ety rs (flat_list l ++ [(WEnd, eloc)]) = Ok ar1 ->
  emit_body ecx fuel1 ar1 0 p0 = Ok st1 ->
  let ops1 := combine (out st1) (map snd (imap st1)) in
  ex_ilen ecx2 = ex_ilen ecx ->
  wfl cx2 1 (emitted_tree cx ecx l (map snd (imap st1))) ->            (* W *)
  enc_ok cx2 ecx2 ->                                                   (* E *)
  Forall (ins_fixed cx2 ecx2) (map fst ops1) ->                        (* F *)
  exists ar2,
    parse_body cx2 ety2 rs2 ops1 = Ok ar2 /\
    (exists fuel2 st2, emit_body ecx2 fuel2 ar2 0 p0 = Ok st2) /\
    forall fuel2 st2, emit_body ecx2 fuel2 ar2 0 p0 = Ok st2 ->
      combine (out st2) (map snd (imap st2)) = ops1 /\ out st2 = out st1 /\
      map snd (imap st2) = map snd (imap st1).
Proof.
  intros cx ecx ety rs l eloc p0 ar1 st1 fuel1 cx2 ecx2 ety2 rs2 Hw Henc Hp He ops1 Hil HW HE HF.
  destruct (emitted_ops_structured _ _ _ _ _ _ _ _ _ _ Hw Henc Hp He)
    as (eloc1 & Hops & Hnf & _ & Hlen & Hfst & _ & Hout).
  destruct (emitted_positions _ _ _ _ _ _ _ _ _ _ Hw Henc Hp He) as [Hpos _].
  fold ops1 in Hops, Hfst.
  set (L1 := emitted_tree cx ecx l (map snd (imap st1))) in *.
  assert (Hins : Forall (insf cx2 ecx2) (flat_list L1)).
  { rewrite Hfst, Hout in HF. apply Forall_app in HF. destruct HF as [HF _].
    unfold insf. apply (proj1 (Forall_map fst (ins_fixed cx2 ecx2) (flat_list L1))). exact HF. }
  destruct (roundtrip_body cx2 ecx2 ety2 rs2 L1 eloc1 p0 HW HE) as (ar2 & st2 & fuel2 & Hp2 & He2 & Ho2 & Hi2).
  rewrite <- Hops in Hp2.
  assert (Hout2 : out st2 = out st1).
  { rewrite Ho2, Hout. unfold nf_body. rewrite map_app. cbn [map snd]. f_equal.
    rewrite <- (body_fixpoint cx2 ecx2 L1 Hnf Hins), map_map. apply map_ext. intros [a b]. reflexivity. }
  assert (Hpos2 : map snd (imap st2) = map snd (imap st1)).
  { rewrite Hi2, positions_determined, <- Ho2, Hout2, Hil, Hpos. reflexivity. }
  exists ar2. split; [exact Hp2|]. split; [exists fuel2, st2; exact He2|].
  intros fuel3 st3 He3. rewrite (emit_body_det _ _ _ _ _ _ _ _ He3 He2).
  split; [|split; assumption]. rewrite Hout2, Hpos2. reflexivity.
Qed.

(* ================================================================== 3. well-formedness for the second parse, from the instructions *)
Lemma wfl_app cx k a b : wfl cx k (a ++ b) <-> (wfl cx k a /\ wfl cx k b).
Proof. induction a as [|x a IH]; cbn [app wfl]; [tauto|]. rewrite IH. tauto. Qed.

(* the normal form keeps well-formedness *)
Section WfNf.
  Variable cx : pctx.
  Definition Bt (t : rt) : Prop := forall k u, wf cx k t -> wfl cx k (fst (nf_rt u t)).
  Definition Bl (l : list rt) : Prop := forall k u, wfl cx k l -> wfl cx k (fst (nf_rt_list u l)).
  Lemma Bl_of_Forall l : Forall Bt l -> Bl l.
  Proof.
    induction 1 as [|t l Ht Hl IH]; intros k u Hw; [exact I|].
    destruct Hw as [Hw1 Hw2]. rewrite nf_rt_list_cons. cbn [fst]. apply wfl_app.
    split; [apply (Ht k u Hw1)|apply (IH k _ Hw2)].
  Qed.
  Lemma Bt_all : forall t, Bt t.
  Proof.
    induction t as [o l|l|d l|d l|ds d l|bt body l e HF|bt body l e HF|bt th el l e HFt HFe] using rt_ind';
      intros k u Hw; (destruct u; [rewrite nf_rt_dead; exact I|]).
    - cbn. split; [exact Hw|exact I].
    - exact I.
    - cbn. split; [exact Hw|exact I].
    - cbn. split; [exact Hw|exact I].
    - cbn. split; [exact Hw|exact I].
    - rewrite nf_rt_block. cbn [keepr fst wfl]. split; [|exact I]. rewrite wf_block in *.
      split; [apply Hw|apply (Bl_of_Forall _ HF (S k) false (proj2 Hw))].
    - rewrite nf_rt_loop. cbn [keepr fst wfl]. split; [|exact I]. rewrite wf_loop in *.
      split; [apply Hw|apply (Bl_of_Forall _ HF (S k) false (proj2 Hw))].
    - rewrite wf_if in Hw. destruct Hw as (Hb & Hw1 & Hw2). destruct el as [[le eb]|].
      + rewrite nf_rt_if_some. cbn [keepr fst wfl]. split; [|exact I]. rewrite wf_if. cbn [optP snd] in HFe.
        split; [exact Hb|]. split; [apply (Bl_of_Forall _ HFt (S k) false Hw1)|apply (Bl_of_Forall _ HFe (S k) false Hw2)].
      + rewrite nf_rt_if_none. cbn [keepr fst wfl]. split; [|exact I]. rewrite wf_if.
        split; [exact Hb|]. split; [apply (Bl_of_Forall _ HFt (S k) false Hw1)|exact I].
  Qed.
  Theorem wfl_nf_rt : forall k u l, wfl cx k l -> wfl cx k (fst (nf_rt_list u l)).
  Proof. intros k u l. apply Bl_of_Forall, Forall_forall. intros t _. apply Bt_all. Qed.
End WfNf.

(* what the second parse needs of one instruction: it decodes / its block type resolves *)
Definition op_ok2 (cx2 : pctx) (w : wins) : Prop :=
  match w with
  | WOp o => decode_plain (px_i2id cx2) o <> None
  | WBlock bt | WLoop bt | WIf bt => bt_ok cx2 bt
  | _ => True
  end.
Definition okw (cx2 : pctx) (p : wins * N) : Prop := op_ok2 cx2 (fst p).

(* the renamed tree is well-formed for the second context: nesting and branch depths come from the
   source tree, the rest from the instructions *)
Section WfRen.
  Variable cx : pctx.
  Variable ecx : ectx.
  Variable cx2 : pctx.
  Definition Ct (t : rt) : Prop := forall k, wf cx k t -> Forall (okw cx2) (flat (ren_t cx ecx t)) ->
    wf cx2 k (ren_t cx ecx t).
  Definition Cl (l : list rt) : Prop := forall k, wfl cx k l -> Forall (okw cx2) (flat_list (map (ren_t cx ecx) l)) ->
    wfl cx2 k (map (ren_t cx ecx) l).
  Lemma Cl_of_Forall l : Forall Ct l -> Cl l.
  Proof.
    induction 1 as [|t l Ht Hl IH]; intros k Hw Hf; [exact I|].
    destruct Hw as [Hw1 Hw2]. cbn [map] in *. rewrite flat_list_cons in Hf. apply Forall_app in Hf.
    destruct Hf as [Hf1 Hf2]. split; [apply (Ht k Hw1 Hf1)|apply (IH k Hw2 Hf2)].
  Qed.
  Lemma Ct_all : forall t, Ct t.
  Proof.
    induction t as [o l|l|d l|d l|ds d l|bt body l e HF|bt body l e HF|bt th el l e HFt HFe] using rt_ind';
      intros k Hw Hf.
    - cbn [ren_t] in *. unfold ren_leaf in *. destruct (nf_op cx ecx o) as [w| | | | | | | | |] eqn:E; try exact I.
      cbn [flat] in Hf. apply Forall_inv in Hf. exact Hf.
    - exact I.
    - exact Hw.
    - exact Hw.
    - exact Hw.
    - cbn [ren_t] in *. rewrite wf_block in *. cbn [flat] in Hf. fold (flat_list (map (ren_t cx ecx) body)) in Hf.
      apply Forall_cons_iff in Hf. destruct Hf as [Hb Hf]. apply Forall_app in Hf. destruct Hf as [Hf _].
      split; [exact Hb|apply (Cl_of_Forall _ HF (S k) (proj2 Hw) Hf)].
    - cbn [ren_t] in *. rewrite wf_loop in *. cbn [flat] in Hf. fold (flat_list (map (ren_t cx ecx) body)) in Hf.
      apply Forall_cons_iff in Hf. destruct Hf as [Hb Hf]. apply Forall_app in Hf. destruct Hf as [Hf _].
      split; [exact Hb|apply (Cl_of_Forall _ HF (S k) (proj2 Hw) Hf)].
    - rewrite wf_if in Hw. destruct Hw as (_ & Hw1 & Hw2). destruct el as [[le eb]|].
      + cbn [ren_t] in *. rewrite wf_if. cbn [optP snd] in HFe. cbn [flat] in Hf.
        fold (flat_list (map (ren_t cx ecx) th)) in Hf. fold (flat_list (map (ren_t cx ecx) eb)) in Hf.
        apply Forall_cons_iff in Hf. destruct Hf as [Hb Hf]. apply Forall_app in Hf. destruct Hf as [Hf1 Hf].
        apply Forall_cons_iff in Hf. destruct Hf as [_ Hf]. apply Forall_app in Hf. destruct Hf as [Hf2 _].
        split; [exact Hb|]. split; [apply (Cl_of_Forall _ HFt (S k) Hw1 Hf1)|apply (Cl_of_Forall _ HFe (S k) Hw2 Hf2)].
      + cbn [ren_t] in *. rewrite wf_if. cbn [flat] in Hf.
        fold (flat_list (map (ren_t cx ecx) th)) in Hf.
        apply Forall_cons_iff in Hf. destruct Hf as [Hb Hf]. apply Forall_app in Hf. destruct Hf as [Hf1 _].
        split; [exact Hb|]. split; [apply (Cl_of_Forall _ HFt (S k) Hw1 Hf1)|exact I].
  Qed.
  Theorem wfl_ren_change : forall k l, wfl cx k l -> Forall (okw cx2) (flat_list (map (ren_t cx ecx) l)) ->
    wfl cx2 k (map (ren_t cx ecx) l).
  Proof. intros k l. apply Cl_of_Forall, Forall_forall. intros t _. apply Ct_all. Qed.
End WfRen.

(* (W) discharged from the instructions of the emitted stream *)
Theorem emitted_tree_wfl : forall cx ecx ety rs l eloc p0 ar1 st1 fuel1 cx2,
  wfl cx 1 l -> enc_ok cx ecx ->
  parse_body cx ety rs (flat_list l ++ [(WEnd, eloc)]) = Ok ar1 ->
  emit_body ecx fuel1 ar1 0 p0 = Ok st1 ->
  Forall (op_ok2 cx2) (out st1) ->
  wfl cx2 1 (emitted_tree cx ecx l (map snd (imap st1))).
Proof.
  intros cx ecx ety rs l eloc p0 ar1 st1 fuel1 cx2 Hw Henc Hp He HF.
  destruct (first_trip_facts _ _ _ _ _ _ _ _ _ _ Hw Henc Hp He) as [Ho _].
  rewrite nf_body_ops, <- flat_ren in Ho. rewrite Ho in HF. apply Forall_app in HF. destruct HF as [HF _].
  unfold emitted_tree. apply wfl_reloc. apply wfl_ren_change.
  - apply wfl_nf_rt. exact Hw.
  - unfold okw. apply (proj1 (Forall_map fst (op_ok2 cx2) _)). exact HF.
Qed.

(* B3 with every premise about the second contexts phrased on the emitted instructions *)
Theorem body_second_trip_ops : forall cx ecx ety rs l eloc p0 ar1 st1 fuel1 cx2 ecx2 ety2 rs2,
  wfl cx 1 l -> enc_ok cx ecx ->
  parse_body cx ety rs (flat_list l ++ [(WEnd, eloc)]) = Ok ar1 ->
  emit_body ecx fuel1 ar1 0 p0 = Ok st1 ->
  let ops1 := combine (out st1) (map snd (imap st1)) in
  ex_ilen ecx2 = ex_ilen ecx ->
  Forall (op_ok2 cx2) (map fst ops1) ->                                (* W *)
  enc_ok cx2 ecx2 ->                                                   (* E *)
  Forall (ins_fixed cx2 ecx2) (map fst ops1) ->                        (* F *)
  exists ar2,
    parse_body cx2 ety2 rs2 ops1 = Ok ar2 /\
    (exists fuel2 st2, emit_body ecx2 fuel2 ar2 0 p0 = Ok st2) /\
    forall fuel2 st2, emit_body ecx2 fuel2 ar2 0 p0 = Ok st2 ->
      combine (out st2) (map snd (imap st2)) = ops1 /\ out st2 = out st1 /\
      map snd (imap st2) = map snd (imap st1).
Proof.
  intros cx ecx ety rs l eloc p0 ar1 st1 fuel1 cx2 ecx2 ety2 rs2 Hw Henc Hp He ops1 Hil HW HE HF.
  apply (body_second_trip cx ecx ety rs l eloc p0 ar1 st1 fuel1 cx2 ecx2 ety2 rs2 Hw Henc Hp He Hil); try assumption.
  eapply emitted_tree_wfl; try eassumption.
  destruct (emitted_ops_structured _ _ _ _ _ _ _ _ _ _ Hw Henc Hp He) as (_ & _ & _ & _ & _ & Hfst & _).
  unfold ops1 in HW. rewrite Hfst in HW. exact HW.
Qed.

(* ================================================================== 4. the size of the function (number of visited instructions) *)
Definition is_instr (w : wins) : bool := match w with WEnd | WElse => false | _ => true end.
Definition count_instr (ws : list wins) : nat := length (filter is_instr ws).
Definition is_einstr (e : ev) : bool := match e with EInstr _ _ => true | _ => false end.
Definition n_instr (evs : list ev) : nat := length (filter is_einstr evs).

Lemma count_instr_app a b : count_instr (a ++ b) = count_instr a + count_instr b.
Proof. unfold count_instr. now rewrite filter_app, app_length. Qed.
Lemma n_instr_pI evs : n_instr evs = length (flat_map pI evs).
Proof.
  unfold n_instr. induction evs as [|e evs IH]; [reflexivity|].
  cbn [filter flat_map]. rewrite app_length, <- IH. destruct e; reflexivity.
Qed.

Section Count.
  Variable cx : ectx.
  Definition Pcnt (t : tree) : Prop := forall env k tg, flt_tree cx env t k = Ok tg ->
    count_instr (map snd tg) = length (instrs_in_order t).
  Definition Qcnt (it : item) : Prop := forall env loc tg, flt_item cx env it loc = Ok tg ->
    count_instr (map snd tg) = S (length (item_nested it)).
  Lemma flt_items_cnt items : Forall (fun x => Qcnt (fst x)) items ->
    forall env tg, flt_items cx env items = Ok tg ->
    count_instr (map snd tg) = length (flat_map (fun x => item_instr x :: item_nested (fst x)) items).
  Proof.
    induction 1 as [|x l Hx _ IH]; intros env tg Hf; cbn [flt_items] in Hf.
    - inversion Hf; reflexivity.
    - apply rbind_ok in Hf as (a & Ha & Hf). apply rmap_ok in Hf as (b & Hb & ->).
      rewrite map_app, count_instr_app, (Hx _ _ _ Ha), (IH _ _ Hb).
      cbn [flat_map]. rewrite app_length. reflexivity.
  Qed.
  Theorem flt_count_both : (forall t, Pcnt t) /\ (forall it, Qcnt it).
  Proof.
    apply tree_item_ind.
    - intros s ty items e HQ env k tg Hf. rewrite flt_tree_T in Hf. apply rmap_ok in Hf as (b & Hb & ->).
      rewrite map_app, count_instr_app, (flt_items_cnt _ HQ _ _ Hb), instrs_T. cbn [titems].
      destruct k; cbn; lia.
    - intros pl env loc tg Hf. cbn [flt_item] in Hf. destruct (encode_plain (ex_id2i cx) pl); inversion Hf; reflexivity.
    - intros s env loc tg Hf. cbn [flt_item] in Hf. apply rmap_ok in Hf as (d & _ & ->). reflexivity.
    - intros s env loc tg Hf. cbn [flt_item] in Hf. apply rmap_ok in Hf as (d & _ & ->). reflexivity.
    - intros ss d env loc tg Hf. cbn [flt_item] in Hf. apply rbind_ok in Hf as (dd & _ & Hf).
      apply rmap_ok in Hf as (ds & _ & ->). reflexivity.
    - intros t Pt env loc tg Hf. rewrite flt_item_B in Hf. apply rmap_ok in Hf as (tg' & Hf & ->).
      cbn [map snd item_nested]. change (count_instr (WBlock (block_type cx (tty t)) :: map snd tg')) with (S (count_instr (map snd tg'))).
      now rewrite (Pt _ _ _ Hf).
    - intros t Pt env loc tg Hf. rewrite flt_item_L in Hf. apply rmap_ok in Hf as (tg' & Hf & ->).
      cbn [map snd item_nested]. change (count_instr (WLoop (block_type cx (tty t)) :: map snd tg')) with (S (count_instr (map snd tg'))).
      now rewrite (Pt _ _ _ Hf).
    - intros c a Pc Pa env loc tg Hf. rewrite flt_item_I in Hf. apply rbind_ok in Hf as (x & Hx & Hf).
      apply rmap_ok in Hf as (y & Hy & ->).
      cbn [map snd item_nested]. rewrite map_app.
      change (count_instr (WIf (block_type cx (tty c)) :: map snd x ++ map snd y)) with (S (count_instr (map snd x ++ map snd y))).
      now rewrite count_instr_app, (Pc _ _ _ Hx), (Pa _ _ _ Hy), app_length.
  Qed.
End Count.

Lemma dfs_det ov f1 f2 ar en r1 r2 :
  dfs_in_order ov f1 ar en = Ok r1 -> dfs_in_order ov f2 ar en = Ok r2 -> r1 = r2.
Proof.
  unfold dfs_in_order. intros E1 E2.
  pose proof (run_dfs_mono ov ar f1 _ _ E1 (Nat.max f1 f2) ltac:(lia)) as M1.
  pose proof (run_dfs_mono ov ar f2 _ _ E2 (Nat.max f1 f2) ltac:(lia)) as M2.
  rewrite M1 in M2. now injection M2.
Qed.

(* for ANY emitted arena: the number of instruction callbacks of the in-order walk (LocalFunction::size)
   is the number of emitted operators other than `end` / `else` *)
Theorem emitted_count : forall cx ar t tg p0 f1 f2 evs st,
  Den ar t -> flt_tree cx [] t KEntry = Ok tg ->
  dfs_in_order false f1 ar (tsid t) = Ok evs -> emit_body cx f2 ar (tsid t) p0 = Ok st ->
  n_instr evs = count_instr (out st).
Proof.
  intros cx ar t tg p0 f1 f2 evs st HD Hf Hd He.
  pose proof (Proofs.Traversal.dfs_in_order_spec false ar t HD) as Hs.
  rewrite (dfs_det _ _ _ _ _ _ _ Hd Hs).
  destruct (emit_body_spec cx ar t tg p0 _ HD Hs Hf) as (st' & He' & Ho & _).
  rewrite (emit_body_det _ _ _ _ _ _ _ _ He He'), Ho.
  rewrite n_instr_pI. change (flat_map pI (events false t)) with
    (flat_map (fun e => match e with EInstr i l => [(i, l)] | _ => [] end) (events false t)).
  rewrite in_order_instrs. symmetry. apply (proj1 (flt_count_both cx) t [] KEntry tg Hf).
Qed.

(* one round trip *)
Theorem trip_count : forall cx ecx ety rs l eloc p0 ar st fuel f evs,
  wfl cx 1 l -> enc_ok cx ecx ->
  parse_body cx ety rs (flat_list l ++ [(WEnd, eloc)]) = Ok ar ->
  emit_body ecx fuel ar 0 p0 = Ok st ->
  dfs_in_order false f ar 0 = Ok evs ->
  n_instr evs = count_instr (out st).
Proof.
  intros cx ecx ety rs l eloc p0 ar st fuel f evs Hw Henc Hp He Hd.
  rewrite (parse_body_arena cx ety rs l eloc Hw) in Hp. injection Hp as <-.
  pose proof (parsed_arena_den cx ety l eloc Hw) as HD.
  pose proof (flt_parsed_tree cx ecx ety l eloc Hw Henc) as Hf.
  rewrite <- (parsed_tree_tsid cx ety l eloc) in He, Hd.
  exact (emitted_count _ _ _ _ _ _ _ _ _ HD Hf Hd He).
Qed.

(* B4 *)
Theorem body_second_trip_size : forall cx ecx ety rs l eloc p0 ar1 st1 fuel1 cx2 ecx2 ety2 rs2,
  wfl cx 1 l -> enc_ok cx ecx ->
  parse_body cx ety rs (flat_list l ++ [(WEnd, eloc)]) = Ok ar1 ->
  emit_body ecx fuel1 ar1 0 p0 = Ok st1 ->
  let ops1 := combine (out st1) (map snd (imap st1)) in
  ex_ilen ecx2 = ex_ilen ecx ->
  Forall (op_ok2 cx2) (map fst ops1) ->
  enc_ok cx2 ecx2 ->
  Forall (ins_fixed cx2 ecx2) (map fst ops1) ->
  forall ar2, parse_body cx2 ety2 rs2 ops1 = Ok ar2 ->
  forall f1 f2 evs1 evs2,
    dfs_in_order false f1 ar1 0 = Ok evs1 -> dfs_in_order false f2 ar2 0 = Ok evs2 ->
    n_instr evs2 = n_instr evs1 /\ n_instr evs1 = count_instr (map fst ops1).
Proof.
  intros cx ecx ety rs l eloc p0 ar1 st1 fuel1 cx2 ecx2 ety2 rs2 Hw Henc Hp He ops1 Hil HW HE HF ar2 Hp2
    f1 f2 evs1 evs2 Hd1 Hd2.
  destruct (emitted_ops_structured _ _ _ _ _ _ _ _ _ _ Hw Henc Hp He) as (eloc1 & Hops & _ & _ & _ & Hfst & _ & _).
  fold ops1 in Hops, Hfst.
  assert (HW1 : wfl cx2 1 (emitted_tree cx ecx l (map snd (imap st1)))).
  { eapply emitted_tree_wfl; try eassumption. rewrite <- Hfst. exact HW. }
  destruct (body_second_trip cx ecx ety rs l eloc p0 ar1 st1 fuel1 cx2 ecx2 ety2 rs2 Hw Henc Hp He Hil HW1 HE HF)
    as (ar2' & Hp2' & (fuel2 & st2 & He2) & Hall).
  fold ops1 in Hp2'. rewrite Hp2 in Hp2'. injection Hp2' as <-.
  destruct (Hall _ _ He2) as (_ & Ho2 & _).
  pose proof (trip_count _ _ _ _ _ _ _ _ _ _ _ _ Hw Henc Hp He Hd1) as C1.
  rewrite Hops in Hp2.
  pose proof (trip_count _ _ _ _ _ _ _ _ _ _ _ _ HW1 HE Hp2 He2 Hd2) as C2.
  rewrite Hfst. split; [rewrite C1, C2, Ho2; reflexivity|exact C1].
Qed.

Print Assumptions flat_list_reloc.
Print Assumptions is_nf_reloc.
Print Assumptions wfl_reloc.
Print Assumptions insf_reloc.
Print Assumptions emitted_ops_structured.
Print Assumptions positions_determined.
Print Assumptions body_second_trip.
Print Assumptions emitted_tree_wfl.
Print Assumptions body_second_trip_ops.
Print Assumptions emitted_count.
Print Assumptions body_second_trip_size.

(* ================================================================== 5. the entities reported by the walk vs. the emitted indices *)
Definition sel (f : space -> bool) (l : list (space * N)) : list N := map snd (filter (fun r => f (fst r)) l).
Definition is_local (s : space) : bool := match s with S_local => true | _ => false end.
Definition is_data (s : space) : bool := match s with S_data => true | _ => false end.
(* the indices of one space occurring in an operator stream, in order *)
Definition ops_sel (f : space -> bool) (ws : list wins) : list N :=
  flat_map (fun w => match w with WOp o => sel f (wop_refs o) | _ => [] end) ws.

Lemma sel_app f a b : sel f (a ++ b) = sel f a ++ sel f b.
Proof. unfold sel. now rewrite filter_app, map_app. Qed.
Lemma ops_sel_cons f w ws :
  ops_sel f (w :: ws) = (match w with WOp o => sel f (wop_refs o) | _ => [] end) ++ ops_sel f ws.
Proof. reflexivity. Qed.
Lemma ops_sel_app f a b : ops_sel f (a ++ b) = ops_sel f a ++ ops_sel f b.
Proof. apply flat_map_app. Qed.

(* the generated encoder writes, for locals and for data segments, the images of the visited ids in order *)
Lemma encode_sel_local : forall id2i p w, encode_plain id2i p = Some w ->
  sel is_local (wop_refs w) = map (id2i S_local) (sel is_local (visited_refs p)).
Proof.
  intros id2i p w H0.
  destruct p; cbn [encode_plain] in H0;
  repeat match type of H0 with match ?x with _ => _ end = _ => destruct x end;
  try discriminate H0; injection H0 as <-; reflexivity.
Qed.
Lemma encode_sel_data : forall id2i p w, encode_plain id2i p = Some w ->
  sel is_data (wop_refs w) = map (id2i S_data) (sel is_data (visited_refs p)).
Proof.
  intros id2i p w H0.
  destruct p; cbn [encode_plain] in H0;
  repeat match type of H0 with match ?x with _ => _ end = _ => destruct x end;
  try discriminate H0; injection H0 as <-; reflexivity.
Qed.

Definition irefs (x : instr * N) : list (space * N) := instr_refs (fst x).

Section Refs.
  Variable cx : ectx.
  Variable f : space -> bool.
  Variable S0 : space.
  Hypothesis Hcodec : forall p w, encode_plain (ex_id2i cx) p = Some w ->
    sel f (wop_refs w) = map (ex_id2i cx S0) (sel f (visited_refs p)).

  Definition Pref (t : tree) : Prop := forall env k tg, flt_tree cx env t k = Ok tg ->
    ops_sel f (map snd tg) = map (ex_id2i cx S0) (sel f (flat_map irefs (instrs_in_order t))).
  Definition Qref (it : item) : Prop := forall env loc tg, flt_item cx env it loc = Ok tg ->
    ops_sel f (map snd tg) =
    map (ex_id2i cx S0) (sel f (instr_refs (shallow it) ++ flat_map irefs (item_nested it))).
  Lemma flt_items_ref items : Forall (fun x => Qref (fst x)) items ->
    forall env tg, flt_items cx env items = Ok tg ->
    ops_sel f (map snd tg) =
    map (ex_id2i cx S0) (sel f (flat_map irefs (flat_map (fun x => item_instr x :: item_nested (fst x)) items))).
  Proof.
    induction 1 as [|x l Hx _ IH]; intros env tg Hf; cbn [flt_items] in Hf.
    - inversion Hf; reflexivity.
    - apply rbind_ok in Hf as (a & Ha & Hf). apply rmap_ok in Hf as (b & Hb & ->).
      rewrite map_app, ops_sel_app, (Hx _ _ _ Ha), (IH _ _ Hb).
      cbn [flat_map]. rewrite flat_map_app. cbn [flat_map]. rewrite !sel_app, !map_app.
      unfold irefs at 3. unfold item_instr. cbn [fst]. rewrite <- app_assoc. reflexivity.
  Qed.
  Theorem flt_refs_both : (forall t, Pref t) /\ (forall it, Qref it).
  Proof.
    apply tree_item_ind.
    - intros s ty items e HQ env k tg Hf. rewrite flt_tree_T in Hf. apply rmap_ok in Hf as (b & Hb & ->).
      rewrite map_app, ops_sel_app, (flt_items_ref _ HQ _ _ Hb), instrs_T. cbn [titems].
      destruct k; cbn [map snd terminator ops_sel flat_map]; now rewrite app_nil_r.
    - intros pl env loc tg Hf. cbn [flt_item] in Hf.
      destruct (encode_plain (ex_id2i cx) pl) as [w|] eqn:E; inversion Hf; subst.
      cbn [map snd ops_sel flat_map shallow instr_refs item_nested]. rewrite !app_nil_r. apply Hcodec, E.
    - intros s env loc tg Hf. cbn [flt_item] in Hf. apply rmap_ok in Hf as (d & _ & ->). reflexivity.
    - intros s env loc tg Hf. cbn [flt_item] in Hf. apply rmap_ok in Hf as (d & _ & ->). reflexivity.
    - intros ss d env loc tg Hf. cbn [flt_item] in Hf. apply rbind_ok in Hf as (dd & _ & Hf).
      apply rmap_ok in Hf as (ds & _ & ->). reflexivity.
    - intros t Pt env loc tg Hf. rewrite flt_item_B in Hf. apply rmap_ok in Hf as (tg' & Hf & ->).
      cbn [map snd shallow instr_refs item_nested app]. rewrite ops_sel_cons. cbn [app]. now rewrite (Pt _ _ _ Hf).
    - intros t Pt env loc tg Hf. rewrite flt_item_L in Hf. apply rmap_ok in Hf as (tg' & Hf & ->).
      cbn [map snd shallow instr_refs item_nested app]. rewrite ops_sel_cons. cbn [app]. now rewrite (Pt _ _ _ Hf).
    - intros c a Pc Pa env loc tg Hf. rewrite flt_item_I in Hf. apply rbind_ok in Hf as (x & Hx & Hf).
      apply rmap_ok in Hf as (y & Hy & ->).
      cbn [map snd shallow instr_refs item_nested app]. rewrite map_app, ops_sel_cons. cbn [app].
      now rewrite ops_sel_app, (Pc _ _ _ Hx), (Pa _ _ _ Hy), flat_map_app, sel_app, map_app.
  Qed.

  (* for ANY emitted arena *)
  Theorem emitted_refs_sel : forall ar t tg p0 f1 f2 evs st,
    Den ar t -> flt_tree cx [] t KEntry = Ok tg ->
    dfs_in_order false f1 ar (tsid t) = Ok evs -> emit_body cx f2 ar (tsid t) p0 = Ok st ->
    ops_sel f (out st) = map (ex_id2i cx S0) (sel f (flat_map pR evs)).
  Proof.
    intros ar t tg p0 f1 f2 evs st HD Hf Hd He.
    pose proof (Proofs.Traversal.dfs_in_order_spec false ar t HD) as Hs.
    rewrite (dfs_det _ _ _ _ _ _ _ Hd Hs).
    destruct (emit_body_spec cx ar t tg p0 _ HD Hs Hf) as (st' & He' & Ho & _).
    rewrite (emit_body_det _ _ _ _ _ _ _ _ He He'), Ho.
    change (flat_map pR (events false t)) with
      (flat_map (fun e => match e with ERef sp id => [(sp, id)] | _ => [] end) (events false t)).
    rewrite in_order_refs. rewrite (proj1 flt_refs_both t [] KEntry tg Hf). reflexivity.
  Qed.
End Refs.

Lemma used_of_log_sel evs : WV.Model.Locals.used_of_log evs = sel is_local (flat_map pR evs).
Proof.
  unfold WV.Model.Locals.used_of_log. induction evs as [|e evs IH]; [reflexivity|].
  cbn [flat_map]. rewrite sel_app, <- IH. f_equal. destruct e as [| | | |sp id| |]; try reflexivity.
  destruct sp; reflexivity.
Qed.
Definition data_flag (evs : list ev) : bool :=
  existsb (fun e => match e with ERef S_data _ => true | _ => false end) evs.
Lemma data_flag_sel evs : data_flag evs = match sel is_data (flat_map pR evs) with [] => false | _ => true end.
Proof.
  unfold data_flag. induction evs as [|e evs IH]; [reflexivity|].
  cbn [existsb flat_map]. rewrite sel_app, IH.
  destruct e as [| | | |sp id| |]; try reflexivity. destruct sp; reflexivity.
Qed.

(* one round trip: the emitted local indices are, in order, the images of the logged local ids;
   the data flag of the log says whether the emitted stream mentions a data index *)
Theorem trip_locals : forall cx ecx ety rs l eloc p0 ar st fuel f evs,
  wfl cx 1 l -> enc_ok cx ecx ->
  parse_body cx ety rs (flat_list l ++ [(WEnd, eloc)]) = Ok ar ->
  emit_body ecx fuel ar 0 p0 = Ok st ->
  dfs_in_order false f ar 0 = Ok evs ->
  ops_sel is_local (out st) = map (ex_id2i ecx S_local) (WV.Model.Locals.used_of_log evs) /\
  data_flag evs = match ops_sel is_data (out st) with [] => false | _ => true end.
Proof.
  intros cx ecx ety rs l eloc p0 ar st fuel f evs Hw Henc Hp He Hd.
  rewrite (parse_body_arena cx ety rs l eloc Hw) in Hp. injection Hp as <-.
  pose proof (parsed_arena_den cx ety l eloc Hw) as HD.
  pose proof (flt_parsed_tree cx ecx ety l eloc Hw Henc) as Hf.
  rewrite <- (parsed_tree_tsid cx ety l eloc) in He, Hd.
  split.
  - rewrite used_of_log_sel.
    exact (emitted_refs_sel ecx is_local S_local (encode_sel_local _) _ _ _ _ _ _ _ _ HD Hf Hd He).
  - rewrite data_flag_sel.
    rewrite (emitted_refs_sel ecx is_data S_data (encode_sel_data _) _ _ _ _ _ _ _ _ HD Hf Hd He).
    destruct (sel is_data (flat_map pR evs)); reflexivity.
Qed.

(* B5: in the situation of B3 *)
Theorem body_second_trip_refs : forall cx ecx ety rs l eloc p0 ar1 st1 fuel1 cx2 ecx2 ety2 rs2,
  wfl cx 1 l -> enc_ok cx ecx ->
  parse_body cx ety rs (flat_list l ++ [(WEnd, eloc)]) = Ok ar1 ->
  emit_body ecx fuel1 ar1 0 p0 = Ok st1 ->
  let ops1 := combine (out st1) (map snd (imap st1)) in
  ex_ilen ecx2 = ex_ilen ecx ->
  Forall (op_ok2 cx2) (map fst ops1) ->
  enc_ok cx2 ecx2 ->
  Forall (ins_fixed cx2 ecx2) (map fst ops1) ->
  forall ar2, parse_body cx2 ety2 rs2 ops1 = Ok ar2 ->
  forall f1 f2 evs1 evs2,
    dfs_in_order false f1 ar1 0 = Ok evs1 -> dfs_in_order false f2 ar2 0 = Ok evs2 ->
    map (ex_id2i ecx2 S_local) (WV.Model.Locals.used_of_log evs2)
      = map (ex_id2i ecx S_local) (WV.Model.Locals.used_of_log evs1) /\
    map (ex_id2i ecx2 S_local) (WV.Model.Locals.used_of_log evs2) = ops_sel is_local (map fst ops1) /\
    data_flag evs2 = data_flag evs1.
Proof.
  intros cx ecx ety rs l eloc p0 ar1 st1 fuel1 cx2 ecx2 ety2 rs2 Hw Henc Hp He ops1 Hil HW HE HF ar2 Hp2
    f1 f2 evs1 evs2 Hd1 Hd2.
  destruct (emitted_ops_structured _ _ _ _ _ _ _ _ _ _ Hw Henc Hp He) as (eloc1 & Hops & _ & _ & _ & Hfst & _ & _).
  fold ops1 in Hops, Hfst.
  assert (HW1 : wfl cx2 1 (emitted_tree cx ecx l (map snd (imap st1)))).
  { eapply emitted_tree_wfl; try eassumption. rewrite <- Hfst. exact HW. }
  destruct (body_second_trip cx ecx ety rs l eloc p0 ar1 st1 fuel1 cx2 ecx2 ety2 rs2 Hw Henc Hp He Hil HW1 HE HF)
    as (ar2' & Hp2' & (fuel2 & st2 & He2) & Hall).
  fold ops1 in Hp2'. rewrite Hp2 in Hp2'. injection Hp2' as <-.
  destruct (Hall _ _ He2) as (_ & Ho2 & _).
  destruct (trip_locals _ _ _ _ _ _ _ _ _ _ _ _ Hw Henc Hp He Hd1) as [L1 D1].
  rewrite Hops in Hp2.
  destruct (trip_locals _ _ _ _ _ _ _ _ _ _ _ _ HW1 HE Hp2 He2 Hd2) as [L2 D2].
  rewrite Ho2 in L2, D2. rewrite Hfst.
  split; [now rewrite <- L2, <- L1|]. split; [now rewrite <- L2|]. now rewrite D1, D2.
Qed.

Print Assumptions emitted_refs_sel.
Print Assumptions trip_locals.
Print Assumptions body_second_trip_refs.

(* ================================================================== 6. packaging *)
(* the encodability premise (E) always holds: the generated encoder is total *)
Lemma enc_ok_all : forall cx ecx, enc_ok cx ecx.
Proof.
  intros cx ecx o _. generalize (dec cx o). intros p.
  destruct p; cbn [encode_plain];
    repeat match goal with |- context [match ?x with _ => _ end] => destruct x end; discriminate.
Qed.

(* the emitted stream is the flattening of a structured body that is well-formed for the second
   context and in normal form: what is needed to treat the second parse as "the parse of a body"
   (e.g. TotalityBodies.parsed_lf, parse_body_arena) *)
Theorem emitted_ops_shape : forall cx ecx ety rs l eloc p0 ar1 st1 fuel1 cx2,
  wfl cx 1 l ->
  parse_body cx ety rs (flat_list l ++ [(WEnd, eloc)]) = Ok ar1 ->
  emit_body ecx fuel1 ar1 0 p0 = Ok st1 ->
  let ops1 := combine (out st1) (map snd (imap st1)) in
  Forall (op_ok2 cx2) (map fst ops1) ->
  exists L1 eloc1, ops1 = flat_list L1 ++ [(WEnd, eloc1)] /\ wfl cx2 1 L1 /\ is_nf L1 /\
    forall ety2 rs2, parse_body cx2 ety2 rs2 ops1 = Ok (parsed_arena cx2 ety2 L1 eloc1).
Proof.
  intros cx ecx ety rs l eloc p0 ar1 st1 fuel1 cx2 Hw Hp He ops1 HW.
  pose proof (enc_ok_all cx ecx) as Henc.
  destruct (emitted_ops_structured _ _ _ _ _ _ _ _ _ _ Hw Henc Hp He) as (eloc1 & Hops & Hnf & _ & _ & Hfst & _ & _).
  fold ops1 in Hops, Hfst.
  assert (HW1 : wfl cx2 1 (emitted_tree cx ecx l (map snd (imap st1)))).
  { eapply emitted_tree_wfl; try eassumption. rewrite <- Hfst. exact HW. }
  exists (emitted_tree cx ecx l (map snd (imap st1))), eloc1.
  split; [exact Hops|]. split; [exact HW1|]. split; [exact Hnf|].
  intros ety2 rs2. rewrite Hops. apply parse_body_arena, HW1.
Qed.

(* B3 + B4 + B5 with the minimal visible premises: (W) and (F) on the emitted instructions *)
Theorem body_second_trip_all : forall cx ecx ety rs l eloc p0 ar1 st1 fuel1 cx2 ecx2 ety2 rs2,
  wfl cx 1 l ->
  parse_body cx ety rs (flat_list l ++ [(WEnd, eloc)]) = Ok ar1 ->
  emit_body ecx fuel1 ar1 0 p0 = Ok st1 ->
  let ops1 := combine (out st1) (map snd (imap st1)) in
  ex_ilen ecx2 = ex_ilen ecx ->
  Forall (op_ok2 cx2) (map fst ops1) ->
  Forall (ins_fixed cx2 ecx2) (map fst ops1) ->
  exists ar2,
    parse_body cx2 ety2 rs2 ops1 = Ok ar2 /\
    (exists fuel2 st2, emit_body ecx2 fuel2 ar2 0 p0 = Ok st2) /\
    (forall fuel2 st2, emit_body ecx2 fuel2 ar2 0 p0 = Ok st2 ->
       combine (out st2) (map snd (imap st2)) = ops1) /\
    (forall f1 f2 evs1 evs2,
       dfs_in_order false f1 ar1 0 = Ok evs1 -> dfs_in_order false f2 ar2 0 = Ok evs2 ->
       n_instr evs2 = n_instr evs1 /\
       map (ex_id2i ecx2 S_local) (WV.Model.Locals.used_of_log evs2)
         = map (ex_id2i ecx S_local) (WV.Model.Locals.used_of_log evs1) /\
       data_flag evs2 = data_flag evs1).
Proof.
  intros cx ecx ety rs l eloc p0 ar1 st1 fuel1 cx2 ecx2 ety2 rs2 Hw Hp He ops1 Hil HW HF.
  pose proof (enc_ok_all cx ecx) as Henc. pose proof (enc_ok_all cx2 ecx2) as HE.
  destruct (body_second_trip_ops cx ecx ety rs l eloc p0 ar1 st1 fuel1 cx2 ecx2 ety2 rs2 Hw Henc Hp He Hil HW HE HF)
    as (ar2 & Hp2 & Hex & Hall).
  exists ar2. split; [exact Hp2|]. split; [exact Hex|]. split.
  - intros fuel2 st2 He2. apply (Hall _ _ He2).
  - intros f1 f2 evs1 evs2 Hd1 Hd2.
    destruct (body_second_trip_size cx ecx ety rs l eloc p0 ar1 st1 fuel1 cx2 ecx2 ety2 rs2 Hw Henc Hp He Hil HW HE HF
                ar2 Hp2 f1 f2 evs1 evs2 Hd1 Hd2) as [A _].
    destruct (body_second_trip_refs cx ecx ety rs l eloc p0 ar1 st1 fuel1 cx2 ecx2 ety2 rs2 Hw Henc Hp He Hil HW HE HF
                ar2 Hp2 f1 f2 evs1 evs2 Hd1 Hd2) as (B & _ & C).
    split; [exact A|]. split; [exact B|exact C].
Qed.

Print Assumptions enc_ok_all.
Print Assumptions emitted_ops_shape.
Print Assumptions body_second_trip_all.
