(* C04 / C05: the value-type conversions of src/ty.rs (REGENERATED: Gen/ValTypes.v) are inverse to each other on the types walrus
   knows, and every other reference type is rejected at parse time.  The module-level models carry value types through unchanged;
   this is the fact that justifies it. *)
From WV Require Import Gen.Ops Gen.ValTypes.

Theorem vt_emit_parse : forall v : valty, gen_vt_parse (gen_vt_emit v) = Some v.
Proof. destruct v; reflexivity. Qed.
Theorem vt_parse_emit : forall (x : xvalty) (v : valty), gen_vt_parse x = Some v -> gen_vt_emit v = x.
Proof. destruct x; cbn; intros v H; inversion H; reflexivity. Qed.
Theorem vt_parse_injective : forall x y v, gen_vt_parse x = Some v -> gen_vt_parse y = Some v -> x = y.
Proof. intros x y v Hx Hy. rewrite <- (vt_parse_emit x v Hx). apply vt_parse_emit. exact Hy. Qed.
Theorem vt_unknown_ref_rejected : gen_vt_parse X_OtherRef = None.
Proof. reflexivity. Qed.
Theorem vt_parse_total_on_known : forall x, x <> X_OtherRef -> exists v, gen_vt_parse x = Some v.
Proof. destruct x; intro H; try (eexists; reflexivity). contradiction. Qed.
Print Assumptions vt_emit_parse.
Print Assumptions vt_parse_emit.
