(* THE MODULE-LEVEL THEOREMS CARRIED DOWN TO BYTES (C08 / C12 / C04).
   [roundtrip_bytes] = the model's reader (Model/ModBytes.v: dec_wmod, no operator positions), Module::parse (parseM), Module::emit_wasm (emitM),
   the model's writer (enc_wmod).  Theorems only. *)
From Coq Require Import List NArith ZArith Bool Lia. Import ListNotations.
From WV Require Import Gen.Ops Model.Common Model.IR Model.ParseSpec Model.Traversal Model.EmitFn Model.Leb Model.Frame Model.Bytes Model.ModuleM Model.ParseM Model.EmitM Model.Locals
                       Model.ModBytes.
From WV Require Import Proofs.CustomsCfg Proofs.IndexMaps Proofs.ParseTotal Proofs.ModFix Proofs.ModFix32 Proofs.ModFix40 Proofs.ModFix41
                       Proofs.Bytes Proofs.ModBytes.
From WV Require Proofs.ModFix8 Proofs.Structure2.
Local Open Scope nat_scope.

Definition roundtrip_bytes (cf : config) (ver : str) (ilen : wins -> N) (bs : list N) : option (list N) :=
  match dec_wmod false bs with
  | Some w => match parseM cf ver w with
              | POk s => match emitM (ps_m s) ilen [] with
                         | Ok e => enc_wmod (em_secs e)
                         | _ => None end
              | _ => None end
  | None => None
  end.

Lemma roundtrip_bytes_inv cf ver ilen bs b1 : roundtrip_bytes cf ver ilen bs = Some b1 ->
  exists w s e, dec_wmod false bs = Some w /\ parseM cf ver w = POk s /\ emitM (ps_m s) ilen [] = Ok e /\ enc_wmod (em_secs e) = Some b1.
Proof.
  unfold roundtrip_bytes. destruct (dec_wmod false bs) as [w|]; [|discriminate].
  destruct (parseM cf ver w) as [s| |] eqn:P; try discriminate.
  destruct (emitM (ps_m s) ilen []) as [e| |] eqn:E; try discriminate.
  intros H. exists w, s, e. repeat split; assumption.
Qed.
Lemma roundtrip_bytes_intro cf ver ilen bs b1 w s e : dec_wmod false bs = Some w -> parseM cf ver w = POk s -> emitM (ps_m s) ilen [] = Ok e ->
  enc_wmod (em_secs e) = Some b1 -> roundtrip_bytes cf ver ilen bs = Some b1.
Proof. intros D P E B. unfold roundtrip_bytes. rewrite D, P, E. exact B. Qed.

(* ------------------------------------------------------------------ 3. (C04) only the decoded stream matters: padded LEB128 numbers, non-minimal
   section sizes, the flag form of a segment ... of the INPUT cannot reach the output *)
Theorem bytes_determine_behaviour_inputs cf ver ilen b b' :
  dec_wmod false b = dec_wmod false b' -> roundtrip_bytes cf ver ilen b = roundtrip_bytes cf ver ilen b'.
Proof. intros H. unfold roundtrip_bytes. rewrite H. reflexivity. Qed.

(* ------------------------------------------------------------------ the writer does not look at operator positions *)
Lemma body_of_zero b : body_of (zero_body b) = body_of b.
Proof. unfold body_of, zero_body. cbn [wb_locals wb_ops]. rewrite map_map. reflexivity. Qed.
Lemma enc_sec_zero s : enc_sec (zero_sec s) = enc_sec s.
Proof.
  destruct s; try reflexivity. cbn [zero_sec enc_sec]. unfold enc_code_sec. rewrite map_map.
  rewrite (map_ext _ _ body_of_zero). reflexivity.
Qed.
Lemma enc_secs_zero w : enc_secs (zero_wmod w) = enc_secs w.
Proof. induction w as [|s w IH]; [reflexivity|]. cbn [zero_wmod map enc_secs]. rewrite enc_sec_zero. fold (zero_wmod w). rewrite IH. reflexivity. Qed.
Lemma enc_wmod_zero w : enc_wmod (zero_wmod w) = enc_wmod w.
Proof. unfold enc_wmod. rewrite enc_secs_zero. reflexivity. Qed.
Lemma zero_wmod_idem w : zero_wmod (zero_wmod w) = zero_wmod w.
Proof.
  unfold zero_wmod. rewrite map_map. apply map_ext. intros s. destruct s; try reflexivity. cbn [zero_sec]. rewrite map_map. f_equal.
  apply map_ext. intros b. unfold zero_body. cbn [wb_locals wb_ops]. rewrite map_map. reflexivity.
Qed.
Lemma zero_wmod_app a b : zero_wmod (a ++ b) = zero_wmod a ++ zero_wmod b.
Proof. apply map_app. Qed.

(* ------------------------------------------------------------------ the encoder's instruction lengths [ilen] reach the emitted stream only through
   the operator positions; with [il0] (every length 0) all positions are 0 *)
Definition res_rel {A B} (R : A -> B -> Prop) (x : res A) (y : res B) : Prop :=
  match x, y with Ok a, Ok b => R a b | Panic, Panic => True | OutOfFuel, OutOfFuel => True | _, _ => False end.
Lemma res_rel_bind {A B A' B'} (R : A -> B -> Prop) (S : A' -> B' -> Prop) x y f g :
  res_rel R x y -> (forall a b, R a b -> res_rel S (f a) (g b)) -> res_rel S (rbind x f) (rbind y g).
Proof. destruct x, y; cbn [res_rel rbind]; try contradiction; auto. Qed.
Lemma res_rel_eq {A} (x : res A) : res_rel eq x x.
Proof. destruct x; cbn; auto. Qed.
Lemma res_rel_rmapM {A B C} (R : B -> C -> Prop) (f : A -> res B) (g : A -> res C) :
  (forall a, res_rel R (f a) (g a)) -> forall l, res_rel (Forall2 R) (rmapM f l) (rmapM g l).
Proof.
  intros H. induction l as [|a l IH]; cbn [rmapM]; [constructor|].
  apply (res_rel_bind R); [apply H|]. intros y y' Hy. apply (res_rel_bind (Forall2 R)); [exact IH|]. intros ys ys' Hys. cbn. constructor; assumption.
Qed.
Lemma rmapM_ext {A B} (f g : A -> res B) l : (forall a, f a = g a) -> rmapM f l = rmapM g l.
Proof. intros H. induction l as [|a l IH]; [reflexivity|]. cbn [rmapM]. rewrite H, IH. reflexivity. Qed.

Definition il0 : wins -> N := fun _ => 0%N.
Definition est_rel (a b : estate) : Prop :=
  blocks a = blocks b /\ kinds a = kinds b /\ out a = out b /\ map fst (imap a) = map fst (imap b) /\
  epos b = 0%N /\ Forall (fun p => snd p = 0%N) (imap b).
Lemma rel_emit_ins f il a b w : est_rel a b ->
  est_rel (emit_ins {| ex_id2i := f; ex_ilen := il |} a w) (emit_ins {| ex_id2i := f; ex_ilen := il0 |} b w).
Proof.
  intros (H1 & H2 & H3 & H4 & H5 & H6). unfold est_rel, emit_ins. cbn [blocks kinds out imap epos ex_ilen].
  rewrite H3, H5. repeat split; assumption.
Qed.
Lemma rel_record a b loc : est_rel a b -> est_rel (record a loc) (record b loc).
Proof.
  intros (H1 & H2 & H3 & H4 & H5 & H6). unfold est_rel, record. cbn [blocks kinds out imap epos].
  rewrite !map_app, H4. repeat split; try assumption. apply Forall_app. split; [exact H6|]. constructor; [exact H5|constructor].
Qed.
Lemma rel_with_stacks a b bl k : est_rel a b -> est_rel (with_stacks a bl k) (with_stacks b bl k).
Proof. intros (H1 & H2 & H3 & H4 & H5 & H6). unfold est_rel, with_stacks. cbn [blocks kinds out imap epos]. repeat split; assumption. Qed.
Lemma rel_branch_target a b s : est_rel a b -> branch_target a s = branch_target b s.
Proof. intros (H1 & _). unfold branch_target. rewrite H1. reflexivity. Qed.
Lemma rel_branch_targets a b ss : est_rel a b -> branch_targets a ss = branch_targets b ss.
Proof. intros H. induction ss as [|s ss IH]; [reflexivity|]. cbn [branch_targets]. rewrite (rel_branch_target a b s H), IH. reflexivity. Qed.

Lemma emit_step_rel f il ar a b e : est_rel a b ->
  res_rel est_rel (emit_step {| ex_id2i := f; ex_ilen := il |} ar a e) (emit_step {| ex_id2i := f; ex_ilen := il0 |} ar b e).
Proof.
  intros H. pose proof H as (Hb & Hk & _).
  destruct e as [s|ty|i loc|i|sp id|s|s]; cbn [emit_step]; try exact H.
  - rewrite Hb, Hk. destruct (nth_error ar (N.to_nat s)) as [q|]; [|exact I]. destruct (kinds b) as [|k kr] eqn:Ek; [exact I|].
    pose proof (rel_with_stacks a b (s :: blocks b) (k :: kr) H) as H1.
    unfold block_type. cbn [ex_id2i].
    destruct k; cbn [res_rel]; try exact H1; apply rel_emit_ins; exact H1.
  - pose proof (rel_record a b loc H) as H1. pose proof H1 as (Hb1 & Hk1 & _).
    destruct i as [p|s|s|c t|s|s|ss d].
    + cbn [ex_id2i]. destruct (encode_plain f p) as [w|]; [|exact I]. cbn [res_rel]. apply rel_emit_ins. exact H1.
    + rewrite Hb1, Hk1. cbn [res_rel]. apply rel_with_stacks. exact H1.
    + rewrite Hb1, Hk1. cbn [res_rel]. apply rel_with_stacks. exact H1.
    + rewrite Hb1, Hk1. cbn [res_rel]. apply rel_with_stacks. exact H1.
    + rewrite (rel_branch_target _ _ s H1). destruct (branch_target (record b loc) s); cbn [rmap res_rel]; try exact I. apply rel_emit_ins. exact H1.
    + rewrite (rel_branch_target _ _ s H1). destruct (branch_target (record b loc) s); cbn [rmap res_rel]; try exact I. apply rel_emit_ins. exact H1.
    + rewrite (rel_branch_target _ _ d H1), (rel_branch_targets _ _ ss H1).
      destruct (branch_target (record b loc) d); cbn [rbind res_rel]; try exact I.
      destruct (branch_targets (record b loc) ss); cbn [rmap res_rel]; try exact I. apply rel_emit_ins. exact H1.
  - rewrite Hb, Hk. destruct (nth_error ar (N.to_nat s)) as [q|]; [|exact I]. destruct (blocks b) as [|b0 brest]; [exact I|].
    destruct (kinds b) as [|k krest]; [exact I|].
    pose proof (rel_record _ _ (sq_end q) (rel_with_stacks a b brest krest H)) as H1.
    destruct k; cbn [res_rel]; apply rel_emit_ins; try exact H1. apply rel_with_stacks. exact H1.
Qed.
Lemma emit_events_rel f il ar evs : forall a b, est_rel a b ->
  res_rel est_rel (emit_events {| ex_id2i := f; ex_ilen := il |} ar a evs) (emit_events {| ex_id2i := f; ex_ilen := il0 |} ar b evs).
Proof.
  induction evs as [|e evs IH]; intros a b H; cbn [emit_events]; [exact H|].
  apply (res_rel_bind est_rel); [apply emit_step_rel; exact H|]. exact IH.
Qed.
Lemma init_rel : est_rel (init_estate 0) (init_estate 0).
Proof. unfold est_rel, init_estate. cbn. repeat split. constructor. Qed.
Lemma emit_body_rel f il fuel ar entry :
  res_rel est_rel (emit_body {| ex_id2i := f; ex_ilen := il |} fuel ar entry 0) (emit_body {| ex_id2i := f; ex_ilen := il0 |} fuel ar entry 0).
Proof.
  unfold emit_body. apply (res_rel_bind eq); [apply res_rel_eq|]. intros evs ? <-. apply emit_events_rel. exact init_rel.
Qed.

Lemma combine_zero {A} : forall (o : list A) (pa pb : list N), length pa = length pb -> Forall (fun p => p = 0%N) pb ->
  combine o pb = map (fun p => (fst p, 0%N)) (combine o pa).
Proof.
  induction o as [|x o IH]; intros pa pb L Z; [reflexivity|]. destruct pa as [|p pa], pb as [|q pb]; try discriminate L; [reflexivity|].
  cbn [combine map fst]. inversion Z; subst. f_equal. apply IH; [injection L; auto|assumption].
Qed.

Definition ef_rel (a b : emitted_fn) : Prop :=
  ef_id b = ef_id a /\ ef_used b = ef_used a /\ ef_lmap b = ef_lmap a /\ ef_body b = zero_body (ef_body a).
Lemma emit_function_rel m x il id lf : res_rel ef_rel (emit_function m x il id lf) (emit_function m x il0 id lf).
Proof.
  unfold emit_function. apply (res_rel_bind eq); [apply res_rel_eq|]. intros evs ? <-.
  destruct (emit_locals (local_ty_fn m) (lf_args lf) (used_of_log evs)) as [decls lmap].
  destruct (negb (refs_ok x lmap evs)); [exact I|].
  apply (res_rel_bind est_rel); [apply emit_body_rel|]. intros a b (H1 & H2 & H3 & H4 & H5 & H6).
  cbn [res_rel]. unfold ef_rel. cbn [ef_id ef_used ef_lmap ef_body]. repeat split.
  unfold zero_body. cbn [wb_locals wb_ops]. f_equal. rewrite H3. apply combine_zero.
  - rewrite !map_length. rewrite <- (map_length fst (imap a)), H4, map_length. reflexivity.
  - apply Forall_map. exact H6.
Qed.

Definition code_rel (a b : list wsec * x2i * list emitted_fn) : Prop :=
  fst (fst b) = zero_wmod (fst (fst a)) /\ snd (fst b) = snd (fst a) /\ Forall2 ef_rel (snd a) (snd b).
Lemma emit_code_rel m x il : res_rel code_rel (emit_code m x il) (emit_code m x il0).
Proof.
  unfold emit_code. apply (res_rel_bind eq); [apply res_rel_eq|]. intros fs ? <-.
  destruct fs as [|p fs]; [cbn; repeat split; constructor|].
  apply (res_rel_bind (Forall2 ef_rel)); [apply res_rel_rmapM; intros a; apply emit_function_rel|].
  intros efs efs0 H. cbn [res_rel]. unfold code_rel. cbn [fst snd]. split; [|split; [|exact H]].
  - cbn [zero_wmod map zero_sec]. do 2 f_equal. induction H as [|a b l l' (_ & _ & _ & Hb) _ IH]; [reflexivity|]. cbn [map]. rewrite Hb, IH. reflexivity.
  - f_equal. induction H as [|a b l l' (Hi & _ & Hl & _) _ IH]; [reflexivity|]. cbn [map]. rewrite Hi, Hl, IH. reflexivity.
Qed.

(* the name section looks at the emitted functions only through their id, used locals and local map *)
Lemma find_ef_rel efs efs0 k : Forall2 ef_rel efs efs0 ->
  match find (fun e => N.eqb (ef_id e) k) efs, find (fun e => N.eqb (ef_id e) k) efs0 with
  | Some a, Some b => ef_rel a b | None, None => True | _, _ => False end.
Proof.
  induction 1 as [|a b l l' Hab _ IH]; [exact I|]. cbn [find]. pose proof Hab as (Hi & _). rewrite Hi.
  destruct (N.eqb (ef_id a) k); [exact Hab|exact IH].
Qed.
Lemma emit_names_rel m x efs efs0 : Forall2 ef_rel efs efs0 -> emit_names m x efs = emit_names m x efs0.
Proof.
  intros H. unfold emit_names. destruct (named x S_func fn_name (aiter (m_funcs m))) as [funcs| |]; cbn [rbind]; try reflexivity.
  match goal with |- rbind (rmapM ?F ?l) _ = rbind (rmapM ?G _) _ => rewrite (rmapM_ext F G l); [reflexivity|] end.
  intros p. pose proof (find_ef_rel efs efs0 (fst p) H) as R.
  destruct (find (fun e => N.eqb (ef_id e) (fst p)) efs) as [a|], (find (fun e => N.eqb (ef_id e) (fst p)) efs0) as [b|]; try contradiction; [|reflexivity].
  destruct R as (_ & Hu & Hl & _). rewrite Hu, Hl. reflexivity.
Qed.

Definition front_rel (a b : list wsec * x2i * list emitted_fn) : Prop :=
  zero_wmod (fst (fst b)) = zero_wmod (fst (fst a)) /\ snd (fst b) = snd (fst a) /\ Forall2 ef_rel (snd a) (snd b).
Lemma emit_front_rel m il : res_rel front_rel (emit_front m il) (emit_front m il0).
Proof.
  unfold emit_front.
  destruct (emit_types m empty_x2i) as [s_ty x0].
  destruct (emit_imports m x0) as [[s_im x1]| |]; cbn [rbind]; try exact I.
  destruct (emit_func_section m x1) as [[s_fn x2]| |]; cbn [rbind]; try exact I.
  destruct (emit_tables m x2) as [s_tb x3]. destruct (emit_memories m x3) as [s_me x4].
  destruct (emit_globals m x4) as [[s_gl x5]| |]; cbn [rbind]; try exact I.
  destruct (emit_exports m x5) as [s_ex| |]; cbn [rbind]; try exact I.
  match goal with |- res_rel _ (rbind ?A _) _ => destruct A as [s_st| |]; cbn [rbind]; try exact I end.
  destruct (emit_elements m x5) as [[s_el x6]| |]; cbn [rbind]; try exact I.
  destruct (emit_data_count m x6) as [[s_dc x7]| |]; cbn [rbind]; try exact I.
  apply (res_rel_bind code_rel); [apply emit_code_rel|].
  intros [[s_co x8] efs] [[s_co0 x80] efs0] (Hs & Hx & Hf). cbn [fst snd] in Hs, Hx, Hf. subst x80 s_co0.
  destruct (emit_data m x8) as [s_da| |]; cbn [rbind res_rel]; try exact I.
  unfold front_rel. cbn [fst snd]. split; [|split; [reflexivity|exact Hf]].
  rewrite !zero_wmod_app, zero_wmod_idem. reflexivity.
Qed.
Definition em_rel (e e0 : emitted) : Prop := zero_wmod (em_secs e0) = zero_wmod (em_secs e).
Lemma emitM_rel m il : res_rel em_rel (emitM m il []) (emitM m il0 []).
Proof.
  rewrite !emitM_factor. apply (res_rel_bind front_rel); [apply emit_front_rel|].
  intros [[front x] efs] [[front0 x0] efs0] (Hs & Hx & Hf). cbn [fst snd] in Hs, Hx, Hf. subst x0.
  unfold emit_tail, sec_names. rewrite (emit_names_rel _ x efs efs0 Hf).
  destruct (if cf_skip_name (m_config m) then Ok [] else emit_names (set_customs_take m) x efs0) as [s_nm| |]; cbn [rbind res_rel]; try exact I.
  unfold em_rel. cbn [em_secs]. rewrite !zero_wmod_app, Hs. reflexivity.
Qed.

(* with [il0] nothing but zero positions is emitted *)
Lemma emit_code_il0_zero m x s x' efs : emit_code m x il0 = Ok (s, x', efs) -> zero_wmod s = s.
Proof.
  intros H. pose proof (emit_code_rel m x il0) as R. rewrite H in R. cbn [res_rel] in R. destruct R as (R & _). cbn [fst] in R. symmetry. exact R.
Qed.
Lemma emitM_il0_zero m e0 : emitM m il0 [] = Ok e0 -> zero_wmod (em_secs e0) = em_secs e0.
Proof.
  intros H. destruct (Structure2.emitM_inv2 _ _ _ _ H) as
    (s_ty & x1 & s_im & x2 & s_fn & x3 & x4 & x5 & s_gl & x6 & s_ex & s_st & s_el & x9 & s_dc & x10 & s_co & efs & s_da & rest &
     _ & _ & _ & _ & _ & _ & _ & _ & _ & _ & Ec & _ & _ & _ & Hin).
  pose proof (emit_code_il0_zero _ _ _ _ _ Ec) as Zc.
  unfold zero_wmod. rewrite <- (map_id (em_secs e0)) at 2. apply map_ext_in. intros s Hs.
  destruct s; try reflexivity.
  destruct (Hin _ 10 Hs eq_refl) as [[]|Hc]. cbn [nth] in Hc.
  unfold zero_wmod in Zc. rewrite <- Zc in Hc. apply in_map_iff in Hc. destruct Hc as (s' & <- & _).
  destruct s'; try reflexivity. cbn [zero_sec]. f_equal. rewrite map_map. apply map_ext. intros b.
  unfold zero_body. cbn [wb_locals wb_ops]. rewrite map_map. reflexivity.
Qed.

(* both directions of [emitM_rel] *)
Lemma emitM_to_il0 m il e : emitM m il [] = Ok e -> exists e0, emitM m il0 [] = Ok e0 /\ em_secs e0 = zero_wmod (em_secs e).
Proof.
  intros H. pose proof (emitM_rel m il) as R. rewrite H in R. destruct (emitM m il0 []) as [e0| |] eqn:E0; try contradiction.
  exists e0. split; [reflexivity|]. rewrite <- (emitM_il0_zero _ _ E0). exact R.
Qed.
Lemma emitM_from_il0 m il e0 : emitM m il0 [] = Ok e0 -> exists e, emitM m il [] = Ok e /\ em_secs e0 = zero_wmod (em_secs e).
Proof.
  intros H. pose proof (emitM_rel m il) as R. rewrite H in R. destruct (emitM m il []) as [e| |] eqn:E; try contradiction.
  exists e. split; [reflexivity|]. rewrite <- (emitM_il0_zero _ _ H). exact R.
Qed.
(* the emitted stream up to positions does not depend on the instruction lengths *)
Theorem emitM_ilen_only_positions m il il' e : emitM m il [] = Ok e ->
  exists e', emitM m il' [] = Ok e' /\ zero_wmod (em_secs e') = zero_wmod (em_secs e).
Proof.
  intros H. destruct (emitM_to_il0 _ _ _ H) as (e0 & E0 & Z0). destruct (emitM_from_il0 _ il' _ E0) as (e' & E' & Z').
  exists e'. split; [exact E'|]. rewrite <- Z', Z0. reflexivity.
Qed.

(* ------------------------------------------------------------------ 1. (C08) walrus's output is a fixpoint of the round trip AT BYTE LEVEL, for every
   configuration and every instruction-length function.  Premises: the validator's guarantees on the decoded input stream ([valid_stream],
   [locals_in_range] - exactly those of c08_module_fixpoint_total_all_configs) and [wf_wmod] of the ONE emitted stream (LEB ranges, UTF-8 names,
   canonical element segments: what makes the writer's bytes readable).  Operator positions: the reader gives none (all 0), the emitter computes
   them from [ilen]; they are bridged by [emitM_rel] through the position-free run [il0]. *)
Theorem bytes_fixpoint cf ver ilen bs b1 w :
  dec_wmod false bs = Some w -> valid_stream w -> locals_in_range w ->
  (forall s e, parseM cf ver w = POk s -> emitM (ps_m s) ilen [] = Ok e -> wf_wmod (em_secs e) = true) ->
  roundtrip_bytes cf ver ilen bs = Some b1 ->
  roundtrip_bytes cf ver ilen b1 = Some b1.
Proof.
  intros D V L WF H. destruct (roundtrip_bytes_inv _ _ _ _ _ H) as (w' & s1 & e1 & D' & P1 & E1 & B).
  rewrite D in D'. apply Some_inj in D'. subst w'. specialize (WF _ _ P1 E1).
  destruct (emitM_to_il0 _ _ _ E1) as (e10 & E10 & Z10).
  destruct (module_fixpoint_total_all_configs cf ver w s1 il0 e10 V L P1 E10) as (_ & s2 & e20 & P2 & E20 & F).
  destruct (emitM_from_il0 _ ilen _ E20) as (e2 & E2 & Z2).
  apply (roundtrip_bytes_intro cf ver ilen b1 b1 (em_secs e10) s2 e2).
  - rewrite Z10. exact (dec_enc_wmod_zero _ _ B WF).
  - exact P2.
  - exact E2.
  - rewrite <- enc_wmod_zero, <- Z2, F, Z10, enc_wmod_zero. exact B.
Qed.
(* the same with the stream-level facts spelled out: the second trip exists, and its stream is the first one's up to positions *)
Theorem bytes_fixpoint_streams cf ver ilen bs b1 w s1 e1 :
  dec_wmod false bs = Some w -> valid_stream w -> locals_in_range w ->
  parseM cf ver w = POk s1 -> emitM (ps_m s1) ilen [] = Ok e1 -> wf_wmod (em_secs e1) = true -> enc_wmod (em_secs e1) = Some b1 ->
  exists s2 e2, dec_wmod false b1 = Some (zero_wmod (em_secs e1)) /\ parseM cf ver (zero_wmod (em_secs e1)) = POk s2 /\
                emitM (ps_m s2) ilen [] = Ok e2 /\ zero_wmod (em_secs e2) = zero_wmod (em_secs e1) /\ enc_wmod (em_secs e2) = Some b1.
Proof.
  intros D V L P1 E1 WF B.
  destruct (emitM_to_il0 _ _ _ E1) as (e10 & E10 & Z10).
  destruct (module_fixpoint_total_all_configs cf ver w s1 il0 e10 V L P1 E10) as (_ & s2 & e20 & P2 & E20 & F).
  destruct (emitM_from_il0 _ ilen _ E20) as (e2 & E2 & Z2).
  exists s2, e2. rewrite Z10 in P2. repeat split; try assumption.
  - exact (dec_enc_wmod_zero _ _ B WF).
  - rewrite <- Z2, F, Z10. reflexivity.
  - rewrite <- enc_wmod_zero, <- Z2, F, Z10, enc_wmod_zero. exact B.
Qed.

(* without [locals_in_range], for the configurations of c08_module_fixpoint (names skipped, or not synthesised) *)
Theorem bytes_fixpoint_plain_names cf ver ilen bs b1 w :
  dec_wmod false bs = Some w -> valid_stream w -> cf_skip_name cf = true \/ cf_synthetic_names cf = false ->
  (forall s e, parseM cf ver w = POk s -> emitM (ps_m s) ilen [] = Ok e -> wf_wmod (em_secs e) = true) ->
  roundtrip_bytes cf ver ilen bs = Some b1 ->
  roundtrip_bytes cf ver ilen b1 = Some b1.
Proof.
  intros D V C WF H. destruct (roundtrip_bytes_inv _ _ _ _ _ H) as (w' & s1 & e1 & D' & P1 & E1 & B).
  rewrite D in D'. apply Some_inj in D'. subst w'. specialize (WF _ _ P1 E1).
  destruct (emitM_to_il0 _ _ _ E1) as (e10 & E10 & Z10).
  destruct (module_fixpoint_total cf ver w s1 il0 e10 V P1 E10) as (_ & s2 & e20 & P2 & E20 & F). specialize (F C).
  destruct (emitM_from_il0 _ ilen _ E20) as (e2 & E2 & Z2).
  apply (roundtrip_bytes_intro cf ver ilen b1 b1 (em_secs e10) s2 e2).
  - rewrite Z10. exact (dec_enc_wmod_zero _ _ B WF).
  - exact P2.
  - exact E2.
  - rewrite <- enc_wmod_zero, <- Z2, F, Z10, enc_wmod_zero. exact B.
Qed.
(* hence any number of byte-level round trips gives the bytes of the first *)
Fixpoint roundtrips_bytes (cf : config) (ver : str) (ilen : wins -> N) (n : nat) (bs : list N) : option (list N) :=
  match n with
  | O => Some bs
  | S k => match roundtrip_bytes cf ver ilen bs with Some b => roundtrips_bytes cf ver ilen k b | None => None end
  end.
Lemma roundtrips_of_fixpoint cf ver ilen b1 : roundtrip_bytes cf ver ilen b1 = Some b1 -> forall n, roundtrips_bytes cf ver ilen n b1 = Some b1.
Proof. intros F. induction n as [|n IH]; [reflexivity|]. cbn [roundtrips_bytes]. rewrite F. exact IH. Qed.
Theorem bytes_round_trip_idempotent cf ver ilen bs b1 w :
  dec_wmod false bs = Some w -> valid_stream w -> locals_in_range w ->
  (forall s e, parseM cf ver w = POk s -> emitM (ps_m s) ilen [] = Ok e -> wf_wmod (em_secs e) = true) ->
  roundtrip_bytes cf ver ilen bs = Some b1 ->
  forall n, n >= 1 -> roundtrips_bytes cf ver ilen n bs = Some b1.
Proof.
  intros D V L WF H n Hn. destruct n as [|n]; [lia|]. cbn [roundtrips_bytes]. rewrite H.
  apply roundtrips_of_fixpoint. exact (bytes_fixpoint _ _ _ _ _ _ D V L WF H).
Qed.

(* ------------------------------------------------------------------ 2. (C12) raw custom sections at byte level *)
(* the reader never classifies a ".debug*" section as raw: on decoded streams the filter of c12_roundtrip is the identity *)
Ltac lit a := destruct a as [|a]; [reflexivity|]; repeat (destruct a as [a|a|]; try reflexivity).
Lemma starts_with_debug_eq n : starts_with debug_prefix n = starts_with_debug n.
Proof.
  unfold debug_prefix.
  destruct n as [|a n]; [reflexivity|]. lit a.
  destruct n as [|a n]; [reflexivity|]. lit a.
  destruct n as [|a n]; [reflexivity|]. lit a.
  destruct n as [|a n]; [reflexivity|]. lit a.
  destruct n as [|a n]; [reflexivity|]. lit a.
  destruct n as [|a n]; [reflexivity|]. lit a.
Qed.
Definition raw_not_debug (s : wsec) : Prop := match s with S_Custom (CS_Raw n _) => starts_with_debug n = false | _ => True end.
Lemma dec_custom_not_debug p c : dec_custom p = Some c -> raw_not_debug (S_Custom c).
Proof.
  unfold dec_custom. destruct (dec_name p) as [[n d]|]; [|discriminate]. intros H. apply Some_inj in H. subst c.
  destruct (str_eqb n name_str); [exact I|]. destruct (str_eqb n producers_str); [exact I|].
  destruct (starts_with debug_prefix n) eqn:E; [exact I|]. cbn [raw_not_debug]. rewrite <- starts_with_debug_eq. exact E.
Qed.
Lemma dec_sec_not_debug wp pos id p s : dec_sec wp pos id p = Some s -> raw_not_debug s.
Proof.
  unfold dec_sec. destruct (N.eqb id 0).
  - destruct (dec_custom p) as [c|] eqn:E; [|discriminate]. intros H. apply Some_inj in H. subst s. exact (dec_custom_not_debug _ _ E).
  - repeat match goal with
           | |- (if ?b then _ else _) = _ -> _ => destruct b
           | |- match ?x with Some _ => _ | None => None end = _ -> _ => destruct x; [|discriminate]
           end; intros H; try discriminate; apply Some_inj in H; subst s; exact I.
Qed.
Lemma dec_secs_not_debug wp : forall l w, dec_secs wp l = Some w -> Forall raw_not_debug w.
Proof.
  induction l as [|[pos [id p]] l IH]; intros w H; cbn [dec_secs] in H.
  - apply Some_inj in H. subst. constructor.
  - destruct (dec_sec wp pos id p) as [s|] eqn:E; [|discriminate]. destruct (dec_secs wp l) as [w'|]; [|discriminate].
    apply Some_inj in H. subst w. constructor; [exact (dec_sec_not_debug _ _ _ _ _ E)|apply IH; reflexivity].
Qed.
Lemma dec_wmod_not_debug wp bs w : dec_wmod wp bs = Some w -> Forall raw_not_debug w.
Proof. unfold dec_wmod. destruct (unframe_module_at bs); [|discriminate]. apply dec_secs_not_debug. Qed.
Lemma filter_not_debug w : Forall raw_not_debug w -> filter (fun c => negb (starts_with_debug (fst c))) (raw_customs w) = raw_customs w.
Proof.
  induction 1 as [|s w Hs _ IH]; [reflexivity|]. rewrite raw_customs_cons, filter_app, IH. f_equal.
  destruct s as [| | | | | | | | | | | |c]; try reflexivity. destruct c; try reflexivity. cbn [raw_customs flat_map app filter fst].
  cbn [raw_not_debug] in Hs. rewrite Hs. reflexivity.
Qed.

(* where emitM puts them: after everything else, in the order of the arena *)
Definition raw_sec (c : str * list N) : wsec := S_Custom (CS_Raw (fst c) (snd c)).
Lemma sec_customs_are_raw cs : sec_customs cs = map raw_sec (raw_customs (sec_customs cs)).
Proof.
  induction cs as [|[c|] cs IH]; [reflexivity| |exact IH]. unfold sec_customs in *. cbn [flat_map].
  destruct (starts_with_debug (cu_name c)); [exact IH|]. cbn [app]. rewrite raw_customs_cons. cbn [raw_customs flat_map app map]. f_equal. exact IH.
Qed.
Theorem emitted_stream_ends_with_raw_customs cf ver w s ilen e : parseM cf ver w = POk s -> emitM (ps_m s) ilen [] = Ok e ->
  Forall raw_not_debug w ->
  exists own, em_secs e = own ++ map raw_sec (raw_customs w) /\
              Forall (fun s => match s with S_Custom (CS_Raw _ _) | S_Custom (CS_Debug _ _) => False | _ => True end) own.
Proof.
  intros P E ND. pose proof (CustomsCfg.c12_roundtrip _ _ _ _ _ _ _ P E eq_refl) as C. rewrite (filter_not_debug _ ND) in C.
  destruct (ModFix8.emitM_shape _ _ _ E) as (front & x & efs & nm & Pf & En & Es).
  exists (front ++ nm ++ sec_producers (m_config (ps_m s)) (m_producers (ps_m s))). split.
  - rewrite Es in C. rewrite !raw_customs_app, (plain_raw _ Pf), (sec_names_raw _ _ _ _ _ En), sec_producers_raw in C. cbn [app] in C.
    rewrite Es, sec_customs_are_raw, C, <- !app_assoc. reflexivity.
  - apply Forall_app. split; [|apply Forall_app; split].
    + unfold plain_secs in Pf. eapply Forall_impl; [|exact Pf]. intros a Ha. destruct a; try exact I. discriminate Ha.
    + unfold sec_names in En. destruct (cf_skip_name _); [injection En as <-; constructor|].
      destruct (emit_names_shape _ _ _ _ En) as [->|[n ->]]; repeat constructor.
    + unfold sec_producers. destruct (cf_skip_producers _); [constructor|]. destruct (m_producers (ps_m s)); repeat constructor.
Qed.

(* the writer on a concatenation, and on raw custom sections *)
Lemma enc_secs_app : forall a b l, enc_secs (a ++ b) = Some l -> exists la lb, enc_secs a = Some la /\ enc_secs b = Some lb /\ l = la ++ lb.
Proof.
  induction a as [|s a IH]; intros b l H; cbn [app enc_secs] in *.
  - exists [], l. repeat split. exact H.
  - destruct (enc_sec s) as [x|]; [|discriminate]. destruct (enc_secs (a ++ b)) as [l'|] eqn:E; [|discriminate]. apply Some_inj in H. subst l.
    destruct (IH _ _ E) as (la & lb & -> & -> & ->). exists (x :: la), lb. repeat split.
Qed.
Definition raw_frame (c : str * list N) : N * list N := (0%N, custom_payload (fst c) (snd c)).
Lemma enc_secs_raw l : enc_secs (map raw_sec l) = Some (map raw_frame l).
Proof. induction l as [|c l IH]; [reflexivity|]. cbn [map enc_secs]. rewrite IH. reflexivity. Qed.
(* one of walrus's own sections as bytes: a non-custom id, or the name / producers section *)
Definition own_frame (p : N * list N) : Prop :=
  fst p <> 0%N \/ exists b, snd p = custom_payload name_str b \/ snd p = custom_payload producers_str b.
Lemma enc_secs_own : forall own l, enc_secs own = Some l ->
  Forall (fun s => match s with S_Custom (CS_Raw _ _) | S_Custom (CS_Debug _ _) => False | _ => True end) own -> Forall own_frame l.
Proof.
  induction own as [|s own IH]; intros l H F; cbn [enc_secs] in H.
  - apply Some_inj in H. subst. constructor.
  - destruct (enc_sec s) as [x|] eqn:Ex; [|discriminate]. destruct (enc_secs own) as [l'|]; [|discriminate]. apply Some_inj in H. subst l.
    inversion F as [|? ? Fs Fo]; subst. constructor; [|apply IH; [reflexivity|exact Fo]].
    unfold own_frame. destruct s as [| | | | | | | | | | | |c]; cbn [enc_sec] in Ex.
    1-12: try (match type of Ex with match ?e with Some _ => _ | None => None end = _ => destruct e; cbv beta iota in Ex; [|discriminate Ex] end);
          apply Some_inj in Ex; subst x; left; cbn [fst]; intros Q; discriminate Q.
    right. destruct c as [n d|n d|[nm|]|[pr|]]; try contradiction; cbn [enc_custom] in Ex; try discriminate.
    + destruct (enc_names nm) as [b|]; cbv beta iota in Ex; [|discriminate]. apply Some_inj in Ex. subst x. exists b. left. reflexivity.
    + destruct (enc_producers pr) as [b|]; cbv beta iota in Ex; [|discriminate]. apply Some_inj in Ex. subst x. exists b. right. reflexivity.
Qed.

(* the output bytes = magic, version, walrus's own sections, then EVERY raw custom section of the input - name length, name and data byte for byte,
   framed with its minimal LEB128 size - each exactly once, in the input order, wherever they stood in the input *)
Theorem raw_customs_bytes_preserved cf ver ilen bs b1 w :
  dec_wmod false bs = Some w -> roundtrip_bytes cf ver ilen bs = Some b1 ->
  exists own : list (N * list N),
    b1 = magic_version ++ flat_map frame_section (own ++ map raw_frame (raw_customs w)) /\ Forall own_frame own.
Proof.
  intros D H. destruct (roundtrip_bytes_inv _ _ _ _ _ H) as (w' & s1 & e1 & D' & P1 & E1 & B).
  rewrite D in D'. apply Some_inj in D'. subst w'.
  destruct (emitted_stream_ends_with_raw_customs _ _ _ _ _ _ P1 E1 (dec_wmod_not_debug _ _ _ D)) as (own & Es & Fo).
  unfold enc_wmod in B. destruct (enc_secs (em_secs e1)) as [l|] eqn:El; [|discriminate]. apply Some_inj in B. subst b1.
  rewrite Es in El. destruct (enc_secs_app _ _ _ El) as (la & lb & Ea & Eb & ->). rewrite enc_secs_raw in Eb. apply Some_inj in Eb. subst lb.
  exists la. split; [reflexivity|]. exact (enc_secs_own _ _ Ea Fo).
Qed.
(* per section: its canonical frame is a contiguous block of the output; two of them stand in the input order *)
Lemma raw_customs_in w n d : In (S_Custom (CS_Raw n d)) w -> In (n, d) (raw_customs w).
Proof. intros H. unfold raw_customs. apply in_flat_map. exists (S_Custom (CS_Raw n d)). split; [exact H|left; reflexivity]. Qed.
Theorem raw_custom_block_in_output cf ver ilen bs b1 w name data payload :
  dec_wmod false bs = Some w -> roundtrip_bytes cf ver ilen bs = Some b1 ->
  In (S_Custom (CS_Raw name data)) w -> enc_custom (CS_Raw name data) = Some payload ->
  exists pre post, b1 = pre ++ frame_section (0%N, payload) ++ post.
Proof.
  intros D H Hin Ep. destruct (raw_customs_bytes_preserved _ _ _ _ _ _ D H) as (own & -> & _).
  cbn [enc_custom] in Ep. apply Some_inj in Ep. subst payload.
  destruct (in_split _ _ (raw_customs_in _ _ _ Hin)) as (l1 & l2 & ->).
  rewrite map_app. cbn [map]. rewrite !flat_map_app. cbn [flat_map].
  exists (magic_version ++ flat_map frame_section own ++ flat_map frame_section (map raw_frame l1)), (flat_map frame_section (map raw_frame l2)).
  unfold raw_frame at 2. cbn [fst snd]. rewrite <- !app_assoc. reflexivity.
Qed.

(* read back, the raw custom sections are those of the input (content, multiplicity, order) *)
Lemma raw_customs_zero w : raw_customs (zero_wmod w) = raw_customs w.
Proof. induction w as [|s w IH]; [reflexivity|]. cbn [zero_wmod map]. fold (zero_wmod w). rewrite (raw_customs_cons (zero_sec s)), (raw_customs_cons s), IH. destruct s; reflexivity. Qed.
Theorem raw_customs_read_back cf ver ilen bs b1 w :
  dec_wmod false bs = Some w -> roundtrip_bytes cf ver ilen bs = Some b1 ->
  (forall s e, parseM cf ver w = POk s -> emitM (ps_m s) ilen [] = Ok e -> wf_wmod (em_secs e) = true) ->
  exists w1, dec_wmod false b1 = Some w1 /\ raw_customs w1 = raw_customs w.
Proof.
  intros D H WF. destruct (roundtrip_bytes_inv _ _ _ _ _ H) as (w' & s1 & e1 & D' & P1 & E1 & B).
  rewrite D in D'. apply Some_inj in D'. subst w'. specialize (WF _ _ P1 E1).
  exists (zero_wmod (em_secs e1)). split; [exact (dec_enc_wmod_zero _ _ B WF)|].
  rewrite raw_customs_zero, (CustomsCfg.c12_roundtrip _ _ _ _ _ _ _ P1 E1 eq_refl). exact (filter_not_debug _ (dec_wmod_not_debug _ _ _ D)).
Qed.

(* ------------------------------------------------------------------ 4. non-vacuity: the module with one of everything (Proofs/ModBytes.v), on
   wasm-encoder's bytes, default configuration, the encoder's real instruction lengths ([ilen_total], Proofs/Bytes.v) *)
Definition ev_ver : str := [49%N].
Definition everything_out : list N :=
  Eval vm_compute in match roundtrip_bytes default_config ev_ver ilen_total everything_bytes with Some b => b | None => [] end.
Example everything_roundtrip : roundtrip_bytes default_config ev_ver ilen_total everything_bytes = Some everything_out.
Proof. vm_compute. reflexivity. Qed.
(* walrus does change these bytes: functions reordered, an unused local and a nop dropped, its own producers entry rewritten, the raw section moved last *)
Example everything_out_differs : everything_out <> everything_bytes.
Proof. intros H. vm_compute in H. discriminate H. Qed.
Definition ev_body1 : list rt := [RNop 0].
Definition ev_body2 : list rt :=
  [RBlock BT_Empty [RPlain (W_I32Const (-200)) 0; RPlain (W_LocalSet 2) 0; RPlain (W_I32Const 0) 0; RPlain (W_I32Const 3) 0;
                    RPlain (W_I32Const 0) 0; RPlain (W_MemoryInit 0 0) 0] 0 0; RPlain (W_LocalGet 4) 0].
Example everything_valid : valid_stream everything.
Proof.
  unfold valid_stream, everything. cbn [valid_from]. unfold valid_sec.
  repeat match goal with |- _ /\ _ => split end;
    try (vm_compute; reflexivity); try exact I.
  repeat constructor.
  - exists ev_body1, 0%N. split; [reflexivity|]. cbn [swfl swf ev_body1]. repeat split.
  - exists ev_body2, 0%N. split; [reflexivity|].
    cbn [swfl swf ev_body2 sbt_ok]; repeat split; try (intros f H; vm_compute in H; discriminate H).
Qed.
Example everything_in_range : locals_in_range everything.
Proof. vm_compute. reflexivity. Qed.
Example everything_emitted_wf : forall s e, parseM default_config ev_ver everything = POk s -> emitM (ps_m s) ilen_total [] = Ok e -> wf_wmod (em_secs e) = true.
Proof.
  assert (C : match parseM default_config ev_ver everything with
              | POk s => match emitM (ps_m s) ilen_total [] with Ok e => wf_wmod (em_secs e) | _ => true end
              | _ => true end = true) by (vm_compute; reflexivity).
  intros s e P E. rewrite P, E in C. exact C.
Qed.
(* by the theorem (all premises discharged) ... *)
Example everything_out_is_fixpoint : roundtrip_bytes default_config ev_ver ilen_total everything_out = Some everything_out.
Proof.
  exact (bytes_fixpoint default_config ev_ver ilen_total everything_bytes everything_out everything
           everything_dec0 everything_valid everything_in_range everything_emitted_wf everything_roundtrip).
Qed.
(* ... and by running the model *)
Example everything_out_is_fixpoint_computed : roundtrip_bytes default_config ev_ver ilen_total everything_out = Some everything_out.
Proof. vm_compute. reflexivity. Qed.
(* the raw custom section "hello" of the input: by the theorem a block of the output; by computation its last 12 bytes *)
Example everything_raw_custom_block : exists pre post,
  everything_out = pre ++ frame_section (0%N, custom_payload [104;101;108;108;111]%N [1;2;3;200]%N) ++ post.
Proof.
  apply (raw_custom_block_in_output default_config ev_ver ilen_total everything_bytes everything_out everything
           [104;101;108;108;111]%N [1;2;3;200]%N _ everything_dec0 everything_roundtrip); [|reflexivity].
  unfold everything. repeat (try (left; reflexivity); right).
Qed.
Example everything_raw_custom_last :
  skipn (length everything_out - 12) everything_out = frame_section (0%N, custom_payload [104;101;108;108;111]%N [1;2;3;200]%N).
Proof. vm_compute. reflexivity. Qed.

(* 3 is not vacuous: the size of the type section written with a padded LEB128 (138 0 instead of 10) - other bytes, the same stream, the same output *)
Definition everything_bytes_padded : list N := firstn 9 everything_bytes ++ [138; 0]%N ++ skipn 10 everything_bytes.
Example everything_padded : everything_bytes_padded <> everything_bytes /\
  roundtrip_bytes default_config ev_ver ilen_total everything_bytes_padded = Some everything_out.
Proof.
  split; [intros H; vm_compute in H; discriminate H|].
  rewrite <- everything_roundtrip. apply bytes_determine_behaviour_inputs. vm_compute. reflexivity.
Qed.

Print Assumptions bytes_determine_behaviour_inputs.
Print Assumptions emitM_ilen_only_positions.
Print Assumptions bytes_fixpoint.
Print Assumptions bytes_fixpoint_streams.
Print Assumptions raw_customs_bytes_preserved.
Print Assumptions raw_custom_block_in_output.
Print Assumptions raw_customs_read_back.
Print Assumptions everything_out_is_fixpoint.
Print Assumptions everything_raw_custom_block.
Print Assumptions bytes_fixpoint_plain_names.
Print Assumptions bytes_round_trip_idempotent.
Print Assumptions everything_padded.
