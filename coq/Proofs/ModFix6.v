(* C08, module level fixpoint, part 6: the FUNCTION index space (order of the functions), the IMPORT section
   and the FUNCTION (declaration) section of the second round trip. *)
From Coq Require Import List NArith ZArith Bool Arith Lia Sorting.Sorted Sorting.Permutation.
Import ListNotations.
From WV Require Import Gen.Ops Model.Common Model.IR Model.Arena Model.Traversal Model.EmitFn Model.Locals
                       Model.ParseFn Model.ModuleM Model.ParseM Model.EmitM Gen.Attrs.
From WV Require Import Proofs.Arena Proofs.Order Proofs.SortKeys Proofs.IndexMaps Proofs.CustomsCfg Proofs.Structure Proofs.Structure2
                       Proofs.Renumbering Proofs.Names Proofs.Totality Proofs.Escalation Proofs.ModFix.
Local Open Scope nat_scope.

(* ====================================================================================== *)
(* 0. helpers: the payload of the import / function section of an emitted stream           *)
(* ====================================================================================== *)
Lemma fn_tagged_nil {B} (f : wsec -> list B) t : (forall s, has_tag t s = false -> f s = []) ->
  forall u l, tagged u l -> u <> t -> flat_map f l = [].
Proof.
  intros Hf u l T Hu. apply flat_map_nil. intros s Hs. apply Hf. unfold tagged in T. rewrite Forall_forall in T.
  unfold has_tag. rewrite (T s Hs). apply Nat.eqb_neq. exact Hu.
Qed.
Lemma fn_untagged_nil {B} (f : wsec -> list B) t : (forall s, has_tag t s = false -> f s = []) ->
  forall l, (forall s, In s l -> sec_tag s = None) -> flat_map f l = [].
Proof. intros Hf l H. apply flat_map_nil. intros s Hs. apply Hf. unfold has_tag. rewrite (H s Hs). reflexivity. Qed.

Lemma fn_imports_tag : forall s, has_tag 1 s = false -> imports_of s = [].
Proof. intros [] H; try reflexivity. discriminate. Qed.
Lemma fn_funcs_tag : forall s, has_tag 2 s = false -> funcs_of s = [].
Proof. intros [] H; try reflexivity. discriminate. Qed.

Lemma fn_emit_imports_shape m x s x' : emit_imports m x = Ok (s, x') -> s = [] \/ exists ws, s = [S_Imports ws].
Proof.
  unfold emit_imports. destruct (map snd (aiter (m_imports m))) as [|i r].
  - intros H; inversion H; auto.
  - intros H. rinv H as a Ea. inversion H; subst. right. eauto.
Qed.
Lemma fn_emit_funcs_shape m x s x' : emit_func_section m x = Ok (s, x') -> s = [] \/ exists l, s = [S_Funcs l].
Proof.
  rewrite emit_func_section_unfold. intros H. rinv H as fs Efs. destruct fs as [|p r].
  - inversion H; auto.
  - rinv H as b Eb. inversion H; subst. right. eauto.
Qed.

(* the pieces of an emitted stream that matter here *)
Lemma fn_sections m ilen e : emitM m ilen [] = Ok e ->
  exists s_ty x1 s_im x2 s_fn x3,
    emit_types m empty_x2i = (s_ty, x1) /\ emit_imports m x1 = Ok (s_im, x2) /\ emit_func_section m x2 = Ok (s_fn, x3) /\
    flat_map imports_of (em_secs e) = flat_map imports_of s_im /\
    flat_map funcs_of (em_secs e) = flat_map funcs_of s_fn /\
    (forall s, In s (em_secs e) -> sec_tag s = Some 1 -> In s s_im) /\
    (forall s, In s (em_secs e) -> sec_tag s = Some 2 -> In s s_fn) /\
    exists tl, em_secs e = s_ty ++ s_im ++ s_fn ++ tl /\ Forall (fun s => has_tag 1 s = false /\ has_tag 2 s = false) tl.
Proof.
  intros He. emitM_parts2 He. exists s_ty, x1, s_im, x2, s_fn, x3.
  split; [exact Ety|]. split; [exact Eim|]. split; [exact Efn|].
  pose proof (emit_types_tag _ _ _ _ Ety) as T0. pose proof (emit_imports_tag _ _ _ _ Eim) as T1.
  pose proof (emit_func_section_tag _ _ _ _ Efn) as T2. pose proof (emit_tables_tag m x3) as T3.
  pose proof (emit_memories_tag m x4) as T4.
  pose proof (emit_globals_tag _ _ _ _ Egl) as T5. pose proof (emit_exports_tag _ _ _ Eex) as T6.
  pose proof (emit_start_tag _ _ _ Est) as T7. pose proof (emit_elements_tag _ _ _ _ Eel) as T8.
  pose proof (emit_data_count_tag _ _ _ _ Edc) as T9. pose proof (emit_code_tag _ _ _ _ _ _ Eco) as T10.
  pose proof (emit_data_tag _ _ _ Eda) as T11.
  assert (Rn : forall s, In s rest -> sec_tag s = None).
  { intros s Hs. destruct (Erest s Hs) as [H|[]]. exact H. }
  split; [|split; [|split; [|split]]].
  - rewrite Esecs, !flat_map_app.
    rewrite (fn_tagged_nil imports_of 1 fn_imports_tag _ _ T0), (fn_tagged_nil imports_of 1 fn_imports_tag _ _ T2),
      (fn_tagged_nil imports_of 1 fn_imports_tag _ _ T3), (fn_tagged_nil imports_of 1 fn_imports_tag _ _ T4),
      (fn_tagged_nil imports_of 1 fn_imports_tag _ _ T5), (fn_tagged_nil imports_of 1 fn_imports_tag _ _ T6),
      (fn_tagged_nil imports_of 1 fn_imports_tag _ _ T7), (fn_tagged_nil imports_of 1 fn_imports_tag _ _ T8),
      (fn_tagged_nil imports_of 1 fn_imports_tag _ _ T9), (fn_tagged_nil imports_of 1 fn_imports_tag _ _ T10),
      (fn_tagged_nil imports_of 1 fn_imports_tag _ _ T11) by lia.
    rewrite (fn_untagged_nil imports_of 1 fn_imports_tag rest Rn). cbn [app]. rewrite app_nil_r. reflexivity.
  - rewrite Esecs, !flat_map_app.
    rewrite (fn_tagged_nil funcs_of 2 fn_funcs_tag _ _ T0), (fn_tagged_nil funcs_of 2 fn_funcs_tag _ _ T1),
      (fn_tagged_nil funcs_of 2 fn_funcs_tag _ _ T3), (fn_tagged_nil funcs_of 2 fn_funcs_tag _ _ T4),
      (fn_tagged_nil funcs_of 2 fn_funcs_tag _ _ T5), (fn_tagged_nil funcs_of 2 fn_funcs_tag _ _ T6),
      (fn_tagged_nil funcs_of 2 fn_funcs_tag _ _ T7), (fn_tagged_nil funcs_of 2 fn_funcs_tag _ _ T8),
      (fn_tagged_nil funcs_of 2 fn_funcs_tag _ _ T9), (fn_tagged_nil funcs_of 2 fn_funcs_tag _ _ T10),
      (fn_tagged_nil funcs_of 2 fn_funcs_tag _ _ T11) by lia.
    rewrite (fn_untagged_nil funcs_of 2 fn_funcs_tag rest Rn). cbn [app]. rewrite app_nil_r. reflexivity.
  - intros s Hs Ht. destruct (Etags s 1 Hs Ht) as [[]|H]. exact H.
  - intros s Hs Ht. destruct (Etags s 2 Hs Ht) as [[]|H]. exact H.
  - eexists. split; [exact Esecs|]. rewrite !Forall_app.
    assert (K : forall u l, tagged u l -> u <> 1 -> u <> 2 -> Forall (fun s => has_tag 1 s = false /\ has_tag 2 s = false) l).
    { intros u l T H1 H2. unfold tagged in T. rewrite Forall_forall in *. intros s Hs. specialize (T s Hs).
      unfold has_tag. rewrite T. split; apply Nat.eqb_neq; assumption. }
    repeat split; try (eapply K; [eassumption|lia|lia]).
    rewrite Forall_forall. intros s Hs. specialize (Rn s Hs). unfold has_tag. rewrite Rn. split; reflexivity.
Qed.

(* ====================================================================================== *)
(* N2. the import section                                                                  *)
(* ====================================================================================== *)
Lemma fn_rho_bound s e S i j : Structure.rho s e S i = Ok j -> N.to_nat i < length (ids_space (ps_ids s) S).
Proof.
  unfold Structure.rho. destruct (nth_error (ids_space (ps_ids s) S) (N.to_nat i)) eqn:E; [|discriminate].
  intros _. apply nth_error_Some. congruence.
Qed.
Lemma fn_import_rt_id s e wi wo : rho_id s e S_type -> import_rt s e wi wo -> wo = wi.
Proof.
  intros RT. destruct wi as [mo na k], wo as [mo' na' k']. unfold import_rt. cbn [wi_module wi_name wi_kind].
  intros (A & B & C). subst. f_equal. destruct k; try exact C.
  destruct C as (ti & R & K). pose proof (fn_rho_bound _ _ _ _ _ R) as L. rewrite (RT _ L) in R. inversion R; subst. reflexivity.
Qed.
Lemma fn_imports_rt_id s e : rho_id s e S_type -> forall l ws, Forall2 (import_rt s e) l ws -> ws = l.
Proof.
  intros RT l ws F. induction F as [|a b l ws Hab F IH]; [reflexivity|].
  rewrite (fn_import_rt_id _ _ _ _ RT Hab), IH. reflexivity.
Qed.

Theorem fix_imports : forall cf ver w ilen s1 e1 s2 e2, two_trips cf ver w ilen s1 e1 s2 e2 -> rho_id s2 e2 S_type ->
  flat_map imports_of (em_secs e2) = flat_map imports_of (em_secs e1).
Proof.
  intros cf ver w ilen s1 e1 s2 e2 (P1 & E1 & P2 & E2) RT.
  destruct (fn_sections _ _ _ E2) as (s_ty & x1 & s_im & x2 & s_fn & x3 & Ety & Eim & Efn & HI & _ & TI & _).
  destruct (flat_map imports_of (em_secs e1)) as [|i0 r0] eqn:EI.
  - pose proof (parseM_imports _ _ _ _ P2) as FI. rewrite EI in FI. apply Forall2_length in FI. cbn [length] in FI.
    pose proof (parseM_ids _ _ _ _ P2) as Hid.
    assert (D : dead (m_imports (ps_m s2)) = []) by (unfold ids_consistent in Hid; tauto).
    rewrite HI. unfold emit_imports in Eim. rewrite (aiter_nodead_snd _ D) in Eim.
    destruct (items (m_imports (ps_m s2))); [|discriminate]. inversion Eim; subst. reflexivity.
  - assert (Hne : flat_map imports_of (em_secs e1) <> []) by (rewrite EI; discriminate).
    destruct (structure_imports_gen _ _ _ _ _ _ _ P2 E2 Hne) as (ws & Hin & F).
    rewrite EI in F. apply (fn_imports_rt_id _ _ RT) in F. subst ws.
    apply TI in Hin; [|reflexivity]. rewrite HI.
    destruct (fn_emit_imports_shape _ _ _ _ Eim) as [->|[ws ->]]; [destruct Hin|].
    destruct Hin as [Hin|[]]. inversion Hin; subst. cbn [flat_map imports_of]. apply app_nil_r.
Qed.

(* ====================================================================================== *)
(* N3. the function (declaration) section                                                  *)
(* ====================================================================================== *)
Lemma fn_dw_nil : dw_custom []. Proof. intros s []. Qed.

(* the declared type indices of an emitted stream: those of the function imports, then the function section *)
Lemma fn_out_ftys_split m ilen e : emitM m ilen [] = Ok e ->
  out_ftys e = imp_ftys (flat_map imports_of (em_secs e)) ++ flat_map funcs_of (em_secs e).
Proof.
  intros He. destruct (fn_sections _ _ _ He) as (s_ty & x1 & s_im & x2 & s_fn & x3 & Ety & Eim & Efn & HI & HF & _).
  destruct (out_decls _ _ _ _ He fn_dw_nil) as (s_ty' & x1' & s_im' & x2' & s_fn' & x3' & Ety' & Eim' & Efn' & HO & _).
  rewrite Ety in Ety'. inversion Ety'; subst s_ty' x1'. rewrite Eim in Eim'. inversion Eim'; subst s_im' x2'.
  rewrite Efn in Efn'. inversion Efn'; subst s_fn' x3'. rewrite HO, HI, HF. f_equal.
  - destruct (fn_emit_imports_shape _ _ _ _ Eim) as [->|[ws ->]]; [reflexivity|]. cbn [flat_map sec_ftys imports_of].
    rewrite !app_nil_r. reflexivity.
  - destruct (fn_emit_funcs_shape _ _ _ _ Efn) as [->|[l ->]]; reflexivity.
Qed.

Lemma fn_out_ftys_length m ilen e : emitM m ilen [] = Ok e -> length (out_ftys e) = length (emitted_ids e S_func).
Proof.
  intros He. destruct (out_decls _ _ _ _ He fn_dw_nil) as (s_ty & x1 & s_im & x2 & s_fn & x3 & Ety & Eim & Efn & HO & _).
  destruct (emitted_ids_shape _ _ _ _ He) as (fs & Hfs & Hf & _).
  destruct (emit_imports_ftys _ _ _ _ Eim) as (ws & Ews & Fws). apply imports_align in Fws.
  destruct (emit_func_section_ftys _ _ _ _ Efn) as (fs' & tis & Hfs' & Etis & Ftis).
  rewrite Hfs in Hfs'. inversion Hfs'; subst fs'.
  rewrite HO, Hf, Ews, Etis, !app_length, map_length. rewrite <- imported_funcs_eq.
  apply Forall2_length in Fws. apply Forall2_length in Ftis. lia.
Qed.

(* with both renumberings the identity, the second stream declares the same type index at every function position *)
Lemma fn_out_ftys_fixed cf ver w ilen s1 e1 s2 e2 : two_trips cf ver w ilen s1 e1 s2 e2 ->
  rho_id s2 e2 S_type -> rho_id s2 e2 S_func -> out_ftys e2 = out_ftys e1.
Proof.
  intros (P1 & E1 & P2 & E2) RT RF.
  pose proof (parseM_ids _ _ _ _ P2) as Hid.
  destruct (parseM_sigs _ _ _ _ P2) as [_ HF]. unfold FInv in HF. fold (out_ftys e1) in HF.
  assert (NF : n_in s2 S_func = length (items (m_funcs (ps_m s2)))).
  { unfold n_in. cbn [ids_space]. unfold ids_consistent in Hid. destruct Hid as [-> _]. apply iota_length. }
  assert (L1 : length (out_ftys e1) = length (items (m_funcs (ps_m s2)))).
  { rewrite (Forall2_length _ _ _ HF). unfold K_fty. apply map_length. }
  assert (L2 : length (out_ftys e2) = length (items (m_funcs (ps_m s2)))).
  { rewrite (fn_out_ftys_length _ _ _ E2), (emitted_count _ _ _ _ _ _ _ P2 E2 S_func) by discriminate. exact NF. }
  apply nth_error_ext'. intros k.
  destruct (nth_error (out_ftys e1) k) as [ti|] eqn:Ek.
  - destruct (Forall2_nth_l _ _ _ _ _ HF Ek) as (c & Hc & Hty).
    unfold K_fty in Hc. rewrite nth_error_map in Hc.
    destruct (nth_error (items (m_funcs (ps_m s2))) k) as [f|] eqn:Ef; [|discriminate]. cbn [option_map] in Hc.
    inversion Hc; subst c; clear Hc. rewrite fcore_ty in Hty.
    assert (Lk : k < length (items (m_funcs (ps_m s2)))) by (apply nth_error_Some; congruence).
    assert (Hk : N.to_nat (N.of_nat k) < length (ids_space (ps_ids s2) S_func)).
    { rewrite Nat2N.id. fold (n_in s2 S_func). rewrite NF. exact Lk. }
    pose proof (RF _ Hk) as Hr. apply (rho_entity _ _ _ _ Hid) in Hr; try discriminate.
    assert (Ef' : nth_error (items (m_funcs (ps_m s2))) (N.to_nat (N.of_nat k)) = Some f) by (rewrite Nat2N.id; exact Ef).
    destruct (emit_func_decl _ _ _ _ E2 fn_dw_nil _ _ _ Hr Ef') as (tj & Htj & Hg). rewrite Nat2N.id in Htj.
    rewrite Htj. f_equal.
    assert (Hrt : Structure.rho s2 e2 S_type ti = Ok tj).
    { unfold Structure.rho. cbn [ids_space]. unfold nth_N in Hty. rewrite Hty. exact Hg. }
    pose proof (fn_rho_bound _ _ _ _ _ Hrt) as Lt. rewrite (RT _ Lt) in Hrt. inversion Hrt. reflexivity.
  - apply nth_error_None in Ek. apply nth_error_None. lia.
Qed.

Theorem fix_funcs_decl : forall cf ver w ilen s1 e1 s2 e2, two_trips cf ver w ilen s1 e1 s2 e2 ->
  rho_id s2 e2 S_type -> rho_id s2 e2 S_func ->
  flat_map funcs_of (em_secs e2) = flat_map funcs_of (em_secs e1).
Proof.
  intros cf ver w ilen s1 e1 s2 e2 TT RT RF.
  pose proof (fn_out_ftys_fixed _ _ _ _ _ _ _ _ TT RT RF) as HO.
  pose proof (fix_imports _ _ _ _ _ _ _ _ TT RT) as HI.
  destruct TT as (P1 & E1 & P2 & E2).
  rewrite (fn_out_ftys_split _ _ _ E1), (fn_out_ftys_split _ _ _ E2), HI in HO.
  apply app_inv_head in HO. exact HO.
Qed.

(* ====================================================================================== *)
(* N1. the function index space: the second emit keeps the order                            *)
(* ====================================================================================== *)
(* body-level premise (delivered elsewhere): a re-parsed local function has the size of the function it came from *)
Definition sizes_stable (s1 : pst) (e1 : emitted) (s2 : pst) : Prop :=
  forall id j f1 lf1 f2 lf2, get_idx (em_x2i e1) S_func id = Ok j ->
    aget (m_funcs (ps_m s1)) id = Some f1 -> fn_kind f1 = FK_Local lf1 ->
    aget (m_funcs (ps_m s2)) j = Some f2 -> fn_kind f2 = FK_Local lf2 -> lf_size lf2 = lf_size lf1.

(* layout of the function arena of the re-parsed module: the imported functions are the ids 0..ni-1 in import
   order (ni = number of function imports of the first module), the local functions have ids >= ni *)
Definition funcs_layout (s1 s2 : pst) : Prop :=
  imported_funcs (ps_m s2) = iota (length (imported_funcs (ps_m s1))) /\
  forall j f lf, aget (m_funcs (ps_m s2)) j = Some f -> fn_kind f = FK_Local lf ->
                 length (imported_funcs (ps_m s1)) <= N.to_nat j.

Lemma fn_ss_nth {A} (R : A -> A -> Prop) L : StronglySorted R L ->
  forall i j x y, i < j -> nth_error L i = Some x -> nth_error L j = Some y -> R x y.
Proof.
  induction 1 as [|a L SS IH Hall]; intros i j x y Hij Hi Hj; [destruct i; discriminate|].
  destruct j; [lia|]. destruct i; cbn [nth_error] in *.
  - inversion Hi; subst. rewrite Forall_forall in Hall. apply Hall. eapply nth_error_In; eauto.
  - eapply IH; [|eauto|eauto]. lia.
Qed.

Definition fn_id (t : N * N * mlocalfunc) : N := snd (fst t).
Definition fn_sz (t : N * N * mlocalfunc) : N := fst (fst t).

(* a list sorted by (size desc, id asc) whose sizes do not increase with the id is sorted by id *)
Lemma fn_ss_map (L : list (N * N * mlocalfunc)) : StronglySorted func_before L -> NoDup (map fn_id L) ->
  (forall a b, In a L -> In b L -> (fn_id a < fn_id b)%N -> (fn_sz b <= fn_sz a)%N) ->
  StronglySorted N.lt (map fn_id L).
Proof.
  induction 1 as [|a L SS IH Hall]; intros ND M; cbn [map]; constructor.
  - apply IH; [inversion ND; assumption|]. intros x y Hx Hy. apply M; right; assumption.
  - rewrite Forall_forall in *. intros y Hy. apply in_map_iff in Hy. destruct Hy as (b & <- & Hb).
    specialize (Hall b Hb). unfold func_before in Hall. fold (fn_sz a) (fn_sz b) (fn_id a) (fn_id b) in Hall.
    inversion ND as [|? ? Hnotin _]; subst.
    assert (Hne : fn_id a <> fn_id b).
    { intros E. apply Hnotin. rewrite E. apply in_map. exact Hb. }
    destruct (N.lt_trichotomy (fn_id a) (fn_id b)) as [H|[H|H]]; [exact H|contradiction|].
    pose proof (M b a (or_intror Hb) (or_introl eq_refl) H) as Hs. lia.
Qed.

Lemma fn_entry_in ps l : rmapM func_entry ps = Ok l -> forall t, In t (concat l) ->
  exists f, In (fn_id t, f) ps /\ fn_kind f = FK_Local (snd t) /\ lf_size (snd t) = Ok (fn_sz t).
Proof.
  intros E t Ht. apply in_concat in Ht. destruct Ht as (piece & Hp & Ht).
  apply (rmapM_In _ _ _ E) in Hp. destruct Hp as ([pid pf] & Hpa & Hpe). unfold func_entry in Hpe. cbn [fst snd] in Hpe.
  destruct (fn_kind pf) as [? ?|lf0|?] eqn:Ek.
  - inversion Hpe; subst. destruct Ht.
  - rinv Hpe as sz Esz. inversion Hpe; subst piece; clear Hpe. destruct Ht as [<-|[]]. unfold fn_id, fn_sz. cbn [fst snd].
    exists pf. auto.
  - discriminate.
Qed.

(* the ids of the local functions in emission order are increasing when the sizes do not increase with the id *)
Lemma fn_sorted_ids m fs : used_local_functions m = Ok fs ->
  (forall a b fa fb la lb sa sb, aget (m_funcs m) a = Some fa -> fn_kind fa = FK_Local la -> lf_size la = Ok sa ->
     aget (m_funcs m) b = Some fb -> fn_kind fb = FK_Local lb -> lf_size lb = Ok sb -> (a < b)%N -> (sb <= sa)%N) ->
  StronglySorted N.lt (map fst fs).
Proof.
  rewrite used_local_functions_eq. intros H M. rinv H as l El. inversion H; subst fs; clear H.
  rewrite map_map. cbn [fst]. fold fn_id.
  destruct (func_entries_ids _ _ El (aiter_NoDup (m_funcs m))) as [ND _]. fold fn_id in ND.
  apply fn_ss_map.
  - apply sort_funcs_sorted.
  - eapply Permutation_NoDup; [|exact ND]. apply Permutation_map, Permutation_sym, sort_funcs_perm.
  - intros a b Ha Hb Hab.
    eapply Permutation_in in Ha; [|apply sort_funcs_perm]. eapply Permutation_in in Hb; [|apply sort_funcs_perm].
    destruct (fn_entry_in _ _ El _ Ha) as (fa & Ia & Ka & Sa). destruct (fn_entry_in _ _ El _ Hb) as (fb & Ib & Kb & Sb).
    apply aiter_aget in Ia. apply aiter_aget in Ib. exact (M _ _ _ _ _ _ _ _ Ia Ka Sa Ib Kb Sb Hab).
Qed.

(* the sizes of the local functions of the re-parsed module do not increase with the id *)
Lemma fn_sizes_mono cf ver w ilen s1 e1 s2 e2 : two_trips cf ver w ilen s1 e1 s2 e2 ->
  sizes_stable s1 e1 s2 -> funcs_layout s1 s2 ->
  forall a b fa fb la lb sa sb, aget (m_funcs (ps_m s2)) a = Some fa -> fn_kind fa = FK_Local la -> lf_size la = Ok sa ->
     aget (m_funcs (ps_m s2)) b = Some fb -> fn_kind fb = FK_Local lb -> lf_size lb = Ok sb -> (a < b)%N -> (sb <= sa)%N.
Proof.
  intros (P1 & E1 & P2 & E2) SS (_ & LAY) a b fa fb la lb sa sb Ga Ka Sa Gb Kb Sb Hab.
  set (ni := length (imported_funcs (ps_m s1))) in *.
  pose proof (LAY _ _ _ Ga Ka) as La. pose proof (LAY _ _ _ Gb Kb) as Lb.
  destruct (emitted_ids_shape _ _ _ _ E1) as (fs1 & Hfs1 & Hf1 & _).
  pose proof (parsed_wf_space _ _ _ _ _ _ _ S_func P1 E1 ltac:(discriminate)) as W1.
  assert (POS : forall id j, get_idx (em_x2i e1) S_func id = Ok j <->
                             nth_error (imported_funcs (ps_m s1) ++ map fst fs1) (N.to_nat j) = Some id).
  { intros id j. rewrite (x2i_positions _ _ _ _ W1). fold (emitted_ids e1 S_func). rewrite Hf1. reflexivity. }
  (* the function arena of s2 is as long as the emitted id list of e1 *)
  destruct (parseM_sigs _ _ _ _ P2) as [_ HF]. unfold FInv in HF. fold (out_ftys e1) in HF.
  assert (LEN : length (items (m_funcs (ps_m s2))) = length (imported_funcs (ps_m s1) ++ map fst fs1)).
  { rewrite <- Hf1, <- (fn_out_ftys_length _ _ _ E1), (Forall2_length _ _ _ HF). unfold K_fty. symmetry. apply map_length. }
  pose proof (aget_lt _ _ _ Ga) as Aa. pose proof (aget_lt _ _ _ Gb) as Ab. rewrite LEN in Aa, Ab.
  rewrite used_local_functions_eq in Hfs1. rinv Hfs1 as l1 El1. inversion Hfs1; subst fs1; clear Hfs1.
  set (S1 := sort_funcs (concat l1)) in *.
  assert (ENT : forall j f2 lf2 sz, aget (m_funcs (ps_m s2)) j = Some f2 -> fn_kind f2 = FK_Local lf2 -> lf_size lf2 = Ok sz ->
            ni <= N.to_nat j -> N.to_nat j < length (imported_funcs (ps_m s1) ++ map fst (map (fun t : N * N * mlocalfunc => (snd (fst t), snd t)) S1)) ->
            exists t, nth_error S1 (N.to_nat j - ni) = Some t /\ fn_sz t = sz).
  { intros j f2 lf2 sz Gj Kj Sj Lj Aj.
    destruct (nth_error (imported_funcs (ps_m s1) ++ map fst (map (fun t : N * N * mlocalfunc => (snd (fst t), snd t)) S1)) (N.to_nat j))
      as [id|] eqn:En; [|apply nth_error_None in En; lia].
    pose proof (proj2 (POS id j) En) as Hg.
    rewrite nth_error_app2 in En by exact Lj. fold ni in En. rewrite map_map, nth_error_map in En. cbn [fst] in En.
    destruct (nth_error S1 (N.to_nat j - ni)) as [t|] eqn:Et; [|discriminate]. cbn [option_map] in En. inversion En as [Eid]; clear En.
    exists t. split; [reflexivity|].
    assert (Ht : In t (concat l1)).
    { eapply Permutation_in; [apply sort_funcs_perm|]. eapply nth_error_In; exact Et. }
    destruct (fn_entry_in _ _ El1 _ Ht) as (f1 & I1 & K1 & Z1). apply aiter_aget in I1. unfold fn_id in I1. rewrite Eid in I1.
    pose proof (SS _ _ _ _ _ _ Hg I1 K1 Gj Kj) as Hsz. rewrite Hsz, Z1 in Sj. inversion Sj. reflexivity. }
  destruct (ENT _ _ _ _ Ga Ka Sa La Aa) as (ta & Na & Za). destruct (ENT _ _ _ _ Gb Kb Sb Lb Ab) as (tb & Nb & Zb).
  assert (Hlt : N.to_nat a - ni < N.to_nat b - ni) by lia.
  pose proof (fn_ss_nth _ _ (sort_funcs_sorted (concat l1)) _ _ _ _ Hlt Na Nb) as FB.
  unfold func_before in FB. fold (fn_sz ta) (fn_sz tb) in FB. rewrite Za, Zb in FB. lia.
Qed.

Theorem funcs_identity_gen : forall cf ver w ilen s1 e1 s2 e2, two_trips cf ver w ilen s1 e1 s2 e2 ->
  sizes_stable s1 e1 s2 -> funcs_layout s1 s2 -> rho_id s2 e2 S_func.
Proof.
  intros cf ver w ilen s1 e1 s2 e2 TT SS LAY.
  pose proof (fn_sizes_mono _ _ _ _ _ _ _ _ TT SS LAY) as M.
  destruct TT as (P1 & E1 & P2 & E2). destruct LAY as (LI & LL).
  unfold rho_id. fold (n_in s2 S_func).
  apply (rho_identity_iff _ _ _ _ _ _ _ P2 E2 S_func); try discriminate.
  apply sorted_full_iota; [|intros x; apply (emitted_full _ _ _ _ _ _ _ P2 E2 S_func x); discriminate].
  destruct (emitted_ids_shape _ _ _ _ E2) as (fs2 & Hfs2 & Hf2 & _). rewrite Hf2, LI.
  apply sorted_app; [apply iota_sorted|exact (fn_sorted_ids _ _ Hfs2 M)|].
  intros x y Hx Hy. apply iota_In in Hx.
  apply (proj2 (used_local_functions_ids _ _ Hfs2)) in Hy. destruct Hy as (f & lf & Hin & Hk).
  apply aiter_aget in Hin. pose proof (LL _ _ _ Hin Hk). lia.
Qed.

(* ====================================================================================== *)
(* N1b. the layout premise holds: the function arena of the re-parsed module               *)
(* ====================================================================================== *)
Lemma fn_parse_secs_app : forall a b s s', parse_secs s (a ++ b) = POk s' ->
  exists s1, parse_secs s a = POk s1 /\ parse_secs s1 b = POk s'.
Proof.
  induction a as [|x a IH]; intros b s s' E; cbn [app parse_secs] in *.
  - exists s. split; [reflexivity|exact E].
  - pinv E as s1 E1. apply IH in E. destruct E as (s2 & A & B). exists s2. split; [|exact B].
    rewrite E1. cbn [pbind]. exact A.
Qed.
Lemma fn_parse_secs_noimp : forall w s s', Forall (fun sec => has_tag 1 sec = false) w -> parse_secs s w = POk s' ->
  m_imports (ps_m s') = m_imports (ps_m s).
Proof.
  induction w as [|x r IH]; intros s s' F E; cbn [parse_secs] in E.
  - inversion E; reflexivity.
  - pinv E as s1 E1. inversion F as [|? ? Fx Fr]; subst. rewrite (IH _ _ Fr E).
    destruct (parse_sec_FT _ _ _ E1) as (_ & _ & M). destruct x; try exact M. cbn in Fx. discriminate Fx.
Qed.
Lemma fn_parse_secs_types : forall w s s', tagged 0 w -> parse_secs s w = POk s' ->
  m_imports (ps_m s') = m_imports (ps_m s) /\ m_funcs (ps_m s') = m_funcs (ps_m s).
Proof.
  induction w as [|x r IH]; intros s s' T E; cbn [parse_secs] in E.
  - inversion E; auto.
  - pinv E as s1 E1. inversion T as [|? ? Tx Tr]; subst. destruct (IH _ _ Tr E) as [A B]. rewrite A, B.
    destruct (parse_sec_FT _ _ _ E1) as (_ & _ & M). destruct (parse_sec_frameB _ _ _ E1) as (_ & Fm).
    destruct x; cbn [sec_tag] in Tx; try discriminate Tx. auto.
Qed.
Lemma fn_imp_ids_entries : forall l nf nt nm ng,
  imp_ids S_func (imp_entries nf nt nm ng l) = map N.of_nat (seq nf (length (imp_ftys l))).
Proof.
  unfold imp_ids. induction l as [|i r IH]; intros nf nt nm ng; [reflexivity|].
  cbn [imp_entries imp_ftys flat_map]. fold (imp_ftys r).
  destruct (wi_kind i); cbn [flat_map imp_id im_kind app length seq map]; rewrite IH; reflexivity.
Qed.

Lemma fn_imp_ftys_length m ilen e : emitM m ilen [] = Ok e ->
  length (imp_ftys (flat_map imports_of (em_secs e))) = length (imported_funcs m).
Proof.
  intros He. destruct (fn_sections _ _ _ He) as (s_ty & x1 & s_im & x2 & s_fn & x3 & Ety & Eim & Efn & HI & _).
  destruct (emit_imports_ftys _ _ _ _ Eim) as (ws & Ews & Fws). apply imports_align in Fws.
  assert (Q : flat_map sec_ftys s_im = imp_ftys (flat_map imports_of s_im)).
  { destruct (fn_emit_imports_shape _ _ _ _ Eim) as [->|[l ->]]; [reflexivity|]. cbn [flat_map sec_ftys imports_of].
    rewrite !app_nil_r. reflexivity. }
  rewrite HI, <- Q, Ews, <- imported_funcs_eq. symmetry. eapply Forall2_length; eauto.
Qed.

Lemma fn_second_imports cf ver w ilen s1 e1 s2 e2 : two_trips cf ver w ilen s1 e1 s2 e2 ->
  imported_funcs (ps_m s2) = iota (length (imp_ftys (flat_map imports_of (em_secs e1)))).
Proof.
  intros (P1 & E1 & P2 & E2).
  destruct (fn_sections _ _ _ E1) as (s_ty & x1 & s_im & x2 & s_fn & x3 & Ety & Eim & Efn & HI & _ & _ & _ & tl & Esecs & Ftl).
  destruct (parseM_KK _ _ _ _ P2) as (sA & PA & EK).
  assert (MI : m_imports (ps_m s2) = m_imports (ps_m sA)) by (unfold KK in EK; injection EK; intros; congruence).
  rewrite <- imported_funcs_eq, (live_imports_items _ _ _ _ P2), MI. clear MI EK.
  rewrite Esecs in PA. apply fn_parse_secs_app in PA. destruct PA as (sB & PB & PA).
  apply fn_parse_secs_app in PA. destruct PA as (sC & PC & PA).
  destruct (fn_parse_secs_types _ _ _ (emit_types_tag _ _ _ _ Ety) PB) as [B1 B2].
  assert (NI : Forall (fun sec => has_tag 1 sec = false) (s_fn ++ tl)).
  { apply Forall_app. split.
    - pose proof (emit_func_section_tag _ _ _ _ Efn) as T2. unfold tagged in T2. eapply Forall_impl; [|exact T2].
      intros s Hs. unfold has_tag. rewrite Hs. reflexivity.
    - eapply Forall_impl; [|exact Ftl]. intros s [Hs _]. exact Hs. }
  rewrite (fn_parse_secs_noimp _ _ _ NI PA), HI.
  destruct (fn_emit_imports_shape _ _ _ _ Eim) as [->|[ws ->]].
  - cbn [parse_secs] in PC. inversion PC; subst sC. rewrite B1. reflexivity.
  - cbn [parse_secs] in PC. pinv PC as sD PD. inversion PC; subst sD; clear PC.
    unfold parse_sec in PD. pinv PD as x Ex. destruct x as [m1 i1]. inversion PD; subst; clear PD. wcbn.
    apply parse_imports_spec in Ex. cbv zeta in Ex. destruct Ex as (_ & _ & _ & _ & E5 & _).
    rewrite B1, B2 in E5.
    change (items (m_imports (ps_m (pst0 cf)))) with (@nil mimport) in E5.
    change (items (m_funcs (ps_m (pst0 cf)))) with (@nil mfunc) in E5.
    cbn [app length] in E5. rewrite E5, fn_imp_ids_entries. cbn [flat_map imports_of]. rewrite app_nil_r. reflexivity.
Qed.

Theorem fn_layout : forall cf ver w ilen s1 e1 s2 e2, two_trips cf ver w ilen s1 e1 s2 e2 -> funcs_layout s1 s2.
Proof.
  intros cf ver w ilen s1 e1 s2 e2 TT.
  pose proof (fn_second_imports _ _ _ _ _ _ _ _ TT) as SI. destruct TT as (P1 & E1 & P2 & E2).
  rewrite (fn_imp_ftys_length _ _ _ E1) in SI. split; [exact SI|].
  intros j f lf Gj Kj. destruct (le_lt_dec (length (imported_funcs (ps_m s1))) (N.to_nat j)) as [Hle|Hlt]; [exact Hle|exfalso].
  assert (Hin : In j (imported_funcs (ps_m s2))) by (rewrite SI; apply iota_In; exact Hlt).
  unfold imported_funcs in Hin. rewrite (live_imports_items _ _ _ _ P2) in Hin. apply in_flat_map in Hin.
  destruct Hin as (mi & Hmi & Hk).
  pose proof (parseM_imports _ _ _ _ P2) as FI. apply In_nth_error in Hmi. destruct Hmi as (n & Hn).
  destruct (Forall2_nth_l _ _ _ _ _ FI Hn) as (wi & _ & (_ & _ & Hok)).
  destruct (im_kind mi) as [f0|?|?|?]; try (destruct Hk; fail). destruct Hk as [->|[]].
  destruct (wi_kind wi) as [wt|?|?|?]; try contradiction. destruct Hok as (tyid & _ & HK).
  apply aget_nth in Gj. unfold K_fty in HK. rewrite (map_nth_error fcore _ _ Gj) in HK.
  unfold fcore in HK. rewrite Kj in HK. cbn [fkcore] in HK. inversion HK.
Qed.

Theorem funcs_identity : forall cf ver w ilen s1 e1 s2 e2, two_trips cf ver w ilen s1 e1 s2 e2 ->
  sizes_stable s1 e1 s2 -> rho_id s2 e2 S_func.
Proof.
  intros cf ver w ilen s1 e1 s2 e2 TT SS. eapply funcs_identity_gen; [exact TT|exact SS|eapply fn_layout; exact TT].
Qed.

(* convenience for the assembly: the function section under the body-level premise only *)
Corollary fix_funcs_decl_sizes : forall cf ver w ilen s1 e1 s2 e2, two_trips cf ver w ilen s1 e1 s2 e2 ->
  rho_id s2 e2 S_type -> sizes_stable s1 e1 s2 ->
  flat_map funcs_of (em_secs e2) = flat_map funcs_of (em_secs e1).
Proof.
  intros cf ver w ilen s1 e1 s2 e2 TT RT SS. eapply fix_funcs_decl; [exact TT|exact RT|].
  eapply funcs_identity; [exact TT|exact SS].
Qed.

Print Assumptions funcs_identity.
Print Assumptions fix_imports.
Print Assumptions fix_funcs_decl.
Print Assumptions fn_layout.
Print Assumptions fix_funcs_decl_sizes.
