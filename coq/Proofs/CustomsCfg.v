(* Custom sections, the skip_name / skip_producers switches, the producers section and the
   on_parse callback count, on the module-level models (ParseM / EmitM / GC).

   Layout:
     A. definitions asked for (raw_customs, customs_of, is_name_sec, is_producers_sec, set_skip_name, set_skip_producers)
     B. parse side  : m_customs is only touched by CS_Raw payloads   -> parse_customs, parse_callback_once
     C. emit side   : emitM factored as  front ; names ; producers ; dwarf ; customs
                      -> emit_customs, c12_roundtrip
     D. gc_sweep          : gc_customs
     E. switches    : c14_name_switch / c14_producers_switch, generic in the one fact about
                      [set_customs_take] they need (Section TakeGeneric)
     F. producers   : producers_once / idempotent / others_kept
     G. THE ONLY BLOCK THAT LOOKS AT THE BODY OF [set_customs_take] (end of file). *)
From Coq Require Import List NArith ZArith Bool Lia Arith.
Import ListNotations.
From WV Require Import Gen.Ops Model.Common Model.IR Model.Arena Model.Traversal Model.EmitFn Model.Locals
                       Model.ModuleM Model.ParseM Model.EmitM Model.GC.
Local Open Scope nat_scope.

(* ================================================================== A. definitions *)
Definition raw_customs (w : list wsec) : list (str * list N) :=
  flat_map (fun s => match s with S_Custom (CS_Raw n d) => [(n, d)] | _ => [] end) w.
Definition customs_of (m : wir) : list (str * list N) :=
  flat_map (fun c => match c with Some c => [(cu_name c, cu_data c)] | None => [] end) (m_customs m).
Definition is_name_sec (s : wsec) : bool := match s with S_Custom (CS_Name _) => true | _ => false end.
Definition is_producers_sec (s : wsec) : bool := match s with S_Custom (CS_Producers _) => true | _ => false end.

Definition set_config (m : wir) (cf : config) : wir :=
  {| m_imports := m_imports m; m_tables := m_tables m; m_types := m_types m; m_funcs := m_funcs m;
     m_globals := m_globals m; m_locals := m_locals m; m_exports := m_exports m; m_memories := m_memories m;
     m_data := m_data m; m_elements := m_elements m; m_start := m_start m; m_producers := m_producers m;
     m_customs := m_customs m; m_debug := m_debug m; m_name := m_name m; m_config := cf;
     m_code_section_offset := m_code_section_offset m |}.
Definition set_skip_name (m : wir) (b : bool) : wir :=
  set_config m {| cf_generate_dwarf := cf_generate_dwarf (m_config m); cf_synthetic_names := cf_synthetic_names (m_config m);
                  cf_only_stable := cf_only_stable (m_config m); cf_skip_producers := cf_skip_producers (m_config m);
                  cf_skip_name := b; cf_preserve_code_transform := cf_preserve_code_transform (m_config m) |}.
Definition set_skip_producers (m : wir) (b : bool) : wir :=
  set_config m {| cf_generate_dwarf := cf_generate_dwarf (m_config m); cf_synthetic_names := cf_synthetic_names (m_config m);
                  cf_only_stable := cf_only_stable (m_config m); cf_skip_producers := b;
                  cf_skip_name := cf_skip_name (m_config m); cf_preserve_code_transform := cf_preserve_code_transform (m_config m) |}.

(* small list facts *)
Lemma raw_customs_app a b : raw_customs (a ++ b) = raw_customs a ++ raw_customs b.
Proof. apply flat_map_app. Qed.
Lemma raw_customs_cons x r : raw_customs (x :: r) = raw_customs [x] ++ raw_customs r.
Proof. unfold raw_customs. cbn [flat_map]. rewrite app_nil_r. reflexivity. Qed.
Lemma filter_id {A} (f : A -> bool) l : (forall x, In x l -> f x = true) -> filter f l = l.
Proof.
  induction l as [|a l IH]; intros H; [reflexivity|]. cbn [filter].
  rewrite (H a (or_introl eq_refl)). f_equal. apply IH. intros x Hx. apply H. right. exact Hx.
Qed.
Lemma filter_none {A} (f : A -> bool) l : (forall x, In x l -> f x = false) -> filter f l = [].
Proof.
  induction l as [|a l IH]; intros H; [reflexivity|]. cbn [filter].
  rewrite (H a (or_introl eq_refl)). apply IH. intros x Hx. apply H. right. exact Hx.
Qed.

(* ================================================================== B. parse side *)
(* head-driven case analysis of a [pres] computation in  [comp = POk x -> concl]  goals *)
Ltac pstep :=
  match goal with
  | |- pbind ?A _ = _ -> _ => destruct A eqn:?; cbn [pbind]; cbv zeta; try (intro; discriminate)
  | |- match ?e with _ => _ end = _ -> _ => destruct e eqn:?; cbv zeta; try (intro; discriminate)
  end.

Lemma types_insert_customs m t m' id : types_insert m t = (m', id) -> m_customs m' = m_customs m.
Proof. unfold types_insert. destruct (insert _ _ _) as [s' i]. intros [= <- _]. reflexivity. Qed.

Lemma parse_types_customs ts : forall m ids m' ids',
  parse_types m ids ts = (m', ids') -> m_customs m' = m_customs m.
Proof.
  induction ts as [|[ps rs] r IH]; intros m ids m' ids'; cbn [parse_types].
  - intros [= <- _]. reflexivity.
  - destruct (types_insert m _) as [m1 id] eqn:E. intros H. apply IH in H. rewrite H.
    eapply types_insert_customs. exact E.
Qed.

Lemma parse_import_customs m ids i x : parse_import m ids i = POk x -> m_customs (fst x) = m_customs m.
Proof. unfold parse_import. repeat pstep; intros [= <-]; reflexivity. Qed.

Lemma parse_imports_customs l : forall m ids x, parse_imports m ids l = POk x -> m_customs (fst x) = m_customs m.
Proof.
  induction l as [|a l IH]; intros m ids x; cbn [parse_imports].
  - intros [= <-]. reflexivity.
  - destruct (parse_import m ids a) as [y| |] eqn:E; cbn [pbind]; try discriminate.
    intros H. apply IH in H. rewrite H. eapply parse_import_customs. exact E.
Qed.

Lemma parse_funcs_customs l : forall m ids x, parse_funcs m ids l = POk x -> m_customs (fst x) = m_customs m.
Proof.
  induction l as [|a l IH]; intros m ids x; cbn [parse_funcs].
  - intros [= <-]. reflexivity.
  - pstep. pstep. intros H. apply IH in H. rewrite H. reflexivity.
Qed.

Lemma parse_tables_customs l : forall m ids m' ids', parse_tables m ids l = (m', ids') -> m_customs m' = m_customs m.
Proof.
  induction l as [|a l IH]; intros m ids m' ids'; cbn [parse_tables].
  - intros [= <- _]. reflexivity.
  - destruct (aalloc _ _) as [ta tid]. intros H. apply IH in H. rewrite H. reflexivity.
Qed.

Lemma parse_mems_customs l : forall m ids m' ids', parse_mems m ids l = (m', ids') -> m_customs m' = m_customs m.
Proof.
  induction l as [|a l IH]; intros m ids m' ids'; cbn [parse_mems].
  - intros [= <- _]. reflexivity.
  - destruct (aalloc _ _) as [ta tid]. intros H. apply IH in H. rewrite H. reflexivity.
Qed.

Lemma parse_globals_customs l : forall m ids x, parse_globals m ids l = POk x -> m_customs (fst x) = m_customs m.
Proof.
  induction l as [|[g c] l IH]; intros m ids x; cbn [parse_globals].
  - intros [= <-]. reflexivity.
  - pstep. pstep. intros H. apply IH in H. rewrite H. reflexivity.
Qed.

Lemma parse_exports_customs l : forall m ids m', parse_exports m ids l = POk m' -> m_customs m' = m_customs m.
Proof.
  induction l as [|a l IH]; intros m ids m'; cbn [parse_exports].
  - intros [= <-]. reflexivity.
  - pstep. pstep. intros H. apply IH in H. rewrite H. reflexivity.
Qed.

Lemma parse_elem_customs m ids e x : parse_elem m ids e = POk x -> m_customs (fst x) = m_customs m.
Proof.
  unfold parse_elem.
  match goal with |- pbind ?A _ = _ -> _ => destruct A as [items_| |]; cbn [pbind]; cbv zeta; try (intro; discriminate) end.
  match goal with |- pbind ?A _ = _ -> _ => destruct A as [[m1 kind]| |] eqn:E; cbn [pbind]; cbv zeta; try (intro; discriminate) end.
  assert (Hm1 : m_customs m1 = m_customs m).
  { revert E. repeat pstep; intros [= <- _]; reflexivity. }
  pstep. intros [= <-]. cbn [fst]. rewrite <- Hm1. reflexivity.
Qed.

Lemma parse_elems_customs l : forall m ids x, parse_elems m ids l = POk x -> m_customs (fst x) = m_customs m.
Proof.
  induction l as [|a l IH]; intros m ids x; cbn [parse_elems].
  - intros [= <-]. reflexivity.
  - destruct (parse_elem m ids a) as [y| |] eqn:E; cbn [pbind]; try discriminate.
    intros H. apply IH in H. rewrite H. eapply parse_elem_customs. exact E.
Qed.

Lemma reserve_data_customs n : forall m ids m' ids', reserve_data m ids n = (m', ids') -> m_customs m' = m_customs m.
Proof.
  induction n as [|n IH]; intros m ids m' ids'; cbn [reserve_data].
  - intros [= <- _]. reflexivity.
  - destruct (aalloc _ _) as [da did]. intros H. apply IH in H. rewrite H. reflexivity.
Qed.

Lemma parse_data_from_customs l : forall m ids pre i x,
  parse_data_from m ids pre i l = POk x -> m_customs (fst x) = m_customs m.
Proof.
  induction l as [|d l IH]; intros m ids pre i x; cbn [parse_data_from].
  - intros [= <-]. reflexivity.
  - match goal with |- pbind ?A _ = _ -> _ => destruct A as [[[m1 ids1] id]| |] eqn:E1; cbn [pbind]; cbv zeta; try (intro; discriminate) end.
    assert (H1 : m_customs m1 = m_customs m).
    { revert E1. repeat pstep; intros [= <- _ _]; reflexivity. }
    match goal with |- pbind ?A _ = _ -> _ => destruct A as [[m2 kind]| |] eqn:E2; cbn [pbind]; cbv zeta; try (intro; discriminate) end.
    assert (H2 : m_customs m2 = m_customs m1).
    { revert E2. repeat pstep; intros [= <- _]; reflexivity. }
    pstep. intros H. apply IH in H. rewrite H. cbn [m_customs set_data]. congruence.
Qed.

Lemma parse_data_customs m ids l x : parse_data m ids l = POk x -> m_customs (fst x) = m_customs m.
Proof. unfold parse_data. apply parse_data_from_customs. Qed.

Lemma apply_local_names_customs ids l : forall m m', apply_local_names m ids l = Some m' -> m_customs m' = m_customs m.
Proof.
  induction l as [|[fi names] l IH]; intros m m'; cbn [apply_local_names].
  - intros [= <-]. reflexivity.
  - destruct (nth_N (ii_funcs ids) fi); [|apply IH]. cbv zeta. intros H. apply IH in H. rewrite H. reflexivity.
Qed.

Lemma parse_names_customs m ids n : m_customs (parse_names m ids n) = m_customs m.
Proof.
  unfold parse_names. cbv zeta.
  destruct (apply_local_names _ ids (wn_locals n)) as [w|] eqn:E.
  - transitivity (m_customs w); [reflexivity|].
    apply apply_local_names_customs in E. rewrite E. destruct (wn_module n); reflexivity.
  - destruct (wn_module n); reflexivity.
Qed.

Lemma customs_of_congr m m' : m_customs m' = m_customs m -> customs_of m' = customs_of m.
Proof. unfold customs_of. intros ->. reflexivity. Qed.

Lemma parse_custom_customs s c :
  customs_of (ps_m (parse_custom s c)) = customs_of (ps_m s) ++ raw_customs [S_Custom c].
Proof.
  destruct c as [name data|name data|[n|]|[p|]]; cbn [parse_custom raw_customs flat_map app];
    rewrite ?app_nil_r; try reflexivity.
  unfold customs_of. cbn [ps_m with_m m_customs set_customs]. rewrite flat_map_app. reflexivity.
Qed.

(* the name sections are applied after the bodies are installed *)
Lemma fold_parse_names_customs ids ns : forall m,
  m_customs (fold_left (fun m n => parse_names m ids n) ns m) = m_customs m.
Proof.
  induction ns as [|n ns IH]; intros m; cbn [fold_left]; [reflexivity|].
  rewrite IH. apply parse_names_customs.
Qed.

Lemma parse_sec_customs s sec s' :
  parse_sec s sec = POk s' -> customs_of (ps_m s') = customs_of (ps_m s) ++ raw_customs [sec].
Proof.
  destruct sec; cbn [parse_sec]; cbv zeta;
    try (change (raw_customs [_]) with (@nil (str * list N)); rewrite app_nil_r).
  - destruct (parse_types _ _ _) as [m1 i1] eqn:E. intros [= <-]. apply customs_of_congr.
    eapply parse_types_customs. exact E.
  - pstep. intros [= <-]. apply customs_of_congr. eapply parse_imports_customs. eassumption.
  - pstep. intros [= <-]. apply customs_of_congr. eapply parse_funcs_customs. eassumption.
  - destruct (parse_tables _ _ _) as [m1 i1] eqn:E. intros [= <-]. apply customs_of_congr.
    eapply parse_tables_customs. exact E.
  - destruct (parse_mems _ _ _) as [m1 i1] eqn:E. intros [= <-]. apply customs_of_congr.
    eapply parse_mems_customs. exact E.
  - pstep. intros [= <-]. apply customs_of_congr. eapply parse_globals_customs. eassumption.
  - pstep. intros [= <-]. apply customs_of_congr. eapply parse_exports_customs. eassumption.
  - pstep. intros [= <-]. reflexivity.
  - pstep. intros [= <-]. apply customs_of_congr. eapply parse_elems_customs. eassumption.
  - destruct (reserve_data _ _ _) as [m1 i1] eqn:E. intros [= <-]. apply customs_of_congr.
    eapply reserve_data_customs. exact E.
  - intros [= <-]. reflexivity.
  - pstep. intros [= <-]. apply customs_of_congr. eapply parse_data_customs. eassumption.
  - intros [= <-]. apply parse_custom_customs.
Qed.

Lemma parse_secs_customs w : forall s s',
  parse_secs s w = POk s' -> customs_of (ps_m s') = customs_of (ps_m s) ++ raw_customs w.
Proof.
  induction w as [|x r IH]; intros s s'; cbn [parse_secs].
  - intros [= <-]. cbn. rewrite app_nil_r. reflexivity.
  - destruct (parse_sec s x) as [s1| |] eqn:E; cbn [pbind]; try discriminate.
    intros H. apply IH in H. rewrite H. apply parse_sec_customs in E. rewrite E.
    rewrite <- app_assoc. rewrite <- raw_customs_cons. reflexivity.
Qed.

Lemma add_locals_customs tys : forall m ids fid prefix m' ids' l,
  add_locals m ids fid tys prefix = (m', ids', l) -> m_customs m' = m_customs m.
Proof.
  induction tys as [|t r IH]; intros m ids fid prefix m' ids' l; cbn [add_locals].
  - intros [= <- _ _]. reflexivity.
  - destruct (aalloc _ _) as [la lid]. cbv zeta.
    destruct (add_locals _ _ fid r prefix) as [[m1 ids1] rest] eqn:E. intros [= <- _ _].
    apply IH in E. rewrite E. reflexivity.
Qed.

Lemma prepare_bodies_customs bs : forall m ids ni i m' ids' ps,
  prepare_bodies m ids ni i bs = POk (m', ids', ps) -> m_customs m' = m_customs m.
Proof.
  induction bs as [|b r IH]; intros m ids ni i m' ids' ps; cbn [prepare_bodies].
  - intros [= <- _ _]. reflexivity.
  - pstep. pstep. destruct (fn_kind _); try (intro; discriminate). pstep.
    destruct (add_locals m ids _ _ _) as [[m1 ids1] args] eqn:E1.
    destruct (types_insert m1 _) as [m2 tid] eqn:E2.
    destruct (add_locals m2 ids1 _ _ _) as [[m3 ids3] ls] eqn:E3.
    destruct (prepare_bodies m3 ids3 ni _ r) as [[[m4 ids4] rest]| |] eqn:E4; cbn [pbind]; try discriminate.
    intros [= <- _ _].
    apply IH in E4. apply add_locals_customs in E3. apply types_insert_customs in E2. apply add_locals_customs in E1.
    congruence.
Qed.

Lemma install_bodies_customs ps : forall m ids m', install_bodies m ids ps = POk m' -> m_customs m' = m_customs m.
Proof.
  induction ps as [|p r IH]; intros m ids m'; cbn [install_bodies].
  - intros [= <-]. reflexivity.
  - pstep. intros H. apply IH in H. rewrite H. reflexivity.
Qed.

(* the shape of a successful Module::parse *)
Lemma parseM_inv cf ver w s : parseM cf ver w = POk s ->
  exists s1 m1 ids1 prepared m2,
    parse_secs {| ps_m := empty_wir cf; ps_ids := empty_i2ids; ps_bodies := []; ps_names := []; ps_calls_on_parse := 0%N |} w = POk s1 /\
    prepare_bodies (ps_m s1) (ps_ids s1)
       (len_N (iter (m_funcs (ps_m s1))) - len_N (ps_bodies s1))%N 0%N (ps_bodies s1) = POk (m1, ids1, prepared) /\
    install_bodies m1 ids1 prepared = POk m2 /\
    let m2' := fold_left (fun m n => parse_names m ids1 n) (ps_names s1) m2 in
    s = {| ps_m := set_producers m2' (producers_field (m_producers m2') s_processed_by s_walrus ver);
           ps_ids := ids1; ps_bodies := []; ps_names := []; ps_calls_on_parse := (ps_calls_on_parse s1 + 1)%N |}.
Proof.
  unfold parseM. cbv zeta.
  destruct (parse_secs _ w) as [s1| |] eqn:E1; cbn [pbind]; try discriminate.
  destruct (_ <? _)%N; try discriminate.
  destruct (prepare_bodies _ _ _ _ _) as [[[m1 ids1] prepared]| |] eqn:E2; cbn [pbind]; try discriminate.
  destruct (install_bodies m1 ids1 prepared) as [m2| |] eqn:E3; cbn [pbind]; try discriminate.
  intros [= <-]. exists s1, m1, ids1, prepared, m2. repeat split; assumption.
Qed.

(* 1 *)
Theorem parse_customs : forall cf ver w s, parseM cf ver w = POk s -> customs_of (ps_m s) = raw_customs w.
Proof.
  intros cf ver w s H. apply parseM_inv in H. destruct H as (s1 & m1 & ids1 & prepared & m2 & E1 & E2 & E3 & ->).
  apply parse_secs_customs in E1. apply prepare_bodies_customs in E2. apply install_bodies_customs in E3.
  cbn [ps_m] in *. transitivity (customs_of (ps_m s1)); [|rewrite E1; reflexivity].
  apply customs_of_congr. cbn [m_customs set_producers]. rewrite fold_parse_names_customs. congruence.
Qed.

(* 8 *)
Lemma parse_sec_calls s sec s' : parse_sec s sec = POk s' -> ps_calls_on_parse s' = ps_calls_on_parse s.
Proof.
  destruct sec; cbn [parse_sec]; cbv zeta; repeat pstep; intros [= <-]; try reflexivity.
  destruct c as [? ?|? ?|[?|]|[?|]]; reflexivity.
Qed.
Lemma parse_secs_calls w : forall s s', parse_secs s w = POk s' -> ps_calls_on_parse s' = ps_calls_on_parse s.
Proof.
  induction w as [|x r IH]; intros s s'; cbn [parse_secs].
  - intros [= <-]. reflexivity.
  - destruct (parse_sec s x) as [s1| |] eqn:E; cbn [pbind]; try discriminate.
    intros H. apply IH in H. rewrite H. eapply parse_sec_calls. exact E.
Qed.
Theorem parse_callback_once : forall cf ver w s, parseM cf ver w = POk s -> ps_calls_on_parse s = 1%N.
Proof.
  intros cf ver w s H. apply parseM_inv in H. destruct H as (s1 & m1 & ids1 & prepared & m2 & E1 & _ & _ & ->).
  apply parse_secs_calls in E1. cbn [ps_calls_on_parse] in *. rewrite E1. reflexivity.
Qed.

(* ================================================================== C. emit side *)

(* sections other than custom sections *)
Definition is_custom (s : wsec) : bool := match s with S_Custom _ => true | _ => false end.
Definition plain_secs (l : list wsec) : Prop := Forall (fun s => is_custom s = false) l.

Lemma plain_raw l : plain_secs l -> raw_customs l = [].
Proof.
  induction 1 as [|s l Hs _ IH]; [reflexivity|]. rewrite raw_customs_cons, IH.
  destruct s; try discriminate; reflexivity.
Qed.
Lemma plain_filter (f : wsec -> bool) l :
  (forall s, is_custom s = false -> f s = true) -> plain_secs l -> filter f l = l.
Proof.
  intros Hf Hl. apply filter_id. intros s Hs. apply Hf. unfold plain_secs in Hl. rewrite Forall_forall in Hl.
  apply Hl. exact Hs.
Qed.
Lemma plain_app a b : plain_secs a -> plain_secs b -> plain_secs (a ++ b).
Proof. intros Ha Hb. apply Forall_app. split; assumption. Qed.

(* head-driven case analysis of a [res] computation in  [comp = Ok x -> concl]  goals *)
Ltac estep :=
  match goal with
  | |- rbind ?A _ = _ -> _ => destruct A eqn:?; cbn [rbind]; cbv zeta; try (intro; discriminate)
  | |- match ?e with _ => _ end = _ -> _ => destruct e eqn:?; cbv zeta; try (intro; discriminate)
  end.
Ltac plain_tac := cbv zeta; repeat estep; intros [= <- ]; repeat constructor.
Ltac plain_tac2 := cbv zeta; repeat estep; intros [= <- _]; repeat constructor.
Ltac plain_tac3 := cbv zeta; repeat estep; intros [= <- _ _]; repeat constructor.

Lemma emit_types_plain m x l x' : emit_types m x = (l, x') -> plain_secs l.
Proof. unfold emit_types. plain_tac2. Qed.
Lemma emit_imports_plain m x l x' : emit_imports m x = Ok (l, x') -> plain_secs l.
Proof. unfold emit_imports. plain_tac2. Qed.
Lemma emit_func_section_plain m x l x' : emit_func_section m x = Ok (l, x') -> plain_secs l.
Proof. unfold emit_func_section. plain_tac2. Qed.
Lemma emit_tables_plain m x l x' : emit_tables m x = (l, x') -> plain_secs l.
Proof. unfold emit_tables. plain_tac2. Qed.
Lemma emit_memories_plain m x l x' : emit_memories m x = (l, x') -> plain_secs l.
Proof. unfold emit_memories. plain_tac2. Qed.
Lemma emit_globals_plain m x l x' : emit_globals m x = Ok (l, x') -> plain_secs l.
Proof. unfold emit_globals. plain_tac2. Qed.
Lemma emit_exports_plain m x l : emit_exports m x = Ok l -> plain_secs l.
Proof. unfold emit_exports. plain_tac. Qed.
Lemma emit_elements_plain m x l x' : emit_elements m x = Ok (l, x') -> plain_secs l.
Proof. unfold emit_elements. plain_tac2. Qed.
Lemma emit_data_count_plain m x l x' : emit_data_count m x = Ok (l, x') -> plain_secs l.
Proof. unfold emit_data_count. plain_tac2. Qed.
Lemma emit_code_plain m x ilen l x' efs : emit_code m x ilen = Ok (l, x', efs) -> plain_secs l.
Proof. unfold emit_code. plain_tac3. Qed.
Lemma emit_data_plain m x l : emit_data m x = Ok l -> plain_secs l.
Proof. unfold emit_data. plain_tac. Qed.

(* the name section: nothing, or exactly one CS_Name section *)
Lemma emit_names_shape m x efs l : emit_names m x efs = Ok l -> l = [] \/ exists n, l = [S_Custom (CS_Name (Some n))].
Proof.
  unfold emit_names. cbv zeta. repeat estep; intros [= <-]; (left; reflexivity) || (right; eexists; reflexivity).
Qed.

(* --- emitM = front (type .. data sections) ; name ; producers ; dwarf ; customs *)
Definition emit_front (m0 : wir) (ilen : wins -> N) : res (list wsec * x2i * list emitted_fn) :=
  let '(s_ty, x) := emit_types m0 empty_x2i in
  a <- emit_imports m0 x ;; let '(s_im, x) := a in
  a <- emit_func_section m0 x ;; let '(s_fn, x) := a in
  let '(s_tb, x) := emit_tables m0 x in
  let '(s_me, x) := emit_memories m0 x in
  a <- emit_globals m0 x ;; let '(s_gl, x) := a in
  s_ex <- emit_exports m0 x ;;
  s_st <- match m_start m0 with Some f => i <- get_idx x S_func f ;; Ok [S_Start i] | None => Ok [] end ;;
  a <- emit_elements m0 x ;; let '(s_el, x) := a in
  a <- emit_data_count m0 x ;; let '(s_dc, x) := a in
  a <- emit_code m0 x ilen ;; let '(s_co, x, efs) := a in
  s_da <- emit_data m0 x ;;
  Ok (s_ty ++ s_im ++ s_fn ++ s_tb ++ s_me ++ s_gl ++ s_ex ++ s_st ++ s_el ++ s_dc ++ s_co ++ s_da, x, efs).

Definition sec_names (cf : config) (m0 : wir) (x : x2i) (efs : list emitted_fn) : res (list wsec) :=
  if cf_skip_name cf then Ok [] else emit_names m0 x efs.
Definition sec_producers (cf : config) (p : wproducers) : list wsec :=
  if cf_skip_producers cf then [] else match p with [] => [] | p => [S_Custom (CS_Producers (Some p))] end.
Definition sec_dwarf (cf : config) (dw : list wsec) : list wsec := if cf_generate_dwarf cf then dw else [].
Definition sec_customs (cs : list (option mcustom)) : list wsec :=
  flat_map (fun c => match c with
                     | Some c => if starts_with_debug (cu_name c) then [] else [S_Custom (CS_Raw (cu_name c) (cu_data c))]
                     | None => [] end) cs.
Definition emit_tail (m m0 : wir) (dw : list wsec) (f : list wsec * x2i * list emitted_fn) : res emitted :=
  let '(front, x, efs) := f in
  s_nm <- sec_names (m_config m) m0 x efs ;;
  Ok {| em_secs := front ++ s_nm ++ sec_producers (m_config m) (m_producers m0) ++ sec_dwarf (m_config m) dw ++ sec_customs (m_customs m);
        em_module := m0; em_x2i := x; em_fns := efs |}.

Lemma emitM_factor m ilen dw :
  emitM m ilen dw = rbind (emit_front (set_customs_take m) ilen) (emit_tail m (set_customs_take m) dw).
Proof.
  unfold emitM, emit_front, emit_tail, sec_names, sec_producers, sec_dwarf, sec_customs. cbv zeta.
  generalize (set_customs_take m) as m0. intros m0.
  repeat match goal with
  | |- rbind ?A _ = _ => destruct A as [?| |]; cbn [rbind]; try reflexivity
  | |- match ?e with _ => _ end = _ => destruct e; cbn [rbind]
  end.
  (* [| p => .. p ..] on a non-variable scrutinee is compiled with the scrutinee substituted for [p] *)
  rewrite <- !app_assoc. destruct (m_producers m0); reflexivity.
Qed.

Lemma emit_front_plain m0 ilen front x efs : emit_front m0 ilen = Ok (front, x, efs) -> plain_secs front.
Proof.
  unfold emit_front.
  destruct (emit_types m0 empty_x2i) as [s_ty x0] eqn:E0. apply emit_types_plain in E0.
  destruct (emit_imports m0 x0) as [[s_im x1]| |] eqn:E1; cbn [rbind]; try discriminate. apply emit_imports_plain in E1.
  destruct (emit_func_section m0 x1) as [[s_fn x2]| |] eqn:E2; cbn [rbind]; try discriminate. apply emit_func_section_plain in E2.
  destruct (emit_tables m0 x2) as [s_tb x3] eqn:E3. apply emit_tables_plain in E3.
  destruct (emit_memories m0 x3) as [s_me x4] eqn:E4. apply emit_memories_plain in E4.
  destruct (emit_globals m0 x4) as [[s_gl x5]| |] eqn:E5; cbn [rbind]; try discriminate. apply emit_globals_plain in E5.
  destruct (emit_exports m0 x5) as [s_ex| |] eqn:E6; cbn [rbind]; try discriminate. apply emit_exports_plain in E6.
  match goal with |- rbind ?A _ = _ -> _ => destruct A as [s_st| |] eqn:E7; cbn [rbind]; try discriminate end.
  assert (P7 : plain_secs s_st).
  { revert E7. repeat estep; intros [= <-]; repeat constructor. }
  destruct (emit_elements m0 x5) as [[s_el x6]| |] eqn:E8; cbn [rbind]; try discriminate. apply emit_elements_plain in E8.
  destruct (emit_data_count m0 x6) as [[s_dc x7]| |] eqn:E9; cbn [rbind]; try discriminate. apply emit_data_count_plain in E9.
  destruct (emit_code m0 x7 ilen) as [[[s_co x8] efs']| |] eqn:E10; cbn [rbind]; try discriminate. apply emit_code_plain in E10.
  destruct (emit_data m0 x8) as [s_da| |] eqn:E11; cbn [rbind]; try discriminate. apply emit_data_plain in E11.
  intros [= <- _ _]. repeat apply plain_app; assumption.
Qed.

Lemma sec_names_raw cf m0 x efs l : sec_names cf m0 x efs = Ok l -> raw_customs l = [].
Proof.
  unfold sec_names. destruct (cf_skip_name cf).
  - intros [= <-]. reflexivity.
  - intros H. apply emit_names_shape in H. destruct H as [->|[n ->]]; reflexivity.
Qed.
Lemma sec_producers_raw cf p : raw_customs (sec_producers cf p) = [].
Proof. unfold sec_producers. destruct (cf_skip_producers cf); [reflexivity|]. destruct p; reflexivity. Qed.
Lemma sec_customs_raw cs :
  raw_customs (sec_customs cs) =
  filter (fun c => negb (starts_with_debug (fst c)))
         (flat_map (fun c => match c with Some c => [(cu_name c, cu_data c)] | None => [] end) cs).
Proof.
  induction cs as [|[c|] cs IH]; [reflexivity| |exact IH].
  unfold sec_customs in *. cbn [flat_map]. rewrite raw_customs_app, filter_app, IH. f_equal.
  cbn [filter fst]. destruct (starts_with_debug (cu_name c)); reflexivity.
Qed.

(* 2 *)
Theorem emit_customs : forall m ilen dw e, emitM m ilen dw = Ok e -> raw_customs dw = [] ->
  raw_customs (em_secs e) = filter (fun c => negb (starts_with_debug (fst c))) (customs_of m).
Proof.
  intros m ilen dw e H Hdw. rewrite emitM_factor in H.
  destruct (emit_front (set_customs_take m) ilen) as [[[front x] efs]| |] eqn:Ef; cbn [rbind] in H; try discriminate.
  apply emit_front_plain, plain_raw in Ef. unfold emit_tail in H.
  destruct (sec_names _ _ x efs) as [s_nm| |] eqn:En; cbn [rbind] in H; try discriminate.
  apply sec_names_raw in En. injection H as <-. cbn [em_secs].
  rewrite !raw_customs_app, Ef, En, sec_producers_raw, sec_customs_raw. cbn [app].
  replace (raw_customs (sec_dwarf (m_config m) dw)) with (@nil (str * list N)); [reflexivity|].
  unfold sec_dwarf. destruct (cf_generate_dwarf _); [symmetry; exact Hdw|reflexivity].
Qed.

(* 3 *)
Theorem c12_roundtrip : forall cf ver w s ilen dw e,
  parseM cf ver w = POk s -> emitM (ps_m s) ilen dw = Ok e -> raw_customs dw = [] ->
  raw_customs (em_secs e) = filter (fun c => negb (starts_with_debug (fst c))) (raw_customs w).
Proof.
  intros cf ver w s ilen dw e Hp He Hdw. rewrite (emit_customs _ _ _ _ He Hdw).
  rewrite (parse_customs _ _ _ _ Hp). reflexivity.
Qed.

(* the module handed back is the one the sections were emitted from *)
Lemma emit_module_is_take m ilen dw e : emitM m ilen dw = Ok e -> em_module e = set_customs_take m.
Proof.
  intros H. rewrite emitM_factor in H.
  destruct (emit_front (set_customs_take m) ilen) as [[[front x] efs]| |]; cbn [rbind] in H; try discriminate.
  unfold emit_tail in H. destruct (sec_names _ _ x efs); cbn [rbind] in H; try discriminate.
  injection H as <-. reflexivity.
Qed.

(* ================================================================== D. gc_sweep *)
(* 4 *)
Theorem gc_customs : forall m m', gc_sweep m = Ok m' -> m_customs m' = m_customs m.
Proof. intros m m'. unfold gc_sweep. repeat estep. intros [= <-]. reflexivity. Qed.

(* ================================================================== E. the two switches *)
(* the emitters read neither [m_config] nor [m_customs] *)
Definition same_core (a b : wir) : Prop :=
  m_imports a = m_imports b /\ m_tables a = m_tables b /\ m_types a = m_types b /\ m_funcs a = m_funcs b /\
  m_globals a = m_globals b /\ m_locals a = m_locals b /\ m_exports a = m_exports b /\ m_memories a = m_memories b /\
  m_data a = m_data b /\ m_elements a = m_elements b /\ m_start a = m_start b /\ m_producers a = m_producers b /\
  m_debug a = m_debug b /\ m_name a = m_name b /\ m_code_section_offset a = m_code_section_offset b.

Lemma same_core_refl a : same_core a a.
Proof. repeat split. Qed.
Lemma same_core_sym a b : same_core a b -> same_core b a.
Proof. unfold same_core. intuition congruence. Qed.
Lemma same_core_trans a b c : same_core a b -> same_core b c -> same_core a c.
Proof. unfold same_core. intuition congruence. Qed.
Lemma same_core_set_config m cf : same_core (set_config m cf) m.
Proof. repeat split. Qed.

Ltac core_rw H :=
  let Hi := fresh in let Ht := fresh in let Hty := fresh in let Hf := fresh in let Hg := fresh in
  let Hl := fresh in let He := fresh in let Hm := fresh in let Hd := fresh in let Hel := fresh in
  let Hs := fresh in let Hp := fresh in let Hdb := fresh in let Hn := fresh in let Hc := fresh in
  destruct H as (Hi & Ht & Hty & Hf & Hg & Hl & He & Hm & Hd & Hel & Hs & Hp & Hdb & Hn & Hc);
  rewrite ?Hi, ?Ht, ?Hty, ?Hf, ?Hg, ?Hl, ?He, ?Hm, ?Hd, ?Hel, ?Hs, ?Hp, ?Hdb, ?Hn, ?Hc.

Section Core.
  Variables m1 m2 : wir.
  Hypothesis H : same_core m1 m2.

  Lemma emit_types_core x : emit_types m1 x = emit_types m2 x.
  Proof. unfold emit_types, live_types. core_rw H. reflexivity. Qed.
  Lemma emit_import_core x i : emit_import m1 x i = emit_import m2 x i.
  Proof. unfold emit_import. core_rw H. reflexivity. Qed.
  Lemma emit_imports_l_core l : forall x, emit_imports_l m1 x l = emit_imports_l m2 x l.
  Proof.
    induction l as [|i r IH]; intros x; cbn [emit_imports_l]; [reflexivity|].
    rewrite emit_import_core. destruct (emit_import m2 x i) as [a| |]; cbn [rbind]; try reflexivity.
    rewrite IH. reflexivity.
  Qed.
  Lemma emit_imports_core x : emit_imports m1 x = emit_imports m2 x.
  Proof.
    unfold emit_imports. replace (m_imports m1) with (m_imports m2) by (symmetry; apply H).
    destruct (map snd _); [reflexivity|]. rewrite emit_imports_l_core. reflexivity.
  Qed.
  Lemma used_local_functions_core : used_local_functions m1 = used_local_functions m2.
  Proof. unfold used_local_functions. core_rw H. reflexivity. Qed.
  Lemma emit_func_section_core x : emit_func_section m1 x = emit_func_section m2 x.
  Proof. unfold emit_func_section. rewrite used_local_functions_core. reflexivity. Qed.
  Lemma emit_tables_core x : emit_tables m1 x = emit_tables m2 x.
  Proof. unfold emit_tables. core_rw H. reflexivity. Qed.
  Lemma emit_memories_core x : emit_memories m1 x = emit_memories m2 x.
  Proof. unfold emit_memories. core_rw H. reflexivity. Qed.
  Lemma emit_globals_core x : emit_globals m1 x = emit_globals m2 x.
  Proof. unfold emit_globals. core_rw H. reflexivity. Qed.
  Lemma emit_exports_core x : emit_exports m1 x = emit_exports m2 x.
  Proof. unfold emit_exports. core_rw H. reflexivity. Qed.
  Lemma emit_elements_core x : emit_elements m1 x = emit_elements m2 x.
  Proof. unfold emit_elements. core_rw H. reflexivity. Qed.
  Lemma emit_data_count_core x : emit_data_count m1 x = emit_data_count m2 x.
  Proof. unfold emit_data_count. core_rw H. reflexivity. Qed.
  Lemma emit_code_core x ilen : emit_code m1 x ilen = emit_code m2 x ilen.
  Proof. unfold emit_code, emit_function, local_ty_fn. rewrite used_local_functions_core. core_rw H. reflexivity. Qed.
  Lemma emit_data_core x : emit_data m1 x = emit_data m2 x.
  Proof. unfold emit_data. core_rw H. reflexivity. Qed.
  Lemma emit_names_core x efs : emit_names m1 x efs = emit_names m2 x efs.
  Proof. unfold emit_names, live_types. core_rw H. reflexivity. Qed.

  Lemma emit_front_core ilen : emit_front m1 ilen = emit_front m2 ilen.
  Proof.
    unfold emit_front.
    rewrite emit_types_core. destruct (emit_types m2 empty_x2i) as [s_ty x0].
    rewrite emit_imports_core. destruct (emit_imports m2 x0) as [[s_im x1]| |]; cbn [rbind]; try reflexivity.
    rewrite emit_func_section_core. destruct (emit_func_section m2 x1) as [[s_fn x2]| |]; cbn [rbind]; try reflexivity.
    rewrite emit_tables_core. destruct (emit_tables m2 x2) as [s_tb x3].
    rewrite emit_memories_core. destruct (emit_memories m2 x3) as [s_me x4].
    rewrite emit_globals_core. destruct (emit_globals m2 x4) as [[s_gl x5]| |]; cbn [rbind]; try reflexivity.
    rewrite emit_exports_core. destruct (emit_exports m2 x5) as [s_ex| |]; cbn [rbind]; try reflexivity.
    replace (m_start m1) with (m_start m2) by (symmetry; apply H).
    match goal with |- rbind ?A _ = _ => destruct A as [s_st| |]; cbn [rbind]; try reflexivity end.
    rewrite emit_elements_core. destruct (emit_elements m2 x5) as [[s_el x6]| |]; cbn [rbind]; try reflexivity.
    rewrite emit_data_count_core. destruct (emit_data_count m2 x6) as [[s_dc x7]| |]; cbn [rbind]; try reflexivity.
    rewrite emit_code_core. destruct (emit_code m2 x7 ilen) as [[[s_co x8] efs]| |]; cbn [rbind]; try reflexivity.
    rewrite emit_data_core. reflexivity.
  Qed.
End Core.

Lemma filter_name_plain l : plain_secs l -> filter (fun s => negb (is_name_sec s)) l = l.
Proof. apply plain_filter. intros [] Hs; try discriminate; reflexivity. Qed.
Lemma filter_prod_plain l : plain_secs l -> filter (fun s => negb (is_producers_sec s)) l = l.
Proof. apply plain_filter. intros [] Hs; try discriminate; reflexivity. Qed.

Lemma sec_customs_no_name cs : filter (fun s => negb (is_name_sec s)) (sec_customs cs) = sec_customs cs.
Proof.
  apply filter_id. intros s Hs. unfold sec_customs in Hs. apply in_flat_map in Hs. destruct Hs as ([c|] & _ & Hc); [|destruct Hc].
  destruct (starts_with_debug _); [destruct Hc|]. destruct Hc as [<-|[]]. reflexivity.
Qed.
Lemma sec_customs_no_prod cs : filter (fun s => negb (is_producers_sec s)) (sec_customs cs) = sec_customs cs.
Proof.
  apply filter_id. intros s Hs. unfold sec_customs in Hs. apply in_flat_map in Hs. destruct Hs as ([c|] & _ & Hc); [|destruct Hc].
  destruct (starts_with_debug _); [destruct Hc|]. destruct Hc as [<-|[]]. reflexivity.
Qed.
Lemma sec_producers_no_name cf p : filter (fun s => negb (is_name_sec s)) (sec_producers cf p) = sec_producers cf p.
Proof. unfold sec_producers. destruct (cf_skip_producers cf); [reflexivity|]. destruct p; reflexivity. Qed.
Lemma sec_producers_all_prod cf p : filter (fun s => negb (is_producers_sec s)) (sec_producers cf p) = [].
Proof. unfold sec_producers. destruct (cf_skip_producers cf); [reflexivity|]. destruct p; reflexivity. Qed.
Lemma sec_names_all_name cf m0 x efs l :
  sec_names cf m0 x efs = Ok l -> filter (fun s => negb (is_name_sec s)) l = [].
Proof.
  unfold sec_names. destruct (cf_skip_name cf).
  - intros [= <-]. reflexivity.
  - intros H. apply emit_names_shape in H. destruct H as [->|[n ->]]; reflexivity.
Qed.
Lemma sec_names_no_prod cf m0 x efs l :
  sec_names cf m0 x efs = Ok l -> filter (fun s => negb (is_producers_sec s)) l = l.
Proof.
  unfold sec_names. destruct (cf_skip_name cf).
  - intros [= <-]. reflexivity.
  - intros H. apply emit_names_shape in H. destruct H as [->|[n ->]]; reflexivity.
Qed.
Lemma sec_dwarf_filter (f : wsec -> bool) cf dw :
  (forall s, In s dw -> f s = false) -> filter (fun s => negb (f s)) (sec_dwarf cf dw) = sec_dwarf cf dw.
Proof.
  intros Hdw. unfold sec_dwarf. destruct (cf_generate_dwarf cf); [|reflexivity].
  apply filter_id. intros s Hs. rewrite (Hdw s Hs). reflexivity.
Qed.

(* Everything below in this section uses ONE fact about [set_customs_take]: it leaves the fields the
   emitters read alone.  It is discharged in block G. *)
Section TakeGeneric.
  Hypothesis take_core : forall m, same_core (set_customs_take m) m.

  Lemma take_config_core m cf : same_core (set_customs_take (set_config m cf)) (set_customs_take m).
  Proof.
    eapply same_core_trans; [apply take_core|].
    eapply same_core_trans; [apply same_core_set_config|]. apply same_core_sym, take_core.
  Qed.

  Lemma c14_name_switch_gen : forall m ilen dw e,
    cf_skip_name (m_config m) = false -> emitM m ilen dw = Ok e ->
    (forall s, In s dw -> is_name_sec s = false) ->
    exists e', emitM (set_skip_name m true) ilen dw = Ok e' /\
               em_secs e' = filter (fun s => negb (is_name_sec s)) (em_secs e).
  Proof.
    intros m ilen dw e Hcf He Hdw. rewrite emitM_factor in He |- *.
    unfold set_skip_name at 1. rewrite (emit_front_core _ _ (take_config_core m _)).
    destruct (emit_front (set_customs_take m) ilen) as [[[front x] efs]| |] eqn:Ef; cbn [rbind] in *; try discriminate.
    apply emit_front_plain in Ef. unfold emit_tail in *.
    destruct (sec_names (m_config m) _ x efs) as [s_nm| |] eqn:En; cbn [rbind] in He; try discriminate.
    injection He as <-. unfold sec_names at 1. cbn [m_config set_skip_name set_config cf_skip_name rbind].
    eexists. split; [reflexivity|]. cbn [em_secs].
    rewrite !filter_app, (filter_name_plain _ Ef), (sec_names_all_name _ _ _ _ _ En),
            sec_producers_no_name, (sec_dwarf_filter is_name_sec _ _ Hdw), sec_customs_no_name.
    replace (m_producers (set_customs_take (set_skip_name m true))) with (m_producers (set_customs_take m))
      by (symmetry; apply (take_config_core m _)).
    reflexivity.
  Qed.

  Lemma c14_producers_switch_gen : forall m ilen dw e,
    cf_skip_producers (m_config m) = false -> emitM m ilen dw = Ok e ->
    (forall s, In s dw -> is_producers_sec s = false) ->
    exists e', emitM (set_skip_producers m true) ilen dw = Ok e' /\
               em_secs e' = filter (fun s => negb (is_producers_sec s)) (em_secs e).
  Proof.
    intros m ilen dw e Hcf He Hdw. rewrite emitM_factor in He |- *.
    unfold set_skip_producers at 1. rewrite (emit_front_core _ _ (take_config_core m _)).
    destruct (emit_front (set_customs_take m) ilen) as [[[front x] efs]| |] eqn:Ef; cbn [rbind] in *; try discriminate.
    apply emit_front_plain in Ef. unfold emit_tail in *.
    assert (En' : sec_names (m_config (set_skip_producers m true)) (set_customs_take (set_skip_producers m true)) x efs
                  = sec_names (m_config m) (set_customs_take m) x efs).
    { unfold sec_names. cbn [m_config set_skip_producers set_config cf_skip_name].
      destruct (cf_skip_name (m_config m)); [reflexivity|]. apply emit_names_core. apply (take_config_core m _). }
    rewrite En'.
    destruct (sec_names (m_config m) _ x efs) as [s_nm| |] eqn:En; cbn [rbind] in He |- *; try discriminate.
    injection He as <-.
    eexists. split; [reflexivity|]. cbn [em_secs].
    rewrite !filter_app, (filter_prod_plain _ Ef), (sec_names_no_prod _ _ _ _ _ En),
            sec_producers_all_prod, (sec_dwarf_filter is_producers_sec _ _ Hdw), sec_customs_no_prod.
    reflexivity.
  Qed.
End TakeGeneric.

(* ================================================================== F. producers *)
Lemma str_eqb_eq a : forall b, str_eqb a b = true <-> a = b.
Proof.
  induction a as [|x a IH]; intros [|y b]; cbn [str_eqb]; split; intros H; try discriminate; try reflexivity.
  - apply andb_true_iff in H. destruct H as [Hx Hr]. apply N.eqb_eq in Hx. apply IH in Hr. congruence.
  - injection H as -> ->. rewrite N.eqb_refl. cbn [andb]. apply IH. reflexivity.
Qed.
Lemma str_eqb_refl a : str_eqb a a = true.
Proof. apply str_eqb_eq. reflexivity. Qed.
Lemma str_eqb_sym a b : str_eqb a b = str_eqb b a.
Proof.
  destruct (str_eqb a b) eqn:E1, (str_eqb b a) eqn:E2; try reflexivity.
  - apply str_eqb_eq in E1. subst. rewrite str_eqb_refl in E2. discriminate.
  - apply str_eqb_eq in E2. subst. rewrite str_eqb_refl in E1. discriminate.
Qed.
Lemma str_eqb_trans a b c : str_eqb a b = true -> str_eqb b c = true -> str_eqb a c = true.
Proof. rewrite !str_eqb_eq. congruence. Qed.

Definition is_walrus (nv : str * str) : bool := str_eqb (fst nv) s_walrus.
Definition count_walrus (vs : list (str * str)) : nat := length (filter is_walrus vs).
(* number of (name, version) pairs named "walrus" inside fields named "processed-by" *)
Fixpoint walrus_entries (p : wproducers) : nat :=
  match p with
  | [] => 0
  | (f, vs) :: r => (if str_eqb f s_processed_by then count_walrus vs else 0) + walrus_entries r
  end.
Fixpoint field_names_distinctb (p : wproducers) : bool :=
  match p with
  | [] => true
  | (f, _) :: r => forallb (fun g => negb (str_eqb f (fst g))) r && field_names_distinctb r
  end.
Definition field_names_distinct (p : wproducers) : Prop := field_names_distinctb p = true.

Lemma count_walrus_cons n v r : count_walrus ((n, v) :: r) = (if str_eqb n s_walrus then 1 else 0) + count_walrus r.
Proof. unfold count_walrus, is_walrus. cbn [filter fst]. destruct (str_eqb n s_walrus); reflexivity. Qed.
Lemma count_walrus_app a b : count_walrus (a ++ b) = count_walrus a + count_walrus b.
Proof. unfold count_walrus. rewrite filter_app, app_length. reflexivity. Qed.

Lemma replace_value_Some vs ver : forall vs',
  replace_value vs s_walrus ver = Some vs' -> count_walrus vs' = count_walrus vs /\ 1 <= count_walrus vs.
Proof.
  induction vs as [|[n v] r IH]; intros vs'; cbn [replace_value]; [discriminate|].
  destruct (str_eqb n s_walrus) eqn:E.
  - intros [= <-]. rewrite !count_walrus_cons, E, str_eqb_refl. lia.
  - destruct (replace_value r s_walrus ver) as [r'|]; cbn [option_map]; [|discriminate].
    intros [= <-]. rewrite !count_walrus_cons, E. destruct (IH r' eq_refl). lia.
Qed.
Lemma replace_value_None vs ver : replace_value vs s_walrus ver = None -> count_walrus vs = 0.
Proof.
  induction vs as [|[n v] r IH]; cbn [replace_value]; [reflexivity|].
  destruct (str_eqb n s_walrus) eqn:E; [discriminate|].
  destruct (replace_value r s_walrus ver); cbn [option_map]; [discriminate|].
  intros _. rewrite count_walrus_cons, E. rewrite IH; reflexivity.
Qed.

Lemma no_processed_by_after f r :
  forallb (fun g => negb (str_eqb f (fst g))) r = true -> str_eqb f s_processed_by = true -> walrus_entries r = 0.
Proof.
  intros Hall Hf. induction r as [|[g vs] r IH]; [reflexivity|].
  cbn [forallb fst] in Hall. apply andb_true_iff in Hall. destruct Hall as [Hg Hr].
  cbn [walrus_entries]. rewrite (IH Hr).
  destruct (str_eqb g s_processed_by) eqn:E; [|reflexivity].
  apply str_eqb_eq in Hf. apply str_eqb_eq in E. subst. rewrite str_eqb_refl in Hg. discriminate.
Qed.

(* 7a *)
Theorem producers_once : forall p ver, field_names_distinct p -> walrus_entries p <= 1 ->
  walrus_entries (producers_field p s_processed_by s_walrus ver) = 1.
Proof.
  unfold field_names_distinct. intros p ver. induction p as [|[f vs] r IH]; intros Hd Hle.
  - reflexivity.
  - cbn [producers_field]. cbn [field_names_distinctb] in Hd. apply andb_true_iff in Hd. destruct Hd as [Hf Hr].
    cbn [walrus_entries] in Hle. destruct (str_eqb f s_processed_by) eqn:E.
    + cbn [walrus_entries]. rewrite E. rewrite (no_processed_by_after f r Hf E) in *.
      destruct (replace_value vs s_walrus ver) as [vs'|] eqn:R.
      * apply replace_value_Some in R. lia.
      * apply replace_value_None in R. rewrite count_walrus_app, R, count_walrus_cons, str_eqb_refl. reflexivity.
    + cbn [walrus_entries]. rewrite E. cbn [plus]. apply IH; [exact Hr|lia].
Qed.

(* 7b *)
Lemma replace_value_fix vs name ver : forall vs',
  replace_value vs name ver = Some vs' -> replace_value vs' name ver = Some vs'.
Proof.
  induction vs as [|[n v] r IH]; intros vs'; cbn [replace_value]; [discriminate|].
  destruct (str_eqb n name) eqn:E.
  - intros [= <-]. cbn [replace_value]. rewrite str_eqb_refl. reflexivity.
  - destruct (replace_value r name ver) as [r'|] eqn:R; cbn [option_map]; [|discriminate].
    intros [= <-]. cbn [replace_value]. rewrite E, (IH r' eq_refl). reflexivity.
Qed.
Lemma replace_value_appended vs name ver :
  replace_value vs name ver = None -> replace_value (vs ++ [(name, ver)]) name ver = Some (vs ++ [(name, ver)]).
Proof.
  induction vs as [|[n v] r IH]; cbn [replace_value app].
  - intros _. rewrite str_eqb_refl. reflexivity.
  - destruct (str_eqb n name) eqn:E; [discriminate|].
    destruct (replace_value r name ver); cbn [option_map]; [discriminate|].
    intros _. rewrite (IH eq_refl). reflexivity.
Qed.

Lemma producers_field_idempotent p field name ver :
  producers_field (producers_field p field name ver) field name ver = producers_field p field name ver.
Proof.
  induction p as [|[f vs] r IH]; cbn [producers_field].
  - rewrite str_eqb_refl. cbn [replace_value]. rewrite str_eqb_refl. reflexivity.
  - destruct (str_eqb f field) eqn:E; cbn [producers_field]; rewrite E.
    + destruct (replace_value vs name ver) as [vs'|] eqn:R.
      * rewrite (replace_value_fix _ _ _ _ R). reflexivity.
      * rewrite (replace_value_appended _ _ _ R). reflexivity.
    + rewrite IH. reflexivity.
Qed.
Theorem producers_idempotent : forall p ver,
  producers_field (producers_field p s_processed_by s_walrus ver) s_processed_by s_walrus ver
  = producers_field p s_processed_by s_walrus ver.
Proof. intros. apply producers_field_idempotent. Qed.

(* 7c: remove the walrus entries of processed-by fields, then drop the fields left without values *)
Definition not_walrus (nv : str * str) : bool := negb (is_walrus nv).
Definition strip_values (f : str) (vs : list (str * str)) : list (str * str) :=
  if str_eqb f s_processed_by then filter not_walrus vs else vs.
Definition has_values (fv : str * list (str * str)) : bool := match snd fv with [] => false | _ => true end.
Definition strip_walrus (p : wproducers) : wproducers :=
  filter has_values (map (fun fv => (fst fv, strip_values (fst fv) (snd fv))) p).
(* the same, dropping only processed-by fields that are left without values (other empty fields are kept) *)
Definition strip_walrus_strict (p : wproducers) : wproducers :=
  filter (fun fv => negb (str_eqb (fst fv) s_processed_by) || has_values fv)
         (map (fun fv => (fst fv, strip_values (fst fv) (snd fv))) p).

Lemma not_walrus_cons n v r :
  filter not_walrus ((n, v) :: r) = if str_eqb n s_walrus then filter not_walrus r else (n, v) :: filter not_walrus r.
Proof. cbn [filter]. unfold not_walrus at 1, is_walrus. cbn [fst]. destruct (str_eqb n s_walrus); reflexivity. Qed.

Lemma replace_value_strip vs ver : forall vs',
  replace_value vs s_walrus ver = Some vs' -> filter not_walrus vs' = filter not_walrus vs.
Proof.
  induction vs as [|[n v] r IH]; intros vs'; cbn [replace_value]; [discriminate|].
  destruct (str_eqb n s_walrus) eqn:E.
  - intros [= <-]. rewrite !not_walrus_cons, E, str_eqb_refl. reflexivity.
  - destruct (replace_value r s_walrus ver) as [r'|]; cbn [option_map]; [|discriminate].
    intros [= <-]. rewrite !not_walrus_cons, E, (IH r' eq_refl). reflexivity.
Qed.
Lemma strip_values_field vs ver :
  strip_values s_processed_by (match replace_value vs s_walrus ver with Some vs' => vs' | None => vs ++ [(s_walrus, ver)] end)
  = strip_values s_processed_by vs.
Proof.
  unfold strip_values. rewrite str_eqb_refl. destruct (replace_value vs s_walrus ver) as [vs'|] eqn:R.
  - exact (replace_value_strip _ _ _ R).
  - rewrite filter_app, not_walrus_cons, str_eqb_refl. apply app_nil_r.
Qed.

Lemma strip_map_producers_field p ver :
  filter (fun fv => negb (str_eqb (fst fv) s_processed_by) || has_values fv)
    (map (fun fv => (fst fv, strip_values (fst fv) (snd fv))) (producers_field p s_processed_by s_walrus ver))
  = filter (fun fv => negb (str_eqb (fst fv) s_processed_by) || has_values fv)
    (map (fun fv => (fst fv, strip_values (fst fv) (snd fv))) p).
Proof.
  induction p as [|[f vs] r IH]; cbn [producers_field].
  - cbn [map fst snd]. unfold strip_values. rewrite str_eqb_refl, not_walrus_cons, str_eqb_refl.
    cbn [filter fst]. rewrite str_eqb_refl. reflexivity.
  - destruct (str_eqb f s_processed_by) eqn:E.
    + cbn [map fst snd]. apply str_eqb_eq in E. subst f. rewrite strip_values_field. reflexivity.
    + cbn [map filter fst snd]. rewrite IH. reflexivity.
Qed.

Theorem producers_others_kept_strict : forall p ver,
  strip_walrus_strict (producers_field p s_processed_by s_walrus ver) = strip_walrus_strict p.
Proof. intros. apply strip_map_producers_field. Qed.

Lemma strip_walrus_of_strict p : strip_walrus p = filter has_values (strip_walrus_strict p).
Proof.
  unfold strip_walrus, strip_walrus_strict. generalize (map (fun fv => (fst fv, strip_values (fst fv) (snd fv))) p) as l.
  induction l as [|a l IH]; [reflexivity|]. cbn [filter].
  destruct (has_values a) eqn:Ha.
  - rewrite orb_true_r. cbn [filter]. rewrite Ha, IH. reflexivity.
  - rewrite orb_false_r. destruct (negb _); cbn [filter]; rewrite ?Ha; exact IH.
Qed.

Theorem producers_others_kept : forall p ver,
  strip_walrus (producers_field p s_processed_by s_walrus ver) = strip_walrus p.
Proof. intros. rewrite !strip_walrus_of_strict, producers_others_kept_strict. reflexivity. Qed.

(* ==================================================================================================
   G. THE ONLY BLOCK THAT DEPENDS ON THE BODY OF [set_customs_take]
      (now [set_customs_take m := m]: the module keeps its custom sections across emit_wasm).
   ================================================================================================== *)

(* every field except (possibly) m_customs is preserved *)
Lemma set_customs_take_other_fields m :
  same_core (set_customs_take m) m /\ m_config (set_customs_take m) = m_config m.
Proof. repeat split. Qed.
Lemma set_customs_take_core m : same_core (set_customs_take m) m.
Proof. apply set_customs_take_other_fields. Qed.

(* 6 *)
Theorem c14_name_switch : forall m ilen dw e,
  cf_skip_name (m_config m) = false -> emitM m ilen dw = Ok e ->
  (forall s, In s dw -> is_name_sec s = false) ->
  exists e', emitM (set_skip_name m true) ilen dw = Ok e' /\
             em_secs e' = filter (fun s => negb (is_name_sec s)) (em_secs e).
Proof. exact (c14_name_switch_gen set_customs_take_core). Qed.
Theorem c14_producers_switch : forall m ilen dw e,
  cf_skip_producers (m_config m) = false -> emitM m ilen dw = Ok e ->
  (forall s, In s dw -> is_producers_sec s = false) ->
  exists e', emitM (set_skip_producers m true) ilen dw = Ok e' /\
             em_secs e' = filter (fun s => negb (is_producers_sec s)) (em_secs e).
Proof. exact (c14_producers_switch_gen set_customs_take_core). Qed.

(* 5 *)
Theorem emit_keeps_module : forall m ilen dw e, emitM m ilen dw = Ok e -> em_module e = m.
Proof. intros m ilen dw e H. rewrite (emit_module_is_take _ _ _ _ H). reflexivity. Qed.

Theorem emit_repeat : forall m ilen dw e, emitM m ilen dw = Ok e -> emitM (em_module e) ilen dw = Ok e.
Proof. intros m ilen dw e H. rewrite (emit_keeps_module _ _ _ _ H). exact H. Qed.
Theorem emit_twice_customs : forall m ilen dw e e',
  emitM m ilen dw = Ok e -> emitM (em_module e) ilen dw = Ok e' -> em_secs e' = em_secs e.
Proof. intros m ilen dw e e' H H'. rewrite (emit_repeat _ _ _ _ H) in H'. injection H' as <-. reflexivity. Qed.

Print Assumptions parse_customs.
Print Assumptions emit_customs.
Print Assumptions c12_roundtrip.
Print Assumptions gc_customs.
Print Assumptions emit_keeps_module.
Print Assumptions emit_repeat.
Print Assumptions emit_twice_customs.
Print Assumptions c14_name_switch.
Print Assumptions c14_producers_switch.
Print Assumptions producers_once.
Print Assumptions producers_idempotent.
Print Assumptions producers_others_kept.
Print Assumptions producers_others_kept_strict.
Print Assumptions parse_callback_once.
