(* C08: totality of the second trip with ONE remaining visible premise: the parse-side invariant [offsets_ok]
   (every active element / data segment of the parsed module passed the parser's offset-type check; ModFix26/29 prove
   the establishing and transport lemmas, the induction over parse_secs is what is missing). *)
From Coq Require Import List NArith ZArith Bool Arith Lia.
Import ListNotations.
From WV Require Import Gen.Ops Model.Common Model.IR Model.Arena Model.ModuleM Model.ParseM Model.EmitM.
From WV Require Import Proofs.ParseTotal Proofs.ModFix.
From WV Require Proofs.ModFix24 Proofs.ModFix26 Proofs.ModFix30.
Local Open Scope nat_scope.

Theorem module_fixpoint_total_partial : forall cf ver w s1 ilen e1,
  valid_stream w -> parseM cf ver w = POk s1 -> emitM (ps_m s1) ilen [] = Ok e1 ->
  ModFix26.offsets_ok (ps_m s1) ->
  valid_stream (em_secs e1) /\
  exists s2 e2, parseM cf ver (em_secs e1) = POk s2 /\ emitM (ps_m s2) ilen [] = Ok e2 /\
    ((cf_skip_name cf = true \/ cf_synthetic_names cf = false) -> em_secs e2 = em_secs e1).
Proof.
  intros cf ver w s1 ilen e1 V P1 E1 OK.
  pose proof (ModFix30.elem_offsets_holds _ _ _ _ _ _ P1 E1 OK) as EO.
  pose proof (ModFix30.data_offsets_holds _ _ _ _ _ _ P1 E1 OK) as DO.
  split.
  - exact (proj1 (ModFix24.second_parse_total _ _ _ _ _ _ V P1 E1 EO DO)).
  - exact (ModFix24.module_fixpoint_total_partial _ _ _ _ _ _ V P1 E1 EO DO).
Qed.

Print Assumptions module_fixpoint_total_partial.
