(* C08, body half of the round-trip fixpoint: a function body that is already in normal form
   is reproduced exactly by parse-then-emit.
   1. [is_nf]: the syntactic characterisation of tree-level normal forms; [nf_rt_is_nf]: the
      normal form is one; [nf_rt_fixed]: a normal form is a fixed point; [nf_rt_idem] (+ flag);
   2. operators: [map_idx_id], [nf_op_fixed];
   3. block types: [nf_bt_idem], [nf_bt_fixed_func], ...;
   4. [body_fixpoint]: the tagged flat normal form of a normal form is its own flattening;
      [body_fixpoint_emitted]: parse + emit outputs the very operator stream that was read. *)
From Coq Require Import List NArith Bool Lia. Import ListNotations.
From WV Require Import Gen.Ops Model.Common Model.IR Model.ParseFn Model.ParseSpec Model.EmitFn
  Model.BodySpec Model.Sem.
From WV Require Import Proofs.ParseFn Proofs.Codec Proofs.Body Proofs.Sem Proofs.Escalation.
Local Open Scope nat_scope.

(* ================================================================== 1. normal forms *)
(* the trees after which [nf_rt] cuts the sequence *)
Definition terminal (t : rt) : bool :=
  match t with
  | RBr _ _ | RBrTable _ _ _ => true
  | RPlain o _ => marks_unreachable o
  | _ => false
  end.

(* no nop; nothing follows a terminal tree within a sequence; every `if` has an `else` *)
Fixpoint is_nf_t (t : rt) {struct t} : Prop :=
  let nfl := fix nfl (l : list rt) {struct l} : Prop :=
      match l with
      | [] => True
      | x :: l' => is_nf_t x /\ (terminal x = true -> l' = []) /\ nfl l'
      end in
  match t with
  | RNop _ => False
  | RBlock _ b _ _ | RLoop _ b _ _ => nfl b
  | RIf _ th (Some (_, el)) _ _ => nfl th /\ nfl el
  | RIf _ _ None _ _ => False
  | _ => True
  end.
Fixpoint is_nf (l : list rt) : Prop :=
  match l with
  | [] => True
  | x :: l' => is_nf_t x /\ (terminal x = true -> l' = []) /\ is_nf l'
  end.

Definition is_nf_inner :=
  fix nfl (l : list rt) {struct l} : Prop :=
    match l with
    | [] => True
    | x :: l' => is_nf_t x /\ (terminal x = true -> l' = []) /\ nfl l'
    end.
Lemma is_nf_inner_eq l : is_nf_inner l = is_nf l.
Proof. induction l as [|t l IH]; [reflexivity|]. cbn [is_nf_inner is_nf]. fold is_nf_inner. now rewrite IH. Qed.

Lemma is_nf_block bt b l e : is_nf_t (RBlock bt b l e) = is_nf b.
Proof. rewrite <- is_nf_inner_eq. reflexivity. Qed.
Lemma is_nf_loop bt b l e : is_nf_t (RLoop bt b l e) = is_nf b.
Proof. rewrite <- is_nf_inner_eq. reflexivity. Qed.
Lemma is_nf_if_some bt th le el l e : is_nf_t (RIf bt th (Some (le, el)) l e) = (is_nf th /\ is_nf el).
Proof. rewrite <- !is_nf_inner_eq. reflexivity. Qed.
Lemma is_nf_if_none bt th l e : is_nf_t (RIf bt th None l e) = False.
Proof. reflexivity. Qed.

(* the characterisation in the words of the task *)
Lemma is_nf_no_nop l loc : is_nf l -> ~ In (RNop loc) l.
Proof.
  induction l as [|t l IH]; intros H HI; [exact HI|].
  destruct H as (Ht & _ & Hl). destruct HI as [->|HI]; [exact Ht|exact (IH Hl HI)].
Qed.
Lemma is_nf_nothing_after_terminal a t b : is_nf (a ++ t :: b) -> terminal t = true -> b = [].
Proof.
  induction a as [|x a IH]; cbn [app]; intros (Hx & Hc & Hl) Ht; [exact (Hc Ht)|exact (IH Hl Ht)].
Qed.
Lemma is_nf_if_has_else l bt th el lo e : is_nf l -> In (RIf bt th el lo e) l -> el <> None.
Proof.
  induction l as [|t l IH]; intros H HI; [elim HI|].
  destruct H as (Ht & _ & Hl). destruct HI as [->|HI]; [|exact (IH Hl HI)].
  destruct el as [[le eb]|]; [discriminate|elim Ht].
Qed.

(* ------------------------------------------------------------------ the normal form is one *)
Definition Nt (t : rt) : Prop :=
  nf_rt false t = ([], false) \/ exists t', nf_rt false t = ([t'], terminal t') /\ is_nf_t t'.
Definition Nl (l : list rt) : Prop := forall u, is_nf (fst (nf_rt_list u l)).

Lemma Nl_of_Forall l : Forall Nt l -> Nl l.
Proof.
  induction 1 as [|t l Ht Hl IH]; intros u; [exact I|].
  destruct u; [rewrite nf_rt_list_dead; exact I|].
  rewrite nf_rt_list_cons. cbn [fst]. destruct Ht as [E|(t' & E & Hn)]; rewrite E; cbn [fst snd app].
  - apply IH.
  - split; [exact Hn|]. split; [|apply IH].
    intros Ht. rewrite Ht, nf_rt_list_dead. reflexivity.
Qed.

Lemma Nt_all : forall t, Nt t.
Proof.
  induction t as [o l|l|d l|d l|ds d l|bt body l e HF|bt body l e HF|bt th el l e HFt HFe] using rt_ind'.
  - right. exists (RPlain o l). split; [reflexivity|exact I].
  - left. reflexivity.
  - right. exists (RBr d l). split; [reflexivity|exact I].
  - right. exists (RBrIf d l). split; [reflexivity|exact I].
  - right. exists (RBrTable ds d l). split; [reflexivity|exact I].
  - right. rewrite nf_rt_block. exists (RBlock bt (fst (nf_rt_list false body)) l e). split; [reflexivity|].
    rewrite is_nf_block. apply (Nl_of_Forall _ HF).
  - right. rewrite nf_rt_loop. exists (RLoop bt (fst (nf_rt_list false body)) l e). split; [reflexivity|].
    rewrite is_nf_loop. apply (Nl_of_Forall _ HF).
  - right. destruct el as [[le eb]|].
    + rewrite nf_rt_if_some. exists (RIf bt (fst (nf_rt_list false th)) (Some (le, fst (nf_rt_list false eb))) l e). split; [reflexivity|].
      rewrite is_nf_if_some. cbn [optP snd] in HFe.
      split; [apply (Nl_of_Forall _ HFt)|apply (Nl_of_Forall _ HFe)].
    + rewrite nf_rt_if_none. exists (RIf bt (fst (nf_rt_list false th)) (Some (default_loc, [])) l e). split; [reflexivity|].
      rewrite is_nf_if_some. split; [apply (Nl_of_Forall _ HFt)|exact I].
Qed.

Theorem nf_rt_is_nf : forall u l, is_nf (fst (nf_rt_list u l)).
Proof. intros u l. apply (Nl_of_Forall l). apply Forall_forall. intros t _. apply Nt_all. Qed.

(* ------------------------------------------------------------------ a normal form is a fixed point *)
Definition Xt (t : rt) : Prop := is_nf_t t -> nf_rt false t = ([t], terminal t).
Definition Xl (l : list rt) : Prop := is_nf l -> nf_rt_list false l = (l, existsb terminal l).

Lemma Xl_of_Forall l : Forall Xt l -> Xl l.
Proof.
  induction 1 as [|t l Ht Hl IH]; intros Hn; [reflexivity|].
  destruct Hn as (Hnt & Hc & Hnl). rewrite nf_rt_list_cons, (Ht Hnt). cbn [fst snd app existsb].
  destruct (terminal t) eqn:E.
  - rewrite (Hc eq_refl). reflexivity.
  - rewrite (IH Hnl). reflexivity.
Qed.

Lemma Xt_all : forall t, Xt t.
Proof.
  induction t as [o l|l|d l|d l|ds d l|bt body l e HF|bt body l e HF|bt th el l e HFt HFe] using rt_ind';
    intros Hn.
  - reflexivity.
  - elim Hn.
  - reflexivity.
  - reflexivity.
  - reflexivity.
  - rewrite is_nf_block in Hn. rewrite nf_rt_block, (Xl_of_Forall _ HF Hn). reflexivity.
  - rewrite is_nf_loop in Hn. rewrite nf_rt_loop, (Xl_of_Forall _ HF Hn). reflexivity.
  - destruct el as [[le eb]|]; [|elim Hn].
    rewrite is_nf_if_some in Hn. destruct Hn as [H1 H2]. cbn [optP snd] in HFe.
    rewrite nf_rt_if_some, (Xl_of_Forall _ HFt H1), (Xl_of_Forall _ HFe H2). reflexivity.
Qed.

Theorem nf_rt_fixed_full : forall l, is_nf l -> nf_rt_list false l = (l, existsb terminal l).
Proof. intros l. apply (Xl_of_Forall l). apply Forall_forall. intros t _. apply Xt_all. Qed.

Theorem nf_rt_fixed : forall l, is_nf l -> fst (nf_rt_list false l) = l.
Proof. intros l H. now rewrite nf_rt_fixed_full. Qed.

(* conversely a fixed point is a normal form: [is_nf] is EXACTLY the set of fixed points *)
Theorem nf_rt_normal : forall l, is_nf l <-> fst (nf_rt_list false l) = l.
Proof.
  intros l. split; [apply nf_rt_fixed|].
  intros H. rewrite <- H. apply nf_rt_is_nf.
Qed.

(* the flag of a sequence is "a terminal tree was kept" *)
Lemma nf_rt_flag l : forall u, snd (nf_rt_list u l) = u || existsb terminal (fst (nf_rt_list u l)).
Proof.
  induction l as [|t l IH]; intros u; [cbn; now rewrite orb_false_r|].
  destruct u; [now rewrite nf_rt_list_dead|].
  rewrite nf_rt_list_cons. cbn [fst snd orb].
  destruct (Nt_all t) as [E|(t' & E & _)]; rewrite E; cbn [fst snd app existsb].
  - apply IH.
  - rewrite IH. reflexivity.
Qed.

(* ------------------------------------------------------------------ idempotence, literally *)
Theorem nf_rt_idem : forall l,
  fst (nf_rt_list false (fst (nf_rt_list false l))) = fst (nf_rt_list false l).
Proof. intros l. apply nf_rt_fixed, nf_rt_is_nf. Qed.

Theorem nf_rt_idem_flag : forall l,
  snd (nf_rt_list false (fst (nf_rt_list false l))) = snd (nf_rt_list false l).
Proof.
  intros l. rewrite (nf_rt_fixed_full _ (nf_rt_is_nf false l)). cbn [snd].
  rewrite (nf_rt_flag l false). reflexivity.
Qed.

Corollary nf_rt_idem_pair : forall l,
  nf_rt_list false (fst (nf_rt_list false l)) = nf_rt_list false l.
Proof.
  intros l. rewrite (surjective_pairing (nf_rt_list false (fst (nf_rt_list false l)))).
  rewrite nf_rt_idem, nf_rt_idem_flag. symmetry. apply surjective_pairing.
Qed.

(* the flag part fails for a dead start: nothing is kept, so the second pass is live *)
Lemma nf_rt_idem_flag_dead_refuted :
  exists l, snd (nf_rt_list false (fst (nf_rt_list true l))) <> snd (nf_rt_list true l).
Proof. exists []. cbn. discriminate. Qed.

(* ================================================================== 2. operators *)
Lemma map_memarg_id m : map_memarg (fun _ i => i) m = m.
Proof. destruct m; reflexivity. Qed.

Lemma map_idx_id o : map_idx (fun _ i => i) o = o.
Proof. destruct o; cbn [map_idx]; rewrite ?map_memarg_id; reflexivity. Qed.

(* pointwise: the operator's own index immediates are fixed by emit-after-parse *)
Theorem nf_op_fixed_at : forall cx ecx o, imm_ok o -> ~ known_big_offset o ->
  map_idx (fun s i => ex_id2i ecx s (px_i2id cx s i)) o = o -> nf_op cx ecx o = WOp o.
Proof.
  intros cx ecx o Hi Hb Hm.
  rewrite (nf_op_codec (px_i2id cx) (ex_id2i ecx) (fun s i => ex_id2i ecx s (px_i2id cx s i))
             (fun _ _ => eq_refl) cx ecx o eq_refl eq_refl Hi Hb).
  now rewrite Hm.
Qed.
(* ... and only then *)
Theorem nf_op_fixed_at_iff : forall cx ecx o, imm_ok o -> ~ known_big_offset o ->
  (nf_op cx ecx o = WOp o <-> map_idx (fun s i => ex_id2i ecx s (px_i2id cx s i)) o = o).
Proof.
  intros cx ecx o Hi Hb. split; [|apply nf_op_fixed_at; assumption].
  rewrite (nf_op_codec (px_i2id cx) (ex_id2i ecx) (fun s i => ex_id2i ecx s (px_i2id cx s i))
             (fun _ _ => eq_refl) cx ecx o eq_refl eq_refl Hi Hb).
  intros H. now injection H.
Qed.

(* the emit-time map undoes the parse-time map *)
Definition maps_id (cx : pctx) (ecx : ectx) : Prop := forall s i, ex_id2i ecx s (px_i2id cx s i) = i.

Theorem nf_op_fixed : forall cx ecx o, maps_id cx ecx -> imm_ok o -> ~ known_big_offset o ->
  nf_op cx ecx o = WOp o.
Proof.
  intros cx ecx o Hid Hi Hb.
  rewrite (nf_op_codec (px_i2id cx) (ex_id2i ecx) (fun _ i => i) Hid cx ecx o eq_refl eq_refl Hi Hb).
  now rewrite map_idx_id.
Qed.

(* the excluded class (memarg offset >= 2^32) is NOT a fixed point, even under identity maps *)
Lemma nf_op_fixed_refuted :
  exists cx ecx o, maps_id cx ecx /\ imm_ok o /\ nf_op cx ecx o <> WOp o.
Proof.
  exists {| px_i2id := fun _ i => i; px_types := [] |}, {| ex_id2i := fun _ i => i; ex_ilen := fun _ => 1%N |},
         (W_I32Load {| wa_align := 2; wa_offset := 2^32 + 1; wa_memory := 0 |}).
  split; [intros s i; reflexivity|]. split; [split; [vm_compute; reflexivity|exact I]|].
  vm_compute. discriminate.
Qed.

(* ================================================================== 3. block types *)
(* inline block types are always fixed ([nf_bt_empty], [nf_bt_val]); a type-index block type is
   fixed exactly when the parse-time type table sends it to a Multi sequence type whose emit-time
   index is the index we started from *)
Theorem nf_bt_fixed_func : forall cx ecx i ps rs b ty,
  nth_N (px_types cx) (px_i2id cx S_type i) = Some (ps, rs, b) ->
  existing cx ps rs = Some (ST_Multi ty) -> ex_id2i ecx S_type ty = i ->
  nf_bt cx ecx (BT_Func i) = BT_Func i.
Proof.
  intros cx ecx i ps rs b ty Hn He Hi. unfold nf_bt, bt_seqty. cbn [bt_tys]. rewrite Hn, He.
  cbn [block_type]. now rewrite Hi.
Qed.

Theorem nf_bt_fixed_func_iff : forall cx ecx i,
  nf_bt cx ecx (BT_Func i) = BT_Func i <->
  exists ps rs b ty, nth_N (px_types cx) (px_i2id cx S_type i) = Some (ps, rs, b) /\
                     existing cx ps rs = Some (ST_Multi ty) /\ ex_id2i ecx S_type ty = i.
Proof.
  intros cx ecx i. split.
  - unfold nf_bt, bt_seqty. cbn [bt_tys].
    destruct (nth_N (px_types cx) (px_i2id cx S_type i)) as [[[ps rs] b]|]; [|discriminate].
    destruct (existing cx ps rs) as [[[t|]|ty]|] eqn:Ee; cbn [block_type]; try discriminate.
    intros H. exists ps, rs, b, ty. split; [reflexivity|]. split; [exact Ee|]. now injection H.
  - intros (ps & rs & b & ty & Hn & He & Hi). eapply nf_bt_fixed_func; eassumption.
Qed.

(* [existing] answers Multi exactly for the shapes that have no inline form *)
Lemma existing_multi cx ps rs ty :
  existing cx ps rs = Some (ST_Multi ty) <->
  find_type cx ps rs = Some ty /\ (ps <> [] \/ (2 <= length rs)).
Proof.
  unfold existing. destruct ps as [|p ps].
  - destruct rs as [|r [|r' rs]].
    + split; [discriminate|]. intros [_ [H|H]]; [now elim H|cbn in H; lia].
    + split; [discriminate|]. intros [_ [H|H]]; [now elim H|cbn in H; lia].
    + destruct (find_type cx [] (r :: r' :: rs)) as [k|]; cbn [option_map].
      * split; [intros H; injection H as ->; split; [reflexivity|right; cbn; lia]|].
        intros [H _]. injection H as ->. reflexivity.
      * split; [discriminate|]. intros [H _]. discriminate H.
  - destruct (find_type cx (p :: ps) rs) as [k|]; cbn [option_map].
    + split; [intros H; injection H as ->; split; [reflexivity|left; discriminate]|].
      intros [H _]. injection H as ->. reflexivity.
    + split; [discriminate|]. intros [H _]. discriminate H.
Qed.

(* idempotence across two round trips: (cx, ecx) are the maps of the first parse / emit and
   (cx', ecx') those of the second.  The only premise concerns Multi sequence types: the index
   the first emit wrote must, in the second parse's type table, again resolve to a Multi type
   that the second emit writes at the same index. *)
Definition bt_stable (cx : pctx) (ecx : ectx) (cx' : pctx) (ecx' : ectx) (bt : blockty) : Prop :=
  forall ty, bt_seqty cx bt = ST_Multi ty ->
  exists ty', bt_seqty cx' (BT_Func (ex_id2i ecx S_type ty)) = ST_Multi ty' /\
              ex_id2i ecx' S_type ty' = ex_id2i ecx S_type ty.

Theorem nf_bt_idem : forall cx ecx cx' ecx' bt, bt_stable cx ecx cx' ecx' bt ->
  nf_bt cx' ecx' (nf_bt cx ecx bt) = nf_bt cx ecx bt.
Proof.
  intros cx ecx cx' ecx' bt H. unfold nf_bt at 2 3. unfold bt_stable in H.
  destruct (bt_seqty cx bt) as [[t|]|ty]; cbn [block_type].
  - apply nf_bt_val.
  - apply nf_bt_empty.
  - destruct (H ty eq_refl) as (ty' & H1 & H2). unfold nf_bt. rewrite H1. cbn [block_type]. now rewrite H2.
Qed.
(* the premise is exactly what is needed *)
Theorem nf_bt_idem_iff : forall cx ecx cx' ecx' bt,
  nf_bt cx' ecx' (nf_bt cx ecx bt) = nf_bt cx ecx bt <-> bt_stable cx ecx cx' ecx' bt.
Proof.
  intros cx ecx cx' ecx' bt. split; [|apply nf_bt_idem].
  intros H ty Hty. unfold nf_bt at 2 3 in H. rewrite Hty in H. cbn [block_type] in H.
  unfold nf_bt in H. destruct (bt_seqty cx' (BT_Func (ex_id2i ecx S_type ty))) as [[t|]|ty'];
    cbn [block_type] in H; try discriminate H.
  exists ty'. split; [reflexivity|]. now injection H.
Qed.
(* without it the second pass may change the block type: e.g. the second type table lacks the type *)
Lemma nf_bt_idem_refuted :
  exists cx ecx cx' ecx' bt, nf_bt cx' ecx' (nf_bt cx ecx bt) <> nf_bt cx ecx bt.
Proof.
  exists {| px_i2id := fun _ i => i; px_types := [([VT_I32], [], false)] |},
         {| ex_id2i := fun _ i => i; ex_ilen := fun _ => 1%N |},
         {| px_i2id := fun _ i => i; px_types := [] |},
         {| ex_id2i := fun _ i => i; ex_ilen := fun _ => 1%N |}, (BT_Func 0).
  vm_compute. discriminate.
Qed.

(* ================================================================== 4. the body fixpoint *)
Section BodyFix.
  Variable cx : pctx.
  Variable ecx : ectx.

  (* an instruction of the stream that the renaming leaves alone *)
  Definition ins_fixed (w : wins) : Prop :=
    match w with
    | WOp o => nf_op cx ecx o = WOp o
    | WBlock bt | WLoop bt | WIf bt => nf_bt cx ecx bt = bt
    | _ => True
    end.
  Definition insf (p : wins * N) : Prop := ins_fixed (fst p).

  Definition Pf (t : rt) : Prop := is_nf_t t -> Forall insf (flat t) -> flat' cx ecx t = flat t.
  Definition Pfl (l : list rt) : Prop :=
    is_nf l -> Forall insf (flat_list l) -> flat_list' cx ecx l = flat_list l.

  Lemma Pfl_of_Forall l : Forall Pf l -> Pfl l.
  Proof.
    induction 1 as [|t l Ht Hl IH]; intros Hn Hf; [reflexivity|].
    destruct Hn as (Hnt & _ & Hnl).
    change (flat_list (t :: l)) with (flat t ++ flat_list l) in *.
    change (flat_list' cx ecx (t :: l)) with (flat' cx ecx t ++ flat_list' cx ecx l).
    apply Forall_app in Hf. destruct Hf as [Hf1 Hf2].
    rewrite (Ht Hnt Hf1), (IH Hnl Hf2). reflexivity.
  Qed.

  Lemma Pf_all : forall t, Pf t.
  Proof.
    induction t as [o l|l|d l|d l|ds d l|bt body l e HF|bt body l e HF|bt th el l e HFt HFe] using rt_ind';
      intros Hn Hf.
    - cbn [flat] in Hf. apply Forall_inv in Hf. cbn [flat' flat]. unfold insf in Hf. cbn [fst ins_fixed] in Hf.
      now rewrite Hf.
    - reflexivity.
    - reflexivity.
    - reflexivity.
    - reflexivity.
    - rewrite is_nf_block in Hn. cbn [flat] in Hf. fold (flat_list body) in Hf.
      apply Forall_cons_iff in Hf. destruct Hf as [Hb Hf]. apply Forall_app in Hf. destruct Hf as [Hf _].
      unfold insf in Hb. cbn [fst ins_fixed] in Hb.
      cbn [flat' flat]. fold (flat_list' cx ecx body). fold (flat_list body).
      rewrite Hb, (Pfl_of_Forall _ HF Hn Hf). reflexivity.
    - rewrite is_nf_loop in Hn. cbn [flat] in Hf. fold (flat_list body) in Hf.
      apply Forall_cons_iff in Hf. destruct Hf as [Hb Hf]. apply Forall_app in Hf. destruct Hf as [Hf _].
      unfold insf in Hb. cbn [fst ins_fixed] in Hb.
      cbn [flat' flat]. fold (flat_list' cx ecx body). fold (flat_list body).
      rewrite Hb, (Pfl_of_Forall _ HF Hn Hf). reflexivity.
    - destruct el as [[le eb]|]; [|elim Hn].
      rewrite is_nf_if_some in Hn. destruct Hn as [Hn1 Hn2]. cbn [optP snd] in HFe.
      cbn [flat] in Hf. fold (flat_list th) in Hf. fold (flat_list eb) in Hf.
      apply Forall_cons_iff in Hf. destruct Hf as [Hb Hf]. apply Forall_app in Hf. destruct Hf as [Hf1 Hf].
      apply Forall_cons_iff in Hf. destruct Hf as [_ Hf]. apply Forall_app in Hf. destruct Hf as [Hf2 _].
      unfold insf in Hb. cbn [fst ins_fixed] in Hb.
      cbn [flat' flat]. fold (flat_list' cx ecx th). fold (flat_list' cx ecx eb).
      fold (flat_list th). fold (flat_list eb).
      rewrite Hb, (Pfl_of_Forall _ HFt Hn1 Hf1), (Pfl_of_Forall _ HFe Hn2 Hf2). reflexivity.
  Qed.

  (* on a normal form whose instructions are fixed, the output flattening is the input flattening *)
  Theorem flat'_fixed : forall l, is_nf l -> Forall insf (flat_list l) -> flat_list' cx ecx l = flat_list l.
  Proof. intros l. apply (Pfl_of_Forall l). apply Forall_forall. intros t _. apply Pf_all. Qed.

  (* THE BODY FIXPOINT: the tagged flat normal form of a normal form is its own flattening,
     locations included *)
  Theorem body_fixpoint : forall l, is_nf l -> Forall insf (flat_list l) ->
    map (fun p => (snd p, fst p)) (fst (nf_list cx ecx false l)) = flat_list l.
  Proof.
    intros l Hn Hf. rewrite flat_nf_rt, (nf_rt_fixed _ Hn). apply flat'_fixed; assumption.
  Qed.
  Theorem body_fixpoint_flag : forall l, is_nf l -> snd (nf_list cx ecx false l) = existsb terminal l.
  Proof. intros l Hn. rewrite flag_nf_rt, (nf_rt_fixed_full _ Hn). reflexivity. Qed.

  (* with the premises of Parts 2 and 3 spelled out *)
  Definition ins_ok (w : wins) : Prop :=
    match w with
    | WOp o => imm_ok o /\ ~ known_big_offset o
    | WBlock bt | WLoop bt | WIf bt => nf_bt cx ecx bt = bt
    | _ => True
    end.
  Corollary body_fixpoint_id : forall l, maps_id cx ecx -> is_nf l ->
    Forall (fun p => ins_ok (fst p)) (flat_list l) ->
    map (fun p => (snd p, fst p)) (fst (nf_list cx ecx false l)) = flat_list l.
  Proof.
    intros l Hid Hn Hf. apply body_fixpoint; [exact Hn|].
    eapply Forall_impl; [|exact Hf]. intros [w loc]. unfold insf. cbn [fst].
    destruct w; cbn [ins_ok ins_fixed]; auto. intros [Hi Hb]. now apply nf_op_fixed.
  Qed.

  (* the second round trip of a body: whatever [l0] was, its normal form is reproduced exactly
     provided the renaming leaves its instructions alone *)
  Corollary body_fixpoint_second : forall l0,
    Forall insf (flat_list (fst (nf_rt_list false l0))) ->
    map (fun p => (snd p, fst p)) (fst (nf_list cx ecx false (fst (nf_rt_list false l0))))
    = flat_list (fst (nf_rt_list false l0)).
  Proof. intros l0. apply body_fixpoint, nf_rt_is_nf. Qed.

  (* end to end: parsing the stream of a normal form and emitting it yields the very same stream *)
  Theorem body_fixpoint_emitted : forall ety rs l eloc p0,
    wfl cx 1 l ->
    (forall o, decode_plain (px_i2id cx) o <> None -> encode_plain (ex_id2i ecx) (dec cx o) <> None) ->
    is_nf l -> Forall insf (flat_list l) ->
    exists ar st fuel,
      parse_body cx ety rs (flat_list l ++ [(WEnd, eloc)]) = Ok ar /\
      emit_body ecx fuel ar 0 p0 = Ok st /\
      out st = map fst (flat_list l ++ [(WEnd, eloc)]).
  Proof.
    intros ety rs l eloc p0 Hw Henc Hn Hf.
    destruct (roundtrip_body_sem cx ecx ety rs l eloc p0 Hw Henc) as (ar & st & fuel & Hp & He & Ho).
    exists ar, st, fuel. split; [exact Hp|]. split; [exact He|].
    rewrite Ho, (nf_rt_fixed _ Hn), (flat'_fixed _ Hn Hf), map_app. reflexivity.
  Qed.
End BodyFix.

(* ================================================================== 5. block types, one context *)
(* when the second parse sees the same type table and its index map undoes the emit-time map on
   type ids, [nf_bt] is idempotent outright: [find_type] answers the FIRST non-entry type of the
   given shape, and looking that one up again finds itself *)
Lemma valty_eqb_congr x y : valty_eqb x y = true -> forall z, valty_eqb z x = valty_eqb z y.
Proof. unfold valty_eqb. intros H z. apply N.eqb_eq in H. now rewrite H. Qed.
Lemma vlist_eqb_congr a : forall b, vlist_eqb a b = true -> forall c, vlist_eqb c a = vlist_eqb c b.
Proof.
  induction a as [|x a IH]; intros [|y b] H c; cbn [vlist_eqb] in H; try discriminate H; [reflexivity|].
  apply andb_true_iff in H. destruct H as [H1 H2]. destruct c as [|z c]; [reflexivity|].
  cbn [vlist_eqb]. now rewrite (valty_eqb_congr _ _ H1 z), (IH _ H2 c).
Qed.
Lemma vlist_eqb_length a : forall b, vlist_eqb a b = true -> length a = length b.
Proof.
  induction a as [|x a IH]; intros [|y b] H; cbn [vlist_eqb] in H; try discriminate H; [reflexivity|].
  apply andb_true_iff in H. cbn [length]. now rewrite (IH _ (proj2 H)).
Qed.
Lemma find_type_from_congr l a b a' b' :
  (forall c, vlist_eqb c a = vlist_eqb c a') -> (forall c, vlist_eqb c b = vlist_eqb c b') ->
  forall n, find_type_from n l a b = find_type_from n l a' b'.
Proof.
  intros Ha Hb. induction l as [|[[p r] en] l IH]; intros n; [reflexivity|].
  cbn [find_type_from]. now rewrite Ha, Hb, IH.
Qed.
Lemma find_type_from_hit l ps rs k : forall n, find_type_from n l ps rs = Some k ->
  exists p r, nth_error l (N.to_nat (k - n)) = Some (p, r, false) /\ (n <= k)%N /\
              vlist_eqb p ps = true /\ vlist_eqb r rs = true.
Proof.
  induction l as [|[[p r] en] l IH]; intros n H; [discriminate H|].
  cbn [find_type_from] in H.
  destruct (negb en && vlist_eqb p ps && vlist_eqb r rs) eqn:E.
  - injection H as <-. apply andb_true_iff in E. destruct E as [E E3].
    apply andb_true_iff in E. destruct E as [E1 E2]. destruct en; [discriminate E1|].
    exists p, r. rewrite N.sub_diag. split; [reflexivity|]. split; [lia|]. split; assumption.
  - destruct (IH _ H) as (p' & r' & Hn & Hle & Hp & Hr). exists p', r'.
    replace (N.to_nat (k - n)) with (S (N.to_nat (k - (n + 1)))) by lia.
    split; [exact Hn|]. split; [lia|]. split; assumption.
Qed.

Theorem nf_bt_idem_same : forall cx ecx bt,
  (forall ty, px_i2id cx S_type (ex_id2i ecx S_type ty) = ty) ->
  nf_bt cx ecx (nf_bt cx ecx bt) = nf_bt cx ecx bt.
Proof.
  intros cx ecx bt Hid. apply nf_bt_idem. intros ty Hty. exists ty. split; [|reflexivity].
  unfold bt_seqty in Hty. destruct (bt_tys cx bt) as [[ps rs]|]; [|discriminate Hty].
  destruct (existing cx ps rs) as [s|] eqn:Ee; [|discriminate Hty]. subst s.
  apply existing_multi in Ee. destruct Ee as [Hft Hshape]. unfold find_type in Hft.
  destruct (find_type_from_hit _ _ _ _ _ Hft) as (p & r & Hn & _ & Hp & Hr).
  rewrite N.sub_0_r in Hn.
  unfold bt_seqty. cbn [bt_tys]. rewrite Hid. unfold nth_N. rewrite Hn.
  assert (He : existing cx p r = Some (ST_Multi ty)).
  { apply existing_multi. split.
    - unfold find_type. rewrite <- Hft. apply find_type_from_congr; apply vlist_eqb_congr; assumption.
    - pose proof (vlist_eqb_length _ _ Hp) as Lp. pose proof (vlist_eqb_length _ _ Hr) as Lr.
      destruct Hshape as [Hs|Hs]; [left|right; lia].
      intros ->. destruct ps; [now elim Hs|discriminate Lp]. }
  now rewrite He.
Qed.

(* ================================================================== 6. the premises are needed / satisfiable *)
(* a body that is not a normal form is not reproduced: the nop goes *)
Lemma body_fixpoint_needs_nf :
  exists cx ecx l, Forall (insf cx ecx) (flat_list l) /\
    map (fun p => (snd p, fst p)) (fst (nf_list cx ecx false l)) <> flat_list l.
Proof.
  exists {| px_i2id := fun _ i => i; px_types := [] |}, {| ex_id2i := fun _ i => i; ex_ilen := fun _ => 1%N |},
         [RNop 7%N].
  split; [repeat constructor|]. vm_compute. discriminate.
Qed.

(* non-vacuity: the normal form of the toy program of Proofs/Sem.v, under identity maps *)
Example body_fixpoint_toy :
  let cx := {| px_i2id := fun _ i => i; px_types := [] |} in
  let ecx := {| ex_id2i := fun _ i => i; ex_ilen := fun _ => 1%N |} in
  let l := fst (nf_rt_list false Toy.prog) in
  is_nf l /\ Forall (insf cx ecx) (flat_list l) /\
  map (fun p => (snd p, fst p)) (fst (nf_list cx ecx false l)) = flat_list l.
Proof.
  intros cx ecx l. assert (Hn : is_nf l) by apply nf_rt_is_nf.
  assert (Hf : Forall (insf cx ecx) (flat_list l)).
  { vm_compute flat_list. repeat (constructor; [vm_compute; try reflexivity; exact I|]). constructor. }
  split; [exact Hn|]. split; [exact Hf|]. apply body_fixpoint; assumption.
Qed.

Print Assumptions nf_rt_idem.
Print Assumptions nf_rt_idem_flag.
Print Assumptions nf_rt_is_nf.
Print Assumptions nf_rt_fixed.
Print Assumptions nf_rt_normal.
Print Assumptions map_idx_id.
Print Assumptions nf_op_fixed.
Print Assumptions nf_op_fixed_at_iff.
Print Assumptions nf_op_fixed_refuted.
Print Assumptions nf_bt_idem_iff.
Print Assumptions nf_bt_idem_refuted.
Print Assumptions nf_bt_fixed_func_iff.
Print Assumptions nf_bt_idem_same.
Print Assumptions body_fixpoint.
Print Assumptions body_fixpoint_flag.
Print Assumptions body_fixpoint_id.
Print Assumptions body_fixpoint_second.
Print Assumptions body_fixpoint_emitted.
Print Assumptions body_fixpoint_needs_nf.
Print Assumptions body_fixpoint_toy.
