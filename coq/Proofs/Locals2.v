(* C19: the parse-time local map.  add_locals / prepare_bodies push, per function, first its parameters
   then its declared locals (expanded run by run) into ii_locals. *)
From Coq Require Import List NArith Arith Lia Bool.
Import ListNotations.
From WV Require Import Gen.Ops Model.Common Model.IR Model.Arena Model.ModuleM Model.ParseM.
From WV Require Import Proofs.Arena Proofs.IndexMaps Proofs.ParsedWf.
From WV Require Proofs.Names.
Local Open Scope nat_scope.

(* ---------------------------------------------------------------- the assoc list *)
Definition lfind (l : list (N * list N)) (f : N) : option (N * list N) := find (fun p => N.eqb (fst p) f) l.
Definition lvec (l : list (N * list N)) (f : N) : list N := match lfind l f with Some p => snd p | None => [] end.

Lemma locals_of_lfind ids f : locals_of ids f = match lfind (ii_locals ids) f with Some p => Some (snd p) | None => None end.
Proof. reflexivity. Qed.

Lemma lfind_push_same l f x : lfind (assoc_push l f x) f = Some (f, lvec l f ++ [x]).
Proof.
  unfold lvec, lfind. induction l as [|[k v] r IH]; cbn [assoc_push find fst snd].
  - rewrite N.eqb_refl. reflexivity.
  - destruct (N.eqb_spec k f) as [->|Hne]; cbn [find fst snd].
    + rewrite N.eqb_refl. reflexivity.
    + destruct (N.eqb_spec k f); [contradiction|]. exact IH.
Qed.
Lemma lfind_push_other l f x f' : f' <> f -> lfind (assoc_push l f x) f' = lfind l f'.
Proof.
  intros Hne. unfold lfind. induction l as [|[k v] r IH]; cbn [assoc_push find fst snd].
  - destruct (N.eqb_spec f f'); [congruence|reflexivity].
  - destruct (N.eqb_spec k f) as [->|Hkf]; cbn [find fst snd].
    + destruct (N.eqb_spec f f'); [congruence|reflexivity].
    + destruct (N.eqb_spec k f'); [reflexivity|exact IH].
Qed.
Lemma lvec_push_same l f x : lvec (assoc_push l f x) f = lvec l f ++ [x].
Proof. unfold lvec at 1. rewrite lfind_push_same. reflexivity. Qed.
Lemma lvec_push_other l f x f' : f' <> f -> lvec (assoc_push l f x) f' = lvec l f'.
Proof. intros H. unfold lvec. now rewrite lfind_push_other. Qed.

Lemma map_lo_ty_upd (l : list mlocal) n (f : mlocal -> mlocal) :
  (forall x, lo_ty (f x) = lo_ty x) -> map lo_ty (upd l n f) = map lo_ty l.
Proof.
  intros Hf. revert n. induction l as [|x l IH]; intros [|n]; cbn [upd map]; auto.
  - now rewrite Hf.
  - now rewrite IH.
Qed.

(* ---------------------------------------------------------------- add_locals *)
Lemma add_locals_spec : forall tys m ids fid pre m' ids' l,
  add_locals m ids fid tys pre = (m', ids', l) ->
  l = map N.of_nat (seq (length (items (m_locals m))) (length tys)) /\
  map lo_ty (items (m_locals m')) = map lo_ty (items (m_locals m)) ++ tys /\
  dead (m_locals m') = dead (m_locals m) /\
  ii_funcs ids' = ii_funcs ids /\
  lvec (ii_locals ids') fid = lvec (ii_locals ids) fid ++ l /\
  (forall f', f' <> fid -> lfind (ii_locals ids') f' = lfind (ii_locals ids) f') /\
  (tys <> [] \/ lfind (ii_locals ids) fid <> None -> lfind (ii_locals ids') fid <> None) /\
  (tys = [] -> ids' = ids).
Proof.
  induction tys as [|t r IH]; intros m ids fid pre m' ids' l E; cbn [add_locals] in E.
  - inversion E; subst; clear E. cbn [length seq map]. rewrite !app_nil_r.
    repeat split; auto. intros [H|H]; [congruence|exact H].
  - wcbn. destruct (add_locals _ _ fid r pre) as [[m1 ids1] rest] eqn:Ea.
    inversion E; subst; clear E.
    match type of Ea with add_locals (set_locals m ?la) _ _ _ _ = _ => set (LA := la) in * end.
    assert (HL : length (items LA) = S (length (items (m_locals m))) /\
                 map lo_ty (items LA) = map lo_ty (items (m_locals m)) ++ [t] /\
                 dead LA = dead (m_locals m)).
    { subst LA. destruct (synth _ _ _); wcbn.
      - rewrite upd_length, app_length, map_lo_ty_upd by reflexivity. rewrite map_app. cbn. repeat split; lia.
      - rewrite app_length, map_app. cbn. repeat split; lia. }
    clearbody LA. apply IH in Ea. clear IH.
    destruct Ea as (H1 & H2 & H3 & H4 & H5 & H6 & H7 & _). wcbn.
    destruct HL as (L1 & L2 & L3).
    rewrite L1 in H1. rewrite L2 in H2. rewrite L3 in H3. wcbn.
    rewrite lvec_push_same in H5.
    repeat split.
    + cbn [length seq map]. now rewrite H1.
    + rewrite H2, <- app_assoc. reflexivity.
    + exact H3.
    + exact H4.
    + rewrite H5, <- app_assoc. reflexivity.
    + intros f' Hf. rewrite (H6 f' Hf). now apply lfind_push_other.
    + intros _. apply H7. right. rewrite lfind_push_same. discriminate.
    + discriminate.
Qed.

(* ---------------------------------------------------------------- frames of one prepare step *)
Lemma types_insert_locals m t m1 id : types_insert m t = (m1, id) -> m_locals m1 = m_locals m.
Proof.
  unfold types_insert. destruct (insert mtype_eqb (m_types m) t) as [s' i]. intros E; inversion E; subst. reflexivity.
Qed.
Lemma types_insert_get_mono m t m1 id ty x : types_insert m t = (m1, id) -> types_get m ty = Some x -> types_get m1 ty = Some x.
Proof.
  unfold types_insert, insert, types_get, aset_index, index, get, is_dead.
  destruct (lookup mtype_eqb (already (m_types m)) t) as [i|].
  - intros E; inversion E; subst; clear E. wcbn. auto.
  - wcbn. intros E; inversion E; subst; clear E. wcbn.
    destruct (existsb _ _); [discriminate|]. intros H. rewrite nth_error_app1; [exact H|].
    apply nth_error_Some. congruence.
Qed.
Lemma add_locals_get_mono tys m ids fid pre m' ids' l ty x :
  add_locals m ids fid tys pre = (m', ids', l) -> types_get m ty = Some x -> types_get m' ty = Some x.
Proof. intros E. unfold types_get. now rewrite (add_locals_types _ _ _ _ _ _ _ _ E). Qed.

Lemma prepare_bodies_get_mono : forall bs m ids ni i m' ids' ps ty x,
  prepare_bodies m ids ni i bs = POk (m', ids', ps) -> types_get m ty = Some x -> types_get m' ty = Some x.
Proof.
  induction bs as [|b r IH]; intros m ids ni i m' ids' ps ty x E G; cbn [prepare_bodies] in E.
  - inversion E; subst; exact G.
  - pinv E as fid Efid. pinv E as f Ef. destruct (fn_kind f); try discriminate.
    pinv E as t Et.
    destruct (add_locals m ids fid (ty_params t) _) as [[m1 ids1] args] eqn:E1.
    destruct (types_insert m1 _) as [m2 tid] eqn:E2.
    destruct (add_locals m2 ids1 fid _ _) as [[m3 ids3] ls] eqn:E3.
    pinv E as y Ex. destruct y as [[m4 ids4] rest]. inversion E; subst; clear E.
    eapply IH; [exact Ex|]. eapply add_locals_get_mono; [exact E3|].
    eapply types_insert_get_mono; [exact E2|]. eapply add_locals_get_mono; [exact E1|exact G].
Qed.

Lemma nth_N_NoDup {A} (l : list A) (a b : N) x : NoDup l -> nth_N l a = Some x -> nth_N l b = Some x -> a = b.
Proof.
  unfold nth_N. intros ND Ha Hb. apply N2Nat.inj. apply (proj1 (NoDup_nth_error l) ND).
  - apply nth_error_Some. congruence.
  - congruence.
Qed.

Lemma firstn_skipn_mid {A} (a b c : list A) n k : n = length a -> k = length b -> firstn k (skipn n (a ++ b ++ c)) = b.
Proof.
  intros -> ->. rewrite skipn_app, skipn_all, Nat.sub_diag. cbn [skipn app].
  rewrite firstn_app, firstn_all, Nat.sub_diag. cbn [firstn]. now rewrite app_nil_r.
Qed.

(* ---------------------------------------------------------------- prepare_bodies *)
Definition fid_at (ids : i2ids) (ni i : N) (k : nat) : option N := nth_N (ii_funcs ids) (ni + i + N.of_nat k)%N.

Lemma prepare_bodies_locals : forall bs m ids ni i m' ids' ps,
  prepare_bodies m ids ni i bs = POk (m', ids', ps) ->
  NoDup (ii_funcs ids) ->
  (forall k fid, k < length bs -> fid_at ids ni i k = Some fid -> lfind (ii_locals ids) fid = None) ->
  ii_funcs ids' = ii_funcs ids /\
  (exists tl, map lo_ty (items (m_locals m')) = map lo_ty (items (m_locals m)) ++ tl) /\
  dead (m_locals m') = dead (m_locals m) /\
  (forall f, (forall k, k < length bs -> fid_at ids ni i k <> Some f) -> lfind (ii_locals ids') f = lfind (ii_locals ids) f) /\
  forall k b, nth_error bs k = Some b ->
    exists p t base,
      nth_error ps k = Some p /\ pr_body p = b /\ fid_at ids ni i k = Some (pr_fid p) /\
      types_get m' (pr_ty p) = Some t /\
      lvec (ii_locals ids') (pr_fid p) =
        map N.of_nat (seq base (length (ty_params t) + length (expand_locals (wb_locals b)))) /\
      pr_args p = map N.of_nat (seq base (length (ty_params t))) /\
      (length (ty_params t) + length (expand_locals (wb_locals b)) <> 0 -> lfind (ii_locals ids') (pr_fid p) <> None) /\
      (length (ty_params t) + length (expand_locals (wb_locals b)) = 0 -> lfind (ii_locals ids') (pr_fid p) = None) /\
      length (items (m_locals m)) <= base /\
      firstn (length (ty_params t) + length (expand_locals (wb_locals b))) (skipn base (map lo_ty (items (m_locals m')))) =
        ty_params t ++ expand_locals (wb_locals b) /\
      exists f, aget (m_funcs m) (pr_fid p) = Some f /\ fn_kind f = FK_Uninit (pr_ty p).
Proof.
  induction bs as [|b r IH]; intros m ids ni i m' ids' ps E ND Hnone; cbn [prepare_bodies] in E.
  - inversion E; subst; clear E. repeat split; auto.
    + exists []. now rewrite app_nil_r.
    + intros [|k] b Hk; discriminate.
  - pinv E as fid Efid. pinv E as f Ef. destruct (fn_kind f) as [? ?| |ty] eqn:Efk; try discriminate.
    pinv E as t Et.
    destruct (add_locals m ids fid (ty_params t) _) as [[m1 ids1] args] eqn:E1.
    destruct (types_insert m1 _) as [m2 tid] eqn:E2.
    destruct (add_locals m2 ids1 fid _ _) as [[m3 ids3] ls] eqn:E3.
    pinv E as y Ex. destruct y as [[m4 ids4] rest]. inversion E; subst; clear E.
    pose proof (add_locals_spec _ _ _ _ _ _ _ _ E1) as (A1 & A2 & A3 & A4 & A5 & A6 & A7 & A8).
    pose proof (add_locals_spec _ _ _ _ _ _ _ _ E3) as (B1 & B2 & B3 & B4 & B5 & B6 & B7 & B8).
    rewrite (types_insert_locals _ _ _ _ E2) in B1, B2, B3.
    assert (Hfid0 : fid_at ids ni i 0 = Some fid).
    { unfold fid_at. cbn [N.of_nat]. rewrite N.add_0_r. destruct (nth_N (ii_funcs ids) (ni + i)); [inversion Efid; reflexivity|discriminate]. }
    assert (Hshift : forall k, fid_at ids3 ni (i + 1) k = fid_at ids ni i (S k)).
    { intros k. unfold fid_at. rewrite B4, A4. f_equal. lia. }
    assert (Hne : forall k, fid_at ids ni i (S k) <> Some fid).
    { intros k Hk. unfold fid_at in Hfid0, Hk. pose proof (nth_N_NoDup _ _ _ _ ND Hfid0 Hk). lia. }
    assert (L0 : lfind (ii_locals ids) fid = None) by (apply (Hnone 0 fid); [cbn; lia|exact Hfid0]).
    assert (V0 : lvec (ii_locals ids) fid = []) by (unfold lvec; now rewrite L0).
    assert (Len1 : length (items (m_locals m1)) = length (items (m_locals m)) + length (ty_params t)).
    { rewrite <- (map_length lo_ty (items (m_locals m1))), A2, app_length, map_length. reflexivity. }
    assert (Len3 : length (items (m_locals m3)) = length (items (m_locals m1)) + length (expand_locals (wb_locals b))).
    { rewrite <- (map_length lo_ty (items (m_locals m3))), B2, app_length, map_length. reflexivity. }
    destruct (IH _ _ _ _ _ _ _ Ex) as (I1 & (tl & I2) & I3 & I4 & I5).
    { rewrite B4, A4. exact ND. }
    { intros k fid' Hk Hf. rewrite Hshift in Hf.
      assert (fid' <> fid) by (intros ->; exact (Hne k Hf)).
      rewrite B6, A6 by assumption. apply (Hnone (S k) fid'); [cbn; lia|exact Hf]. }
    assert (Hlater : lfind (ii_locals ids') fid = lfind (ii_locals ids3) fid).
    { apply I4. intros k _. rewrite Hshift. apply Hne. }
    repeat split.
    + rewrite I1, B4, A4. reflexivity.
    + exists (ty_params t ++ expand_locals (wb_locals b) ++ tl). rewrite I2, B2, A2, <- !app_assoc. reflexivity.
    + rewrite I3, B3, A3. reflexivity.
    + intros f' Hf'. assert (f' <> fid) by (intros ->; exact (Hf' 0 ltac:(cbn; lia) Hfid0)).
      rewrite I4, B6, A6; auto. intros k Hk. rewrite Hshift. apply Hf'. cbn; lia.
    + intros [|k] b' Hk; cbn [nth_error] in Hk.
      * inversion Hk; subst b'; clear Hk.
        exists {| pr_fid := fid; pr_ty := ty; pr_args := args; pr_body := b |}, t, (length (items (m_locals m))).
        cbn [nth_error pr_fid pr_ty pr_args pr_body].
        assert (Hvec : lvec (ii_locals ids') fid =
                       map N.of_nat (seq (length (items (m_locals m))) (length (ty_params t) + length (expand_locals (wb_locals b))))).
        { unfold lvec. rewrite Hlater. fold (lvec (ii_locals ids3) fid).
          rewrite B5, A5, V0, A1, B1, Len1. cbn [app]. rewrite seq_app, map_app. reflexivity. }
        repeat split; auto.
        -- eapply prepare_bodies_get_mono; [exact Ex|]. eapply add_locals_get_mono; [exact E3|].
           eapply types_insert_get_mono; [exact E2|]. eapply add_locals_get_mono; [exact E1|].
           destruct (types_get m ty); [inversion Et; reflexivity|discriminate].
        -- intros Hn. rewrite Hlater.
           destruct (ty_params t) as [|p0 pr] eqn:Ep.
           ++ apply B7. left. destruct (expand_locals (wb_locals b)); [cbn in Hn; lia|discriminate].
           ++ apply B7. right. apply A7. left. discriminate.
        -- intros Hn. rewrite Hlater.
           destruct (ty_params t) as [|p0 pr] eqn:Ep; [|cbn in Hn; lia].
           destruct (expand_locals (wb_locals b)) as [|e0 er] eqn:Ee; [|cbn in Hn; lia].
           rewrite (B8 eq_refl), (A8 eq_refl). exact L0.
        -- rewrite I2, B2, A2, <- !app_assoc. rewrite (app_assoc (ty_params t)). apply firstn_skipn_mid.
           ++ now rewrite map_length.
           ++ now rewrite app_length.
        -- exists f. split; [|assumption]. destruct (aget (m_funcs m) fid); [inversion Ef; reflexivity|discriminate].
      * destruct (I5 _ _ Hk) as (p & t' & base & P1 & P2 & P3 & P4 & P5 & P6 & P7 & P8 & P9 & P10 & P11).
        exists p, t', base. rewrite Hshift in P3. repeat split; auto; [lia|].
        rewrite (Proofs.Names.add_locals_funcs _ _ _ _ _ _ _ _ E3), (Proofs.Names.types_insert_funcs _ _ _ _ E2),
                (Proofs.Names.add_locals_funcs _ _ _ _ _ _ _ _ E1) in P11. exact P11.
Qed.

(* ---------------------------------------------------------------- the payload loop never touches ii_locals *)
Lemma parse_types_il : forall ts m ids m' ids', parse_types m ids ts = (m', ids') -> ii_locals ids' = ii_locals ids.
Proof.
  induction ts as [|[ps rs] r IH]; intros m ids m' ids' E; cbn [parse_types] in E; [inversion E; reflexivity|].
  destruct (types_insert m _) as [m1 id]. apply IH in E. rewrite E. reflexivity.
Qed.
Lemma parse_imports_il : forall l m ids m' ids', parse_imports m ids l = POk (m', ids') -> ii_locals ids' = ii_locals ids.
Proof.
  induction l as [|i r IH]; intros m ids m' ids' E; cbn [parse_imports] in E; [inversion E; reflexivity|].
  pinv E as x Ex. destruct x as [m1 ids1]. apply IH in E. wcbn. rewrite E. clear E IH.
  unfold parse_import in Ex. destruct (wi_kind i); [pinv Ex as t Et|..]; wcbn; inversion Ex; reflexivity.
Qed.
Lemma parse_funcs_il : forall l m ids m' ids', parse_funcs m ids l = POk (m', ids') -> ii_locals ids' = ii_locals ids.
Proof.
  induction l as [|i r IH]; intros m ids m' ids' E; cbn [parse_funcs] in E; [inversion E; reflexivity|].
  pinv E as t Et. wcbn. apply IH in E. rewrite E. reflexivity.
Qed.
Lemma parse_tables_il : forall l m ids m' ids', parse_tables m ids l = (m', ids') -> ii_locals ids' = ii_locals ids.
Proof.
  induction l as [|i r IH]; intros m ids m' ids' E; cbn [parse_tables] in E; [inversion E; reflexivity|].
  wcbn. apply IH in E. rewrite E. reflexivity.
Qed.
Lemma parse_mems_il : forall l m ids m' ids', parse_mems m ids l = (m', ids') -> ii_locals ids' = ii_locals ids.
Proof.
  induction l as [|i r IH]; intros m ids m' ids' E; cbn [parse_mems] in E; [inversion E; reflexivity|].
  wcbn. apply IH in E. rewrite E. reflexivity.
Qed.
Lemma parse_globals_il : forall l m ids m' ids', parse_globals m ids l = POk (m', ids') -> ii_locals ids' = ii_locals ids.
Proof.
  induction l as [|[g c] r IH]; intros m ids m' ids' E; cbn [parse_globals] in E; [inversion E; reflexivity|].
  pinv E as t Et. wcbn. apply IH in E. rewrite E. reflexivity.
Qed.
Lemma parse_elems_il : forall l m ids m' ids', parse_elems m ids l = POk (m', ids') -> ii_locals ids' = ii_locals ids.
Proof.
  induction l as [|e r IH]; intros m ids m' ids' E; cbn [parse_elems] in E; [inversion E; reflexivity|].
  pinv E as x Ex. destruct x as [m1 ids1]. apply IH in E. wcbn. rewrite E. clear E IH.
  unfold parse_elem in Ex. pinv Ex as its Eits. pinv Ex as mk Emk. destruct mk as [m2 kind].
  wcbn. inversion Ex; subst; clear Ex. reflexivity.
Qed.
Lemma reserve_data_il : forall n m ids m' ids', reserve_data m ids n = (m', ids') -> ii_locals ids' = ii_locals ids.
Proof.
  induction n as [|n IH]; intros m ids m' ids' E; cbn [reserve_data] in E; [inversion E; reflexivity|].
  wcbn. apply IH in E. rewrite E. reflexivity.
Qed.
Lemma parse_data_from_il : forall l m ids pre i m' ids',
  parse_data_from m ids pre i l = POk (m', ids') -> ii_locals ids' = ii_locals ids.
Proof.
  induction l as [|d r IH]; intros m ids pre i m' ids' E; cbn [parse_data_from] in E; [inversion E; reflexivity|].
  pinv E as x Ex. destruct x as [[m1 ids1] id]. pinv E as y Ey. destruct y as [m2 kind]. pinv E as u Eu.
  apply IH in E. rewrite E. clear E IH Eu Ey.
  destruct pre; [pinv Ex as z Ez; inversion Ex; reflexivity|]. wcbn. inversion Ex; reflexivity.
Qed.

Lemma parse_sec_il s sec s' : parse_sec s sec = POk s' -> ii_locals (ps_ids s') = ii_locals (ps_ids s).
Proof.
  intros E. unfold parse_sec in E. destruct sec.
  - destruct (parse_types _ _ _) as [m1 i1] eqn:Ep. inversion E; subst; clear E. wcbn. eapply parse_types_il; eauto.
  - pinv E as x Ex. destruct x as [m1 i1]. inversion E; subst; clear E. wcbn. apply (parse_imports_il _ _ _ _ _ Ex).
  - pinv E as x Ex. destruct x as [m1 i1]. inversion E; subst; clear E. wcbn. apply (parse_funcs_il _ _ _ _ _ Ex).
  - destruct (parse_tables _ _ _) as [m1 i1] eqn:Ep. inversion E; subst; clear E. wcbn. apply (parse_tables_il _ _ _ _ _ Ep).
  - destruct (parse_mems _ _ _) as [m1 i1] eqn:Ep. inversion E; subst; clear E. wcbn. apply (parse_mems_il _ _ _ _ _ Ep).
  - pinv E as x Ex. destruct x as [m1 i1]. inversion E; subst; clear E. wcbn. apply (parse_globals_il _ _ _ _ _ Ex).
  - pinv E as x Ex. inversion E; subst; clear E. wcbn. reflexivity.
  - pinv E as x Ex. inversion E; subst; clear E. wcbn. reflexivity.
  - pinv E as x Ex. destruct x as [m1 i1]. inversion E; subst; clear E. wcbn. apply (parse_elems_il _ _ _ _ _ Ex).
  - destruct (reserve_data _ _ _) as [m1 i1] eqn:Ep. inversion E; subst; clear E. wcbn. apply (reserve_data_il _ _ _ _ _ Ep).
  - inversion E; subst; clear E. wcbn. reflexivity.
  - pinv E as x Ex. destruct x as [m1 i1]. inversion E; subst; clear E. wcbn. unfold parse_data in Ex.
    apply (parse_data_from_il _ _ _ _ _ _ _ Ex).
  - inversion E; subst; clear E. unfold parse_custom. destruct c as [n d|n d|[n|]|[p|]]; wcbn; reflexivity.
Qed.
Lemma parse_secs_il : forall w s s', parse_secs s w = POk s' -> ii_locals (ps_ids s') = ii_locals (ps_ids s).
Proof.
  induction w as [|x r IH]; intros s s' E; cbn [parse_secs] in E.
  - inversion E; subst; reflexivity.
  - pinv E as s1 E1. apply IH in E. rewrite E. eapply parse_sec_il; eauto.
Qed.

(* ---------------------------------------------------------------- after the bodies: only names change *)
Lemma install_bodies_locals : forall ps m ids m', install_bodies m ids ps = POk m' -> m_locals m' = m_locals m.
Proof.
  induction ps as [|p r IH]; intros m ids m' E; cbn [install_bodies] in E.
  - inversion E; reflexivity.
  - pinv E as lf Elf. apply IH in E. rewrite E. wcbn. reflexivity.
Qed.

Definition same_tys (a b : tarena mlocal) : Prop := map lo_ty (items a) = map lo_ty (items b) /\ dead a = dead b.

Lemma fold_names_same_tys (c : bool) (ls : list N) : forall (names : namemap) (a : tarena mlocal),
  same_tys (fold_left (fun a p => if c && str_empty (snd p) then a
                                  else match nth_N ls (fst p) with
                                       | Some lid => aset_at a lid (fun x => {| lo_ty := lo_ty x; lo_name := Some (snd p) |})
                                       | None => a end) names a) a.
Proof.
  induction names as [|p r IH]; intros a; cbn [fold_left]; [split; reflexivity|].
  destruct (c && str_empty (snd p)); [apply IH|]. destruct (nth_N ls (fst p)) as [lid|]; [|apply IH].
  destruct (IH (aset_at a lid (fun x => {| lo_ty := lo_ty x; lo_name := Some (snd p) |}))) as [H1 H2].
  split; [rewrite H1|rewrite H2]; wcbn; [|reflexivity]. apply map_lo_ty_upd. reflexivity.
Qed.

Lemma apply_local_names_same_tys : forall l m ids m',
  apply_local_names m ids l = Some m' -> same_tys (m_locals m') (m_locals m).
Proof.
  induction l as [|[fi names] r IH]; intros m ids m' E; cbn [apply_local_names] in E.
  - inversion E; split; reflexivity.
  - destruct (nth_N (ii_funcs ids) fi); [|apply IH in E; exact E]. apply IH in E. wcbn.
    destruct E as [H1 H2].
    destruct (fold_names_same_tys (cf_synthetic_names (m_config m))
                (match locals_of ids n with Some v => v | None => [] end) names (m_locals m)) as [G1 G2].
    split; congruence.
Qed.

Lemma parse_names_same_tys m ids n : same_tys (m_locals (parse_names m ids n)) (m_locals m).
Proof.
  unfold parse_names.
  set (m1 := match wn_module n with Some s => set_name m (Some s) | None => m end).
  assert (H1 : m_locals m1 = m_locals m) by (subst m1; destruct (wn_module n); reflexivity).
  clearbody m1. cbv zeta.
  match goal with |- context [apply_local_names ?mm _ _] => set (m2 := mm) end.
  assert (H2 : m_locals m2 = m_locals m) by (subst m2; wcbn; exact H1).
  clearbody m2. clear H1.
  destruct (apply_local_names m2 ids (wn_locals n)) as [m3|] eqn:E3; [|rewrite H2; split; reflexivity].
  apply apply_local_names_same_tys in E3. wcbn. rewrite H2 in E3. exact E3.
Qed.

Lemma fold_parse_names_same_tys ids : forall l m,
  same_tys (m_locals (fold_left (fun m n => parse_names m ids n) l m)) (m_locals m).
Proof.
  induction l as [|n r IH]; intros m; cbn [fold_left]; [split; reflexivity|].
  destruct (IH (parse_names m ids n)) as [H1 H2]. destruct (parse_names_same_tys m ids n) as [G1 G2].
  split; congruence.
Qed.

(* types: renamed in place, the key (params, results, entry) is kept *)
Lemma parse_names_types_get m ids n ty t : types_get m ty = Some t ->
  exists t', types_get (parse_names m ids n) ty = Some t' /\ mtype_eqb t t' = true.
Proof.
  intros G. unfold parse_names.
  set (m1 := match wn_module n with Some s => set_name m (Some s) | None => m end).
  assert (H1 : m_types m1 = m_types m) by (subst m1; destruct (wn_module n); reflexivity).
  clearbody m1. cbv zeta.
  match goal with |- context [apply_local_names ?mm _ _] => set (m2 := mm) end.
  assert (H2 : m_types m2 = m_types m) by (subst m2; wcbn; exact H1).
  clearbody m2. clear H1.
  destruct (apply_local_names m2 ids (wn_locals n)) as [m3|] eqn:E3.
  2:{ exists t. split; [unfold types_get; rewrite H2; exact G|apply mtype_eqb_refl']. }
  apply apply_local_names_types in E3.
  destruct (apply_names_types_eqv (ii_types ids) (wn_types n) (Arena.arena (m_types m3))) as [D Q].
  unfold types_get, aset_index, index, get, is_dead in *. wcbn.
  rewrite E3 in D, Q |- *. rewrite H2 in D, Q |- *. rewrite D.
  destruct (existsb _ _); [discriminate|].
  destruct (Q _ _ G) as (t' & Ht' & He). exists t'. split; assumption.
Qed.

Lemma fold_parse_names_types_get ids : forall l m ty t, types_get m ty = Some t ->
  exists t', types_get (fold_left (fun m n => parse_names m ids n) l m) ty = Some t' /\ mtype_eqb t t' = true.
Proof.
  induction l as [|n r IH]; intros m ty t G; cbn [fold_left].
  - exists t. split; [exact G|apply mtype_eqb_refl'].
  - destruct (parse_names_types_get m ids n ty t G) as (t1 & G1 & E1).
    destruct (IH _ _ _ G1) as (t2 & G2 & E2). exists t2. split; [exact G2|eapply mtype_eqb_trans; eauto].
Qed.

Lemma iota_NoDup n : NoDup (iota n).
Proof. unfold iota. apply Proofs.Order.NoDup_map_inj; [apply Nat2N.inj|apply seq_NoDup]. Qed.

Lemma nth_error_firstn_some {A} (l : list A) : forall n j x, nth_error (firstn n l) j = Some x -> nth_error l j = Some x.
Proof.
  induction l as [|a l IH]; intros [|n] [|j] x H; cbn in *; try discriminate; auto. eapply IH; eauto.
Qed.
Lemma nth_error_skipn' {A} (l : list A) : forall n j, nth_error (skipn n l) j = nth_error l (n + j).
Proof.
  induction l as [|a l IH]; intros [|n] j; cbn [skipn plus]; auto.
  - destruct j; reflexivity.
  - cbn [nth_error]. apply IH.
Qed.

(* ---------------------------------------------------------------- the theorem *)
(* the k-th code entry, body [b]: its function [fid] (declared with type index [ty]) gets
   #params + #declared locals with fresh consecutive arena ids, parameters first, typed position by position *)
Theorem parseM_local_map : forall cf ver w s,
  parseM cf ver w = POk s ->
  exists s1,
    parse_secs {| ps_m := empty_wir cf; ps_ids := empty_i2ids; ps_bodies := []; ps_names := []; ps_calls_on_parse := 0 |} w = POk s1 /\
    forall k b, nth_error (ps_bodies s1) k = Some b ->
    exists fid f ty t base,
      nth_N (ii_funcs (ps_ids s)) (len_N (iter (m_funcs (ps_m s1))) - len_N (ps_bodies s1) + N.of_nat k)%N = Some fid /\
      aget (m_funcs (ps_m s1)) fid = Some f /\ fn_kind f = FK_Uninit ty /\
      types_get (ps_m s) ty = Some t /\
      let tys := ty_params t ++ expand_locals (wb_locals b) in
      let ls := map N.of_nat (seq base (length tys)) in
      Proofs.Names.locals_vec (ps_ids s) fid = ls /\
      (tys <> [] -> locals_of (ps_ids s) fid = Some ls) /\
      (tys = [] -> locals_of (ps_ids s) fid = None) /\
      length (items (m_locals (ps_m s1))) <= base /\
      dead (m_locals (ps_m s)) = dead (m_locals (ps_m s1)) /\
      forall j tyj, nth_error tys j = Some tyj ->
        exists lo, nth_error (items (m_locals (ps_m s))) (base + j) = Some lo /\ lo_ty lo = tyj.
Proof.
  intros cf ver w s E. unfold parseM in E. pinv E as s1 E1. exists s1. split; [exact E1|].
  assert (IDC : ids_consistent (ps_m s1) (ps_ids s1)) by (eapply parse_secs_ids; [|exact E1]; apply idc_empty).
  pose proof (parse_secs_il _ _ _ E1) as IL. cbn in IL.
  destruct (_ <? _)%N; [discriminate|].
  pinv E as x Ex. destruct x as [[m1 ids1] prepared]. pinv E as m2 E2. inversion E; subst; clear E. wcbn.
  destruct (prepare_bodies_locals _ _ _ _ _ _ _ _ Ex) as (P1 & _ & P3 & _ & P5).
  { destruct IDC as (-> & _). apply iota_NoDup. }
  { intros k fid _ _. rewrite IL. reflexivity. }
  intros k b Hk. destruct (P5 _ _ Hk) as (p & t & base & Q1 & Q2 & Q3 & Q4 & Q5 & Q6 & Q7 & Q8 & Q9 & Q10 & (f & Q11 & Q12)).
  apply install_bodies_types in E2 as E2t. apply install_bodies_locals in E2 as E2l.
  assert (Q4' : types_get m2 (pr_ty p) = Some t) by (unfold types_get in *; rewrite E2t; exact Q4).
  destruct (fold_parse_names_types_get ids1 (ps_names s1) m2 _ _ Q4') as (t' & G' & Et').
  apply mtype_eqb_spec in Et'. destruct Et' as (Ep & _ & _).
  destruct (fold_parse_names_same_tys ids1 (ps_names s1) m2) as [S1 S2]. rewrite E2l in S1, S2.
  exists (pr_fid p), f, (pr_ty p), t', base. rewrite <- Ep.
  unfold fid_at in Q3. rewrite N.add_0_r in Q3. rewrite P1.
  assert (Hlen : length (ty_params t ++ expand_locals (wb_locals b)) =
                 length (ty_params t) + length (expand_locals (wb_locals b))) by apply app_length.
  cbv zeta. rewrite Hlen. unfold Proofs.Names.locals_vec. rewrite locals_of_lfind. fold (lvec (ii_locals ids1) (pr_fid p)).
  repeat split; auto.
  - unfold lvec in *. destruct (lfind (ii_locals ids1) (pr_fid p)); [exact Q5|exact Q5].
  - intros Hne. assert (Hn : length (ty_params t) + length (expand_locals (wb_locals b)) <> 0).
    { rewrite <- Hlen. destruct (ty_params t ++ expand_locals (wb_locals b)); [congruence|discriminate]. }
    specialize (Q7 Hn). unfold lvec in Q5. destruct (lfind (ii_locals ids1) (pr_fid p)); [now rewrite Q5|congruence].
  - intros He. rewrite He in Hlen. cbn in Hlen. rewrite (Q8 (eq_sym Hlen)). reflexivity.
  - rewrite S2. exact P3.
  - intros j tyj Hj. rewrite <- Q10 in Hj. apply nth_error_firstn_some in Hj. rewrite nth_error_skipn' in Hj.
    rewrite <- S1, nth_error_map in Hj.
    destruct (nth_error (items (m_locals (fold_left (fun m n => parse_names m ids1 n) (ps_names s1) m2))) (base + j)) as [lo|];
      [|discriminate].
    exists lo. split; [reflexivity|]. cbn in Hj. congruence.
Qed.

(* The statement "locals_of (ps_ids s) fid = Some ls with length ls = #params + #declared" is false for a
   function with no parameter and no declared local: nothing is ever pushed for it, the map has no entry
   (every reader of the map uses `match locals_of .. with Some v => v | None => [] end`, i.e. locals_vec). *)
Theorem parseM_local_map_some_refuted :
  exists w s fid, parseM default_config [48%N] w = POk s /\
    nth_N (ii_funcs (ps_ids s)) 0%N = Some fid /\ locals_of (ps_ids s) fid = None.
Proof.
  exists [S_Types [([], [])]; S_Funcs [0%N]; S_Code [{| wb_locals := []; wb_ops := [(WEnd, 1%N)] |}]].
  eexists. eexists. split; [vm_compute; reflexivity|]. split; vm_compute; reflexivity.
Qed.

Print Assumptions add_locals_spec.
Print Assumptions prepare_bodies_locals.
Print Assumptions parse_secs_il.
Print Assumptions parseM_local_map.
Print Assumptions parseM_local_map_some_refuted.
