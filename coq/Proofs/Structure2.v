(* Module-level structure preservation, continued (C04): data segments, the data count section,
   "no start section is invented", function signatures.  Companion of Proofs/Structure.v. *)
From Coq Require Import List NArith ZArith Bool Arith Lia.
Import ListNotations.
From WV Require Import Gen.Ops Model.Common Model.IR Model.Arena Model.Traversal Model.EmitFn Model.Locals
                       Model.ParseFn Model.ModuleM Model.ParseM Model.EmitM Gen.Attrs.
From WV Require Import Proofs.Arena Proofs.Order Proofs.IndexMaps Proofs.CustomsCfg Proofs.Escalation Proofs.Structure
                       Proofs.ParsedWf.
From Coq Require Import Permutation.
Local Open Scope nat_scope.

(* ====================================================================================== *)
(* A. data segments                                                                        *)
(* ====================================================================================== *)
Definition data_of (d : wdata) : mdatakind * list N :=
  (match wd_kind d with WDK_Passive => DK_Passive | WDK_Active mi off => DK_Active mi (cst0 off) end, wd_bytes d).

(* what a payload does to the data arena: a DataCount section reserves empty passive segments,
   a Data section OVERWRITES the first |l| reserved entries (or appends when nothing is reserved) *)
Definition sec_kdata (sec : wsec) (k : list (mdatakind * list N)) : list (mdatakind * list N) :=
  match sec with
  | S_DataCount n => k ++ repeat (DK_Passive, @nil N) (N.to_nat n)
  | S_Data l => map data_of l ++ skipn (length l) k
  | _ => k
  end.

Definition idsD (m : wir) (ids : i2ids) : Prop :=
  (exists n, ii_globals ids = iota n) /\ (exists n, ii_funcs ids = iota n) /\ (exists n, ii_memories ids = iota n) /\
  ii_data ids = iota (length (items (m_data m))) /\ dead (m_data m) = [].
Lemma idc_idsD m ids : ids_consistent m ids -> idsD m ids.
Proof. intros H. unfold ids_consistent in H. decompose [and] H. unfold idsD. repeat split; eauto. Qed.

Lemma upd_app_at {A} (f : A -> A) : forall (a : list A) b r, Arena.upd (a ++ b :: r) (length a) f = a ++ f b :: r.
Proof. induction a as [|x a IH]; intros b r; cbn [app length Arena.upd]; [reflexivity|rewrite IH; reflexivity]. Qed.
Lemma skipn_app_len {A} : forall (b c : list A) n, length b = n -> skipn n (b ++ c) = c.
Proof. induction b as [|x b IH]; intros c n H; subst n; cbn [length skipn app]; [reflexivity|apply IH; reflexivity]. Qed.

Lemma reserve_data_spec : forall n m ids m' ids', reserve_data m ids n = (m', ids') ->
  K_data m' = K_data m ++ repeat (DK_Passive, @nil N) n.
Proof.
  induction n as [|n IH]; intros m ids m' ids' E; cbn [reserve_data] in E.
  - inversion E; subst. cbn [repeat]. rewrite app_nil_r. reflexivity.
  - wcbn. apply IH in E. rewrite E. unfold K_data. wcbn. rewrite map_app, <- app_assoc. reflexivity.
Qed.

(* the core: filling.  [A] = the entries before position i, [R] = the rest of the arena *)
Lemma parse_data_from_fill : forall l m ids pre i m' ids' A R,
  idsD m ids -> items (m_data m) = A ++ R ->
  (pre = true -> length A = N.to_nat i) -> (pre = false -> R = []) ->
  parse_data_from m ids pre i l = POk (m', ids') ->
  exists B C, R = B ++ C /\ (pre = true -> length B = length l) /\
              K_data m' = map dcore A ++ map data_of l ++ map dcore C.
Proof.
  induction l as [|d r IH]; intros m ids pre i m' ids' A R HD HI Ht Hf E; cbn [parse_data_from] in E.
  - inversion E; subst. exists [], R. split; [reflexivity|]. split; [reflexivity|].
    unfold K_data. rewrite HI, map_app. reflexivity.
  - pinv E as x Ex. destruct x as [[m1 ids1] id]. pinv E as y Ey. destruct y as [m2 kind]. pinv E as u Eu. clear Eu.
    destruct HD as (Hg & Hfn & Hm & Hd & Hdead).
    assert (X : exists b R', items (m_data m1) = A ++ b :: R' /\ dead (m_data m1) = [] /\ N.to_nat id = length A /\
                  (exists n, ii_globals ids1 = iota n) /\ (exists n, ii_funcs ids1 = iota n) /\ (exists n, ii_memories ids1 = iota n) /\
                  ii_data ids1 = iota (length (items (m_data m1))) /\
                  (pre = true -> R = b :: R') /\ (pre = false -> R' = [])).
    { destruct pre.
      - pinv Ex as z Ez. inversion Ex; subst m1 ids1 z; clear Ex. apply of_opt_err_ok in Ez. rewrite Hd in Ez.
        unfold nth_N in Ez. apply iota_nth_inv in Ez. destruct Ez as [Ez Lt]. rewrite HI, app_length in Lt.
        specialize (Ht eq_refl). destruct R as [|b R']; [cbn [length] in Lt; lia|].
        exists b, R'. subst id. rewrite Nat2N.id. repeat split; auto. discriminate.
      - specialize (Hf eq_refl). subst R. rewrite app_nil_r in HI. wcbn. inversion Ex; subst m1 ids1 id; clear Ex. wcbn.
        unfold next_id in *. exists empty_data, []. rewrite !HI, Nat2N.id. repeat split; auto; try discriminate.
        rewrite Hd, HI, app_length. cbn [length]. rewrite Nat.add_1_r, iota_S. reflexivity. }
    clear Ex. destruct X as (b & R' & HI1 & Hdead1 & Hid & Hg1 & Hfn1 & Hm1 & Hd1 & Ht1 & Hf1).
    assert (H2 : m_data m2 = m_data m1 /\ kind = fst (data_of d)).
    { unfold data_of. destruct (wd_kind d) as [|mi off].
      - inversion Ey; subst; split; reflexivity.
      - pinv Ey as mid Emid. pinv Ey as mm Emm. pinv Ey as o Eo. pinv Ey as ok Eok. destruct ok; [|discriminate].
        inversion Ey; subst m2 kind; clear Ey. split; [reflexivity|]. cbn [fst].
        apply of_opt_err_ok in Emid. destruct Hm1 as [nm Hm1]. rewrite Hm1 in Emid. apply nth_N_iota in Emid.
        apply eval_const_cst0 in Eo; [|exact Hg1|exact Hfn1]. subst. reflexivity. }
    clear Ey. destruct H2 as [HD2 Hk].
    match type of E with parse_data_from ?mm _ _ _ _ = _ => set (m3 := mm) in * end.
    set (b' := {| da_kind := kind; da_value := wd_bytes d; da_name := da_name b |}).
    assert (HI3 : items (m_data m3) = (A ++ [b']) ++ R').
    { subst m3. wcbn. rewrite HD2, HI1, Hid, upd_app_at, <- app_assoc. reflexivity. }
    assert (HD3 : idsD m3 ids1).
    { unfold idsD. repeat split; auto.
      - rewrite Hd1, HI3, HI1, <- app_assoc. rewrite !app_length. reflexivity.
      - subst m3. wcbn. rewrite HD2. exact Hdead1. }
    destruct (IH m3 ids1 pre (i + 1)%N m' ids' (A ++ [b']) R' HD3 HI3) as (B & C & HR & HB & HK); [| |exact E|].
    + intros Hp. rewrite app_length, (Ht Hp), N2Nat.inj_add. reflexivity.
    + exact Hf1.
    + destruct pre.
      * exists (b :: B), C. rewrite (Ht1 eq_refl), HR. split; [reflexivity|]. split; [intros _; cbn [length]; rewrite HB; reflexivity|].
        rewrite HK, map_app, <- app_assoc. cbn [map app]. do 2 f_equal. subst b'. unfold dcore, data_of. cbn [da_kind da_value fst snd].
        rewrite Hk. reflexivity.
      * exists [], []. rewrite (Hf eq_refl). split; [reflexivity|]. split; [discriminate|].
        rewrite (Hf1 eq_refl) in HR. symmetry in HR. apply app_eq_nil in HR. destruct HR as [_ ->].
        rewrite HK, map_app, <- app_assoc. cbn [map app]. do 2 f_equal. subst b'. unfold dcore, data_of. cbn [da_kind da_value fst snd].
        rewrite Hk. reflexivity.
Qed.

Lemma iter_length_nodead {A} (a : tarena A) : dead a = [] -> length (iter a) = length (items a).
Proof.
  intros D. rewrite <- (aiter_nodead_snd a D), map_length. unfold aiter. rewrite map_length. reflexivity.
Qed.

Lemma parse_data_spec m ids l m' ids' : idsD m ids -> parse_data m ids l = POk (m', ids') ->
  K_data m' = sec_kdata (S_Data l) (K_data m).
Proof.
  intros HD E. unfold parse_data in E. pose proof HD as (Hg & Hfn & Hm & Hd & Hdead).
  rewrite (iter_length_nodead _ Hdead) in E. cbn [sec_kdata]. unfold K_data at 2.
  destruct (items (m_data m)) as [|b0 R0] eqn:Ei.
  - cbn [length Nat.eqb negb] in E.
    destruct (parse_data_from_fill l m ids false 0%N m' ids' [] [] HD) as (B & C & HR & _ & HK);
      [rewrite Ei; reflexivity|discriminate|reflexivity|exact E|].
    symmetry in HR. apply app_eq_nil in HR. destruct HR as [_ ->]. rewrite HK. cbn [map app].
    rewrite skipn_nil. reflexivity.
  - cbn [length Nat.eqb negb] in E.
    destruct (parse_data_from_fill l m ids true 0%N m' ids' [] (b0 :: R0) HD) as (B & C & HR & HB & HK);
      [rewrite Ei; reflexivity|reflexivity|discriminate|exact E|].
    rewrite HK, HR, map_app. cbn [map app]. f_equal. symmetry. apply skipn_app_len. rewrite map_length. auto.
Qed.

Lemma parse_sec_D s sec s' : ids_consistent (ps_m s) (ps_ids s) -> parse_sec s sec = POk s' ->
  K_data (ps_m s') = sec_kdata sec (K_data (ps_m s)).
Proof.
  intros Hid E. unfold parse_sec in E. destruct sec; cbn [sec_kdata].
  - destruct (parse_types _ _ _) as [m1 i1] eqn:Ep. inversion E; subst; clear E. wcbn.
    apply parse_types_F9 in Ep. f9 Ep. unfold K_data. congruence.
  - pinv E as x Ex. destruct x as [m1 i1]. inversion E; subst; clear E. wcbn.
    apply parse_imports_F9 in Ex. destruct Ex as (_ & X & _ & _). unfold K_data. congruence.
  - pinv E as x Ex. destruct x as [m1 i1]. inversion E; subst; clear E. wcbn. apply parse_funcs_F9 in Ex. f9 Ex. unfold K_data. congruence.
  - destruct (parse_tables _ _ _) as [m1 i1] eqn:Ep. inversion E; subst; clear E. wcbn. apply parse_tables_F9 in Ep. f9 Ep. unfold K_data. congruence.
  - destruct (parse_mems _ _ _) as [m1 i1] eqn:Ep. inversion E; subst; clear E. wcbn. apply parse_mems_F9 in Ep. f9 Ep. unfold K_data. congruence.
  - pinv E as x Ex. destruct x as [m1 i1]. inversion E; subst; clear E. wcbn. apply parse_globals_F9 in Ex. f9 Ex. unfold K_data. congruence.
  - pinv E as x Ex. inversion E; subst; clear E. wcbn. apply parse_exports_F9 in Ex. f9 Ex. unfold K_data. congruence.
  - pinv E as x Ex. inversion E; subst; clear E. wcbn. reflexivity.
  - pinv E as x Ex. destruct x as [m1 i1]. inversion E; subst; clear E. wcbn. apply parse_elems_step in Ex.
    destruct Ex as [X1 _]. f9 X1. unfold K_data. congruence.
  - destruct (reserve_data _ _ _) as [m1 i1] eqn:Ep. inversion E; subst; clear E. wcbn. apply reserve_data_spec in Ep. exact Ep.
  - inversion E; subst; clear E. wcbn. reflexivity.
  - pinv E as x Ex. destruct x as [m1 i1]. inversion E; subst; clear E. wcbn.
    apply parse_data_spec in Ex; [exact Ex|apply idc_idsD; exact Hid].
  - inversion E; subst; clear E. unfold parse_custom. destruct c as [n d|n d|[n|]|[p|]]; wcbn; reflexivity.
Qed.
Theorem parse_secs_D : forall w s s', ids_consistent (ps_m s) (ps_ids s) -> parse_secs s w = POk s' ->
  K_data (ps_m s') = fold_left (fun k sec => sec_kdata sec k) w (K_data (ps_m s)).
Proof.
  induction w as [|x r IH]; intros s s' Hid E; cbn [parse_secs fold_left] in *.
  - inversion E; subst. reflexivity.
  - pinv E as s1 E1. pose proof (parse_sec_idc _ _ _ Hid E1) as Hid1. apply IH in E; [|exact Hid1].
    apply parse_sec_D in E1; [|exact Hid]. rewrite E, E1. reflexivity.
Qed.
Corollary parseM_data : forall cf ver w s, parseM cf ver w = POk s ->
  K_data (ps_m s) = fold_left (fun k sec => sec_kdata sec k) w [].
Proof.
  intros cf ver w s E. destruct (parseM_KK _ _ _ _ E) as [s1 [E1 EK]]. apply parse_secs_D in E1; [|apply idc_empty].
  unfold KK in EK. injection EK; intros. change (K_data (ps_m (pst0 cf))) with (@nil (mdatakind * list N)) in E1. congruence.
Qed.

(* ---------------------------------------------------------------- the stream-level reading *)
Definition kd_step (k : list (mdatakind * list N)) (sec : wsec) := sec_kdata sec k.

Lemma tag_count_app t a b : tag_count t (a ++ b) = tag_count t a + tag_count t b.
Proof. unfold tag_count. rewrite filter_app, app_length. reflexivity. Qed.
Lemma tag_count_cons t x w : tag_count t (x :: w) = (if has_tag t x then 1 else 0) + tag_count t w.
Proof. unfold tag_count. cbn [filter]. destruct (has_tag t x); reflexivity. Qed.
Lemma tag_count_0 t w : tag_count t w = 0 -> filter (has_tag t) w = [].
Proof. unfold tag_count. apply length_zero_iff_nil. Qed.
Lemma in_tag_count t s w : In s w -> has_tag t s = true -> 1 <= tag_count t w.
Proof.
  intros Hin Ht. assert (Hi : In s (filter (has_tag t) w)) by (apply filter_In; auto).
  unfold tag_count. destruct (filter (has_tag t) w); [destruct Hi|cbn [length]; lia].
Qed.

Lemma fold_kdata_none : forall w k, filter (has_tag 9) w = [] -> filter (has_tag 11) w = [] -> fold_left kd_step w k = k.
Proof.
  induction w as [|x r IH]; intros k H9 H11; [reflexivity|]. cbn [filter fold_left] in *.
  destruct (has_tag 9 x) eqn:E9; [discriminate|]. destruct (has_tag 11 x) eqn:E11; [discriminate|].
  rewrite IH by assumption. destruct x; try reflexivity; discriminate.
Qed.
Lemma fold_kdata_data : forall w l k, once 11 w -> filter (has_tag 9) w = [] -> In (S_Data l) w ->
  fold_left kd_step w k = map data_of l ++ skipn (length l) k.
Proof.
  unfold once, tag_count. induction w as [|x r IH]; intros l k Ho H9 Hin; [destruct Hin|].
  cbn [filter fold_left] in *. destruct (has_tag 9 x) eqn:E9; [discriminate|].
  destruct (has_tag 11 x) eqn:E11.
  - cbn [length] in Ho. assert (Hr : filter (has_tag 11) r = []) by (destruct (filter (has_tag 11) r); [reflexivity|cbn in Ho; lia]).
    rewrite fold_kdata_none by assumption. destruct Hin as [->|Hin]; [reflexivity|].
    exfalso. assert (Hi : In (S_Data l) (filter (has_tag 11) r)) by (apply filter_In; auto). rewrite Hr in Hi. destruct Hi.
  - destruct Hin as [->|Hin]; [discriminate|]. replace (kd_step k x) with k by (destruct x; try reflexivity; discriminate).
    apply IH; assumption.
Qed.

(* the validator's guarantee about a DataCount section: it precedes the data section and states its length *)
Definition dc_before (w : list wsec) (l : list wdata) : Prop :=
  forall n, In (S_DataCount n) w ->
    N.to_nat n = length l /\ exists w1 w2, w = w1 ++ S_DataCount n :: w2 /\ In (S_Data l) w2.

Lemma data_final w l : stream_wf w = true -> In (S_Data l) w -> dc_before w l ->
  fold_left kd_step w [] = map data_of l.
Proof.
  intros Hwf Hin Hdc.
  assert (O9 : once 9 w) by (apply stream_wf_once; [exact Hwf|lia]).
  assert (O11 : once 11 w) by (apply stream_wf_once; [exact Hwf|lia]).
  destruct (filter (has_tag 9) w) as [|s0 f0] eqn:E9.
  - rewrite (fold_kdata_data w l [] O11 E9 Hin), skipn_nil, app_nil_r. reflexivity.
  - assert (Hs0 : In s0 (filter (has_tag 9) w)) by (rewrite E9; left; reflexivity).
    apply filter_In in Hs0. destruct Hs0 as [Hs0 Ht0]. destruct s0; try discriminate.
    destruct (Hdc n Hs0) as [Hn (w1 & w2 & -> & Hin2)]. clear E9 Hs0 Ht0 Hdc Hin.
    unfold once in O9, O11. rewrite tag_count_app, tag_count_cons in O9, O11.
    change (has_tag 9 (S_DataCount n)) with true in O9. change (has_tag 11 (S_DataCount n)) with false in O11. cbv beta iota in O9, O11.
    pose proof (in_tag_count 11 _ _ Hin2 eq_refl) as L2.
    rewrite fold_left_app. cbn [fold_left].
    rewrite (fold_kdata_none w1) by (apply tag_count_0; lia). unfold kd_step at 2. cbn [sec_kdata app].
    rewrite (fold_kdata_data w2 l); [|unfold once; lia|apply tag_count_0; lia|exact Hin2].
    rewrite skipn_all2 by (rewrite repeat_length; lia). apply app_nil_r.
Qed.

(* ---------------------------------------------------------------- the emit side *)
Definition data_rt (x : x2i) (wi wo : wdata) : Prop :=
  wd_bytes wo = wd_bytes wi /\
  match wd_kind wi, wd_kind wo with
  | WDK_Passive, WDK_Passive => True
  | WDK_Active mi off, WDK_Active mi' off' => get_idx x S_memory mi = Ok mi' /\ ren_const x off off'
  | _, _ => False
  end.
Definition demit (x : x2i) (c : mdatakind * list N) : res wdata :=
  match fst c with
  | DK_Passive => Ok {| wd_kind := WDK_Passive; wd_bytes := snd c |}
  | DK_Active mem off => mi <- get_idx x S_memory mem ;; o <- emit_const x off ;;
                         Ok {| wd_kind := WDK_Active mi o; wd_bytes := snd c |}
  end.
Lemma demit_rt x wi wo : demit x (data_of wi) = Ok wo -> data_rt x wi wo.
Proof.
  unfold demit, data_of, data_rt. cbn [fst snd]. destruct (wd_kind wi) as [|mi off].
  - intros H. inversion H; subst. cbn. auto.
  - intros H. rinv H as mi' Emi. rinv H as o Eo. inversion H; subst. cbn [wd_bytes wd_kind].
    split; [reflexivity|]. split; [exact Emi|]. apply emit_const_ren. exact Eo.
Qed.

Lemma emit_data_entries m x s_da l : emit_data m x = Ok s_da -> dead (m_data m) = [] -> K_data m = map data_of l -> l <> [] ->
  exists ds, s_da = [S_Data ds] /\ Forall2 (data_rt x) l ds.
Proof.
  intros H D HK Hne. unfold emit_data in H.
  assert (HA : map (fun p => dcore (snd p)) (aiter (m_data m)) = map data_of l).
  { rewrite <- HK. unfold K_data. rewrite <- (aiter_nodead_snd _ D), map_map. reflexivity. }
  destruct (aiter (m_data m)) as [|p0 ps] eqn:Ea.
  { cbn [map] in HA. destruct l; [congruence|discriminate]. }
  rewrite <- Ea in *. clear Ea p0 ps. rinv H as ds Eds. inversion H; subst s_da; clear H.
  exists ds. split; [reflexivity|]. apply rmapM_ok_inv in Eds.
  assert (F : Forall2 (fun c wo => demit x c = Ok wo) (map (fun p => dcore (snd p)) (aiter (m_data m))) ds).
  { apply Forall2_map_l. eapply Forall2_impl; [|exact Eds]. cbn beta. intros a b Hab. exact Hab. }
  rewrite HA in F. apply Forall2_map_l in F. eapply Forall2_impl; [|exact F]. intros a b. apply demit_rt.
Qed.

(* ---------------------------------------------------------------- emitM taken apart, with the tags of the pieces *)
Definition tagged (t : nat) (l : list wsec) : Prop := Forall (fun s => sec_tag s = Some t) l.
Lemma emit_types_tag m x l x' : emit_types m x = (l, x') -> tagged 0 l.
Proof. unfold emit_types, tagged. plain_tac2. Qed.
Lemma emit_imports_tag m x l x' : emit_imports m x = Ok (l, x') -> tagged 1 l.
Proof. unfold emit_imports, tagged. plain_tac2. Qed.
Lemma emit_func_section_tag m x l x' : emit_func_section m x = Ok (l, x') -> tagged 2 l.
Proof. unfold emit_func_section, tagged. plain_tac2. Qed.
Lemma emit_tables_tag m x : tagged 3 (fst (emit_tables m x)).
Proof. unfold emit_tables, tagged. destruct (filter _ _); cbn [fst]; repeat constructor. Qed.
Lemma emit_memories_tag m x : tagged 4 (fst (emit_memories m x)).
Proof. unfold emit_memories, tagged. destruct (filter _ _); cbn [fst]; repeat constructor. Qed.
Lemma emit_globals_tag m x l x' : emit_globals m x = Ok (l, x') -> tagged 5 l.
Proof. unfold emit_globals, tagged. plain_tac2. Qed.
Lemma emit_exports_tag m x l : emit_exports m x = Ok l -> tagged 6 l.
Proof. unfold emit_exports, tagged. plain_tac. Qed.
Lemma emit_start_tag (o : option N) x l :
  match o with Some f => i <- get_idx x S_func f ;; Ok [S_Start i] | None => Ok [] end = Ok l -> tagged 7 l.
Proof. unfold tagged. plain_tac. Qed.
Lemma emit_elements_tag m x l x' : emit_elements m x = Ok (l, x') -> tagged 8 l.
Proof. unfold emit_elements, tagged. plain_tac2. Qed.
Lemma emit_data_count_tag m x l x' : emit_data_count m x = Ok (l, x') -> tagged 9 l.
Proof. unfold emit_data_count, tagged. plain_tac2. Qed.
Lemma emit_code_tag m x ilen l x' efs : emit_code m x ilen = Ok (l, x', efs) -> tagged 10 l.
Proof. unfold emit_code, tagged. plain_tac3. Qed.
Lemma emit_data_tag m x l : emit_data m x = Ok l -> tagged 11 l.
Proof. unfold emit_data, tagged. plain_tac. Qed.

Lemma tagged_in t u l s : tagged t l -> In s l -> sec_tag s = Some u -> u = t.
Proof. unfold tagged. rewrite Forall_forall. intros H Hin Hu. rewrite (H _ Hin) in Hu. congruence. Qed.

Lemma emitM_inv2 m ilen dw e : emitM m ilen dw = Ok e ->
  exists s_ty x1 s_im x2 s_fn x3 x4 x5 s_gl x6 s_ex s_st s_el x9 s_dc x10 s_co efs s_da rest,
    emit_types m empty_x2i = (s_ty, x1) /\ emit_imports m x1 = Ok (s_im, x2) /\ emit_func_section m x2 = Ok (s_fn, x3) /\
    x4 = snd (emit_tables m x3) /\ x5 = snd (emit_memories m x4) /\ emit_globals m x5 = Ok (s_gl, x6) /\
    emit_exports m x6 = Ok s_ex /\
    match m_start m with Some f => i <- get_idx x6 S_func f ;; Ok [S_Start i] | None => Ok [] end = Ok s_st /\
    emit_elements m x6 = Ok (s_el, x9) /\ emit_data_count m x9 = Ok (s_dc, x10) /\
    emit_code m x10 ilen = Ok (s_co, em_x2i e, efs) /\ emit_data m (em_x2i e) = Ok s_da /\
    em_secs e = s_ty ++ s_im ++ s_fn ++ fst (emit_tables m x3) ++ fst (emit_memories m x4) ++ s_gl ++ s_ex ++ s_st ++
                s_el ++ s_dc ++ s_co ++ s_da ++ rest /\
    (forall s, In s rest -> sec_tag s = None \/ In s dw) /\
    (forall s t, In s (em_secs e) -> sec_tag s = Some t ->
       In s dw \/ In s (nth t [s_ty; s_im; s_fn; fst (emit_tables m x3); fst (emit_memories m x4); s_gl; s_ex; s_st;
                               s_el; s_dc; s_co; s_da] [])).
Proof.
  intros H. unfold emitM, set_customs_take in H.
  destruct (emit_types m empty_x2i) as [s_ty x1] eqn:E1.
  rinv H as a2 E2. destruct a2 as [s_im x2].
  rinv H as a3 E3. destruct a3 as [s_fn x3].
  destruct (emit_tables m x3) as [s_tb x4] eqn:E4.
  destruct (emit_memories m x4) as [s_me x5] eqn:E5.
  rinv H as a6 E6. destruct a6 as [s_gl x6].
  rinv H as s_ex E7. rinv H as s_st E8.
  rinv H as a9 E9. destruct a9 as [s_el x9].
  rinv H as a10 E10. destruct a10 as [s_dc x10].
  rinv H as a11 E11. destruct a11 as [[s_co x11] efs].
  rinv H as s_da E12. rinv H as s_nm E13. inversion H; subst e; clear H. cbn [em_x2i em_secs].
  exists s_ty, x1, s_im, x2, s_fn, x3, x4, x5, s_gl, x6, s_ex, s_st, s_el, x9, s_dc, x10, s_co, efs, s_da.
  eexists. rewrite E4, E5. cbn [fst snd].
  repeat match goal with |- _ /\ _ => split; [first [assumption|reflexivity]|] end.
  match goal with |- ?P /\ _ => assert (R : P) end.
  { intros s Hin. rewrite !in_app_iff in Hin. destruct Hin as [Hn|[Hn|[Hn|Hn]]].
    - destruct (cf_skip_name (m_config m)); [inversion E13; subst; destruct Hn|].
      apply emit_names_shape in E13. destruct E13 as [->|[n ->]]; [destruct Hn|]. destruct Hn as [<-|[]]. left; reflexivity.
    - destruct (cf_skip_producers (m_config m)); [destruct Hn|]. destruct (m_producers m); [destruct Hn|].
      destruct Hn as [<-|[]]. left; reflexivity.
    - destruct (cf_generate_dwarf (m_config m)); [right; exact Hn|destruct Hn].
    - apply in_flat_map in Hn. destruct Hn as [c [_ Hn]]. destruct c as [c|]; [|destruct Hn].
      destruct (starts_with_debug (cu_name c)); [destruct Hn|]. destruct Hn as [<-|[]]. left; reflexivity. }
  split; [exact R|].
  match type of R with forall s, In s ?r -> _ => set (rest := r) in * end. clearbody rest.
  intros s t Hin Ht.
  pose proof (emit_types_tag _ _ _ _ E1) as T0. pose proof (emit_imports_tag _ _ _ _ E2) as T1.
  pose proof (emit_func_section_tag _ _ _ _ E3) as T2. pose proof (emit_tables_tag m x3) as T3. rewrite E4 in T3.
  pose proof (emit_memories_tag m x4) as T4. rewrite E5 in T4. cbn [fst] in T3, T4.
  pose proof (emit_globals_tag _ _ _ _ E6) as T5. pose proof (emit_exports_tag _ _ _ E7) as T6.
  pose proof (emit_start_tag _ _ _ E8) as T7. pose proof (emit_elements_tag _ _ _ _ E9) as T8.
  pose proof (emit_data_count_tag _ _ _ _ E10) as T9. pose proof (emit_code_tag _ _ _ _ _ _ E11) as T10.
  pose proof (emit_data_tag _ _ _ E12) as T11.
  rewrite !in_app_iff in Hin.
  repeat match type of Hin with
         | In _ _ \/ _ => destruct Hin as [Hin|Hin]
         end;
    try (match goal with T : tagged _ ?l, Hi : In s ?l |- _ => rewrite (tagged_in _ _ _ _ T Hi Ht) end; right; exact Hin).
  destruct (R s Hin) as [Hc|Hd]; [congruence|left; exact Hd].
Qed.

Ltac emitM_parts2 He :=
  destruct (emitM_inv2 _ _ _ _ He) as (s_ty & x1 & s_im & x2 & s_fn & x3 & x4 & x5 & s_gl & x6 & s_ex & s_st & s_el & x9 & s_dc & x10 & s_co & efs & s_da & rest & Ety & Eim & Efn & Ex4 & Ex5 & Egl & Eex & Est & Eel & Edc & Eco & Eda & Esecs & Erest & Etags).

Lemma parseM_data_wf cf ver w s l : parseM cf ver w = POk s -> stream_wf w = true -> In (S_Data l) w -> dc_before w l ->
  K_data (ps_m s) = map data_of l.
Proof.
  intros Hp Hwf Hin Hdc. pose proof (parseM_data _ _ _ _ Hp) as HK.
  pose proof (data_final w l Hwf Hin Hdc) as HF. unfold kd_step in HF. rewrite HF in HK. exact HK.
Qed.

(* A1. the data section: same count and order, same mode, bytes equal, memory index and offset renamed *)
Theorem structure_data : forall cf ver w s ilen dw e l, parseM cf ver w = POk s -> emitM (ps_m s) ilen dw = Ok e ->
  stream_wf w = true -> In (S_Data l) w -> dc_before w l -> l <> [] ->
  exists ds, In (S_Data ds) (em_secs e) /\ Forall2 (data_rt (em_x2i e)) l ds.
Proof.
  intros cf ver w s ilen dw e l Hp He Hwf Hin Hdc Hne.
  pose proof (parseM_data_wf _ _ _ _ _ Hp Hwf Hin Hdc) as HK.
  pose proof (parseM_ids _ _ _ _ Hp) as Hid.
  assert (D : dead (m_data (ps_m s)) = []) by (unfold ids_consistent in Hid; tauto).
  emitM_parts2 He. destruct (emit_data_entries _ _ _ _ Eda D HK Hne) as [ds [-> F]].
  exists ds. split; [|exact F]. rewrite Esecs, !in_app_iff. do 11 right. left. left. reflexivity.
Qed.
Corollary structure_data_length : forall cf ver w s ilen dw e l, parseM cf ver w = POk s -> emitM (ps_m s) ilen dw = Ok e ->
  stream_wf w = true -> In (S_Data l) w -> dc_before w l -> l <> [] ->
  exists ds, In (S_Data ds) (em_secs e) /\ length ds = length l.
Proof.
  intros cf ver w s ilen dw e l Hp He Hwf Hin Hdc Hne.
  destruct (structure_data _ _ _ _ _ _ _ _ Hp He Hwf Hin Hdc Hne) as [ds [H1 H2]]. exists ds. split; [exact H1|].
  symmetry. eapply Forall2_length; eauto.
Qed.

(* A2. the data count section *)
Definition is_passive (d : wdata) : bool := match wd_kind d with WDK_Passive => true | _ => false end.
Lemma existsb_map {A B} (g : B -> bool) (h : A -> B) : forall l, existsb g (map h l) = existsb (fun x => g (h x)) l.
Proof. induction l as [|a l IH]; [reflexivity|]. cbn [map existsb]. rewrite IH. reflexivity. Qed.
Lemma emit_data_count_shape m x s x' : emit_data_count m x = Ok (s, x') ->
  s = [] \/ s = [S_DataCount (len_N (aiter (m_data m)))].
Proof.
  unfold emit_data_count. destruct (aiter (m_data m)) as [|p r]; [intros H; inversion H; auto|].
  intros H. rinv H as us Eus. destruct (_ || _); inversion H; auto.
Qed.

Theorem structure_data_count : forall cf ver w s ilen dw e l, parseM cf ver w = POk s -> emitM (ps_m s) ilen dw = Ok e ->
  stream_wf w = true -> In (S_Data l) w -> dc_before w l -> l <> [] -> (forall n, ~ In (S_DataCount n) dw) ->
  (forall n', In (S_DataCount n') (em_secs e) -> n' = N.of_nat (length l)) /\
  ((exists n', In (S_DataCount n') (em_secs e)) <->
   (existsb is_passive l = true \/
    exists p lf, In p (aiter (m_funcs (ps_m s))) /\ fn_kind (snd p) = FK_Local lf /\ uses_data lf = Ok true)).
Proof.
  intros cf ver w s ilen dw e l Hp He Hwf Hin Hdc Hne Hdw.
  pose proof (parseM_data_wf _ _ _ _ _ Hp Hwf Hin Hdc) as HK.
  pose proof (parseM_ids _ _ _ _ Hp) as Hid.
  assert (D : dead (m_data (ps_m s)) = []) by (unfold ids_consistent in Hid; tauto).
  assert (HA : map (fun p => dcore (snd p)) (aiter (m_data (ps_m s))) = map data_of l).
  { rewrite <- HK. unfold K_data. rewrite <- (aiter_nodead_snd _ D), map_map. reflexivity. }
  assert (HL : length (aiter (m_data (ps_m s))) = length l).
  { rewrite <- (map_length (fun p => dcore (snd p))), HA, map_length. reflexivity. }
  emitM_parts2 He.
  assert (HIN : forall n', In (S_DataCount n') (em_secs e) <-> In (S_DataCount n') s_dc).
  { intros n'. split.
    - intros Hi. destruct (Etags _ 9 Hi eq_refl) as [Hd|Hs]; [destruct (Hdw _ Hd)|exact Hs].
    - intros Hi. rewrite Esecs, !in_app_iff. do 9 right. left. exact Hi. }
  pose proof (emit_data_count_shape _ _ _ _ Edc) as Hsh. unfold len_N in Hsh. rewrite HL in Hsh.
  split.
  - intros n' Hi. apply HIN in Hi. destruct Hsh as [->| ->]; [destruct Hi|]. destruct Hi as [Hi|[]]. congruence.
  - pose proof (emit_data_count_iff _ _ _ _ Edc) as Hiff.
    assert (HP : existsb (fun p => match da_kind (snd p) with DK_Passive => true | _ => false end) (aiter (m_data (ps_m s))) =
                 existsb is_passive l).
    { transitivity (existsb (fun c : mdatakind * list N => match fst c with DK_Passive => true | _ => false end)
                            (map (fun p => dcore (snd p)) (aiter (m_data (ps_m s))))).
      - rewrite existsb_map. reflexivity.
      - rewrite HA, existsb_map. clear. induction l as [|d l IH]; [reflexivity|]. cbn [existsb]. rewrite IH. f_equal.
        unfold data_of, is_passive. destruct (wd_kind d); reflexivity. }
    rewrite HP in Hiff.
    assert (HNE : aiter (m_data (ps_m s)) <> []).
    { intros C. rewrite C in HL. destruct l; [congruence|discriminate]. }
    split.
    + intros [n' Hi]. apply HIN in Hi. apply Hiff. intros C. rewrite C in Hi. destruct Hi.
    + intros Hc. assert (Hs : s_dc <> []) by (apply Hiff; split; [exact HNE|exact Hc]).
      destruct Hsh as [->| ->]; [congruence|]. eexists. apply HIN. left. reflexivity.
Qed.

(* ====================================================================================== *)
(* C. no start section is invented                                                          *)
(* ====================================================================================== *)
Theorem structure_no_start : forall cf ver w s ilen dw e, parseM cf ver w = POk s -> emitM (ps_m s) ilen dw = Ok e ->
  (forall f, ~ In (S_Start f) w) -> (forall f, ~ In (S_Start f) dw) -> forall f, ~ In (S_Start f) (em_secs e).
Proof.
  intros cf ver w s ilen dw e Hp He Hw Hdw f Hin.
  pose proof (structure_start_none _ _ _ _ Hp Hw) as Hn. emitM_parts2 He.
  destruct (Etags _ 7 Hin eq_refl) as [Hd|Hs]; [exact (Hdw f Hd)|]. cbn [nth] in Hs.
  rewrite Hn in Est. inversion Est; subst s_st. destruct Hs.
Qed.

(* ====================================================================================== *)
(* B. function signatures                                                                   *)
(* ====================================================================================== *)
Definition types_of (sec : wsec) : list (list valty * list valty) := match sec with S_Types l => l | _ => [] end.
Definition imp_ftys (l : list wimport) : list N := flat_map (fun i => match wi_kind i with WI_Func t => [t] | _ => [] end) l.
(* the type indices a payload declares for the functions it adds to the function index space *)
Definition sec_ftys (sec : wsec) : list N := match sec with S_Imports l => imp_ftys l | S_Funcs l => l | _ => [] end.
Definition ty_sig (ty : mtype) (t : list valty * list valty) : Prop :=
  ty_params ty = fst t /\ ty_results ty = snd t /\ ty_entry ty = false.
Definition TyInv (m : wir) (ids : i2ids) (T : list (list valty * list valty)) : Prop :=
  length (ii_types ids) = length T /\
  forall k t, nth_error T k = Some t -> exists id ty, nth_error (ii_types ids) k = Some id /\
     nth_error (items (Arena.arena (m_types m))) (N.to_nat id) = Some ty /\ ty_sig ty t.
Definition FInv (m : wir) (ids : i2ids) (F : list N) : Prop :=
  Forall2 (fun ti c => nth_N (ii_types ids) ti = Some (fst c)) F (K_fty m).

Lemma parse_imports_fsig : forall l m ids m' ids', parse_imports m ids l = POk (m', ids') ->
  m_types m' = m_types m /\ ii_types ids' = ii_types ids /\
  exists a, K_fty m' = K_fty m ++ a /\ Forall2 (fun ti c => nth_N (ii_types ids) ti = Some (fst c)) (imp_ftys l) a.
Proof.
  induction l as [|i r IH]; intros m ids m' ids' E; cbn [parse_imports] in E.
  - inversion E; subst. split; [reflexivity|]. split; [reflexivity|]. exists []. rewrite app_nil_r. split; [reflexivity|constructor].
  - pinv E as x Ex. destruct x as [m1 ids1]. cbn [fst snd] in E. apply IH in E. destruct E as (E1 & E2 & a & Ea & Fa).
    assert (X : m_types m1 = m_types m /\ ii_types ids1 = ii_types ids /\
                exists a0, K_fty m1 = K_fty m ++ a0 /\
                  Forall2 (fun ti c => nth_N (ii_types ids) ti = Some (fst c)) (match wi_kind i with WI_Func t => [t] | _ => [] end) a0).
    { unfold parse_import in Ex. destruct (wi_kind i) eqn:Ek.
      - pinv Ex as t Et. apply of_opt_err_ok in Et. wcbn. inversion Ex; subst; clear Ex. wcbn.
        split; [reflexivity|]. split; [reflexivity|]. exists [(t, true)]. split; [unfold K_fty; wcbn; rewrite map_app; reflexivity|].
        constructor; [exact Et|constructor].
      - wcbn. inversion Ex; subst; clear Ex. wcbn. split; [reflexivity|]. split; [reflexivity|]. exists []. rewrite app_nil_r. split; [reflexivity|constructor].
      - wcbn. inversion Ex; subst; clear Ex. wcbn. split; [reflexivity|]. split; [reflexivity|]. exists []. rewrite app_nil_r. split; [reflexivity|constructor].
      - wcbn. inversion Ex; subst; clear Ex. wcbn. split; [reflexivity|]. split; [reflexivity|]. exists []. rewrite app_nil_r. split; [reflexivity|constructor]. }
    destruct X as (X1 & X2 & a0 & Ea0 & Fa0). split; [congruence|]. split; [congruence|].
    exists (a0 ++ a). split; [rewrite Ea, Ea0, <- app_assoc; reflexivity|].
    cbn [imp_ftys flat_map]. fold (imp_ftys r). apply Forall2_app; [exact Fa0|]. rewrite <- X2. exact Fa.
Qed.

Lemma parse_sec_frameB s sec s' : parse_sec s sec = POk s' ->
  match sec with S_Types _ => True
               | _ => m_types (ps_m s') = m_types (ps_m s) /\ ii_types (ps_ids s') = ii_types (ps_ids s) end /\
  match sec with S_Imports _ | S_Funcs _ => True | _ => m_funcs (ps_m s') = m_funcs (ps_m s) end.
Proof.
  intros E. unfold parse_sec in E. destruct sec.
  - destruct (parse_types _ _ _) as [m1 i1] eqn:Ep. inversion E; subst; clear E. wcbn.
    apply parse_types_F9 in Ep. f9 Ep. split; [exact I|congruence].
  - pinv E as x Ex. destruct x as [m1 i1]. inversion E; subst; clear E. wcbn.
    apply parse_imports_fsig in Ex. destruct Ex as (X1 & X2 & _). auto.
  - pinv E as x Ex. destruct x as [m1 i1]. inversion E; subst; clear E. wcbn.
    split; [|exact I]. split; [eapply parse_funcs_types; eauto|eapply parse_funcs_ty; eauto].
  - destruct (parse_tables _ _ _) as [m1 i1] eqn:Ep. inversion E; subst; clear E. wcbn.
    pose proof (parse_tables_types _ _ _ _ _ Ep). pose proof (parse_tables_ty _ _ _ _ _ Ep). apply parse_tables_F9 in Ep. f9 Ep. auto.
  - destruct (parse_mems _ _ _) as [m1 i1] eqn:Ep. inversion E; subst; clear E. wcbn.
    pose proof (parse_mems_types _ _ _ _ _ Ep). pose proof (parse_mems_ty _ _ _ _ _ Ep). apply parse_mems_F9 in Ep. f9 Ep. auto.
  - pinv E as x Ex. destruct x as [m1 i1]. inversion E; subst; clear E. wcbn.
    pose proof (parse_globals_types _ _ _ _ _ Ex). pose proof (parse_globals_ty _ _ _ _ _ Ex). apply parse_globals_F9 in Ex. f9 Ex. auto.
  - pinv E as x Ex. inversion E; subst; clear E. wcbn.
    pose proof (parse_exports_types _ _ _ _ Ex). apply parse_exports_F9 in Ex. f9 Ex. auto.
  - pinv E as x Ex. inversion E; subst; clear E. wcbn. auto.
  - pinv E as x Ex. destruct x as [m1 i1]. inversion E; subst; clear E. wcbn.
    pose proof (parse_elems_types _ _ _ _ _ Ex). pose proof (parse_elems_ty _ _ _ _ _ Ex). apply parse_elems_step in Ex.
    destruct Ex as [X1 _]. f9 X1. auto.
  - destruct (reserve_data _ _ _) as [m1 i1] eqn:Ep. inversion E; subst; clear E. wcbn.
    pose proof (reserve_data_types _ _ _ _ _ Ep). pose proof (reserve_data_ty _ _ _ _ _ Ep). apply reserve_data_F9 in Ep. f9 Ep. auto.
  - inversion E; subst; clear E. wcbn. auto.
  - pinv E as x Ex. destruct x as [m1 i1]. inversion E; subst; clear E. wcbn. unfold parse_data in Ex.
    pose proof (parse_data_from_types _ _ _ _ _ _ _ Ex). pose proof (parse_data_from_ty _ _ _ _ _ _ _ Ex).
    apply parse_data_from_step in Ex. destruct Ex as [X1 _]. f9 X1. auto.
  - inversion E; subst; clear E. unfold parse_custom. destruct c as [n d|n d|[n|]|[p|]]; wcbn; auto.
Qed.

Lemma parse_sec_Ty s sec s' T : types_wf (m_types (ps_m s)) -> TyInv (ps_m s) (ps_ids s) T -> parse_sec s sec = POk s' ->
  TyInv (ps_m s') (ps_ids s') (T ++ types_of sec).
Proof.
  intros W [HL HT] E.
  destruct sec;
    try (pose proof (parse_sec_frameB _ _ _ E) as [[E1 E2] _]; cbn [types_of]; rewrite app_nil_r; unfold TyInv;
         rewrite E1, E2; split; assumption).
  unfold parse_sec in E. destruct (parse_types _ _ _) as [m1 i1] eqn:Ep. inversion E; subst; clear E. wcbn. cbn [types_of].
  destruct (parse_types_frame _ _ _ _ _ W Ep) as (W' & Keep & l & El & Ll).
  split; [rewrite El, !app_length; lia|].
  intros k t Hk. destruct (lt_dec k (length T)) as [Lt|Ge].
  - rewrite nth_error_app1 in Hk by lia. destruct (HT _ _ Hk) as (id & ty & H1 & H2 & H3). exists id, ty.
    split; [rewrite El; apply nth_error_app_some; exact H1|]. split; [apply Keep; exact H2|exact H3].
  - rewrite nth_error_app2 in Hk by lia.
    destruct (parse_types_spec _ _ _ _ _ W Ep _ _ Hk) as (id & ty & H1 & H2 & H3 & H4 & H5). exists id, ty.
    split; [rewrite HL in H1; replace (length T + (k - length T)) with k in H1 by lia; exact H1|].
    split; [rewrite aset_index_nodead in H2 by apply W'; exact H2|]. unfold ty_sig. auto.
Qed.
Lemma parse_secs_Ty : forall w s s' T, types_wf (m_types (ps_m s)) -> TyInv (ps_m s) (ps_ids s) T -> parse_secs s w = POk s' ->
  TyInv (ps_m s') (ps_ids s') (T ++ flat_map types_of w).
Proof.
  induction w as [|x r IH]; intros s s' T W HT E; cbn [parse_secs flat_map] in *.
  - inversion E; subst. rewrite app_nil_r. exact HT.
  - pinv E as s1 E1. rewrite app_assoc. eapply IH; [|eapply parse_sec_Ty; eauto|exact E].
    eapply parse_sec_types_wf; eauto.
Qed.

Lemma FInv_mono (idsT idsT' : list N) a F (K : list (N * bool)) : idsT' = idsT ++ a ->
  Forall2 (fun ti c => nth_N idsT ti = Some (fst c)) F K -> Forall2 (fun ti c => nth_N idsT' ti = Some (fst c)) F K.
Proof. intros -> H. eapply Forall2_impl; [|exact H]. intros ti c Hc. unfold nth_N in *. apply nth_error_app_some. exact Hc. Qed.

Lemma parse_sec_F s sec s' F : FInv (ps_m s) (ps_ids s) F -> parse_sec s sec = POk s' ->
  FInv (ps_m s') (ps_ids s') (F ++ sec_ftys sec).
Proof.
  intros HF E. destruct (parse_sec_FT _ _ _ E) as (_ & [a2 Ht] & _). unfold FInv in *.
  pose proof (FInv_mono _ _ _ _ _ Ht HF) as HF'.
  destruct sec;
    try (pose proof (parse_sec_frameB _ _ _ E) as [_ E3]; cbn [sec_ftys]; rewrite app_nil_r; unfold K_fty in *; rewrite E3; exact HF').
  - unfold parse_sec in E. pinv E as x Ex. destruct x as [m1 i1]. inversion E; subst; clear E. wcbn. cbn [sec_ftys].
    apply parse_imports_fsig in Ex. destruct Ex as (_ & E2 & a & Ea & Fa). rewrite Ea.
    apply Forall2_app; [exact HF'|]. rewrite E2. exact Fa.
  - unfold parse_sec in E. pinv E as x Ex. destruct x as [m1 i1]. inversion E; subst; clear E. wcbn. cbn [sec_ftys].
    pose proof (parse_funcs_ty _ _ _ _ _ Ex) as E2. apply parse_funcs_spec in Ex. destruct Ex as (a & Ea & Fa). rewrite Ea.
    apply Forall2_app; [exact HF'|]. rewrite E2. eapply Forall2_impl; [|exact Fa]. intros x c [Hc _]. exact Hc.
Qed.
Lemma parse_secs_F : forall w s s' F, FInv (ps_m s) (ps_ids s) F -> parse_secs s w = POk s' ->
  FInv (ps_m s') (ps_ids s') (F ++ flat_map sec_ftys w).
Proof.
  induction w as [|x r IH]; intros s s' F HF E; cbn [parse_secs flat_map] in *.
  - inversion E; subst. rewrite app_nil_r. exact HF.
  - pinv E as s1 E1. rewrite app_assoc. eapply IH; [eapply parse_sec_F; eauto|exact E].
Qed.

(* after the payload loop: the type arena only grows (entry types) and gets names *)
Lemma prepare_bodies_types_keep : forall bs m ids ni i m' ids' ps,
  types_wf (m_types m) -> prepare_bodies m ids ni i bs = POk (m', ids', ps) ->
  forall k x, nth_error (items (Arena.arena (m_types m))) k = Some x -> nth_error (items (Arena.arena (m_types m'))) k = Some x.
Proof.
  induction bs as [|b r IH]; intros m ids ni i m' ids' ps W E; cbn [prepare_bodies] in E.
  - inversion E; subst. auto.
  - pinv E as fid Efid. pinv E as f Ef. destruct (fn_kind f); try discriminate.
    pinv E as t Et.
    destruct (add_locals m ids fid (ty_params t) _) as [[m1 ids1] args] eqn:E1.
    destruct (types_insert m1 _) as [m2 tid] eqn:E2.
    destruct (add_locals m2 ids1 fid _ _) as [[m3 ids3] ls] eqn:E3.
    pinv E as x Ex. destruct x as [[m4 ids4] rest]. inversion E; subst; clear E.
    apply add_locals_types in E1. apply add_locals_types in E3.
    assert (W1 : types_wf (m_types m1)) by (rewrite E1; exact W).
    destruct (types_insert_spec _ _ _ _ W1 E2) as (W2 & Keep & _).
    assert (W3 : types_wf (m_types m3)) by (rewrite E3; exact W2).
    intros k x Hk. eapply IH; [exact W3|exact Ex|]. rewrite E3. apply Keep. rewrite E1. exact Hk.
Qed.
Lemma parse_names_items_eqv m ids n :
  items_eqv (items (Arena.arena (m_types m))) (items (Arena.arena (m_types (parse_names m ids n)))).
Proof.
  unfold parse_names.
  set (m1 := match wn_module n with Some s => set_name m (Some s) | None => m end).
  assert (H1 : m_types m1 = m_types m) by (subst m1; destruct (wn_module n); reflexivity).
  clearbody m1. cbv zeta.
  match goal with |- context [apply_local_names ?mm _ _] => set (m2 := mm) end.
  assert (H2 : m_types m2 = m_types m) by (subst m2; wcbn; exact H1).
  clearbody m2. clear H1.
  destruct (apply_local_names m2 ids (wn_locals n)) as [m3|] eqn:E3; [|rewrite H2; apply items_eqv_refl].
  apply apply_local_names_types in E3. wcbn. rewrite <- H2, <- E3.
  apply (apply_names_types_eqv (ii_types ids) (wn_types n) (Arena.arena (m_types m3))).
Qed.
Lemma fold_parse_names_items_eqv ids : forall l m,
  items_eqv (items (Arena.arena (m_types m))) (items (Arena.arena (m_types (fold_left (fun m n => parse_names m ids n) l m)))).
Proof.
  induction l as [|n r IH]; intros m; cbn [fold_left]; [apply items_eqv_refl|].
  eapply items_eqv_trans; [apply parse_names_items_eqv|apply IH].
Qed.

Theorem parseM_sigs : forall cf ver w s, parseM cf ver w = POk s ->
  TyInv (ps_m s) (ps_ids s) (flat_map types_of w) /\ FInv (ps_m s) (ps_ids s) (flat_map sec_ftys w).
Proof.
  intros cf ver w s E. destruct (parseM_fty _ _ _ _ E) as (s1 & E1 & EF & ET).
  assert (T0 : TyInv (ps_m (pst0 cf)) (ps_ids (pst0 cf)) []).
  { split; [reflexivity|]. intros k t Hk. destruct k; discriminate. }
  pose proof (parse_secs_Ty w (pst0 cf) s1 [] types_wf_empty T0 E1) as HT. cbn [app] in HT.
  pose proof (parse_secs_F w (pst0 cf) s1 [] (Forall2_nil _) E1) as HF. cbn [app] in HF.
  split.
  - assert (Q : items_eqv (items (Arena.arena (m_types (ps_m s1)))) (items (Arena.arena (m_types (ps_m s))))).
    { pose proof (parse_secs_types_wf w (pst0 cf) s1 types_wf_empty E1) as W1. clear HT HF EF ET T0.
      unfold parseM in E. fold (pst0 cf) in E. rewrite E1 in E. cbn [pbind] in E.
      destruct (_ <? _)%N; [discriminate|].
      pinv E as x Ex. destruct x as [[m1 ids1] prepared]. pinv E as m2 E2. inversion E; subst; clear E. wcbn.
      pose proof (prepare_bodies_types_keep _ _ _ _ _ _ _ _ W1 Ex) as Keep. apply install_bodies_types in E2.
      eapply items_eqv_trans; [|apply fold_parse_names_items_eqv]. rewrite E2.
      intros i k Hk. exists k. split; [apply Keep; exact Hk|apply mtype_eqb_refl']. }
    destruct HT as [HL HT]. split; [rewrite ET; exact HL|]. intros k t Hk.
    destruct (HT _ _ Hk) as (id & ty & H1 & H2 & (H3 & H4 & H5)). destruct (Q _ _ H2) as (ty' & H2' & He).
    apply mtype_eqb_spec in He. destruct He as (He1 & He2 & He3).
    exists id, ty'. rewrite ET. split; [exact H1|]. split; [exact H2'|]. unfold ty_sig. repeat split; congruence.
  - unfold FInv in *. rewrite EF, ET. exact HF.
Qed.

(* ---------------------------------------------------------------- emit side *)
Lemma lookup_number_gen : forall (L : list N) b id j,
  lookup_i (combine L (map N.of_nat (seq b (length L)))) id = Ok j ->
  exists k, j = N.of_nat (b + k) /\ nth_error L k = Some id.
Proof.
  induction L as [|a L IH]; intros b id j H; [discriminate|].
  cbn [length seq map combine] in H. unfold lookup_i in H. cbn [find fst] in H.
  destruct (N.eqb a id) eqn:Ea.
  - cbn [snd] in H. inversion H; subst. apply N.eqb_eq in Ea. subst. exists 0. rewrite Nat.add_0_r. split; reflexivity.
  - fold (lookup_i (combine L (map N.of_nat (seq (S b) (length L)))) id) in H. apply IH in H.
    destruct H as [k [Hj Hk]]. exists (S k). split; [rewrite Hj; f_equal; lia|exact Hk].
Qed.
Lemma lookup_number L id j : lookup_i (number L) id = Ok j -> nth_error L (N.to_nat j) = Some id.
Proof.
  unfold number, iota. intros H. apply lookup_number_gen in H. destruct H as [k [-> Hk]]. rewrite Nat2N.id. exact Hk.
Qed.
Lemma Forall2_nth_l {A B} (R : A -> B -> Prop) : forall l l' n a, Forall2 R l l' -> nth_error l n = Some a ->
  exists b, nth_error l' n = Some b /\ R a b.
Proof.
  intros l l' n a F. revert n. induction F as [|x y l l' Hxy F IH]; intros n Hn; [destruct n; discriminate|].
  destruct n; cbn [nth_error] in *; [inversion Hn; subst; eauto|apply IH; exact Hn].
Qed.
Lemma Forall2_impl_in {A B} (R R' : A -> B -> Prop) : forall l l', (forall a b, In a l -> R a b -> R' a b) ->
  Forall2 R l l' -> Forall2 R' l l'.
Proof.
  intros l l' H F. induction F as [|x y l l' Hxy F IH]; constructor.
  - apply H; [left; reflexivity|exact Hxy].
  - apply IH. intros a b Ha. apply H. right. exact Ha.
Qed.
Lemma aiter_In_nth {A} (a : tarena A) id v : In (id, v) (aiter a) -> nth_error (items a) (N.to_nat id) = Some v.
Proof.
  unfold aiter. intros H. apply in_map_iff in H. destruct H as ([i w] & E & H). cbn [fst snd] in E. inversion E; subst.
  rewrite Nat2N.id. apply (Proofs.Arena.iter_live A (fun x => x) (fun _ _ => true)) in H.
  unfold index, get in H. destruct (is_dead a i); [discriminate|exact H].
Qed.

Lemma ulf_in m fs id lf : used_local_functions m = Ok fs -> In (id, lf) fs ->
  exists f, In (id, f) (aiter (m_funcs m)) /\ fn_kind f = FK_Local lf.
Proof.
  rewrite used_local_functions_sort_funcs. intros H Hin. rinv H as l El. inversion H; subst fs; clear H.
  apply in_map_iff in Hin. destruct Hin as (t & Et & Hin).
  eapply Permutation_in in Hin; [|apply sort_funcs_perm]. apply in_concat in Hin. destruct Hin as (piece & Hp & Ht).
  apply (rmapM_In _ _ _ El) in Hp. destruct Hp as ([pid pf] & Hpa & Hpe). cbn [fst snd] in Hpe.
  destruct (fn_kind pf) as [? ?|lf0|?] eqn:Ek.
  - inversion Hpe; subst. destruct Ht.
  - rinv Hpe as sz Esz. inversion Hpe; subst piece; clear Hpe. destruct Ht as [<-|[]]. cbn [fst snd] in Et. inversion Et; subst.
    exists pf. auto.
  - discriminate.
Qed.

Lemma sec_ftys_tag s t : sec_tag s = Some t -> t <> 1 -> t <> 2 -> sec_ftys s = [].
Proof. destruct s; cbn [sec_tag sec_ftys]; intros H H1 H2; try reflexivity; inversion H; congruence. Qed.
Lemma types_of_tag s t : sec_tag s = Some t -> t <> 0 -> types_of s = [].
Proof. destruct s; cbn [sec_tag types_of]; intros H H1; try reflexivity; inversion H; congruence. Qed.
Lemma flat_map_nil {A B} (f : A -> list B) : forall l, (forall s, In s l -> f s = []) -> flat_map f l = [].
Proof.
  induction l as [|x l IH]; intros H; [reflexivity|]. cbn [flat_map]. rewrite (H x) by (left; reflexivity).
  apply IH. intros s Hs. apply H. right. exact Hs.
Qed.
Lemma tagged_ftys t l : tagged t l -> t <> 1 -> t <> 2 -> flat_map sec_ftys l = [].
Proof.
  intros T H1 H2. apply flat_map_nil. intros s Hs. unfold tagged in T. rewrite Forall_forall in T.
  eapply sec_ftys_tag; eauto.
Qed.
Lemma tagged_types t l : tagged t l -> t <> 0 -> flat_map types_of l = [].
Proof.
  intros T H1. apply flat_map_nil. intros s Hs. unfold tagged in T. rewrite Forall_forall in T.
  eapply types_of_tag; eauto.
Qed.

Definition out_ftys (e : emitted) : list N := flat_map sec_ftys (em_secs e).
Definition out_types (e : emitted) : list (list valty * list valty) := flat_map types_of (em_secs e).
(* the sections gimli writes are custom sections *)
Definition dw_custom (dw : list wsec) : Prop := forall s, In s dw -> sec_tag s = None.

Lemma out_decls m ilen dw e : emitM m ilen dw = Ok e -> dw_custom dw ->
  exists s_ty x1 s_im x2 s_fn x3,
    emit_types m empty_x2i = (s_ty, x1) /\ emit_imports m x1 = Ok (s_im, x2) /\ emit_func_section m x2 = Ok (s_fn, x3) /\
    out_ftys e = flat_map sec_ftys s_im ++ flat_map sec_ftys s_fn /\ out_types e = flat_map types_of s_ty.
Proof.
  intros He Hdw. emitM_parts2 He. exists s_ty, x1, s_im, x2, s_fn, x3.
  split; [exact Ety|]. split; [exact Eim|]. split; [exact Efn|].
  pose proof (emit_types_tag _ _ _ _ Ety) as T0. pose proof (emit_imports_tag _ _ _ _ Eim) as T1.
  pose proof (emit_func_section_tag _ _ _ _ Efn) as T2. pose proof (emit_tables_tag m x3) as T3.
  pose proof (emit_memories_tag m x4) as T4.
  pose proof (emit_globals_tag _ _ _ _ Egl) as T5. pose proof (emit_exports_tag _ _ _ Eex) as T6.
  pose proof (emit_start_tag _ _ _ Est) as T7. pose proof (emit_elements_tag _ _ _ _ Eel) as T8.
  pose proof (emit_data_count_tag _ _ _ _ Edc) as T9. pose proof (emit_code_tag _ _ _ _ _ _ Eco) as T10.
  pose proof (emit_data_tag _ _ _ Eda) as T11.
  assert (Rn : forall s, In s rest -> sec_tag s = None).
  { intros s Hs. destruct (Erest s Hs) as [H|H]; [exact H|apply Hdw; exact H]. }
  unfold out_ftys, out_types. rewrite Esecs, !flat_map_app. split.
  - rewrite (tagged_ftys _ _ T0), (tagged_ftys _ _ T3), (tagged_ftys _ _ T4), (tagged_ftys _ _ T5), (tagged_ftys _ _ T6),
      (tagged_ftys _ _ T7), (tagged_ftys _ _ T8), (tagged_ftys _ _ T9), (tagged_ftys _ _ T10), (tagged_ftys _ _ T11) by lia.
    rewrite (flat_map_nil sec_ftys rest) by (intros s Hs; specialize (Rn s Hs); destruct s; try discriminate; reflexivity).
    cbn [app]. rewrite app_nil_r. reflexivity.
  - rewrite (tagged_types _ _ T1), (tagged_types _ _ T2), (tagged_types _ _ T3), (tagged_types _ _ T4), (tagged_types _ _ T5),
      (tagged_types _ _ T6), (tagged_types _ _ T7), (tagged_types _ _ T8), (tagged_types _ _ T9), (tagged_types _ _ T10),
      (tagged_types _ _ T11) by lia.
    rewrite (flat_map_nil types_of rest) by (intros s Hs; specialize (Rn s Hs); destruct s; try discriminate; reflexivity).
    cbn [app]. rewrite app_nil_r. reflexivity.
Qed.

Lemma emit_imports_ftys m x s x' : emit_imports m x = Ok (s, x') ->
  exists ws, flat_map sec_ftys s = imp_ftys ws /\ Forall2 (import_emitted' m (space_map x S_type)) (live_imports m) ws.
Proof.
  unfold emit_imports, live_imports. destruct (map snd (aiter (m_imports m))) as [|i r] eqn:E.
  - intros H; inversion H; subst. exists []. split; [reflexivity|constructor].
  - intros H. rinv H as a Ea. inversion H; subst; clear H. destruct a as [ws x1]. exists ws. cbn [fst flat_map sec_ftys].
    split; [apply app_nil_r|]. eapply emit_imports_l_entries'; eauto.
Qed.
Lemma emit_func_section_ftys m x s x' : emit_func_section m x = Ok (s, x') ->
  exists fs tis, used_local_functions m = Ok fs /\ flat_map sec_ftys s = tis /\
                 Forall2 (fun p ti => get_idx x S_type (lf_ty (snd p)) = Ok ti) fs tis.
Proof.
  rewrite emit_func_section_unfold. intros H. rinv H as fs Efs. exists fs.
  destruct fs as [|p r].
  - inversion H; subst. exists []. split; [exact Efs|]. split; [reflexivity|constructor].
  - rinv H as b Eb. inversion H; subst; clear H. exists (fst b). split; [exact Efs|]. split; [cbn [flat_map sec_ftys]; apply app_nil_r|].
    apply func_go_entries. exact Eb.
Qed.
Lemma imports_align m xt : forall l ws, Forall2 (import_emitted' m xt) l ws ->
  Forall2 (fun f ti => exists fn, aget (m_funcs m) f = Some fn /\ lookup_i xt (func_ty fn) = Ok ti) (imp_ids S_func l) (imp_ftys ws).
Proof.
  intros l ws F. induction F as [|i w l ws Hiw F IH]; [constructor|].
  cbn [imp_ids imp_ftys flat_map]. fold (imp_ids S_func l). fold (imp_ftys ws).
  destruct Hiw as (_ & _ & Hk). unfold imp_id. destruct (im_kind i).
  - destruct Hk as (fn & ti & G1 & G2 & G3). rewrite G3. cbn [app]. constructor; [eauto|exact IH].
  - destruct Hk as (tb & G1 & G3). rewrite G3. exact IH.
  - destruct Hk as (tb & G1 & G3). rewrite G3. exact IH.
  - destruct Hk as (tb & G1 & G3). rewrite G3. exact IH.
Qed.

(* the type index the output declares for an emitted function is the emitted index of the function's type *)
Lemma emit_func_decl m ilen dw e : emitM m ilen dw = Ok e -> dw_custom dw ->
  forall fid j f, get_idx (em_x2i e) S_func fid = Ok j -> nth_error (items (m_funcs m)) (N.to_nat fid) = Some f ->
  exists tj, nth_error (out_ftys e) (N.to_nat j) = Some tj /\ get_idx (em_x2i e) S_type (func_ty f) = Ok tj.
Proof.
  intros He Hdw fid j f Hj Hf.
  destruct (emitM_x2i _ _ _ _ He) as (fs & Hfs & HXT & HXF & _).
  destruct (out_decls _ _ _ _ He Hdw) as (s_ty & x1 & s_im & x2 & s_fn & x3 & Ety & Eim & Efn & HO & _).
  assert (XT1 : space_map x1 S_type = xi_types (em_x2i e)).
  { pose proof (emit_types_x m empty_x2i) as F1. rewrite Ety in F1. cbn [snd] in F1. rewrite F1, HXT.
    rewrite push_all_same by discriminate. apply fold_push_number. }
  assert (XT2 : space_map x2 S_type = xi_types (em_x2i e)).
  { rewrite (emit_imports_x _ _ _ _ Eim), fold_push_import_space, imp_ids_nil by exact I. exact XT1. }
  destruct (emit_imports_ftys _ _ _ _ Eim) as (ws & Ews & Fws). rewrite XT1 in Fws. apply imports_align in Fws.
  destruct (emit_func_section_ftys _ _ _ _ Efn) as (fs' & tis & Hfs' & Etis & Ftis).
  rewrite Hfs in Hfs'. inversion Hfs'; subst fs'; clear Hfs'.
  set (R := fun (id : N) (ti : N) => forall g, nth_error (items (m_funcs m)) (N.to_nat id) = Some g ->
                                               lookup_i (xi_types (em_x2i e)) (func_ty g) = Ok ti).
  assert (FA : Forall2 R (imp_ids S_func (live_imports m) ++ map fst fs) (out_ftys e)).
  { rewrite HO, Ews, Etis. apply Forall2_app.
    - eapply Forall2_impl; [|exact Fws]. intros a b (fn & G1 & G2) g Hg. apply aget_nth in G1. rewrite G1 in Hg.
      inversion Hg; subst. exact G2.
    - apply Forall2_map_l. eapply Forall2_impl_in; [|exact Ftis]. intros [id lf] ti Hin Hti g Hg. cbn [fst snd] in *.
      destruct (ulf_in _ _ _ _ Hfs Hin) as (f0 & Hin0 & Hk0). apply aiter_In_nth in Hin0. rewrite Hin0 in Hg.
      inversion Hg; subst g. unfold get_idx in Hti. rewrite XT2 in Hti. unfold func_ty. rewrite Hk0. exact Hti. }
  unfold get_idx in Hj. cbn [space_map] in Hj. rewrite HXF in Hj. apply lookup_number in Hj.
  destruct (Forall2_nth_l _ _ _ _ _ FA Hj) as (tj & Htj & HR). exists tj. split; [exact Htj|].
  unfold get_idx. cbn [space_map]. apply HR. exact Hf.
Qed.

Lemma emit_types_decl m x s x' : emit_types m x = (s, x') ->
  flat_map types_of s = map (fun p => (ty_params (snd p), ty_results (snd p))) (emitted_types m).
Proof.
  unfold emit_types. fold (emitted_types m). destruct (emitted_types m) as [|p r] eqn:E.
  - intros H; inversion H; reflexivity.
  - intros H; inversion H; subst. cbn [flat_map types_of]. apply app_nil_r.
Qed.
(* entry tj of the output type section is the (params, results) of the type whose emitted index is tj *)
Lemma emit_type_decl m ilen dw e : emitM m ilen dw = Ok e -> dw_custom dw ->
  forall tyid tj, get_idx (em_x2i e) S_type tyid = Ok tj ->
  exists ty, nth_error (items (Arena.arena (m_types m))) (N.to_nat tyid) = Some ty /\
             nth_error (out_types e) (N.to_nat tj) = Some (ty_params ty, ty_results ty).
Proof.
  intros He Hdw tyid tj Hj.
  destruct (emitM_x2i _ _ _ _ He) as (fs & Hfs & HXT & _).
  destruct (out_decls _ _ _ _ He Hdw) as (s_ty & x1 & s_im & x2 & s_fn & x3 & Ety & _ & _ & _ & HO).
  rewrite HO, (emit_types_decl _ _ _ _ Ety).
  unfold get_idx in Hj. cbn [space_map] in Hj. rewrite HXT in Hj. apply lookup_number in Hj.
  rewrite nth_error_map in Hj. destruct (nth_error (emitted_types m) (N.to_nat tj)) as [[id ty]|] eqn:En; [|discriminate].
  cbn [option_map fst] in Hj. inversion Hj; subst id; clear Hj.
  exists ty. split; [|rewrite nth_error_map, En; reflexivity].
  apply nth_error_In in En. unfold emitted_types in En. eapply Permutation_in in En; [|apply sort_types_perm].
  apply filter_In in En. destruct En as [En _]. unfold live_types, aset_iter in En.
  apply (aiter_In_nth (Arena.arena (m_types m))). exact En.
Qed.

(* B. every input function keeps its signature: the type section entry the output declares for the emitted
   function has the params and results of the input's type *)
Theorem structure_func_sigs : forall cf ver w s ilen dw e, parseM cf ver w = POk s -> emitM (ps_m s) ilen dw = Ok e ->
  dw_custom dw ->
  forall i ti t j, nth_error (flat_map sec_ftys w) i = Some ti -> nth_error (flat_map types_of w) (N.to_nat ti) = Some t ->
    get_idx (em_x2i e) S_func (N.of_nat i) = Ok j ->
    exists tj, nth_error (out_ftys e) (N.to_nat j) = Some tj /\ nth_error (out_types e) (N.to_nat tj) = Some t.
Proof.
  intros cf ver w s ilen dw e Hp He Hdw i ti t j Hi Ht Hj.
  destruct (parseM_sigs _ _ _ _ Hp) as [[_ HT] HF].
  destruct (Forall2_nth_l _ _ _ _ _ HF Hi) as (c & Hc & Hty).
  destruct (HT _ _ Ht) as (tyid & ty & H1 & H2 & (S1 & S2 & S3)).
  unfold nth_N in Hty. rewrite H1 in Hty. inversion Hty as [Hid]; clear Hty.
  unfold K_fty in Hc. rewrite nth_error_map in Hc.
  destruct (nth_error (items (m_funcs (ps_m s))) i) as [f|] eqn:Ef; [|discriminate]. cbn [option_map] in Hc.
  inversion Hc; subst c; clear Hc. rewrite fcore_ty in Hid.
  assert (Ef' : nth_error (items (m_funcs (ps_m s))) (N.to_nat (N.of_nat i)) = Some f) by (rewrite Nat2N.id; exact Ef).
  destruct (emit_func_decl _ _ _ _ He Hdw _ _ _ Hj Ef') as (tj & Htj & Hty).
  rewrite <- Hid in Hty. destruct (emit_type_decl _ _ _ _ He Hdw _ _ Hty) as (ty' & H2' & HO).
  rewrite H2 in H2'. inversion H2'; subst ty'. exists tj. split; [exact Htj|].
  rewrite HO, S1, S2. destruct t; reflexivity.
Qed.

(* ---------------------------------------------------------------- examples: the premises are satisfiable; the
   order premise of [dc_before] is needed (a DataCount payload AFTER the data payload appends empty segments) *)
Definition ex_d1 : wdata := {| wd_kind := WDK_Active 0%N (WC_I32 8%Z); wd_bytes := [1%N; 2%N] |}.
Definition ex_d2 : wdata := {| wd_kind := WDK_Passive; wd_bytes := [3%N] |}.
Definition ex_ok : list wsec :=
  [S_Types [([VT_I32], []); ([], [VT_I32])];
   S_Imports [ {| wi_module := [109%N]; wi_name := [102%N]; wi_kind := WI_Func 1%N |} ];
   S_Mems [ex_mem]; S_DataCount 2%N; S_Data [ex_d1; ex_d2]].
Definition ex_late : list wsec := [S_Mems [ex_mem]; S_Data [ex_d1; ex_d2]; S_DataCount 2%N].
Example ex_ok_premises : stream_wf ex_ok = true /\ In (S_Data [ex_d1; ex_d2]) ex_ok /\ dc_before ex_ok [ex_d1; ex_d2].
Proof.
  split; [reflexivity|]. split; [cbn; tauto|]. intros n Hn. cbn in Hn.
  repeat (destruct Hn as [Hn|Hn]; try discriminate); try contradiction. inversion Hn; subst n. split; [reflexivity|].
  exists [S_Types [([VT_I32], []); ([], [VT_I32])];
          S_Imports [ {| wi_module := [109%N]; wi_name := [102%N]; wi_kind := WI_Func 1%N |} ]; S_Mems [ex_mem]],
         [S_Data [ex_d1; ex_d2]]. split; [reflexivity|left; reflexivity].
Qed.
Theorem structure_data_order_needed :
  exists cf ver w s ilen dw e l, parseM cf ver w = POk s /\ emitM (ps_m s) ilen dw = Ok e /\
    stream_wf w = true /\ In (S_Data l) w /\ l <> [] /\ forall ds, In (S_Data ds) (em_secs e) -> length ds <> length l.
Proof.
  exists default_config, [], ex_late. eexists. exists (fun _ => 1%N), []. eexists. exists [ex_d1; ex_d2].
  split; [vm_compute; reflexivity|]. split; [vm_compute; reflexivity|]. split; [reflexivity|].
  split; [cbn; tauto|]. split; [discriminate|]. intros ds Hin. vm_compute in Hin.
  repeat (destruct Hin as [Hin|Hin]; try discriminate); try contradiction. inversion Hin; subst ds. cbn. discriminate.
Qed.

Print Assumptions structure_data.
Print Assumptions structure_data_length.
Print Assumptions structure_data_count.
Print Assumptions structure_no_start.
Print Assumptions parseM_sigs.
Print Assumptions structure_func_sigs.
Print Assumptions structure_data_order_needed.
