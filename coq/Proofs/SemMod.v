(* C01, whole modules: the module machine of Model/SemMod.v (the 98-operator core plus `call` / `call_indirect`)
   gives the OUTPUT module - every body in normal form, re-encoded; functions / types / globals / memories / tables /
   locals renumbered, functions reordered, unused locals dropped - exactly the behaviour of the input module.
   1. the renaming of the call operators, from the generated tables ([nf_op_call], [nf_op_call_indirect]);
   2. tools: the module machine outside the calls is the core machine; RELATIONAL evaluation ([eval_rel]); the locals a
      body does not mention are irrelevant ([run_body_frames]): the frames of the two modules need not be equal;
   3. THE THEOREM on environments, by induction on the call depth: [mod_sem_renamed] (step functions),
      [mod_roundtrip_equiv] (every call: same results, globals, memory, trap / wrong / exhaustion verdict).  All hypotheses
      are about the LIVE part of the bodies (the normal form): what dead code mentions does not matter;
   4. an executable sufficient condition for the hypothesis on the frames ([frames_check_ok]);
   5. modules: [mod_roundtrip_equiv_cmod] (functions reordered by [rf]), the standard parse context ([fn_ok_std]),
      [mod_roundtrip_equiv_locals] (identity renumbering: only the normal form and the locals);
   6. examples by computation ([Ex]); the theorem instantiated with every renumbering at once ([RT]). *)
From Coq Require Import List NArith ZArith Bool Lia. Import ListNotations.
From WV Require Import Gen.Ops Model.Common Model.IR Model.ParseFn Model.ParseSpec Model.EmitFn
  Model.BodySpec Model.Sem Model.SemCore Model.SemMod.
From WV Require Import Proofs.ParseFn Proofs.Sem Proofs.Fixpoint Proofs.ModFix10 Proofs.SemCore.

(* ================================================================== 1. the call operators *)
Definition is_call (o : wop) : bool := match o with W_Call _ | W_CallIndirect _ _ => true | _ => false end.
Definition is_call_w (w : wins) : bool := match w with WOp o => is_call o | _ => false end.
Definition local_index_of (o : wop) : option N :=
  match o with W_LocalGet i | W_LocalSet i | W_LocalTee i => Some i | _ => None end.
(* the local indices the operators of a body mention (dead code included) *)
Definition locals_used (l : list rt) : list N :=
  flat_map (fun o => match local_index_of o with Some i => [i] | None => [] end) (ops_of l).
Lemma locals_used_in l o i : In o (ops_of l) -> local_index_of o = Some i -> In i (locals_used l).
Proof. intros Ho Hi. unfold locals_used. apply in_flat_map. exists o. split; [exact Ho|]. rewrite Hi. left. reflexivity. Qed.
Definition global_index_of (o : wop) : option N :=
  match o with W_GlobalGet i | W_GlobalSet i => Some i | _ => None end.
Definition memory_index_of (o : wop) : option N :=
  match o with W_MemorySize i | W_MemoryGrow i => Some i | _ => option_map wa_memory (memarg_of o) end.
Definition globals_used (l : list rt) : list N :=
  flat_map (fun o => match global_index_of o with Some i => [i] | None => [] end) (ops_of l).
Definition memories_used (l : list rt) : list N :=
  flat_map (fun o => match memory_index_of o with Some i => [i] | None => [] end) (ops_of l).
Lemma globals_used_in l o i : In o (ops_of l) -> global_index_of o = Some i -> In i (globals_used l).
Proof. intros Ho Hi. unfold globals_used. apply in_flat_map. exists o. split; [exact Ho|]. rewrite Hi. left. reflexivity. Qed.
Lemma memories_used_in l o i : In o (ops_of l) -> memory_index_of o = Some i -> In i (memories_used l).
Proof. intros Ho Hi. unfold memories_used. apply in_flat_map. exists o. split; [exact Ho|]. rewrite Hi. left. reflexivity. Qed.
(* THE LIVE PART of a body: its normal form (nops and dead code dropped); the hypotheses of the theorem are about the
   operators that occur THERE - what dead code mentions (dropped locals, collected functions, huge offsets) does not matter *)
Definition live (body : list rt) : list rt := fst (nf_rt_list false body).

(* the generated codec keeps "being a call" (same sweep as [core_codec]) *)
Lemma call_codec : forall i2id id2i o p w, decode_plain i2id o = Some p -> encode_plain id2i p = Some w ->
  is_call w = is_call o.
Proof.
  intros i2id id2i o p w H H0.
  destruct o; cbn [decode_plain] in H;
  repeat match type of H with match ?x with _ => _ end = _ => destruct x end;
  try discriminate H; injection H as <-; cbn [encode_plain] in H0;
  repeat match type of H0 with match ?x with _ => _ end = _ => destruct x end;
  try discriminate H0; injection H0 as <-; reflexivity.
Qed.

Section RenCalls.
  Variable cx : pctx.
  Variable ecx : ectx.
  (* the renumbering of functions / types / tables induced by decode-then-encode *)
  Definition rfn (i : N) : N := ex_id2i ecx S_func (px_i2id cx S_func i).
  Definition rty (i : N) : N := ex_id2i ecx S_type (px_i2id cx S_type i).
  Definition rtb (i : N) : N := ex_id2i ecx S_table (px_i2id cx S_table i).

  (* per constructor, from the generated tables *)
  Lemma nf_op_call f : nf_op cx ecx (W_Call f) = WOp (W_Call (rfn f)).
  Proof. reflexivity. Qed.
  Lemma nf_op_call_indirect ti tb : nf_op cx ecx (W_CallIndirect ti tb) = WOp (W_CallIndirect (rty ti) (rtb tb)).
  Proof. reflexivity. Qed.

  (* an operator that is not a call is not re-encoded as a call *)
  Lemma nf_op_noncall o : is_call o = false -> is_call_w (nf_op cx ecx o) = false.
  Proof.
    intros H. unfold nf_op, dec. destruct (decode_plain (px_i2id cx) o) as [p|] eqn:Hd.
    - destruct (encode_plain (ex_id2i ecx) p) as [w|] eqn:He; [|reflexivity].
      cbn [is_call_w]. rewrite (call_codec _ _ _ _ _ Hd He). exact H.
    - reflexivity.
  Qed.
End RenCalls.

(* ================================================================== 2. tools: the module machine outside the calls *)
(* the core machine looks at the slot maps only at the indices of the operator *)
Lemma core_op_slots_ext : forall l1 l2 g1 g2 m1 m2 o s,
  (forall i, local_index_of o = Some i -> l1 i = l2 i) ->
  (forall i, global_index_of o = Some i -> g1 i = g2 i) ->
  (forall i, memory_index_of o = Some i -> m1 i = m2 i) ->
  core_op l1 g1 m1 o s = core_op l2 g2 m2 o s.
Proof.
  intros l1 l2 g1 g2 m1 m2 o s Hl Hg Hm.
  destruct o; try reflexivity; cbn [core_op];
    first [ rewrite (Hl _ eq_refl) | rewrite (Hg _ eq_refl) | rewrite (Hm _ eq_refl) ]; reflexivity.
Qed.

(* outside the calls the module machine IS the core machine, lifted *)
Lemma op_sem_noncall : forall E rb cur w s, is_call_w w = false ->
  op_sem E rb cur w s = lift_step (snd s) (core_sem (me_lslot E cur) (me_gslot E) (me_mslot E) w (fst s)).
Proof.
  intros E rb cur w s H. destruct w as [o| | | | | | | | |]; try reflexivity.
  destruct o; try reflexivity; discriminate H.
Qed.

Lemma marks_unreachable_noncall o : marks_unreachable o = true -> is_call o = false.
Proof. intros H. destruct o; try discriminate H; reflexivity. Qed.

Lemma op_sem_never_falls : forall E rb cur o s, marks_unreachable o = true ->
  exists h s', op_sem E rb cur (WOp o) s = Halt h s'.
Proof.
  intros E rb cur o s H. rewrite op_sem_noncall by (apply marks_unreachable_noncall, H).
  destruct (core_never_falls (me_lslot E cur) (me_gslot E) (me_mslot E) o (fst s) H) as (h & c & Hc).
  rewrite Hc. exists h, (c, snd s). reflexivity.
Qed.

(* ================================================================== 2a. relational evaluation *)
Section RelEval.
  Variable S halt : Type.
  Variable pop_cond : S -> option (bool * S).
  Variable pop_index : S -> option (N * S).
  Variable unwind : N -> S -> S.
  Variable enter : blockty -> S -> S.
  Variable leave : S -> S.
  Variable sem : wins -> S -> step S halt.
  Variable arity loop_arity : blockty -> N.
  Variable R : S -> S -> Prop.
  Variable P : wop -> Prop.

  Definition step_rel (a b : step S halt) : Prop :=
    match a, b with Next s, Next t => R s t | Halt h s, Halt h' t => h = h' /\ R s t | _, _ => False end.
  Definition res_rel (a b : res S halt) : Prop :=
    match a, b with
    | Fall s, Fall t => R s t
    | Br d s, Br d' t => d = d' /\ R s t
    | Stop h s, Stop h' t => h = h' /\ R s t
    | Stuck, Stuck => True
    | Fuel, Fuel => True
    | _, _ => False
    end.
  Definition pop_rel {A} (a b : option (A * S)) : Prop :=
    match a, b with Some (x, s), Some (y, t) => x = y /\ R s t | None, None => True | _, _ => False end.

  Hypothesis H_pc : forall s t, R s t -> pop_rel (pop_cond s) (pop_cond t).
  Hypothesis H_pi : forall s t, R s t -> pop_rel (pop_index s) (pop_index t).
  Hypothesis H_unwind : forall n s t, R s t -> R (unwind n s) (unwind n t).
  Hypothesis H_enter : forall bt s t, R s t -> R (enter bt s) (enter bt t).
  Hypothesis H_leave : forall s t, R s t -> R (leave s) (leave t).
  Hypothesis H_sem : forall o, P o -> forall s t, R s t -> step_rel (sem (WOp o) s) (sem (WOp o) t).

  Notation evt := (evt S halt pop_cond pop_index unwind enter leave sem arity loop_arity).
  Notation evl := (evl S halt pop_cond pop_index unwind enter leave sem arity loop_arity).
  Notation close := (close S halt leave).

  Lemma close_rel r1 r2 f g : res_rel r1 r2 -> (forall s t, R s t -> res_rel (f s) (g t)) ->
    res_rel (close r1 f) (close r2 g).
  Proof.
    intros H Hf.
    destruct r1 as [s|[|d] s|h s| |], r2 as [t|[|d'] t|h' t| |]; cbn [Sem.close res_rel] in *; try contradiction; try exact H.
    - apply H_leave, H.
    - apply Hf, H.
    - destruct H as [H _]. discriminate H.
    - destruct H as [H _]. discriminate H.
    - destruct H as [H HR]. injection H as ->. split; [reflexivity|apply H_leave, HR].
  Qed.

  Section Rerun.
    Variable rr : rt -> S -> res S halt.
    Hypothesis H_rr : forall t s s', (forall o, In o (ops_of_t t) -> P o) -> R s s' -> res_rel (rr t s) (rr t s').

    Definition Qt (t : rt) : Prop := (forall o, In o (ops_of_t t) -> P o) -> forall s s', R s s' -> res_rel (evt rr t s) (evt rr t s').
    Definition Ql (l : list rt) : Prop := (forall o, In o (ops_of l) -> P o) -> forall s s', R s s' -> res_rel (evl rr l s) (evl rr l s').

    Lemma Ql_of_Forall l : Forall Qt l -> Ql l.
    Proof.
      induction 1 as [|t l Ht Hl IH]; intros HP s s' HR; [exact HR|].
      rewrite !evl_cons.
      assert (Hr : res_rel (evt rr t s) (evt rr t s')).
      { apply Ht; [|exact HR]. intros o Ho. apply HP. cbn [ops_of]. apply in_or_app. left. exact Ho. }
      destruct (evt rr t s), (evt rr t s'); cbn [res_rel] in Hr |- *; try contradiction; try exact Hr.
      apply IH; [|exact Hr]. intros o Ho. apply HP. cbn [ops_of]. apply in_or_app. right. exact Ho.
    Qed.

    Lemma Qt_all : forall t, Qt t.
    Proof.
      induction t as [o l|l|d l|d l|ds d l|bt body l e HF|bt body l e HF|bt th el l e HFt HFe] using rt_ind';
        intros HP s s' HR.
      - cbn [Sem.evt]. assert (Hs : step_rel (sem (WOp o) s) (sem (WOp o) s')).
        { apply H_sem; [|exact HR]. apply HP. cbn. auto. }
        destruct (sem (WOp o) s), (sem (WOp o) s'); cbn [step_rel res_rel] in *; try contradiction; exact Hs.
      - exact HR.
      - cbn [Sem.evt res_rel]. split; [reflexivity|exact HR].
      - cbn [Sem.evt]. pose proof (H_pc s s' HR) as Hp.
        destruct (pop_cond s) as [[b1 s1]|], (pop_cond s') as [[b2 s2]|]; cbn [pop_rel] in Hp; try contradiction; [|exact I].
        destruct Hp as [-> Hp]. destruct b2; cbn [res_rel]; [split; [reflexivity|exact Hp]|exact Hp].
      - cbn [Sem.evt]. pose proof (H_pi s s' HR) as Hp.
        destruct (pop_index s) as [[b1 s1]|], (pop_index s') as [[b2 s2]|]; cbn [pop_rel] in Hp; try contradiction; [|exact I].
        destruct Hp as [-> Hp]. cbn [res_rel]. split; [reflexivity|exact Hp].
      - rewrite ops_of_block in HP. rewrite !evt_block. apply close_rel.
        + apply (Ql_of_Forall _ HF HP). apply H_enter, HR.
        + intros s1 t1 H1. cbn [res_rel]. apply H_unwind, H1.
      - pose proof HP as HP'. rewrite ops_of_loop in HP. rewrite !evt_loop. apply close_rel.
        + apply (Ql_of_Forall _ HF HP). apply H_enter, HR.
        + intros s1 t1 H1. apply H_rr; [exact HP'|]. apply H_unwind, H1.
      - rewrite !evt_if. pose proof (H_pc s s' HR) as Hp.
        destruct (pop_cond s) as [[b1 s1]|], (pop_cond s') as [[b2 s2]|]; cbn [pop_rel] in Hp; try contradiction; [|exact I].
        destruct Hp as [-> Hp]. destruct el as [[le eb]|].
        + rewrite ops_of_if_some in HP.
          assert (HPt : forall o, In o (ops_of th) -> P o) by (intros o Ho; apply HP, in_or_app; auto).
          assert (HPe : forall o, In o (ops_of eb) -> P o) by (intros o Ho; apply HP, in_or_app; auto).
          cbn [optP snd] in HFe.
          destruct b2; apply close_rel;
            try (intros s3 t3 H3; cbn [res_rel]; apply H_unwind, H3).
          * apply (Ql_of_Forall _ HFt HPt). apply H_enter, Hp.
          * apply (Ql_of_Forall _ HFe HPe). apply H_enter, Hp.
        + rewrite ops_of_if_none in HP.
          destruct b2; apply close_rel;
            try (intros s3 t3 H3; cbn [res_rel]; apply H_unwind, H3).
          * apply (Ql_of_Forall _ HFt HP). apply H_enter, Hp.
          * cbn [res_rel]. apply H_enter, Hp.
    Qed.
    Lemma Ql_all l : Ql l.
    Proof. apply Ql_of_Forall, Forall_forall. intros t _. apply Qt_all. Qed.
  End Rerun.

  Notation rerun_of := (rerun_of S halt pop_cond pop_index unwind enter leave sem arity loop_arity).
  Lemma rerun_rel fuel : forall t s s', (forall o, In o (ops_of_t t) -> P o) -> R s s' -> res_rel (rerun_of fuel t s) (rerun_of fuel t s').
  Proof.
    induction fuel as [|f IH]; intros t s s' HP HR; [exact I|].
    cbn [Sem.rerun_of].
    replace (eval_t S halt pop_cond pop_index unwind enter leave sem arity loop_arity f t s) with (evt (rerun_of f) t s) by (destruct f; reflexivity).
    replace (eval_t S halt pop_cond pop_index unwind enter leave sem arity loop_arity f t s') with (evt (rerun_of f) t s') by (destruct f; reflexivity).
    apply (Qt_all _ IH t HP s s' HR).
  Qed.

  (* related states give related results *)
  Theorem eval_rel : forall fuel l s s', (forall o, In o (ops_of l) -> P o) -> R s s' ->
    res_rel (eval S halt pop_cond pop_index unwind enter leave sem arity loop_arity fuel l s)
            (eval S halt pop_cond pop_index unwind enter leave sem arity loop_arity fuel l s').
  Proof. intros fuel l s s' HP HR. unfold eval. apply (Ql_all _ (rerun_rel fuel) l HP s s' HR). Qed.
End RelEval.

(* ================================================================== 2b. the locals a body does not mention are irrelevant *)
Definition relocs (L : list (N * val)) (c : st) : st := with_locs c (stk c) L.
Definition step_map (f : st -> st) (r : step st halt) : step st halt :=
  match r with Next c => Next (f c) | Halt h c => Halt h (f c) end.
Lemma relocs_self c : relocs (locs c) c = c.
Proof. destruct c; reflexivity. Qed.

(* an operator other than local.get / set / tee neither looks at the locals nor changes them *)
Lemma core_op_relocs : forall l g m o L c, local_index_of o = None ->
  core_op l g m o (relocs L c) = step_map (relocs L) (core_op l g m o c).
Proof.
  intros l g m o L c H. destruct c as [k lo gl la me pg mx].
  destruct o; try discriminate H; try reflexivity;
    cbn [core_op];
    unfold bin32, bin64, div32, div64, divs32_op, divs64_op, un32, un64, cmp64, mem_load, mem_store, mem_size, mem_grow,
      global_get, global_set, push, trap, wrong, in_bounds, relocs;
    cbn [stk locs globs labs mem pages max_pages with_stk with_locs with_globs with_mem with_pages step_map];
    repeat match goal with |- context [match ?x with _ => _ end] => destruct x end; reflexivity.
Qed.

Definition agree (U : list N) (L1 L2 : list (N * val)) : Prop := forall k, In k U -> alookup k L1 = alookup k L2.

Lemma aset_spec k v : forall L,
  match aset k v L with
  | Some L2 => (exists v0, alookup k L = Some v0 /\ same_ty v v0 = true) /\
               forall k', alookup k' L2 = if (k' =? k)%N then Some v else alookup k' L
  | None => match alookup k L with Some v0 => same_ty v v0 = false | None => True end
  end.
Proof.
  induction L as [|[k1 v1] L IH]; [exact I|].
  cbn [aset alookup]. destruct (N.eqb_spec k k1) as [->|Hne].
  - destruct (same_ty v v1) eqn:Et; [|reflexivity]. split; [exists v1; split; [reflexivity|exact Et]|].
    intros k'. cbn [alookup]. destruct (k' =? k1)%N; reflexivity.
  - destruct (aset k v L) as [L2|].
    + destruct IH as [Hex Hk]. split; [exact Hex|]. intros k'. cbn [alookup]. rewrite Hk.
      destruct (N.eqb_spec k' k1) as [->|Hne']; [|reflexivity].
      destruct (N.eqb_spec k1 k) as [E|_]; [congruence|reflexivity].
    + exact IH.
Qed.

(* on agreeing locals, setting an agreed slot succeeds on both sides or on neither, and the results agree *)
Lemma aset_agree U k v L1 L2 : agree U L1 L2 -> In k U ->
  match aset k v L1, aset k v L2 with
  | Some A1, Some A2 => agree U A1 A2
  | None, None => True
  | _, _ => False
  end.
Proof.
  intros Ha Hk. pose proof (aset_spec k v L1) as H1. pose proof (aset_spec k v L2) as H2.
  rewrite <- (Ha k Hk) in H2.
  destruct (aset k v L1) as [A1|], (aset k v L2) as [A2|].
  - intros k' Hk'. rewrite (proj2 H1 k'), (proj2 H2 k'), (Ha k' Hk'). reflexivity.
  - destruct H1 as [(v0 & E & Et) _]. rewrite E in H2. congruence.
  - destruct H2 as [(v0 & E & Et) _]. rewrite E in H1. congruence.
  - exact I.
Qed.

Section LocsRel.
  Variable U : list N.     (* the slots on which the two frames agree *)
  (* same state but for the locals, which agree on [U] *)
  Definition Rst (c1 c2 : st) : Prop := exists L, c2 = relocs L c1 /\ agree U (locs c1) L.
  Definition Rm (s t : mst) : Prop := snd s = snd t /\ Rst (fst s) (fst t).

  Lemma Rst_refl c : Rst c c.
  Proof. exists (locs c). split; [symmetry; apply relocs_self|intros k _; reflexivity]. Qed.

  Lemma core_op_rel : forall l g m o c1 c2, (forall i, local_index_of o = Some i -> In (l i) U) -> Rst c1 c2 ->
    step_rel st halt Rst (core_op l g m o c1) (core_op l g m o c2).
  Proof.
    intros l g m o c1 c2 HU (L & -> & Ha). destruct (local_index_of o) as [i|] eqn:Ei.
    - specialize (HU i eq_refl).
      destruct o; try discriminate Ei; injection Ei as ->; cbn [core_op]; destruct c1 as [k lo gl la me pg mx];
        unfold local_get, local_set, local_tee, relocs, push, wrong; cbn [stk locs with_locs with_stk] in *.
      + rewrite <- (Ha _ HU). destruct (alookup (l i) lo) as [v|]; cbn [step_rel].
        * eexists. split; [reflexivity|exact Ha].
        * split; [reflexivity|]. eexists. split; [reflexivity|exact Ha].
      + destruct k as [|v k]; cbn [step_rel]; [split; [reflexivity|]; eexists; split; [reflexivity|exact Ha]|].
        pose proof (aset_agree U (l i) v lo L Ha HU) as Hs.
        destruct (aset (l i) v lo) as [A1|], (aset (l i) v L) as [A2|]; try contradiction; cbn [step_rel].
        * exists A2. split; [reflexivity|exact Hs].
        * split; [reflexivity|]. eexists. split; [reflexivity|exact Ha].
      + destruct k as [|v k]; cbn [step_rel]; [split; [reflexivity|]; eexists; split; [reflexivity|exact Ha]|].
        pose proof (aset_agree U (l i) v lo L Ha HU) as Hs.
        destruct (aset (l i) v lo) as [A1|], (aset (l i) v L) as [A2|]; try contradiction; cbn [step_rel].
        * exists A2. split; [reflexivity|exact Hs].
        * split; [reflexivity|]. eexists. split; [reflexivity|exact Ha].
    - rewrite (core_op_relocs l g m o L c1 Ei).
      pose proof (core_op_relocs l g m o (locs c1) c1 Ei) as Hself. rewrite relocs_self in Hself.
      destruct (core_op l g m o c1) as [c'|h c']; cbn [step_map step_rel] in *.
      + exists L. split; [reflexivity|]. injection Hself as Hself. rewrite Hself. exact Ha.
      + split; [reflexivity|]. exists L. split; [reflexivity|]. injection Hself as Hself. rewrite Hself. exact Ha.
  Qed.
End LocsRel.

(* ---- the module machine on states that differ in the locals *)
Definition mstep_map (f : st -> st) (r : step mst halt) : step mst halt :=
  match r with Next s => Next (f (fst s), snd s) | Halt h s => Halt h (f (fst s), snd s) end.

Lemma pop_cond_relocs L c : pop_cond (relocs L c) = match pop_cond c with Some (b, c') => Some (b, relocs L c') | None => None end.
Proof. destruct c as [k lo gl la me pg mx]. unfold pop_cond, relocs. cbn [stk with_locs]. destruct k as [|[n|n] k]; reflexivity. Qed.
Lemma pop_index_relocs L c : pop_index (relocs L c) = match pop_index c with Some (b, c') => Some (b, relocs L c') | None => None end.
Proof. destruct c as [k lo gl la me pg mx]. unfold pop_index, relocs. cbn [stk with_locs]. destruct k as [|[n|n] k]; reflexivity. Qed.
Lemma unwind_relocs L n c : unwind n (relocs L c) = relocs L (unwind n c) /\ locs (unwind n c) = locs c.
Proof. destruct c as [k lo gl la me pg mx]. unfold unwind, relocs. cbn [stk labs locs with_locs with_stk]. destruct la; split; reflexivity. Qed.
Lemma enter_relocs L tys bt c : enter tys bt (relocs L c) = relocs L (enter tys bt c) /\ locs (enter tys bt c) = locs c.
Proof. destruct c; split; reflexivity. Qed.
Lemma leave_relocs L c : leave (relocs L c) = relocs L (leave c) /\ locs (leave c) = locs c.
Proof. destruct c; split; reflexivity. Qed.

(* the part of [call_fn] after the callee has run *)
Definition after_call (s : mst) (n : nat) (rs : list valty) (r : res mst halt) : step mst halt :=
  match r with
  | Fall (c', b') => finish s n rs c' b'
  | Br O (c', b') => finish s n rs c' b'
  | Stop Return (c', b') => finish s n rs c' b'
  | Stop Trap (c', b') => Halt Trap (back (fst s) (stk (fst s)) c', b')
  | Fuel => Halt Trap (fst s, true)
  | _ => Halt Wrong s
  end.
Lemma call_fn_eq E rb id s :
  call_fn E rb id s =
  match me_funcs E id with
  | None => Halt Wrong s
  | Some (ti, ls, body) =>
      match me_tys E ti with
      | None => Halt Wrong s
      | Some (ps, rs) =>
          let args := rev (firstn (length ps) (stk (fst s))) in
          if all_ty ps args then
            after_call s (length ps) rs (rb id body (callee_st (fst s) (mk_frame (me_lslot E id) args ls), snd s))
          else Halt Wrong s
      end
  end.
Proof. reflexivity. Qed.

Lemma after_call_relocs L c b n rs r :
  after_call (relocs L c, b) n rs r = mstep_map (relocs L) (after_call (c, b) n rs r).
Proof.
  destruct c as [k lo gl la me pg mx].
  destruct r as [[c' b']|[|d] [c' b']|[| |] [c' b']| |]; cbn [after_call]; try reflexivity;
    unfold finish; cbn [fst snd stk relocs with_locs]; destruct (all_ty rs _); reflexivity.
Qed.

Lemma call_fn_relocs E rb id L c b :
  call_fn E rb id (relocs L c, b) = mstep_map (relocs L) (call_fn E rb id (c, b)).
Proof.
  rewrite !call_fn_eq. cbn [fst snd].
  assert (Hs : stk (relocs L c) = stk c) by (destruct c; reflexivity).
  assert (Hc : forall fr, callee_st (relocs L c) fr = callee_st c fr) by (destruct c; reflexivity).
  destruct (me_funcs E id) as [[[ti ls] body]|]; [|reflexivity].
  destruct (me_tys E ti) as [[ps rs]|]; [|reflexivity].
  cbv zeta. rewrite Hs. destruct (all_ty ps _); [|reflexivity].
  rewrite Hc. apply after_call_relocs.
Qed.

Lemma call_ind_relocs E rb ti tb L c b :
  call_ind E rb ti tb (relocs L c, b) = mstep_map (relocs L) (call_ind E rb ti tb (c, b)).
Proof.
  unfold call_ind. cbn [fst snd].
  assert (Hs : stk (relocs L c) = stk c) by (destruct c; reflexivity).
  assert (Hw : forall k, with_stk (relocs L c) k = relocs L (with_stk c k)) by (destruct c; reflexivity).
  rewrite Hs. destruct (me_tslot E tb =? 0)%N; [|reflexivity].
  destruct (stk c) as [|[i|i] k]; try reflexivity.
  destruct (nth_optN i (me_tbl E)) as [[id|]|]; try reflexivity.
  destruct (me_funcs E id) as [[[tj ls] body]|]; [|reflexivity].
  destruct (me_tys E ti) as [[ps rs]|]; [|reflexivity].
  destruct (me_tys E tj) as [[ps' rs']|]; [|reflexivity].
  destruct (vlist_eqb ps ps' && vlist_eqb rs rs'); [|reflexivity].
  rewrite Hw. apply call_fn_relocs.
Qed.

Section ModRel.
  Variable E : menv.
  Variable rb : N -> list rt -> mst -> res mst halt.
  Variable U : list N.

  (* a step that commutes with replacing the locals relates states that differ in the locals *)
  Lemma rel_of_relocs (f : mst -> step mst halt) :
    (forall L c b, f (relocs L c, b) = mstep_map (relocs L) (f (c, b))) ->
    forall s t, Rm U s t -> step_rel mst halt (Rm U) (f s) (f t).
  Proof.
    intros Hf [c b] [c2 b2] [Hb (L & HL & Ha)]. cbn [fst snd] in *. subst b2 c2.
    rewrite Hf. pose proof (Hf (locs c) c b) as Hself. rewrite relocs_self in Hself.
    destruct (f (c, b)) as [[c' b']|h [c' b']]; cbn [mstep_map step_rel fst snd] in *.
    - injection Hself as Hself. split; [reflexivity|]. exists L. split; [reflexivity|]. cbn [fst]. rewrite Hself. exact Ha.
    - injection Hself as Hself. split; [reflexivity|]. split; [reflexivity|]. exists L. split; [reflexivity|]. cbn [fst]. rewrite Hself. exact Ha.
  Qed.

  Lemma op_sem_rel : forall cur o s t, (forall i, local_index_of o = Some i -> In (me_lslot E cur i) U) -> Rm U s t ->
    step_rel mst halt (Rm U) (op_sem E rb cur (WOp o) s) (op_sem E rb cur (WOp o) t).
  Proof.
    intros cur o s t HU HR. destruct (is_call o) eqn:Hc.
    - destruct o; try discriminate Hc; cbn [op_sem]; apply rel_of_relocs; try exact HR; intros L c b.
      + apply call_fn_relocs.
      + apply call_ind_relocs.
    - rewrite !(op_sem_noncall E rb cur (WOp o)) by exact Hc.
      destruct HR as [Hb HR]. rewrite Hb. cbn [core_sem].
      pose proof (core_op_rel U (me_lslot E cur) (me_gslot E) (me_mslot E) o (fst s) (fst t) HU HR) as Hs.
      destruct (core_op _ _ _ o (fst s)), (core_op _ _ _ o (fst t)); cbn [step_rel lift_step] in *; try contradiction.
      + split; [reflexivity|exact Hs].
      + destruct Hs as [-> Hs]. split; [reflexivity|]. split; [reflexivity|exact Hs].
  Qed.

  Lemma lift_pop_rel {A} (f : st -> option (A * st)) :
    (forall L c, f (relocs L c) = match f c with Some (a, c') => Some (a, relocs L c') | None => None end) ->
    (forall c a c', f c = Some (a, c') -> locs c' = locs c) ->
    forall s t, Rm U s t -> pop_rel mst (Rm U) (lift_pop f s) (lift_pop f t).
  Proof.
    intros Hf Hl [c b] [c2 b2] [Hb (L & HL & Ha)]. cbn [fst snd] in *. subst b2 c2. unfold lift_pop. cbn [fst snd].
    rewrite Hf. destruct (f c) as [[a c']|] eqn:Ef; cbn [pop_rel]; [|exact I].
    split; [reflexivity|]. split; [reflexivity|]. exists L. split; [reflexivity|]. cbn [fst]. rewrite (Hl _ _ _ Ef). exact Ha.
  Qed.
  Lemma lift_rel (f : st -> st) :
    (forall L c, f (relocs L c) = relocs L (f c) /\ locs (f c) = locs c) ->
    forall s t, Rm U s t -> Rm U (lift f s) (lift f t).
  Proof.
    intros Hf [c b] [c2 b2] [Hb (L & HL & Ha)]. cbn [fst snd] in *. subst b2 c2. unfold lift. cbn [fst snd].
    split; [reflexivity|]. exists L. cbn [fst]. destruct (Hf L c) as [H1 H2]. split; [exact H1|]. rewrite H2. exact Ha.
  Qed.
End ModRel.

(* THE FRAME LEMMA: a body run on two frames that agree on the slots of the locals it mentions gives related results *)
Theorem run_body_frames : forall E fuel k id body U c F1 F2 b,
  (forall i, In i (locals_used body) -> In (me_lslot E id i) U) -> agree U F1 F2 ->
  res_rel mst halt (Rm U) (run_body E fuel k id body (callee_st c F1, b)) (run_body E fuel k id body (callee_st c F2, b)).
Proof.
  intros E fuel k id body U c F1 F2 b HU Ha. destruct k as [|k]; [exact I|].
  cbn [run_body].
  apply (eval_rel mst halt pop_cond_m pop_index_m unwind_m (enter_m (me_tys E)) leave_m
           (op_sem E (run_body E fuel k) id) (arity (me_tys E)) (loop_arity (me_tys E)) (Rm U)
           (fun o => forall i, local_index_of o = Some i -> In (me_lslot E id i) U)).
  - apply lift_pop_rel; [apply pop_cond_relocs|].
    intros c0 a c' H. unfold pop_cond in H. destruct (stk c0) as [|[n|n] k0]; try discriminate H. injection H as _ <-. destruct c0; reflexivity.
  - apply lift_pop_rel; [apply pop_index_relocs|].
    intros c0 a c' H. unfold pop_index in H. destruct (stk c0) as [|[n|n] k0]; try discriminate H. injection H as _ <-. destruct c0; reflexivity.
  - intros n. apply lift_rel. intros L c0. apply unwind_relocs.
  - intros bt. apply lift_rel. intros L c0. apply enter_relocs.
  - apply lift_rel. intros L c0. apply leave_relocs.
  - intros o Ho s t HR. apply op_sem_rel; assumption.
  - intros o Ho i Hi. apply HU. exact (locals_used_in body o i Ho Hi).
  - split; [reflexivity|]. exists F2. split; [reflexivity|exact Ha].
Qed.

(* related results of a callee are indistinguishable for the caller *)
Lemma after_call_rel U s n rs r1 r2 : res_rel mst halt (Rm U) r1 r2 -> after_call s n rs r1 = after_call s n rs r2.
Proof.
  intros H.
  assert (Hfin : forall c1 b1 c2 b2, Rm U (c1, b1) (c2, b2) -> finish s n rs c1 b1 = finish s n rs c2 b2 /\
                   back (fst s) (stk (fst s)) c1 = back (fst s) (stk (fst s)) c2 /\ b1 = b2).
  { intros c1 b1 c2 b2 [Hb (L & HL & _)]. cbn [fst snd] in Hb, HL. subst b2 c2. destruct c1. repeat split; reflexivity. }
  destruct r1 as [[c1 b1]|d1 [c1 b1]|h1 [c1 b1]| |], r2 as [[c2 b2]|d2 [c2 b2]|h2 [c2 b2]| |]; cbn [res_rel] in H; try contradiction; try reflexivity.
  - cbn [after_call]. apply Hfin, H.
  - destruct H as [<- H]. destruct d1; cbn [after_call]; [apply Hfin, H|reflexivity].
  - destruct H as [<- H]. destruct h1; cbn [after_call]; try reflexivity.
    + destruct (Hfin _ _ _ _ H) as (_ & -> & ->). reflexivity.
    + apply Hfin, H.
Qed.

(* ================================================================== 3. the theorem on environments *)
(* the output body of a function *)
Definition out_body (cx : pctx) (ecx : ectx) (body : list rt) : list rt :=
  map (ren_t cx ecx) (fst (nf_rt_list false body)).

(* a body and its live part do the same (in one environment: [nf_equiv] with the identity renaming) *)
Lemma run_body_live : forall E fuel k id body s, run_body E fuel k id (live body) s = run_body E fuel k id body s.
Proof.
  intros E fuel k id body s. destruct k as [|k]; [reflexivity|]. cbn [run_body]. unfold live.
  apply nf_equiv; try reflexivity. intros o s0 Hu. apply op_sem_never_falls, Hu.
Qed.

Section Roundtrip.
  Variable E E' : menv.                  (* the input / the output module *)
  Variable cxo : N -> pctx.              (* the parse / emit context of each function (by identity) *)
  Variable ecxo : N -> ectx.

  (* what is asked of a function [id] with body [body] of the input module: everything is about the indices and the
     operators that OCCUR in the live part of the body *)
  Record fn_ok (id : N) (body : list rt) : Prop := {
    (* the slot maps compensate the renumberings *)
    ok_lslot : forall i, In i (locals_used (live body)) -> me_lslot E' id (rl (cxo id) (ecxo id) i) = me_lslot E id i;
    ok_gslot : forall i, In i (globals_used (live body)) -> me_gslot E' (rg (cxo id) (ecxo id) i) = me_gslot E i;
    ok_mslot : forall i, In i (memories_used (live body)) -> me_mslot E' (rm (cxo id) (ecxo id) i) = me_mslot E i;
    ok_fslot : forall f, In (W_Call f) (ops_of (live body)) -> me_fslot E' (rfn (cxo id) (ecxo id) f) = me_fslot E f;
    (* call_indirect: the table slot; the signature at the type index is preserved structurally *)
    ok_tslot : forall ti tb, In (W_CallIndirect ti tb) (ops_of (live body)) -> me_tslot E' (rtb (cxo id) (ecxo id) tb) = me_tslot E tb;
    ok_rty : forall ti tb, In (W_CallIndirect ti tb) (ops_of (live body)) -> me_tys E' (rty (cxo id) (ecxo id) ti) = me_tys E ti;
    (* block types: the hypotheses of [core_roundtrip_equiv_tys] *)
    ok_tys : forall i, me_tys E i = bt_tys (cxo id) (BT_Func i);
    ok_existing : forall i ps rs, me_tys E i = Some (ps, rs) -> existing (cxo id) ps rs <> None;
    ok_tys' : forall ps rs ty, find_type (cxo id) ps rs = Some ty -> me_tys E' (ex_id2i (ecxo id) S_type ty) = Some (ps, rs);
    (* the memory immediates survive (32-bit offsets), the operators are decodable *)
    ok_offset : forall o, In o (ops_of (live body)) -> offset_ok o = true;
    ok_dec : forall o, In o (ops_of (live body)) -> decode_plain (px_i2id (cxo id)) o <> None
  }.

  (* THE FRAMES: for well-typed arguments, the frame the output module builds (its declared locals [ls'], its slot map)
     and the frame the input module builds agree ON THE SLOTS OF THE LOCALS THE LIVE PART OF THE INPUT BODY MENTIONS;
     locals the output drops or reorders are fine *)
  Definition frames_agree (id ti : N) (ls ls' : list valty) (body : list rt) : Prop :=
    forall ps rs args, me_tys E ti = Some (ps, rs) -> all_ty ps args = true ->
      agree (map (me_lslot E id) (locals_used (live body)))
            (mk_frame (me_lslot E' id) args ls') (mk_frame (me_lslot E id) args ls).

  (* the functions of the output module: same identities; body = the output body; a type index with the same
     signature; declared locals giving agreeing frames *)
  Definition funcs_ok : Prop := forall id,
    match me_funcs E id with
    | None => me_funcs E' id = None
    | Some (ti, ls, body) =>
        fn_ok id body /\
        exists ti' ls', me_funcs E' id = Some (ti', ls', out_body (cxo id) (ecxo id) body) /\
                        me_tys E' ti' = me_tys E ti /\
                        frames_agree id ti ls ls' body
    end.

  Hypothesis H_funcs : funcs_ok.
  Hypothesis H_tbl : me_tbl E' = me_tbl E.

  Section Depth.
    Variable rb rb' : N -> list rt -> mst -> res mst halt.
    (* one call level further down the output bodies do what the input bodies do, ... *)
    Hypothesis H_rb : forall id ti ls body s, me_funcs E id = Some (ti, ls, body) ->
      rb' id (out_body (cxo id) (ecxo id) body) s = rb id body s.
    (* ... the input bodies do what their live parts do, ... *)
    Hypothesis H_live : forall id body s, rb id (live body) s = rb id body s.
    (* ... and no body depends on the slots it does not mention *)
    Hypothesis H_fr : forall id body U c F1 F2 b,
      (forall i, In i (locals_used body) -> In (me_lslot E id i) U) -> agree U F1 F2 ->
      res_rel mst halt (Rm U) (rb id body (callee_st c F1, b)) (rb id body (callee_st c F2, b)).

    Lemma call_fn_equiv : forall id s, call_fn E' rb' id s = call_fn E rb id s.
    Proof.
      intros id s. rewrite !call_fn_eq. pose proof (H_funcs id) as Hf.
      destruct (me_funcs E id) as [[[ti ls] body]|] eqn:Ef; [|rewrite Hf; reflexivity].
      destruct Hf as (_ & ti' & ls' & Ef' & Hty & Hfr). rewrite Ef', Hty.
      destruct (me_tys E ti) as [[ps rs]|] eqn:Ety; [|reflexivity].
      cbv zeta. destruct (all_ty ps (rev (firstn (length ps) (stk (fst s))))) eqn:Hargs; [|reflexivity].
      rewrite (H_rb id ti ls body _ Ef), <- !(H_live id body).
      apply (after_call_rel (map (me_lslot E id) (locals_used (live body)))). apply H_fr.
      - intros i Hi. apply in_map, Hi.
      - apply (Hfr ps rs); [exact Ety|exact Hargs].
    Qed.

    Lemma call_ind_equiv : forall id body ti tb s, fn_ok id body -> In (W_CallIndirect ti tb) (ops_of (live body)) ->
      call_ind E' rb' (rty (cxo id) (ecxo id) ti) (rtb (cxo id) (ecxo id) tb) s = call_ind E rb ti tb s.
    Proof.
      intros id body ti tb s Hok Ho. unfold call_ind. rewrite (ok_tslot _ _ Hok ti tb Ho), H_tbl, (ok_rty _ _ Hok ti tb Ho).
      destruct (me_tslot E tb =? 0)%N; [|reflexivity].
      destruct (stk (fst s)) as [|[i|i] k]; try reflexivity.
      destruct (nth_optN i (me_tbl E)) as [[id2|]|]; try reflexivity.
      pose proof (H_funcs id2) as Hf.
      destruct (me_funcs E id2) as [[[tj ls] body2]|] eqn:Ef; [|rewrite Hf; reflexivity].
      destruct Hf as (_ & ti' & ls' & Ef' & Hty & _). rewrite Ef', Hty.
      destruct (me_tys E ti) as [[ps rs]|]; [|reflexivity].
      destruct (me_tys E tj) as [[ps' rs']|]; [|reflexivity].
      destruct (vlist_eqb ps ps' && vlist_eqb rs rs'); [|reflexivity].
      apply call_fn_equiv.
    Qed.

    (* THE RENAMING LEMMA of the module machine: inside function [id], the re-encoded operator in the output
       environment does what the original operator does in the input environment *)
    Lemma op_sem_renamed : forall id body o s, fn_ok id body -> In o (ops_of (live body)) ->
      op_sem E' rb' id (nf_op (cxo id) (ecxo id) o) s = op_sem E rb id (WOp o) s.
    Proof.
      intros id body o s Hok Ho. destruct (is_call o) eqn:Hc.
      - destruct o; try discriminate Hc.
        + rewrite nf_op_call. cbn [op_sem]. rewrite (ok_fslot _ _ Hok _ Ho). apply call_fn_equiv.
        + rewrite nf_op_call_indirect. cbn [op_sem]. apply (call_ind_equiv id body); assumption.
      - rewrite (op_sem_noncall E' rb' id _ s (nf_op_noncall _ _ o Hc)), (op_sem_noncall E rb id (WOp o) s Hc).
        f_equal.
        rewrite (core_sem_renamed (cxo id) (ecxo id)
                   (fun i => me_lslot E' id (rl (cxo id) (ecxo id) i)) (fun i => me_gslot E' (rg (cxo id) (ecxo id) i))
                   (fun i => me_mslot E' (rm (cxo id) (ecxo id) i)) (me_lslot E' id) (me_gslot E') (me_mslot E')
                   (fun i => eq_refl) (fun i => eq_refl) (fun i => eq_refl) o (fst s)
                   (ok_offset _ _ Hok o Ho) (ok_dec _ _ Hok o Ho)).
        cbn [core_sem]. apply core_op_slots_ext; intros i Hi.
        + apply (ok_lslot _ _ Hok). exact (locals_used_in _ o i Ho Hi).
        + apply (ok_gslot _ _ Hok). exact (globals_used_in _ o i Ho Hi).
        + apply (ok_mslot _ _ Hok). exact (memories_used_in _ o i Ho Hi).
    Qed.
  End Depth.

  (* the lifted hooks *)
  Lemma enter_m_nf_bt : forall id body bt s, fn_ok id body ->
    enter_m (me_tys E') (nf_bt (cxo id) (ecxo id) bt) s = enter_m (me_tys E) bt s.
  Proof.
    intros id body bt s Hok. unfold enter_m, lift. f_equal. apply enter_nparams.
    apply (nparams_nf_bt (cxo id) (ecxo id) (me_tys E) (me_tys E') (ok_tys _ _ Hok) (ok_existing _ _ Hok) (ok_tys' _ _ Hok)).
  Qed.

  (* by induction on the call depth: the output body of every function does what the input body does.  The output body is
     the renaming of the live part, the live part is its own normal form ([nf_rt_idem]): [nf_equiv_renamed_on] is applied
     to the LIVE PART, so that only its operators are asked about; then the live part does what the body does *)
  Lemma run_body_equiv : forall fuel k id ti ls body s, me_funcs E id = Some (ti, ls, body) ->
    run_body E' fuel k id (out_body (cxo id) (ecxo id) body) s = run_body E fuel k id body s.
  Proof.
    intros fuel k. induction k as [|k IH]; intros id ti ls body s Ef; [reflexivity|].
    pose proof (H_funcs id) as Hf. rewrite Ef in Hf. destruct Hf as (Hok & _).
    rewrite <- (run_body_live E fuel (S k) id body s).
    cbn [run_body]. unfold out_body. rewrite eval_ren_t. rewrite <- (nf_rt_idem body). fold (live body).
    apply (nf_equiv_renamed_on mst halt pop_cond_m pop_index_m unwind_m leave_m (cxo id) (ecxo id)
             (op_sem E (run_body E fuel k) id) (op_sem E' (run_body E' fuel k) id)
             (enter_m (me_tys E)) (enter_m (me_tys E'))
             (arity (me_tys E)) (arity (me_tys E')) (loop_arity (me_tys E)) (loop_arity (me_tys E'))).
    - intros o Ho s0. apply (op_sem_renamed _ _ IH (run_body_live E fuel k) (run_body_frames E fuel k) id body o s0 Hok Ho).
    - intros bt s0. apply (enter_m_nf_bt id body bt s0 Hok).
    - intros bt. apply (arities_nf_bt (cxo id) (ecxo id) (me_tys E) (me_tys E') (ok_tys _ _ Hok) (ok_existing _ _ Hok) (ok_tys' _ _ Hok)).
    - intros bt. apply (arities_nf_bt (cxo id) (ecxo id) (me_tys E) (me_tys E') (ok_tys _ _ Hok) (ok_existing _ _ Hok) (ok_tys' _ _ Hok)).
    - intros o _ Hu s0. apply op_sem_never_falls, Hu.
  Qed.

  (* the step functions agree at every depth, on every operator of the live part ... *)
  Theorem mod_sem_renamed : forall fuel k id ti ls body o s, me_funcs E id = Some (ti, ls, body) -> In o (ops_of (live body)) ->
    mod_sem E' fuel k id (nf_op (cxo id) (ecxo id) o) s = mod_sem E fuel k id (WOp o) s.
  Proof.
    intros fuel k id ti ls body o s Ef Ho. unfold mod_sem.
    pose proof (H_funcs id) as Hf. rewrite Ef in Hf. destruct Hf as (Hok & _).
    apply (op_sem_renamed _ _ (run_body_equiv fuel k) (run_body_live E fuel k) (run_body_frames E fuel k) id body o s Hok Ho).
  Qed.

  (* ... and THE THEOREM: every call of every function, with every depth and fuel, from every state *)
  Theorem mod_roundtrip_equiv : forall k fuel f args s0,
    run_mod E' k fuel f args s0 = run_mod E k fuel f args s0.
  Proof.
    intros k fuel f args s0. unfold run_mod.
    rewrite (call_fn_equiv _ _ (run_body_equiv fuel k) (run_body_live E fuel k) (run_body_frames E fuel k)). reflexivity.
  Qed.
End Roundtrip.

(* ================================================================== 4. an EXECUTABLE sufficient condition for [frames_agree] *)
(* the first local index in [base, base + n) bound at slot [s] *)
Fixpoint first_idx (lslot : N -> N) (s : N) (base : N) (n : nat) : option N :=
  match n with O => None | S n' => if (lslot base =? s)%N then Some base else first_idx lslot s (base + 1) n' end.
(* where the value a frame holds at slot [s] comes from: argument [i], or the zero of a declared local *)
Definition slot_src (lslot : N -> N) (np : nat) (ls : list valty) (s : N) : option (N + val) :=
  match first_idx lslot s 0 (np + length ls) with
  | None => None
  | Some i => if (i <? N.of_nat np)%N then Some (inl i) else option_map (fun t => inr (zero_val t)) (nth_optN (i - N.of_nat np) ls)
  end.
Definition val_eqb (a b : val) : bool :=
  match a, b with VI32 x, VI32 y => (x =? y)%N | VI64 x, VI64 y => (x =? y)%N | _, _ => false end.
Definition src_eqb (a b : option (N + val)) : bool :=
  match a, b with
  | None, None => true
  | Some (inl i), Some (inl j) => (i =? j)%N
  | Some (inr v), Some (inr w) => val_eqb v w
  | _, _ => false
  end.
Lemma src_eqb_eq a b : src_eqb a b = true -> a = b.
Proof.
  destruct a as [[i|v]|], b as [[j|w]|]; cbn [src_eqb]; intros H; try discriminate H; try reflexivity.
  - apply N.eqb_eq in H. now subst.
  - destruct v, w; cbn [val_eqb] in H; try discriminate H; apply N.eqb_eq in H; now subst.
Qed.
(* the two frames take the value of every slot of [U] from the same source *)
Definition frames_check (lslot lslot' : N -> N) (np : nat) (ls ls' : list valty) (U : list N) : bool :=
  forallb (fun s => src_eqb (slot_src lslot' np ls' s) (slot_src lslot np ls s)) U.

Lemma nth_optN_app {A} (a b : list A) : forall i,
  nth_optN i (a ++ b) = if (i <? N.of_nat (length a))%N then nth_optN i a else nth_optN (i - N.of_nat (length a)) b.
Proof.
  induction a as [|x a IH]; intros i.
  - cbn [app length N.of_nat]. rewrite N.sub_0_r. destruct (N.ltb_spec i 0); [lia|reflexivity].
  - cbn [app nth_optN]. destruct (N.eqb_spec i 0) as [->|Hi].
    + reflexivity.
    + rewrite IH. cbn [length]. rewrite Nnat.Nat2N.inj_succ.
      destruct (N.ltb_spec (i - 1) (N.of_nat (length a))), (N.ltb_spec i (N.succ (N.of_nat (length a)))); try lia; try reflexivity.
      f_equal. lia.
Qed.
Lemma nth_optN_map {A B} (g : A -> B) (l : list A) : forall i, nth_optN i (map g l) = option_map g (nth_optN i l).
Proof. induction l as [|x l IH]; intros i; [reflexivity|]. cbn [map nth_optN]. destruct (i =? 0)%N; [reflexivity|apply IH]. Qed.

Lemma alookup_numbered (lslot : N -> N) s : forall vs base,
  alookup s (map (fun p => (lslot (fst p), snd p)) (numbered base vs)) =
  match first_idx lslot s base (length vs) with Some i => nth_optN (i - base) vs | None => None end.
Proof.
  induction vs as [|v vs IH]; intros base; [reflexivity|].
  cbn [numbered map alookup fst snd length first_idx]. rewrite (N.eqb_sym s).
  destruct (lslot base =? s)%N.
  - rewrite N.sub_diag. reflexivity.
  - rewrite IH. destruct (first_idx lslot s (base + 1) (length vs)) as [i|] eqn:Ei; [|reflexivity].
    assert (Hb : (base + 1 <= i)%N).
    { clear -Ei. revert Ei. generalize (base + 1)%N. induction (length vs) as [|n IHn]; intros b0 H; [discriminate H|].
      cbn [first_idx] in H. destruct (lslot b0 =? s)%N; [injection H as <-; lia|]. specialize (IHn _ H). lia. }
    cbn [nth_optN]. destruct (N.eqb_spec (i - base) 0) as [E|_]; [lia|].
    f_equal. lia.
Qed.

Lemma all_ty_length : forall ts vs, all_ty ts vs = true -> length vs = length ts.
Proof.
  induction ts as [|t ts IH]; intros [|v vs] H; cbn [all_ty] in H; try discriminate H; [reflexivity|].
  apply andb_true_iff in H. cbn [length]. f_equal. apply IH, H.
Qed.

(* the value of a slot in a frame, by its source *)
Lemma alookup_frame lslot args ls s :
  alookup s (mk_frame lslot args ls) =
  match slot_src lslot (length args) ls s with
  | Some (inl i) => nth_optN i args
  | Some (inr v) => Some v
  | None => None
  end.
Proof.
  unfold mk_frame, slot_src. rewrite alookup_numbered, app_length, map_length.
  destruct (first_idx lslot s 0 (length args + length ls)) as [i|]; [|reflexivity].
  rewrite N.sub_0_r, nth_optN_app, nth_optN_map.
  destruct (i <? N.of_nat (length args))%N; [reflexivity|].
  destruct (nth_optN (i - N.of_nat (length args)) ls); reflexivity.
Qed.

Lemma frames_check_agree lslot lslot' ps ls ls' U args : frames_check lslot lslot' (length ps) ls ls' U = true ->
  all_ty ps args = true -> agree U (mk_frame lslot' args ls') (mk_frame lslot args ls).
Proof.
  intros Hc Ha s Hs. rewrite !alookup_frame, (all_ty_length _ _ Ha).
  unfold frames_check in Hc. rewrite forallb_forall in Hc. rewrite (src_eqb_eq _ _ (Hc s Hs)). reflexivity.
Qed.

Theorem frames_check_ok : forall E E' id ti ls ls' body,
  (forall ps rs, me_tys E ti = Some (ps, rs) ->
     frames_check (me_lslot E id) (me_lslot E' id) (length ps) ls ls' (map (me_lslot E id) (locals_used (live body))) = true) ->
  frames_agree E E' id ti ls ls' body.
Proof. intros E E' id ti ls ls' body H ps rs args Hty Ha. apply (frames_check_agree _ _ ps); [apply (H ps rs Hty)|exact Ha]. Qed.
(* in particular: literally the same frames *)
Theorem same_frames_agree : forall E E' id ti ls ls' body,
  (forall args, mk_frame (me_lslot E' id) args ls' = mk_frame (me_lslot E id) args ls) -> frames_agree E E' id ti ls ls' body.
Proof. intros E E' id ti ls ls' body H ps rs args _ _ s _. rewrite H. reflexivity. Qed.

(* ================================================================== 5. modules *)
Lemma nth_optN_nth_error {A} (l : list A) : forall i, nth_optN i l = nth_error l (N.to_nat i).
Proof.
  induction l as [|x l IH]; intros i; [destruct (N.to_nat i); reflexivity|].
  cbn [nth_optN]. destruct (N.eqb_spec i 0) as [->|H]; [reflexivity|].
  rewrite IH. replace (N.to_nat i) with (S (N.to_nat (i - 1))) by lia. reflexivity.
Qed.

(* ---- [find] over a numbered list *)
Section FindNumbered.
  Context {A : Type}.
  Variable f : N -> bool.
  Lemma find_numbered_some : forall (l : list A) k j d, find (fun p => f (fst p)) (numbered k l) = Some (j, d) ->
    (k <= j)%N /\ nth_optN (j - k) l = Some d /\ f j = true.
  Proof.
    induction l as [|x l IH]; intros k j d H; [discriminate H|].
    cbn [numbered find fst] in H. destruct (f k) eqn:Ek.
    - injection H as <- <-. rewrite N.sub_diag. split; [lia|]. split; [reflexivity|exact Ek].
    - destruct (IH _ _ _ H) as (Hle & Hn & Hf). split; [lia|]. split; [|exact Hf].
      cbn [nth_optN]. destruct (N.eqb_spec (j - k) 0) as [E|_]; [lia|].
      replace (j - k - 1)%N with (j - (k + 1))%N by lia. exact Hn.
  Qed.
  Lemma find_numbered_none : forall (l : list A) k, find (fun p => f (fst p)) (numbered k l) = None ->
    forall i d, nth_optN i l = Some d -> f (k + i)%N = false.
  Proof.
    induction l as [|x l IH]; intros k H i d Hn; [discriminate Hn|].
    cbn [numbered find fst] in H. destruct (f k) eqn:Ek; [discriminate H|].
    cbn [nth_optN] in Hn. destruct (N.eqb_spec i 0) as [->|Hi]; [rewrite N.add_0_r; exact Ek|].
    replace (k + i)%N with (k + 1 + (i - 1))%N by lia. exact (IH _ H _ _ Hn).
  Qed.
End FindNumbered.

Lemma find_func_some m fslot id d : find_func m fslot id = Some d ->
  exists i, nth_optN i (cm_funcs m) = Some d /\ fslot i = id.
Proof.
  unfold find_func. intros H.
  destruct (find (fun p => (fslot (fst p) =? id)%N) (numbered 0 (cm_funcs m))) as [[j d']|] eqn:Ef; [|discriminate H].
  injection H as ->. destruct (find_numbered_some (fun i => (fslot i =? id)%N) _ _ _ _ Ef) as (_ & Hn & Hf).
  rewrite N.sub_0_r in Hn. exists j. split; [exact Hn|]. apply N.eqb_eq, Hf.
Qed.
Lemma find_func_none m fslot id : find_func m fslot id = None ->
  forall i d, nth_optN i (cm_funcs m) = Some d -> fslot i <> id.
Proof.
  unfold find_func. intros H i d Hn.
  destruct (find (fun p => (fslot (fst p) =? id)%N) (numbered 0 (cm_funcs m))) as [[j d']|] eqn:Ef; [discriminate H|].
  pose proof (find_numbered_none (fun i => (fslot i =? id)%N) _ _ Ef i d Hn) as Hf. cbn beta in Hf.
  rewrite N.add_0_l in Hf. apply N.eqb_neq, Hf.
Qed.
(* the function at the only index of identity [id] is the one found *)
Lemma find_func_unique m fslot id j d : nth_optN j (cm_funcs m) = Some d -> fslot j = id ->
  (forall j2 d2, nth_optN j2 (cm_funcs m) = Some d2 -> fslot j2 = id -> j2 = j) -> find_func m fslot id = Some d.
Proof.
  intros Hn Hj Hu. destruct (find_func m fslot id) as [d2|] eqn:Ef.
  - destruct (find_func_some _ _ _ _ Ef) as (j2 & Hn2 & Hj2). rewrite (Hu _ _ Hn2 Hj2) in Hn2. congruence.
  - exfalso. exact (find_func_none _ _ _ Ef _ _ Hn Hj).
Qed.

Lemma valty_eqb_true x y : valty_eqb x y = true -> x = y.
Proof. destruct x, y; intros H; try reflexivity; discriminate H. Qed.
Lemma vlist_eqb_true : forall a b, vlist_eqb a b = true -> a = b.
Proof.
  induction a as [|x a IH]; intros [|y b] H; cbn [vlist_eqb] in H; try discriminate H; [reflexivity|].
  apply andb_true_iff in H. destruct H as [H1 H2]. rewrite (valty_eqb_true _ _ H1), (IH _ H2). reflexivity.
Qed.
Lemma vlist_eqb_same : forall l, vlist_eqb l l = true.
Proof. induction l as [|x l IH]; [reflexivity|]. cbn [vlist_eqb]. unfold valty_eqb. rewrite N.eqb_refl, IH. reflexivity. Qed.
Lemma find_type_from_found : forall l n k ps rs, nth_error l k = Some (ps, rs, false) -> find_type_from n l ps rs <> None.
Proof.
  induction l as [|[[p r] en] l IH]; intros n k ps rs Hk; destruct k; cbn [nth_error] in Hk; try discriminate;
    cbn [find_type_from].
  - inversion Hk; subst. rewrite !vlist_eqb_same. cbn. discriminate.
  - destruct (negb en && vlist_eqb p ps && vlist_eqb r rs); [discriminate|]. eapply IH; eauto.
Qed.

(* ---- the STANDARD parse context of a function: the type table of the module, type ids = type indices; the three
   block-type hypotheses of [fn_ok] then follow from "signatures are preserved" *)
Definition std_types (tys : list (list valty * list valty)) : list (list valty * list valty * bool) :=
  map (fun p => (fst p, snd p, false)) tys.
Section StdTys.
  Variable tys : list (list valty * list valty).
  Variable tys' : N -> option (list valty * list valty).
  Variable cx : pctx.
  Variable ecx : ectx.
  Hypothesis H_types : px_types cx = std_types tys.
  Hypothesis H_tyid : forall i, px_i2id cx S_type i = i.
  Hypothesis H_rty : forall i, tys' (ex_id2i ecx S_type i) = nth_optN i tys.

  Lemma std_nth i : nth_N (px_types cx) i = option_map (fun p => (fst p, snd p, false)) (nth_optN i tys).
  Proof. rewrite H_types, nth_optN_nth_error. unfold nth_N, std_types. apply nth_error_map. Qed.
  Lemma std_ok_tys : forall i, nth_optN i tys = bt_tys cx (BT_Func i).
  Proof. intros i. cbn [bt_tys]. rewrite H_tyid, std_nth. destruct (nth_optN i tys) as [[ps rs]|]; reflexivity. Qed.
  Lemma std_ok_existing : forall i ps rs, nth_optN i tys = Some (ps, rs) -> existing cx ps rs <> None.
  Proof.
    intros i ps rs H.
    assert (Hft : find_type cx ps rs <> None).
    { unfold find_type. apply (find_type_from_found _ 0%N (N.to_nat i)).
      pose proof (std_nth i) as Hn. rewrite H in Hn. exact Hn. }
    unfold existing. destruct ps as [|p ps]; [destruct rs as [|r [|r' rs]]|]; try discriminate;
      destruct (find_type cx _ _); try discriminate; now elim Hft.
  Qed.
  Lemma std_ok_tys' : forall ps rs ty, find_type cx ps rs = Some ty -> tys' (ex_id2i ecx S_type ty) = Some (ps, rs).
  Proof.
    intros ps rs ty H. unfold find_type in H.
    destruct (find_type_from_hit _ _ _ _ _ H) as (p & r & Hn & _ & Hp & Hr).
    rewrite N.sub_0_r in Hn. apply vlist_eqb_true in Hp, Hr. subst p r.
    rewrite H_rty. pose proof (std_nth ty) as Hs. unfold nth_N in Hs. rewrite Hn in Hs.
    destruct (nth_optN ty tys) as [[ps' rs']|]; [|discriminate Hs]. cbn in Hs. congruence.
  Qed.
End StdTys.

(* ---- THE THEOREM ON MODULES: function index [i] of the input module is function index [rf i] of the output module *)
Section CmodRoundtrip.
  Variable m m' : cmod.
  Variable lslot lslot' : N -> N -> N.
  Variable fslot gslot mslot tslot fslot' gslot' mslot' tslot' : N -> N.
  Variable cxo : N -> pctx.
  Variable ecxo : N -> ectx.
  Variable rf : N -> N.
  Notation E := (env_of m lslot fslot gslot mslot tslot).
  Notation E' := (env_of m' lslot' fslot' gslot' mslot' tslot').

  (* identities agree; distinct functions of the input have distinct identities; the output has no other functions *)
  Hypothesis H_fslot : forall i, fslot' (rf i) = fslot i.
  Hypothesis H_inj : forall i i2 d d2, nth_optN i (cm_funcs m) = Some d -> nth_optN i2 (cm_funcs m) = Some d2 ->
    fslot i = fslot i2 -> i = i2.
  Hypothesis H_surj : forall j d', nth_optN j (cm_funcs m') = Some d' -> exists i d, nth_optN i (cm_funcs m) = Some d /\ rf i = j.
  (* function by function *)
  Hypothesis H_fn : forall i ti ls body, nth_optN i (cm_funcs m) = Some (ti, ls, body) ->
    fn_ok E E' cxo ecxo (fslot i) body /\
    exists ti' ls', nth_optN (rf i) (cm_funcs m') = Some (ti', ls', out_body (cxo (fslot i)) (ecxo (fslot i)) body) /\
                    nth_optN ti' (cm_tys m') = nth_optN ti (cm_tys m) /\
                    frames_agree E E' (fslot i) ti ls ls' body.
  (* the table entries are renamed *)
  Hypothesis H_tbl : cm_table m' = map (option_map rf) (cm_table m).

  Lemma cmod_funcs_ok : funcs_ok E E' cxo ecxo.
  Proof.
    intros id. cbn [me_funcs env_of].
    destruct (find_func m fslot id) as [[[ti ls] body]|] eqn:Ef.
    - destruct (find_func_some _ _ _ _ Ef) as (i & Hn & Hi). subst id.
      destruct (H_fn i ti ls body Hn) as (Hok & ti' & ls' & Hn' & Hty & Hfr).
      split; [exact Hok|]. exists ti', ls'. split; [|split; [exact Hty|exact Hfr]].
      apply (find_func_unique m' fslot' (fslot i) (rf i)); [exact Hn'|apply H_fslot|].
      intros j2 d2 Hj2 Hs. destruct (H_surj j2 d2 Hj2) as (i2 & d & Hi2 & <-).
      rewrite H_fslot in Hs. f_equal. exact (H_inj _ _ _ _ Hi2 Hn Hs).
    - destruct (find_func m' fslot' id) as [d'|] eqn:Ef'; [|reflexivity]. exfalso.
      destruct (find_func_some _ _ _ _ Ef') as (j & Hj & Hs).
      destruct (H_surj j d' Hj) as (i & d & Hi & <-). rewrite H_fslot in Hs.
      exact (find_func_none _ _ _ Ef _ _ Hi Hs).
  Qed.

  Theorem mod_roundtrip_equiv_cmod : forall k fuel f args s0,
    run_mod E' k fuel f args s0 = run_mod E k fuel f args s0.
  Proof.
    apply (mod_roundtrip_equiv E E' cxo ecxo cmod_funcs_ok).
    cbn [me_tbl env_of]. rewrite H_tbl, map_map. apply map_ext. intros [j|]; [|reflexivity].
    cbn [option_map]. rewrite H_fslot. reflexivity.
  Qed.
End CmodRoundtrip.

(* ---- [fn_ok] for the standard parse context, with the decidable premises as boolean checks *)
Lemma fn_ok_std : forall m m' lslot lslot' fslot gslot mslot tslot fslot' gslot' mslot' tslot' (cxo : N -> pctx) (ecxo : N -> ectx) id body,
  px_types (cxo id) = std_types (cm_tys m) ->
  (forall i, px_i2id (cxo id) S_type i = i) ->
  (forall i, In i (locals_used (live body)) -> lslot' id (rl (cxo id) (ecxo id) i) = lslot id i) ->
  (forall i, In i (globals_used (live body)) -> gslot' (rg (cxo id) (ecxo id) i) = gslot i) ->
  (forall i, In i (memories_used (live body)) -> mslot' (rm (cxo id) (ecxo id) i) = mslot i) ->
  (forall f, In (W_Call f) (ops_of (live body)) -> fslot' (rfn (cxo id) (ecxo id) f) = fslot f) ->
  (forall ti tb, In (W_CallIndirect ti tb) (ops_of (live body)) -> tslot' (rtb (cxo id) (ecxo id) tb) = tslot tb) ->
  (forall i, nth_optN (ex_id2i (ecxo id) S_type i) (cm_tys m') = nth_optN i (cm_tys m)) ->
  forallb offset_ok (ops_of (live body)) = true ->
  forallb (decodable (cxo id)) (ops_of (live body)) = true ->
  fn_ok (env_of m lslot fslot gslot mslot tslot) (env_of m' lslot' fslot' gslot' mslot' tslot') cxo ecxo id body.
Proof.
  intros m m' lslot lslot' fslot gslot mslot tslot fslot' gslot' mslot' tslot' cxo ecxo id body Hty Hid Hl Hg Hm Hf Ht Hr Ho Hd.
  constructor; cbn [env_of me_lslot me_gslot me_mslot me_fslot me_tslot me_tys]; try assumption.
  - intros ti tb _. unfold rty. rewrite Hid. apply Hr.
  - apply (std_ok_tys (cm_tys m) (cxo id) Hty Hid).
  - apply (std_ok_existing (cm_tys m) (cxo id) Hty).
  - apply (std_ok_tys' (cm_tys m) (fun i => nth_optN i (cm_tys m')) (cxo id) (ecxo id) Hty Hr).
  - apply forallb_forall, Ho.
  - apply decodable_forallb, Hd.
Qed.

(* ---- COROLLARY for the identity renumbering of functions / types / globals / memories / tables, same order of functions:
   only the normal form and the renumbering of the locals, function by function *)
Definition cx_std (tys : list (list valty * list valty)) : pctx := {| px_i2id := fun _ i => i; px_types := std_types tys |}.
Definition ecx_locals (r : N -> N) : ectx :=
  {| ex_id2i := fun sp i => match sp with S_local => r i | _ => i end; ex_ilen := fun _ => 1%N |}.
Definition idN (i : N) : N := i.

Theorem mod_roundtrip_equiv_locals : forall (m m' : cmod) (lslot lslot' : N -> N -> N) (gslot mslot tslot : N -> N) (rlo : N -> N -> N),
  cm_tys m' = cm_tys m -> cm_table m' = cm_table m ->
  (forall j d', nth_optN j (cm_funcs m') = Some d' -> exists d, nth_optN j (cm_funcs m) = Some d) ->
  (forall i ti ls body, nth_optN i (cm_funcs m) = Some (ti, ls, body) ->
     exists ls', nth_optN i (cm_funcs m') = Some (ti, ls', out_body (cx_std (cm_tys m)) (ecx_locals (rlo i)) body) /\
       (forall j, In j (locals_used (live body)) -> lslot' i (rlo i j) = lslot i j) /\
       forallb offset_ok (ops_of (live body)) = true /\
       forallb (decodable (cx_std (cm_tys m))) (ops_of (live body)) = true /\
       frames_agree (env_of m lslot idN gslot mslot tslot) (env_of m' lslot' idN gslot mslot tslot) i ti ls ls' body) ->
  forall k fuel f args s0,
    run_mod (env_of m' lslot' idN gslot mslot tslot) k fuel f args s0 = run_mod (env_of m lslot idN gslot mslot tslot) k fuel f args s0.
Proof.
  intros m m' lslot lslot' gslot mslot tslot rlo Hty Htb Hsurj Hfn.
  apply (mod_roundtrip_equiv_cmod m m' lslot lslot' idN gslot mslot tslot idN gslot mslot tslot
           (fun _ => cx_std (cm_tys m)) (fun id => ecx_locals (rlo id)) idN).
  - reflexivity.
  - intros i i2 d d2 _ _ H. exact H.
  - intros j d' Hj. destruct (Hsurj j d' Hj) as (d & Hd). exists j, d. split; [exact Hd|reflexivity].
  - intros i ti ls body Hi. destruct (Hfn i ti ls body Hi) as (ls' & Hi' & Hl & Ho & Hd & Hfr).
    split.
    + apply fn_ok_std; try reflexivity; try assumption.
      intros j. cbn [ecx_locals ex_id2i]. rewrite Hty. reflexivity.
    + exists ti, ls'. split; [exact Hi'|]. split; [rewrite Hty; reflexivity|exact Hfr].
  - rewrite Htb. symmetry. erewrite map_ext; [apply map_id|]. intros [j|]; reflexivity.
Qed.

(* ================================================================== 6. examples (by computation) *)
Module Ex.
  Local Open Scope N_scope.
  Definition P (o : wop) : rt := RPlain o 0.
  Definition I (z : Z) : rt := P (W_I32Const z).
  Definition L (z : Z) : rt := P (W_I64Const z).
  Definition ma (off : N) : w_memarg := {| wa_align := 0; wa_offset := off; wa_memory := 0 |}.
  Definition env0 (m : cmod) : menv := env_of m (fun _ => idN) idN idN idN idN.
  Definition g0 : list (N * val) := [(0, VI32 5); (1, VI64 6)].
  Definition s_init : st := {| stk := []; locs := []; globs := g0; labs := []; mem := []; pages := 1; max_pages := 2 |}.
  (* the observable part of a result: results (first one first), final globals, memory, pages; [None] = exhausted *)
  Inductive obs := ORet (vs : list val) (g : list (N * val)) (m : list (N * N)) (p : N) | OTrap (g : list (N * val)) (m : list (N * N)) | OWrong | OOther.
  Definition observe (r : option (res st halt)) : option obs :=
    match r with
    | None => None
    | Some (Fall s) => Some (ORet (rev (stk s)) (globs s) (mem s) (pages s))
    | Some (Stop Trap s) => Some (OTrap (globs s) (mem s))
    | Some (Stop Wrong _) => Some OWrong
    | Some _ => Some OOther
    end.
  Definition run (m : cmod) (k fuel : nat) (f : N) (args : list val) := observe (run_mod (env0 m) k fuel f args s_init).

  (* types: 0 = [i32] -> [i32]; 1 = [] -> []; 2 = [i32 i32] -> [i32]; 3 = [i64] -> [i32]; 4 = [i32] -> [i32 i32];
     5 = [i32] -> [i32] AGAIN (structurally equal to type 0) *)
  Definition tys0 : list (list valty * list valty) :=
    [([VT_I32], [VT_I32]); ([], []); ([VT_I32; VT_I32], [VT_I32]); ([VT_I64], [VT_I32]); ([VT_I32], [VT_I32; VT_I32]); ([VT_I32], [VT_I32])].
  (* 0: factorial, recursive *)
  Definition fact_body : list rt :=
    [ P (W_LocalGet 0); P W_I32Eqz;
      RIf (BT_Val VT_I32) [ I 1 ]
        (Some (0, [ P (W_LocalGet 0); P (W_LocalGet 0); I 1; P W_I32Sub; P (W_Call 0); P W_I32Mul ])) 0 0 ].
  (* 1 / 2: is_even / is_odd, mutually recursive *)
  Definition even_body : list rt :=
    [ P (W_LocalGet 0); P W_I32Eqz;
      RIf (BT_Val VT_I32) [ I 1 ] (Some (0, [ P (W_LocalGet 0); I 1; P W_I32Sub; P (W_Call 2) ])) 0 0 ].
  Definition odd_body : list rt :=
    [ P (W_LocalGet 0); P W_I32Eqz;
      RIf (BT_Val VT_I32) [ I 0 ] (Some (0, [ P (W_LocalGet 0); I 1; P W_I32Sub; P (W_Call 1) ])) 0 0 ].
  (* 3: sub (a, b) = a - b: the order of the arguments *)
  Definition sub_body : list rt := [ P (W_LocalGet 0); P (W_LocalGet 1); P W_I32Sub ].
  (* 4: [i64] -> [i32] *)
  Definition wrap_body : list rt := [ P (W_LocalGet 0); P W_I32WrapI64 ].
  (* 5: dispatch (x, slot) = call_indirect (type 0) slot, on x *)
  Definition disp_body : list rt := [ P (W_LocalGet 0); P (W_LocalGet 1); P (W_CallIndirect 0 0) ].
  (* 6: 100 / x: traps on 0 *)
  Definition div_body : list rt := [ I 100; P (W_LocalGet 0); P W_I32DivU ].
  (* 7: a LOOP calling 6 on n, n-1, ..., 0 - where the callee traps; local 1 = the sum; global 0 counts the rounds *)
  Definition loop_body : list rt :=
    [ RLoop BT_Empty
        [ P (W_GlobalGet 0); I 1; P W_I32Add; P (W_GlobalSet 0);
          P (W_LocalGet 1); P (W_LocalGet 0); P (W_Call 6); P W_I32Add; P (W_LocalSet 1);
          P (W_LocalGet 0); I 1; P W_I32Sub; P (W_LocalSet 0);
          RBr 0 0 ] 0 0;
      P (W_LocalGet 1) ].
  (* 8: [] -> []: writes memory, both globals, grows the memory *)
  Definition effect_body : list rt :=
    [ I 16; I 258; P (W_I32Store16 (ma 0)); I 77; P (W_GlobalSet 0); L (-1); P (W_GlobalSet 1); I 1; P (W_MemoryGrow 0); P W_Drop ].
  (* 9: calls 8, then reads what it wrote: memory, globals, the new size *)
  Definition caller_body : list rt :=
    [ P (W_Call 8); I 16; P (W_I32Load (ma 0)); P (W_GlobalGet 0); P W_I32Add; P (W_GlobalGet 1); P W_I32WrapI64; P W_I32Add;
      P (W_MemorySize 0); P W_I32Add; P (W_LocalGet 0); P W_I32Add ].
  (* 10: [i32] -> [i32 i32], leaving SURPLUS values below the results: by `return`, by a branch to the function label *)
  Definition surplus_body : list rt :=
    [ I 9; I 8; P (W_LocalGet 0);
      RIf BT_Empty [ I 1; I 2; P W_Return ] None 0 0;
      I 3; I 4; RBr 0 0 ].
  (* 11: the caller keeps its own stack below the arguments: 1000 + the two results of 10 *)
  Definition caller2_body : list rt := [ I 1000; P (W_LocalGet 0); P (W_Call 10); P W_I32Add; P W_I32Add ].
  (* 12: too few results;  13: x + 1, of type 5 *)
  Definition short_body : list rt := [ RNop 0 ].
  Definition inc_body : list rt := [ P (W_LocalGet 0); I 1; P W_I32Add ].
  Definition m0 : cmod :=
    {| cm_tys := tys0;
       cm_funcs := [ (0, [], fact_body); (0, [], even_body); (0, [], odd_body); (2, [], sub_body); (3, [], wrap_body);
                     (2, [], disp_body); (0, [], div_body); (0, [VT_I32], loop_body); (1, [], effect_body); (0, [], caller_body);
                     (4, [], surplus_body); (0, [], caller2_body); (0, [], short_body); (5, [], inc_body) ];
       cm_table := [ Some 0; Some 1; None; Some 4; Some 3; Some 13 ] |}.

  (* ---- recursion through `call`: fact 5 needs six nested levels *)
  Example fact5 : run m0 6 0 0 [VI32 5] = Some (ORet [VI32 120] g0 [] 1).
  Proof. vm_compute. reflexivity. Qed.
  Example fact5_depth : run m0 5 0 0 [VI32 5] = None.
  Proof. vm_compute. reflexivity. Qed.
  (* ---- mutual recursion, depth-bounded *)
  Example even10 : run m0 11 0 1 [VI32 10] = Some (ORet [VI32 1] g0 [] 1).
  Proof. vm_compute. reflexivity. Qed.
  Example even7 : run m0 8 0 1 [VI32 7] = Some (ORet [VI32 0] g0 [] 1).
  Proof. vm_compute. reflexivity. Qed.
  Example even7_depth : run m0 7 0 1 [VI32 7] = None.
  Proof. vm_compute. reflexivity. Qed.
  (* depth 0: not even the entry function runs; exhaustion is NOT a trap and NOT going wrong *)
  Example depth0 : run m0 0 0 3 [VI32 10; VI32 3] = None.
  Proof. vm_compute. reflexivity. Qed.
  (* ---- arguments in order; ill-typed / missing arguments, an unknown function: going wrong *)
  Example sub_order : run m0 1 0 3 [VI32 10; VI32 3] = Some (ORet [VI32 7] g0 [] 1).
  Proof. vm_compute. reflexivity. Qed.
  Example bad_arg_type : run m0 1 0 3 [VI32 10; VI64 3] = Some OWrong.
  Proof. vm_compute. reflexivity. Qed.
  Example bad_arg_count : run m0 1 0 3 [VI32 10] = Some OWrong.
  Proof. vm_compute. reflexivity. Qed.
  Example no_such_function : run m0 1 0 99 [] = Some OWrong.
  Proof. vm_compute. reflexivity. Qed.
  Example too_few_results : run m0 1 0 12 [VI32 0] = Some OWrong.
  Proof. vm_compute. reflexivity. Qed.
  (* ---- call_indirect: hit (slot 0 = fact, slot 1 = is_even); a hit through a DIFFERENT type index of the same structure
     (slot 5 = function 13 of type 5, called at type 0); empty slot; signature mismatch ([i64] -> [i32], [i32 i32] -> [i32]);
     out of range, also with the largest index *)
  Example indirect_hit : (run m0 9 0 5 [VI32 4; VI32 0], run m0 9 0 5 [VI32 4; VI32 1]) = (Some (ORet [VI32 24] g0 [] 1), Some (ORet [VI32 1] g0 [] 1)).
  Proof. vm_compute. reflexivity. Qed.
  Example indirect_structural : run m0 9 0 5 [VI32 4; VI32 5] = Some (ORet [VI32 5] g0 [] 1).
  Proof. vm_compute. reflexivity. Qed.
  Example indirect_empty : run m0 9 0 5 [VI32 4; VI32 2] = Some (OTrap g0 []).
  Proof. vm_compute. reflexivity. Qed.
  Example indirect_mismatch : (run m0 9 0 5 [VI32 4; VI32 3], run m0 9 0 5 [VI32 4; VI32 4]) = (Some (OTrap g0 []), Some (OTrap g0 [])).
  Proof. vm_compute. reflexivity. Qed.
  Example indirect_out_of_range : (run m0 9 0 5 [VI32 4; VI32 6], run m0 9 0 5 [VI32 4; VI32 4294967295]) = (Some (OTrap g0 []), Some (OTrap g0 [])).
  Proof. vm_compute. reflexivity. Qed.
  (* ---- a callee that traps inside a loop of the caller: 100/3, 100/2, 100/1, then 100/0; the four increments of global 0 stay *)
  Example trap_in_loop : run m0 2 10 7 [VI32 3] = Some (OTrap [(0, VI32 9); (1, VI64 6)] []).
  Proof. vm_compute. reflexivity. Qed.
  (* the loop fuel of a CALLEE runs out: exhausted, not trapped (function 7 called through the table is a mismatch, so directly) *)
  Example fuel_exhausted : run m0 2 2 7 [VI32 3] = None.
  Proof. vm_compute. reflexivity. Qed.
  (* ---- the callee writes memory and globals and grows the memory: the caller sees all of it *)
  Example effects_seen : run m0 2 0 9 [VI32 1000] = Some (ORet [VI32 1336] [(0, VI32 77); (1, VI64 18446744073709551615)] [(16, 2); (17, 1)] 2).
  Proof. vm_compute. reflexivity. Qed.
  (* ---- surplus values on the callee's stack are dropped: exactly the results come back, on top of the caller's stack *)
  Example surplus_return : run m0 1 0 10 [VI32 1] = Some (ORet [VI32 1; VI32 2] g0 [] 1).
  Proof. vm_compute. reflexivity. Qed.
  Example surplus_branch : run m0 1 0 10 [VI32 0] = Some (ORet [VI32 3; VI32 4] g0 [] 1).
  Proof. vm_compute. reflexivity. Qed.
  Example caller_stack_kept : (run m0 2 0 11 [VI32 1], run m0 2 0 11 [VI32 0]) = (Some (ORet [VI32 1003] g0 [] 1), Some (ORet [VI32 1007] g0 [] 1)).
  Proof. vm_compute. reflexivity. Qed.
  (* call depth exhausted two levels down, inside call_indirect *)
  Example indirect_depth : run m0 4 0 5 [VI32 4; VI32 0] = None.
  Proof. vm_compute. reflexivity. Qed.
End Ex.

(* ---- the theorem instantiated on a concrete module, with every renumbering at once *)
Module RT.
  Local Open Scope N_scope.
  Definition P (o : wop) : rt := RPlain o 0.
  Definition I (z : Z) : rt := P (W_I32Const z).
  (* ---- the input module.  Types: 0 = [i32] -> [i32], 1 = [i32 i32] -> [i32].
     0 = fact (locals: 1 = an i64 never used, 2 = an i32), recursive through `call 0`, multiplying through `call 1`,
         with a nop, a block typed by a function type, a `return` followed by dead code that mentions what does not survive;
     1 = mul;  2 = apply (x, slot) = call_indirect (type 0) slot on x, added to global 0, which it increments *)
  Definition tys1 : list (list valty * list valty) := [([VT_I32], [VT_I32]); ([VT_I32; VT_I32], [VT_I32])].
  Definition fact1 : list rt :=
    [ RNop 0; P (W_LocalGet 0); P W_I32Eqz;
      RIf (BT_Val VT_I32) [ I 1 ]
        (Some (0, [ P (W_LocalGet 0); P (W_LocalGet 0); I 1; P W_I32Sub; P (W_Call 0); RBlock (BT_Func 1) [ P (W_Call 1) ] 0 0 ])) 0 0;
      P (W_LocalSet 2); P (W_LocalGet 2); P W_Return;
      (* dead: the local that the output drops, a function that does not exist, an offset that does not survive *)
      P (W_LocalGet 1); P (W_Call 9); P (W_I32Load {| wa_align := 0; wa_offset := 4294967296; wa_memory := 3 |}); I 0; P W_I32DivU ].
  Definition mul1 : list rt := [ P (W_LocalGet 0); P (W_LocalGet 1); P W_I32Mul ].
  Definition apply1 : list rt :=
    [ P (W_LocalGet 0); P (W_LocalGet 1); P (W_CallIndirect 0 0);
      P (W_GlobalGet 0); P W_I32Add; P (W_GlobalGet 0); I 1; P W_I32Add; P (W_GlobalSet 0) ].
  Definition m1 : cmod :=
    {| cm_tys := tys1; cm_funcs := [ (0, [VT_I64; VT_I32], fact1); (1, [], mul1); (1, [], apply1) ];
       cm_table := [ Some 0; None; Some 1 ] |}.

  (* ---- the renumbering: functions rotated (0 -> 2, 1 -> 0, 2 -> 1), the two types swapped, a global added in front,
     in `fact` the unused local dropped (local 2 becomes local 1; the emit-time map sends the dropped local 1 to 7) *)
  Definition rf (i : N) : N := if i =? 0 then 2 else if i =? 1 then 0 else if i =? 2 then 1 else i.
  Definition rfi (j : N) : N := if j =? 2 then 0 else if j =? 0 then 1 else if j =? 1 then 2 else j.
  Definition rt1 (i : N) : N := if i =? 0 then 1 else if i =? 1 then 0 else i.
  Definition rl0 (i : N) : N := if i =? 1 then 7 else if i =? 2 then 1 else i.
  Definition cx1 : pctx := cx_std tys1.
  Definition ecx1 (id : N) : ectx :=
    {| ex_id2i := fun sp i => match sp with
                              | S_func => rf i | S_type => rt1 i | S_global => i + 1
                              | S_local => if id =? 0 then rl0 i else i
                              | _ => i end;
       ex_ilen := fun _ => 1 |}.
  (* ---- the output module *)
  Definition m1' : cmod :=
    {| cm_tys := [([VT_I32; VT_I32], [VT_I32]); ([VT_I32], [VT_I32])];
       cm_funcs := [ (0, [], out_body cx1 (ecx1 1) mul1); (0, [], out_body cx1 (ecx1 2) apply1); (1, [VT_I32], out_body cx1 (ecx1 0) fact1) ];
       cm_table := [ Some 2; None; Some 0 ] |}.
  Example fact1_out : out_body cx1 (ecx1 0) fact1 =
    [ P (W_LocalGet 0); P W_I32Eqz;
      RIf (BT_Val VT_I32) [ I 1 ]
        (Some (0, [ P (W_LocalGet 0); P (W_LocalGet 0); I 1; P W_I32Sub; P (W_Call 2); RBlock (BT_Func 0) [ P (W_Call 0) ] 0 0 ])) 0 0;
      P (W_LocalSet 1); P (W_LocalGet 1); P W_Return ].
  Proof. vm_compute. reflexivity. Qed.
  Example apply1_out : out_body cx1 (ecx1 2) apply1 =
    [ P (W_LocalGet 0); P (W_LocalGet 1); P (W_CallIndirect 1 0);
      P (W_GlobalGet 1); P W_I32Add; P (W_GlobalGet 1); I 1; P W_I32Add; P (W_GlobalSet 1) ].
  Proof. vm_compute. reflexivity. Qed.

  (* ---- the slot maps: the input ones are the identity; the output ones undo the renumbering *)
  Definition lslot1' (id : N) (j : N) : N := if id =? 0 then (if j =? 1 then 2 else j) else j.
  Definition E1 : menv := env_of m1 (fun _ => idN) idN idN idN idN.
  Definition E1' : menv := env_of m1' lslot1' rfi (fun i => i - 1) idN idN.

  Lemma rfi_rf i : rfi (rf i) = i.
  Proof.
    unfold rf, rfi. destruct (N.eqb_spec i 0) as [->|H0]; [reflexivity|].
    destruct (N.eqb_spec i 1) as [->|H1]; [reflexivity|]. destruct (N.eqb_spec i 2) as [->|H2]; [reflexivity|].
    destruct (N.eqb_spec i 2); [contradiction|]. destruct (N.eqb_spec i 0); [contradiction|].
    destruct (N.eqb_spec i 1); [contradiction|]. reflexivity.
  Qed.
  Lemma rt1_tys i : nth_optN (rt1 i) (cm_tys m1') = nth_optN i (cm_tys m1).
  Proof.
    unfold rt1. destruct (N.eqb_spec i 0) as [->|H0]; [reflexivity|]. destruct (N.eqb_spec i 1) as [->|H1]; [reflexivity|].
    cbn [m1 m1' cm_tys tys1 nth_optN]. destruct (N.eqb_spec i 0); [contradiction|].
    destruct (N.eqb_spec (i - 1) 0); [lia|]. reflexivity.
  Qed.

  Lemma fn_ok1 : forall id body, In (id, body) [(0, fact1); (1, mul1); (2, apply1)] -> fn_ok E1 E1' (fun _ => cx1) ecx1 id body.
  Proof.
    intros id body H. unfold E1, E1'. apply fn_ok_std; try reflexivity.
    - intros i Hi. cbn [In] in H.
      destruct H as [H|[H|[H|[]]]]; injection H as <- <-; vm_compute in Hi;
        repeat (destruct Hi as [<-|Hi]; [reflexivity|]); destruct Hi.
    - intros i _. unfold rg. cbn [cx1 cx_std ecx1 px_i2id ex_id2i]. apply N.add_sub.
    - intros f _. apply rfi_rf.
    - intros i. apply rt1_tys.
    - cbn [In] in H. destruct H as [H|[H|[H|[]]]]; injection H as <- <-; vm_compute; reflexivity.
    - cbn [In] in H. destruct H as [H|[H|[H|[]]]]; injection H as <- <-; vm_compute; reflexivity.
  Qed.

  (* THE THEOREM, instantiated: the hypotheses are satisfiable with every renumbering at once *)
  Theorem rt_equiv : forall k fuel f args s0, run_mod E1' k fuel f args s0 = run_mod E1 k fuel f args s0.
  Proof.
    unfold E1, E1'. apply (mod_roundtrip_equiv_cmod m1 m1' _ _ _ _ _ _ _ _ _ _ (fun _ => cx1) ecx1 rf).
    - intros i. apply rfi_rf.
    - intros i i2 d d2 _ _ H. exact H.
    - intros j d' Hj. cbn [m1' cm_funcs nth_optN] in Hj.
      destruct (N.eqb_spec j 0) as [->|H0]; [exists 1; eexists; split; reflexivity|].
      destruct (N.eqb_spec (j - 1) 0) as [E|H1]; [exists 2; eexists; split; [reflexivity|]; unfold rf; cbn; lia|].
      destruct (N.eqb_spec (j - 1 - 1) 0) as [E|H2]; [exists 0; eexists; split; [reflexivity|]; unfold rf; cbn; lia|].
      discriminate Hj.
    - intros i ti ls body Hi. cbn [m1 cm_funcs nth_optN] in Hi.
      destruct (N.eqb_spec i 0) as [->|H0].
      { injection Hi as <- <- <-. split; [apply fn_ok1; cbn; auto|]. exists 1, [VT_I32].
        split; [reflexivity|]. split; [reflexivity|].
        apply frames_check_ok. intros ps rs Hty. injection Hty as <- <-. vm_compute. reflexivity. }
      destruct (N.eqb_spec (i - 1) 0) as [E|H1].
      { replace i with 1 by lia. injection Hi as <- <- <-. split; [apply fn_ok1; cbn; auto|]. exists 0, [].
        split; [reflexivity|]. split; [reflexivity|].
        apply frames_check_ok. intros ps rs Hty. injection Hty as <- <-. vm_compute. reflexivity. }
      destruct (N.eqb_spec (i - 1 - 1) 0) as [E|H2]; [|discriminate Hi].
      replace i with 2 by lia. injection Hi as <- <- <-. split; [apply fn_ok1; cbn; auto|]. exists 0, [].
      split; [reflexivity|]. split; [reflexivity|].
      apply frames_check_ok. intros ps rs Hty. injection Hty as <- <-. vm_compute. reflexivity.
    - reflexivity.
  Qed.

  Definition s1 : st := {| stk := []; locs := []; globs := [(0, VI32 10)]; labs := []; mem := []; pages := 0; max_pages := 0 |}.
  (* apply (4, slot 0) = fact 4 + global 0 = 34, and global 0 becomes 11: the input module ... *)
  Example rt_in : match run_mod E1 8 0 2 [VI32 4; VI32 0] s1 with Some (Fall s) => (stk s, globs s) | _ => ([], []) end = ([VI32 34], [(0, VI32 11)]).
  Proof. vm_compute. reflexivity. Qed.
  (* ... and the output module, by computation and by the theorem *)
  Example rt_out : match run_mod E1' 8 0 2 [VI32 4; VI32 0] s1 with Some (Fall s) => (stk s, globs s) | _ => ([], []) end = ([VI32 34], [(0, VI32 11)]).
  Proof. vm_compute. reflexivity. Qed.
  Example rt_out_thm : run_mod E1' 8 0 2 [VI32 4; VI32 0] s1 = run_mod E1 8 0 2 [VI32 4; VI32 0] s1.
  Proof. apply rt_equiv. Qed.
  (* the frames matter: declare the surviving local of `fact` as an i64 and the output module goes wrong *)
  Definition m1_bad : cmod :=
    {| cm_tys := cm_tys m1';
       cm_funcs := [ (0, [], out_body cx1 (ecx1 1) mul1); (0, [], out_body cx1 (ecx1 2) apply1); (1, [VT_I64], out_body cx1 (ecx1 0) fact1) ];
       cm_table := cm_table m1' |}.
  Example frames_needed :
    match run_mod (env_of m1_bad lslot1' rfi (fun i => i - 1) idN idN) 8 0 2 [VI32 4; VI32 0] s1 with Some (Stop Wrong _) => true | _ => false end = true.
  Proof. vm_compute. reflexivity. Qed.
  (* the renumbering matters: the output module on the identity slot maps does something else *)
  Example rt_out_unrenumbered :
    run_mod (env_of m1' (fun _ => idN) idN idN idN idN) 8 0 2 [VI32 4; VI32 0] s1 <> run_mod E1 8 0 2 [VI32 4; VI32 0] s1.
  Proof. vm_compute. discriminate. Qed.
End RT.

Print Assumptions run_body_frames.
Print Assumptions mod_sem_renamed.
Print Assumptions mod_roundtrip_equiv.
Print Assumptions frames_check_ok.
Print Assumptions mod_roundtrip_equiv_cmod.
Print Assumptions mod_roundtrip_equiv_locals.
Print Assumptions RT.rt_equiv.
