(* Part 1 (C14): the DWARF switch and the 2^3 combinations of the switches (names, producers, dwarf).
   Part 2 (C06): what GC keeps it keeps unchanged. *)
From Coq Require Import List NArith ZArith Bool Lia Arith.
Import ListNotations.
From WV Require Import Gen.Ops Model.Common Model.IR Model.Arena Model.Traversal Model.EmitFn Model.Locals
                       Model.ModuleM Model.ParseM Model.EmitM Model.GC.
From WV Require Import Proofs.CustomsCfg Proofs.Totality.
From WV Require Proofs.GC.
Module G := WV.Proofs.GC.
Local Open Scope nat_scope.

(* ====================================================================================== *)
(* Part 1                                                                                   *)
(* ====================================================================================== *)

(* the part of the stream that precedes the DWARF sections: front ; names ; producers *)
Definition emit_pre (m : wir) (ilen : wins -> N) : res (list wsec * x2i * list emitted_fn) :=
  rbind (emit_front m ilen) (fun f =>
    let '(front, x, efs) := f in
    rbind (sec_names (m_config m) m x efs) (fun s_nm =>
      Ok (front ++ s_nm ++ sec_producers (m_config m) (m_producers m), x, efs))).

Definition emit_post (m : wir) (dw : list wsec) (f : list wsec * x2i * list emitted_fn) : res emitted :=
  let '(pre, x, efs) := f in
  Ok {| em_secs := pre ++ sec_dwarf (m_config m) dw ++ sec_customs (m_customs m);
        em_module := m; em_x2i := x; em_fns := efs |}.

(* the exact place of [dw]: after the producers section, before the raw custom sections *)
Theorem emitM_shape m ilen dw : emitM m ilen dw = rbind (emit_pre m ilen) (emit_post m dw).
Proof.
  rewrite emitM_factor. change (set_customs_take m) with m. unfold emit_pre.
  destruct (emit_front m ilen) as [[[front x] efs]| |]; cbn [rbind]; try reflexivity.
  unfold emit_tail. destruct (sec_names (m_config m) m x efs) as [s_nm| |]; cbn [rbind]; try reflexivity.
  unfold emit_post. rewrite <- !app_assoc. reflexivity.
Qed.

(* a. *)
Theorem dwarf_switch_off m ilen dw :
  cf_generate_dwarf (m_config m) = false -> emitM m ilen dw = emitM m ilen [].
Proof.
  intros H. rewrite !emitM_shape. destruct (emit_pre m ilen) as [[[pre x] efs]| |]; cbn [rbind]; try reflexivity.
  unfold emit_post, sec_dwarf. rewrite H. reflexivity.
Qed.

(* a DWARF section as the model sees one: the [CS_Debug] payload, or a raw custom section whose
   name starts with ".debug" *)
Definition is_debug_sec (s : wsec) : bool :=
  match s with
  | S_Custom (CS_Debug _ _) => true
  | S_Custom (CS_Raw n _) => starts_with_debug n
  | _ => false
  end.

Lemma plain_not_debug l : plain_secs l -> forall s, In s l -> is_debug_sec s = false.
Proof.
  intros Hl s Hs. unfold plain_secs in Hl. rewrite Forall_forall in Hl. specialize (Hl s Hs).
  destruct s; try reflexivity. discriminate.
Qed.
Lemma sec_names_not_debug cf m0 x efs l : sec_names cf m0 x efs = Ok l -> forall s, In s l -> is_debug_sec s = false.
Proof.
  unfold sec_names. destruct (cf_skip_name cf).
  - intros [= <-] s [].
  - intros H. apply emit_names_shape in H. destruct H as [->|[n ->]]; intros s Hs; [destruct Hs|].
    destruct Hs as [<-|[]]. reflexivity.
Qed.
Lemma sec_producers_not_debug cf p : forall s, In s (sec_producers cf p) -> is_debug_sec s = false.
Proof.
  unfold sec_producers. destruct (cf_skip_producers cf); [intros s []|]. destruct p; [intros s []|].
  intros s [<-|[]]. reflexivity.
Qed.
Lemma sec_customs_not_debug cs : forall s, In s (sec_customs cs) -> is_debug_sec s = false.
Proof.
  intros s Hs. unfold sec_customs in Hs. apply in_flat_map in Hs. destruct Hs as ([c|] & _ & Hc); [|destruct Hc].
  destruct (starts_with_debug (cu_name c)) eqn:E; [destruct Hc|]. destruct Hc as [<-|[]]. exact E.
Qed.
(* the raw customs of the output are those of [m_customs], minus the ".debug*" ones *)
Lemma sec_customs_from cs : forall s, In s (sec_customs cs) ->
  exists c, In (Some c) cs /\ s = S_Custom (CS_Raw (cu_name c) (cu_data c)) /\ starts_with_debug (cu_name c) = false.
Proof.
  intros s Hs. unfold sec_customs in Hs. apply in_flat_map in Hs. destruct Hs as ([c|] & Hin & Hc); [|destruct Hc].
  destruct (starts_with_debug (cu_name c)) eqn:E; [destruct Hc|]. destruct Hc as [<-|[]]. exists c. auto.
Qed.

Lemma emit_pre_not_debug m ilen pre x efs : emit_pre m ilen = Ok (pre, x, efs) ->
  forall s, In s pre -> is_debug_sec s = false.
Proof.
  unfold emit_pre. destruct (emit_front m ilen) as [[[front x0] efs0]| |] eqn:Ef; cbn [rbind]; try discriminate.
  destruct (sec_names (m_config m) m x0 efs0) as [s_nm| |] eqn:En; cbn [rbind]; try discriminate.
  intros [= <- _ _] s Hs. apply in_app_or in Hs. destruct Hs as [Hs|Hs].
  - eapply plain_not_debug; [eapply emit_front_plain; exact Ef|exact Hs].
  - apply in_app_or in Hs. destruct Hs as [Hs|Hs].
    + eapply sec_names_not_debug; eauto.
    + eapply sec_producers_not_debug; eauto.
Qed.

(* whatever the module and the switches: a DWARF-looking section of the output is one of [dw],
   and the switch is on.  (Even a ".debug*" entry of [m_customs] is not written.) *)
Theorem emit_debug_only_from_dw m ilen dw e : emitM m ilen dw = Ok e ->
  forall s, In s (em_secs e) -> is_debug_sec s = true -> cf_generate_dwarf (m_config m) = true /\ In s dw.
Proof.
  rewrite emitM_shape. destruct (emit_pre m ilen) as [[[pre x] efs]| |] eqn:Ep; cbn [rbind]; try discriminate.
  unfold emit_post. intros [= <-] s Hs Hd. cbn [em_secs] in Hs.
  apply in_app_or in Hs. destruct Hs as [Hs|Hs].
  { rewrite (emit_pre_not_debug _ _ _ _ _ Ep s Hs) in Hd. discriminate. }
  apply in_app_or in Hs. destruct Hs as [Hs|Hs].
  - unfold sec_dwarf in Hs. destruct (cf_generate_dwarf (m_config m)); [auto|destruct Hs].
  - rewrite (sec_customs_not_debug _ s Hs) in Hd. discriminate.
Qed.

Theorem dwarf_off_no_debug m ilen dw e :
  cf_generate_dwarf (m_config m) = false -> emitM m ilen dw = Ok e ->
  forall s, In s (em_secs e) -> is_debug_sec s = false.
Proof.
  intros Hoff He s Hs. destruct (is_debug_sec s) eqn:E; [|reflexivity].
  destruct (emit_debug_only_from_dw _ _ _ _ He s Hs E) as [Hon _]. congruence.
Qed.

(* --- the parser and ".debug*" *)
Lemma customs_of_In m c : In (Some c) (m_customs m) -> In (cu_name c, cu_data c) (customs_of m).
Proof. intros H. unfold customs_of. apply in_flat_map. exists (Some c). split; [exact H|left; reflexivity]. Qed.
Lemma raw_customs_In w n d : In (n, d) (raw_customs w) -> In (S_Custom (CS_Raw n d)) w.
Proof.
  unfold raw_customs. intros H. apply in_flat_map in H. destruct H as (s & Hs & H).
  destruct s; try (exfalso; exact H).
  match goal with c : wcsec |- _ => destruct c; try (exfalso; exact H) end.
  destruct H as [[= <- <-]|[]]. exact Hs.
Qed.

(* the classification of custom sections into [CS_Raw] / [CS_Debug] is done by the (unmodelled)
   decoder; [parse_custom] trusts it.  With a classified input, nothing ".debug*" is kept raw. *)
Definition classified (w : list wsec) : Prop :=
  forall n d, In (S_Custom (CS_Raw n d)) w -> starts_with_debug n = false.

Theorem parse_never_keeps_debug_raw_partial cf ver w s :
  classified w -> parseM cf ver w = POk s ->
  forall c, In (Some c) (m_customs (ps_m s)) -> starts_with_debug (cu_name c) = false.
Proof.
  intros Hw Hp c Hc. apply customs_of_In in Hc. rewrite (parse_customs _ _ _ _ Hp) in Hc.
  apply raw_customs_In in Hc. exact (Hw _ _ Hc).
Qed.

(* without the premise the statement is false of the model *)
Definition dbg_name : str := [46; 100; 101; 98; 117; 103; 95; 120]%N.      (* ".debug_x" *)
Theorem parse_never_keeps_debug_raw_refuted :
  exists cf ver w s c, parseM cf ver w = POk s /\ In (Some c) (m_customs (ps_m s)) /\ starts_with_debug (cu_name c) = true.
Proof.
  exists default_config, [], [S_Custom (CS_Raw dbg_name [])].
  eexists. exists {| cu_name := dbg_name; cu_data := []; cu_roots := [] |}.
  split; [vm_compute; reflexivity|]. split; [left; reflexivity|reflexivity].
Qed.

(* ... but what such an entry does to the output is nothing: it is dropped by the emitter
   (see [emit_debug_only_from_dw]); in the other direction the DWARF payloads go to [m_debug] *)
Theorem parse_debug_payload_not_kept s n d : m_customs (ps_m (parse_custom s (CS_Debug n d))) = m_customs (ps_m s).
Proof. reflexivity. Qed.

(* b. *)
Theorem dwarf_switch_on m ilen dw :
  cf_generate_dwarf (m_config m) = true ->
  (forall e0, emitM m ilen [] = Ok e0 ->
     exists pre, em_secs e0 = pre ++ sec_customs (m_customs m) /\
                 emitM m ilen dw = Ok {| em_secs := pre ++ dw ++ sec_customs (m_customs m);
                                         em_module := em_module e0; em_x2i := em_x2i e0; em_fns := em_fns e0 |}) /\
  (forall e, emitM m ilen dw = Ok e -> exists e0, emitM m ilen [] = Ok e0).
Proof.
  intros Hon. rewrite !emitM_shape. destruct (emit_pre m ilen) as [[[pre x] efs]| |]; cbn [rbind]; split; try discriminate.
  - unfold emit_post, sec_dwarf. rewrite Hon. intros e0 [= <-]. exists pre. cbn [em_secs em_module em_x2i em_fns app]. auto.
  - intros e _. eexists. reflexivity.
Qed.

(* c. the three switches *)
Definition set_switches (m : wir) (skip_name skip_producers generate_dwarf : bool) : wir :=
  set_config m {| cf_generate_dwarf := generate_dwarf; cf_synthetic_names := cf_synthetic_names (m_config m);
                  cf_only_stable := cf_only_stable (m_config m); cf_skip_producers := skip_producers;
                  cf_skip_name := skip_name; cf_preserve_code_transform := cf_preserve_code_transform (m_config m) |}.

Lemma set_skip_name_is m b :
  set_skip_name m b = set_switches m b (cf_skip_producers (m_config m)) (cf_generate_dwarf (m_config m)).
Proof. reflexivity. Qed.
Lemma set_skip_producers_is m b :
  set_skip_producers m b = set_switches m (cf_skip_name (m_config m)) b (cf_generate_dwarf (m_config m)).
Proof. reflexivity. Qed.
Lemma set_switches_id m :
  set_switches m (cf_skip_name (m_config m)) (cf_skip_producers (m_config m)) (cf_generate_dwarf (m_config m)) = m.
Proof. destruct m as [? ? ? ? ? ? ? ? ? ? ? ? ? ? ? [? ? ? ? ? ?] ?]. reflexivity. Qed.
(* the switches are independent record fields: setting them in any order is the same *)
Lemma set_switches_twice m a b c a' b' c' : set_switches (set_switches m a b c) a' b' c' = set_switches m a' b' c'.
Proof. reflexivity. Qed.

Definition producers_sec (m : wir) : list wsec :=
  match m_producers m with [] => [] | p => [S_Custom (CS_Producers (Some p))] end.

Lemma sec_producers_eq cf p :
  sec_producers cf p = if cf_skip_producers cf then [] else match p with [] => [] | _ => [S_Custom (CS_Producers (Some p))] end.
Proof. unfold sec_producers. destruct (cf_skip_producers cf); [reflexivity|]. destruct p; reflexivity. Qed.

(* the output as a function of the three flags, the other fields of the module being fixed *)
Theorem switches_emitM m ilen dw sn sp gd :
  emitM (set_switches m sn sp gd) ilen dw =
  rbind (emit_front m ilen) (fun f =>
    let '(front, x, efs) := f in
    rbind (if sn then Ok [] else emit_names m x efs) (fun s_nm =>
      Ok {| em_secs := front ++ s_nm ++ (if sp then [] else producers_sec m) ++ (if gd then dw else []) ++ sec_customs (m_customs m);
            em_module := set_switches m sn sp gd; em_x2i := x; em_fns := efs |})).
Proof.
  rewrite emitM_factor. change (set_customs_take (set_switches m sn sp gd)) with (set_switches m sn sp gd).
  unfold set_switches at 1. rewrite (emit_front_core _ _ (same_core_set_config m _)).
  destruct (emit_front m ilen) as [[[front x] efs]| |]; cbn [rbind]; try reflexivity.
  unfold emit_tail, sec_names. cbn [m_config set_switches set_config cf_skip_name].
  assert (En : emit_names (set_switches m sn sp gd) x efs = emit_names m x efs).
  { apply emit_names_core. apply same_core_set_config. }
  rewrite En. destruct sn.
  - cbn [rbind]. rewrite sec_producers_eq. unfold sec_dwarf, producers_sec.
    cbn [cf_skip_producers cf_generate_dwarf m_producers set_switches set_config m_customs]. destruct (m_producers m); reflexivity.
  - destruct (emit_names m x efs) as [s_nm| |]; cbn [rbind]; try reflexivity.
    rewrite sec_producers_eq. unfold sec_dwarf, producers_sec.
    cbn [cf_skip_producers cf_generate_dwarf m_producers set_switches set_config m_customs]. destruct (m_producers m); reflexivity.
Qed.

(* all 8 combinations at once, from the all-on run (names and producers written, DWARF generated) *)
Theorem switches_factor m ilen dw e :
  emitM (set_switches m false false true) ilen dw = Ok e ->
  exists front nm pr cu,
    em_secs e = front ++ nm ++ pr ++ dw ++ cu /\
    plain_secs front /\
    (nm = [] \/ exists n, nm = [S_Custom (CS_Name (Some n))]) /\
    pr = producers_sec m /\ cu = sec_customs (m_customs m) /\
    forall sn sp gd, exists e',
      emitM (set_switches m sn sp gd) ilen dw = Ok e' /\
      em_secs e' = front ++ (if sn then [] else nm) ++ (if sp then [] else pr) ++ (if gd then dw else []) ++ cu /\
      em_x2i e' = em_x2i e /\ em_fns e' = em_fns e /\ em_module e' = set_switches m sn sp gd.
Proof.
  rewrite switches_emitM.
  destruct (emit_front m ilen) as [[[front x] efs]| |] eqn:Ef; cbn [rbind]; try discriminate.
  destruct (emit_names m x efs) as [nm| |] eqn:En; cbn [rbind]; try discriminate.
  intros [= <-]. exists front, nm, (producers_sec m), (sec_customs (m_customs m)). cbn [em_secs em_x2i em_fns].
  split; [reflexivity|]. split; [eapply emit_front_plain; exact Ef|]. split; [eapply emit_names_shape; exact En|].
  split; [reflexivity|]. split; [reflexivity|].
  intros sn sp gd. rewrite switches_emitM, Ef. cbn [rbind]. destruct sn; [|rewrite En]; cbn [rbind];
    eexists; (split; [reflexivity|]); cbn [em_secs em_x2i em_fns em_module]; repeat split; reflexivity.
Qed.

(* the converse on failures: a run that writes the name section succeeds only if the all-on run does;
   a run that skips it may succeed where the all-on run panics inside emit_names *)
Theorem switches_success m ilen dw sp gd e :
  emitM (set_switches m false sp gd) ilen dw = Ok e -> exists e', emitM (set_switches m false false true) ilen dw = Ok e'.
Proof.
  rewrite !switches_emitM. destruct (emit_front m ilen) as [[[front x] efs]| |]; cbn [rbind]; try discriminate.
  destruct (emit_names m x efs) as [nm| |]; cbn [rbind]; try discriminate. intros _. eexists. reflexivity.
Qed.

(* ====================================================================================== *)
(* Part 2 (C06)                                                                             *)
(* ====================================================================================== *)

(* --- types: deletion only removes *)
Lemma ty_fold_back keep (L : list (nat * mtype)) : forall s0 s',
  fold_left (ty_step keep) L (Ok s0) = Ok s' ->
  forall id t, aset_index s' id = Some t -> aset_index s0 id = Some t.
Proof.
  induction L as [|p L IH]; intros s0 s' H id t Hi; cbn [fold_left] in H.
  - inversion H; subst. exact Hi.
  - unfold ty_step at 2 in H. cbn [rbind] in H.
    destruct (existsb (N.eqb (N.of_nat (fst p))) keep) eqn:K; [eapply IH; eauto|].
    destruct (aset_remove (fun x => x) mtype_eqb s0 (fst p)) as [s1|] eqn:D; cbn [of_opt] in H.
    + specialize (IH _ _ H id t Hi). unfold aset_remove in D. destruct (index (arena s0) (fst p)); [|discriminate].
      destruct (delete (fun x => x) (arena s0) (fst p)) as [a1|] eqn:D1; [|discriminate]. inversion D; subst.
      unfold aset_index in *. cbn [arena] in IH. rewrite (delete_index _ _ _ id D1) in IH.
      destruct (Nat.eqb id (fst p)); [discriminate|exact IH].
    + exfalso. revert H. apply ty_fold_notok. discriminate.
Qed.
Lemma types_delete_unused_back s s' keep : types_delete_unused s keep = Ok s' ->
  forall id t, aset_index s' id = Some t -> aset_index s id = Some t.
Proof. intros H. exact (ty_fold_back keep _ _ _ H). Qed.

Lemma gc_types_back m m' : gc_sweep m = Ok m' -> forall id t, types_get m' id = Some t -> types_get m id = Some t.
Proof.
  intros H id t. destruct (gc_shape m m' H) as [u [Hu _]].
  destruct (G.gc_fields m m' u H Hu) as (_ & _ & _ & _ & _ & _ & Ety).
  unfold types_get. apply (types_delete_unused_back _ _ _ Ety).
Qed.

(* d. nothing is altered, only removed: the seven arenas, the type set, and the locals (untouched) *)
Theorem gc_kept_unchanged m m' : gc_sweep m = Ok m' ->
  (forall id v, aget (m_funcs m') id = Some v -> aget (m_funcs m) id = Some v) /\
  (forall id v, aget (m_tables m') id = Some v -> aget (m_tables m) id = Some v) /\
  (forall id v, aget (m_globals m') id = Some v -> aget (m_globals m) id = Some v) /\
  (forall id v, aget (m_memories m') id = Some v -> aget (m_memories m) id = Some v) /\
  (forall id v, aget (m_data m') id = Some v -> aget (m_data m) id = Some v) /\
  (forall id v, aget (m_elements m') id = Some v -> aget (m_elements m) id = Some v) /\
  (forall id v, aget (m_imports m') id = Some v -> aget (m_imports m) id = Some v) /\
  (forall id t, types_get m' id = Some t -> types_get m id = Some t) /\
  m_locals m' = m_locals m.
Proof.
  intros H. destruct (gc_shape m m' H) as [u [Hu R]].
  split; [intros id v Hv; apply (gr_funcs _ _ _ R) in Hv; tauto|].
  split; [intros id v Hv; apply (gr_tables _ _ _ R) in Hv; tauto|].
  split; [intros id v Hv; apply (gr_globals _ _ _ R) in Hv; tauto|].
  split; [intros id v Hv; apply (gr_memories _ _ _ R) in Hv; tauto|].
  split; [intros id v Hv; apply (gr_data _ _ _ R) in Hv; tauto|].
  split; [intros id v Hv; apply (gr_elements _ _ _ R) in Hv; tauto|].
  split; [intros id v Hv; apply (gr_imports _ _ _ R) in Hv; tauto|].
  split; [exact (gc_types_back m m' H)|]. apply (G.gc_preserves m m' H).
Qed.

(* --- an entity looks the same in both modules *)
Definition same_at (m m' : wir) (x : ent) : Prop :=
  match fst x with
  | S_func => aget (m_funcs m') (snd x) = aget (m_funcs m) (snd x)
  | S_table => aget (m_tables m') (snd x) = aget (m_tables m) (snd x)
  | S_memory => aget (m_memories m') (snd x) = aget (m_memories m) (snd x)
  | S_global => aget (m_globals m') (snd x) = aget (m_globals m) (snd x)
  | S_data => aget (m_data m') (snd x) = aget (m_data m) (snd x)
  | S_elem => aget (m_elements m') (snd x) = aget (m_elements m) (snd x)
  | S_type => types_get m' (snd x) = types_get m (snd x)
  | S_local => aget (m_locals m') (snd x) = aget (m_locals m) (snd x)
  end.

Lemma rel_same {A} (a a' : tarena A) (P : Prop) id :
  (forall v, aget a' id = Some v <-> aget a id = Some v /\ P) -> P -> aget a' id = aget a id.
Proof.
  intros R HP. destruct (aget a' id) as [w|] eqn:E'.
  - destruct (proj1 (R w) eq_refl) as [E _]. symmetry. exact E.
  - destruct (aget a id) as [v|] eqn:E; [|reflexivity]. exfalso. assert (X : @None A = Some v) by (apply R; auto). discriminate X.
Qed.

Lemma gc_same_at m m' u : gc_sweep m = Ok m' -> gc_rel m m' u -> forall x, In x u -> same_at m m' x.
Proof.
  intros H R [s id] Hx. unfold same_at. cbn [fst snd]. destruct s.
  - exact (rel_same _ _ _ id (gr_funcs _ _ _ R id) Hx).
  - destruct (types_get m id) as [t|] eqn:E.
    + exact (gr_types _ _ _ R id t E Hx).
    + destruct (types_get m' id) as [t|] eqn:E'; [|reflexivity]. apply (gc_types_back m m' H) in E'. congruence.
  - exact (rel_same _ _ _ id (gr_tables _ _ _ R id) Hx).
  - exact (rel_same _ _ _ id (gr_memories _ _ _ R id) Hx).
  - exact (rel_same _ _ _ id (gr_globals _ _ _ R id) Hx).
  - exact (rel_same _ _ _ id (gr_data _ _ _ R id) Hx).
  - exact (rel_same _ _ _ id (gr_elements _ _ _ R id) Hx).
  - f_equal. apply (G.gc_preserves m m' H).
Qed.

(* what an entity refers to is read off its own value only *)
Lemma same_at_succ m m' x : same_at m m' x -> succ m' x = succ m x.
Proof.
  destruct x as [s id]. unfold same_at, succ. cbn [fst snd]. destruct s; intros E; try rewrite E; reflexivity.
Qed.

(* --- the used set: worklist result [U], closed under [succ]; [u] is [U] or [U] plus the first memory *)
Lemma succ_type m x : fst x = S_type -> succ m x = Ok [].
Proof. destruct x as [s id]. cbn [fst]. intros ->. reflexivity. Qed.

Lemma used_core m u : used m = Ok u ->
  exists rs U, roots m = Ok rs /\ incl rs U /\ incl U u /\
    (forall x, In x u -> fst x <> S_memory -> In x U) /\
    (u = U \/ exists mid v rest, aiter (m_memories m) = (mid, v) :: rest /\ used_of U S_memory = [] /\
                                 used_of U S_data <> [] /\ u = (S_memory, mid) :: U) /\
    (forall x, In x U -> exists ys, succ m x = Ok ys /\ incl ys U).
Proof.
  intros Hu. destruct (G.used_inv m u Hu) as (rs & U & Hr & Hw & Hcase).
  destruct (wl_closed m rs _ U Hw) as [I1 I2]. exists rs, U. split; [exact Hr|]. split; [exact I1|].
  assert (Hcl : forall x, In x U -> exists ys, succ m x = Ok ys /\ incl ys U).
  { intros x Hx. destruct (G.is_type x) eqn:Ht; [|apply I2; assumption].
    exists []. split; [|intros y []]. apply succ_type. unfold G.is_type in Ht. destruct (fst x); try discriminate; reflexivity. }
  split; [|split; [|split; [exact Hcase|exact Hcl]]].
  - destruct Hcase as [->|(mid & v & rest & _ & _ & _ & ->)]; [apply incl_refl|apply incl_tl, incl_refl].
  - destruct Hcase as [->|(mid & v & rest & _ & _ & _ & ->)]; [auto|]. intros x [<-|Hx] Hm; [cbn in Hm; congruence|exact Hx].
Qed.

(* e. the reachable part is identical before and after: a kept entity refers to the same entities in
   both modules, they are kept, and they look the same in both modules.
   [U] is the set reached from the roots; [u] (what gc_sweep keeps) may have one more element. *)
Theorem gc_reachable_closed_submodule m m' : gc_sweep m = Ok m' ->
  exists u U, used m = Ok u /\ incl U u /\ (forall x, In x u -> fst x <> S_memory -> In x U) /\
    (forall x, In x u -> same_at m m' x) /\
    forall x, In x U -> exists ys, succ m x = Ok ys /\ succ m' x = Ok ys /\
                                   forall y, In y ys -> In y U /\ In y u /\ same_at m m' y.
Proof.
  intros H. destruct (gc_shape m m' H) as [u [Hu R]].
  destruct (used_core m u Hu) as (rs & U & _ & _ & HUu & Hnm & _ & Hcl).
  exists u, U. split; [exact Hu|]. split; [exact HUu|]. split; [exact Hnm|].
  split; [exact (gc_same_at m m' u H R)|].
  intros x Hx. destruct (Hcl x Hx) as [ys [Hys Hin]]. exists ys. split; [exact Hys|].
  split; [rewrite (same_at_succ m m' x (gc_same_at m m' u H R x (HUu x Hx))); exact Hys|].
  intros y Hy. split; [exact (Hin y Hy)|]. split; [exact (HUu y (Hin y Hy))|].
  exact (gc_same_at m m' u H R y (HUu y (Hin y Hy))).
Qed.

(* the statement over [u] alone, as asked, holds for everything but memories ... *)
Theorem gc_reachable_closed_submodule_partial m m' u x ys :
  gc_sweep m = Ok m' -> used m = Ok u -> In x u -> fst x <> S_memory -> succ m x = Ok ys ->
  succ m' x = Ok ys /\ forall y, In y ys -> In y u /\ same_at m m' y.
Proof.
  intros H Hu Hx Hm Hys. destruct (gc_reachable_closed_submodule m m' H) as (u' & U & Hu' & HUu & Hnm & _ & Hcl).
  rewrite Hu in Hu'. injection Hu' as <-. destruct (Hcl x (Hnm x Hx Hm)) as (ys' & E & E' & Hall).
  rewrite Hys in E. injection E as <-. split; [exact E'|]. intros y Hy. destruct (Hall y Hy) as (_ & A & B). auto.
Qed.

(* ... and for memories too when the segment lists of the memories name active data segments only
   (what Module::parse and the data-segment API maintain): active segments are roots *)
Definition segs_active (m : wir) : Prop :=
  forall mid me d, aget (m_memories m) mid = Some me -> In d (me_segs me) ->
    exists dd mem off, aget (m_data m) d = Some dd /\ da_kind dd = DK_Active mem off.

Lemma roots_inv m rs : roots m = Ok rs ->
  exists elems,
    rs = map (fun p => (kind_space (ex_kind (snd p)), ex_item (snd p))) (aiter (m_exports m)) ++
         (match m_start m with Some f => [(S_func, f)] | None => [] end) ++
         flat_map (fun p => match da_kind (snd p) with DK_Active _ _ => [(S_data, fst p)] | _ => [] end) (aiter (m_data m)) ++
         elems.
Proof.
  unfold roots. match goal with |- rbind ?A _ = _ -> _ => destruct A as [elems| |]; cbn [rbind]; try discriminate end.
  intros [= <-]. eexists. reflexivity.
Qed.

Lemma roots_active_data m rs d dd mem off : roots m = Ok rs ->
  aget (m_data m) d = Some dd -> da_kind dd = DK_Active mem off -> In (S_data, d) rs.
Proof.
  intros Hr Hd Hk. destruct (roots_inv m rs Hr) as [elems ->].
  apply in_or_app. right. apply in_or_app. right. apply in_or_app. left.
  apply in_flat_map. exists (d, dd). split; [apply aiter_aget; exact Hd|]. cbn [fst snd]. rewrite Hk. left. reflexivity.
Qed.

Theorem gc_reachable_closed_submodule_segs m m' u x ys :
  segs_active m -> gc_sweep m = Ok m' -> used m = Ok u -> In x u -> succ m x = Ok ys ->
  succ m' x = Ok ys /\ forall y, In y ys -> In y u /\ same_at m m' y.
Proof.
  intros SA H Hu Hx Hys.
  destruct (gc_shape m m' H) as [u' [Hu' R]]. rewrite Hu in Hu'. injection Hu' as <-.
  split; [rewrite (same_at_succ m m' x (gc_same_at m m' u H R x Hx)); exact Hys|].
  assert (Hin : forall y, In y ys -> In y u); [|intros y Hy; split; [auto|apply (gc_same_at m m' u H R); auto]].
  destruct x as [s id]. destruct s;
    try (intros y Hy; exact (proj1 (proj2 (gc_reachable_closed_submodule_partial m m' u _ ys H Hu Hx ltac:(cbn; discriminate) Hys) y Hy))).
  (* a memory: its successors are its data segments, all active, hence roots *)
  destruct (used_core m u Hu) as (rs & U & Hr & HrsU & HUu & _ & _ & _).
  unfold succ in Hys. cbn [fst snd] in Hys. destruct (aget (m_memories m) id) as [me|] eqn:E; [|discriminate].
  injection Hys as <-. intros y Hy. apply in_map_iff in Hy. destruct Hy as (d & <- & Hd).
  destruct (SA id me d E Hd) as (dd & mem & off & Hdd & Hk).
  apply HUu, HrsU. exact (roots_active_data m rs d dd mem off Hr Hdd Hk).
Qed.

(* the unrestricted statement is false of the model: a passive data segment kept by a custom
   section's roots, no memory otherwise used: the first memory is kept, its (here: ill-formed)
   segment list names a segment that is deleted *)
Definition wit_mem (segs : list N) : mmem :=
  {| me_shared := false; me_64 := false; me_init := 1; me_max := None; me_page := None;
     me_import := None; me_segs := segs; me_name := None |}.
Definition wit_e : wir :=
  {| m_imports := empty; m_tables := empty; m_types := aset_empty; m_funcs := empty;
     m_globals := empty; m_locals := empty; m_exports := empty;
     m_memories := {| items := [wit_mem [1%N]]; dead := [] |};
     m_data := {| items := [{| da_kind := DK_Passive; da_value := []; da_name := None |};
                            {| da_kind := DK_Passive; da_value := []; da_name := None |}]; dead := [] |};
     m_elements := empty;
     m_start := None; m_producers := [];
     m_customs := [Some {| cu_name := []; cu_data := []; cu_roots := [(S_data, 0%N)] |}];
     m_debug := []; m_name := None; m_config := default_config; m_code_section_offset := 0 |}.

Theorem gc_reachable_closed_submodule_refuted :
  exists m m' u x ys y, gc_sweep m = Ok m' /\ used m = Ok u /\ In x u /\ succ m x = Ok ys /\ In y ys /\ ~ In y u /\
                        aget (m_memories m') (snd x) = aget (m_memories m) (snd x) /\
                        aget (m_data m) (snd y) <> None /\ aget (m_data m') (snd y) = None.
Proof.
  exists wit_e. eexists. eexists. exists (S_memory, 0%N). eexists. exists (S_data, 1%N).
  split; [vm_compute; reflexivity|]. split; [vm_compute; reflexivity|].
  split; [left; reflexivity|]. split; [vm_compute; reflexivity|]. split; [left; reflexivity|].
  split; [intros [E|[E|[]]]; discriminate E|]. split; [vm_compute; reflexivity|].
  split; [vm_compute; discriminate|vm_compute; reflexivity].
Qed.

(* a kept function: same record (kind, body arena, arguments, name), its type is kept with the same
   value, and the locals arena is the same *)
Theorem gc_kept_function m m' id f : gc_sweep m = Ok m' -> aget (m_funcs m') id = Some f ->
  aget (m_funcs m) id = Some f /\
  types_get m' (func_ty f) = types_get m (func_ty f) /\
  m_locals m' = m_locals m.
Proof.
  intros H Hf. destruct (gc_shape m m' H) as [u [Hu R]].
  apply (gr_funcs _ _ _ R) in Hf. destruct Hf as [Hf Hin]. split; [exact Hf|]. split; [|apply (G.gc_preserves m m' H)].
  assert (Hs : exists ys, succ m (S_func, id) = Ok ys) by
    (destruct (gc_reachable_closed_submodule m m' H) as (u' & U & Hu' & HUu & Hnm & _ & Hcl);
     rewrite Hu in Hu'; injection Hu' as <-;
     destruct (Hcl _ (Hnm _ Hin ltac:(cbn; discriminate))) as (ys & E & _); eauto).
  destruct Hs as [ys Hys].
  destruct (gc_reachable_closed_submodule_partial m m' u _ ys H Hu Hin ltac:(cbn; discriminate) Hys) as [_ Hall].
  assert (Hty : In (S_type, func_ty f) ys).
  { unfold succ in Hys. cbn [fst snd] in Hys. rewrite Hf in Hys. unfold func_ty. destruct (fn_kind f) as [i ty|lf|ty].
    - injection Hys as <-. left. reflexivity.
    - destruct (lf_log lf); cbn [rmap] in Hys; try discriminate. injection Hys as <-. left. reflexivity.
    - discriminate. }
  exact (proj2 (Hall _ Hty)).
Qed.

(* f. exports and start: same lists, and every target is live, kept, with the same value *)
Definition item_same (m m' : wir) (k : ekind) (id : N) : Prop :=
  match k with
  | EK_Func => exists v, aget (m_funcs m') id = Some v /\ aget (m_funcs m) id = Some v
  | EK_Table => exists v, aget (m_tables m') id = Some v /\ aget (m_tables m) id = Some v
  | EK_Mem => exists v, aget (m_memories m') id = Some v /\ aget (m_memories m) id = Some v
  | EK_Global => exists v, aget (m_globals m') id = Some v /\ aget (m_globals m) id = Some v
  end.

Lemma root_item_same m m' u U k id :
  gc_rel m m' u -> incl U u -> (forall x, In x U -> exists ys, succ m x = Ok ys /\ incl ys U) ->
  In (kind_space k, id) U -> item_same m m' k id.
Proof.
  intros R HUu Hcl Hx. destruct (Hcl _ Hx) as [ys [Hys _]]. apply HUu in Hx.
  unfold succ in Hys. destruct k; cbn [kind_space fst snd] in Hys, Hx; unfold item_same.
  - destruct (aget (m_funcs m) id) as [v|] eqn:E; [|discriminate]. exists v. split; [apply (gr_funcs _ _ _ R); auto|reflexivity].
  - destruct (aget (m_tables m) id) as [v|] eqn:E; [|discriminate]. exists v. split; [apply (gr_tables _ _ _ R); auto|reflexivity].
  - destruct (aget (m_memories m) id) as [v|] eqn:E; [|discriminate]. exists v. split; [apply (gr_memories _ _ _ R); auto|reflexivity].
  - destruct (aget (m_globals m) id) as [v|] eqn:E; [|discriminate]. exists v. split; [apply (gr_globals _ _ _ R); auto|reflexivity].
Qed.

Theorem gc_exports_start_same_targets m m' : gc_sweep m = Ok m' ->
  m_exports m' = m_exports m /\ m_start m' = m_start m /\
  (forall id e, aget (m_exports m') id = Some e -> item_same m m' (ex_kind e) (ex_item e)) /\
  (forall f, m_start m' = Some f -> item_same m m' EK_Func f).
Proof.
  intros H. destruct (gc_shape m m' H) as [u [Hu R]].
  destruct (used_core m u Hu) as (rs & U & Hr & HrsU & HUu & _ & _ & Hcl).
  destruct (roots_inv m rs Hr) as [elems Ers].
  split; [exact (gr_exports _ _ _ R)|]. split; [exact (gr_start _ _ _ R)|]. split.
  - intros id e He. rewrite (gr_exports _ _ _ R) in He. apply aiter_aget in He.
    apply (root_item_same m m' u U _ _ R HUu Hcl). apply HrsU. rewrite Ers. apply in_or_app. left.
    apply in_map_iff. exists (id, e). split; [reflexivity|exact He].
  - intros f Hs. rewrite (gr_start _ _ _ R) in Hs.
    apply (root_item_same m m' u U EK_Func f R HUu Hcl). apply HrsU. rewrite Ers. apply in_or_app. right.
    apply in_or_app. left. rewrite Hs. left. reflexivity.
Qed.

Print Assumptions emitM_shape.
Print Assumptions dwarf_switch_off.
Print Assumptions emit_debug_only_from_dw.
Print Assumptions dwarf_off_no_debug.
Print Assumptions parse_never_keeps_debug_raw_partial.
Print Assumptions parse_never_keeps_debug_raw_refuted.
Print Assumptions dwarf_switch_on.
Print Assumptions switches_emitM.
Print Assumptions switches_factor.
Print Assumptions switches_success.
Print Assumptions gc_kept_unchanged.
Print Assumptions gc_kept_function.
Print Assumptions gc_reachable_closed_submodule.
Print Assumptions gc_reachable_closed_submodule_partial.
Print Assumptions gc_reachable_closed_submodule_segs.
Print Assumptions gc_reachable_closed_submodule_refuted.
Print Assumptions gc_exports_start_same_targets.
