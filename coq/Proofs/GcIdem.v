(* C07: running the GC pass a second time changes nothing - at MODULE level.
   Part 1: the sweep.  [gc_sweep m = Ok m1 -> gc_sweep m1 = Ok m1], with NO premise on m:
           the used-analysis of m1 is, as a LIST, the used-analysis of m (same roots in the same order, same
           successors of every kept entity, same fuel since tombstoning keeps the arena lengths, same
           "first memory" residue), and a sweep that finds every live id in its keep-list returns the arena itself. *)
From Coq Require Import List NArith ZArith Bool Arith Lia Permutation Sorted.
Import ListNotations.
From WV Require Import Gen.Ops Model.Common Model.IR Model.Arena Model.Traversal Model.EmitFn Model.Locals
                       Model.ParseFn Model.ModuleM Model.ParseM Model.EmitM Model.GC.
From WV Require Import Proofs.Arena Proofs.Order Proofs.IndexMaps Proofs.Totality Proofs.Switches Proofs.GcDeclare.
From WV Require Proofs.GC.
Local Open Scope nat_scope.

(* ====================================================================================== *)
(* 1. Arenas: a sweep leaves the items alone, adds tombstones, and its iteration is the     *)
(*    filtered iteration; a sweep that keeps every live id is the identity                  *)
(* ====================================================================================== *)
Lemma aupd_id {A} (l : list A) : forall n, Model.Arena.upd l n (fun x => x) = l.
Proof. induction l as [|x r IH]; intros [|n]; cbn; [reflexivity|reflexivity|reflexivity|now rewrite IH]. Qed.

Lemma del_fold_items {A} keep (L : list (N * A)) : forall a0 a', fold_left (G.del_step keep) L (Ok a0) = Ok a' ->
  items a' = items a0 /\ forall k, existsb (Nat.eqb k) (dead a0) = true -> existsb (Nat.eqb k) (dead a') = true.
Proof.
  induction L as [|p L IH]; intros a0 a' H; cbn [fold_left] in H.
  - injection H as <-. split; [reflexivity|auto].
  - unfold G.del_step at 2 in H. cbn [rbind] in H.
    destruct (existsb (N.eqb (fst p)) keep); [apply IH; assumption|].
    unfold adelete in H. destruct (delete (fun x => x) a0 (N.to_nat (fst p))) as [a1|] eqn:D; cbn [of_opt] in H.
    + destruct (IH _ _ H) as [I1 I2]. unfold delete in D. destruct (contains a0 (N.to_nat (fst p))); [|discriminate].
      injection D as <-. cbn [items dead] in *. split; [rewrite I1; apply aupd_id|].
      intros k Hk. apply I2. cbn [existsb]. rewrite Hk. apply orb_true_r.
    + exfalso. revert H. apply G.del_fold_notok. discriminate.
Qed.

Lemma iter_from_filter {A} (l : list A) (d d' : list nat) :
  (forall k, existsb (Nat.eqb k) d = true -> existsb (Nat.eqb k) d' = true) ->
  forall n, iter_from n l d' = filter (fun p => negb (existsb (Nat.eqb (fst p)) d')) (iter_from n l d).
Proof.
  intros Hd. induction l as [|x r IH]; intros n; cbn [iter_from]; [reflexivity|].
  destruct (existsb (Nat.eqb n) d) eqn:E.
  - rewrite (Hd n E). apply IH.
  - cbn [filter fst]. destruct (existsb (Nat.eqb n) d'); cbn [negb]; rewrite IH; reflexivity.
Qed.

Lemma filter_map_comm {A B} (h : A -> B) (K : B -> bool) (l : list A) :
  filter K (map h l) = map h (filter (fun x => K (h x)) l).
Proof. induction l as [|x r IH]; cbn; [reflexivity|]. destruct (K (h x)); cbn; now rewrite IH. Qed.

Lemma bool_iff_eq (a b : bool) : (a = true <-> b = true) -> a = b.
Proof. destruct a, b; intros [H1 H2]; try reflexivity; [symmetry; auto|auto]. Qed.

Theorem delete_unused_aiter {A} (a a' : tarena A) keep : delete_unused a keep = Ok a' ->
  aiter a' = filter (fun p => existsb (N.eqb (fst p)) keep) (aiter a).
Proof.
  intros H. pose proof (G.delete_unused_spec _ _ _ _ H) as Hspec.
  change (fold_left (G.del_step keep) (aiter a) (Ok a) = Ok a') in H.
  destruct (del_fold_items _ _ _ _ H) as [Hi Hd].
  unfold aiter, iter. rewrite Hi, (iter_from_filter (items a) (dead a) (dead a') Hd 0), filter_map_comm.
  f_equal. apply filter_ext_in. intros [id v] Hin. cbn [fst snd].
  apply (G.iter_live' _ a id v) in Hin.
  assert (Hn : nth_error (items a) id = Some v).
  { unfold index, get in Hin. destruct (is_dead a id); [discriminate|exact Hin]. }
  assert (Hc : contains a id = true) by (apply G.contains_index; eauto).
  assert (Hc' : contains a' id = negb (existsb (Nat.eqb id) (dead a'))).
  { unfold contains, is_dead. rewrite Hi, Hn. reflexivity. }
  rewrite <- Hc'. apply bool_iff_eq. specialize (Hspec (N.of_nat id)). rewrite Nat2N.id in Hspec.
  rewrite Hspec. tauto.
Qed.

Lemma del_fold_id {A} keep (L : list (N * A)) a :
  (forall p, In p L -> existsb (N.eqb (fst p)) keep = true) -> fold_left (G.del_step keep) L (Ok a) = Ok a.
Proof.
  induction L as [|p L IH]; intros H; cbn [fold_left]; [reflexivity|].
  unfold G.del_step at 2. cbn [rbind]. rewrite (H p (or_introl eq_refl)). apply IH. intros q Hq. apply H. right. exact Hq.
Qed.

(* a sweep whose keep-list has every live id deletes nothing and returns the arena itself *)
Theorem delete_unused_all_kept {A} (a : tarena A) keep :
  (forall id v, aget a id = Some v -> existsb (N.eqb id) keep = true) -> delete_unused a keep = Ok a.
Proof.
  intros H. change (fold_left (G.del_step keep) (aiter a) (Ok a) = Ok a). apply del_fold_id.
  intros [id v] Hp. cbn [fst]. apply aiter_aget in Hp. eauto.
Qed.

(* sweeping the swept arena with any keep-list that contains the first one *)
Theorem delete_unused_again {A} (a a' : tarena A) keep keep' : delete_unused a keep = Ok a' ->
  (forall id, existsb (N.eqb id) keep = true -> existsb (N.eqb id) keep' = true) -> delete_unused a' keep' = Ok a'.
Proof.
  intros H Hk. apply delete_unused_all_kept. intros id v Hg. apply Hk.
  apply (delete_unused_aget _ _ _ H) in Hg. apply Hg.
Qed.

(* ---- the type set ---- *)
Lemma ty_fold_id keep (L : list (nat * mtype)) s :
  (forall p, In p L -> existsb (N.eqb (N.of_nat (fst p))) keep = true) -> fold_left (ty_step keep) L (Ok s) = Ok s.
Proof.
  induction L as [|p L IH]; intros H; cbn [fold_left]; [reflexivity|].
  unfold ty_step at 2. cbn [rbind]. rewrite (H p (or_introl eq_refl)). apply IH. intros q Hq. apply H. right. exact Hq.
Qed.

Lemma ty_fold_only_kept keep (L : list (nat * mtype)) : forall s0 s',
  fold_left (ty_step keep) L (Ok s0) = Ok s' ->
  forall id t, aset_index s' id = Some t -> forall p, In p L -> fst p = id -> existsb (N.eqb (N.of_nat id)) keep = true.
Proof.
  induction L as [|q L IH]; intros s0 s' H id t Hi p Hp Hid; [destruct Hp|].
  cbn [fold_left] in H. unfold ty_step at 2 in H. cbn [rbind] in H.
  destruct (existsb (N.eqb (N.of_nat (fst q))) keep) eqn:K.
  - destruct Hp as [->|Hp]; [rewrite <- Hid; exact K|eapply IH; eauto].
  - destruct (aset_remove (fun x => x) mtype_eqb s0 (fst q)) as [s1|] eqn:D; cbn [of_opt] in H.
    + destruct Hp as [->|Hp]; [|eapply IH; eauto]. exfalso.
      pose proof (ty_fold_back keep L _ _ H id t Hi) as Hb.
      unfold aset_remove in D. destruct (index (arena s0) (fst p)); [|discriminate].
      destruct (delete (fun x => x) (arena s0) (fst p)) as [a1|] eqn:D1; [|discriminate]. inversion D; subst.
      unfold aset_index in Hb. cbn [arena] in Hb. rewrite (delete_index _ _ _ (fst p) D1), Nat.eqb_refl in Hb. discriminate.
    + exfalso. revert H. apply ty_fold_notok. discriminate.
Qed.

Lemma ty_fold_items keep (L : list (nat * mtype)) : forall s0 s',
  fold_left (ty_step keep) L (Ok s0) = Ok s' -> items (arena s') = items (arena s0).
Proof.
  induction L as [|q L IH]; intros s0 s' H; cbn [fold_left] in H; [injection H as <-; reflexivity|].
  unfold ty_step at 2 in H. cbn [rbind] in H.
  destruct (existsb (N.eqb (N.of_nat (fst q))) keep); [apply IH; assumption|].
  destruct (aset_remove (fun x => x) mtype_eqb s0 (fst q)) as [s1|] eqn:D; cbn [of_opt] in H.
  - rewrite (IH _ _ H). unfold aset_remove in D. destruct (index (arena s0) (fst q)); [|discriminate].
    unfold delete in D. destruct (contains (arena s0) (fst q)); [|discriminate]. injection D as <-.
    cbn [arena items]. apply aupd_id.
  - exfalso. revert H. apply ty_fold_notok. discriminate.
Qed.

Theorem types_delete_unused_again s s' keep keep' : types_delete_unused s keep = Ok s' ->
  (forall id, existsb (N.eqb id) keep = true -> existsb (N.eqb id) keep' = true) -> types_delete_unused s' keep' = Ok s'.
Proof.
  intros H Hk. change (fold_left (ty_step keep') (aset_iter s') (Ok s') = Ok s'). apply ty_fold_id.
  intros [id t] Hp. cbn [fst]. apply Hk.
  assert (Hi : aset_index s' id = Some t) by (apply (G.iter_live' _ (arena s') id t); exact Hp).
  pose proof (types_delete_unused_back _ _ _ H id t Hi) as Hb.
  change (fold_left (ty_step keep) (aset_iter s) (Ok s) = Ok s') in H.
  apply (ty_fold_only_kept keep _ _ _ H id t Hi (id, t)); [|reflexivity].
  apply (G.iter_live' _ (arena s) id t). exact Hb.
Qed.

(* ====================================================================================== *)
(* 2. The worklist run is the same run in a module that agrees on the successors of the     *)
(*    result (no premise on the graph)                                                      *)
(* ====================================================================================== *)
Lemma push_used_mono s y x : In x (u_used s) -> In x (u_used (push s y)).
Proof. unfold push. destruct (mem_ent y (u_used s)); cbn [u_used]; auto. intros Hx. right. exact Hx. Qed.

Lemma fold_push_used_mono ys : forall s x, In x (u_used s) -> In x (u_used (fold_left push ys s)).
Proof. induction ys as [|y ys IH]; intros s x Hx; cbn [fold_left]; [exact Hx|]. apply IH, push_used_mono, Hx. Qed.

Lemma push_stack_sub s y : incl (u_stack s) (u_used s) -> incl (u_stack (push s y)) (u_used (push s y)).
Proof.
  unfold push. intros Hs. destruct (mem_ent y (u_used s)); [exact Hs|]. cbn [u_used u_stack].
  destruct (fst y); intros z Hz; try (right; apply Hs; exact Hz);
    (destruct Hz as [<-|Hz]; [left; reflexivity|right; apply Hs; exact Hz]).
Qed.

Lemma fold_push_stack_sub ys : forall s, incl (u_stack s) (u_used s) ->
  incl (u_stack (fold_left push ys s)) (u_used (fold_left push ys s)).
Proof. induction ys as [|y ys IH]; intros s Hs; cbn [fold_left]; [exact Hs|]. apply IH, push_stack_sub, Hs. Qed.

Lemma wl_used_mono m : forall fuel s U, wl fuel m s = Ok U -> incl (u_used s) U.
Proof.
  induction fuel as [|f IH]; intros s U H; [discriminate H|]. cbn [wl] in H.
  destruct (u_stack s) as [|x rest]; [injection H as <-; apply incl_refl|].
  destruct (succ m x) as [ys| |]; cbn [rbind] in H; try discriminate H.
  intros z Hz. apply (IH _ _ H). apply fold_push_used_mono. exact Hz.
Qed.

Theorem wl_transfer m m' : forall fuel s U, wl fuel m s = Ok U -> incl (u_stack s) (u_used s) ->
  (forall x, In x U -> succ m' x = succ m x) -> wl fuel m' s = Ok U.
Proof.
  induction fuel as [|f IH]; intros s U H Hs Hsucc; [discriminate H|].
  pose proof (wl_used_mono m _ _ _ H) as Hm. cbn [wl] in H |- *.
  destruct (u_stack s) as [|x rest] eqn:Es; [exact H|].
  rewrite (Hsucc x) by (apply Hm, Hs; left; reflexivity).
  destruct (succ m x) as [ys| |]; cbn [rbind] in H |- *; try discriminate H.
  apply IH; [exact H| |exact Hsucc]. apply fold_push_stack_sub. cbn [u_used u_stack].
  intros z Hz. apply Hs. right. exact Hz.
Qed.

(* ====================================================================================== *)
(* 3. The roots of the swept module are the roots of the module, as lists                   *)
(* ====================================================================================== *)
Definition elem_root (m : wir) (p : N * melem) : res (list ent) :=
  match el_kind (snd p) with
  | ELK_Active t _ => match aget (m_tables m) t with
                      | Some tb => Ok (match tb_import tb with Some _ => [(S_elem, fst p)] | None => [] end)
                      | None => Panic end
  | ELK_Declared => Ok [(S_elem, fst p)]
  | ELK_Passive => Ok [] end.
Definition data_root (p : N * mdata) : list ent :=
  match da_kind (snd p) with DK_Active _ _ => [(S_data, fst p)] | _ => [] end.
Definition roots_of (m : wir) (elems : list (list ent)) : list ent :=
  map (fun p => (kind_space (ex_kind (snd p)), ex_item (snd p))) (aiter (m_exports m)) ++
  (match m_start m with Some f => [(S_func, f)] | None => [] end) ++
  flat_map data_root (aiter (m_data m)) ++ concat elems ++
  flat_map (fun c => match c with Some c => cu_roots c | None => [] end) (m_customs m).
Lemma roots_unfold m :
  roots m = rbind (rmapM (elem_root m) (aiter (m_elements m))) (fun elems => Ok (roots_of m elems)).
Proof. reflexivity. Qed.

Lemma rmapM_filter {A B} (f g : A -> res (list B)) (K : A -> bool) : forall l bs,
  rmapM f l = Ok bs ->
  (forall p, In p l -> K p = false -> f p = Ok []) -> (forall p, In p l -> K p = true -> g p = f p) ->
  exists bs', rmapM g (filter K l) = Ok bs' /\ concat bs' = concat bs.
Proof.
  induction l as [|a r IH]; intros bs H H0 H1; cbn [rmapM] in H.
  - injection H as <-. exists []. split; reflexivity.
  - destruct (f a) as [y| |] eqn:Ea; cbn [rbind] in H; try discriminate H.
    destruct (rmapM f r) as [ys| |] eqn:Er; cbn [rbind] in H; try discriminate H. injection H as <-.
    destruct (IH ys eq_refl) as [bs' [E' Ec]].
    + intros p Hp. apply H0. right. exact Hp.
    + intros p Hp. apply H1. right. exact Hp.
    + cbn [filter]. destruct (K a) eqn:Ka.
      * exists (y :: bs'). cbn [rmapM]. rewrite (H1 a (or_introl eq_refl) Ka), Ea, E'. cbn [rbind concat].
        split; [reflexivity|now rewrite Ec].
      * exists bs'. split; [exact E'|]. rewrite (H0 a (or_introl eq_refl) Ka) in Ea. injection Ea as <-.
        cbn [concat app]. exact Ec.
Qed.

Lemma flat_map_filter_nil {A B} (g : A -> list B) (K : A -> bool) (l : list A) :
  (forall p, In p l -> K p = false -> g p = []) -> flat_map g (filter K l) = flat_map g l.
Proof.
  induction l as [|a r IH]; intros H; cbn [filter flat_map]; [reflexivity|].
  destruct (K a) eqn:Ka; cbn [flat_map]; rewrite IH by (intros p Hp; apply H; right; exact Hp); [reflexivity|].
  rewrite (H a (or_introl eq_refl) Ka). reflexivity.
Qed.

Lemma keep_used u s id : existsb (N.eqb id) (used_of u s) = true <-> In (s, id) u.
Proof. rewrite G.used_of_mem. apply G.mem_ent_In. Qed.

Theorem sweep_roots m m1 rs : gc_sweep m = Ok m1 -> roots m = Ok rs -> roots m1 = Ok rs.
Proof.
  intros H Hr0. destruct (gc_shape m m1 H) as [u [Hu R]].
  destruct (used_core m u Hu) as (rs' & U & Hr' & HrsU & HUu & Hnm & _ & Hcl).
  rewrite Hr0 in Hr'. injection Hr' as <-.
  destruct (G.gc_fields m m1 u H Hu) as (_ & _ & _ & _ & Ed & Ee & _).
  destruct (G.gc_preserves m m1 H) as (Pe & Ps & Pc & _).
  pose proof Hr0 as Hr. rewrite roots_unfold in Hr |- *.
  destruct (rmapM (elem_root m) (aiter (m_elements m))) as [elems| |] eqn:Eel; cbn [rbind] in Hr; try discriminate Hr.
  injection Hr as Hrs. rewrite (delete_unused_aiter _ _ _ Ee).
  destruct (rmapM_filter (elem_root m) (elem_root m1) (fun p => existsb (N.eqb (fst p)) (used_of u S_elem))
              (aiter (m_elements m)) elems Eel) as [bs' [E' Ec]].
  - intros [id e] Hp HK. cbn [fst] in HK. pose proof (rmapM_ok_inv _ _ _ Eel) as F2.
    destruct (Forall2_in_l _ _ _ F2 _ Hp) as [b [Hb Hfb]].
    assert (Hc : b = [] \/ In (S_elem, id) b).
    { unfold elem_root in Hfb. cbn [fst snd] in Hfb. destruct (el_kind e) as [| |t off].
      - injection Hfb as <-. left. reflexivity.
      - injection Hfb as <-. right. left. reflexivity.
      - destruct (aget (m_tables m) t) as [tb|]; [|discriminate Hfb]. injection Hfb as <-.
        destruct (tb_import tb); [right; left; reflexivity|left; reflexivity]. }
    destruct Hc as [->|Hin]; [exact Hfb|exfalso].
    assert (Hu' : In (S_elem, id) u).
    { apply HUu, HrsU. rewrite <- Hrs. unfold roots_of. apply in_or_app. right. apply in_or_app. right.
      apply in_or_app. right. apply in_or_app. left. apply in_concat. exists b. split; assumption. }
    apply keep_used in Hu'. congruence.
  - intros [id e] Hp HK. cbn [fst] in HK. unfold elem_root. cbn [fst snd].
    destruct (el_kind e) as [| |t off] eqn:Ek; try reflexivity.
    assert (Hin : In (S_table, t) u).
    { apply keep_used in HK. assert (HU : In (S_elem, id) U) by (apply Hnm; [exact HK|cbn; discriminate]).
      destruct (Hcl _ HU) as [ys [Hys Hsub]]. apply HUu, Hsub.
      unfold succ in Hys. cbn [fst snd] in Hys. apply aiter_aget in Hp. rewrite Hp in Hys. injection Hys as <-.
      apply in_or_app. right. rewrite Ek. apply in_or_app. right. left. reflexivity. }
    pose proof (gc_same_at m m1 u H R (S_table, t) Hin) as Hs. unfold same_at in Hs. cbn [fst snd] in Hs.
    rewrite Hs. reflexivity.
  - rewrite E'. cbn [rbind]. f_equal. rewrite <- Hrs. unfold roots_of.
    rewrite Pe, Ps, Pc, Ec, (delete_unused_aiter _ _ _ Ed). f_equal. f_equal. f_equal.
    apply flat_map_filter_nil. intros [id d] Hp HK. cbn [fst] in HK. unfold data_root. cbn [fst snd].
    destruct (da_kind d) as [|mem off] eqn:Ek; [reflexivity|exfalso].
    apply aiter_aget in Hp. pose proof (roots_active_data m rs id d mem off Hr0 Hp Ek) as Hin.
    apply HrsU, HUu, keep_used in Hin. congruence.
Qed.

(* ====================================================================================== *)
(* 4. Same fuel, same used-analysis                                                         *)
(* ====================================================================================== *)
Lemma delete_unused_items {A} (a a' : tarena A) keep : delete_unused a keep = Ok a' -> items a' = items a.
Proof. intros H. change (fold_left (G.del_step keep) (aiter a) (Ok a) = Ok a') in H. apply (del_fold_items _ _ _ _ H). Qed.

Lemma types_delete_unused_items s s' keep : types_delete_unused s keep = Ok s' -> items (arena s') = items (arena s).
Proof. intros H. exact (ty_fold_items keep _ _ _ H). Qed.

Theorem sweep_n_entities m m1 : gc_sweep m = Ok m1 -> n_entities m1 = n_entities m.
Proof.
  intros H. destruct (gc_shape m m1 H) as [u [Hu _]].
  destruct (G.gc_fields m m1 u H Hu) as (Ef & Et & Eg & Em & Ed & Ee & Ety).
  unfold n_entities.
  rewrite (delete_unused_items _ _ _ Ef), (delete_unused_items _ _ _ Et), (delete_unused_items _ _ _ Eg),
    (delete_unused_items _ _ _ Em), (delete_unused_items _ _ _ Ed), (delete_unused_items _ _ _ Ee),
    (types_delete_unused_items _ _ _ Ety). reflexivity.
Qed.

Lemma init_stack_sub rs :
  incl (u_stack (fold_left push rs {| u_used := []; u_stack := [] |})) (u_used (fold_left push rs {| u_used := []; u_stack := [] |})).
Proof. apply fold_push_stack_sub. cbn. intros z []. Qed.

(* the used-analysis of the swept module is, as a list, the used-analysis of the module *)
Theorem sweep_used m m1 u : gc_sweep m = Ok m1 -> used m = Ok u -> used m1 = Ok u.
Proof.
  intros H Hu. destruct (gc_shape m m1 H) as [u' [Hu' R]]. rewrite Hu in Hu'. injection Hu' as <-.
  destruct (G.used_inv m u Hu) as (rs & U & Hr & Hw & Hcase).
  assert (HUu : incl U u).
  { destruct Hcase as [->|(mid & v & rest & _ & _ & _ & ->)]; [apply incl_refl|apply incl_tl, incl_refl]. }
  destruct (G.gc_fields m m1 u H Hu) as (_ & _ & _ & Em & _ & _ & _).
  unfold used in Hu |- *. rewrite Hr in Hu. cbn [rbind] in Hu. rewrite Hw in Hu. cbn [rbind] in Hu.
  rewrite (sweep_roots m m1 rs H Hr). cbn [rbind]. rewrite (sweep_n_entities m m1 H).
  rewrite (wl_transfer m m1 _ _ U Hw (init_stack_sub rs)).
  2:{ intros x Hx. apply same_at_succ, (gc_same_at m m1 u H R), HUu, Hx. }
  cbn [rbind]. rewrite (delete_unused_aiter _ _ _ Em).
  destruct (used_of U S_data) as [|d ds]; [destruct (used_of U S_memory); exact Hu|].
  destruct (used_of U S_memory) as [|x xs] eqn:EM; [|exact Hu].
  destruct (aiter (m_memories m)) as [|[mid v] rest]; [exact Hu|].
  injection Hu as <-. cbn [filter fst].
  replace (existsb (N.eqb mid) (used_of ((S_memory, mid) :: U) S_memory)) with true
    by (symmetry; apply keep_used; left; reflexivity).
  reflexivity.
Qed.

(* ====================================================================================== *)
(* 5. The sweep is idempotent at module level (no premise)                                  *)
(* ====================================================================================== *)
Lemma gc_sweep_unfold m u : used m = Ok u ->
  gc_sweep m =
  rbind (delete_unused (m_imports m) (map fst (filter (fun p => imp_used u (snd p)) (aiter (m_imports m))))) (fun ia =>
  rbind (delete_unused (m_tables m) (used_of u S_table)) (fun ta =>
  rbind (delete_unused (m_globals m) (used_of u S_global)) (fun ga =>
  rbind (delete_unused (m_memories m) (used_of u S_memory)) (fun ma =>
  rbind (delete_unused (m_data m) (used_of u S_data)) (fun da =>
  rbind (delete_unused (m_elements m) (used_of u S_elem)) (fun ea =>
  rbind (types_delete_unused (m_types m) (used_of u S_type)) (fun tya =>
  rbind (delete_unused (m_funcs m) (used_of u S_func)) (fun fa =>
  Ok (set_funcs (set_types (set_elements (set_data (set_memories (set_globals (set_tables (set_imports m ia) ta) ga) ma) da) ea) tya) fa))))))))).
Proof. intros Hu. unfold gc_sweep. rewrite Hu. reflexivity. Qed.

Lemma wir_eta m :
  set_funcs (set_types (set_elements (set_data (set_memories (set_globals (set_tables (set_imports m (m_imports m))
    (m_tables m)) (m_globals m)) (m_memories m)) (m_data m)) (m_elements m)) (m_types m)) (m_funcs m) = m.
Proof. destruct m. reflexivity. Qed.

Theorem gc_sweep_idempotent m m1 : gc_sweep m = Ok m1 -> gc_sweep m1 = Ok m1.
Proof.
  intros H. destruct (gc_shape m m1 H) as [u [Hu R]].
  destruct (G.gc_fields m m1 u H Hu) as (Ef & Et & Eg & Em & Ed & Ee & Ety).
  rewrite (gc_sweep_unfold m1 u (sweep_used m m1 u H Hu)).
  rewrite (delete_unused_all_kept (m_imports m1)).
  2:{ intros id i Hg. apply existsb_exists. exists id. split; [|apply N.eqb_refl].
      apply in_map_iff. exists (id, i). split; [reflexivity|]. apply filter_In. split; [apply aiter_aget; exact Hg|].
      cbn [snd]. apply (gr_imports _ _ _ R) in Hg. apply Hg. }
  cbn [rbind].
  rewrite (delete_unused_again _ _ _ _ Et (fun _ h => h)). cbn [rbind].
  rewrite (delete_unused_again _ _ _ _ Eg (fun _ h => h)). cbn [rbind].
  rewrite (delete_unused_again _ _ _ _ Em (fun _ h => h)). cbn [rbind].
  rewrite (delete_unused_again _ _ _ _ Ed (fun _ h => h)). cbn [rbind].
  rewrite (delete_unused_again _ _ _ _ Ee (fun _ h => h)). cbn [rbind].
  rewrite (types_delete_unused_again _ _ _ _ Ety (fun _ h => h)). cbn [rbind].
  rewrite (delete_unused_again _ _ _ _ Ef (fun _ h => h)). cbn [rbind].
  f_equal. apply wir_eta.
Qed.

Print Assumptions gc_sweep_idempotent.

(* ====================================================================================== *)
(* 6. Worklist facts with no premise on the graph: how many pops a successful run made,     *)
(*    a run inside a closed set with enough fuel succeeds, the result is the least set      *)
(* ====================================================================================== *)
Section WlCount.
  Variable X : Type.
  Variable eqb : X -> X -> bool.
  Hypothesis eqb_spec : forall a b, eqb a b = true <-> a = b.
  Variable stacked : X -> bool.
  Variable succ : X -> option (list X).
  Notation awl := (G.awl eqb stacked succ).
  Notation apush := (G.apush eqb stacked).
  Notation fs := (filter stacked).

  (* a successful run: the result is duplicate free and the pops (stacked members of the result) fit in the fuel *)
  Lemma awl_pops : forall fuel s U, awl fuel s = Some U ->
    NoDup (G.used s) -> NoDup (G.stack s) -> incl (G.stack s) (G.used s) ->
    NoDup U /\ length (fs U) + length (G.stack s) < fuel + length (fs (G.used s)).
  Proof.
    induction fuel as [|f IH]; intros s U H Hnu Hns Hsub; [discriminate|].
    cbn [G.awl] in H. destruct (G.stack s) as [|x rest] eqn:Es.
    - inversion H; subst. split; [exact Hnu|]. cbn [length]. lia.
    - destruct (succ x) as [ys|] eqn:Ex; [|discriminate].
      inversion Hns as [|? ? Hxr Hnr]; subst.
      assert (Hsub' : incl rest (G.used s)) by (intros z Hz; apply Hsub; right; exact Hz).
      set (s0 := {| G.used := G.used s; G.stack := rest |}) in *.
      destruct (G.push_spec X eqb eqb_spec stacked ys s0 Hnu Hnr Hsub') as (new & E1 & E2 & A & B & C & D).
      cbn [G.used G.stack s0] in *.
      destruct (IH _ _ H) as [I1 I2].
      + rewrite E1. exact A.
      + rewrite E2. exact B.
      + rewrite E1, E2. intros z Hz. apply in_app_or in Hz. apply in_or_app. destruct Hz as [Hz|Hz].
        * left. apply filter_In in Hz. apply Hz.
        * right. auto.
      + split; [exact I1|]. rewrite E1, E2 in I2. rewrite filter_app, !app_length in I2. cbn [length]. lia.
  Qed.

  Lemma awl_pops_init roots fuel U :
    awl fuel (fold_left apush roots {| G.used := []; G.stack := [] |}) = Some U ->
    NoDup U /\ length (fs U) < fuel.
  Proof.
    intros H.
    destruct (G.push_spec X eqb eqb_spec stacked roots {| G.used := []; G.stack := [] |}) as (new & E1 & E2 & A & B & C & D);
      [constructor|constructor|intros ? []|].
    cbn [G.used G.stack] in *. rewrite app_nil_r in *.
    destruct (awl_pops _ _ _ H) as [I1 I2].
    - rewrite E1. exact A.
    - rewrite E2. exact B.
    - rewrite E1, E2. intros z Hz. apply filter_In in Hz. apply Hz.
    - split; [exact I1|]. rewrite E1, E2 in I2. lia.
  Qed.

  Section Total.
    Variable V W : list X.
    Hypothesis Vcl : forall x, In x V -> stacked x = true -> exists ys, succ x = Some ys /\ incl ys V.
    Hypothesis Wnd : NoDup W.
    Hypothesis VW : forall x, In x V -> stacked x = true -> In x W.

    Lemma fs_le l : NoDup l -> incl l V -> length (fs l) <= length W.
    Proof.
      intros Hn Hi. apply NoDup_incl_length; [apply NoDup_filter, Hn|].
      intros z Hz. apply filter_In in Hz. apply VW; [apply Hi|]; apply Hz.
    Qed.

    Lemma awl_total : forall fuel s,
      NoDup (G.used s) -> NoDup (G.stack s) -> incl (G.stack s) (G.used s) ->
      (forall x, In x (G.stack s) -> stacked x = true) -> incl (G.used s) V ->
      (length W - length (fs (G.used s))) + length (G.stack s) < fuel ->
      exists U, awl fuel s = Some U /\ incl U V.
    Proof.
      induction fuel as [|f IH]; intros s Hnu Hns Hsub Hstk HV Hm; [lia|].
      cbn [G.awl]. destruct (G.stack s) as [|x rest] eqn:Es.
      - exists (G.used s). split; [reflexivity|exact HV].
      - assert (HxV : In x V) by (apply HV, Hsub; left; reflexivity).
        assert (Hxs : stacked x = true) by (apply Hstk; left; reflexivity).
        destruct (Vcl x HxV Hxs) as [ys [Ex Hys]]. rewrite Ex.
        inversion Hns as [|? ? Hxr Hnr]; subst.
        assert (Hsub' : incl rest (G.used s)) by (intros z Hz; apply Hsub; right; exact Hz).
        set (s0 := {| G.used := G.used s; G.stack := rest |}) in *.
        destruct (G.push_spec X eqb eqb_spec stacked ys s0 Hnu Hnr Hsub') as (new & E1 & E2 & A & B & C & D).
        cbn [G.used G.stack s0] in *.
        assert (HV' : incl (new ++ G.used s) V).
        { intros z Hz. apply in_app_or in Hz. destruct Hz as [Hz|Hz]; [apply Hys, C, Hz|apply HV, Hz]. }
        apply IH.
        + rewrite E1. exact A.
        + rewrite E2. exact B.
        + rewrite E1, E2. intros z Hz. apply in_app_or in Hz. apply in_or_app. destruct Hz as [Hz|Hz].
          * left. apply filter_In in Hz. apply Hz.
          * right. auto.
        + rewrite E2. intros z Hz. apply in_app_or in Hz. destruct Hz as [Hz|Hz].
          * apply filter_In in Hz. apply Hz.
          * apply Hstk. right. exact Hz.
        + rewrite E1. exact HV'.
        + pose proof (fs_le _ A HV') as Hle. rewrite E1, E2. rewrite filter_app, !app_length in *.
          cbn [length] in Hm. lia.
    Qed.

    Lemma awl_total_init roots fuel : incl roots V -> length W < fuel ->
      exists U, awl fuel (fold_left apush roots {| G.used := []; G.stack := [] |}) = Some U /\ incl U V.
    Proof.
      intros Hr Hf.
      destruct (G.push_spec X eqb eqb_spec stacked roots {| G.used := []; G.stack := [] |}) as (new & E1 & E2 & A & B & C & D);
        [constructor|constructor|intros ? []|].
      cbn [G.used G.stack] in *. rewrite app_nil_r in *.
      assert (HV' : incl new V) by (intros z Hz; apply Hr, C, Hz).
      apply awl_total.
      - rewrite E1. exact A.
      - rewrite E2. exact B.
      - rewrite E1, E2. intros z Hz. apply filter_In in Hz. apply Hz.
      - rewrite E2. intros z Hz. apply filter_In in Hz. apply Hz.
      - rewrite E1. exact HV'.
      - pose proof (fs_le _ A HV') as Hle. rewrite E1, E2. lia.
    Qed.
  End Total.
End WlCount.

Lemma push_used_in s y z : In z (u_used (push s y)) -> In z (u_used s) \/ z = y.
Proof. unfold push. destruct (mem_ent y (u_used s)); cbn [u_used]; [auto|]. intros [<-|Hz]; auto. Qed.

Lemma fold_push_used_in ys : forall s z, In z (u_used (fold_left push ys s)) -> In z (u_used s) \/ In z ys.
Proof.
  induction ys as [|y ys IH]; intros s z Hz; cbn [fold_left] in Hz; [left; exact Hz|].
  destruct (IH _ _ Hz) as [H|H]; [|right; right; exact H].
  destruct (push_used_in _ _ _ H) as [H'| ->]; [left; exact H'|right; left; reflexivity].
Qed.

(* the worklist result is included in every set containing the start set and closed under the successors *)
Theorem wl_least m (P : ent -> Prop) :
  (forall x ys y, P x -> succ m x = Ok ys -> In y ys -> P y) ->
  forall fuel s U, wl fuel m s = Ok U -> incl (u_stack s) (u_used s) ->
  (forall x, In x (u_used s) -> P x) -> forall x, In x U -> P x.
Proof.
  intros Pcl. induction fuel as [|f IH]; intros s U H Hs HP; [discriminate H|]. cbn [wl] in H.
  destruct (u_stack s) as [|x rest] eqn:Es; [injection H as <-; exact HP|].
  destruct (succ m x) as [ys| |] eqn:Ex; cbn [rbind] in H; try discriminate H.
  apply (IH _ _ H).
  - apply fold_push_stack_sub. cbn [u_used u_stack]. intros z Hz. apply Hs. right. exact Hz.
  - intros z Hz. apply fold_push_used_in in Hz. cbn [u_used] in Hz. destruct Hz as [Hz|Hz]; [apply HP, Hz|].
    apply (Pcl x ys z); [apply HP, Hs; left; reflexivity|exact Ex|exact Hz].
Qed.

(* ====================================================================================== *)
(* 7. After the declaration step: the module with the one new declared segment              *)
(* ====================================================================================== *)
Definition dm (m1 : wir) (fs : list N) : wir := set_elements m1 (fst (aalloc (m_elements m1) (decl_seg fs))).

Lemma dm_succ m1 fs x ys : succ m1 x = Ok ys -> succ (dm m1 fs) x = Ok ys.
Proof.
  destruct x as [s id]. unfold succ, dm. cbn [fst snd m_funcs m_tables m_globals m_memories m_data m_elements set_elements].
  destruct s; try exact (fun h => h).
  destruct (aget (m_elements m1) id) as [e|] eqn:E; [|discriminate]. rewrite (aalloc_old _ _ _ _ E). exact (fun h => h).
Qed.

Lemma dm_n_entities m1 fs : n_entities (dm m1 fs) = S (n_entities m1).
Proof.
  unfold n_entities, dm. cbn [m_funcs m_tables m_globals m_memories m_data m_elements m_types set_elements].
  rewrite aalloc_items, app_length. cbn [length]. lia.
Qed.

Lemma roots_of_In m elems x : In x (roots_of m elems) <-> In x (roots_of m []) \/ In x (concat elems).
Proof. unfold roots_of. cbn [concat]. rewrite !in_app_iff. cbn [In]. tauto. Qed.

Lemma dm_roots m1 fs rs : dead_in_range (m_elements m1) -> roots m1 = Ok rs ->
  exists rs2, roots (dm m1 fs) = Ok rs2 /\ incl rs rs2 /\ In (S_elem, anext (m_elements m1)) rs2 /\
              incl rs2 ((S_elem, anext (m_elements m1)) :: rs).
Proof.
  intros Hd Hr. rewrite roots_unfold in Hr |- *.
  destruct (rmapM (elem_root m1) (aiter (m_elements m1))) as [elems| |] eqn:Eel; cbn [rbind] in Hr; try discriminate Hr.
  injection Hr as <-. pose proof (rmapM_ok_inv _ _ _ Eel) as F1.
  assert (Hsame : forall p, elem_root (dm m1 fs) p = elem_root m1 p) by reflexivity.
  assert (Hnew : elem_root (dm m1 fs) (anext (m_elements m1), decl_seg fs) = Ok [(S_elem, anext (m_elements m1))]) by reflexivity.
  assert (Hel : forall id e, In (id, e) (aiter (m_elements (dm m1 fs))) <->
                             In (id, e) (aiter (m_elements m1)) \/ (id = anext (m_elements m1) /\ e = decl_seg fs)).
  { intros id e. rewrite !aiter_aget. unfold dm. cbn [m_elements set_elements]. split.
    - apply aalloc_inv.
    - intros [Hg|[-> ->]]; [apply aalloc_old, Hg|apply aalloc_new, Hd]. }
  destruct (rmapM_total (elem_root (dm m1 fs)) (aiter (m_elements (dm m1 fs)))) as [elems2 E2].
  { intros [id e] Hp. apply Hel in Hp. destruct Hp as [Hp|[-> ->]].
    - destruct (Forall2_in_l _ _ _ F1 _ Hp) as [b [_ Hb]]. exists b. rewrite Hsame. exact Hb.
    - eexists. exact Hnew. }
  rewrite E2. cbn [rbind]. eexists. split; [reflexivity|]. pose proof (rmapM_ok_inv _ _ _ E2) as F2.
  assert (H0 : roots_of (dm m1 fs) [] = roots_of m1 []) by reflexivity.
  split; [|split].
  - intros x Hx. apply roots_of_In in Hx. apply roots_of_In. rewrite H0. destruct Hx as [Hx|Hx]; [left; exact Hx|right].
    apply in_concat in Hx. destruct Hx as [b [Hb Hxb]]. destruct (Forall2_in_r _ _ _ F1 _ Hb) as [[id e] [Hp Hpb]].
    assert (Hp2 : In (id, e) (aiter (m_elements (dm m1 fs)))) by (apply Hel; left; exact Hp).
    destruct (Forall2_in_l _ _ _ F2 _ Hp2) as [b2 [Hb2 Hpb2]]. rewrite Hsame, Hpb in Hpb2. injection Hpb2 as <-.
    apply in_concat. exists b. split; assumption.
  - apply roots_of_In. right.
    assert (Hp2 : In (anext (m_elements m1), decl_seg fs) (aiter (m_elements (dm m1 fs)))) by (apply Hel; right; auto).
    destruct (Forall2_in_l _ _ _ F2 _ Hp2) as [b2 [Hb2 Hpb2]]. rewrite Hnew in Hpb2. injection Hpb2 as <-.
    apply in_concat. eexists. split; [exact Hb2|left; reflexivity].
  - intros x Hx. apply roots_of_In in Hx. rewrite H0 in Hx. destruct Hx as [Hx|Hx]; [right; apply roots_of_In; left; exact Hx|].
    apply in_concat in Hx. destruct Hx as [b2 [Hb2 Hxb]]. destruct (Forall2_in_r _ _ _ F2 _ Hb2) as [[id e] [Hp Hpb]].
    apply Hel in Hp. destruct Hp as [Hp|[-> ->]].
    + right. apply roots_of_In. right. destruct (Forall2_in_l _ _ _ F1 _ Hp) as [b [Hb Hpb1]].
      rewrite Hsame, Hpb1 in Hpb. injection Hpb as <-. apply in_concat. exists b. split; assumption.
    + rewrite Hnew in Hpb. injection Hpb as <-. destruct Hxb as [<-|[]]. left. reflexivity.
Qed.

Lemma used_of_In u s id : In id (used_of u s) <-> In (s, id) u.
Proof. rewrite <- keep_used. symmetry. apply existsb_eqb_In. Qed.

Lemma imp_used_mono u u2 i : incl u u2 -> imp_used u i = true -> imp_used u2 i = true.
Proof. intros Hi. unfold imp_used. destruct (im_kind i); rewrite !G.mem_ent_In; apply Hi. Qed.

Lemma is_type_fst x : G.is_type x = true -> fst x = S_type.
Proof. unfold G.is_type. destruct (fst x); try discriminate; reflexivity. Qed.

(* sweeping the module with the new declared segment deletes nothing *)
Theorem declared_sweep_fix m m1 fs u : gc_sweep m = Ok m1 -> used m = Ok u ->
  dead_in_range (m_elements m1) -> (forall f, In f fs -> liveF m1 f) ->
  gc_sweep (dm m1 fs) = Ok (dm m1 fs).
Proof.
  intros H Hu Hd Hlive. destruct (gc_shape m m1 H) as [u' [Hu' R]]. rewrite Hu in Hu'. injection Hu' as <-.
  pose proof (sweep_used m m1 u H Hu) as Hu1.
  destruct (G.used_inv m1 u Hu1) as (rs & U & Hr & Hw & Hcase).
  destruct (wl_closed m1 rs _ U Hw) as [HrsU HclU].
  assert (HUu : incl U u).
  { destruct Hcase as [->|(mid & v & rest & _ & _ & _ & ->)]; [apply incl_refl|apply incl_tl, incl_refl]. }
  assert (Hnm : forall x, In x u -> fst x <> S_memory -> In x U).
  { destruct Hcase as [->|(mid & v & rest & _ & _ & _ & ->)]; [auto|]. intros x [<-|Hx] Hm; [cbn in Hm; congruence|exact Hx]. }
  set (new := anext (m_elements m1)). set (enew := (S_elem, new) : ent). set (m2 := dm m1 fs).
  assert (HnewU : ~ In enew U).
  { intros Hin. destruct (HclU _ Hin eq_refl) as [ys [Hys _]]. unfold succ in Hys. cbn [fst snd enew] in Hys.
    unfold new in Hys. rewrite aalloc_old_none in Hys. discriminate Hys. }
  pose proof Hw as Hw'. apply res_opt_some in Hw'. rewrite G.wl_awl, G.fold_push_apush in Hw'.
  change (G.to_ast {| u_used := []; u_stack := [] |}) with (G.Build_ast (X:=ent) [] []) in Hw'.
  destruct (awl_pops_init ent ent_eqb G.ent_eqb_spec G.ent_stacked (G.succ_opt m1) rs _ U Hw') as [HndU Hpops].
  assert (HfsU : forall f, In f fs -> In (S_func, f) U).
  { intros f Hf. destruct (Hlive f Hf) as [v Hv]. apply (gr_funcs _ _ _ R) in Hv. apply Hnm; [apply Hv|cbn; discriminate]. }
  destruct (dm_roots m1 fs rs Hd Hr) as (rs2 & Hr2 & Hrs12 & Hnew2 & Hrs2V). fold new enew m2 in Hr2, Hnew2, Hrs2V.
  assert (Hgnew : aget (m_elements m2) new = Some (decl_seg fs)).
  { unfold m2, dm, new. cbn [m_elements set_elements]. apply aalloc_new, Hd. }
  set (V := enew :: U).
  assert (Vcl : forall x, In x V -> G.ent_stacked x = true -> exists ys, G.succ_opt m2 x = Some ys /\ incl ys V).
  { intros x [<-|Hx] Hs.
    - unfold G.succ_opt, succ. cbn [fst snd enew]. rewrite Hgnew. cbn [decl_seg el_items el_kind G.res_opt].
      eexists. split; [reflexivity|]. intros y Hy. apply in_app_or in Hy. destruct Hy as [Hy|[]].
      apply in_map_iff in Hy. destruct Hy as [f [<- Hf]]. right. apply HfsU, Hf.
    - assert (Ht : G.is_type x = false) by (unfold G.ent_stacked in Hs; destruct (G.is_type x); [discriminate|reflexivity]).
      destruct (HclU x Hx Ht) as [ys [Hys Hin]]. exists ys. split; [|intros y Hy; right; apply Hin, Hy].
      unfold G.succ_opt, m2. rewrite (dm_succ m1 fs x ys Hys). reflexivity. }
  assert (HndV : NoDup V) by (constructor; assumption).
  set (W := filter G.ent_stacked V).
  assert (HlenW : length W < S (S (n_entities m2))).
  { unfold W, V, m2. cbn [filter G.ent_stacked G.is_type fst enew negb length]. rewrite dm_n_entities. lia. }
  assert (Hrs2V' : incl rs2 V).
  { intros x Hx. destruct (Hrs2V x Hx) as [<-|Hx']; [left; reflexivity|right; apply HrsU, Hx']. }
  destruct (awl_total_init ent ent_eqb G.ent_eqb_spec G.ent_stacked (G.succ_opt m2) V W Vcl
              (fun x Hx Hs => proj2 (filter_In _ _ _) (conj Hx Hs)) rs2 _ Hrs2V' HlenW)
    as (U2 & HwA & HU2V).
  assert (Hw2 : wl (S (S (n_entities m2))) m2 (fold_left push rs2 {| u_used := []; u_stack := [] |}) = Ok U2).
  { apply res_opt_some. rewrite G.wl_awl, G.fold_push_apush. exact HwA. }
  destruct (wl_closed m2 rs2 _ U2 Hw2) as [Hrs2U2 HclU2].
  assert (Pcl : forall x ys y, In x U2 -> succ m1 x = Ok ys -> In y ys -> In y U2).
  { intros x ys y Hx Hys Hy. destruct (G.is_type x) eqn:Ht.
    + rewrite (succ_type m1 x (is_type_fst x Ht)) in Hys. injection Hys as <-. destruct Hy.
    + destruct (HclU2 x Hx Ht) as [ys' [Hys' Hin]]. apply (dm_succ m1 fs) in Hys. fold m2 in Hys.
      rewrite Hys in Hys'. injection Hys' as <-. apply Hin, Hy. }
  assert (Hroots : forall x, In x (u_used (fold_left push rs {| u_used := []; u_stack := [] |})) -> In x U2).
  { intros x Hx. apply fold_push_used_in in Hx. cbn [u_used] in Hx. destruct Hx as [[]|Hx]. apply Hrs2U2, Hrs12, Hx. }
  assert (HUU2 : incl U U2).
  { intros z Hz. exact (wl_least m1 (fun x => In x U2) Pcl _ _ U Hw (init_stack_sub rs) Hroots z Hz). }
  assert (HnewU2 : In enew U2) by (apply Hrs2U2, Hnew2).
  assert (G1 : forall u2, incl U2 u2 -> (forall x, In x U -> In x u2) /\ In enew u2).
  { intros u2 Hi. split; [intros x Hx; apply Hi, HUU2, Hx|apply Hi, HnewU2]. }
  assert (Hu2 : exists u2, used m2 = Ok u2 /\ incl u u2 /\ In enew u2).
  { unfold used. rewrite Hr2. cbn [rbind]. rewrite Hw2. cbn [rbind].
    change (aiter (m_memories m2)) with (aiter (m_memories m1)).
    destruct Hcase as [->|(mid & v & rest & Hmem & HnoM & HD & ->)].
    - destruct (used_of U2 S_data); destruct (used_of U2 S_memory); destruct (aiter (m_memories m1)) as [|[? ?] ?];
        eexists; (split; [reflexivity|]); apply G1; try apply incl_refl; apply incl_tl, incl_refl.
    - assert (HM2 : used_of U2 S_memory = []).
      { destruct (used_of U2 S_memory) as [|i l] eqn:E; [reflexivity|exfalso].
        assert (Hi : In i (used_of U2 S_memory)) by (rewrite E; left; reflexivity).
        apply used_of_In, HU2V in Hi. destruct Hi as [Hi|Hi]; [discriminate Hi|].
        apply used_of_In in Hi. rewrite HnoM in Hi. exact Hi. }
      assert (HD2 : used_of U2 S_data <> []).
      { destruct (used_of U S_data) as [|d ds] eqn:E; [congruence|].
        assert (Hi : In d (used_of U S_data)) by (rewrite E; left; reflexivity).
        apply used_of_In, HUU2, used_of_In in Hi. intros E2. rewrite E2 in Hi. exact Hi. }
      rewrite HM2, Hmem. destruct (used_of U2 S_data); [congruence|].
      eexists. split; [reflexivity|]. destruct (G1 ((S_memory, mid) :: U2) (incl_tl _ (incl_refl _))) as [A B].
      split; [|exact B]. intros x [<-|Hx]; [left; reflexivity|apply A, Hx]. }
  destruct Hu2 as (u2 & Hu2 & Huu2 & Hnewu2).
  assert (Kmono : forall s id, existsb (N.eqb id) (used_of u s) = true -> existsb (N.eqb id) (used_of u2 s) = true).
  { intros s id Hk. apply keep_used. apply Huu2. apply keep_used. exact Hk. }
  destruct (G.gc_fields m m1 u H Hu) as (Ef & Et & Eg & Em & Ed & Ee & Ety).
  rewrite (gc_sweep_unfold m2 u2 Hu2).
  change (m_imports m2) with (m_imports m1). change (m_tables m2) with (m_tables m1).
  change (m_globals m2) with (m_globals m1). change (m_memories m2) with (m_memories m1).
  change (m_data m2) with (m_data m1). change (m_types m2) with (m_types m1). change (m_funcs m2) with (m_funcs m1).
  rewrite (delete_unused_all_kept (m_imports m1)).
  2:{ intros id i Hg. apply existsb_exists. exists id. split; [|apply N.eqb_refl].
      apply in_map_iff. exists (id, i). split; [reflexivity|]. apply filter_In. split; [apply aiter_aget; exact Hg|].
      cbn [snd]. apply (gr_imports _ _ _ R) in Hg. apply (imp_used_mono u u2 i Huu2), Hg. }
  cbn [rbind].
  rewrite (delete_unused_again _ _ _ _ Et (Kmono S_table)). cbn [rbind].
  rewrite (delete_unused_again _ _ _ _ Eg (Kmono S_global)). cbn [rbind].
  rewrite (delete_unused_again _ _ _ _ Em (Kmono S_memory)). cbn [rbind].
  rewrite (delete_unused_again _ _ _ _ Ed (Kmono S_data)). cbn [rbind].
  rewrite (delete_unused_all_kept (m_elements m2)).
  2:{ intros id e Hg. apply keep_used. unfold m2, dm in Hg. cbn [m_elements set_elements] in Hg.
      apply aalloc_inv in Hg. destruct Hg as [Hg|[-> _]]; [|exact Hnewu2].
      apply Huu2. apply (gr_elements _ _ _ R) in Hg. apply Hg. }
  cbn [rbind].
  rewrite (types_delete_unused_again _ _ _ _ Ety (Kmono S_type)). cbn [rbind].
  rewrite (delete_unused_again _ _ _ _ Ef (Kmono S_func)). cbn [rbind].
  f_equal; exact (wir_eta m2).
Qed.

(* ====================================================================================== *)
(* 8. The whole pass                                                                        *)
(* ====================================================================================== *)
(* the sweep of a second run deletes nothing (the added declared segment is a root) *)
Theorem gc_then_sweep_idempotent m m2 : dead_in_range (m_elements m) -> gc m = Ok m2 -> gc_sweep m2 = Ok m2.
Proof.
  intros Hdr H. destruct (gc_inv_full m m2 H) as [m1 [Hs Hd]].
  destruct (declare_inv m1 m2 Hd) as [fs [Hud [[-> ->]|[Hne ->]]]]; [exact (gc_sweep_idempotent m m1 Hs)|].
  destruct (gc_shape m m1 Hs) as [u [Hu _]].
  apply (declared_sweep_fix m m1 fs u Hs Hu).
  - apply (sweep_elements_dir m m1 Hs Hdr).
  - intros f Hf. destruct (undeclared_funcs_inv m1 fs Hud) as [refd [Hr Efs]].
    rewrite Efs in Hf. apply sort_ids_members, filter_In in Hf.
    exact (sweep_referenced_live m m1 refd Hs Hr f (proj1 Hf)).
Qed.

(* C07 at module level: a second run of the pass returns its input *)
Theorem gc_idempotent_partial m m1 : dead_in_range (m_elements m) -> gc m = Ok m1 -> gc m1 = Ok m1.
Proof.
  intros Hdr H. apply (gc_declare_idempotent_partial m m1 Hdr H). exact (gc_then_sweep_idempotent m m1 Hdr H).
Qed.

Theorem gc_idempotent_after_parse cf ver w s m1 : parseM cf ver w = POk s -> gc (ps_m s) = Ok m1 -> gc m1 = Ok m1.
Proof.
  intros HP. apply gc_idempotent_partial. apply nil_dead_in_range.
  pose proof (parseM_ids _ _ _ _ HP) as I. unfold ids_consistent in I. decompose [and] I. assumption.
Qed.

(* the premise on the tombstones of the element arena cannot be dropped in the model: with a tombstone on the next id the
   new segment is born dead, the reference stays undeclared, and every further run appends one more segment *)
Theorem gc_idempotent_refuted : exists m m1 m2, gc m = Ok m1 /\ gc m1 = Ok m2 /\ m2 <> m1.
Proof.
  exists (w_mod [1]), (res_get (w_mod [1]) (gc (w_mod [1]))), (res_get (w_mod [1]) (gc (res_get (w_mod [1]) (gc (w_mod [1]))))).
  split; [vm_compute; reflexivity|]. split; [vm_compute; reflexivity|].
  intros E. apply (f_equal (fun m => length (items (m_elements m)))) in E. vm_compute in E. discriminate E.
Qed.

Print Assumptions gc_then_sweep_idempotent.
Print Assumptions gc_idempotent_partial.
Print Assumptions gc_idempotent_after_parse.
Print Assumptions gc_idempotent_refuted.
