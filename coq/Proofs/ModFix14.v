(* Facts about the operators written by the first emit, and facts about the second parse that need
   only (W). *)
From Coq Require Import List NArith Bool Lia Setoid. Import ListNotations.
From WV Require Import Gen.Ops Model.Common Model.IR Model.ParseFn Model.ParseSpec Model.EmitFn
  Model.BodySpec Model.Sem Model.EmitSpec Model.Traversal.
From WV Require Import Proofs.ParseFn Proofs.Codec Proofs.Body Proofs.Sem Proofs.Escalation Proofs.Fixpoint
  Proofs.EmitFn Proofs.Traversal Proofs.ModFix10.
Local Open Scope nat_scope.

(* ================================================================== X1 *)
Lemma log2_loop_bound : forall f k x acc, (x < 2 ^ N.of_nat (S k))%N ->
  (log2_loop f x acc <= acc + N.of_nat k)%N.
Proof.
  induction f as [|f IH]; intros k x acc H; cbn [log2_loop]; [lia|].
  destruct (N.ltb_spec 1 x) as [Hx|Hx]; [|lia].
  destruct k as [|k].
  - change (2 ^ N.of_nat 1)%N with 2%N in H. lia.
  - specialize (IH k (N.shiftr x 1) (acc + 1)%N).
    assert (Hs : (N.shiftr x 1 < 2 ^ N.of_nat (S k))%N).
    { rewrite N.shiftr_div_pow2. change (2 ^ 1)%N with 2%N.
      apply N.div_lt_upper_bound; [lia|].
      replace (N.of_nat (S (S k))) with (N.succ (N.of_nat (S k))) in H by lia.
      rewrite N.pow_succ_r' in H. exact H. }
    specialize (IH Hs). lia.
Qed.
Lemma enc_align_ok id2i mem a off :
  (wa_align (enc_memarg id2i mem {| ia_align := a mod 2 ^ 32; ia_offset := off |}) < 32)%N.
Proof.
  unfold enc_memarg. cbn [wa_align ia_align].
  pose proof (log2_loop_bound 64 31 (a mod 2 ^ 32) 0) as B.
  assert (H : (a mod 2 ^ 32 < 2 ^ N.of_nat 32)%N) by (apply N.mod_lt; discriminate).
  specialize (B H). lia.
Qed.
Lemma enc_offset_ok id2i mem a off :
  ~ (2 ^ 32 <= wa_offset (enc_memarg id2i mem {| ia_align := a; ia_offset := off mod 2 ^ 32 |}))%N.
Proof.
  unfold enc_memarg. cbn [wa_offset ia_offset].
  assert (H : (off mod 2 ^ 32 < 2 ^ 32)%N) by (apply N.mod_lt; discriminate). lia.
Qed.

Definition plain_ok (o : wop) : Prop :=
  imm_ok o /\ ~ known_big_offset o /\ (forall f, decode_plain f o <> None).

Lemma dec_enc_props : forall i2id id2i o0 p o,
  decode_plain i2id o0 = Some p -> encode_plain id2i p = Some o -> plain_ok o.
Proof.
  intros i2id id2i o0 p o H H0.
  destruct o0; cbn [decode_plain] in H;
  repeat match type of H with match ?x with _ => _ end = _ => destruct x end;
  try discriminate H; injection H as <-; cbn [encode_plain] in H0;
  repeat match type of H0 with match ?x with _ => _ end = _ => destruct x end;
  try discriminate H0; injection H0 as <-;
  try match goal with r : refty |- _ => destruct r end;
  (split; [cbn [imm_ok op_memarg]; split; first [apply enc_align_ok | exact I]
         |split; [cbn [known_big_offset op_memarg]; first [apply enc_offset_ok | intros []]
                 |intros f; cbn [decode_plain]; discriminate]]).
Qed.

(* ------------------------------------------------------------------ a property of every emitted instruction, from the source *)
Section FromSource.
  Variable cx : pctx.
  Variable ecx : ectx.
  Variable G : wins -> Prop.
  Hypothesis Hop : forall o, decode_plain (px_i2id cx) o <> None -> G (nf_op cx ecx o).
  Hypothesis Hbt : forall bt, bt_ok cx bt ->
    G (WBlock (nf_bt cx ecx bt)) /\ G (WLoop (nf_bt cx ecx bt)) /\ G (WIf (nf_bt cx ecx bt)).
  Hypothesis Hnop : G WNop.
  Hypothesis Hend : G WEnd.
  Hypothesis Helse : G WElse.
  Hypothesis Hbr : forall d, G (WBr d).
  Hypothesis Hbrif : forall d, G (WBrIf d).
  Hypothesis Hbrt : forall ds d, G (WBrTable ds d).

  Definition Gp (p : wins * N) : Prop := G (fst p).
  Definition Xt (t : rt) : Prop := forall k, wf cx k t -> Forall Gp (flat' cx ecx t).
  Definition Xl (l : list rt) : Prop := forall k, wfl cx k l -> Forall Gp (flat_list' cx ecx l).
  Lemma Xl_of_Forall l : Forall Xt l -> Xl l.
  Proof.
    induction 1 as [|t l Ht Hl IH]; intros k Hw; [constructor|].
    destruct Hw as [Hw1 Hw2].
    change (flat_list' cx ecx (t :: l)) with (flat' cx ecx t ++ flat_list' cx ecx l).
    apply Forall_app. split; [apply (Ht k Hw1)|apply (IH k Hw2)].
  Qed.
  Lemma Xt_all : forall t, Xt t.
  Proof.
    induction t as [o l|l|d l|d l|ds d l|bt body l e HF|bt body l e HF|bt th el l e HFt HFe] using rt_ind';
      intros k Hw.
    - cbn [flat']. constructor; [|constructor]. apply Hop. exact Hw.
    - cbn [flat']. constructor; [exact Hnop|constructor].
    - cbn [flat']. constructor; [apply Hbr|constructor].
    - cbn [flat']. constructor; [apply Hbrif|constructor].
    - cbn [flat']. constructor; [apply Hbrt|constructor].
    - rewrite wf_block in Hw. destruct Hw as [Hb Hw]. cbn [flat']. fold (flat_list' cx ecx body).
      constructor; [apply (Hbt bt Hb)|]. apply Forall_app. split; [apply (Xl_of_Forall _ HF _ Hw)|].
      constructor; [exact Hend|constructor].
    - rewrite wf_loop in Hw. destruct Hw as [Hb Hw]. cbn [flat']. fold (flat_list' cx ecx body).
      constructor; [apply (Hbt bt Hb)|]. apply Forall_app. split; [apply (Xl_of_Forall _ HF _ Hw)|].
      constructor; [exact Hend|constructor].
    - rewrite wf_if in Hw. destruct Hw as (Hb & Hw1 & Hw2). destruct el as [[le eb]|].
      + cbn [optP snd] in HFe. cbn [flat']. fold (flat_list' cx ecx th). fold (flat_list' cx ecx eb).
        constructor; [apply (Hbt bt Hb)|]. apply Forall_app. split; [apply (Xl_of_Forall _ HFt _ Hw1)|].
        constructor; [exact Helse|]. apply Forall_app. split; [apply (Xl_of_Forall _ HFe _ Hw2)|].
        constructor; [exact Hend|constructor].
      + cbn [flat']. fold (flat_list' cx ecx th).
        constructor; [apply (Hbt bt Hb)|]. apply Forall_app. split; [apply (Xl_of_Forall _ HFt _ Hw1)|].
        constructor; [exact Helse|]. constructor; [exact Hend|constructor].
  Qed.

  Theorem emitted_from_source : forall ety rs l eloc p0 ar1 st1 fuel1,
    wfl cx 1 l ->
    parse_body cx ety rs (flat_list l ++ [(WEnd, eloc)]) = Ok ar1 ->
    emit_body ecx fuel1 ar1 0 p0 = Ok st1 ->
    Forall G (out st1).
  Proof.
    intros ety rs l eloc p0 ar1 st1 fuel1 Hw Hp He.
    destruct (first_trip_facts _ _ _ _ _ _ _ _ _ _ Hw (enc_ok_all cx ecx) Hp He) as [Ho _].
    rewrite nf_body_ops in Ho. rewrite Ho. apply Forall_app. split; [|constructor; [exact Hend|constructor]].
    apply Forall_map.
    assert (HA : Forall Xt (fst (nf_rt_list false l))) by (apply Forall_forall; intros t _; apply Xt_all).
    exact (Xl_of_Forall _ HA 1 (wfl_nf_rt cx 1 false l Hw)).
  Qed.
End FromSource.

Definition plain_ok_w (w : wins) : Prop := match w with WOp o => plain_ok o | _ => True end.

Lemma nf_op_plain_ok cx ecx o : decode_plain (px_i2id cx) o <> None -> plain_ok_w (nf_op cx ecx o).
Proof.
  intros Hd. unfold nf_op, dec.
  destruct (decode_plain (px_i2id cx) o) as [p|] eqn:Ed; [|now elim Hd].
  destruct (encode_plain (ex_id2i ecx) p) as [w|] eqn:Ee; [|exact I].
  cbn [plain_ok_w]. eapply dec_enc_props; eassumption.
Qed.

(* X1 *)
Theorem emitted_ops_plain : forall cx ecx ety rs l eloc p0 ar1 st1 fuel1,
  wfl cx 1 l ->
  parse_body cx ety rs (flat_list l ++ [(WEnd, eloc)]) = Ok ar1 ->
  emit_body ecx fuel1 ar1 0 p0 = Ok st1 ->
  Forall (fun w => match w with
                   | WOp o => imm_ok o /\ ~ known_big_offset o /\ (forall f, decode_plain f o <> None)
                   | _ => True end) (out st1).
Proof.
  intros cx ecx ety rs l eloc p0 ar1 st1 fuel1 Hw Hp He.
  refine (emitted_from_source cx ecx plain_ok_w (nf_op_plain_ok cx ecx) _ I I I _ _ _ ety rs l eloc p0 ar1 st1 fuel1 Hw Hp He);
    intros; cbn [plain_ok_w]; auto.
Qed.

Corollary emitted_op_fixed : forall cx ecx ety rs l eloc p0 ar1 st1 fuel1 cx2 ecx2 o,
  wfl cx 1 l ->
  parse_body cx ety rs (flat_list l ++ [(WEnd, eloc)]) = Ok ar1 ->
  emit_body ecx fuel1 ar1 0 p0 = Ok st1 ->
  In (WOp o) (out st1) ->
  map_idx (fun s i => ex_id2i ecx2 s (px_i2id cx2 s i)) o = o -> nf_op cx2 ecx2 o = WOp o.
Proof.
  intros cx ecx ety rs l eloc p0 ar1 st1 fuel1 cx2 ecx2 o Hw Hp He Hin Hm.
  pose proof (emitted_ops_plain _ _ _ _ _ _ _ _ _ _ Hw Hp He) as HF.
  rewrite Forall_forall in HF. specialize (HF _ Hin). cbn in HF. destruct HF as (Hi & Hb & _).
  apply nf_op_fixed_at; assumption.
Qed.

Print Assumptions emitted_ops_plain.
Print Assumptions emitted_op_fixed.

(* ================================================================== X4: the second parse, under (W) only *)
Section RenW.
  Variable cx : pctx.
  Variable ecx : ectx.
  Definition renw (w : wins) : wins :=
    match w with
    | WOp o => nf_op cx ecx o
    | WBlock bt => WBlock (nf_bt cx ecx bt) | WLoop bt => WLoop (nf_bt cx ecx bt) | WIf bt => WIf (nf_bt cx ecx bt)
    | w => w
    end.
  Definition Ft' (t : rt) : Prop := is_nf_t t -> map fst (flat' cx ecx t) = map renw (map fst (flat t)).
  Definition Fl' (l : list rt) : Prop := is_nf l -> map fst (flat_list' cx ecx l) = map renw (map fst (flat_list l)).
  Lemma Fl'_of_Forall l : Forall Ft' l -> Fl' l.
  Proof.
    induction 1 as [|t l Ht Hl IH]; intros Hn; [reflexivity|].
    destruct Hn as (Hnt & _ & Hnl).
    change (flat_list (t :: l)) with (flat t ++ flat_list l).
    change (flat_list' cx ecx (t :: l)) with (flat' cx ecx t ++ flat_list' cx ecx l).
    rewrite !map_app, (Ht Hnt), (IH Hnl). reflexivity.
  Qed.
  Lemma Ft'_all : forall t, Ft' t.
  Proof.
    induction t as [o l|l|d l|d l|ds d l|bt body l e HF|bt body l e HF|bt th el l e HFt HFe] using rt_ind';
      intros Hn.
    - reflexivity.
    - reflexivity.
    - reflexivity.
    - reflexivity.
    - reflexivity.
    - rewrite is_nf_block in Hn. cbn [flat' flat]. fold (flat_list' cx ecx body). fold (flat_list body).
      cbn [map fst]. rewrite !map_app, (Fl'_of_Forall _ HF Hn). reflexivity.
    - rewrite is_nf_loop in Hn. cbn [flat' flat]. fold (flat_list' cx ecx body). fold (flat_list body).
      cbn [map fst]. rewrite !map_app, (Fl'_of_Forall _ HF Hn). reflexivity.
    - destruct el as [[le eb]|]; [|elim Hn]. rewrite is_nf_if_some in Hn. destruct Hn as [Hn1 Hn2].
      cbn [optP snd] in HFe. cbn [flat' flat].
      fold (flat_list' cx ecx th). fold (flat_list' cx ecx eb). fold (flat_list th). fold (flat_list eb).
      cbn [map fst]. rewrite !map_app. cbn [map fst]. rewrite !map_app.
      rewrite (Fl'_of_Forall _ HFt Hn1), (Fl'_of_Forall _ HFe Hn2). reflexivity.
  Qed.
  Theorem flat'_renw : forall l, is_nf l -> map fst (flat_list' cx ecx l) = map renw (map fst (flat_list l)).
  Proof. intros l. apply Fl'_of_Forall, Forall_forall. intros t _. apply Ft'_all. Qed.

  Lemma is_instr_renw w : is_instr (renw w) = is_instr w.
  Proof. destruct w; try reflexivity. cbn [renw]. unfold nf_op. destruct (encode_plain (ex_id2i ecx) (dec cx o)); reflexivity. Qed.
  Lemma count_instr_renw ws : count_instr (map renw ws) = count_instr ws.
  Proof.
    unfold count_instr. induction ws as [|w ws IH]; [reflexivity|].
    cbn [map filter]. rewrite is_instr_renw. destruct (is_instr w); cbn [length]; now rewrite IH.
  Qed.
End RenW.

(* the second trip's own emitted stream, for ANY emit context *)
Lemma second_trip_out cx2 ecx' ety2 rs2 L1 eloc1 p0 ar2 st2 fuel2 :
  wfl cx2 1 L1 -> is_nf L1 ->
  parse_body cx2 ety2 rs2 (flat_list L1 ++ [(WEnd, eloc1)]) = Ok ar2 ->
  emit_body ecx' fuel2 ar2 0 p0 = Ok st2 ->
  out st2 = map (renw cx2 ecx') (map fst (flat_list L1 ++ [(WEnd, eloc1)])).
Proof.
  intros Hw Hn Hp He.
  destruct (first_trip_facts _ _ _ _ _ _ _ _ _ _ Hw (enc_ok_all cx2 ecx') Hp He) as [Ho _].
  rewrite nf_body_ops, (nf_rt_fixed _ Hn), (flat'_renw _ _ _ Hn) in Ho.
  rewrite Ho, !map_app. reflexivity.
Qed.

Definition T1 cx ecx ety rs l eloc p0 ar1 st1 fuel1 : Prop :=
  wfl cx 1 l /\ parse_body cx ety rs (flat_list l ++ [(WEnd, eloc)]) = Ok ar1 /\
  emit_body ecx fuel1 ar1 0 p0 = Ok st1.

Theorem second_parse_W : forall cx ecx ety rs l eloc p0 ar1 st1 fuel1 cx2 ety2 rs2,
  wfl cx 1 l -> parse_body cx ety rs (flat_list l ++ [(WEnd, eloc)]) = Ok ar1 ->
  emit_body ecx fuel1 ar1 0 p0 = Ok st1 ->
  let ops1 := combine (out st1) (map snd (imap st1)) in
  Forall (op_ok2 cx2) (map fst ops1) ->
  exists ar2, parse_body cx2 ety2 rs2 ops1 = Ok ar2.
Proof.
  intros cx ecx ety rs l eloc p0 ar1 st1 fuel1 cx2 ety2 rs2 Hw Hp He ops1 HW.
  destruct (emitted_ops_shape cx ecx ety rs l eloc p0 ar1 st1 fuel1 cx2 Hw Hp He HW) as (L1 & eloc1 & _ & _ & _ & Hpa).
  eexists. apply Hpa.
Qed.

Theorem second_size_W : forall cx ecx ety rs l eloc p0 ar1 st1 fuel1 cx2 ety2 rs2 ar2 f1 f2 evs1 evs2,
  wfl cx 1 l -> parse_body cx ety rs (flat_list l ++ [(WEnd, eloc)]) = Ok ar1 ->
  emit_body ecx fuel1 ar1 0 p0 = Ok st1 ->
  let ops1 := combine (out st1) (map snd (imap st1)) in
  Forall (op_ok2 cx2) (map fst ops1) ->
  parse_body cx2 ety2 rs2 ops1 = Ok ar2 ->
  dfs_in_order false f1 ar1 0 = Ok evs1 -> dfs_in_order false f2 ar2 0 = Ok evs2 ->
  n_instr evs2 = n_instr evs1 /\ n_instr evs1 = count_instr (map fst ops1).
Proof.
  intros cx ecx ety rs l eloc p0 ar1 st1 fuel1 cx2 ety2 rs2 ar2 f1 f2 evs1 evs2 Hw Hp He ops1 HW Hp2 Hd1 Hd2.
  destruct (emitted_ops_shape cx ecx ety rs l eloc p0 ar1 st1 fuel1 cx2 Hw Hp He HW) as (L1 & eloc1 & Hops & HW1 & Hn & _).
  fold ops1 in Hops.
  destruct (emitted_ops_structured _ _ _ _ _ _ _ _ _ _ Hw (enc_ok_all _ _) Hp He) as (_ & _ & _ & _ & _ & Hfst & _ & _).
  fold ops1 in Hfst.
  pose proof (trip_count _ _ _ _ _ _ _ _ _ _ _ _ Hw (enc_ok_all _ _) Hp He Hd1) as C1.
  rewrite Hops in Hp2.
  destruct (roundtrip_body cx2 ecx ety2 rs2 L1 eloc1 p0 HW1 (enc_ok_all _ _)) as (ar & st2 & fuel2 & Hp' & He2 & _).
  rewrite Hp2 in Hp'. injection Hp' as <-.
  pose proof (trip_count _ _ _ _ _ _ _ _ _ _ _ _ HW1 (enc_ok_all _ _) Hp2 He2 Hd2) as C2.
  rewrite (second_trip_out _ _ _ _ _ _ _ _ _ _ HW1 Hn Hp2 He2), count_instr_renw, <- Hops in C2.
  rewrite Hfst. split; [now rewrite C1, C2, Hfst|exact C1].
Qed.

Print Assumptions second_parse_W.
Print Assumptions second_size_W.

(* ------------------------------------------------------------------ used locals / data flag of the second parse *)
Definition mapr (g : space -> N -> N) (l : list (space * N)) : list (space * N) :=
  map (fun r => (fst r, g (fst r) (snd r))) l.
Lemma wop_refs_map_idx g o : wop_refs (map_idx g o) = mapr g (wop_refs o).
Proof. destruct o; reflexivity. Qed.
Lemma sel_mapr f S0 g : (forall s, f s = true -> s = S0) ->
  forall l, sel f (mapr g l) = map (g S0) (sel f l).
Proof.
  intros Hf. induction l as [|[s i] l IH]; [reflexivity|].
  unfold sel, mapr in *. cbn [map filter fst snd]. destruct (f s) eqn:E.
  - pose proof (Hf s E) as ->. cbn [map snd]. now rewrite IH.
  - exact IH.
Qed.

Definition ecxI : ectx := {| ex_id2i := fun _ i => i; ex_ilen := fun _ => 0%N |}.
Lemma nf_op_ecxI cx2 o : plain_ok o -> nf_op cx2 ecxI o = WOp (map_idx (px_i2id cx2) o).
Proof.
  intros (Hi & Hb & _).
  exact (nf_op_codec (px_i2id cx2) (fun _ i => i) (px_i2id cx2) (fun _ _ => eq_refl) cx2 ecxI o eq_refl eq_refl Hi Hb).
Qed.
Lemma ops_sel_renw cx2 f S0 : (forall s, f s = true -> s = S0) ->
  forall ws, Forall plain_ok_w ws ->
  ops_sel f (map (renw cx2 ecxI) ws) = map (px_i2id cx2 S0) (ops_sel f ws).
Proof.
  intros Hf. induction 1 as [|w ws Hw _ IH]; [reflexivity|].
  cbn [map]. rewrite !ops_sel_cons, map_app, IH. f_equal.
  destruct w; try reflexivity. cbn [renw plain_ok_w] in *. rewrite (nf_op_ecxI cx2 o Hw).
  rewrite wop_refs_map_idx. apply sel_mapr. exact Hf.
Qed.
Lemma is_local_only s : is_local s = true -> s = S_local.
Proof. destruct s; cbn; intros H; try discriminate H; reflexivity. Qed.
Lemma is_data_only s : is_data s = true -> s = S_data.
Proof. destruct s; cbn; intros H; try discriminate H; reflexivity. Qed.

Theorem second_refs_W : forall cx ecx ety rs l eloc p0 ar1 st1 fuel1 cx2 ety2 rs2 ar2 f1 f2 evs1 evs2,
  wfl cx 1 l -> parse_body cx ety rs (flat_list l ++ [(WEnd, eloc)]) = Ok ar1 ->
  emit_body ecx fuel1 ar1 0 p0 = Ok st1 ->
  let ops1 := combine (out st1) (map snd (imap st1)) in
  Forall (op_ok2 cx2) (map fst ops1) ->
  parse_body cx2 ety2 rs2 ops1 = Ok ar2 ->
  dfs_in_order false f1 ar1 0 = Ok evs1 -> dfs_in_order false f2 ar2 0 = Ok evs2 ->
  WV.Model.Locals.used_of_log evs2 = map (px_i2id cx2 S_local) (ops_sel is_local (map fst ops1)) /\
  data_flag evs2 = data_flag evs1.
Proof.
  intros cx ecx ety rs l eloc p0 ar1 st1 fuel1 cx2 ety2 rs2 ar2 f1 f2 evs1 evs2 Hw Hp He ops1 HW Hp2 Hd1 Hd2.
  destruct (emitted_ops_shape cx ecx ety rs l eloc p0 ar1 st1 fuel1 cx2 Hw Hp He HW) as (L1 & eloc1 & Hops & HW1 & Hn & _).
  fold ops1 in Hops.
  destruct (emitted_ops_structured _ _ _ _ _ _ _ _ _ _ Hw (enc_ok_all _ _) Hp He) as (_ & _ & _ & _ & _ & Hfst & _ & _).
  fold ops1 in Hfst.
  assert (HP : Forall plain_ok_w (map fst ops1)).
  { rewrite Hfst. eapply Forall_impl; [|exact (emitted_ops_plain _ _ _ _ _ _ _ _ _ _ Hw Hp He)].
    intros w. destruct w; cbn [plain_ok_w]; auto. }
  destruct (trip_locals _ _ _ _ _ _ _ _ _ _ _ _ Hw (enc_ok_all _ _) Hp He Hd1) as [_ D1].
  rewrite Hops in Hp2.
  destruct (roundtrip_body cx2 ecxI ety2 rs2 L1 eloc1 p0 HW1 (enc_ok_all _ _)) as (ar & st2 & fuel2 & Hp' & He2 & _).
  rewrite Hp2 in Hp'. injection Hp' as <-.
  destruct (trip_locals _ _ _ _ _ _ _ _ _ _ _ _ HW1 (enc_ok_all _ _) Hp2 He2 Hd2) as [L2 D2].
  rewrite (second_trip_out _ _ _ _ _ _ _ _ _ _ HW1 Hn Hp2 He2), <- Hops in L2, D2.
  split.
  - rewrite (ops_sel_renw cx2 is_local S_local is_local_only _ HP) in L2.
    cbn [ecxI ex_id2i] in L2. rewrite map_id in L2. symmetry. exact L2.
  - rewrite (ops_sel_renw cx2 is_data S_data is_data_only _ HP) in D2.
    rewrite D1, D2, Hfst. destruct (ops_sel is_data (out st1)); reflexivity.
Qed.

Corollary second_used_W : forall cx ecx ety rs l eloc p0 ar1 st1 fuel1 cx2 ety2 rs2 ar2 f2 evs2,
  wfl cx 1 l -> parse_body cx ety rs (flat_list l ++ [(WEnd, eloc)]) = Ok ar1 ->
  emit_body ecx fuel1 ar1 0 p0 = Ok st1 ->
  let ops1 := combine (out st1) (map snd (imap st1)) in
  Forall (op_ok2 cx2) (map fst ops1) ->
  parse_body cx2 ety2 rs2 ops1 = Ok ar2 ->
  dfs_in_order false f2 ar2 0 = Ok evs2 ->
  WV.Model.Locals.used_of_log evs2 = map (px_i2id cx2 S_local) (ops_sel is_local (map fst ops1)).
Proof.
  intros cx ecx ety rs l eloc p0 ar1 st1 fuel1 cx2 ety2 rs2 ar2 f2 evs2 Hw Hp He ops1 HW Hp2 Hd2.
  pose proof (parsed_arena_den cx ety l eloc Hw) as HD.
  pose proof (Proofs.Traversal.dfs_in_order_spec false _ _ HD) as Hd1.
  rewrite (parsed_tree_tsid cx ety l eloc) in Hd1.
  pose proof Hp as Hp'. rewrite (parse_body_arena cx ety rs l eloc Hw) in Hp'. injection Hp' as E.
  rewrite E in Hd1.
  exact (proj1 (second_refs_W cx ecx ety rs l eloc p0 ar1 st1 fuel1 cx2 ety2 rs2 ar2 _ f2 _ evs2 Hw Hp He HW Hp2 Hd1 Hd2)).
Qed.

Corollary second_data_W : forall cx ecx ety rs l eloc p0 ar1 st1 fuel1 cx2 ety2 rs2 ar2 f1 f2 evs1 evs2,
  wfl cx 1 l -> parse_body cx ety rs (flat_list l ++ [(WEnd, eloc)]) = Ok ar1 ->
  emit_body ecx fuel1 ar1 0 p0 = Ok st1 ->
  let ops1 := combine (out st1) (map snd (imap st1)) in
  Forall (op_ok2 cx2) (map fst ops1) ->
  parse_body cx2 ety2 rs2 ops1 = Ok ar2 ->
  dfs_in_order false f1 ar1 0 = Ok evs1 -> dfs_in_order false f2 ar2 0 = Ok evs2 ->
  data_flag evs2 = data_flag evs1.
Proof.
  intros cx ecx ety rs l eloc p0 ar1 st1 fuel1 cx2 ety2 rs2 ar2 f1 f2 evs1 evs2 Hw Hp He ops1 HW Hp2 Hd1 Hd2.
  exact (proj2 (second_refs_W cx ecx ety rs l eloc p0 ar1 st1 fuel1 cx2 ety2 rs2 ar2 f1 f2 evs1 evs2 Hw Hp He HW Hp2 Hd1 Hd2)).
Qed.

Print Assumptions second_refs_W.
Print Assumptions second_used_W.
Print Assumptions second_data_W.

(* ================================================================== X2: index immediates of the emitted operators *)
Lemma map_memarg_fixed g m : g S_memory (wa_memory m) = wa_memory m -> map_memarg g m = m.
Proof. intros H. destruct m. unfold map_memarg. cbn in *. now rewrite H. Qed.
Lemma map_idx_fixed g o : (forall s i, In (s, i) (wop_refs o) -> g s i = i) -> map_idx g o = o.
Proof.
  destruct o; cbn [wop_refs map_idx]; intros H; try reflexivity;
    rewrite ?map_memarg_fixed by (apply H; cbn; auto);
    rewrite ?H by (cbn; auto 6); reflexivity.
Qed.
Lemma encode_refs_in id2i p w : encode_plain id2i p = Some w ->
  forall s i, In (s, i) (wop_refs w) -> exists id, In (s, id) (visited_refs p) /\ i = id2i s id.
Proof.
  intros H0.
  destruct p; cbn [encode_plain] in H0;
  repeat match type of H0 with match ?x with _ => _ end = _ => destruct x end;
  try discriminate H0; injection H0 as <-; cbn [wop_refs visited_refs enc_memarg wa_memory]; intros s i H; cbn [In] in H;
  repeat (destruct H as [H|H]; [injection H as <- <-; eexists; split; [|reflexivity]; cbn [In]; auto|]);
  try contradiction.
Qed.

Section OpsIn.
  Variable cx : ectx.
  Definition enc_of (w : wop) (x : instr * N) : Prop :=
    exists p, fst x = IPlain p /\ encode_plain (ex_id2i cx) p = Some w.
  Definition Pin (t : tree) : Prop := forall env k tg w, flt_tree cx env t k = Ok tg ->
    In (WOp w) (map snd tg) -> exists x, In x (instrs_in_order t) /\ enc_of w x.
  Definition Qin (it : item) : Prop := forall env loc tg w, flt_item cx env it loc = Ok tg ->
    In (WOp w) (map snd tg) -> exists x, In x ((shallow it, loc) :: item_nested it) /\ enc_of w x.
  Lemma flt_items_in items : Forall (fun x => Qin (fst x)) items ->
    forall env tg w, flt_items cx env items = Ok tg -> In (WOp w) (map snd tg) ->
    exists x, In x (flat_map (fun x => item_instr x :: item_nested (fst x)) items) /\ enc_of w x.
  Proof.
    induction 1 as [|x l Hx _ IH]; intros env tg w Hf Hin; cbn [flt_items] in Hf.
    - inversion Hf; subst. elim Hin.
    - apply rbind_ok in Hf as (a & Ha & Hf). apply rmap_ok in Hf as (b & Hb & ->).
      rewrite map_app in Hin. apply in_app_or in Hin. cbn [flat_map]. destruct Hin as [Hin|Hin].
      + destruct (Hx _ _ _ _ Ha Hin) as (y & Hy & He). exists y. split; [|exact He].
        apply in_or_app. left. exact Hy.
      + destruct (IH _ _ _ Hb Hin) as (y & Hy & He). exists y. split; [|exact He].
        apply in_or_app. right. exact Hy.
  Qed.
  Theorem flt_in_both : (forall t, Pin t) /\ (forall it, Qin it).
  Proof.
    apply tree_item_ind.
    - intros s ty items e HQ env k tg w Hf Hin. rewrite flt_tree_T in Hf. apply rmap_ok in Hf as (b & Hb & ->).
      rewrite map_app in Hin. apply in_app_or in Hin. destruct Hin as [Hin|Hin].
      + rewrite instrs_T. apply (flt_items_in _ HQ _ _ _ Hb Hin).
      + destruct k; cbn in Hin; destruct Hin as [Hin|[]]; discriminate Hin.
    - intros pl env loc tg w Hf Hin. cbn [flt_item] in Hf.
      destruct (encode_plain (ex_id2i cx) pl) as [w'|] eqn:E; inversion Hf; subst.
      cbn in Hin. destruct Hin as [Hin|[]]. injection Hin as ->.
      exists (IPlain pl, loc). split; [left; reflexivity|]. exists pl. split; [reflexivity|exact E].
    - intros s env loc tg w Hf Hin. cbn [flt_item] in Hf. apply rmap_ok in Hf as (d & _ & ->).
      cbn in Hin. destruct Hin as [Hin|[]]. discriminate Hin.
    - intros s env loc tg w Hf Hin. cbn [flt_item] in Hf. apply rmap_ok in Hf as (d & _ & ->).
      cbn in Hin. destruct Hin as [Hin|[]]. discriminate Hin.
    - intros ss d env loc tg w Hf Hin. cbn [flt_item] in Hf. apply rbind_ok in Hf as (dd & _ & Hf).
      apply rmap_ok in Hf as (ds & _ & ->). cbn in Hin. destruct Hin as [Hin|[]]. discriminate Hin.
    - intros t Pt env loc tg w Hf Hin. rewrite flt_item_B in Hf. apply rmap_ok in Hf as (tg' & Hf & ->).
      cbn [map snd In] in Hin. destruct Hin as [Hin|Hin]; [discriminate Hin|].
      destruct (Pt _ _ _ _ Hf Hin) as (y & Hy & He). exists y. split; [right; exact Hy|exact He].
    - intros t Pt env loc tg w Hf Hin. rewrite flt_item_L in Hf. apply rmap_ok in Hf as (tg' & Hf & ->).
      cbn [map snd In] in Hin. destruct Hin as [Hin|Hin]; [discriminate Hin|].
      destruct (Pt _ _ _ _ Hf Hin) as (y & Hy & He). exists y. split; [right; exact Hy|exact He].
    - intros c a Pc Pa env loc tg w Hf Hin. rewrite flt_item_I in Hf. apply rbind_ok in Hf as (x & Hx & Hf).
      apply rmap_ok in Hf as (y & Hy & ->).
      cbn [map snd In] in Hin. destruct Hin as [Hin|Hin]; [discriminate Hin|].
      rewrite map_app in Hin. apply in_app_or in Hin. cbn [item_nested]. destruct Hin as [Hin|Hin].
      + destruct (Pc _ _ _ _ Hx Hin) as (z & Hz & He). exists z. split; [right; apply in_or_app; left; exact Hz|exact He].
      + destruct (Pa _ _ _ _ Hy Hin) as (z & Hz & He). exists z. split; [right; apply in_or_app; right; exact Hz|exact He].
  Qed.

  (* for ANY emitted arena *)
  Theorem emitted_refs_any : forall ar t tg p0 f1 f2 evs st o,
    Den ar t -> flt_tree cx [] t KEntry = Ok tg ->
    dfs_in_order false f1 ar (tsid t) = Ok evs -> emit_body cx f2 ar (tsid t) p0 = Ok st ->
    In (WOp o) (out st) ->
    forall s i, In (s, i) (wop_refs o) -> exists id, In (ERef s id) evs /\ i = ex_id2i cx s id.
  Proof.
    intros ar t tg p0 f1 f2 evs st o HD Hf Hd He Hin s i Hr.
    pose proof (Proofs.Traversal.dfs_in_order_spec false ar t HD) as Hs.
    rewrite (dfs_det _ _ _ _ _ _ _ Hd Hs).
    destruct (emit_body_spec cx ar t tg p0 _ HD Hs Hf) as (st' & He' & Ho & _).
    rewrite (emit_body_det _ _ _ _ _ _ _ _ He He'), Ho in Hin.
    destruct (proj1 flt_in_both t [] KEntry tg o Hf Hin) as ([ins loc] & Hx & p & Ep & Ee).
    cbn [fst] in Ep. subst ins.
    destruct (encode_refs_in _ _ _ Ee s i Hr) as (id & Hv & ->).
    exists id. split; [|reflexivity].
    assert (HI : In (s, id) (flat_map (fun e => match e with ERef sp id => [(sp, id)] | _ => [] end) (events false t))).
    { rewrite in_order_refs. apply in_flat_map. exists (IPlain p, loc). split; [exact Hx|].
      unfold ref_count. cbn. rewrite ?app_nil_r. exact Hv. }
    apply in_flat_map in HI. destruct HI as (e & He1 & He2).
    destruct e; cbn in He2; try contradiction. destruct He2 as [He2|[]]. injection He2 as -> ->. exact He1.
  Qed.
End OpsIn.

(* X2 *)
Theorem emitted_refs : forall cx ecx ety rs l eloc p0 ar1 st1 fuel1 f1 evs1 o,
  wfl cx 1 l -> parse_body cx ety rs (flat_list l ++ [(WEnd, eloc)]) = Ok ar1 ->
  emit_body ecx fuel1 ar1 0 p0 = Ok st1 ->
  dfs_in_order false f1 ar1 0 = Ok evs1 ->
  In (WOp o) (out st1) ->
  forall s i, In (s, i) (wop_refs o) -> exists id, In (ERef s id) evs1 /\ i = ex_id2i ecx s id.
Proof.
  intros cx ecx ety rs l eloc p0 ar1 st1 fuel1 f1 evs1 o Hw Hp He Hd.
  rewrite (parse_body_arena cx ety rs l eloc Hw) in Hp. injection Hp as <-.
  pose proof (parsed_arena_den cx ety l eloc Hw) as HD.
  pose proof (flt_parsed_tree cx ecx ety l eloc Hw (enc_ok_all _ _)) as Hf.
  rewrite <- (parsed_tree_tsid cx ety l eloc) in He, Hd.
  exact (emitted_refs_any ecx _ _ _ _ _ _ _ _ o HD Hf Hd He).
Qed.

Print Assumptions map_idx_fixed.
Print Assumptions emitted_refs.

(* ================================================================== X3: the emitted block types *)
(* an emitted block type is inline, or the emit-time index of a NON-ENTRY type [ty] of the first
   parse's type table which [existing] finds as itself (hence: params non-empty or >= 2 results) *)
Definition bt_shape (cx : pctx) (ecx : ectx) (b : blockty) : Prop :=
  b = BT_Empty \/ (exists t, b = BT_Val t) \/
  exists ty ps' rs', b = BT_Func (ex_id2i ecx S_type ty) /\
    nth_N (px_types cx) ty = Some (ps', rs', false) /\
    existing cx ps' rs' = Some (ST_Multi ty) /\ (ps' <> [] \/ 2 <= length rs').

Lemma nf_bt_shape cx ecx bt : bt_ok cx bt -> bt_shape cx ecx (nf_bt cx ecx bt).
Proof.
  unfold bt_ok, nf_bt, bt_seqty. destruct (bt_tys cx bt) as [[ps rs]|]; [|intros []].
  destruct (existing cx ps rs) as [[[t|]|ty]|] eqn:Ee; [| | |intros H; now elim H]; intros _; cbn [block_type].
  - right. left. eauto.
  - left. reflexivity.
  - right. right. apply existing_multi in Ee. destruct Ee as [Hft Hshape]. unfold find_type in Hft.
    destruct (find_type_from_hit _ _ _ _ _ Hft) as (p & r & Hn & _ & Hp & Hr).
    rewrite N.sub_0_r in Hn.
    pose proof (vlist_eqb_length _ _ Hp) as Lp. pose proof (vlist_eqb_length _ _ Hr) as Lr.
    assert (Hsh : p <> [] \/ 2 <= length r).
    { destruct Hshape as [Hs|Hs]; [left|right; lia].
      intros ->. destruct ps; [now elim Hs|discriminate Lp]. }
    exists ty, p, r. split; [reflexivity|]. split; [exact Hn|]. split; [|exact Hsh].
    apply existing_multi. split; [|exact Hsh].
    unfold find_type. rewrite <- Hft. apply find_type_from_congr; apply vlist_eqb_congr; assumption.
Qed.

Definition bt_shape_w (cx : pctx) (ecx : ectx) (w : wins) : Prop :=
  match w with WBlock b | WLoop b | WIf b => bt_shape cx ecx b | _ => True end.

Theorem emitted_bts : forall cx ecx ety rs l eloc p0 ar1 st1 fuel1,
  wfl cx 1 l -> parse_body cx ety rs (flat_list l ++ [(WEnd, eloc)]) = Ok ar1 ->
  emit_body ecx fuel1 ar1 0 p0 = Ok st1 ->
  Forall (bt_shape_w cx ecx) (out st1).
Proof.
  intros cx ecx ety rs l eloc p0 ar1 st1 fuel1 Hw Hp He.
  refine (emitted_from_source cx ecx (bt_shape_w cx ecx) _ _ I I I _ _ _ ety rs l eloc p0 ar1 st1 fuel1 Hw Hp He);
    try (intros; exact I).
  - intros o _. unfold nf_op. destruct (encode_plain (ex_id2i ecx) (dec cx o)); exact I.
  - intros bt Hb. cbn [bt_shape_w]. pose proof (nf_bt_shape cx ecx bt Hb). auto.
Qed.

(* how to use it for a second context: the same non-entry type at the position the second parse maps
   the emitted index to, found as itself, and written back at the same index *)
Lemma bt_shape_fixed cx ecx cx2 ecx2 b : bt_shape cx ecx b ->
  (forall ty ps' rs', b = BT_Func (ex_id2i ecx S_type ty) ->
     nth_N (px_types cx) ty = Some (ps', rs', false) -> existing cx ps' rs' = Some (ST_Multi ty) ->
     exists ty2 en, nth_N (px_types cx2) (px_i2id cx2 S_type (ex_id2i ecx S_type ty)) = Some (ps', rs', en) /\
                 existing cx2 ps' rs' = Some (ST_Multi ty2) /\
                 ex_id2i ecx2 S_type ty2 = ex_id2i ecx S_type ty) ->
  nf_bt cx2 ecx2 b = b /\ bt_ok cx2 b.
Proof.
  intros [->|[(t & ->)|(ty & ps' & rs' & -> & Hn & He & _)]] H.
  - split; [apply nf_bt_empty|]. unfold bt_ok. cbn. discriminate.
  - split; [apply nf_bt_val|]. unfold bt_ok. cbn. discriminate.
  - destruct (H ty ps' rs' eq_refl Hn He) as (ty2 & en & Hn2 & He2 & Hi2). split.
    + eapply nf_bt_fixed_func; eassumption.
    + unfold bt_ok. cbn [bt_tys]. rewrite Hn2, He2. discriminate.
Qed.

Print Assumptions emitted_bts.
Print Assumptions bt_shape_fixed.
